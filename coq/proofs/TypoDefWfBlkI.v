(* Helper library for TypoDefWfBlk.v, part I: Close of lists. *)
Require Import GM.model.Base GM.model.Util GM.model.Reader GM.model.ReaderSpec GM.model.Blocks GM.model.ListItem
               GM.model.LeafBlocks GM.model.CodeBlock GM.model.LinkDest GM.model.Regex GM.model.HtmlWriter
               GM.model.Html GM.model.HtmlSpec GM.model.BlockParse GM.model.InlineParse GM.model.TypoDefParseD.
Require Import GM.proofs.ReaderProofs GM.proofs.BlockRangeProofs GM.proofs.ParseInv
               GM.proofs.ParseBlocksRangeA GM.proofs.TypoDefWfBlkB GM.proofs.TypoDefWfBlkT GM.proofs.TypoDefWfBlkC
               GM.proofs.TypoDefWfBlkD.
From Coq Require Import ZArith Lia Sorted.
Open Scope Z_scope.

Section I.
Variable space_table punct_table : list N.
Variable norm : bytes -> bytes.
Variable re_t1o re_t1c re_t2 re_t3 re_t4 re_t5 re_t6 re_t7 : re.
Variable allowed_tags : list bytes.
Variable src : bytes.
Hypothesis sp32 : is_space space_table 32%N = true.
Set Default Proof Using "All".

(* lemmas of parts C and D take all the section variables: CC supplies them *)
Notation CC f := (f space_table punct_table norm re_t1o re_t1c re_t2 re_t3 re_t4 re_t5 re_t6 re_t7 allowed_tags src sp32) (only parsing).
Notation SInv := (SInv space_table src).
Notation HI := (HI space_table src).
Notation nodeP := (nodeP space_table src).
Notation heapS := (heapS space_table src).
Notation Jinv := (Jinv src).
Notation openS := (openS src).
Notation pline := (pline space_table src).
Notation oline := (oline src).
Notation fin_lines := (fin_lines src).
Notation fin := (fin src).
Notation cont_post := (cont_post space_table src).
Notation item_guard := (item_guard space_table).
Notation verdict := (verdict space_table).

(* ---------- list facts ---------- *)
Lemma nodup_app_disj {X} (l1 l2 : list X) x : NoDup (l1 ++ l2) -> In x l1 -> In x l2 -> False.
Proof.
  induction l1 as [|a t IH]; intros Hnd H1 H2; [destruct H1|]. cbn [app] in Hnd.
  inversion Hnd as [|? ? Ha Ht]; subst. destruct H1 as [->|H1].
  - apply Ha. apply in_or_app. right. exact H2.
  - exact (IH Ht H1 H2).
Qed.
Lemma nodup_app_r {X} (l1 l2 : list X) : NoDup (l1 ++ l2) -> NoDup l2.
Proof. induction l1 as [|a t IH]; intros Hnd; [exact Hnd|]. inversion Hnd; subst. auto. Qed.
Lemma nodup_mid_disj {X} (a b c : list X) x : NoDup (a ++ b ++ c) -> In x b -> In x (a ++ c) -> False.
Proof.
  intros Hnd Hb Hac. apply in_app_or in Hac. destruct Hac as [Ha|Hc].
  - eapply nodup_app_disj; [exact Hnd|exact Ha|]. apply in_or_app. left. exact Hb.
  - apply nodup_app_r in Hnd. eapply nodup_app_disj; eassumption.
Qed.

(* a node has one parent *)
Lemma child_parent h q y ny : heapS h -> child h q y -> nth_error h y = Some ny -> bpar ny = Some q.
Proof.
  intros HS [nq [Eq Hy]] Ey. destruct (hs_K _ _ _ HS q nq y Eq Hy) as [ny' [Ey' Py]]. congruence.
Qed.
Lemma child_unique h q q' y : heapS h -> child h q y -> child h q' y -> q = q'.
Proof.
  intros HS H1 [nq [Eq Hy]]. destruct (hs_K _ _ _ HS q' nq y Eq Hy) as [ny [Ey Py]].
  pose proof (child_parent h q y ny HS H1 Ey). congruence.
Qed.
Lemma child_neq h q y : heapS h -> child h q y -> y <> q.
Proof.
  intros HS Hc ->. destruct Hc as [nq [Eq Hy]]. destruct (hs_K _ _ _ HS q nq q Eq Hy) as [ny [Ey Py]].
  exact (hs_noself _ _ _ HS q ny Ey Py).
Qed.

(* the last of the blocks being closed, when it is no definition list, is not on the spine *)
Lemma closing_not_spine h ctx A D N node bp : heapS h -> openS h ctx A (D ++ [(node, bp)]) N -> bp <> PParagraph ->
  (forall nn, nth_error h node = Some nn -> is_dl nn = false) -> ~ In node (0%nat :: ids (A ++ N)).
Proof.
  intros HS HO Hbp Hndl Hin. pose proof (os_chain_last _ _ _ _ _ _ _ _ HO Hbp) as Hch.
  assert (In node (ids (D ++ [(node, bp)]))) as HnD.
  { rewrite ids_app. apply in_or_app. right. left. reflexivity. }
  destruct Hin as [Hin|Hin].
  - subst node. exact (chain_no_root _ _ _ _ _ HS Hch HnD).
  - rewrite ids_app in Hin. apply in_app_or in Hin. destruct Hin as [Hin|Hin].
    + pose proof (os_ndD _ _ _ _ _ _ HO) as Hnd. rewrite ids_app in Hnd. exact (nodup_app_disj _ _ _ Hnd Hin HnD).
    + destruct (os_dup _ _ _ _ _ _ HO node HnD Hin) as [nn [En Kn]]. rewrite (Hndl nn En) in Kn. discriminate.
Qed.

(* a paragraph child g of c, where c is the block being closed or one of its children, is not an opened block *)
Lemma para_not_opened h ctx A D N node bp c g gn : heapS h -> openS h ctx A (D ++ [(node, bp)]) N -> bp <> PParagraph ->
  (forall nn, nth_error h node = Some nn -> is_dl nn = false) ->
  c = node \/ child h node c -> child h c g -> nth_error h g = Some gn -> bk gn = BParagraph ->
  ~ In g (ids (A ++ (D ++ [(node, bp)]) ++ N)).
Proof.
  intros HS HO Hbp Hndl Hnc Hcg Eg Kg Hin.
  assert (forall z, child h g z -> False) as Hleaf.
  { intros z Hc. destruct (parent_container _ _ _ _ _ HS Hc) as [nq [Eq Kq]].
    assert (nq = gn) by congruence. subst nq. rewrite (CC cnt_not_html) in Kq by congruence. rewrite Kg in Kq. discriminate. }
  pose proof (os_spine _ _ _ _ _ _ HO) as Hsp. pose proof (os_chain_last _ _ _ _ _ _ _ _ HO Hbp) as Hch.
  pose proof (closing_not_spine _ _ _ _ _ _ _ HS HO Hbp Hndl) as Hns.
  assert (In g (ids (D ++ [(node, bp)])) \/ In g (ids (A ++ N))) as Hin'.
  { rewrite !ids_app in Hin. rewrite !ids_app. rewrite !in_app_iff in Hin. rewrite !in_app_iff. tauto. }
  clear Hin. destruct Hin' as [Hin|HgL].
  - (* in D ++ [node] *)
    destruct (Nat.eq_dec g (last (ids (D ++ [(node, bp)])) 0%nat)) as [E|E].
    + rewrite (CC ids_snoc) in E. rewrite last_app_single in E. cbn [fst] in E. subst g.
      destruct (os_pair _ _ _ _ _ _ HO node bp) as [n1 [E1 K1]].
      { apply in_or_app. right. apply in_or_app. left. apply in_or_app. right. left. reflexivity. }
      assert (n1 = gn) by congruence. subst n1. apply Hbp. destruct bp; cbn [pkind] in K1; congruence.
    + destruct (CC not_last_adj _ _ Hin E) as [z Hz]. apply (Hleaf z). apply Hch.
      apply Adj_cons. right. exact Hz.
  - (* on the spine *)
    apply spineL_chainL in Hsp.
    destruct (Nat.eq_dec g (last (ids (A ++ N)) 0%nat)) as [E|E].
    + destruct (in_adj_cons 0%nat _ _ HgL) as [q Hq]. pose proof (Hsp q g Hq) as Hqg.
      assert (q = c) by (eapply child_unique; eassumption). subst q.
      apply Adj_in in Hq. destruct Hq as [Hc _].
      destruct Hnc as [->|Hnc]; [exact (Hns Hc)|].
      destruct Hc as [Hc|Hc].
      * subst c. destruct (hs_root _ _ _ HS) as [n0 [E0 [_ P0]]].
        pose proof (child_parent _ _ _ _ HS Hnc E0). congruence.
      * destruct (in_adj_cons 0%nat _ _ Hc) as [q' Hq']. pose proof (Hsp q' c Hq') as Hq'c.
        assert (q' = node) by (eapply child_unique; eassumption). subst q'.
        apply Adj_in in Hq'. destruct Hq' as [Hn _]. exact (Hns Hn).
    + destruct (CC not_last_adj _ _ HgL E) as [z Hz]. apply (Hleaf z). apply Hsp. apply Adj_cons. right. exact Hz.
Qed.

(* ---------- openS when only child lists / parents of nodes that are not opened change ---------- *)
Lemma openS_data h h' c A D N : openS h c A D N -> data_le h h' ->
  (forall q y, In y (ids (A ++ D ++ N)) -> lastchild h q y -> lastchild h' q y) ->
  (forall q y, In y (ids (A ++ D ++ N)) -> child h q y -> child h' q y) -> openS h' c A D N.
Proof.
  intros HO Hle Hlc Hch. eapply openS_kind; [exact HO|apply data_kind_le; exact Hle| |exact Hlc|exact Hch].
  intros x n _ E. destruct (Hle x n E) as [n' [E' [_ L]]]. eauto.
Qed.

(* ---------- one replacement: paragraph g below item c becomes a text block ---------- *)
Lemma para_to_text fl s A D N node bp c g gn h :
  SInv fl s A (D ++ [(node, bp)]) N -> bp <> PParagraph -> (forall nn, nth_error (s_h s) node = Some nn -> is_dl nn = false) ->
  c = node \/ child (s_h s) node c -> child (s_h s) c g ->
  nth_error (s_h s) g = Some gn -> bk gn = BParagraph ->
  replace_child (s_h s ++ [set_lines (mknode BTextBlock 0) (blines gn)]) c g (length (s_h s)) = Ok h ->
  SInv fl (st_h s h) A (D ++ [(node, bp)]) N /\ (length (s_h s) <= length h)%nat /\
  (forall q y, child (s_h s) q y -> y <> g -> child h q y) /\
  (forall j m, nth_error (s_h s) j = Some m -> exists m', nth_error h j = Some m' /\ bki m' = bki m /\ b_tight m' = b_tight m /\
                 (j <> g -> bpar m' = bpar m)).
Proof.
  intros HS Hbp Hndl Hnc Hcg Eg Kg Hrep.
  pose proof HS as [HR [HB HHp HJ HO Hrf]].
  pose proof (para_not_opened _ _ _ _ _ _ _ _ _ _ HHp HO Hbp Hndl Hnc Hcg Eg Kg) as Hno.
  pose proof (child_parent _ _ _ _ HHp Hcg Eg) as Pg.
  assert (fin_lines (blines gn)) as Hfin.
  { destruct (HJ g gn Eg) as [Hf|Hin]; [congruence|apply Hf; left; exact Kg|contradiction]. }
  set (t := set_lines (mknode BTextBlock 0) (blines gn)) in *.
  assert (nodeP t) as Hnt.
  { constructor; cbn [t mknode set_lines blines b_seg bk b_i1 bch]; try discriminate; auto.
    apply (np_lines _ _ _ (hs_node _ _ _ HHp _ _ Eg)). }
  assert (SInv fl (st_h s (s_h s ++ [t])) A (D ++ [(node, bp)]) N) as HS1.
  { apply (CC SInv_alloc); auto. cbn. discriminate. }
  destruct HS1 as [HR1 [HB1 HHp1 HJ1 HO1 Hrf1]]. cbn [st_h s_h s_c s_r] in *.
  destruct Hcg as [nc [Ec Hgc]].
  pose proof (nth_some_lt _ _ _ Eg) as Lg. pose proof (nth_some_lt _ _ _ Ec) as Lc.
  assert (g <> c) as Hgc' by (intros ->; exact (hs_noself _ _ _ HHp c gn Eg Pg)).
  assert (length (s_h s) <> 0%nat) as Hl0.
  { destruct (hs_root _ _ _ HHp) as [n0 [E0 _]]. apply nth_some_lt in E0. lia. }
  assert (length (s_h s) <> c) as Hnc' by lia. assert (length (s_h s) <> g) as Hng' by lia.
  apply replace_child_spec in Hrep; [|assumption|lia|lia].
  destruct Hrep as [no [Eo Hrep]]. rewrite nth_error_app1 in Eo by exact Lg.
  assert (no = gn) by congruence. subst no.
  destruct Hrep as [[Hne _]|[_ [np [nn [Ep [En [Hlen [E1o [E1n [E1p E1x]]]]]]]]]]; [congruence|].
  rewrite nth_app_new in En. injection En as <-.
  assert (nth_error (s_h s ++ [t]) g = Some gn) as Eg1 by (rewrite nth_error_app1 by exact Lg; exact Eg).
  assert (nth_error (s_h s ++ [t]) (length (s_h s)) = Some t) as Et1 by apply nth_app_new.
  assert (forall q y, child (s_h s ++ [t]) q y -> y <> g -> child h q y) as Hck.
  { exact (replace_child_keep _ _ _ _ _ _ _ _ Eg1 Et1 Ep E1o E1n E1p E1x). }
  assert (forall q y, lastchild (s_h s ++ [t]) q y -> y <> g -> lastchild h q y) as Hlk.
  { exact (replace_lastchild _ _ _ _ _ _ _ _ Eg1 Et1 Ep E1o E1n E1p E1x). }
  csplit.
  - split; [exact HR|]. cbn [st_h s_h s_c s_r]. constructor.
    + exact (Bnd_replace _ _ _ _ _ _ _ _ Eg1 Et1 Ep E1o E1n E1p E1x _ HB1).
    + apply (heapS_replace _ _ _ _ _ _ _ _ _ _ Hgc' Hnc' Hng' Eg1 Et1 Ep Pg eq_refl eq_refl E1o E1n E1p E1x HHp1);
        [exact Hl0|cbn; discriminate].
    + apply (Jinv_replace _ _ _ _ _ _ _ _ _ Ep E1o E1n E1p E1x _ HJ1). intros [K|K]; cbn in K; discriminate.
    + eapply openS_data; [exact HO1| |intros q y Hy Hq|intros q y Hy Hq].
      * exact (replace_data_le _ _ _ _ _ _ _ _ Eg1 Et1 Ep E1o E1n E1p E1x).
      * apply Hlk; [exact Hq|]. intros ->. contradiction.
      * apply Hck; [exact Hq|]. intros ->. contradiction.
    + exact Hrf.
  - rewrite Hlen. rewrite app_length. lia.
  - intros q y Hq Hy. apply Hck; [|exact Hy]. eapply child_le; [apply shape_le_app|exact Hq].
  - intros j m Ej. pose proof (nth_some_lt _ _ _ Ej) as Lj.
    assert (nth_error (s_h s ++ [t]) j = Some m) as Ej1 by (rewrite nth_error_app1 by exact Lj; exact Ej).
    destruct (Nat.eq_dec j g) as [->|Hjg].
    + assert (m = gn) by congruence. subst m. eexists. split; [exact E1o|]. csplit; try reflexivity. congruence.
    + destruct (Nat.eq_dec j c) as [->|Hjc].
      * assert (m = np) by congruence. subst m. eexists. split; [exact E1p|]. csplit; reflexivity.
      * exists m. rewrite E1x by lia. csplit; auto.
Qed.

(* ---------- the two loops of Close (named copies of the local fixpoints of list_close) ---------- *)
Definition lc_kids (c : nat) : list nat -> st -> result st :=
  fix kids (gs : list nat) (s : st) : result st :=
    match gs with
    | [] => Ok s
    | g :: tl =>
      gn <- hget (s_h s) g ;;
      if bkind_eqb (bk gn) BParagraph then
        let '(s, t) := new_node s (set_lines (mknode BTextBlock 0) (blines gn)) in
        h <- replace_child (s_h s) c g t ;;
        kids tl (st_h s h)
      else kids tl s
    end.
Lemma lc_kids_cons c g tl s : lc_kids c (g :: tl) s =
  (gn <- hget (s_h s) g ;;
   if bkind_eqb (bk gn) BParagraph then
     let '(s, t) := new_node s (set_lines (mknode BTextBlock 0) (blines gn)) in
     h <- replace_child (s_h s) c g t ;;
     lc_kids c tl (st_h s h)
   else lc_kids c tl s).
Proof. reflexivity. Qed.
Fixpoint lc_items (cs : list nat) (s : st) : result st :=
  match cs with
  | [] => Ok s
  | c :: rest => cn <- hget (s_h s) c ;; s <- lc_kids c (bch cn) s ;; lc_items rest s
  end.

Lemma lc_kids_ok fl node A D N c gs : forall s s',
  SInv fl s A (D ++ [(node, PList)]) N -> child (s_h s) node c -> NoDup gs ->
  (forall g, In g gs -> child (s_h s) c g) -> lc_kids c gs s = Ok s' ->
  SInv fl s' A (D ++ [(node, PList)]) N /\ s_c s' = s_c s /\ s_r s' = s_r s /\
  (length (s_h s) <= length (s_h s'))%nat /\
  (forall q y, child (s_h s) q y -> ~ In y gs -> child (s_h s') q y) /\ kind_le (s_h s) (s_h s').
Proof.
  induction gs as [|g tl IH]; intros s s' HS Hnc Hnd Hgs H.
  - injection H as <-. csplit; auto. apply kind_le_refl.
  - rewrite lc_kids_cons in H. bind_inv H gn Eg. apply hget_ok in Eg. inversion Hnd as [|? ? Hg Htl]; subst.
    destruct (bkind_eqb (bk gn) BParagraph) eqn:Kg.
    + apply (CC bkind_eqb_eq) in Kg. rewrite (CC new_node_eq) in H. bind_inv H h Eh. cbn [st_h s_h] in Eh.
      assert (child (s_h s) c g) as Hcg by (apply Hgs; left; reflexivity).
      assert (forall nn, nth_error (s_h s) node = Some nn -> is_dl nn = false) as Hndl.
      { intros nn En. destruct HS as [_ HH].
        apply (CC entry_not_d _ _ _ _ _ node PList nn (hi_open _ _ _ _ _ _ _ _ HH)); [|exact En|discriminate].
        apply in_or_app. right. apply in_or_app. left. apply in_or_app. right. left. reflexivity. }
      destruct (para_to_text fl s A D N node PList c g gn h HS ltac:(discriminate) Hndl (or_intror Hnc) Hcg Eg Kg Eh) as [HS1 [Hl1 [Hk1 Hkl1]]].
      assert (kind_le (s_h s) h) as Hkind1.
      { intros j m Ej. destruct (Hkl1 j m Ej) as [m' [Ej' [Kj _]]]. eauto. }
      assert (st_h (st_h s (s_h s ++ [set_lines (mknode BTextBlock 0) (blines gn)])) h = st_h s h) as Est by reflexivity.
      rewrite Est in H. clear Est.
      pose proof (hi_heap _ _ _ _ _ _ _ _ (proj2 HS)) as HHp.
      destruct (IH (st_h s h) s' HS1) as [HS' [Ec' [Er' [Hl' [Hk' Hkl']]]]]; auto.
      * cbn [st_h s_h]. apply Hk1; [exact Hnc|]. apply (child_neq _ _ _ HHp) in Hcg. congruence.
      * cbn [st_h s_h]. intros y Hy. apply Hk1; [apply Hgs; right; exact Hy|]. intros ->. contradiction.
      * cbn [st_h s_h s_c s_r] in *. csplit; auto; [lia| |eapply kind_le_trans; eassumption].
        intros q y Hq Hy. apply Hk'; [apply Hk1; [exact Hq|]|]; intros E; apply Hy; [left; congruence|right; exact E].
    + destruct (IH s s' HS) as [HS' [Ec' [Er' [Hl' [Hk' Hkl']]]]]; auto.
      * intros y Hy. apply Hgs. right. exact Hy.
      * csplit; auto. intros q y Hq Hy. apply Hk'; [exact Hq|]. intros E. apply Hy. right. exact E.
Qed.

Lemma lc_items_ok fl node A D N cs : forall s s',
  SInv fl s A (D ++ [(node, PList)]) N -> (forall c, In c cs -> child (s_h s) node c) ->
  lc_items cs s = Ok s' ->
  SInv fl s' A (D ++ [(node, PList)]) N /\ s_c s' = s_c s /\ s_r s' = s_r s /\
  (length (s_h s) <= length (s_h s'))%nat /\ kind_le (s_h s) (s_h s').
Proof.
  induction cs as [|c rest IH]; intros s s' HS Hcs H; cbn [lc_items] in H.
  - injection H as <-. csplit; auto. apply kind_le_refl.
  - bind_inv H cn Ec. apply hget_ok in Ec. bind_inv H s1 E1.
    pose proof (hi_heap _ _ _ _ _ _ _ _ (proj2 HS)) as HHp.
    assert (child (s_h s) node c) as Hnc by (apply Hcs; left; reflexivity).
    destruct (lc_kids_ok fl node A D N c (bch cn) s s1 HS Hnc) as [HS1 [Ec1 [Er1 [Hl1 [Hk1 Hkl1]]]]]; auto.
    + exact (hs_nd _ _ _ HHp c cn Ec).
    + intros g Hg. exists cn. auto.
    + destruct (IH s1 s' HS1) as [HS' [Ec' [Er' [Hl' Hkl']]]]; auto.
      * intros c' Hc'. assert (child (s_h s) node c') as Hnc' by (apply Hcs; right; exact Hc').
        apply Hk1; [exact Hnc'|]. intros Hin.
        assert (child (s_h s) c c') as Hcc' by (exists cn; auto).
        pose proof (child_unique _ _ _ _ HHp Hnc' Hcc') as E. subst c.
        exact (child_neq _ _ _ HHp Hnc eq_refl).
      * csplit; auto; [congruence|congruence|lia|eapply kind_le_trans; eassumption].
Qed.

(* list.go Close: node is the last of the blocks being closed *)
Lemma list_close_ok fl s node s' A D N : SInv fl s A (D ++ [(node, PList)]) N ->
  list_close s node = Ok s' ->
  SInv fl s' A (D ++ [(node, PList)]) N /\ s_c s' = s_c s /\ s_r s' = s_r s /\
  (length (s_h s) <= length (s_h s'))%nat /\ kind_le (s_h s) (s_h s').
Proof.
  intros HS H. unfold list_close in H. bind_inv H n En. apply hget_ok in En.
  bind_inv H tight Et. clear Et. bind_inv H h Eh. apply hupd_ok in Eh. destruct Eh as [n' [En' ->]].
  assert (n' = n) by congruence. subst n'. clear En'.
  assert (In (node, PList) (A ++ (D ++ [(node, PList)]) ++ N)) as Hin.
  { apply in_or_app. right. apply in_or_app. left. apply in_or_app. right. left. reflexivity. }
  pose proof (hi_heap _ _ _ _ _ _ _ _ (proj2 HS)) as HHp.
  assert (SInv fl (st_h s (hset (s_h s) node (set_tight n tight))) A (D ++ [(node, PList)]) N) as HS1.
  { destruct (os_pair _ _ _ _ _ _ (hi_open _ _ _ _ _ _ _ _ (proj2 HS)) node PList Hin) as [n1 [E1 K1]].
    assert (n1 = n) by congruence. subst n1. cbn [pkind] in K1.
    apply (CC SInv_set_entry) with (bp := PList) (n := n); auto; try discriminate.
    - repeat split.
    - pose proof (hs_node _ _ _ HHp _ _ En) as Hn. apply (nodeP_same _ _ n); auto.
      intros Hk. cbn [set_tight bch]. exact (np_leaf _ _ _ Hn Hk).
    - cbn [set_tight bk]. congruence. }
  assert (kind_le (s_h s) (hset (s_h s) node (set_tight n tight))) as Hk0.
  { eapply kind_le_hset; [exact En|repeat split]. }
  destruct (negb tight).
  - injection H as <-. cbn [st_h s_h s_c s_r]. csplit; auto. rewrite length_hset. lia.
  - change (lc_items (bch n) (st_h s (hset (s_h s) node (set_tight n tight))) = Ok s') in H.
    destruct (lc_items_ok fl node A D N (bch n) _ s' HS1) as [HS' [Ec' [Er' [Hl' Hkl']]]]; auto.
    + intros c Hc. cbn [st_h s_h]. exists (set_tight n tight). split; [|exact Hc].
      apply nth_hset_eq. eapply nth_some_lt. exact En.
    + cbn [st_h s_h s_c s_r] in *. rewrite length_hset in Hl'. csplit; auto. eapply kind_le_trans; eassumption.
Qed.

End I.
