(* C01 for the Footnote parser model: the phases after the block phase never panic and never run
   out of fuel: the definitions read off the heap (initial_defs), the walk over the blocks
   (walk_blocks; the fuel bound comes from parent/child consistency: the nodes on a path from the
   document are distinct), the AST transformer on the heap, the conversion to the tree (to_treeF). *)
Require Import GM.model.Base GM.model.Util GM.model.Reader GM.model.ListItem GM.model.Regex GM.model.HtmlWriter GM.model.Html GM.model.HtmlSpec
               GM.model.BlockParse GM.model.InlineParse GM.model.FootnoteX
               GM.model.FootnoteParseBlock GM.model.FootnoteParseInline GM.model.FootnoteParse.
Require Import GM.proofs.ParseInv GM.proofs.ParseCompose GM.proofs.ParseBlocksRangeA GM.proofs.ParseBlocksRangeB
               GM.proofs.FootnoteProofs GM.proofs.FootnoteConservativeTree
               GM.proofs.FootnoteWfDefs GM.proofs.FootnoteWfDefs2 GM.proofs.FootnoteWfFs GM.proofs.FootnoteWfSort GM.proofs.FootnoteWfHeap
               GM.proofs.FootnoteWfXf GM.proofs.FootnoteWfTree GM.proofs.FootnoteWfNum.
From Coq Require Import List ZArith Lia Bool Permutation Sorted.
Import ListNotations.
Open Scope Z_scope.

(* ---------- values of segments, kinds of nodes ---------- *)
Lemma seg_value_total src sg : seg_inr src sg -> exists v, seg_value src sg = Ok v.
Proof.
  intros (H1 & H2 & H3). unfold seg_value, slice.
  assert (E : (0 <=? s_start sg) && (s_start sg <=? s_stop sg) && (s_stop sg <=? zlen src) = true).
  { repeat (apply andb_true_iff; split); apply Z.leb_le; lia. }
  rewrite E. cbn [bind]. destruct (Z.ltb_spec (s_pad sg) 0) as [Hn|_]; [lia|].
  destruct (s_fnl sg); [|eexists; reflexivity].
  destruct (rev _) as [|c tl]; [eexists; reflexivity|]. destruct (N.eqb c 10); eexists; reflexivity.
Qed.

Section T.
Variable space_table : list N.
Variable src : bytes.
Notation HS := (HS space_table src).
Notation heapS := (heapS space_table src).

Lemma kind_of_total n : nodeP space_table src n -> exists k, kind_of src n = Ok k.
Proof.
  intros HP. unfold kind_of. destruct (bk n); try (eexists; reflexivity).
  destruct (b_seg n) as [sg|] eqn:E; [|eexists; reflexivity].
  destruct (seg_value_total src sg (np_seg _ _ _ HP sg E)) as [v ->]. eexists. reflexivity.
Qed.

(* ---------- the nodes above a node, up to the document ---------- *)
Inductive anc (h : heap) : nat -> list nat -> Prop :=
| anc_root : anc h 0%nat []
| anc_step i q nq path : nth_error h q = Some nq -> In i (bch nq) -> anc h q path -> anc h i (q :: path).

Lemma anc_valid h i path : heapS h -> anc h i path -> exists n, nth_error h i = Some n.
Proof.
  intros HS1 H. destruct H as [|i q nq path Eq Hin _].
  - destruct (hs_root _ _ _ HS1) as [n0 [E0 _]]. eauto.
  - destruct (hs_K _ _ _ HS1 q nq i Eq Hin) as [n [En _]]. eauto.
Qed.

Lemma anc_fun h : heapS h -> forall i p1, anc h i p1 -> forall p2, anc h i p2 -> p1 = p2.
Proof.
  intros HS1 i p1 H1. induction H1 as [|i q nq path Eq Hin _ IH]; intros p2 H2.
  - inversion H2 as [|i' q' nq' path' Eq' Hin' _]; [reflexivity|]. subst.
    destruct (hs_K _ _ _ HS1 q' nq' 0%nat Eq' Hin') as [n0 [E0 P0]].
    destruct (hs_root _ _ _ HS1) as [n0' [E0' [_ P0']]]. congruence.
  - inversion H2 as [|i' q' nq' path' Eq' Hin' H2']; subst.
    + destruct (hs_K _ _ _ HS1 q nq 0%nat Eq Hin) as [n0 [E0 P0]].
      destruct (hs_root _ _ _ HS1) as [n0' [E0' [_ P0']]]. congruence.
    + destruct (hs_K _ _ _ HS1 q nq i Eq Hin) as [n [En Pn]].
      destruct (hs_K _ _ _ HS1 q' nq' i Eq' Hin') as [n' [En' Pn']].
      assert (q' = q) by congruence. subst q'. f_equal. apply IH. exact H2'.
Qed.

Lemma anc_suffix h i path : anc h i path -> forall a j b, path = a ++ j :: b -> anc h j b.
Proof.
  intros H. induction H as [|i q nq path Eq Hin Hq IH]; intros a j b E.
  - destruct a; discriminate.
  - destruct a as [|x a]; cbn [app] in E; injection E as -> ->; [exact Hq|]. eapply IH. reflexivity.
Qed.

Lemma anc_nodup h i path : heapS h -> anc h i path -> NoDup (i :: path).
Proof.
  intros HS1 H. induction H as [|i q nq path Eq Hin Hq IH]; [constructor; [intros []|constructor]|].
  constructor; [|exact IH]. intros Hi.
  apply in_split in Hi. destruct Hi as [a [b E]].
  assert (Ha : anc h i (q :: path)) by (econstructor; eassumption).
  pose proof (anc_suffix h i (q :: path) Ha a i b E) as Hb.
  pose proof (anc_fun h HS1 i _ Ha _ Hb) as E2. rewrite E2 in E. apply (f_equal (@length nat)) in E.
  rewrite app_length in E. cbn [length] in E. lia.
Qed.

Lemma anc_lt h i path : heapS h -> anc h i path -> Forall (fun j => (j < length h)%nat) (i :: path).
Proof.
  intros HS1 H. induction H as [|i q nq path Eq Hin Hq IH].
  - constructor; [|constructor]. destruct (hs_root _ _ _ HS1) as [n0 [E0 _]]. eapply nth_some_lt. exact E0.
  - constructor; [|exact IH]. destruct (hs_K _ _ _ HS1 q nq i Eq Hin) as [n [En _]]. eapply nth_some_lt. exact En.
Qed.

Lemma anc_length h i path : heapS h -> anc h i path -> (S (length path) <= length h)%nat.
Proof.
  intros HS1 H. pose proof (anc_nodup h i path HS1 H) as Hnd. pose proof (anc_lt h i path HS1 H) as Hlt.
  assert (Hincl : incl (i :: path) (seq 0 (length h))).
  { intros j Hj. rewrite Forall_forall in Hlt. apply in_seq. specialize (Hlt j Hj). lia. }
  pose proof (NoDup_incl_length Hnd Hincl) as Hlen. rewrite seq_length in Hlen. exact Hlen.
Qed.

(* ---------- the walk over the blocks ---------- *)
Section WalkTotal.
Variable inline_of : fstate -> list seg -> result (list tree * fstate).
Variable h : heap.
Hypothesis HSh : heapS h.
Hypothesis inl_total : forall fs i n, nth_error h i = Some n -> block_has_inlines n = true ->
  (i = 0%nat \/ bpar n <> None) -> exists y, inline_of fs (blines n) = Ok y.

Lemma walk_blocks_total : forall fuel i path fs acc, anc h i path -> (fuel + length path = S (length h))%nat ->
  exists r, walk_blocks inline_of fuel h i fs acc = Ok r.
Proof.
  induction fuel as [|f IH]; intros i path fs acc Ha Hf.
  - pose proof (anc_length h i path HSh Ha). lia.
  - rewrite walk_blocks_unfold. destruct (anc_valid h i path HSh Ha) as [n En].
    rewrite (proj2 (hget_ok _ _ _) En). cbn [bind].
    assert (Hlist : forall l fs1 acc1, (forall c, In c l -> In c (bch n)) -> exists r, walk_list inline_of f h l fs1 acc1 = Ok r).
    { induction l as [|c l IHl]; intros fs1 acc1 Hsub; cbn [walk_list]; [eexists; reflexivity|].
      destruct (IH c (i :: path) fs1 acc1) as [y Hy].
      - econstructor; [exact En|apply Hsub; left; reflexivity|exact Ha].
      - cbn [length]. lia.
      - rewrite Hy. cbn [bind]. apply IHl. intros c' Hc'. apply Hsub. right. exact Hc'. }
    destruct (Hlist (bch n) fs acc (fun c Hc => Hc)) as [[fs1 acc1] Hr]. rewrite Hr. cbn [bind].
    destruct (block_has_inlines n) eqn:Eb; [|eexists; reflexivity].
    destruct (inl_total fs1 i n En Eb) as [y Hy].
    + destruct Ha as [|i q nq path Eq Hin _]; [left; reflexivity|right].
      destruct (hs_K _ _ _ HSh q nq i Eq Hin) as [n' [En' Pn']]. assert (n' = n) by congruence. subst. congruence.
    + rewrite Hy. cbn [bind]. eexists. reflexivity.
Qed.
End WalkTotal.

(* ---------- the conversion to the tree ---------- *)
Lemma map_res_total {A B} (f : A -> result B) l : (forall x, In x l -> exists y, f x = Ok y) -> exists ys, map_res f l = Ok ys.
Proof.
  induction l as [|x l IH]; intros H; cbn [map_res]; [eexists; reflexivity|].
  destruct (H x (or_introl eq_refl)) as [y ->]. cbn [bind].
  destruct IH as [ys ->]; [intros x' Hx'; apply H; right; exact Hx'|]. cbn [bind]. eexists. reflexivity.
Qed.

Lemma to_treeF_total p : HS (fp_h p) -> forall fuel i path, anc (fp_h p) i path ->
  (fuel + length path = S (length (fp_h p)))%nat -> exists t, to_treeF fuel src p i = Ok t.
Proof.
  intros [HS1 HJ]. induction fuel as [|f IH]; intros i path Ha Hf.
  - pose proof (anc_length _ i path HS1 Ha). lia.
  - rewrite to_treeF_unfold. destruct (lookup_id (fp_back p) i); [eexists; reflexivity|].
    destruct (anc_valid _ i path HS1 Ha) as [n En]. rewrite (proj2 (hget_ok _ _ _) En). cbn [bind].
    destruct (kind_of_total n (hs_node _ _ _ HS1 i n En)) as [k Hk].
    destruct (block_has_inlines n).
    + rewrite Hk. cbn [bind]. eexists. reflexivity.
    + assert (Hkids : exists kids, map_res (to_treeF f src p) (bch n) = Ok kids).
      { apply map_res_total. intros c Hc. apply (IH c (i :: path)); [econstructor; eassumption|cbn [length]; lia]. }
      destruct Hkids as [kids ->].
      destruct (is_footnote_node n); [cbn [bind]; eexists; reflexivity|].
      destruct (is_fnlist_node n); [cbn [bind]; eexists; reflexivity|].
      rewrite Hk. cbn [bind]. eexists. reflexivity.
Qed.

(* ---------- the AST transformer ---------- *)
Lemma write_indices_total : forall ids defs h, length ids = length defs -> (forall c, In c ids -> (c < length h)%nat) ->
  exists h1, write_indices h ids defs = Ok h1.
Proof.
  induction ids as [|i ids IH]; intros defs h Hlen Hlt; destruct defs as [|d defs]; try discriminate; cbn [write_indices].
  - eexists. reflexivity.
  - destruct (nth_error h i) as [n|] eqn:En; [|apply nth_error_None in En; specialize (Hlt i (or_introl eq_refl)); lia].
    unfold hupd. rewrite (proj2 (hget_ok _ _ _) En). cbn [bind]. apply IH; [cbn [length] in Hlen; lia|].
    intros c Hc. rewrite length_hset. apply Hlt. right. exact Hc.
Qed.

Lemma remove_child_total h p c nc : nth_error h c = Some nc -> (bpar nc = Some p -> (p < length h)%nat) ->
  exists h1, remove_child h p c = Ok h1.
Proof.
  intros Ec Hp. unfold remove_child. rewrite (proj2 (hget_ok _ _ _) Ec). cbn [bind].
  destruct (opt_nat_eqb (bpar nc) (Some p)) eqn:E; [|eexists; reflexivity].
  apply opt_nat_eqb_true in E. specialize (Hp E).
  destruct (nth_error h p) as [np|] eqn:Ep; [|apply nth_error_None in Ep; lia].
  unfold hupd. rewrite (proj2 (hget_ok _ _ _) Ep). cbn [bind].
  destruct (nth_error (hset h p (set_ch np (remove_id c (bch np)))) c) as [m|] eqn:Em.
  - rewrite (proj2 (hget_ok _ _ _) Em). cbn [bind]. eexists. reflexivity.
  - apply nth_error_None in Em. rewrite length_hset in Em. apply nth_some_lt in Ec. lia.
Qed.

Lemma append_child_total h p c : (c < length h)%nat -> (p < length h)%nat -> exists h1, append_child h p c = Ok h1.
Proof.
  intros Hc Hp. unfold append_child, hupd.
  destruct (nth_error h c) as [nc|] eqn:Ec; [|apply nth_error_None in Ec; lia].
  rewrite (proj2 (hget_ok _ _ _) Ec). cbn [bind].
  destruct (nth_error (hset h c (set_par nc (Some p))) p) as [np|] eqn:Ep.
  - rewrite (proj2 (hget_ok _ _ _) Ep). cbn [bind]. eexists. reflexivity.
  - apply nth_error_None in Ep. rewrite length_hset in Ep. lia.
Qed.

Definition TI (h1 : heap) (p : fpost) : Prop := HS (fp_h p) /\ tstep h1 (fp_h p).

Lemma add_placeholders_total h1 f : forall ks p, TI h1 p ->
  (exists nf, nth_error (fp_h p) f = Some nf /\ container (bk nf) = true) ->
  exists p', add_placeholders p f ks = Ok p' /\ TI h1 p'.
Proof.
  induction ks as [|k ks IH]; intros p [T1 T2] [nf [Ef Kf]]; cbn [add_placeholders].
  - eexists. split; [reflexivity|split; assumption].
  - unfold halloc. pose proof (nth_some_lt _ _ _ Ef) as Hfl.
    destruct (append_child_total (fp_h p ++ [mknode BThematicBreak 0]) f (length (fp_h p))) as [h2 Hh2];
      [rewrite app_length; cbn; lia|rewrite app_length; cbn; lia|].
    rewrite Hh2. cbn [bind].
    destruct (place_HS space_table src (fp_h p) f nf h2 T1 Ef Kf Hh2) as (A1 & A2 & A3 & A4 & A5).
    apply IH; cbn [fp_h].
    + split; [exact A1|eapply tstep_trans; eassumption].
    + eexists. split; [exact A4|exact Kf].
Qed.

Lemma fn_items_total h1 l links : forall rest p, TI h1 p -> (l < length h1)%nat ->
  (forall c, In c rest -> c <> l /\ exists n1, nth_error h1 c = Some n1 /\ is_footnote_node n1 = true) ->
  exists p', FootnoteParse.fn_items rest l links p = Ok p'.
Proof.
  induction rest as [|f rest IH]; intros p [T1 T2] Hl Hrest; cbn [FootnoteParse.fn_items]; [eexists; reflexivity|].
  destruct (Hrest f (or_introl eq_refl)) as [Hfl [n1 [E1 Hfn1]]].
  destruct (proj2 T2 f n1 E1) as (n & En & K & I1 & _).
  rewrite (proj2 (hget_ok _ _ _) En). cbn [bind].
  assert (Hfn : is_footnote_node n = true) by (unfold is_footnote_node in *; rewrite K, I1; exact Hfn1).
  rewrite Hfn. cbn [negb].
  assert (Hcont : exists container, match last_id (bch n) with
                    | Some fc => isp <- is_paragraph (fp_h p) fc ;; Ok (if isp then fc else f)
                    | None => Ok f end = Ok container).
  { destruct (last_id (bch n)) as [fc|] eqn:El; [|eexists; reflexivity].
    apply last_id_in in El. destruct (hs_K _ _ _ (proj1 T1) f n fc En El) as [nfc [Efc _]].
    unfold is_paragraph. rewrite (proj2 (hget_ok _ _ _) Efc). cbn [bind]. eexists. reflexivity. }
  destruct Hcont as [container ->]. cbn [bind].
  assert (Hnext : forall p1, TI h1 p1 -> exists p', FootnoteParse.fn_items rest l links p1 = Ok p').
  { intros p1 T. apply IH; [exact T|exact Hl|]. intros c Hc. apply Hrest. right. exact Hc. }
  assert (Hll : (l < length (fp_h p))%nat) by (destruct T2 as [T2 _]; lia).
  destruct (Z.ltb_spec (b_i2 n) 0) as [Hneg|Hpos].
  - destruct (remove_child_total (fp_h p) l f n En (fun _ => Hll)) as [h' Hh']. rewrite Hh'. cbn [bind].
    apply Hnext. cbn [fp_set_h]. unfold TI. cbn [fp_h].
    destruct (remove_child_spec _ _ _ _ Hh' Hfl) as [nc [Ec [[_ ->]|[Pc _]]]]; [split; assumption|].
    assert (nc = n) by congruence. subst nc.
    destruct (remove_child_HS space_table src (fp_h p) l f h' n T1 Hh' Hfl En Pc) as (A1 & A2 & _).
    split; [exact A1|eapply tstep_trans; eassumption].
  - destruct (Nat.eqb container f).
    + destruct (add_placeholders_total h1 f (backlink_kinds links (b_i2 n)) p (conj T1 T2)) as [p1 [Hp1 T]].
      { exists n. split; [exact En|]. destruct (is_footnote_inv _ Hfn) as [Kn _]. rewrite Kn. reflexivity. }
      rewrite Hp1. cbn [bind]. apply Hnext. exact T.
    + cbn [bind]. apply Hnext. split; assumption.
Qed.

Theorem ast_transform_total h l ln fs defs kids : HS h -> fs_defs fs = Some defs -> l <> 0%nat ->
  nth_error h l = Some ln -> is_fnlist_node ln = true -> length defs = length (bch ln) ->
  (forall c, In c (bch ln) -> exists cn, nth_error h c = Some cn /\ is_footnote_node cn = true) ->
  (exists par pn, bpar ln = Some par /\ nth_error h par = Some pn) ->
  exists p, ast_transform h (Some l) fs kids = Ok p.
Proof.
  intros HH Ed Hl0 El Hfl Hlen Hch (par & pn & Epar & Epn).
  destruct (ast_transform h (Some l) fs kids) as [p| |] eqn:E; [eexists; reflexivity|exfalso|exfalso];
    unfold ast_transform in E; rewrite Ed in E; rewrite (proj2 (hget_ok _ _ _) El) in E; cbn [bind] in E.
  all: pose proof (hs_nd _ _ _ (proj1 HH) l ln El) as Hnd.
  all: assert (Hlt : forall c, In c (bch ln) -> (c < length h)%nat)
         by (intros c Hc; destruct (Hch c Hc) as [cn [Ec _]]; eapply nth_some_lt; exact Ec).
  all: destruct (write_indices_total (bch ln) defs h (eq_sym Hlen) Hlt) as [h1 Hh1]; rewrite Hh1 in E; cbn [bind] in E.
  all: destruct (write_indices_spec space_table src _ _ _ _ HH Hnd Hh1) as (W1 & W2 & W3 & W4).
  all: assert (Hnl : ~ In l (bch ln))
         by (intros Hin; destruct (hs_K _ _ _ (proj1 HH) l ln l El Hin) as [nc [Ec Pc]]; exact (hs_noself _ _ _ (proj1 HH) l nc Ec Pc)).
  all: set (p0 := {| fp_h := h1; fp_inl := map (fun e => (fst e, map (renumber (number_links (fs_links fs) [] (fs_links fs))) (snd e))) kids; fp_back := [] |}) in *.
  all: destruct (fn_items_total h1 l (fs_links fs) (bch ln) p0) as [p1 Hp1];
         [split; [exact W1|apply tstep_refl]|rewrite W2; eapply nth_some_lt; exact El| |].
  1,3: intros c Hc; split; [intros ->; contradiction|]; destruct (Hch c Hc) as [cn [Ec Hf]]; destruct (W3 c cn Ec) as [v Hv];
         eexists; split; [exact Hv|exact Hf].
  all: rewrite Hp1 in E; cbn [bind] in E.
  all: destruct (W3 l ln El) as [v Hl1].
  all: destruct (fn_items_loop space_table src h1 l (fs_links fs) (fp_inl p0) (bch ln) [] p0 p1) as [L R]; cbn [app filter]; auto;
         [intros c Hc; rewrite W2; apply Hlt; exact Hc
         |constructor; cbn [p0 fp_h fp_inl fp_back];
           [exact W1|apply tstep_refl
           |eexists; split; [exact Hl1|]; split; [reflexivity|]; intros ln1 E1; rewrite Hl1 in E1; injection E1 as <-; reflexivity
           |intros i k Hi; discriminate|intros i Hi; lia|apply inl_ext_refl]|].
  all: destruct L as [L1 L2 [ln2 [L3 [L3b L3c]]] L4 L5 L6]; cbn [app] in L3b.
  all: rewrite (proj2 (hget_ok _ _ _) L3) in E; cbn [bind] in E.
  all: assert (Hkeyed : exists keyed, map_res (fun i => n <- hget (fp_h p1) i ;; Ok (i, b_i2 n)) (bch ln2) = Ok keyed)
         by (apply map_res_total; intros c Hc; destruct (hs_K _ _ _ (proj1 L1) l ln2 c L3 Hc) as [nc [Ec _]];
             rewrite (proj2 (hget_ok _ _ _) Ec); cbn [bind]; eexists; reflexivity).
  all: destruct Hkeyed as [keyed Hk]; rewrite Hk in E; cbn [bind] in E.
  all: unfold hupd in E; rewrite (proj2 (hget_ok _ _ _) L3) in E; cbn [bind] in E.
  all: set (h3 := hset (fp_h p1) l (set_ch ln2 (map fst (sort_children keyed)))) in *.
  all: pose proof (nth_some_lt _ _ _ L3) as Hll.
  all: assert (E3l : nth_error h3 l = Some (set_ch ln2 (map fst (sort_children keyed)))) by (unfold h3; apply nth_hset_eq; exact Hll).
  all: assert (Hpar2 : bpar ln2 = Some par) by (rewrite (L3c _ Hl1); cbn [set_i2 bpar]; exact Epar).
  all: assert (Hparl : (par < length h3)%nat)
         by (unfold h3; rewrite length_hset; destruct L2 as [L2 _]; apply nth_some_lt in Epn; lia).
  all: assert (Hrem : exists h4, remove_child h3 par l = Ok h4)
         by (apply (remove_child_total h3 par l _ E3l); intros _; exact Hparl).
  all: destruct (fs_count fs <=? 0).
  all: try (rewrite Hpar2 in E; destruct Hrem as [h4 Hh4]; rewrite Hh4 in E; cbn [bind] in E; discriminate).
  all: unfold append_child_iso, detach in E; rewrite (proj2 (hget_ok _ _ _) E3l) in E; cbn [bind set_ch bpar] in E;
       rewrite Hpar2 in E; destruct Hrem as [h4 Hh4]; rewrite Hh4 in E; cbn [bind] in E.
  all: assert (Hlen4 : length h4 = length h3)
         by (destruct (remove_child_spec _ _ _ _ Hh4 ltac:(intros ->; exact (hs_noself _ _ _ (proj1 L1) par ln2 L3 Hpar2))) as [nc [Ec [[_ ->]|[_ [np [_ [Hlen9 _]]]]]]]; [reflexivity|exact Hlen9]).
  all: destruct (append_child_total h4 0%nat l) as [h5 Hh5];
         [rewrite Hlen4; unfold h3; rewrite length_hset; exact Hll
         |rewrite Hlen4; unfold h3; rewrite length_hset; destruct (hs_root _ _ _ (proj1 L1)) as [n0 [E0 _]]; eapply nth_some_lt; exact E0|].
  all: rewrite Hh5 in E; cbn [bind] in E; discriminate.
Qed.

End T.
