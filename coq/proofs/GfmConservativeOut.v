(* C11 for the GFM model at the level the property speaks about - the rendering - and for the
   three extensions together: on a source without '~', '[' and '-', Strikethrough + TaskList +
   Table switched on change no byte of the output, whatever the Linkify switch is; with Linkify
   off the output is the default parser's.  Corollaries of proofs/GfmConservative.v. *)
Require Import GM.model.Base GM.model.Util GM.model.Html GM.model.HtmlI GM.model.ParseI GM.model.InlineParseX GM.model.GfmI
               GM.proofs.ParseInv GM.proofs.GfmConservative.
From Coq Require Import List NArith Bool.
Import ListNotations.

Definition three_on (l : bool) : xcfg := {| x_strike := true; x_task := true; x_table := true; x_linkify := l |}.
Definition three_off (l : bool) : xcfg := {| x_strike := false; x_task := false; x_table := false; x_linkify := l |}.

Lemma three_tree l src : bytes_ok src -> lacks 126 src -> lacks 91 src -> lacks 45 src ->
  ParseTreeX (three_on l) src = ParseTreeX (three_off l) src.
Proof.
  intros Hb Hs Ht Hd.
  change (three_on l) with (with_strike (three_on l) true). rewrite (strike_conservative _ src Hs).
  change (with_strike (three_on l) false) with (with_task {| x_strike := false; x_task := true; x_table := true; x_linkify := l |} true).
  rewrite (task_conservative _ src Ht).
  change (with_task {| x_strike := false; x_task := true; x_table := true; x_linkify := l |} false)
    with (with_table {| x_strike := false; x_task := false; x_table := true; x_linkify := l |} true).
  rewrite (table_conservative_bytes _ src Hb Hd). reflexivity.
Qed.

Theorem three_conservative_output : forall l cfg src,
  bytes_ok src -> lacks 126 src -> lacks 91 src -> lacks 45 src ->
  ConvertModelX (three_on l) cfg src = ConvertModelX (three_off l) cfg src.
Proof. intros l cfg src Hb Hs Ht Hd. unfold ConvertModelX. rewrite (three_tree l src Hb Hs Ht Hd). reflexivity. Qed.

Theorem three_conservative_default : forall cfg src,
  bytes_ok src -> lacks 126 src -> lacks 91 src -> lacks 45 src ->
  ConvertModelX (three_on false) cfg src = ConvertModel cfg src.
Proof.
  intros cfg src Hb Hs Ht Hd. rewrite (three_conservative_output false cfg src Hb Hs Ht Hd).
  unfold ConvertModelX, ConvertModel. change (three_off false) with gfm_none. rewrite none_is_default. reflexivity.
Qed.

Example three_premises : bytes_ok [97;32;42;98;42;10]%N /\ lacks 126 [97;32;42;98;42;10]%N /\ lacks 91 [97;32;42;98;42;10]%N /\ lacks 45 [97;32;42;98;42;10]%N.
Proof. split; [reflexivity|]. unfold lacks. cbn [In]. repeat split; intros H; repeat destruct H as [H|H]; try discriminate H; exact H. Qed.
