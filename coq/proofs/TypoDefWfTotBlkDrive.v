(* Helper file for TypoDefWfTotBlk.v: the outer loops of the generalised driver of
   model/TypoDefParseD.v (lines_loopD, parse_blocks_loopD, parse_blocksD) and the conversion of
   the final heap to a tree (to_treeD), under the two Section Hypotheses
     OBK : open_blocksD_spec   (openBlocks: TypoDefWfTotBlkOpenB*.v)
     EOK : each_openedD_spec   (the loop over the opened blocks: TypoDefWfTotBlkEach*.v).
   Port of ParseBlocksTotalDrive.v: the invariant at line boundaries is LineInvD (SI, TC, ChainD,
   LastOK, RootOK); the steps that only move the reader keep heap and context. *)
Require Import GM.model.Base GM.model.Util GM.model.Reader GM.model.ReaderSpec GM.model.Blocks GM.model.ListItem
               GM.model.LeafBlocks GM.model.CodeBlock GM.model.LinkDest GM.model.Regex GM.model.HtmlWriter GM.model.Html
               GM.model.BlockParse GM.model.TypoDefParseD.
Require Import GM.proofs.ReaderProofs GM.proofs.BlocksProofs
               GM.proofs.ParseBlocksTotalReader GM.proofs.ParseBlocksTotalDefs GM.proofs.ParseBlocksTotalSpec
               GM.proofs.ParseBlocksTotalSt GM.proofs.ParseBlocksTotalShape GM.proofs.ParseBlocksTotalDrive
               GM.proofs.TypoDefWfTotBlkDefs GM.proofs.TypoDefWfTotBlkSpec GM.proofs.TypoDefWfTotBlkOpenI.
From Coq Require Import ZArith Lia List Bool.
Import ListNotations.
Open Scope Z_scope.

Section S.
Variable space_table punct_table : list N.
Variable norm : bytes -> bytes.
Variable re_t1o re_t1c re_t2 re_t3 re_t4 re_t5 re_t6 re_t7 : re.
Variable allowed_tags : list bytes.
Variable src : bytes.
Hypothesis tbl : TblOK space_table.
Notation SI := (SI space_table src).
Notation SD := (SD space_table src).
Notation HInv := (HInv space_table src).
Notation LineInvD := (LineInvD space_table src).
Notation LineMidD := (LineMidD space_table src).
Notation LLD := (lines_loopD true space_table punct_table norm re_t1o re_t1c re_t2 re_t3 re_t4 re_t5 re_t6 re_t7 allowed_tags).
Notation PBLD := (parse_blocks_loopD true space_table punct_table norm re_t1o re_t1c re_t2 re_t3 re_t4 re_t5 re_t6 re_t7 allowed_tags).
Notation PBD := (parse_blocksD true space_table punct_table norm re_t1o re_t1c re_t2 re_t3 re_t4 re_t5 re_t6 re_t7 allowed_tags).

Hypothesis OBK : open_blocksD_spec space_table punct_table norm re_t1o re_t1c re_t2 re_t3 re_t4 re_t5 re_t6 re_t7 allowed_tags src.
Hypothesis EOK : each_openedD_spec space_table punct_table norm re_t1o re_t1c re_t2 re_t3 re_t4 re_t5 re_t6 re_t7 allowed_tags src.

(* ---------- the heap as a tree ---------- *)
(* a DefinitionList / Term / Description node has its kind before kind_of is asked *)
Lemma kind_ofD_ok n : node_ok space_table src n -> exists k, kind_ofD src n = Ok k.
Proof.
  intros H. unfold kind_ofD.
  destruct (is_dl n); [eexists; reflexivity|].
  destruct (is_dt n); [eexists; reflexivity|].
  destruct (is_dd n); [eexists; reflexivity|].
  exact (kind_of_ok space_table norm src n H).
Qed.

Lemma to_treeD_ok h : HInv h -> forall fuel i, (i < length h)%nat -> (length h - i < fuel)%nat ->
  exists t, to_treeD fuel src h i = Ok t.
Proof.
  intros HH. induction fuel as [|f IH]; intros i Hi Hf; [lia|]. cbn [to_treeD].
  destruct (hget_lt h i Hi) as [n [E Hn]]. rewrite E. cbn [bind].
  destruct (kind_ofD_ok n (hi_ok _ _ _ HH i n Hn)) as [k Ek]. rewrite Ek. cbn [bind].
  destruct (map_res_ok (to_treeD f src h) (bch n)) as [kids Ekids].
  { intros c Hc. pose proof (hi_ch _ _ _ HH i n Hn) as HF. rewrite Forall_forall in HF. specialize (HF c Hc).
    apply IH; lia. }
  rewrite Ekids. cbn [bind]. eexists; reflexivity.
Qed.

(* ---------- the start of a line ---------- *)
(* a step that only moves the reader keeps heap and context: TC, ChainD, LastOK, RootOK are untouched *)
Lemma LineInvD_set_r s r' : LineInvD s -> RI r' -> r_le (s_r s) r' -> LineInvD (st_r s r').
Proof.
  intros [L1 L2 L3 L4 L5] HR HL. constructor; cbn [st_r s_h s_c s_r]; auto. apply SI_set_r; assumption.
Qed.

Lemma line_startD s : LineInvD s ->
  LineInvD (advance_line_s s) /\ Below (s_h (advance_line_s s)) (s_r (advance_line_s s)) /\
  ops (advance_line_s s) = ops s /\ r_le (s_r s) (s_r (advance_line_s s)) /\
  s_start (r_pos (s_r (advance_line_s s))) = s_stop (r_pos (s_r s)).
Proof.
  intros HL. pose proof (lid_si _ _ _ HL) as HS.
  destruct (ri_advance_line (s_r s) (si_r _ _ _ HS)) as (A & B & C).
  unfold advance_line_s. csplit; auto.
  - apply LineInvD_set_r; assumption.
  - cbn [st_r s_h s_r]. intros i n Hn Hk. pose proof (si_lim _ _ _ HS i n Hn Hk) as HF.
    eapply Forall_impl; [|exact HF]. cbv beta. intros sg Hsg. lia.
Qed.

(* a chain below the root does not start with a list item *)
Lemma chainD_root_not_item s : LineInvD s -> forall it, nth_error (ops s) 0%nat <> Some (it, PListItem).
Proof.
  intros HL it E. pose proof (lid_si _ _ _ HL) as HS.
  destruct (chd_par _ _ _ (lid_chain _ _ _ HL) 0%nat it PListItem E) as [nn [Hn Hp]]. cbn [par_at] in Hp.
  assert (Hin : In (it, PListItem) (c_arr (s_c s))) by (apply opened_in; eapply nth_error_In, E).
  destruct (ci_arr _ _ (si_c _ _ _ HS) _ Hin) as [n' [Hn' Kn']]. cbn [fst snd kind_of_parser] in Hn', Kn'.
  rewrite Hn in Hn'. injection Hn' as <-.
  destruct (lid_root _ _ _ HL) as [n0 [H0 K0]].
  pose proof (hi_item _ _ _ (si_h _ _ _ HS) it nn 0%nat n0 Hn Kn' Hp H0). congruence.
Qed.

(* ---------- lines_loopD ---------- *)
Lemma lines_loopD_ok : forall fuel stats s, LineInvD s -> Below (s_h s) (s_r s) ->
  (Z.to_nat (zlen src - s_start (r_pos (s_r s))) < fuel)%nat ->
  exists r stats', LLD fuel 0%nat stats s = Ok (r, stats') /\
    match r with
    | inl s' => SD s'
    | inr s' => LineInvD s' /\ ops s' = [] /\ Below (s_h s') (s_r s') /\ r_le (s_r s) (s_r s')
    end.
Proof.
  induction fuel as [|f IH]; intros stats s HL HB Hf; [lia|]. cbn [lines_loopD]. fold (ops s).
  destruct (ops s) as [|e cap'] eqn:Ecap.
  - exists (inr s), stats. split; [reflexivity|]. csplit; auto. apply r_le_refl.
  - rewrite <- Ecap. set (cap := ops s).
    assert (Hne : 0 < zlen cap) by (unfold cap; rewrite Ecap, zlen_cons; pose proof (zlen_nonneg cap'); lia).
    destruct (EOK cap (S (length cap)) 0 stats s) as [r [stats' [E Hr]]].
    { unfold TypoDefWfTotBlkOpenI.LineMidD. csplit; auto. }
    { lia. }
    { unfold zlen. lia. }
    { cbn [Z.to_nat]. apply chainD_root_not_item, HL. }
    rewrite E. cbn [bind]. destruct r as [s'|s'].
    + exists (inl s'), stats'. split; [reflexivity|exact Hr].
    + destruct Hr as (s'' & L1 & L2 & Eadv & L3). specialize (L3 ltac:(lia)). rewrite Eadv.
      destruct (line_startD s'' L1) as (M1 & M2 & M3 & M4 & M5).
      pose proof (lid_si _ _ _ HL) as HS. pose proof (ri_bounds _ (si_r _ _ _ HS)) as Hb.
      apply in_range_true in L3.
      pose proof (inv_bounds_in _ (proj1 (si_r _ _ _ HS)) ltac:(lia)) as Hlt.
      destruct L2 as (Q1 & Q2 & Q3).
      pose proof (ri_bounds _ (si_r _ _ _ (lid_si _ _ _ M1))) as Hb'.
      rewrite (si_src _ _ _ (lid_si _ _ _ M1)) in Hb'. rewrite (si_src _ _ _ HS) in L3.
      destruct (IH stats' (advance_line_s s'') M1 M2) as [r2 [stats2 [E2 Hr2]]].
      { rewrite M5. lia. }
      rewrite E2. exists r2, stats2. split; [reflexivity|].
      destruct r2 as [s2|s2]; [exact Hr2|]. destruct Hr2 as (N1 & N2 & N3 & N4). csplit; auto.
      eapply r_le_trans; [|exact N4]. eapply r_le_trans; [|exact M4]. unfold r_le. auto.
Qed.

(* ---------- parse_blocks_loopD ---------- *)
(* the root is a Document, so no DefinitionList *)
Lemma document_not_dl n : bk n = BDocument -> is_dl n = false.
Proof. intros K. unfold is_dl. rewrite K. reflexivity. Qed.

Lemma parse_blocks_loopD_ok : forall fuel stats s, LineInvD s -> ops s = [] -> Below (s_h s) (s_r s) ->
  (Z.to_nat (zlen src - s_start (r_pos (s_r s))) < fuel)%nat ->
  exists s', PBLD fuel 0%nat stats s = Ok s' /\ SD s'.
Proof.
  induction fuel as [|f IH]; intros stats s HL Hops HB Hf; [lia|]. cbn [parse_blocks_loopD].
  pose proof (lid_si _ _ _ HL) as HS. pose proof (si_src _ _ _ HS) as Hsrc. unfold src_of. rewrite Hsrc.
  unfold r_skip_blank_lines.
  destruct (ri_skip_blank_lines space_table (S (length src)) (s_r s) 0 (si_r _ _ _ HS)) as (r1 & sg & nl & ok & E1 & R1 & Q1 & Q2 & Q3).
  { rewrite Hsrc. unfold zlen. pose proof (ri_bounds _ (si_r _ _ _ HS)). lia. }
  rewrite E1. cbn [bind]. cbv beta iota.
  set (s1 := st_r s r1).
  assert (HL1 : LineInvD s1) by (apply LineInvD_set_r; assumption).
  assert (Hops1 : ops s1 = []) by exact Hops.
  assert (HB1 : Below (s_h s1) (s_r s1)) by (eapply (Below_le norm src); [exact HB|exact Q1]).
  destruct ok; cbn [negb].
  2:{ exists s1. split; [reflexivity|apply lid_sd, HL1]. }
  specialize (Q2 eq_refl).
  pose proof (lid_si _ _ _ HL1) as HS1.
  cbn [st_r s_r]. fold s1. replace (r_src r1) with src by (destruct Q1 as (A & _); congruence).
  destruct (lid_root _ _ _ HL1) as [n0 [H0 K0]].
  match goal with |- context [open_blocksD _ _ _ _ _ _ _ _ _ _ _ _ _ ?fu _ ?bl s1] => set (fu1 := fu); set (blank := bl) end.
  destruct (OBK fu1 0%nat n0 blank s1 (lid_sd _ _ _ HL1) H0 (document_not_dl n0 K0)) as (res & s2 & E2 & S2 & R2 & KK & Cf & Ct & Ctl & Hcase).
  { intros K. congruence. }
  { intros e n He. rewrite Hops1 in He. contradiction. }
  { intros k e He. rewrite Hops1 in He. destruct k; discriminate. }
  { exact HB1. }
  { unfold fu1. pose proof (ri_bounds _ (si_r _ _ _ HS1)) as Hb. rewrite (si_src _ _ _ HS1) in Hb. unfold zlen in Hb.
    unfold s1 in *. cbn [st_r s_r] in *.
    replace (r_src r1) with src by (destruct Q1 as (A & _); congruence). lia. }
  rewrite E2. cbn [bind]. cbv beta iota.
  destruct Hcase as [Hc|Hc].
  { destruct Hc as (Hres & _). exists s2. split; [|exact S2]. destruct Hres as [->| ->]; reflexivity. }
  destruct Hc as (Hres & base' & new & Hops2 & Hnew & Hbase & HOF & HCh & Hfresh & _ & Hlastnew).
  subst res. cbn [Z.eqb negb]. change (newBlocksOpened =? newBlocksOpened) with true. cbn [negb].
  assert (Hb' : base' = []).
  { destruct Hbase as [->|[x Hx]]; [exact Hops1|]. rewrite Hops1 in Hx. destruct base'; discriminate. }
  subst base'. cbn [app] in Hops2.
  destruct S2 as [S2 T2].
  assert (HL2 : LineInvD s2).
  { constructor.
    - exact S2.
    - exact T2.
    - rewrite Hops2. exact HCh.
    - intros n p nn Hlo Hn. pose proof (last_opened_nth _ n p (ci_len _ _ (si_c _ _ _ S2)) Hlo) as Hnth.
      fold (ops s2) in Hnth. rewrite Hops2 in Hnth. destruct (Hlastnew n p nn Hnth Hn) as (A & B & C & D). split.
      + intros ->. destruct (A eq_refl) as (ch & ind & fl & E). rewrite E. discriminate.
      + intros ->. destruct (C eq_refl) as (C1 & C2 & _). auto.
    - destruct HOF as [_ HOF]. destruct (HOF 0%nat n0 H0) as [n0' (A & B & _)]. exists n0'. split; [exact A|congruence]. }
  destruct (line_startD s2 HL2) as (M1 & M2 & M3 & M4 & M5).
  set (s3 := advance_line_s s2) in *.
  replace (r_src (s_r s3)) with src by (symmetry; apply (si_src _ _ _ (lid_si _ _ _ M1))).
  match goal with |- context [lines_loopD _ _ _ _ _ _ _ _ _ _ _ _ _ _ _ ?st s3] => set (stats3 := st) end.
  destruct (lines_loopD_ok (S (length src)) stats3 s3 M1 M2) as [r [stats' [E3 Hr]]].
  { pose proof (ri_bounds _ (si_r _ _ _ (lid_si _ _ _ M1))) as Hb. unfold zlen. lia. }
  rewrite E3. cbn [bind]. cbv beta iota. destruct r as [s4|s4].
  - exists s4. split; [reflexivity|exact Hr].
  - destruct Hr as (N1 & N2 & N3 & N4). apply IH; auto.
    apply in_range_true in Q2.
    assert (Hlt : s_start (r_pos r1) < s_stop (r_pos r1)) by (apply (inv_bounds_in r1 (proj1 R1)); lia).
    destruct N4 as (_ & N4 & _). destruct R2 as (_ & _ & R2). destruct Q1 as (Q0 & Q1 & _).
    unfold s1 in *. cbn [st_r s_r] in *. rewrite Q0, Hsrc in Q2. lia.
Qed.

(* ---------- parse_blocksD ---------- *)
Lemma init_LineInvD : LineInvD {| s_h := [mknode BDocument 0]; s_c := init_ctx; s_r := new_reader src |}.
Proof.
  pose proof (init_LineInv space_table norm src) as HI.
  constructor; cbn [s_h s_c s_r].
  - apply (li_si _ _ _ HI).
  - constructor.
    + intros p pn c Hp Hc. destruct p as [|[|p]]; cbn in Hp; try discriminate. injection Hp as <-. contradiction.
    + intros p pn Hp. destruct p as [|[|p]]; cbn in Hp; try discriminate. injection Hp as <-. constructor.
  - constructor; unfold ops, opened; cbn [init_ctx c_len c_arr firstn s_c].
    + intros k n p E. destruct k; discriminate.
    + intros k e E. destruct k; discriminate.
    + intros k L E. destruct k; discriminate.
    + intros k L p E. destruct k; discriminate.
  - apply (li_last _ _ _ HI).
  - apply (li_root _ _ _ HI).
Qed.

Lemma parse_blocksD_ok : exists s, PBD src = Ok s /\ SD s.
Proof.
  unfold parse_blocksD. apply parse_blocks_loopD_ok.
  - apply init_LineInvD.
  - reflexivity.
  - intros i n Hn K. cbn [s_h] in Hn. destruct i as [|[|i]]; cbn in Hn; try discriminate. injection Hn as <-. discriminate.
  - cbn [s_r]. pose proof (ri_bounds _ (si_r _ _ _ (lid_si _ _ _ init_LineInvD))) as Hb. cbn [s_r] in Hb. unfold zlen. lia.
Qed.

Lemma parse_blocksD_tree_ok :
  exists s t, parse_blocksD true space_table punct_table norm re_t1o re_t1c re_t2 re_t3 re_t4 re_t5 re_t6 re_t7 allowed_tags src = Ok s /\
              to_treeD (S (length (s_h s))) src (s_h s) 0%nat = Ok t.
Proof.
  destruct parse_blocksD_ok as [s [E [HS _]]]. pose proof (si_h _ _ _ HS) as HH.
  destruct (to_treeD_ok (s_h s) HH (S (length (s_h s))) 0%nat) as [t Et].
  - pose proof (hi_ne _ _ _ HH) as Hne. destruct (s_h s); [congruence|cbn; lia].
  - lia.
  - exists s, t. auto.
Qed.

End S.
