(* HeadingOptsWf, part L (fork of ParseBlocksRangeL.v): Close of any parser (p_close_h), closeBlocks (close_blocksH). *)
Require Import GM.model.Base GM.model.Util GM.model.Reader GM.model.ReaderSpec GM.model.Blocks GM.model.ListItem
               GM.model.LeafBlocks GM.model.CodeBlock GM.model.LinkDest GM.model.Regex GM.model.HtmlWriter
               GM.model.Html GM.model.HtmlSpec GM.model.BlockParse GM.model.InlineParse GM.model.HeadingOpts.
Require Import GM.proofs.ReaderProofs GM.proofs.BlockRangeProofs GM.proofs.ParseInv
               GM.proofs.ParseBlocksRangeA GM.proofs.HeadingOptsWfBlkB GM.proofs.HeadingOptsWfBlkC
               GM.proofs.HeadingOptsWfBlkD GM.proofs.HeadingOptsWfBlkE
               GM.proofs.HeadingOptsWfBlkG GM.proofs.HeadingOptsWfBlkH GM.proofs.HeadingOptsWfBlkI GM.proofs.HeadingOptsWfBlkJ
               GM.proofs.HeadingOptsWfDefs GM.proofs.HeadingOptsWfBlkQ.
From Coq Require Import ZArith Lia Sorted.
Open Scope Z_scope.

(* cframe, cframe_refl, cframe_trans, in_mid: defined in HeadingOptsWfBlkQ.v *)

Section L.
Variable hc : hcfg.
Variable space_table punct_table : list N.
Variable norm : bytes -> bytes.
Variable re_t1o re_t1c re_t2 re_t3 re_t4 re_t5 re_t6 re_t7 : re.
Variable allowed_tags : list bytes.
Variable utf8len_table : list N.
Variable spaces : bytes.
Variable src : bytes.
Hypothesis sp32 : is_space space_table 32%N = true.
Set Default Proof Using "All".

Notation CC f := (f space_table punct_table norm re_t1o re_t1c re_t2 re_t3 re_t4 re_t5 re_t6 re_t7 allowed_tags src sp32) (only parsing).
Notation SInv := (SInv space_table src).
Notation HI := (HI space_table src).
Notation nodeP := (nodeP space_table src).
Notation heapS := (heapS space_table src).
Notation Jinv := (Jinv src).
Notation openS := (openS src).
Notation pline := (pline space_table src).
Notation oline := (oline src).
Notation fin_lines := (fin_lines src).
Notation fin := (fin src).
Hypothesis Hsrc : bytes_ok src.
Notation CE f := (f space_table punct_table norm re_t1o re_t1c re_t2 re_t3 re_t4 re_t5 re_t6 re_t7 allowed_tags src sp32) (only parsing).
Notation CJ f := (f space_table punct_table norm re_t1o re_t1c re_t2 re_t3 re_t4 re_t5 re_t6 re_t7 allowed_tags src sp32 Hsrc) (only parsing).
Notation OInv := (OInv space_table src).

Notation p_close_h := (p_close_h hc space_table punct_table utf8len_table spaces).
Notation close_rangeH := (close_rangeH hc space_table punct_table norm utf8len_table spaces).
Notation CQ f := (f hc space_table punct_table norm re_t1o re_t1c re_t2 re_t3 re_t4 re_t5 re_t6 re_t7 allowed_tags utf8len_table spaces src sp32 Hsrc) (only parsing).

(* ---------- Close of any parser of the core model, on the last of the blocks being closed ---------- *)
Lemma p_close_ok fl s x bp s' A D N : SInv fl s A (D ++ [(x, bp)]) N -> uniqS (A ++ (D ++ [(x, bp)]) ++ N) ->
  p_close space_table bp s x = Ok s' -> SInv fl s' A D N /\ cframe s s'.
Proof.
  intros HS Hu H.
  assert (forall s1, SInv fl s1 A (D ++ [(x, bp)]) N -> bp <> PSetext -> bp <> PParagraph -> bp <> PATX -> SInv fl s1 A D N) as Hdrop.
  { intros s1 HS1 B1 B2 B3. eapply (CE SInv_drop); [exact HS1|]. intros n En _.
    destruct (CE SInv_entry _ _ _ _ _ _ _ HS1 (in_mid _ _ _ _)) as [n0 [En0 [K _]]].
    assert (n0 = n) by congruence. subst n0. split; intros Kk; rewrite K in Kk; destruct bp; cbn [pkind] in Kk; congruence. }
  destruct bp; cbn [p_close] in H.
  - (* setext *)
    destruct (CE setext_close_ok fl s x s' A D N HS) as [H1 [H2 [H3 [H4 H5]]]]; [|exact H|].
    + intros y Hy. apply Hu; [exact Hy|apply in_mid].
    + split; [exact H1|]. unfold cframe. auto.
  - injection H as <-. split; [apply Hdrop; auto; discriminate|apply cframe_refl].
  - destruct (CE list_close_ok fl s x s' A D N HS H) as [H1 [H2 [H3 H4]]].
    split; [apply Hdrop; auto; discriminate|]. unfold cframe. rewrite H2. auto.
  - injection H as <-. split; [apply Hdrop; auto; discriminate|apply cframe_refl].
  - destruct (CE code_close_ok fl s x s' A _ N HS (in_mid _ _ _ _) H) as [H1 [H2 [H3 H4]]].
    split; [apply Hdrop; auto; discriminate|]. unfold cframe. rewrite H2. csplit; auto. lia.
  - (* ATX: the lines are final *)
    injection H as <-. split; [|apply cframe_refl]. eapply (CE SInv_drop); [exact HS|]. intros n En _.
    destruct (CE SInv_entry _ _ _ _ _ _ _ HS (in_mid _ _ _ _)) as [n1 [En1 [K _]]]. cbn [pkind] in K.
    destruct HS as [_ HH]. destruct (os_atx _ _ _ _ _ _ (hi_open _ _ _ _ _ _ _ _ HH) x (in_mid _ _ _ _)) as [n0 [En0 F]].
    assert (n0 = n) by congruence. assert (n1 = n) by congruence. subst n0 n1. split; intros Kk; [congruence|exact F].
  - destruct (CE fenced_close_ok fl s x s' A _ N HS H) as [H1 [H2 [H3 [H4 [H5 H6]]]]].
    split; [apply Hdrop; auto; discriminate|]. unfold cframe. rewrite H2. csplit; auto.
  - injection H as <-. split; [apply Hdrop; auto; discriminate|apply cframe_refl].
  - injection H as <-. split; [apply Hdrop; auto; discriminate|apply cframe_refl].
  - destruct (CE paragraph_close_ok fl s x s' A D N HS H) as [H1 [H2 [H3 [H4 [H5 [n' [En' F]]]]]]].
    split; [exact H1|unfold cframe; rewrite H2; csplit; auto; lia].
Qed.

(* ---------- Close of any parser of the model with the heading options ---------- *)
Lemma p_close_h_ok fl x node bp x' A D N : SInv fl (hx_s x) A (D ++ [(node, bp)]) N -> AI (hx_attrs x) ->
  uniqS (A ++ (D ++ [(node, bp)]) ++ N) ->
  p_close_h bp x node = Ok x' -> SInv fl (hx_s x') A D N /\ cframe (hx_s x) (hx_s x') /\ AI (hx_attrs x').
Proof.
  intros HS Ha Hu H.
  destruct bp; cbn [HeadingOpts.p_close_h] in H;
    try (unfold hlift0 in H; bind_inv H s1 E1; injection H as <-; cbn [sth_s hx_s hx_attrs];
         destruct (p_close_ok fl (hx_s x) node _ s1 A D N HS Hu E1) as [H1 H2]; csplit; assumption).
  - eapply (CQ setext_close_h_ok); [exact HS|exact Ha| |exact H]. intros y Hy. apply Hu; [exact Hy|apply in_mid].
  - eapply (CQ atx_close_h_ok); [exact HS|exact Ha|exact H].
Qed.

(* ---------- one round of closeBlocks ---------- *)
Lemma close_stepH_ok fl x node bp x1 x' isp att att' A D N :
  SInv fl (hx_s x) A (D ++ [(node, bp)]) N -> AI (hx_attrs x) -> uniqS (A ++ (D ++ [(node, bp)]) ++ N) ->
  is_paragraph (s_h (hx_s x)) node = Ok isp -> attached (s_h (hx_s x)) node = Ok att ->
  (if (isp && att)%bool then (y <- transform_paragraph space_table punct_table norm (hx_s x) node ;; Ok (sth_s x (fst y))) else Ok x) = Ok x1 ->
  attached (s_h (hx_s x1)) node = Ok att' ->
  (if att' then p_close_h bp x1 node else Ok x1) = Ok x' ->
  SInv fl (hx_s x') A D N /\ cframe (hx_s x) (hx_s x') /\ AI (hx_attrs x').
Proof.
  intros HS Ha Hu Hisp Hatt Ht Hatt' Hc.
  destruct (CE SInv_entry _ _ _ _ _ _ _ HS (in_mid _ _ _ _)) as [n [En [K _]]].
  unfold is_paragraph in Hisp. unfold hget in Hisp. rewrite En in Hisp. cbn [bind] in Hisp. injection Hisp as <-.
  unfold attached, hget in Hatt. rewrite En in Hatt. cbn [bind] in Hatt. injection Hatt as <-.
  (* closing a block that is not attached any more: nothing to do *)
  assert (forall s2, SInv fl s2 A (D ++ [(node, bp)]) N -> (forall n2, nth_error (s_h s2) node = Some n2 -> bpar n2 = None) ->
            SInv fl s2 A D N) as Hgone.
  { intros s2 HS2 Hn2. eapply (CE SInv_drop); [exact HS2|]. intros n2 E2 P2. exfalso. apply P2. eapply Hn2. exact E2. }
  destruct (bkind_eqb (bk n) BParagraph && match bpar n with Some _ => true | None => false end)%bool eqn:Ecnd.
  - apply andb_true_iff in Ecnd. destruct Ecnd as [Ek Ea]. apply (CE bkind_eqb_eq) in Ek.
    assert (bp = PParagraph) as -> by (apply (CE pkind_para); congruence).
    bind_inv Ht y Ey. destruct y as [s2 gone]. cbn [fst] in Ht. injection Ht as <-.
    cbn [sth_s hx_s hx_attrs] in *.
    destruct (CJ transform_paragraph_ok fl (hx_s x) node s2 gone A D N HS Ey) as [T1 [T2 [T3 [T4 [T5 [T6 [T7 T8]]]]]]].
    assert (cframe (hx_s x) s2) as Hf by (unfold cframe; auto).
    unfold attached in Hatt'. bind_inv Hatt' n2 En2. apply hget_ok in En2. injection Hatt' as <-.
    destruct gone.
    + rewrite (proj1 (T6 n2 En2) eq_refl) in Hc. injection Hc as <-. cbn [sth_s hx_s hx_attrs].
      csplit; [apply T7; reflexivity|exact Hf|exact Ha].
    + destruct (T8 eq_refl) as [HS2 _]. destruct (bpar n2) eqn:Ep.
      * destruct (p_close_h_ok fl (sth_s x s2) node PParagraph x' A D N HS2 Ha Hu Hc) as [H1 [H2 H3]].
        cbn [sth_s hx_s hx_attrs] in *. csplit; [exact H1| |exact H3]. eapply cframe_trans; eassumption.
      * pose proof (proj2 (T6 n2 En2) Ep). discriminate.
  - injection Ht as <-. unfold attached, hget in Hatt'. rewrite En in Hatt'. cbn [bind] in Hatt'. injection Hatt' as <-.
    destruct (bpar n) eqn:Ep.
    + apply (p_close_h_ok fl x node bp x' A D N HS Ha Hu Hc).
    + injection Hc as <-. csplit; [|apply cframe_refl|exact Ha]. apply Hgone; [exact HS|]. intros n2 E2. congruence.
Qed.

(* ---------- closeBlocks: the blocks D2 are closed from the last one down ---------- *)
Lemma nth_error_mid {X} (P : list X) e R : nth_error (P ++ e :: R) (length P) = Some e.
Proof. rewrite nth_error_app2 by lia. rewrite Nat.sub_diag. reflexivity. Qed.

Lemma close_rangeH_ok fl A N : forall D2 R D1 x x' blocks i,
  blocks = A ++ D1 ++ D2 ++ R -> i = zlen (A ++ D1 ++ D2) - 1 ->
  SInv fl (hx_s x) A (D1 ++ D2) N -> AI (hx_attrs x) -> uniqS (A ++ (D1 ++ D2) ++ N) ->
  close_rangeH x blocks (length D2) i = Ok x' ->
  SInv fl (hx_s x') A D1 N /\ cframe (hx_s x) (hx_s x') /\ AI (hx_attrs x').
Proof.
  intros D2. induction D2 as [|[node bp] D2' IH] using rev_ind; intros R D1 x x' blocks i Hb Hi HS Ha Hu H.
  - cbn [length HeadingOpts.close_rangeH] in H. injection H as <-. rewrite app_nil_r in HS. csplit; [exact HS|apply cframe_refl|exact Ha].
  - rewrite app_length in H. cbn [length] in H. rewrite Nat.add_1_r in H. cbn [HeadingOpts.close_rangeH] in H.
    destruct ((i <? 0) || (zlen blocks <=? i))%bool; [discriminate|].
    assert (nth_error blocks (Z.to_nat i) = Some (node, bp)) as Enth.
    { subst blocks i. rewrite !app_assoc. rewrite <- (app_assoc _ [(node, bp)] R). cbn [app].
      replace (Z.to_nat (zlen (((A ++ D1) ++ D2') ++ [(node, bp)]) - 1)) with (length ((A ++ D1) ++ D2')).
      - apply nth_error_mid.
      - unfold zlen. rewrite (app_length _ [(node, bp)]). cbn [length]. lia. }
    rewrite Enth in H.
    bind_inv H isp Eisp. bind_inv H att Eatt. bind_inv H x1 Ex1. bind_inv H att' Eatt'. bind_inv H x2 Ex2.
    rewrite (app_assoc D1 D2' [(node, bp)]) in HS, Hu.
    destruct (close_stepH_ok fl x node bp x1 x2 isp att att' A (D1 ++ D2') N HS Ha Hu Eisp Eatt Ex1 Eatt' Ex2) as [HS2 [Hf2 Ha2]].
    destruct (IH ((node, bp) :: R) D1 x2 x' blocks (i - 1)) as [HS3 [Hf3 Ha3]]; auto.
    + subst blocks. rewrite <- !app_assoc. reflexivity.
    + subst i. unfold zlen. rewrite !app_length. cbn [length]. lia.
    + eapply (CE uniqS_incl); [exact Hu|]. intros e He. apply in_app_or in He. apply in_or_app.
      destruct He as [He|He]; [left; exact He|right]. apply in_app_or in He. apply in_or_app.
      destruct He as [He|He]; [left; apply in_or_app; left; exact He|right; exact He].
    + csplit; [exact HS3| |exact Ha3]. eapply cframe_trans; eassumption.
Qed.

Lemma firstn_app_exact {X} (a b : list X) : firstn (length a) (a ++ b) = a.
Proof. rewrite firstn_app, Nat.sub_diag, firstn_all. cbn [firstn]. apply app_nil_r. Qed.
Lemma skipn_app_exact {X} (a b : list X) : skipn (length a) (a ++ b) = b.
Proof. rewrite skipn_app, Nat.sub_diag, skipn_all. reflexivity. Qed.

Lemma opened_prefix c (A B : list (nat * bparser)) : opened c = A ++ B -> firstn (length A) (c_arr c) = A.
Proof.
  unfold opened. intros H. assert (length A <= c_len c)%nat as Hle.
  { apply (f_equal (@length _)) in H. rewrite firstn_length, app_length in H. lia. }
  transitivity (firstn (length A) (firstn (c_len c) (c_arr c))).
  - rewrite firstn_firstn. f_equal. lia.
  - rewrite H. apply firstn_app_exact.
Qed.

Lemma close_blocksH_ok fl x x' A D N from to : OInv fl (hx_s x) A D N -> AI (hx_attrs x) -> to = zlen A -> from = zlen A + zlen D - 1 ->
  close_blocksH hc space_table punct_table norm utf8len_table spaces x from to = Ok x' ->
  OInv fl (hx_s x') A [] N /\ s_r (hx_s x') = s_r (hx_s x) /\ (length (s_h (hx_s x)) <= length (s_h (hx_s x')))%nat /\ AI (hx_attrs x').
Proof.
  intros [HS [[Ho Hl] Hu]] Ha Hto Hfrom H. unfold HeadingOpts.close_blocksH in H. bind_inv H x1 E1.
  replace (Z.to_nat (from - to + 1)) with (length D) in E1 by (subst; unfold zlen; lia).
  destruct (close_rangeH_ok fl A N D N [] x x1 (opened (s_c (hx_s x))) from) as [HS1 [[F1 [F2 [F3 F4]]] Ha1]]; auto.
  { subst from. cbn [app]. rewrite zlen_app. lia. }
  set (s := hx_s x) in *. set (s1 := hx_s x1) in *.
  assert (Z.of_nat (c_len (s_c s1)) = zlen A + zlen D + zlen N) as Hn.
  { rewrite F2. apply (f_equal (@length _)) in Ho. unfold opened in Ho. rewrite firstn_length, !app_length in Ho. unfold zlen. lia. }
  assert (forall a l, SInv fl (st_c s1 (cset_open (s_c s1) a l)) A [] N) as Hctx.
  { intros a l. apply (CC SInv_ctx); auto. }
  assert (uniqS (A ++ [] ++ N)) as Hu'.
  { eapply (CE uniqS_incl); [exact Hu|]. intros e He. cbn [app] in He. apply in_app_or in He. apply in_or_app.
    destruct He as [He|He]; [left; exact He|right; apply in_or_app; right; exact He]. }
  assert (firstn (length A) (c_arr (s_c s1)) = A) as HA by (rewrite F1; eapply opened_prefix; exact Ho).
  pose proof (zlen_nonneg A) as HzA. pose proof (zlen_nonneg D) as HzD. pose proof (zlen_nonneg N) as HzN.
  destruct (Z.eqb_spec from (Z.of_nat (c_len (s_c s1)) - 1)) as [Efn|Efn].
  - destruct ((to <? 0) || (Z.of_nat (c_len (s_c s1)) <? to))%bool; [discriminate|]. injection H as <-.
    assert (N = []) as -> by (destruct N; [reflexivity|rewrite zlen_cons in Hn; pose proof (zlen_nonneg N); lia]).
    cbn [sth_s hx_s hx_attrs st_c s_r s_h]. csplit; auto. split; [apply Hctx|]. split; [|exact Hu'].
    unfold Oeq, opened. cbn [st_c s_c cset_open c_arr c_len]. cbn [app]. rewrite app_nil_r.
    subst to. unfold zlen. rewrite Nat2Z.id. split; [exact HA|].
    apply (f_equal (@length _)) in HA. rewrite firstn_length in HA. lia.
  - destruct ((to <? 0) || (from + 1 <? to) || (Z.of_nat (c_len (s_c s1)) <? from + 1))%bool; [discriminate|]. injection H as <-.
    cbn [sth_s hx_s hx_attrs st_c s_r s_h]. csplit; auto. split; [apply Hctx|]. split; [|exact Hu'].
    assert (zskip (from + 1) (firstn (c_len (s_c s1)) (c_arr (s_c s1))) = N) as Hmoved.
    { rewrite F1, F2. fold (opened (s_c s)). rewrite Ho. unfold zskip.
      replace (Z.to_nat (from + 1)) with (length (A ++ D)) by (subst from; unfold zlen; rewrite app_length; lia).
      rewrite app_assoc. apply skipn_app_exact. }
    unfold Oeq, opened. cbn [st_c s_c cset_open c_arr c_len]. rewrite Hmoved. cbn [app].
    unfold zfirst. subst to. replace (Z.to_nat (zlen A)) with (length A) by (unfold zlen; lia). rewrite HA.
    split.
    + rewrite app_assoc. rewrite <- (app_length A N). apply firstn_app_exact.
    + rewrite !app_length. lia.
Qed.

End L.
