(* Plain paragraphs, block phase, part 2: the per-line loop over an open paragraph, the outer
   loop over the paragraphs of the document, and the resulting tree. *)
Require Import GM.model.Base GM.model.Util GM.model.Reader GM.model.ListItem GM.model.Blocks GM.model.CodeBlock
               GM.model.Regex GM.model.BlockParse GM.model.HtmlWriter GM.model.Html.
Require Import GM.gen.Tables GM.proofs.SpecParaBytes GM.proofs.SpecParaReader GM.proofs.SpecParaBlocks.
From Coq Require Import List NArith ZArith Bool Lia.
Import ListNotations.
Open Scope Z_scope.

Opaque space_table punct_table.

(* ---------- what follows a line of a paragraph ---------- *)
(* ptail eb bs suf next: suf begins with the further lines bs of the paragraph; then either the
   source ends (eb = false, next = []) or an empty line follows and next is what comes after it *)
Inductive ptail : bool -> list bytes -> bytes -> bytes -> Prop :=
| pt_eof : ptail false [] [] []
| pt_blank next : ptail true [] (10%N :: next) next
| pt_line eb body term bs rest next :
    body_okb body = true -> term_ok term rest -> ptail eb bs rest next ->
    ptail eb (body :: bs) (body ++ term ++ rest) next.

Lemma rdA_text src k pre body term rest : body_okb body = true -> term_ok term rest ->
  rdA src k pre (body ++ term ++ rest) = rd src k (zlen pre) (zlen pre + zlen (body ++ term)) (zlen pre) None (-1).
Proof.
  intros Hb Ht. unfold rdA. rewrite (fline_text body term rest (text_no_nl body (body_ok_text body Hb)) Ht). reflexivity.
Qed.
Lemma rdA_blank src k pre next : rdA src k pre (10%N :: next) = rd src k (zlen pre) (zlen pre + 1) (zlen pre) None (-1).
Proof. reflexivity. Qed.
Lemma cur_line_here pre body term rest : body_okb body = true -> term_ok term rest ->
  cur_line (pre ++ body ++ term ++ rest) pre body term rest (zlen pre) (zlen pre + zlen (body ++ term)).
Proof.
  intros Hb Ht. split; [|exact Hb|exact Ht]. split; [|split; reflexivity]. rewrite <- app_assoc. reflexivity.
Qed.

Lemma r_src_rd src k a b st pk lo : r_src (rd src k a b st pk lo) = src.
Proof. reflexivity. Qed.
Lemma r_line_rd src k a b st pk lo : r_line (rd src k a b st pk lo) = k.
Proof. reflexivity. Qed.
Lemma advance_line_suf' src pre suf k a b st pk lo :
  src = pre ++ suf -> b = zlen pre -> r_advance_line (rd src k a b st pk lo) = rdA src (k + 1) pre suf.
Proof. intros Hs ->. apply advance_line_suf. exact Hs. Qed.

Section Driver.
Variable norm : bytes -> bytes.
Variables re_t1o re_t1c re_t2 re_t3 re_t4 re_t5 re_t6 re_t7 : re.
Variable allowed_tags : list bytes.
Notation OB := (open_blocks space_table punct_table norm re_t1o re_t1c re_t2 re_t3 re_t4 re_t5 re_t6 re_t7 allowed_tags).
Notation EACH := (each_opened space_table punct_table norm re_t1o re_t1c re_t2 re_t3 re_t4 re_t5 re_t6 re_t7 allowed_tags).
Notation LINES := (lines_loop space_table punct_table norm re_t1o re_t1c re_t2 re_t3 re_t4 re_t5 re_t6 re_t7 allowed_tags).
Notation PBL := (parse_blocks_loop space_table punct_table norm re_t1o re_t1c re_t2 re_t3 re_t4 re_t5 re_t6 re_t7 allowed_tags).
Notation CLOSE := (close_blocks space_table punct_table norm).

Definition heap1 (cs : list nat) (cl : list bnode) (ls : list seg) (bl : bool) : heap :=
  dnode cs :: cl ++ [pnode (Some 0%nat) ls bl].
Definition ctx1 (cl : list bnode) (tl : list (nat * bparser)) (n : nat) : pctx := ctx ((S (length cl), PParagraph) :: tl) n.

(* one line of the loop over the opened blocks: a further text line *)
Lemma each_text f cs cl tl ls bl src pre body term rest k a b stats :
  cur_line src pre body term rest a b ->
  EACH (S f) [(S (length cl), PParagraph)] 0%nat 0 0 stats
       (mkst (heap1 cs cl ls bl) (ctx1 cl tl 1) (rd src k a b a None (-1))) =
  Ok (inr (mkst (heap1 cs cl (ls ++ [mkseg a b]) bl) (ctx1 cl tl 1) (rd src k a b (b - 1) None (-1))),
      (k, 0, false) :: stats).
Proof.
  intros Hc. pose proof (cl_body _ _ _ _ _ _ _ Hc) as Hb.
  unfold heap1, ctx1. cbn [each_opened]. change (0 <? 0) with false. cbv iota. cbn [Z.to_nat nth_error].
  rewrite (peek_s_fresh _ _ src pre (body ++ term) rest k a b (-1) (cl_at _ _ _ _ _ _ _ Hc) (text_line_nonempty body term Hb)).
  cbn [bind s_h]. rewrite is_paragraph_last. cbn [bind negb]. cbv iota.
  change (0 =? 0) with true. cbv iota. cbn [bind nth_error].
  replace (2 * length (body ++ term) + 8)%nat with (S (2 * length (body ++ term) + 7))%nat by lia.
  rewrite (open_blocks_cont_text norm re_t1o re_t1c re_t2 re_t3 re_t4 re_t5 re_t6 re_t7 allowed_tags _ cs cl tl ls bl src pre body term rest k a b _ Hc).
  cbn [bind]. change (paragraphContinuation =? paragraphContinuation) with true. cbn [negb]. cbv iota.
  unfold rline. cbn [s_r]. unfold rd at 1. cbn [r_line]. rewrite (text_line_not_blank body term Hb). reflexivity.
Qed.

(* an empty line closes the paragraph *)
Lemma each_blank f cs cl tl acc bl src pre0 body0 term0 rest0 a0 b0 pre rest k a b stats :
  Forall (good_seg src) acc -> cur_line src pre0 body0 term0 rest0 a0 b0 ->
  at_line src pre [10%N] rest a b ->
  EACH (S f) [(S (length cl), PParagraph)] 0%nat 0 0 stats
       (mkst (heap1 cs cl (acc ++ [mkseg a0 b0]) bl) (ctx1 cl tl 1) (rd src k a b a None (-1))) =
  Ok (inr (mkst (heap1 cs cl (acc ++ [mkseg a0 (a0 + zlen body0)]) bl) (ctx1 cl tl 0) (rd src k a b a (SomeB [10%N]) 0)),
      (k, 0, true) :: stats).
Proof.
  intros Hacc Hc Hat.
  unfold heap1, ctx1. cbn [each_opened]. change (0 <? 0) with false. cbv iota. cbn [Z.to_nat nth_error].
  rewrite (peek_s_fresh _ _ src pre [10%N] rest k a b (-1) Hat) by discriminate.
  cbn [bind s_h]. rewrite is_paragraph_last. cbn [bind negb]. cbv iota.
  change (0 =? 0) with true. cbv iota. cbn [bind nth_error].
  change (2 * length [10%N] + 8)%nat with 10%nat.
  rewrite (open_blocks_cont_blank norm re_t1o re_t1c re_t2 re_t3 re_t4 re_t5 re_t6 re_t7 allowed_tags _ cs cl tl _ bl src pre rest k a b _ Hat).
  cbn [bind]. change (noBlocksOpened =? paragraphContinuation) with false. cbn [negb]. cbv iota.
  cbn [s_c ctx c_arr nth_error bind]. rewrite Nat.eqb_refl.
  rewrite (close_blocks_para norm cs cl tl acc src pre0 body0 term0 rest0 a0 b0 bl (rd src k a b a (SomeB [10%N]) 0) eq_refl Hacc Hc).
  cbn [bind]. unfold rline. cbn [s_r]. unfold rd at 1. cbn [r_line Reader.is_blank]. rewrite nl_is_space. reflexivity.
Qed.

(* the end of the source closes the paragraph and ends the parse *)
Lemma each_eof f cs cl tl acc bl src pre0 body0 term0 rest0 a0 b0 k a b stats :
  Forall (good_seg src) acc -> cur_line src pre0 body0 term0 rest0 a0 b0 -> zlen src <= a ->
  exists r, EACH (S f) [(S (length cl), PParagraph)] 0%nat 0 0 stats
       (mkst (heap1 cs cl (acc ++ [mkseg a0 b0]) bl) (ctx1 cl tl 1) (rd src k a b a None (-1))) =
  Ok (inl (mkst (heap1 cs cl (acc ++ [mkseg a0 (a0 + zlen body0)]) bl) (ctx1 cl tl 0) r), stats).
Proof.
  intros Hacc Hc Ha. eexists.
  unfold heap1, ctx1. cbn [each_opened]. change (0 <? 0) with false. cbv iota. cbn [Z.to_nat nth_error].
  rewrite peek_s_eof by exact Ha. cbn [bind].
  rewrite (close_blocks_para norm cs cl tl acc src pre0 body0 term0 rest0 a0 b0 bl (rd src k a b a None (-1)) eq_refl Hacc Hc).
  cbn [bind]. unfold advance_line_s, st_r. cbn [s_h s_c s_r]. reflexivity.
Qed.

Lemma opened_ctx1 cl tl : opened (ctx1 cl tl 1) = [(S (length cl), PParagraph)].
Proof. reflexivity. Qed.
Lemma lines_idle f stats h tl cl r : LINES (S f) 0%nat stats (mkst h (ctx1 cl tl 0) r) = Ok (inr (mkst h (ctx1 cl tl 0) r), stats).
Proof. reflexivity. Qed.

Lemma term_ok_nonempty term suf : term_ok term suf -> suf <> [] -> term = [10%N].
Proof. intros [H|[_ H]] Hne; [exact H|congruence]. Qed.

(* the loop over the lines of the open paragraph, from the line after (body, term) on *)
Lemma lines_loop_para eb bs suf next : ptail eb bs suf next ->
  forall fuel cs cl tl acc bl pre body term k stats src,
  (length suf < fuel)%nat -> src = pre ++ body ++ term ++ suf ->
  body_okb body = true -> term_ok term suf -> Forall (good_seg src) acc ->
  exists stats' sfin,
    LINES fuel 0%nat stats
          (mkst (heap1 cs cl (acc ++ [mkseg (zlen pre) (zlen pre + zlen (body ++ term))]) bl) (ctx1 cl tl 1)
                (rdA src k (pre ++ body ++ term) suf)) =
    Ok ((if eb then inr sfin else inl sfin), stats') /\
    s_h sfin = heap1 cs cl (acc ++ para_segs (zlen pre) (body :: bs)) bl /\ s_c sfin = ctx1 cl tl 0 /\
    (eb = true -> exists k' pre', src = pre' ++ next /\ s_r sfin = rdA src k' pre' next).
Proof.
  induction 1 as [|next|eb body' term' bs rest next Hb' Ht' Hpt IH];
    intros fuel cs cl tl acc bl pre body term k stats src Hfuel Hsrc Hb Ht Hacc.
  - (* end of the source *)
    destruct fuel as [|f]; [cbn [length] in Hfuel; lia|].
    assert (Hc : cur_line src pre body term [] (zlen pre) (zlen pre + zlen (body ++ term))).
    { rewrite Hsrc. apply cur_line_here; assumption. }
    destruct (each_eof 1 cs cl tl acc bl src pre body term [] (zlen pre) (zlen pre + zlen (body ++ term)) k
                (zlen (pre ++ body ++ term)) (zlen (pre ++ body ++ term) + zlen (fline [])) stats Hacc Hc) as [r Hr].
    { rewrite Hsrc, !app_nil_r. lia. }
    exists stats. eexists. split; [|split; [|split]].
    + cbn [lines_loop s_c]. rewrite !opened_ctx1. cbn [length]. change (zlen [(S (length cl), PParagraph)] - 1) with 0.
      unfold rdA. rewrite Hr. cbn [bind]. reflexivity.
    + reflexivity.
    + reflexivity.
    + discriminate.
  - (* an empty line *)
    destruct fuel as [|[|f]]; [cbn [length] in Hfuel; lia|cbn [length] in Hfuel; lia|].
    assert (Hc : cur_line src pre body term (10%N :: next) (zlen pre) (zlen pre + zlen (body ++ term))).
    { rewrite Hsrc. apply cur_line_here; assumption. }
    assert (Hat : at_line src (pre ++ body ++ term) [10%N] next (zlen (pre ++ body ++ term)) (zlen (pre ++ body ++ term) + 1)).
    { split; [|split; reflexivity]. rewrite Hsrc. rewrite <- !app_assoc. reflexivity. }
    exists ((k, 0, true) :: stats). eexists. split; [|split; [|split]].
    + cbn [lines_loop s_c]. rewrite !opened_ctx1. cbn [length]. change (zlen [(S (length cl), PParagraph)] - 1) with 0.
      rewrite rdA_blank.
      pose proof (each_blank 1 cs cl tl acc bl src pre body term (10%N :: next) (zlen pre) (zlen pre + zlen (body ++ term))
                    (pre ++ body ++ term) next k _ _ stats Hacc Hc Hat) as He.
      rewrite He. cbn [bind].
      unfold advance_line_s, st_r. cbn [s_h s_c s_r].
      rewrite (advance_line_suf' src ((pre ++ body ++ term) ++ [10%N]) next).
      2:{ rewrite Hsrc. rewrite <- !app_assoc. reflexivity. }
      2:{ rewrite (zlen_app (pre ++ body ++ term)). reflexivity. }
      reflexivity.
    + reflexivity.
    + reflexivity.
    + intros _. exists (k + 1), ((pre ++ body ++ term) ++ [10%N]). split; [|reflexivity].
      rewrite Hsrc. rewrite <- !app_assoc. reflexivity.
  - (* a further text line *)
    destruct fuel as [|f]; [lia|].
    assert (Hterm : term = [10%N]).
    { apply (term_ok_nonempty term _ Ht). destruct (body_ok_head body' Hb') as (ch & r & -> & _). discriminate. }
    assert (Hc : cur_line src pre body term (body' ++ term' ++ rest) (zlen pre) (zlen pre + zlen (body ++ term))).
    { rewrite Hsrc. apply cur_line_here; assumption. }
    assert (Hsrc' : src = (pre ++ body ++ term) ++ body' ++ term' ++ rest).
    { rewrite Hsrc. rewrite <- !app_assoc. reflexivity. }
    assert (Hc' : cur_line src (pre ++ body ++ term) body' term' rest (zlen (pre ++ body ++ term))
                    (zlen (pre ++ body ++ term) + zlen (body' ++ term'))).
    { rewrite Hsrc'. apply cur_line_here; assumption. }
    assert (Hfuel' : (length rest < f)%nat).
    { rewrite !app_length in Hfuel. pose proof (body_ok_nonempty body' Hb') as Hn. unfold zlen in Hn. lia. }
    assert (Hacc' : Forall (good_seg src) (acc ++ [mkseg (zlen pre) (zlen pre + zlen (body ++ term))])).
    { apply Forall_app. split; [exact Hacc|]. constructor; [|constructor]. exact (cur_line_good _ _ _ _ _ _ _ Hc). }
    destruct (IH f cs cl tl (acc ++ [mkseg (zlen pre) (zlen pre + zlen (body ++ term))]) bl (pre ++ body ++ term) body' term'
                 (k + 1) ((k, 0, false) :: stats) src Hfuel' Hsrc' Hb' Ht' Hacc') as (stats' & sfin & Hrun & Hh & Hcx & Hnext).
    exists stats', sfin. split; [|split; [|split]].
    + cbn [lines_loop s_c]. rewrite !opened_ctx1. cbn [length]. change (zlen [(S (length cl), PParagraph)] - 1) with 0.
      rewrite (rdA_text src k (pre ++ body ++ term) body' term' rest Hb' Ht').
      pose proof (each_text 1 cs cl tl (acc ++ [mkseg (zlen pre) (zlen pre + zlen (body ++ term))]) bl src
                    (pre ++ body ++ term) body' term' rest k _ _ stats Hc') as He.
      rewrite He. cbn [bind].
      unfold advance_line_s, st_r. cbn [s_h s_c s_r].
      rewrite (advance_line_suf' src ((pre ++ body ++ term) ++ body' ++ term') rest).
      2:{ rewrite Hsrc'. rewrite <- !app_assoc. reflexivity. }
      2:{ rewrite (zlen_app (pre ++ body ++ term)). reflexivity. }
      exact Hrun.
    + rewrite Hh. unfold heap1. f_equal. f_equal. f_equal. rewrite <- app_assoc. f_equal.
      cbn [app para_segs]. rewrite Hterm. rewrite !zlen_app.
      replace (zlen [10%N]) with 1 by reflexivity.
      replace (zlen pre + (zlen body + 1)) with (zlen pre + zlen body + 1) by lia. reflexivity.
    + exact Hcx.
    + exact Hnext.
Qed.

(* ---------- the paragraphs of the document ---------- *)
(* dtail d suf: suf is the text of the paragraphs d (up to the end of the source) *)
Inductive dtail : list (list bytes) -> bytes -> Prop :=
| dt_last body bs term suf :
    body_okb body = true -> term_ok term suf -> ptail false bs suf [] -> dtail [body :: bs] (body ++ term ++ suf)
| dt_more body bs term suf next d :
    body_okb body = true -> term_ok term suf -> ptail true bs suf next -> dtail d next ->
    dtail ((body :: bs) :: d) (body ++ term ++ suf).

Lemma ptail_len bs suf next : ptail true bs suf next -> forall body term, term_ok term suf ->
  zlen (body ++ term ++ suf) = zlen (para_src (body :: bs)) + 2 + zlen next.
Proof.
  remember true as eb eqn:Heb. induction 1 as [|next|eb body' term' bs rest next Hb' Ht' Hpt IH]; intros body term Ht.
  - discriminate.
  - rewrite (term_ok_nonempty term _ Ht) by discriminate.
    unfold para_src. cbn [SpecDoc.join]. rewrite !zlen_app. change (zlen [10%N]) with 1. rewrite zlen_cons. clear. lia.
  - rewrite (term_ok_nonempty term _ Ht).
    2:{ destruct (body_ok_head body' Hb') as (ch & r & -> & _). discriminate. }
    rewrite para_src_cons2. rewrite !(zlen_app body). rewrite !(zlen_app [10%N]). rewrite (IH Heb body' term' Ht'). change (zlen [10%N]) with 1. unfold bytes. clear. lia.
Qed.

Fixpoint pnodes_ok (off : Z) (d : list (list bytes)) (ns : list bnode) : Prop :=
  match d, ns with
  | [], [] => True
  | p :: d', n :: ns' => (exists bl, n = pnode (Some 0%nat) (para_segs off p) bl) /\ pnodes_ok (off + zlen (para_src p) + 2) d' ns'
  | _, _ => False
  end.

Lemma skip_blank_text f src k a b pre body term rest : cur_line src pre body term rest a b ->
  r_skip_blank_lines space_table (S f) (rd src k a b a None (-1)) =
  Ok (rd src k a b a (SomeB (body ++ term)) (-1), lseg a b, 0, true).
Proof.
  intros Hc. pose proof (cl_body _ _ _ _ _ _ _ Hc) as Hb.
  unfold r_skip_blank_lines. cbn [skip_blank_lines].
  rewrite (peek_fresh src pre (body ++ term) rest k a b (-1) (cl_at _ _ _ _ _ _ _ Hc) (text_line_nonempty body term Hb)).
  cbn [bind]. rewrite (text_line_not_blank body term Hb). reflexivity.
Qed.

(* one paragraph: from the outer loop to the state after its last line *)
Lemma para_step f eb bs suf next cs cl arr pre body term k stats src :
  ptail eb bs suf next -> src = pre ++ body ++ term ++ suf -> body_okb body = true -> term_ok term suf ->
  exists stats' sfin bl,
    PBL (S f) 0%nat stats (mkst (dnode cs :: cl) (ctx arr 0) (rdA src k pre (body ++ term ++ suf))) =
    (if eb then PBL f 0%nat stats' sfin else Ok sfin) /\
    s_h sfin = dnode (cs ++ [S (length cl)]) :: cl ++ [pnode (Some 0%nat) (para_segs (zlen pre) (body :: bs)) bl] /\
    s_c sfin = ctx1 cl (skipn 1 arr) 0 /\
    (eb = true -> exists k' pre', src = pre' ++ next /\ s_r sfin = rdA src k' pre' next).
Proof.
  intros Hpt Hsrc Hb Ht.
  assert (Hc : cur_line src pre body term suf (zlen pre) (zlen pre + zlen (body ++ term))).
  { rewrite Hsrc. apply cur_line_here; assumption. }
  set (blank := is_blank_line (k - 1) 0 stats).
  destruct (lines_loop_para eb bs suf next Hpt (S (length src)) (cs ++ [S (length cl)]) cl (skipn 1 arr) [] blank pre body term (k + 1) stats src)
    as (stats' & sfin & Hrun & Hh & Hcx & Hnext); try assumption.
  { rewrite Hsrc, !app_length. lia. }
  { constructor. }
  exists stats', sfin, blank. split; [|split; [|split]]; try assumption.
  cbn [parse_blocks_loop]. unfold src_of. cbn [s_r].
  rewrite (rdA_text src k pre body term suf Hb Ht). rewrite !r_src_rd.
  rewrite (skip_blank_text _ src k _ _ pre body term suf Hc). cbn [bind]. cbv iota. cbn [negb].
  unfold st_r. cbn [s_h s_c s_r]. change (0 =? 0) with true. cbn [negb]. cbv iota.
  unfold rline. cbn [s_r]. rewrite !r_line_rd, !r_src_rd. fold blank.
  replace (2 * length src + 8)%nat with (S (2 * length src + 7))%nat by lia.
  rewrite (open_blocks_idle_text norm re_t1o re_t1c re_t2 re_t3 re_t4 re_t5 re_t6 re_t7 allowed_tags _ cs cl arr src pre body term suf k _ _ blank Hc).
  cbn [bind]. change (newBlocksOpened =? newBlocksOpened) with true. cbn [negb]. cbv iota.
  unfold advance_line_s, st_r. cbn [s_h s_c s_r]. unfold src_of. cbn [s_r].
  rewrite (advance_line_suf' src (pre ++ body ++ term) suf).
  2:{ rewrite Hsrc, <- !app_assoc. reflexivity. }
  2:{ rewrite (zlen_app pre). reflexivity. }
  unfold rdA at 1. rewrite r_src_rd. fold (rdA src (k + 1) (pre ++ body ++ term) suf).
  cbn [app] in Hrun. unfold heap1, ctx1 in Hrun. rewrite Hrun. cbn [bind].
  destruct eb; reflexivity.
Qed.

Lemma ptail_next_len eb bs suf next : ptail eb bs suf next -> (length next <= length suf)%nat.
Proof.
  induction 1 as [|next|eb body' term' bs rest next Hb' Ht' Hpt IH]; cbn [length]; [lia|lia|].
  rewrite !app_length. lia.
Qed.
Lemma dtail_len d suf : dtail d suf -> (length d <= length suf)%nat.
Proof.
  induction 1 as [body bs term suf Hb Ht Hpt|body bs term suf next d Hb Ht Hpt Hd IH];
    pose proof (body_ok_nonempty body Hb) as Hn; unfold zlen in Hn; rewrite !app_length; cbn [length].
  - lia.
  - pose proof (ptail_next_len _ _ _ _ Hpt). lia.
Qed.

(* the outer loop over all the paragraphs *)
Lemma pbl_doc d suf : dtail d suf -> forall fuel cs cl arr pre k stats src,
  (length d <= fuel)%nat -> src = pre ++ suf ->
  exists sfin ns,
    PBL fuel 0%nat stats (mkst (dnode cs :: cl) (ctx arr 0) (rdA src k pre suf)) = Ok sfin /\
    s_h sfin = dnode (cs ++ seq (S (length cl)) (length d)) :: cl ++ ns /\
    pnodes_ok (zlen pre) d ns /\ c_refs (s_c sfin) = [].
Proof.
  induction 1 as [body bs term suf Hb Ht Hpt|body bs term suf next d Hb Ht Hpt Hd IH];
    intros fuel cs cl arr pre k stats src Hfuel Hsrc.
  - destruct fuel as [|f]; [cbn [length] in Hfuel; lia|].
    destruct (para_step f false bs suf [] cs cl arr pre body term k stats src Hpt Hsrc Hb Ht)
      as (stats' & sfin & bl & Hrun & Hh & Hcx & _).
    exists sfin, [pnode (Some 0%nat) (para_segs (zlen pre) (body :: bs)) bl].
    split; [exact Hrun|]. split; [exact Hh|]. split.
    + cbn [pnodes_ok]. split; [exists bl; reflexivity|exact I].
    + rewrite Hcx. reflexivity.
  - destruct fuel as [|f]; [cbn [length] in Hfuel; lia|]. cbn [length] in Hfuel.
    destruct (para_step f true bs suf next cs cl arr pre body term k stats src Hpt Hsrc Hb Ht)
      as (stats' & sfin & bl & Hrun & Hh & Hcx & Hnext).
    destruct (Hnext eq_refl) as (k' & pre' & Hsrc' & Hr).
    destruct sfin as [h c r]. cbn [s_h s_c s_r] in Hh, Hcx, Hr. subst h c r.
    destruct (IH f (cs ++ [S (length cl)]) (cl ++ [pnode (Some 0%nat) (para_segs (zlen pre) (body :: bs)) bl])
                 ((S (length cl), PParagraph) :: skipn 1 arr) pre' k' stats' src) as (sfin & ns & Hrun' & Hh' & Hns & Hrefs);
      [lia|exact Hsrc'|].
    exists sfin, (pnode (Some 0%nat) (para_segs (zlen pre) (body :: bs)) bl :: ns).
    split; [rewrite Hrun; exact Hrun'|]. split; [|split; [|exact Hrefs]].
    + rewrite Hh'. rewrite app_length. cbn [length seq]. rewrite Nat.add_1_r. rewrite <- !app_assoc. reflexivity.
    + cbn [pnodes_ok]. split; [exists bl; reflexivity|].
      replace (zlen pre + zlen (para_src (body :: bs)) + 2) with (zlen pre'); [exact Hns|].
      pose proof (ptail_len bs suf next Hpt body term Ht) as Hlen.
      assert (Hz : zlen src = zlen pre + zlen (body ++ term ++ suf)) by (rewrite Hsrc, zlen_app; reflexivity).
      assert (Hz' : zlen src = zlen pre' + zlen next) by (rewrite Hsrc', zlen_app; reflexivity).
      unfold bytes in *. lia.
Qed.
End Driver.
