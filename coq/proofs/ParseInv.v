(* Shared definitions for the theorems about the parser model (BlockParse.v, InlineParse.v). *)
Require Import GM.model.Base GM.model.Util GM.model.Reader GM.model.ReaderSpec GM.model.HtmlWriter
               GM.model.Html GM.model.HtmlSpec GM.model.BlockParse GM.model.InlineParse.
From Coq Require Import ZArith.
Open Scope Z_scope.

Definition bytes_ok (v : bytes) : Prop := all_bytes_b v = true.
(* destinations and titles of the reference map are byte strings *)
Definition refs_ok (refs : list (bytes * (bytes * option bytes))) : Prop :=
  Forall (fun e => bytes_ok (fst (snd e)) /\ forall t, snd (snd e) = Some t -> bytes_ok t) refs.
(* the lines of an inline-bearing block, as the block reader's invariant wants them *)
Definition lines_ok (src : bytes) (lines : list seg) : Prop :=
  forallb (seg_ok_b src) lines = true /\ segs_sorted_b lines = true.
(* inline trees: no block kinds, no bookkeeping nodes *)
Definition inline_kind (k : kind) : bool :=
  match k with
  | KText _ _ _ _ | KCodeSpan | KEmphasis _ | KLink _ _ | KImage _ _ | KAutoLink _ _ _ | KRawHTML _ => true
  | _ => false
  end.
Fixpoint all_kinds (p : kind -> bool) (t : tree) {struct t} : bool :=
  match t with
  | Node k _ _ kids => p k && (fix go (l : list tree) : bool := match l with [] => true | x :: r => all_kinds p x && go r end) kids
  end.
