(* Helper file for GfmWfInl.v: the delimiter processors of model/InlineParseX.v (closer_loopX,
   process_delimitersX) keep the context invariant of proofs/ParseInlineRangeHeap.v.  Ports of
   closer_loop_ok and process_delimiters_ok: the only difference is the kind of the new node
   (on_match: an Emphasis node whatever the processor). *)
Require Import GM.model.Base GM.model.Util GM.model.Reader GM.model.HtmlSpec GM.model.BlockParse GM.model.InlineParse
               GM.model.InlineParseX.
Require Import GM.proofs.ParseInlineRangeHeap.
From Coq Require Import ZArith Lia List Bool.
Import ListNotations.
Open Scope Z_scope.

Lemma on_match_emph ch consume : exists l, on_match ch consume = IEmphasis l.
Proof. unfold on_match, IStrikethrough. destruct (N.eqb ch 126); eexists; reflexivity. Qed.

Lemma closer_loopX_ok src : forall fuel c closer b c' L, closer_loopX fuel c closer b = Ok c' -> ctx_ok src [] c L ->
  (forall cl, closer = Some cl -> In cl L) ->
  exists L', ctx_ok src [] c' L' /\ kle (i_h c) (i_h c') /\ i_labels c' = i_labels c /\ i_bottoms c' = i_bottoms c.
Proof.
  induction fuel as [|f IH]; intros c closer b c' L H Hc Hcl; cbn [closer_loopX] in H; [discriminate|].
  destruct closer as [cl|].
  2:{ inversion H; subst c'. exists L. split; [exact Hc|]. split; [apply kle_refl|]. auto. }
  destruct (dget (i_h c) cl) as [[[[[[[[csg c_open] c_close] c_len] c_orig] c_ch] c_prev] c_next]| |] eqn:Eg;
    cbn [bind] in H; try discriminate.
  destruct (in_split_nat cl L (Hcl cl eq_refl)) as (A & B & ->).
  destruct Hc as [Hh Hd].
  destruct (dget_dlk _ _ _ _ _ _ _ _ _ _ Eg) as [Hdl Hln].
  pose proof (dseg_mid _ _ _ _ _ _ (dl_chain _ _ _ Hd)) as Hm. rewrite Hm in Hdl. inversion Hdl as [[Hp Hnx]].
  assert (HnB : forall y, c_next = Some y -> In y B). { intros y Ey. apply nxt_of_in. congruence. }
  destruct (negb c_close).
  { apply (IH c c_next b c' (A ++ cl :: B) H (conj Hh Hd)). intros y Ey. rewrite in_app_iff. cbn. auto. }
  destruct (find_opener (S (length (i_h c))) (i_h c) c_prev b c_open c_len c_orig c_ch false) as [[found maybe]| |] eqn:Ef;
    cbn [bind] in H; try discriminate.
  destruct found as [[op consume]|].
  2:{ destruct (negb maybe && negb c_open).
      - destruct (remove_delimiter c cl) as [c1| |] eqn:Er; cbn [bind] in H; try discriminate.
        destruct (remove_delimiter_ok src [] c A cl B c1 Er Hh Hd) as (Hh1 & Hk1 & Fl & Fb & Hd1 & _).
        specialize (Hd1 [] ltac:(intros ? [])).
        destruct (IH c1 c_next b c' (A ++ B) H (conj Hh1 Hd1)) as (L' & Hc' & Hk' & Fl' & Fb').
        { intros y Ey. rewrite in_app_iff. auto. }
        exists L'. split; [exact Hc'|]. split; [eapply kle_trans; eassumption|]. split; congruence.
      - cbn [bind] in H. apply (IH c c_next b c' (A ++ cl :: B) H (conj Hh Hd)). intros y Ey. rewrite in_app_iff. cbn. auto. }
  (* an opener was found *)
  assert (Hcl1 : 1 <= c_len). { apply (dl_len _ _ _ Hd cl c_len); [rewrite in_app_iff; cbn; auto|intros []|exact Hln]. }
  destruct (find_opener_ok (i_h c) A (cl :: B)) with (fuel := S (length (i_h c))) (cur := c_prev) (b := b) (co := c_open)
    (cl_len := c_len) (cl_orig := c_orig) (cl_ch := c_ch) (maybe := false) (o := op) (consume := consume) (m := maybe)
    as (HopA & olen & Hol & Hcons & Hconsc); try assumption.
  { intros o len Ho Hl. apply (dl_len _ _ _ Hd o len); [rewrite in_app_iff; auto|intros []|exact Hl]. }
  { exact (dl_chain _ _ _ Hd). }
  { intros x Ex. rewrite <- Hp in Ex. apply lst_of_in in Ex. destruct Ex; [discriminate|assumption]. }
  destruct (in_split_nat op A HopA) as (A1 & M & ->).
  assert (ND : NoDup (A1 ++ op :: M ++ cl :: B)).
  { pose proof (dl_nodup _ _ _ Hd) as ND. rewrite <- app_assoc in ND. exact ND. }
  assert (Hopcl : op <> cl).
  { intros ->. apply nodup_app_r in ND. inversion ND as [|? ? Hx _]; subst. apply Hx. rewrite in_app_iff. cbn. auto. }
  destruct (consume_chars (i_h c) op consume) as [h1| |] eqn:E1; cbn [bind] in H; try discriminate.
  destruct (consume_chars_ok src _ _ _ _ olen E1 Hh Hol ltac:(lia)) as (Hh1 & Hk1 & L1 & P1 & C1 & V1 & N1 & K1).
  destruct (consume_chars h1 cl consume) as [h2| |] eqn:E2; cbn [bind] in H; try discriminate.
  assert (Hln1 : dlen h1 cl = Some c_len). { rewrite N1. destruct (Nat.eqb_spec cl op); [congruence|exact Hln]. }
  destruct (consume_chars_ok src _ _ _ _ c_len E2 Hh1 Hln1 ltac:(lia)) as (Hh2 & Hk2 & L2 & P2 & C2 & V2 & N2 & K2).
  assert (Hd2 : dl_ok [cl; op] (cx_h c h2) ((A1 ++ op :: M) ++ cl :: B)).
  { apply (dl_consume [op] (cx_h c h1)); cbn [i_h cx_h]; try assumption.
    - apply dl_consume; try assumption. intros j Hj. rewrite N1. destruct (Nat.eqb_spec j op); [contradiction|reflexivity].
    - intros j Hj. rewrite N2. destruct (Nat.eqb_spec j cl); [contradiction|reflexivity]. }
  destruct (dget (i_h (cx_h c h2)) op) as [[[[[[[[osg0 o_open0] o_close0] o_len0] o_orig0] o_ch0] o_prev0] o_next0]| |] eqn:Eg0;
    cbn [bind] in H; try discriminate.
  destruct (on_match_emph o_ch0 consume) as [lv Elv]. rewrite Elv in H.
  destruct (new_inode (cx_h c h2) (IEmphasis lv)) as [c3 node] eqn:En.
  destruct (ctx_new src _ _ _ _ _ _ En I (conj Hh2 Hd2)) as ([Hh3 Hd3] & Hk3 & Hs3 & Kn & Pn & Nn & HnL & Hnode & Kne).
  destruct (iget (i_h c3) op) as [opn| |] eqn:Eo; cbn [bind] in H; try discriminate.
  apply iget_kd in Eo. destruct Eo as (Eko & Epo & _).
  destruct (ipar opn) as [parent|] eqn:Epar; [|discriminate].
  destruct (i_next (i_h c3) op) as [child| |] eqn:Ech; cbn [bind] in H; try discriminate.
  destruct (move_children (S (length (i_h c3))) (i_h c3) child (Some cl) node) as [h4| |] eqn:Em; cbn [bind] in H; try discriminate.
  destruct (move_children_ok src _ _ _ _ _ _ Em Hh3) as (Hh4 & K4 & Hn4 & L4).
  { intros x ->. apply i_next_in in Ech. destruct Ech as (p & _ & Hin). exists p. exact Hin. }
  { rewrite Kn. discriminate. }
  destruct (i_insert_after h4 parent op node) as [h5| |] eqn:Ei; cbn [bind] in H; try discriminate.
  pose proof (i_insert_after_spec _ _ _ _ _ Ei (h_tree _ _ Hh4)) as Hat.
  assert (Hopd : dlk (i_h c3) op <> None).
  { eapply dseg_in; [exact (dl_chain _ _ _ Hd3)|]. rewrite !in_app_iff. cbn. auto. }
  assert (Hpar : kd (i_h c3) parent <> Some ICodeSpan).
  { intros C0. pose proof (t_par _ (h_tree _ _ Hh3) op parent Epo) as Hin.
    unfold dlk in Hopd. destruct (kd (i_h c3) op) as [ko|] eqn:Eko'; [|congruence].
    pose proof (h_cs _ _ Hh3 parent op ko C0 Hin Eko') as Ht. destruct ko; cbn in Ht; try discriminate. congruence. }
  destruct (heap_ok_attach src _ _ _ _ Hat Hh4) as [Hh5 Hk5].
  { intros C0. rewrite K4 in C0. contradiction. }
  assert (Hn5 : dneutral h4 h5).
  { eapply dn_attach; [exact Hat|]. left. unfold dlk. rewrite K4, Kn. reflexivity. }
  pose proof (ctx_neutral src _ _ _ h5 (conj Hh3 Hd3) Hh5 (dn_trans _ _ _ Hn4 Hn5)) as Hc6.
  set (c6 := cx_h c3 h5) in *.
  assert (Hk6 : kle (i_h c) (i_h c6)).
  { eapply kle_trans; [exact Hk1|]. eapply kle_trans; [exact Hk2|]. eapply kle_trans; [exact Hk3|].
    eapply kle_trans; [apply kle_same; exact K4|exact Hk5]. }
  assert (Hs6 : i_labels c6 = i_labels c /\ i_bottoms c6 = i_bottoms c).
  { destruct Hs3 as (_ & _ & S3 & S4). subst c6. cbn. split; [exact S3|exact S4]. }
  destruct (dget (i_h c6) op) as [[[[[[[[osg o_open] o_close] o_len'] o_orig] o_ch] o_prev] o_next]| |] eqn:Eg6;
    cbn [bind] in H; try discriminate.
  destruct (remove_between (S (length (i_h c6))) c6 o_next cl) as [c7| |] eqn:Er7; cbn [bind] in H; try discriminate.
  destruct Hc6 as [Hh6 Hd6].
  assert (Ho_next : o_next = nxt_of M (Some cl)).
  { destruct (dget_dlk _ _ _ _ _ _ _ _ _ _ Eg6) as [Hdl6 _].
    pose proof (dl_chain _ _ _ Hd6) as Hs6'. rewrite <- app_assoc in Hs6'. cbn [app] in Hs6'.
    pose proof (dseg_mid _ _ _ _ _ _ Hs6') as Hm6. rewrite Hm6 in Hdl6. inversion Hdl6 as [[Hx0 Hx]].
    destruct M; reflexivity. }
  assert (Hd6' : dl_ok [cl; op] c6 ((A1 ++ [op]) ++ M ++ cl :: B)).
  { rewrite <- app_assoc. cbn [app]. rewrite <- app_assoc in Hd6. exact Hd6. }
  destruct (remove_between_ok src _ _ _ _ _ _ _ _ _ Er7 (conj Hh6 Hd6') Ho_next) as ([Hh7 Hd7] & Hk7 & Fl7 & Fb7).
  destruct (dget (i_h c7) op) as [[[[[[[[osg7 o_open7] o_close7] o_len] o_orig7] o_ch7] o_prev7] o_next7]| |] eqn:Eg7;
    cbn [bind] in H; try discriminate.
  destruct (dget_dlk _ _ _ _ _ _ _ _ _ _ Eg7) as [_ Hol7].
  pose proof (h_kind _ _ Hh7 op _ (dget_view _ _ _ _ _ _ _ _ _ _ Eg7)) as Hko7. cbn in Hko7. destruct Hko7 as (_ & Hol0 & _).
  (* after the opener has been dealt with *)
  assert (H8 : exists c8 A8, (if o_len =? 0 then remove_delimiter c7 op else Ok c7) = Ok c8 /\
            ctx_ok src [cl] c8 (A8 ++ cl :: B) /\ kle (i_h c7) (i_h c8) /\ i_labels c8 = i_labels c7 /\ i_bottoms c8 = i_bottoms c7).
  { destruct (Z.eqb_spec o_len 0) as [Ez|Enz].
    - destruct (remove_delimiter c7 op) as [c8| |] eqn:Er8; cbn [bind] in H; try discriminate.
      destruct (remove_delimiter_ok src [cl; op] c7 A1 op (cl :: B) c8 Er8 Hh7) as (Hh8 & Hk8 & Fl8 & Fb8 & Hd8 & _).
      { rewrite <- app_assoc in Hd7. exact Hd7. }
      exists c8, A1. split; [reflexivity|]. split; [split; [exact Hh8|]|auto].
      apply Hd8. intros x [<-|[<-|[]]]; cbn; auto.
    - exists c7, (A1 ++ [op]). split; [reflexivity|]. split; [|split; [apply kle_refl|auto]].
      split; [exact Hh7|]. apply (dl_shrink _ _ _ op).
      + eapply dl_weaken; [exact Hd7|]. intros x [<-|[<-|[]]]; cbn; auto.
      + intros len Hl. rewrite Hol7 in Hl. inversion Hl; subst. lia. }
  destruct H8 as (c8 & A8 & E8 & [Hh8 Hd8] & Hk8 & Fl8 & Fb8). rewrite E8 in H. cbn [bind] in H.
  destruct (dget (i_h c8) cl) as [[[[[[[[csg8 c_open8] c_close8] cl_len] c_orig8] c_ch8] c_prev8] cl_next]| |] eqn:Eg8;
    cbn [bind] in H; try discriminate.
  destruct (dget_dlk _ _ _ _ _ _ _ _ _ _ Eg8) as [Hdl8 Hln8].
  pose proof (dseg_mid _ _ _ _ _ _ (dl_chain _ _ _ Hd8)) as Hm8. rewrite Hm8 in Hdl8. inversion Hdl8 as [[Hpx8 Hnx8]].
  pose proof (h_kind _ _ Hh8 cl _ (dget_view _ _ _ _ _ _ _ _ _ _ Eg8)) as Hko8. cbn in Hko8. destruct Hko8 as (_ & Hcl0 & _).
  assert (Hk08 : kle (i_h c) (i_h c8)). { eapply kle_trans; [exact Hk6|]. eapply kle_trans; eassumption. }
  destruct Hs6 as [Hs6a Hs6b].
  destruct (Z.eqb_spec cl_len 0) as [Ez|Enz].
  - destruct (remove_delimiter c8 cl) as [c9| |] eqn:Er9; cbn [bind] in H; try discriminate.
    destruct (remove_delimiter_ok src _ c8 A8 cl B c9 Er9 Hh8 Hd8) as (Hh9 & Hk9 & Fl9 & Fb9 & Hd9 & _).
    specialize (Hd9 [] ltac:(intros x [<-|[]]; auto)).
    destruct (IH c9 cl_next b c' (A8 ++ B) H (conj Hh9 Hd9)) as (L' & Hc' & Hk' & Fl' & Fb').
    { intros y Ey. rewrite in_app_iff. right. apply nxt_of_in. congruence. }
    exists L'. split; [exact Hc'|]. split; [eapply kle_trans; [exact Hk08|eapply kle_trans; eassumption]|]. split; congruence.
  - assert (Hd9 : dl_ok [] c8 (A8 ++ cl :: B)).
    { apply (dl_shrink _ _ _ cl); [exact Hd8|]. intros len Hl. rewrite Hln8 in Hl. inversion Hl; subst. lia. }
    destruct (IH c8 (Some cl) b c' (A8 ++ cl :: B) H (conj Hh8 Hd9)) as (L' & Hc' & Hk' & Fl' & Fb').
    { intros y Ey. inversion Ey; subst. rewrite in_app_iff. cbn. auto. }
    exists L'. split; [exact Hc'|]. split; [eapply kle_trans; eassumption|]. split; congruence.
Qed.

Lemma process_delimitersX_ok src fuel c b c' L : process_delimitersX fuel c b = Ok c' -> ctx_ok src [] c L ->
  exists L', ctx_ok src [] c' L' /\ kle (i_h c) (i_h c') /\ i_labels c' = i_labels c /\ i_bottoms c' = i_bottoms c.
Proof.
  unfold process_delimitersX. intros H Hc. destruct (i_dlast c) as [last|] eqn:El.
  2:{ inversion H; subst c'. exists L. split; [exact Hc|]. split; [apply kle_refl|]. auto. }
  set (closer0 := match b with
                  | BNil => Ok (i_dfirst c)
                  | BPtr _ => if is_bottom b last then Ok None
                              else pv <- i_prev (i_h c) last ;; earliest_delim (S (length (i_h c))) (i_h c) pv b None
                  end) in H.
  destruct closer0 as [closer| |] eqn:Ec; cbn [bind] in H; try discriminate.
  assert (Hcl : forall cl, closer = Some cl -> In cl L).
  { destruct Hc as [_ Hd]. subst closer0. destruct b as [|bp].
    - inversion Ec; subst closer. intros cl Ecl. rewrite (dl_first _ _ _ Hd) in Ecl. apply nxt_of_in. exact Ecl.
    - destruct (is_bottom (BPtr bp) last); [inversion Ec; subst; discriminate|].
      destruct (i_prev (i_h c) last) as [pv| |] eqn:Ep; cbn [bind] in Ec; try discriminate.
      eapply (earliest_delim_ok _ _ _ Hd); [exact Ec| |discriminate].
      intros y ->. apply i_prev_in in Ep. destruct Ep as (p & _ & Hin). exists p. exact Hin. }
  assert (Hfin : forall c1 L1, ctx_ok src [] c1 L1 -> kle (i_h c) (i_h c1) -> i_labels c1 = i_labels c -> i_bottoms c1 = i_bottoms c ->
            clear_delimiters c1 b = Ok c' ->
            exists L', ctx_ok src [] c' L' /\ kle (i_h c) (i_h c') /\ i_labels c' = i_labels c /\ i_bottoms c' = i_bottoms c).
  { intros c1 L1 Hc1 Hk1 Fl1 Fb1 Hcd. destruct (clear_delimiters_ok src _ _ _ _ Hcd Hc1) as (L' & Hc' & Hk' & Fl' & Fb' & _).
    exists L'. split; [exact Hc'|]. split; [eapply kle_trans; eassumption|]. split; congruence. }
  destruct closer as [cl|].
  - destruct (closer_loopX fuel c (Some cl) b) as [c1| |] eqn:Ecl; cbn [bind] in H; try discriminate.
    destruct (closer_loopX_ok src _ _ _ _ _ _ Ecl Hc Hcl) as (L1 & Hc1 & Hk1 & Fl1 & Fb1).
    eapply Hfin; eassumption.
  - eapply Hfin; [exact Hc|apply kle_refl|reflexivity|reflexivity|exact H].
Qed.
