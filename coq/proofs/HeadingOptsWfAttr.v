(* ParseAttributes (model/Attr.v) on the plain reader: invariants along successful runs
   (RInv / R2 / RI), the returned attributes are pattr_ok, and totality (AttrTotal: no Panic, no
   OutOfFuel).  The work is done in HeadingOptsWfAttrA.v for a generic reader invariant; here it is
   instantiated three times.  No hypothesis on the tables is needed. *)
Require Import GM.model.Base GM.model.Util GM.model.Reader GM.model.ReaderSpec GM.model.HtmlWriter GM.model.Html GM.model.HtmlSpec
               GM.model.Attr GM.model.HeadingOpts.
Require Import GM.proofs.ReaderProofs GM.proofs.ParseInv GM.proofs.AttrProofs GM.proofs.ParseBlocksRangeA
               GM.proofs.ParseBlocksTotalReader GM.proofs.HeadingOptsWfDefs GM.proofs.HeadingOptsWfAttrA.
From Coq Require Import List ZArith Bool Lia.
Import ListNotations.
Open Scope Z_scope.

(* ---------- the three invariants are kept by Advance, PeekLine and SetPosition to a saved position ---------- *)
Lemma RInv_adv r n r' : RInv r -> 0 <= n -> r_advance r n = Ok r' -> RInv r'.
Proof. intros Hi Hn E. apply (adv_ok r n r' Hi Hn E). Qed.
Lemma RInv_peek r r' l sg : RInv r -> r_peek_line r = Ok (r', l, sg) -> RInv r'.
Proof. intros Hi E. apply (peek_ok r r' l sg Hi E). Qed.
Lemma setpos_saved r0 r r' : RInv r0 -> RInv r -> r_src r = r_src r0 ->
  r_set_position r (r_line r0) (r_pos r0) = Ok r' -> RInv r' /\ r_src r' = r_src r /\ r_pos r' = r_pos r0.
Proof.
  intros Hi0 Hi Hs E.
  destruct (set_position_restores r (r_line r0) (r_pos r0) Hi) as [r'' (E' & Hi' & Hs' & Hp')].
  { exists r0. csplit; [exact Hi0|congruence|reflexivity]. }
  rewrite E in E'. injection E' as <-. unfold r_position in Hp'. injection Hp' as _ Hp. auto.
Qed.
Lemma RInv_setpos r0 r r' : RInv r0 -> RInv r -> r_src r = r_src r0 ->
  s_start (r_pos r0) <= s_start (r_pos r) -> r_set_position r (r_line r0) (r_pos r0) = Ok r' -> RInv r'.
Proof. intros Hi0 Hi Hs _ E. apply (setpos_saved r0 r r' Hi0 Hi Hs E). Qed.

Lemma R2_RInv src r : R2 src r -> RInv r.
Proof. intros H. apply H. Qed.
Lemma R2_adv src r n r' : R2 src r -> 0 <= n -> r_advance r n = Ok r' -> R2 src r'.
Proof. intros HR Hn E. apply (adv_R2 src r n r' HR Hn E). Qed.
Lemma R2_peek src r r' l sg : R2 src r -> r_peek_line r = Ok (r', l, sg) -> R2 src r'.
Proof. intros HR E. apply (peek_R2 src r r' l sg HR E). Qed.
Lemma R2_setpos src r0 r r' : R2 src r0 -> R2 src r -> r_src r = r_src r0 ->
  s_start (r_pos r0) <= s_start (r_pos r) -> r_set_position r (r_line r0) (r_pos r0) = Ok r' -> R2 src r'.
Proof.
  intros (Hi0 & Hs0 & Hp0) (Hi & Hs & _) Hss _ E.
  destruct (setpos_saved r0 r r' Hi0 Hi Hss E) as (Hi' & Hs' & Hp').
  split; [exact Hi'|]. split; [congruence|]. unfold PadInv. rewrite Hp'. exact Hp0.
Qed.

Lemma RI_RInv r : RI r -> RInv r.
Proof. intros H. apply H. Qed.
Lemma RI_adv r n r' : RI r -> 0 <= n -> r_advance r n = Ok r' -> RI r'.
Proof. intros HI Hn E. destruct (ri_advance r n HI Hn) as [r'' (E' & HI' & _)]. congruence. Qed.
Lemma RI_peek r r' l sg : RI r -> r_peek_line r = Ok (r', l, sg) -> RI r'.
Proof. intros HI E. destruct (ri_peek r HI) as [r'' (E' & HI' & _)]. rewrite E in E'. injection E' as <- _ _. exact HI'. Qed.
Lemma RI_setpos r0 r r' : RI r0 -> RI r -> r_src r = r_src r0 ->
  s_start (r_pos r0) <= s_start (r_pos r) -> r_set_position r (r_line r0) (r_pos r0) = Ok r' -> RI r'.
Proof.
  intros [Hi0 Hh0] [Hi Hh] Hs Hle E.
  destruct (setpos_saved r0 r r' Hi0 Hi Hs E) as (Hi' & Hs' & Hp'). split; [exact Hi'|]. rewrite Hp'.
  pose proof (ri_range r0 Hi0) as Hr0. pose proof (ri_range r Hi) as Hr. rewrite Hs in Hr.
  unfold r_set_position, r_len in E. rsimpl.
  destruct (Z.eqb_spec (r_line r0) (r_line r)) as [El|El]; cbn [negb bind] in E.
  - injection E as <-. rsimpl.
    destruct (Z.eq_dec (s_start (r_pos r0)) (zlen (r_src r0))) as [Heof|Hin]; [lia|].
    destruct (line_head_exists (r_src r0) (s_start (r_pos r0)) Hr0) as [h [Hlh _]].
    unfold line_head in Hlh. rewrite <- (ri_line_in r0 Hi0) in Hlh by lia.
    pose proof (ri_head r0 Hi0 h Hlh) as E0. rewrite El, <- Hs in Hlh. pose proof (ri_head r Hi h Hlh) as E1. lia.
  - destruct (Z.ltb_spec (zlen (r_src r)) (s_start (r_pos r0))) as [Hbad|_]; [rewrite Hs in Hbad; lia|].
    destruct (back_ok (Z.to_nat (s_start (r_pos r0)) + 1) (r_src r) (s_start (r_pos r0)))
      as [h [H1 [H2 _]]]; [rewrite Hs; lia|lia|].
    rewrite H1 in E. cbn [bind] in E. destruct (Z.leb_spec 0 h) as [_|Hneg]; [|lia].
    injection E as <-. rsimpl. lia.
Qed.

Section S.
Variable space_table punct_table : list N.
Notation parse_attrs := (ParseAttributesModel space_table punct_table).
Notation st := space_table.
Notation pt := punct_table.

(* ---------- the generic statement at the top level ---------- *)
Section Top.
Variable Inv : reader -> Prop.
Hypothesis Inv_RInv : forall r, Inv r -> RInv r.
Hypothesis Inv_adv : forall r n r', Inv r -> 0 <= n -> r_advance r n = Ok r' -> Inv r'.
Hypothesis Inv_peek : forall r r' l sg, Inv r -> r_peek_line r = Ok (r', l, sg) -> Inv r'.
Hypothesis Inv_setpos : forall r0 r r', Inv r0 -> Inv r -> r_src r = r_src r0 ->
  s_start (r_pos r0) <= s_start (r_pos r) -> r_set_position r (r_line r0) (r_pos r0) = Ok r' -> Inv r'.

Lemma attributes_fuel_gen fuel r : Inv r -> (2 * length (r_src r) + 1 <= fuel)%nat ->
  exists r' res, parse_attributes st pt fuel r = Ok (r', res) /\ PT Inv r (r', res).
Proof.
  intros HI Hf.
  pose proof (proj2 (proj2 (parse_mutual_spec st pt Inv Inv_RInv Inv_adv Inv_peek Inv_setpos fuel)) r HI) as H.
  pose proof (rem_le_len r (Inv_RInv r HI)) as Hrem.
  destruct (parse_attributes st pt fuel r) as [[r' res]| |]; cbn [spec] in H; [|contradiction|lia].
  exists r', res. auto.
Qed.

Lemma parse_attrs_gen r r' res : Inv r -> parse_attrs r = Ok (r', res) ->
  Inv r' /\ r_src r' = r_src r /\ s_start (r_pos r) <= s_start (r_pos r') /\
  (bytes_ok (r_src r) -> forall l, res = Some l -> Forall aval_ok l) /\
  (res = None -> r_pos r' = r_pos r) /\ (res <> None -> s_start (r_pos r) < s_start (r_pos r')).
Proof.
  intros HI E. unfold ParseAttributesModel in E.
  destruct (attributes_fuel_gen (2 * rfuel r) r HI ltac:(unfold rfuel; lia)) as [r'' [res' [E' HT]]].
  rewrite E in E'. injection E' as <- <-.
  pose proof (PT_St Inv Inv_RInv Inv_adv Inv_peek Inv_setpos r (r', res) HI HT) as (H1 & H2 & H3).
  destruct HT as (_ & _ & H6 & H7 & H5).
  cbn [fst snd] in *. csplit; auto.
Qed.
End Top.

(* ---------- 1. RInv ---------- *)
Lemma parse_attrs_RInv r r' res : RInv r -> parse_attrs r = Ok (r', res) ->
  RInv r' /\ r_src r' = r_src r /\ s_start (r_pos r) <= s_start (r_pos r').
Proof.
  intros Hi E.
  destruct (parse_attrs_gen RInv (fun r H => H) RInv_adv RInv_peek RInv_setpos r r' res Hi E) as (H1 & H2 & H3 & _).
  auto.
Qed.

(* in addition: a failed parse restores the entry position, a successful one consumes at least "{}" *)
Lemma parse_attrs_pos r r' res : RInv r -> parse_attrs r = Ok (r', res) ->
  (res = None -> r_pos r' = r_pos r) /\ (res <> None -> s_start (r_pos r) < s_start (r_pos r')).
Proof.
  intros Hi E.
  destruct (parse_attrs_gen RInv (fun r H => H) RInv_adv RInv_peek RInv_setpos r r' res Hi E) as (_ & _ & _ & _ & H5 & H6).
  auto.
Qed.

(* ---------- 2. R2 ---------- *)
Lemma parse_attrs_R2 src r r' res : R2 src r -> parse_attrs r = Ok (r', res) -> R2 src r' /\ Rle r r'.
Proof.
  intros HR E.
  destruct (parse_attrs_gen (R2 src) (R2_RInv src) (R2_adv src) (R2_peek src) (R2_setpos src) r r' res HR E) as (H1 & H2 & H3 & _).
  split; [exact H1|]. split; assumption.
Qed.

(* ---------- 3. RI ---------- *)
Lemma parse_attrs_RI r r' res : RI r -> parse_attrs r = Ok (r', res) -> RI r' /\ r_le r r'.
Proof.
  intros HI E.
  destruct (parse_attrs_gen RI RI_RInv RI_adv RI_peek RI_setpos r r' res HI E) as (H1 & H2 & H3 & _).
  split; [exact H1|]. unfold r_le. csplit; [exact H2|exact H3|].
  apply Rle_stop; [apply HI|apply H1|]. split; assumption.
Qed.

(* ---------- 4. the attributes returned are safe ---------- *)
Lemma parse_attrs_pattr_ok r r' l : RInv r -> bytes_ok (r_src r) -> parse_attrs r = Ok (r', Some l) -> Forall pattr_ok l.
Proof.
  intros Hi Hsrc E.
  destruct (parse_attrs_gen RInv (fun r H => H) RInv_adv RInv_peek RInv_setpos r r' (Some l) Hi E) as (_ & _ & _ & H4 & _).
  specialize (H4 Hsrc l eq_refl).
  pose proof (parse_attributes_names_ok st pt _ r r' l E) as Hn.
  rewrite Forall_forall in *. intros a Ha. split; [apply (Hn a Ha)|].
  specialize (H4 a Ha). unfold aval_ok, val_ok in H4. unfold aval_of. destruct (snd a); try reflexivity. exact H4.
Qed.

(* ---------- 5. totality ---------- *)
Definition AttrTotal : Prop := forall r, RInv r -> exists r' res, parse_attrs r = Ok (r', res).

Lemma parse_attributes_total_fuel fuel r : RInv r -> (2 * length (r_src r) + 8 <= fuel)%nat ->
  exists r' res, parse_attributes space_table punct_table fuel r = Ok (r', res).
Proof.
  intros Hi Hf.
  destruct (attributes_fuel_gen RInv (fun r H => H) RInv_adv RInv_peek RInv_setpos fuel r Hi ltac:(lia)) as [r' [res [E _]]].
  exists r', res. exact E.
Qed.

Theorem parse_attrs_total : AttrTotal.
Proof.
  intros r Hi. unfold ParseAttributesModel. apply parse_attributes_total_fuel; [exact Hi|]. unfold rfuel. lia.
Qed.

End S.
