(* Composition of the block-phase and inline-phase theorems into statements about ParseTree and
   ConvertModel (model/ParseI.v). *)
Require Import GM.model.Base GM.model.Util GM.model.UtilI GM.model.Reader GM.model.Regex GM.model.HtmlWriter GM.model.Html GM.model.HtmlI GM.model.HtmlSpec
               GM.model.BlockParse GM.model.InlineParse GM.model.ParseI.
Require Import GM.proofs.ParseInv.
Require Import GM.gen.Tables GM.gen.Entities GM.gen.Filters GM.proofs.HtmlConcrete GM.proofs.HtmlRelProofs.
From Coq Require Import ZArith Lia Bool.
Open Scope Z_scope.

(* the kinds the block phase produces *)
Definition block_kind (k : kind) : bool :=
  match k with
  | KDocument | KBlockquote | KList _ _ | KListItem | KParagraph | KTextBlock | KHeading _
  | KThematicBreak | KCodeBlock | KFencedCodeBlock _ | KHTMLBlock _ => true
  | _ => false
  end.

(* ---------- auxiliary: bind inversion, unfoldings of the nested fixpoints, tree induction ---------- *)
Lemma pc_bind_ok {A B} (r : result A) (k : A -> result B) o :
  (x <- r ;; k x) = Ok o -> exists a, r = Ok a /\ k a = Ok o.
Proof. destruct r as [a| |]; cbn; intros H; try discriminate. exists a. split; [reflexivity|exact H]. Qed.

Lemma pc_Ok_inj {A} (a b : A) : Ok a = Ok b -> a = b.
Proof. intros H. injection H as H. exact H. Qed.

(* all_kinds over a node is the predicate on the kind and forallb over the children *)
Lemma all_kinds_unfold p k l a kids :
  all_kinds p (Node k l a kids) = p k && forallb (all_kinds p) kids.
Proof.
  cbn [all_kinds]. f_equal; try reflexivity;
  (induction kids as [|x r IH]; [reflexivity|cbn [forallb]; rewrite IH; reflexivity]).
Qed.

(* wf_node over a node: the local conditions and forallb over the children *)
Lemma wf_node_unfold src it ir k l a kids :
  wf_node src it ir (Node k l a kids) =
  node_ok src it (Node k l a kids) && (match k with KTableCell _ => ir | _ => true end) &&
  forallb (wf_node src (match k with KTable => true | _ => false end)
                       (match k with KTableHeader | KTableRow => true | _ => false end)) kids.
Proof.
  cbn [wf_node t_kind t_children]. f_equal; try reflexivity;
  (induction kids as [|x r IH]; [reflexivity|cbn [forallb]; rewrite IH; reflexivity]).
Qed.

(* tree_lines_ok over a node *)
Lemma tree_lines_ok_unfold src k l a kids :
  tree_lines_ok src (Node k l a kids) =
  (if has_inlines k then forallb (seg_ok_b src) l && segs_sorted_b l else true) &&
  forallb (tree_lines_ok src) kids.
Proof.
  cbn [tree_lines_ok]. f_equal; try reflexivity;
  (induction kids as [|x r IH]; [reflexivity|cbn [forallb]; rewrite IH; reflexivity]).
Qed.

(* attach_inlines over a node: map_res over the children *)
Lemma attach_inlines_unfold inl k l a kids :
  attach_inlines inl (Node k l a kids) =
  if has_inlines k then (ch <- inl l ;; Ok (Node k l a ch))
  else (kids' <- map_res (attach_inlines inl) kids ;; Ok (Node k l a kids')).
Proof.
  cbn [attach_inlines]. destruct (has_inlines k); [reflexivity|]. f_equal; try reflexivity;
  (induction kids as [|x r IH]; [reflexivity|cbn [map_res]; rewrite IH; reflexivity]).
Qed.

(* induction over trees with the hypothesis for all children *)
Lemma tree_ind_forall (P : tree -> Prop) :
  (forall k l a kids, Forall P kids -> P (Node k l a kids)) -> forall t, P t.
Proof.
  intros H. fix IH 1. intros [k l a kids]. apply H.
  revert kids. fix IHk 1. intros [|x r]; constructor; [apply IH | apply IHk].
Qed.

(* map_res yields pointwise results *)
Lemma map_res_forall2 {A B} (f : A -> result B) l ys :
  map_res f l = Ok ys -> Forall2 (fun x y => f x = Ok y) l ys.
Proof.
  revert ys. induction l as [|x r IH]; intros ys H; cbn [map_res] in H.
  - apply pc_Ok_inj in H as <-. constructor.
  - apply pc_bind_ok in H as (y & Hy & H). apply pc_bind_ok in H as (z & Hz & H).
    apply pc_Ok_inj in H as <-. constructor; [exact Hy | apply IH; exact Hz].
Qed.

(* kind_of yields block kinds only *)
Lemma kind_of_block_kind src n k : kind_of src n = Ok k -> block_kind k = true.
Proof.
  unfold kind_of. intros H.
  destruct (bk n); try (apply pc_Ok_inj in H as <-; reflexivity).
  destruct (b_seg n) as [sg|].
  - apply pc_bind_ok in H as (v & _ & H). apply pc_Ok_inj in H as <-. reflexivity.
  - apply pc_Ok_inj in H as <-. reflexivity.
Qed.

Theorem to_tree_block_kinds : forall fuel src h i t, to_tree fuel src h i = Ok t -> all_kinds block_kind t = true.
Proof.
  induction fuel as [|f IH]; intros src h i t H; cbn [to_tree] in H; [discriminate|].
  apply pc_bind_ok in H as (n & _ & H). apply pc_bind_ok in H as (k & Hk & H).
  apply pc_bind_ok in H as (kids & Hkids & H). apply pc_Ok_inj in H as <-.
  rewrite all_kinds_unfold. rewrite (kind_of_block_kind _ _ _ Hk). cbn [andb].
  apply map_res_forall2 in Hkids. apply forallb_forall. intros y Hy.
  induction Hkids as [|x y' xs ys Hxy Hrest IHrest]; [destruct Hy|].
  destruct Hy as [<- | Hy]; [exact (IH _ _ _ _ Hxy) | exact (IHrest Hy)].
Qed.

(* for a block kind, the local conditions do not look at the children *)
Lemma node_ok_block_children src it k l a kids kids' :
  block_kind k = true -> node_ok src it (Node k l a kids) = node_ok src it (Node k l a kids').
Proof. intros Hk. destruct k; try discriminate Hk; reflexivity. Qed.

Lemma block_kind_flags k : block_kind k = true ->
  (match k with KTableCell _ => false | _ => true end) = true /\
  (match k with KTable => true | _ => false end) = false /\
  (match k with KTableHeader | KTableRow => true | _ => false end) = false.
Proof. intros Hk. destruct k; try discriminate Hk; repeat split. Qed.

Section Attach.
Variable src : bytes.
Variable inl : list seg -> result (list tree).
Hypothesis inl_ok : forall lines ts, lines_ok src lines -> inl lines = Ok ts ->
  Forall (fun t => wf_node src false false t = true) ts.

Theorem attach_wf : forall t t',
  all_kinds block_kind t = true ->
  wf_node src false false t = true -> tree_lines_ok src t = true ->
  attach_inlines inl t = Ok t' -> wf_node src false false t' = true.
Proof.
  intros t. induction t as [k l a kids IH] using tree_ind_forall.
  intros t' Hkinds Hwf Hlines Hatt.
  rewrite all_kinds_unfold in Hkinds. apply andb_true_iff in Hkinds as [Hk Hkinds].
  rewrite wf_node_unfold in Hwf. apply andb_true_iff in Hwf as [Hwf Hwfk].
  apply andb_true_iff in Hwf as [Hnode Hcell].
  rewrite tree_lines_ok_unfold in Hlines. apply andb_true_iff in Hlines as [Hl Hlk].
  rewrite attach_inlines_unfold in Hatt.
  destruct (block_kind_flags k Hk) as (Hf1 & Hf2 & Hf3).
  rewrite Hf2, Hf3 in Hwfk.
  destruct (has_inlines k) eqn:Hhas.
  - apply pc_bind_ok in Hatt as (ch & Hch & Hatt). apply pc_Ok_inj in Hatt as <-.
    rewrite wf_node_unfold. rewrite (node_ok_block_children src false k l a ch kids Hk), Hnode, Hcell.
    rewrite Hf2, Hf3. cbn [andb].
    apply andb_true_iff in Hl as [Hl1 Hl2].
    assert (Hlo : lines_ok src l) by (split; assumption).
    apply forallb_forall. apply Forall_forall. exact (inl_ok l ch Hlo Hch).
  - apply pc_bind_ok in Hatt as (kids' & Hk' & Hatt). apply pc_Ok_inj in Hatt as <-.
    rewrite wf_node_unfold. rewrite (node_ok_block_children src false k l a kids' kids Hk), Hnode, Hcell.
    rewrite Hf2, Hf3. cbn [andb].
    apply map_res_forall2 in Hk'.
    clear Hnode Hcell Hl Hhas.
    induction Hk' as [|x y xs ys Hxy Hrest IHrest]; [reflexivity|].
    cbn [forallb] in *.
    apply andb_true_iff in Hkinds as [Hkx Hkr]. apply andb_true_iff in Hwfk as [Hwx Hwr].
    apply andb_true_iff in Hlk as [Hlx Hlr].
    inversion IH as [|? ? IHx IHr]; subst.
    rewrite (IHx y Hkx Hwx Hlx Hxy). cbn [andb]. exact (IHrest IHr Hkr Hwr Hlr).
Qed.
End Attach.

(* the two phase theorems, as they are stated in ParseBlocksRange.v and ParseInlineRange.v, taken as
   hypotheses here so that this file does not depend on them; instantiate at the end *)
Section Compose.
Hypothesis blocks_ok : forall src s t,
  bytes_ok src -> ParseBlocks src = Ok s ->
  to_tree (S (length (s_h s))) src (s_h s) 0%nat = Ok t ->
  wf_node src false false t = true /\ tree_lines_ok src t = true /\ refs_ok (c_refs (s_c s)).
Hypothesis inlines_ok : forall refs src lines ts,
  bytes_ok src -> refs_ok refs -> lines_ok src lines ->
  InlineChildren refs src lines = Ok ts ->
  Forall (fun t => wf_node src false false t = true) ts.

(* C05 for the parser model: every tree it yields is well formed *)
Theorem ParseTree_wf : forall src t, bytes_ok src -> ParseTree src = Ok t -> wf_tree src t = true.
Proof.
  intros src t Hsrc H. unfold ParseTree in H.
  apply pc_bind_ok in H as ([bt refs] & Hb & H).
  unfold ParseBlocksTree in Hb.
  apply pc_bind_ok in Hb as (s & Hs & Hb). apply pc_bind_ok in Hb as (bt' & Hbt & Hb).
  apply pc_Ok_inj in Hb. injection Hb as -> <-.
  destruct (blocks_ok src s bt Hsrc Hs Hbt) as (Hwf & Hlines & Hrefs).
  unfold wf_tree. rewrite Hsrc. cbn [andb].
  apply (attach_wf src (InlineChildren (c_refs (s_c s)) src)) with (t := bt).
  - intros lines ts Hl Hi. exact (inlines_ok _ src lines ts Hsrc Hrefs Hl Hi).
  - exact (to_tree_block_kinds _ _ _ _ _ Hbt).
  - exact Hwf.
  - exact Hlines.
  - exact H.
Qed.

(* ---------- corollaries for ConvertModel = ParseTree then RenderHTML ---------- *)
Lemma ConvertModel_ok c src o : ConvertModel c src = Ok o ->
  exists t, ParseTree src = Ok t /\ RenderHTML c src t = Ok o.
Proof. unfold ConvertModel. intros H. exact (pc_bind_ok _ _ _ H). Qed.

Lemma ConvertModel_of_tree c src t : ParseTree src = Ok t -> ConvertModel c src = RenderHTML c src t.
Proof. unfold ConvertModel. intros ->. reflexivity. Qed.

(* C03 / C04 end to end: safe-mode conversion of any byte string is inert markup (the URL clause
   of C04 is the side condition of AttrOut in Inert) *)
Theorem ConvertModel_safe_inert : forall c src o, unsafe c = false -> bytes_ok src ->
  ConvertModel c src = Ok o -> Inert o.
Proof.
  intros c src o Hu Hsrc H. apply ConvertModel_ok in H as (t & Ht & Hr).
  exact (RenderHTML_safe_inert c src t o Hu (ParseTree_wf src t Hsrc Ht) Hr).
Qed.

Theorem ConvertModel_safe_inert_xhtml : forall c src o, unsafe c = false -> xhtml c = true -> bytes_ok src ->
  ConvertModel c src = Ok o -> InertX o.
Proof.
  intros c src o Hu Hx Hsrc H. apply ConvertModel_ok in H as (t & Ht & Hr).
  exact (RenderHTML_safe_inert_xhtml c src t o Hu Hx (ParseTree_wf src t Hsrc Ht) Hr).
Qed.

(* C04 end to end (the statement of C04_safe_render_urls for ConvertModel) *)
Theorem ConvertModel_safe_render_urls : forall c src o, unsafe c = false -> bytes_ok src ->
  ConvertModel c src = Ok o -> Inert o.
Proof. exact ConvertModel_safe_inert. Qed.

(* C01: when the parser model yields a tree, rendering it does not panic, under every option combination *)
Theorem ConvertModel_render_total : forall c src t, bytes_ok src -> ParseTree src = Ok t ->
  exists o, ConvertModel c src = Ok o.
Proof.
  intros c src t Hsrc Ht. rewrite (ConvertModel_of_tree c src t Ht).
  exact (RenderHTML_total c src t (ParseTree_wf src t Hsrc Ht)).
Qed.
End Compose.

(* ---------- C10 for ConvertModel: the option relations (no hypothesis on the parser needed:
   both sides parse to the same tree) ---------- *)
Theorem ConvertModel_xhtml_rel : forall c src o, pinned c -> ConvertModel (with_xhtml c false) src = Ok o ->
  exists o', ConvertModel (with_xhtml c true) src = Ok o' /\ XhtmlRel o o'.
Proof.
  intros c src o Hp H. apply ConvertModel_ok in H as (t & Ht & Hr).
  rewrite (ConvertModel_of_tree _ src t Ht).
  exact (xhtml_rel html_escape_table punct_table entities url_escape_table utf8len_table
    f_global f_blockquote f_list f_listitem f_thematic f_link f_image f_table f_thead f_tr f_th f_td c src t o Hp Hr).
Qed.

Theorem ConvertModel_hardwraps_rel : forall c src o, ConvertModel (with_hardwraps c false) src = Ok o ->
  exists o', ConvertModel (with_hardwraps c true) src = Ok o' /\ HardWrapRel (xhtml c) o o'.
Proof.
  intros c src o H. apply ConvertModel_ok in H as (t & Ht & Hr).
  rewrite (ConvertModel_of_tree _ src t Ht).
  exact (hardwraps_rel html_escape_table punct_table entities url_escape_table utf8len_table
    f_global f_blockquote f_list f_listitem f_thematic f_link f_image f_table f_thead f_tr f_th f_td c src t o Hr).
Qed.

Theorem ConvertModel_unsafe_rel : forall c src o', ConvertModel (with_unsafe c true) src = Ok o' ->
  exists o, ConvertModel (with_unsafe c false) src = Ok o /\ UnsafeRel o o'.
Proof.
  intros c src o' H. apply ConvertModel_ok in H as (t & Ht & Hr).
  rewrite (ConvertModel_of_tree _ src t Ht).
  exact (unsafe_rel html_escape_table punct_table entities url_escape_table utf8len_table
    f_global f_blockquote f_list f_listitem f_thematic f_link f_image f_table f_thead f_tr f_th f_td c src t o' Hr).
Qed.

Theorem ConvertModel_unsafe_same : forall c src t, ParseTree src = Ok t ->
  no_raw_no_danger punct_table entities url_escape_table utf8len_table t = true ->
  ConvertModel (with_unsafe c true) src = ConvertModel (with_unsafe c false) src.
Proof.
  intros c src t Ht Hn. rewrite !(ConvertModel_of_tree _ src t Ht).
  exact (unsafe_same html_escape_table punct_table entities url_escape_table utf8len_table
    f_global f_blockquote f_list f_listitem f_thematic f_link f_image f_table f_thead f_tr f_th f_td c src t Hn).
Qed.
