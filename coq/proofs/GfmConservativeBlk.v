(* C11 for the GFM parser model, block phase: with the Table extension off the generalised copy of
   the block driver (model/BlockParseX.v) is the driver of the default parser (model/BlockParse.v),
   lifted through the state with the (empty) list of tables. *)
Require Import GM.model.Base GM.model.Util GM.model.Reader GM.model.Blocks GM.model.ListItem
               GM.model.LeafBlocks GM.model.CodeBlock GM.model.LinkDest GM.model.Regex
               GM.model.Html GM.model.TableX GM.model.BlockParse GM.model.BlockParseX.
Require Import GM.proofs.GfmConservativeDefs.
From Coq Require Import List ZArith NArith Bool Lia.
Import ListNotations.
Open Scope Z_scope.

Section Blk.
Variable space_table punct_table : list N.
Variable norm : bytes -> bytes.
Variable re_t1o re_t1c re_t2 re_t3 re_t4 re_t5 re_t6 re_t7 : re.
Variable allowed_tags : list bytes.
Notation p_open := (p_open space_table re_t1o re_t2 re_t3 re_t4 re_t5 re_t6 re_t7 allowed_tags).
Notation p_continue := (p_continue space_table re_t1c).
Notation p_close := (p_close space_table).
Notation TP := (transform_paragraph space_table punct_table norm).
Notation TPX := (transform_paragraphX false space_table punct_table norm).
Notation CR := (close_range space_table punct_table norm).
Notation CRX := (close_rangeX false space_table punct_table norm).
Notation CB := (close_blocks space_table punct_table norm).
Notation CBX := (close_blocksX false space_table punct_table norm).
Notation TRY := (try_parsers space_table punct_table norm re_t1o re_t2 re_t3 re_t4 re_t5 re_t6 re_t7 allowed_tags).
Notation TRYX := (try_parsersX false space_table punct_table norm re_t1o re_t2 re_t3 re_t4 re_t5 re_t6 re_t7 allowed_tags).
Notation OBL := (open_blocks_loop space_table punct_table norm re_t1o re_t2 re_t3 re_t4 re_t5 re_t6 re_t7 allowed_tags).
Notation OBLX := (open_blocks_loopX false space_table punct_table norm re_t1o re_t2 re_t3 re_t4 re_t5 re_t6 re_t7 allowed_tags).
Notation OB := (open_blocks space_table punct_table norm re_t1o re_t1c re_t2 re_t3 re_t4 re_t5 re_t6 re_t7 allowed_tags).
Notation OBX := (open_blocksX false space_table punct_table norm re_t1o re_t1c re_t2 re_t3 re_t4 re_t5 re_t6 re_t7 allowed_tags).
Notation EO := (each_opened space_table punct_table norm re_t1o re_t1c re_t2 re_t3 re_t4 re_t5 re_t6 re_t7 allowed_tags).
Notation EOX := (each_openedX false space_table punct_table norm re_t1o re_t1c re_t2 re_t3 re_t4 re_t5 re_t6 re_t7 allowed_tags).
Notation LL := (lines_loop space_table punct_table norm re_t1o re_t1c re_t2 re_t3 re_t4 re_t5 re_t6 re_t7 allowed_tags).
Notation LLX := (lines_loopX false space_table punct_table norm re_t1o re_t1c re_t2 re_t3 re_t4 re_t5 re_t6 re_t7 allowed_tags).
Notation PBL := (parse_blocks_loop space_table punct_table norm re_t1o re_t1c re_t2 re_t3 re_t4 re_t5 re_t6 re_t7 allowed_tags).
Notation PBLX := (parse_blocks_loopX false space_table punct_table norm re_t1o re_t1c re_t2 re_t3 re_t4 re_t5 re_t6 re_t7 allowed_tags).

(* the state of the X driver with the block state replaced *)
Lemma stx_s_s x a b : stx_s (stx_s x a) b = stx_s x b.
Proof. reflexivity. Qed.
Lemma stx_s_id x : stx_s x (bx_s x) = x.
Proof. destruct x; reflexivity. Qed.

Lemma transform_paragraphX_off x node :
  TPX x node = (y <- TP (bx_s x) node ;; Ok (stx_s x (fst y), snd y)).
Proof.
  unfold transform_paragraphX, transform_paragraph.
  destruct (lrd_transform space_table punct_table norm (bx_s x) node) as [s| |]; cbn [bind]; try reflexivity.
  cbn [bx_s stx_s]. destruct (hget (s_h s) node) as [n| |]; cbn [bind]; try reflexivity.
  destruct (bpar n); reflexivity.
Qed.

Lemma close_rangeX_off : forall cnt x blocks i,
  CRX x blocks cnt i = lift0 x (CR (bx_s x) blocks cnt i).
Proof.
  induction cnt as [|k IH]; intros x blocks i; cbn [close_rangeX close_range].
  - unfold lift0. cbn [bind]. rewrite stx_s_id. reflexivity.
  - destruct ((i <? 0) || (zlen blocks <=? i)); [reflexivity|].
    destruct (nth_error blocks (Z.to_nat i)) as [[node p]|]; [|reflexivity].
    destruct (is_paragraph (s_h (bx_s x)) node) as [isp| |]; cbn [bind]; try reflexivity.
    destruct (attached (s_h (bx_s x)) node) as [att| |]; cbn [bind]; try reflexivity.
    destruct (isp && att).
    + rewrite transform_paragraphX_off.
      destruct (TP (bx_s x) node) as [[s1 g]| |]; cbn [bind fst snd]; try reflexivity.
      cbn [bx_s stx_s].
      destruct (attached (s_h s1) node) as [att2| |]; cbn [bind]; try reflexivity.
      destruct att2.
      * unfold lift0 at 1. cbn [bx_s]. destruct (p_close p s1 node) as [s2| |]; cbn [bind]; try reflexivity.
        rewrite IH. reflexivity.
      * cbn [bind]. rewrite IH. reflexivity.
    + cbn [bind].
      destruct (attached (s_h (bx_s x)) node) as [att2| |]; cbn [bind]; try reflexivity.
      destruct att2.
      * unfold lift0 at 1. destruct (p_close p (bx_s x) node) as [s2| |]; cbn [bind]; try reflexivity.
        rewrite IH. reflexivity.
      * cbn [bind]. rewrite IH. reflexivity.
Qed.

Lemma close_blocksX_off x from to : CBX x from to = lift0 x (CB (bx_s x) from to).
Proof.
  unfold close_blocksX, close_blocks. rewrite close_rangeX_off. unfold lift0.
  destruct (CR (bx_s x) (opened (s_c (bx_s x))) (Z.to_nat (from - to + 1)) from) as [s| |]; cbn [bind]; try reflexivity.
  cbn [bx_s stx_s].
  destruct (from =? Z.of_nat (c_len (s_c s)) - 1).
  - destruct ((to <? 0) || (Z.of_nat (c_len (s_c s)) <? to)); reflexivity.
  - destruct ((to <? 0) || (from + 1 <? to) || (Z.of_nat (c_len (s_c s)) <? from + 1)); reflexivity.
Qed.

(* the result of the parser table: the core result lifted *)
Definition lift_try (x : stx) (t : try_res) : try_resX :=
  match t with
  | TRetry parent cont res s => TRetryX parent cont res (stx_s x s)
  | TDone res s => TDoneX res (stx_s x s)
  end.

Lemma try_parsersX_off : forall bps parent blank cont res w x,
  TRYX bps parent blank cont res w x = (t <- TRY bps parent blank cont res w (bx_s x) ;; Ok (lift_try x t)).
Proof.
  induction bps as [|bp rest IH]; intros parent blank cont res w x; cbn [try_parsersX try_parsers].
  - cbn [bind lift_try]. rewrite stx_s_id. reflexivity.
  - destruct (cont && (res =? noBlocksOpened) && negb (can_interrupt_paragraph bp)); [apply IH|].
    destruct ((3 <? w) && negb (can_accept_indented bp)); [apply IH|].
    destruct (p_open bp (bx_s x) parent) as [[s o]| |]; cbn [bind]; try reflexivity.
    destruct o as [[[node hc] rp]|].
    2:{ rewrite IH. reflexivity. }
    cbn [bx_s stx_s].
    (* the RequireParagraph part *)
    set (RX := (if rp then _ else _) : result (stx + stx)).
    set (R := (if rp then _ else _) : result (st + st)).
    assert (HR : RX = (r <- R ;; Ok (match r with inl s => inl (stx_s x s) | inr s => inr (stx_s x s) end))).
    { subst RX R. destruct rp; [|reflexivity].
      destruct (last_opened (s_c (bx_s x))) as [[last lp]|]; [|reflexivity].
      destruct (hget (s_h s) parent) as [pn| |]; cbn [bind]; try reflexivity.
      destruct (opt_nat_eqb (Some last) (last_id (bch pn))); [|reflexivity].
      destruct (p_close lp s last) as [s1| |]; cbn [bind]; try reflexivity.
      destruct (Nat.eqb (c_len (s_c s1)) 0); [reflexivity|].
      rewrite transform_paragraphX_off. cbn [bx_s stx_s].
      destruct (TP _ last) as [[s2 gone]| |]; cbn [bind fst snd]; try reflexivity.
      destruct gone; reflexivity. }
    rewrite HR. clear HR RX. destruct R as [[s1|s1]| |]; cbn [bind]; try reflexivity.
    cbn [bx_s stx_s lift_try].
    destruct (hupd (s_h s1) node (fun n => set_blank n blank)) as [h| |]; cbn [bind]; try reflexivity.
    destruct (last_opened (s_c (bx_s x))) as [[last lp]|].
    + cbn [st_h s_h]. destruct (attached h last) as [att| |]; cbn [bind]; try reflexivity.
      destruct (negb att).
      * rewrite close_blocksX_off. unfold lift0. cbn [bx_s stx_s st_h s_c].
        destruct (CB _ _ _) as [s2| |]; cbn [bind]; try reflexivity.
        cbn [bx_s stx_s]. destruct (append_child (s_h s2) parent node) as [h2| |]; cbn [bind]; try reflexivity.
        destruct hc; reflexivity.
      * cbn [bind bx_s stx_s st_h s_h]. destruct (append_child h parent node) as [h2| |]; cbn [bind]; try reflexivity.
        destruct hc; reflexivity.
    + cbn [bind bx_s stx_s st_h s_h]. destruct (append_child h parent node) as [h2| |]; cbn [bind]; try reflexivity.
      destruct hc; reflexivity.
Qed.

Lemma open_blocks_loopX_off : forall fuel parent blank cont res x,
  OBLX fuel parent blank cont res x =
  (y <- OBL fuel parent blank cont res (bx_s x) ;; Ok (fst (fst y), snd (fst y), stx_s x (snd y))).
Proof.
  induction fuel as [|f IH]; intros parent blank cont res x; cbn [open_blocks_loopX open_blocks_loop]; [reflexivity|].
  destruct (peek_line_s (bx_s x)) as [[[s line] sg]| |]; cbn [bind]; try reflexivity.
  destruct (line_offset_s s) as [[s1 off]| |]; cbn [bind]; try reflexivity.
  destruct (Blocks.indent_width (line_of line) off) as [w pos].
  cbn [bx_s stx_s].
  match goal with |- (if ?b then _ else _) = _ => destruct b end; [reflexivity|].
  rewrite try_parsersX_off. cbn [bx_s stx_s].
  destruct (TRY _ parent blank cont res w _) as [[p2 c2 r2 s2|r2 s2]| |]; cbn [bind lift_try]; try reflexivity.
  rewrite IH. reflexivity.
Qed.

Lemma open_blocksX_off fuel parent blank x :
  OBX fuel parent blank x = (y <- OB fuel parent blank (bx_s x) ;; Ok (fst y, stx_s x (snd y))).
Proof.
  unfold open_blocksX, open_blocks.
  match goal with |- (cont <- ?e ;; _) = _ => destruct e as [cont| |] end; cbn [bind]; try reflexivity.
  rewrite open_blocks_loopX_off.
  destruct (OBL fuel parent blank cont noBlocksOpened (bx_s x)) as [[[res c2] s2]| |]; cbn [bind fst snd]; try reflexivity.
  cbn [bx_s stx_s].
  destruct ((res =? noBlocksOpened) && c2); [|reflexivity].
  destruct (last_opened (s_c s2)) as [[l lp]|]; [|reflexivity].
  destruct (p_continue lp s2 l) as [[[s3 c3] k3]| |]; cbn [bind]; reflexivity.
Qed.

Definition lift_sum (x : stx) (r : st + st) : stx + stx :=
  match r with inl s => inl (stx_s x s) | inr s => inr (stx_s x s) end.

Lemma each_openedX_off : forall fuel captured root i last_index stats x,
  EOX fuel captured root i last_index stats x =
  (y <- EO fuel captured root i last_index stats (bx_s x) ;; Ok (lift_sum x (fst y), snd y)).
Proof.
  induction fuel as [|f IH]; intros captured root i last_index stats x; cbn [each_openedX each_opened]; [reflexivity|].
  destruct (last_index <? i); [cbn [bind fst snd lift_sum]; rewrite stx_s_id; reflexivity|].
  destruct (nth_error captured (Z.to_nat i)) as [[node bp]|]; [|reflexivity].
  destruct (peek_line_s (bx_s x)) as [[[s line] sg]| |]; cbn [bind]; try reflexivity.
  cbn [bx_s stx_s].
  destruct line as [line|].
  2:{ rewrite close_blocksX_off. unfold lift0. cbn [bx_s stx_s].
      destruct (CB s last_index 0) as [s1| |]; cbn [bind]; reflexivity. }
  destruct (is_paragraph (s_h s) node) as [isp| |]; cbn [bind]; try reflexivity.
  set (CX := (if negb isp then _ else _) : result (stx * bool * bool)).
  set (C := (if negb isp then _ else _) : result (st * bool * bool)).
  assert (HC : CX = (c <- C ;; Ok (stx_s x (fst (fst c)), snd (fst c), snd c))).
  { subst CX C. destruct (negb isp); [|reflexivity].
    destruct (p_continue bp s node) as [[[s1 c1] k1]| |]; reflexivity. }
  rewrite HC. clear HC CX. destruct C as [[[s1 cont] kids]| |]; cbn [bind fst snd]; try reflexivity.
  destruct cont.
  - destruct (kids && (i =? last_index)).
    + rewrite open_blocksX_off. cbn [bx_s stx_s].
      destruct (OB _ node _ s1) as [[r2 s2]| |]; cbn [bind fst snd lift_sum]; reflexivity.
    + rewrite IH. reflexivity.
  - match goal with |- (this_parent <- ?e ;; _) = _ => destruct e as [tp| |] end; cbn [bind]; try reflexivity.
    match goal with |- (last_node <- ?e ;; _) = _ => destruct e as [ln| |] end; cbn [bind]; try reflexivity.
    rewrite open_blocksX_off. cbn [bx_s stx_s].
    destruct (OB _ tp _ s1) as [[r2 s2]| |]; cbn [bind fst snd]; try reflexivity.
    destruct (negb (r2 =? paragraphContinuation)); [|reflexivity].
    cbn [bx_s stx_s].
    match goal with |- (now_last <- ?e ;; _) = _ => destruct e as [nl| |] end; cbn [bind]; try reflexivity.
    rewrite close_blocksX_off. unfold lift0. cbn [bx_s stx_s].
    destruct (CB s2 _ i) as [s3| |]; cbn [bind]; reflexivity.
Qed.

Lemma lines_loopX_off : forall fuel root stats x,
  LLX fuel root stats x = (y <- LL fuel root stats (bx_s x) ;; Ok (lift_sum x (fst y), snd y)).
Proof.
  induction fuel as [|f IH]; intros root stats x; cbn [lines_loopX lines_loop]; [reflexivity|].
  destruct (opened (s_c (bx_s x))) as [|e0 cap] eqn:Ecap.
  - cbn [bind fst snd lift_sum]. rewrite stx_s_id. reflexivity.
  - rewrite each_openedX_off.
    destruct (EO _ (e0 :: cap) root 0 _ stats (bx_s x)) as [[[s1|s1] st1]| |]; cbn [bind fst snd lift_sum]; try reflexivity.
    rewrite IH. reflexivity.
Qed.

Lemma parse_blocks_loopX_off : forall fuel root stats x,
  PBLX fuel root stats x = lift0 x (PBL fuel root stats (bx_s x)).
Proof.
  induction fuel as [|f IH]; intros root stats x; cbn [parse_blocks_loopX parse_blocks_loop]; [reflexivity|].
  destruct (r_skip_blank_lines space_table (S (length (src_of (bx_s x)))) (s_r (bx_s x))) as [[[[r a] lines] ok]| |];
    cbn [bind]; try reflexivity.
  cbn [bx_s stx_s]. destruct (negb ok); [reflexivity|].
  rewrite open_blocksX_off. cbn [bx_s stx_s].
  destruct (OB _ root _ (st_r (bx_s x) r)) as [[res s1]| |]; cbn [bind fst snd]; try reflexivity.
  destruct (negb (res =? newBlocksOpened)); [reflexivity|].
  unfold advance_line_x. cbn [bx_s stx_s]. rewrite lines_loopX_off. cbn [bx_s stx_s].
  destruct (LL _ root _ (advance_line_s s1)) as [[[s2|s2] st2]| |]; cbn [bind fst snd lift_sum]; try reflexivity.
  rewrite IH. reflexivity.
Qed.

(* with the Table extension off, the block phase is that of the default parser *)
Theorem parse_blocksX_off : forall src,
  parse_blocksX false space_table punct_table norm re_t1o re_t1c re_t2 re_t3 re_t4 re_t5 re_t6 re_t7 allowed_tags src =
  (s <- parse_blocks space_table punct_table norm re_t1o re_t1c re_t2 re_t3 re_t4 re_t5 re_t6 re_t7 allowed_tags src ;;
   Ok {| bx_s := s; bx_tabs := [] |}).
Proof.
  intros src. unfold parse_blocksX, parse_blocks. rewrite parse_blocks_loopX_off. reflexivity.
Qed.

End Blk.
