(* C14: writer failures surface as errors; what was accepted is a prefix of the full output. *)
Require Import GM.model.Base GM.model.Bufio.
From Coq Require Import ZArith Lia ZifyBool.
Open Scope Z_scope.

Definition rune_ops_ok (ops : list wop) : Prop :=
  Forall (fun o => match o with WRune e => 2 <= zlen e <= 4 | _ => True end) ops.

(* ---------------------------------------------------------------------- *)
(* auxiliary facts on lists                                                *)

Lemma zlen_app {A} (a b : list A) : zlen (a ++ b) = zlen a + zlen b.
Proof. unfold zlen. rewrite app_length. lia. Qed.

Lemma zlen_nonneg {A} (a : list A) : 0 <= zlen a.
Proof. unfold zlen. lia. Qed.

Lemma zlen_zero_nil {A} (a : list A) : zlen a = 0 -> a = [].
Proof. destruct a as [|x a]; [reflexivity|]. unfold zlen. cbn [length]. lia. Qed.

Lemma zlen_firstn {A} n (a : list A) : 0 <= n <= zlen a -> zlen (firstn (Z.to_nat n) a) = n.
Proof. intros Hn. unfold zlen in *. rewrite firstn_length. lia. Qed.

Lemma firstn_zall {A} n (a : list A) : zlen a <= n -> firstn (Z.to_nat n) a = a.
Proof. intros Hn. apply firstn_all2. unfold zlen in Hn. lia. Qed.

Lemma firstn_app_cut {A} k (a p : list A) : zlen a <= Z.max 0 k ->
  firstn (Z.to_nat k) (a ++ p) = a ++ firstn (Z.to_nat (k - zlen a)) p.
Proof.
  intros Hk. rewrite firstn_app. rewrite (firstn_all2 a) by (unfold zlen in Hk; lia).
  f_equal. f_equal. unfold zlen in *. lia.
Qed.

Lemma firstn_app_short {A} k (w x : list A) : k < zlen w ->
  firstn (Z.to_nat k) (w ++ x) = firstn (Z.to_nat k) w.
Proof.
  intros Hk. rewrite firstn_app.
  replace (Z.to_nat k - length w)%nat with 0%nat by (unfold zlen in Hk; lia).
  cbn [firstn]. apply app_nil_r.
Qed.

Lemma is_prefix_firstn n : forall s, is_prefix (firstn n s) s = true.
Proof.
  induction n as [|n IH]; intros s; [reflexivity|].
  destruct s as [|a s]; [reflexivity|].
  cbn [firstn is_prefix]. rewrite N.eqb_refl, IH. reflexivity.
Qed.

Lemma is_prefix_refl s : is_prefix s s = true.
Proof. rewrite <- (firstn_all s) at 1. apply is_prefix_firstn. Qed.

(* ---------------------------------------------------------------------- *)
(* the invariant                                                           *)

Definition lim_ok (limit : option Z) (acc : bytes) : Prop :=
  match limit with Some k => zlen acc <= Z.max 0 k | None => True end.

(* [w] is everything written to the bufio.Writer so far *)
Definition inv (size : Z) (limit : option Z) (b : bw) (w : bytes) : Prop :=
  w_size b = size /\ d_limit (w_dest b) = limit /\
  if w_err b
  then exists k, limit = Some k /\ d_failed (w_dest b) = true /\
       d_acc (w_dest b) = firstn (Z.to_nat k) w /\ k < zlen w
  else d_acc (w_dest b) ++ w_buf b = w /\ zlen (w_buf b) <= size /\
       d_failed (w_dest b) = false /\ lim_ok limit (d_acc (w_dest b)).

Lemma inv_mono size limit b w x : inv size limit b w -> w_err b = true -> inv size limit b (w ++ x).
Proof.
  intros (Hs & Hl & Hi) He. rewrite He in Hi. destruct Hi as (k & Hk & Hf & Ha & Hlt).
  split; [exact Hs|]. split; [exact Hl|]. rewrite He.
  exists k. split; [exact Hk|]. split; [exact Hf|]. split.
  - rewrite firstn_app_short by exact Hlt. exact Ha.
  - rewrite zlen_app. pose proof (zlen_nonneg x). lia.
Qed.

Lemma dest_write_spec d p limit d' n err :
  d_limit d = limit -> d_failed d = false -> lim_ok limit (d_acc d) ->
  dest_write d p = (d', n, err) ->
  d_limit d' = limit /\
  if err
  then exists k, limit = Some k /\ d_failed d' = true /\
       d_acc d' = firstn (Z.to_nat k) (d_acc d ++ p) /\ k < zlen (d_acc d ++ p)
  else d_acc d' = d_acc d ++ p /\ d_failed d' = false /\ n = zlen p /\ lim_ok limit (d_acc d').
Proof.
  intros Hl Hf Hok. unfold dest_write. rewrite Hl, Hf.
  destruct limit as [k|].
  - unfold lim_ok in Hok.
    destruct (Z.leb_spec (zlen (d_acc d) + zlen p) k) as [Hle|Hgt]; intros Heq;
      injection Heq as Hd Hn He; subst d' n err; cbn [d_limit d_acc d_failed].
    + split; [reflexivity|]. split; [reflexivity|]. split; [reflexivity|]. split; [reflexivity|].
      unfold lim_ok. rewrite zlen_app. lia.
    + split; [reflexivity|]. exists k. split; [reflexivity|]. split; [reflexivity|]. split.
      * rewrite firstn_app_cut by exact Hok. f_equal. f_equal. lia.
      * rewrite zlen_app. lia.
  - intros Heq. injection Heq as Hd Hn He; subst d' n err; cbn [d_limit d_acc d_failed].
    split; [reflexivity|]. split; [reflexivity|]. split; [reflexivity|]. split; [reflexivity|].
    exact I.
Qed.

Lemma flush_spec size limit b w b' e :
  inv size limit b w -> bw_flush b = (b', e) ->
  e = w_err b' /\ inv size limit b' w /\ (w_err b' = false -> w_buf b' = []).
Proof.
  intros Hinv. pose proof Hinv as (Hs & Hl & Hi). unfold bw_flush.
  destruct (w_err b) eqn:He.
  - intros Heq. injection Heq as Hb Hee. subst b' e.
    split; [symmetry; exact He|]. split; [exact Hinv|]. congruence.
  - destruct Hi as (Hw & Hsz & Hf & Hok).
    destruct (w_buf b) as [|c buf] eqn:Hbuf.
    + intros Heq. injection Heq as Hb Hee. subst b' e.
      split; [symmetry; exact He|]. split; [exact Hinv|]. intros _. exact Hbuf.
    + destruct (dest_write (w_dest b) (c :: buf)) as [[d n] err] eqn:Hdw.
      destruct (dest_write_spec _ _ _ _ _ _ Hl Hf Hok Hdw) as (Hl' & Hres).
      destruct err; intros Heq; injection Heq as Hb Hee; subst b' e;
        cbn [w_err w_buf w_size w_dest].
      * split; [reflexivity|]. split; [|discriminate].
        split; [exact Hs|]. split; [exact Hl'|]. cbn [w_err w_dest].
        rewrite Hw in Hres. exact Hres.
      * destruct Hres as (Ha & Hf' & _ & Hok').
        split; [reflexivity|]. split; [|reflexivity].
        split; [exact Hs|]. split; [exact Hl'|]. cbn [w_err w_dest w_buf].
        split; [rewrite app_nil_r, Ha; exact Hw|].
        split; [change (zlen (@nil N)) with 0; pose proof (zlen_nonneg (c :: buf)); lia|].
        split; [exact Hf'|exact Hok'].
Qed.

(* number of productive iterations the Write loop still needs *)
Definition meas (b : bw) (p : bytes) : nat :=
  if w_err b then 0%nat
  else if available b <? zlen p then (if buffered b =? 0 then 1%nat else 2%nat) else 0%nat.

Lemma meas_le2 b p : (meas b p <= 2)%nat.
Proof.
  unfold meas. destruct (w_err b); [lia|].
  destruct (available b <? zlen p); [|lia]. destruct (buffered b =? 0); lia.
Qed.

Lemma loop_spec size limit : forall f b p w b' p',
  inv size limit b w -> bw_write_loop f b p = (b', p') ->
  (if w_err b' then inv size limit b' (w ++ p)
   else exists c, p = c ++ p' /\ inv size limit b' (w ++ c)) /\
  ((meas b p < f)%nat -> w_err b' = true \/ zlen p' <= available b').
Proof.
  assert (Hexit : forall b p w, inv size limit b w ->
     (if w_err b then inv size limit b (w ++ p)
      else exists c, p = c ++ p /\ inv size limit b (w ++ c))).
  { intros b p w Hinv. destruct (w_err b) eqn:He.
    - apply inv_mono; assumption.
    - exists []. split; [reflexivity|]. rewrite app_nil_r. exact Hinv. }
  induction f as [|f IH]; intros b p w b' p' Hinv.
  - cbn [bw_write_loop]. intros Heq. injection Heq as Hb Hp. subst b' p'.
    split; [apply Hexit; exact Hinv|]. lia.
  - cbn [bw_write_loop]. unfold meas.
    destruct (available b <? zlen p) eqn:Hav; cbn [andb].
    2:{ intros Heq. injection Heq as Hb Hp. subst b' p'.
        split; [apply Hexit; exact Hinv|]. intros _. right. lia. }
    destruct (w_err b) eqn:He; cbn [negb].
    { intros Heq. injection Heq as Hb Hp. subst b' p'.
      split; [apply Hexit; exact Hinv|]. intros _. left. exact He. }
    pose proof Hinv as (Hs & Hl & Hi). rewrite He in Hi. destruct Hi as (Hw & Hsz & Hf & Hok).
    destruct (buffered b =? 0) eqn:Hbz.
    + (* large write with an empty buffer: straight to the destination *)
      assert (Hnil : w_buf b = []) by (apply zlen_zero_nil; unfold buffered in Hbz; lia).
      destruct (dest_write (w_dest b) p) as [[d n] err] eqn:Hdw.
      destruct (dest_write_spec _ _ _ _ _ _ Hl Hf Hok Hdw) as (Hl' & Hres).
      set (b1 := {| w_buf := w_buf b; w_err := err; w_size := w_size b; w_dest := d |}).
      rewrite Hnil, app_nil_r in Hw.
      destruct err.
      * (* failed *)
        assert (Hinv1 : inv size limit b1 (w ++ p)).
        { split; [exact Hs|]. split; [exact Hl'|]. cbn [b1 w_err w_dest].
          rewrite Hw in Hres. exact Hres. }
        intros Heq.
        assert (Hsame : b' = b1).
        { destruct f as [|f']; cbn [bw_write_loop] in Heq.
          - injection Heq as Hb _. symmetry; exact Hb.
          - replace (w_err b1) with true in Heq by reflexivity. cbn [negb] in Heq.
            rewrite andb_false_r in Heq. injection Heq as Hb _. symmetry; exact Hb. }
        subst b'. split; [exact Hinv1|]. intros _. left. reflexivity.
      * destruct Hres as (Ha & Hf' & Hn & Hok'). subst n.
        assert (Hinv1 : inv size limit b1 (w ++ p)).
        { split; [exact Hs|]. split; [exact Hl'|]. cbn [b1 w_err w_dest w_buf].
          split; [rewrite Hnil, app_nil_r, Ha, Hw; reflexivity|].
          split; [exact Hsz|]. split; [exact Hf'|exact Hok']. }
        assert (Hskip : skipn (Z.to_nat (zlen p)) p = []).
        { apply skipn_all2. unfold zlen. lia. }
        rewrite Hskip. intros Heq.
        destruct (IH _ _ _ _ _ Hinv1 Heq) as (HA & HB).
        split.
        -- destruct (w_err b') eqn:He'.
           ++ rewrite <- app_assoc, app_nil_r in HA. exact HA.
           ++ destruct HA as (c & Hc & HA). symmetry in Hc. apply app_eq_nil in Hc.
              destruct Hc as (Hc1 & Hc2). subst c p'. exists p.
              split; [rewrite app_nil_r; reflexivity|].
              rewrite app_nil_r in HA. exact HA.
        -- intros Hm. apply HB. unfold meas. cbn [b1 w_err].
           replace (available b1 <? zlen (@nil N)) with false; [lia|].
           symmetry. apply Z.ltb_ge. unfold available. cbn [b1 w_size w_buf].
           change (zlen (@nil N)) with 0. lia.
    + (* fill the buffer, flush *)
      set (n := Z.min (available b) (zlen p)).
      set (b1 := {| w_buf := w_buf b ++ firstn (Z.to_nat n) p; w_err := false;
                    w_size := w_size b; w_dest := w_dest b |}).
      assert (Hn : n = available b) by (unfold n; lia).
      assert (Hn0 : 0 <= n <= zlen p) by (unfold available in *; lia).
      assert (Hinv1 : inv size limit b1 (w ++ firstn (Z.to_nat n) p)).
      { split; [exact Hs|]. split; [exact Hl|]. cbn [b1 w_err w_dest w_buf].
        split; [rewrite app_assoc, Hw; reflexivity|].
        split; [rewrite zlen_app, zlen_firstn by exact Hn0; unfold available in Hn; lia|].
        split; [exact Hf|exact Hok]. }
      destruct (bw_flush b1) as [b2 e2] eqn:Hfl.
      destruct (flush_spec _ _ _ _ _ _ Hinv1 Hfl) as (_ & Hinv2 & Hbuf2).
      intros Heq.
      destruct (IH _ _ _ _ _ Hinv2 Heq) as (HA & HB).
      split.
      * destruct (w_err b') eqn:He'.
        -- rewrite <- app_assoc, firstn_skipn in HA. exact HA.
        -- destruct HA as (c & Hc & HA). exists (firstn (Z.to_nat n) p ++ c).
           split; [rewrite <- app_assoc, <- Hc, firstn_skipn; reflexivity|].
           rewrite <- app_assoc in HA. exact HA.
      * intros Hm. apply HB. unfold meas.
        destruct (w_err b2) eqn:He2; [lia|].
        unfold buffered. rewrite (Hbuf2 eq_refl).
        change (zlen (@nil N)) with 0. cbn [Z.eqb].
        destruct (available b2 <? _); lia.
Qed.

Lemma write_spec size limit b p w :
  inv size limit b w -> inv size limit (bw_write b p) (w ++ p).
Proof.
  intros Hinv. unfold bw_write.
  destruct (bw_write_loop (length p + 3) b p) as [b1 p1] eqn:Hloop.
  destruct (loop_spec _ _ _ _ _ _ _ _ Hinv Hloop) as (HA & HB).
  assert (Hm : (meas b p < length p + 3)%nat) by (pose proof (meas_le2 b p); lia).
  specialize (HB Hm).
  destruct (w_err b1) eqn:He1; [exact HA|].
  destruct HB as [HB|HB]; [discriminate|].
  destruct HA as (c & Hc & (Hs & Hl & Hi)). rewrite He1 in Hi.
  destruct Hi as (Hw & Hsz & Hf & Hok).
  rewrite firstn_zall by exact HB.
  split; [exact Hs|]. split; [exact Hl|]. cbn [w_err w_dest w_buf].
  split; [rewrite app_assoc, Hw, Hc, app_assoc; reflexivity|].
  split; [rewrite zlen_app; unfold available in HB; lia|].
  split; [exact Hf|exact Hok].
Qed.

(* WriteString: no direct write, everything goes through the buffer *)
Definition meas_s (b : bw) (p : bytes) : nat :=
  if w_err b then 0%nat
  else if available b <? zlen p then (length p + (if (buffered b =? 0)%Z then 0 else 1))%nat else 0%nat.

Lemma meas_s_le b p : (meas_s b p <= length p + 1)%nat.
Proof.
  unfold meas_s. destruct (w_err b); [lia|].
  destruct (available b <? zlen p); [|lia]. destruct (buffered b =? 0); lia.
Qed.

Lemma sloop_spec size limit : 1 <= size -> forall f b p w b' p',
  inv size limit b w -> bw_write_string_loop f b p = (b', p') ->
  (if w_err b' then inv size limit b' (w ++ p)
   else exists c, p = c ++ p' /\ inv size limit b' (w ++ c)) /\
  ((meas_s b p < f)%nat -> w_err b' = true \/ zlen p' <= available b').
Proof.
  intros Hsize.
  assert (Hexit : forall b p w, inv size limit b w ->
     (if w_err b then inv size limit b (w ++ p)
      else exists c, p = c ++ p /\ inv size limit b (w ++ c))).
  { intros b p w Hinv. destruct (w_err b) eqn:He.
    - apply inv_mono; assumption.
    - exists []. split; [reflexivity|]. rewrite app_nil_r. exact Hinv. }
  induction f as [|f IH]; intros b p w b' p' Hinv.
  - cbn [bw_write_string_loop]. intros Heq. injection Heq as Hb Hp. subst b' p'.
    split; [apply Hexit; exact Hinv|]. lia.
  - cbn [bw_write_string_loop]. unfold meas_s.
    destruct (available b <? zlen p) eqn:Hav; cbn [andb].
    2:{ intros Heq. injection Heq as Hb Hp. subst b' p'.
        split; [apply Hexit; exact Hinv|]. intros _. right. lia. }
    destruct (w_err b) eqn:He; cbn [negb].
    { intros Heq. injection Heq as Hb Hp. subst b' p'.
      split; [apply Hexit; exact Hinv|]. intros _. left. exact He. }
    pose proof Hinv as (Hs & Hl & Hi). rewrite He in Hi. destruct Hi as (Hw & Hsz & Hf & Hok).
    set (n := Z.min (available b) (zlen p)).
    set (b1 := {| w_buf := w_buf b ++ firstn (Z.to_nat n) p; w_err := false;
                  w_size := w_size b; w_dest := w_dest b |}).
    assert (Hn : n = available b) by (unfold n; lia).
    assert (Hn0 : 0 <= n <= zlen p) by (unfold available in *; lia).
    assert (Hinv1 : inv size limit b1 (w ++ firstn (Z.to_nat n) p)).
    { split; [exact Hs|]. split; [exact Hl|]. cbn [b1 w_err w_dest w_buf].
      split; [rewrite app_assoc, Hw; reflexivity|].
      split; [rewrite zlen_app, zlen_firstn by exact Hn0; unfold available in Hn; lia|].
      split; [exact Hf|exact Hok]. }
    destruct (bw_flush b1) as [b2 e2] eqn:Hfl.
    destruct (flush_spec _ _ _ _ _ _ Hinv1 Hfl) as (_ & Hinv2 & Hbuf2).
    intros Heq.
    destruct (IH _ _ _ _ _ Hinv2 Heq) as (HA & HB).
    split.
    + destruct (w_err b') eqn:He'.
      * rewrite <- app_assoc, firstn_skipn in HA. exact HA.
      * destruct HA as (c & Hc & HA). exists (firstn (Z.to_nat n) p ++ c).
        split; [rewrite <- app_assoc, <- Hc, firstn_skipn; reflexivity|].
        rewrite <- app_assoc in HA. exact HA.
    + intros Hm. apply HB. unfold meas_s.
      assert (Hlenp : (1 <= length p)%nat) by (unfold zlen in Hn0; unfold available in *; unfold zlen in *; lia).
      destruct (w_err b2) eqn:He2; [destruct (buffered b =? 0); lia|].
      unfold buffered at 1. rewrite (Hbuf2 eq_refl).
      change (zlen (@nil N)) with 0. cbn [Z.eqb].
      destruct (available b2 <? _); [|destruct (buffered b =? 0); lia].
      rewrite skipn_length.
      destruct (buffered b =? 0) eqn:Hbz; [|lia].
      assert (Hnil : zlen (w_buf b) = 0) by (unfold buffered in Hbz; lia).
      assert (1 <= n) by (unfold available in Hn; lia).
      lia.
Qed.

Lemma write_string_spec size limit b p w : 1 <= size ->
  inv size limit b w -> inv size limit (bw_write_string b p) (w ++ p).
Proof.
  intros Hsize Hinv. unfold bw_write_string.
  destruct (bw_write_string_loop (2 * length p + 3) b p) as [b1 p1] eqn:Hloop.
  destruct (sloop_spec _ _ Hsize _ _ _ _ _ _ Hinv Hloop) as (HA & HB).
  assert (Hm : (meas_s b p < 2 * length p + 3)%nat) by (pose proof (meas_s_le b p); lia).
  specialize (HB Hm).
  destruct (w_err b1) eqn:He1; [exact HA|].
  destruct HB as [HB|HB]; [discriminate|].
  destruct HA as (c & Hc & (Hs & Hl & Hi)). rewrite He1 in Hi.
  destruct Hi as (Hw & Hsz & Hf & Hok).
  rewrite firstn_zall by exact HB.
  split; [exact Hs|]. split; [exact Hl|]. cbn [w_err w_dest w_buf].
  split; [rewrite app_assoc, Hw, Hc, app_assoc; reflexivity|].
  split; [rewrite zlen_app; unfold available in HB; lia|].
  split; [exact Hf|exact Hok].
Qed.

Lemma append_spec size limit b x w :
  inv size limit b w -> w_err b = false -> zlen x <= available b ->
  inv size limit {| w_buf := w_buf b ++ x; w_err := false; w_size := w_size b; w_dest := w_dest b |} (w ++ x).
Proof.
  intros (Hs & Hl & Hi) He Hx. rewrite He in Hi. destruct Hi as (Hw & Hsz & Hf & Hok).
  split; [exact Hs|]. split; [exact Hl|]. cbn [w_err w_dest w_buf].
  split; [rewrite app_assoc, Hw; reflexivity|].
  split; [rewrite zlen_app; unfold available in Hx; lia|].
  split; [exact Hf|exact Hok].
Qed.

Lemma available_empty size limit b w :
  inv size limit b w -> w_buf b = [] -> available b = size.
Proof.
  intros (Hs & _) Hb. unfold available. rewrite Hb, Hs. change (zlen (@nil N)) with 0. lia.
Qed.

Lemma write_byte_spec size limit b c w : 1 <= size ->
  inv size limit b w -> inv size limit (bw_write_byte b c) (w ++ [c]).
Proof.
  intros Hsize Hinv. unfold bw_write_byte.
  destruct (w_err b) eqn:He; [apply inv_mono; assumption|].
  destruct (Z.leb_spec (available b) 0) as [Hav|Hav].
  - destruct (bw_flush b) as [b1 e1] eqn:Hfl. cbn [fst].
    destruct (flush_spec _ _ _ _ _ _ Hinv Hfl) as (_ & Hinv1 & Hbuf1).
    destruct (w_err b1) eqn:He1; [apply inv_mono; assumption|].
    apply append_spec; [exact Hinv1|exact He1|].
    rewrite (available_empty _ _ _ _ Hinv1 (Hbuf1 eq_refl)).
    change (zlen [c]) with 1. exact Hsize.
  - rewrite He. apply append_spec; [exact Hinv|exact He|].
    change (zlen [c]) with 1. lia.
Qed.

Lemma write_rune_spec size limit b enc w : 1 <= size -> zlen enc <= 4 ->
  inv size limit b w -> inv size limit (bw_write_rune b enc) (w ++ enc).
Proof.
  intros Hsize Henc Hinv. unfold bw_write_rune.
  destruct (w_err b) eqn:He; [apply inv_mono; assumption|].
  destruct (Z.ltb_spec (available b) 4) as [Hav|Hav].
  - destruct (bw_flush b) as [b1 e1] eqn:Hfl. cbn [fst].
    destruct (flush_spec _ _ _ _ _ _ Hinv Hfl) as (_ & Hinv1 & Hbuf1).
    destruct (w_err b1) eqn:He1; [apply inv_mono; assumption|].
    destruct (Z.ltb_spec (available b1) 4) as [Hav1|Hav1].
    + apply write_string_spec; [exact Hsize|exact Hinv1].
    + apply append_spec; [exact Hinv1|exact He1|lia].
  - apply append_spec; [exact Hinv|exact He|lia].
Qed.

Lemma step_spec size limit b o w : 1 <= size ->
  match o with WRune e => 2 <= zlen e <= 4 | _ => True end ->
  inv size limit b w -> inv size limit (bw_step b o) (w ++ wop_bytes o).
Proof.
  intros Hsize Ho Hinv. destruct o as [p|p|c|e]; cbn [bw_step wop_bytes].
  - apply write_spec. exact Hinv.
  - apply write_string_spec; assumption.
  - apply write_byte_spec; assumption.
  - apply write_rune_spec; [exact Hsize|lia|exact Hinv].
Qed.

Lemma fold_spec size limit : 1 <= size -> forall ops b w, rune_ops_ok ops ->
  inv size limit b w -> inv size limit (fold_left bw_step ops b) (w ++ full_output ops).
Proof.
  intros Hsize. induction ops as [|o ops IH]; intros b w Hok Hinv.
  - cbn [fold_left full_output flat_map]. rewrite app_nil_r. exact Hinv.
  - inversion Hok as [|o' ops' Ho Hops]; subst o' ops'.
    cbn [fold_left]. unfold full_output. cbn [flat_map]. rewrite app_assoc.
    apply IH; [exact Hops|]. apply step_spec; assumption.
Qed.

Lemma lim_ok_nil limit : lim_ok limit [].
Proof. destruct limit as [k|]; [|exact I]. unfold lim_ok. change (zlen (@nil N)) with 0. lia. Qed.

Lemma inv_init size limit : 0 <= size ->
  inv size limit (new_bw size (new_dest limit)) [].
Proof.
  intros Hsize. pose proof (lim_ok_nil limit) as Hok. unfold new_bw, new_dest.
  split; [reflexivity|]. split; [reflexivity|]. cbn [w_err w_dest w_buf d_acc d_failed].
  split; [reflexivity|]. split; [change (zlen (@nil N)) with 0; exact Hsize|].
  split; [reflexivity|exact Hok].
Qed.

(* everything about render_to in one statement *)
Lemma render_spec size limit ops : 1 <= size -> rune_ops_ok ops ->
  exists b, render_to size limit ops = (w_dest b, w_err b) /\
            inv size limit b (full_output ops) /\ (w_err b = false -> w_buf b = []).
Proof.
  intros Hsize Hok. unfold render_to.
  assert (Hinv : inv size limit (fold_left bw_step ops (new_bw size (new_dest limit))) (full_output ops)).
  { change (full_output ops) with ([] ++ full_output ops).
    apply fold_spec; [exact Hsize|exact Hok|]. apply inv_init; lia. }
  destruct (bw_flush _) as [b e] eqn:Hfl.
  destruct (flush_spec _ _ _ _ _ _ Hinv Hfl) as (He & Hinv' & Hbuf).
  exists b. subst e. split; [reflexivity|]. split; assumption.
Qed.

(* ---------------------------------------------------------------------- *)

(* the destination never sees anything but a prefix of the full output *)
Theorem accepted_is_prefix size limit ops : 1 <= size -> rune_ops_ok ops ->
  is_prefix (d_acc (fst (render_to size limit ops))) (full_output ops) = true.
Proof.
  intros Hsize Hok.
  destruct (render_spec size limit ops Hsize Hok) as (b & Hr & (Hs & Hl & Hi) & Hbuf).
  rewrite Hr. cbn [fst]. destruct (w_err b) eqn:He.
  - destruct Hi as (k' & _ & _ & Ha & _). rewrite Ha. apply is_prefix_firstn.
  - destruct Hi as (Hw & _). rewrite (Hbuf eq_refl), app_nil_r in Hw.
    rewrite Hw. apply is_prefix_refl.
Qed.

(* a destination that never fails receives everything and no error is reported *)
Theorem no_fault_complete size ops : 1 <= size -> rune_ops_ok ops ->
  render_to size None ops = ({| d_acc := full_output ops; d_limit := None; d_failed := false |}, false).
Proof.
  intros Hsize Hok.
  destruct (render_spec size None ops Hsize Hok) as (b & Hr & (Hs & Hl & Hi) & Hbuf).
  rewrite Hr. destruct (w_err b) eqn:He.
  - destruct Hi as (k & Hk & _). discriminate.
  - destruct Hi as (Hw & _ & Hf & _). rewrite (Hbuf eq_refl), app_nil_r in Hw.
    destruct (w_dest b) as [acc lim failed]. cbn [d_acc d_limit d_failed] in *.
    subst acc lim failed. reflexivity.
Qed.

(* a destination failing at offset k: an error is returned exactly when the output is longer
   than k, and then exactly the first k bytes were accepted; otherwise everything was *)
Theorem fault_reported size k ops : 1 <= size -> 0 <= k -> rune_ops_ok ops ->
  let '(d, err) := render_to size (Some k) ops in
  (err = true <-> k < zlen (full_output ops)) /\
  d_acc d = firstn (Z.to_nat k) (full_output ops).
Proof.
  intros Hsize Hk Hok.
  destruct (render_spec size (Some k) ops Hsize Hok) as (b & Hr & (Hs & Hl & Hi) & Hbuf).
  rewrite Hr. destruct (w_err b) eqn:He.
  - destruct Hi as (k' & Hk' & _ & Ha & Hlt). injection Hk' as Hk'. subst k'.
    split; [|exact Ha]. split; intros _; [exact Hlt|reflexivity].
  - destruct Hi as (Hw & _ & _ & Hlim). rewrite (Hbuf eq_refl), app_nil_r in Hw.
    unfold lim_ok in Hlim. rewrite Hw in Hlim.
    split; [split; [discriminate|lia]|].
    rewrite firstn_zall by lia. exact Hw.
Qed.
