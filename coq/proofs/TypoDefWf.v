(* C05 / C01 / C03 / C04 for the model of the parser with extension.Typographer and
   extension.DefinitionList (model/TypoDefI.v), for EVERY source and both switches.
   Proof: the block phase (deflist on: proofs/TypoDefWfBlk*.v, TypoDefWfTotBlk*.v; off: the block
   phase of the default parser, TypoDefConservativeBlk.v + ParseBlocksRange.v / ParseBlocksTotal.v),
   the inline phase with the typographer parser on lines that may carry padding
   (proofs/TypoDefWfInl*.v, TypoDefWfTotInl*.v; TypoDefWfDefs.v says why), and the two tree passes
   (proofs/TypoDefWfTree.v). *)
Require Import GM.model.Base GM.model.Util GM.model.UtilI GM.model.Reader GM.model.Regex GM.model.HtmlWriter GM.model.Html GM.model.HtmlI GM.model.HtmlSpec
               GM.model.DelimI GM.model.BlockParse GM.model.InlineParse GM.model.ParseI GM.model.TypoDefParseU GM.model.TypoDefParseT GM.model.TypoDefParseD
               GM.model.TypoDefParse GM.model.TypoDefI.
Require Import GM.gen.Tables GM.gen.Regexes.
Require Import GM.proofs.ParseInv GM.proofs.ParseCompose GM.proofs.HtmlConcrete GM.proofs.ParseBlocksRange GM.proofs.ParseBlocksTotal.
Require Import GM.proofs.TypoDefConservativeBlkInv GM.proofs.TypoDefConservativeBlk GM.proofs.TypoDefConservativeTree.
Require Import GM.proofs.TypoDefWfDefs GM.proofs.TypoDefWfTree GM.proofs.TypoDefWfInl GM.proofs.TypoDefWfBlk
               GM.proofs.TypoDefWfTotInl GM.proofs.TypoDefWfTotBlk.
From Coq Require Import List ZArith Bool.
Import ListNotations.

(* the white space table regenerated from the code classes the blank as white space *)
Lemma td_sp32 : is_space space_table 32%N = true.
Proof. vm_compute. reflexivity. Qed.

(* the block phase with the tables of model/TypoDefI.v *)
Definition ParseBlocksTreeTD (tc : tcfg) (src : bytes) : result (tree * list (bytes * (bytes * option bytes))) :=
  parse_blocks_treeTD tc space_table punct_table ToLinkReference
    re_htmlBlockType1Open re_htmlBlockType1Close re_htmlBlockType2Open re_htmlBlockType3Open
    re_htmlBlockType4Open re_htmlBlockType5Open re_htmlBlockType6 re_htmlBlockType7 allowed_block_tags src.
(* the inline phase with the tables of model/TypoDefI.v *)
Definition InlineChildrenTD (ty : bool) (refs : list (bytes * (bytes * option bytes))) (cnt : Z * Z) (src : bytes) (lines : list seg) :=
  inline_childrenT ty space_table punct_table ToLinkReference url_table email_table re_emailDomain re_openTag re_closeTag
                   PunctRune SpaceRune UniPunct UniSpace UniDigit UniLetter refs cnt src lines.

Lemma ParseTreeTD_unfold tc src :
  ParseTreeTD tc src =
  (x <- ParseBlocksTreeTD tc src ;;
   y <- attach_inlinesTD (fun cnt => InlineChildrenTD (t_typo tc) (snd x) cnt src) (0, 0)%Z (fst x) ;; Ok (fst y)).
Proof.
  unfold ParseTreeTD, parse_treeTD, ParseBlocksTreeTD.
  destruct (parse_blocks_treeTD _ _ _ _ _ _ _ _ _ _ _ _ _ src) as [[t refs]| |]; reflexivity.
Qed.

(* with the DefinitionList parsers off the block phase is that of the default parser *)
Lemma ParseBlocksTreeTD_off tc src : t_deflist tc = false -> ParseBlocksTreeTD tc src = ParseBlocksTree src.
Proof.
  intros Hd. unfold ParseBlocksTreeTD, parse_blocks_treeTD, ParseBlocksTree, ParseBlocks. rewrite Hd, parse_blocksD_off.
  destruct (parse_blocks _ _ _ _ _ _ _ _ _ _ _ _ src) as [s| |] eqn:Es; cbn [bind]; try reflexivity.
  rewrite (to_treeD_core src (s_h s) (parse_blocks_dheap _ _ _ _ _ _ _ _ _ _ _ _ _ _ Es)). reflexivity.
Qed.

(* the block phase, both settings of the switch: the tree is well formed, has block kinds only,
   and the lines of its inline-bearing blocks are fit for the inline phase *)
Lemma ParseBlocksTreeTD_ok tc src t refs : bytes_ok src -> ParseBlocksTreeTD tc src = Ok (t, refs) ->
  wf_node src false false t = true /\ tree_lines_okTD src t = true /\ refs_ok refs /\ all_kinds block_kindTD t = true.
Proof.
  intros Hsrc H. destruct (t_deflist tc) eqn:Hd.
  - destruct (parse_blocks_treeTD_ok_sp space_table punct_table ToLinkReference
                re_htmlBlockType1Open re_htmlBlockType1Close re_htmlBlockType2Open re_htmlBlockType3Open
                re_htmlBlockType4Open re_htmlBlockType5Open re_htmlBlockType6 re_htmlBlockType7 allowed_block_tags
                td_sp32 tc src t refs Hd Hsrc H) as (Hwf & Hl & Hr).
    repeat split; try assumption.
    unfold ParseBlocksTreeTD, parse_blocks_treeTD in H.
    apply pc_bind_ok in H as (s & _ & H). apply pc_bind_ok in H as (t0 & Ht & H).
    apply pc_Ok_inj in H. injection H as <- _. exact (to_treeD_block_kinds _ _ _ _ _ Ht).
  - rewrite (ParseBlocksTreeTD_off tc src Hd) in H.
    destruct (ParseBlocksTree_ok src t refs Hsrc H) as (Hwf & Hl & Hr).
    assert (Hk : all_kinds block_kind t = true).
    { unfold ParseBlocksTree in H. apply pc_bind_ok in H as (s & _ & H). apply pc_bind_ok in H as (t0 & Ht & H).
      apply pc_Ok_inj in H. injection H as <- _. exact (to_tree_block_kinds _ _ _ _ _ Ht). }
    repeat split; try assumption.
    + exact (tree_lines_ok_TD src t Hk Hl).
    + exact (all_kinds_block_TD t Hk).
Qed.

(* C01 for the block phase, both settings of the switch *)
Lemma ParseBlocksTreeTD_total tc src : bytes_ok src -> exists x, ParseBlocksTreeTD tc src = Ok x.
Proof.
  intros Hsrc. destruct (t_deflist tc) eqn:Hd.
  - exact (parse_blocks_treeTD_total space_table punct_table ToLinkReference
             re_htmlBlockType1Open re_htmlBlockType1Close re_htmlBlockType2Open re_htmlBlockType3Open
             re_htmlBlockType4Open re_htmlBlockType5Open re_htmlBlockType6 re_htmlBlockType7 allowed_block_tags
             space_table_ok tc src Hd Hsrc).
  - rewrite (ParseBlocksTreeTD_off tc src Hd). exact (ParseBlocksTree_total src Hsrc).
Qed.

(* C05: every tree the parser model with the two extensions yields is well formed *)
Theorem ParseTreeTD_wf : forall tc src t, bytes_ok src -> ParseTreeTD tc src = Ok t -> wf_tree src t = true.
Proof.
  intros tc src t Hsrc H. rewrite ParseTreeTD_unfold in H.
  apply pc_bind_ok in H as ([bt refs] & Hb & H). cbn [fst snd] in H.
  apply pc_bind_ok in H as ([t1 c1] & Ha & H). apply pc_Ok_inj in H. cbn [fst] in H. subst t1.
  destruct (ParseBlocksTreeTD_ok tc src bt refs Hsrc Hb) as (Hwf & Hl & Hr & Hk).
  unfold wf_tree. rewrite Hsrc. cbn [andb].
  apply (attachTD_wf src (fun cnt => InlineChildrenTD (t_typo tc) refs cnt src)) with (t := bt) (cnt := (0, 0)%Z) (cnt' := c1); try assumption.
  intros cnt lines ts cnt' Hlo Hi. exact (InlineChildrenTD_ok (t_typo tc) refs cnt src lines ts cnt' Hsrc Hr Hlo Hi).
Qed.

(* C01: the parser model with the two extensions never panics and never runs out of fuel *)
Theorem ParseTreeTD_total : forall tc src, bytes_ok src -> exists t, ParseTreeTD tc src = Ok t.
Proof.
  intros tc src Hsrc. rewrite ParseTreeTD_unfold.
  destruct (ParseBlocksTreeTD_total tc src Hsrc) as [[bt refs] Hb]. rewrite Hb. cbn [bind fst snd].
  destruct (ParseBlocksTreeTD_ok tc src bt refs Hsrc Hb) as (_ & Hl & _ & _).
  destruct (attachTD_total src (fun cnt => InlineChildrenTD (t_typo tc) refs cnt src)
              (fun cnt lines Hlo => InlineChildrenTD_total (t_typo tc) refs cnt src lines Hsrc Hlo) bt (0, 0)%Z Hl) as [y Hy].
  rewrite Hy. cbn [bind]. eexists. reflexivity.
Qed.

Lemma ConvertModelTD_ok tc c src o : ConvertModelTD tc c src = Ok o ->
  exists t, ParseTreeTD tc src = Ok t /\ RenderHTML c src t = Ok o.
Proof. unfold ConvertModelTD. intros H. exact (pc_bind_ok _ _ _ H). Qed.

(* C03 / C04: safe-mode output of the Convert model with the two extensions is inert, for every source *)
Theorem ConvertModelTD_safe_inert : forall tc c src o, unsafe c = false -> bytes_ok src -> ConvertModelTD tc c src = Ok o -> Inert o.
Proof.
  intros tc c src o Hu Hsrc H. apply ConvertModelTD_ok in H as (t & Ht & Hr).
  exact (RenderHTML_safe_inert c src t o Hu (ParseTreeTD_wf tc src t Hsrc Ht) Hr).
Qed.
Theorem ConvertModelTD_safe_inert_xhtml : forall tc c src o, unsafe c = false -> xhtml c = true -> bytes_ok src ->
  ConvertModelTD tc c src = Ok o -> InertX o.
Proof.
  intros tc c src o Hu Hx Hsrc H. apply ConvertModelTD_ok in H as (t & Ht & Hr).
  exact (RenderHTML_safe_inert_xhtml c src t o Hu Hx (ParseTreeTD_wf tc src t Hsrc Ht) Hr).
Qed.

(* C01: once the parser model has returned a tree, rendering cannot fail *)
Theorem ConvertModelTD_render_total : forall tc c src t, bytes_ok src -> ParseTreeTD tc src = Ok t ->
  exists o, ConvertModelTD tc c src = Ok o.
Proof.
  intros tc c src t Hsrc Ht. unfold ConvertModelTD. rewrite Ht. cbn [bind].
  exact (RenderHTML_total c src t (ParseTreeTD_wf tc src t Hsrc Ht)).
Qed.

Theorem ConvertModelTD_total : forall tc c src, bytes_ok src -> exists o, ConvertModelTD tc c src = Ok o.
Proof.
  intros tc c src Hsrc. destruct (ParseTreeTD_total tc src Hsrc) as [t Ht].
  exact (ConvertModelTD_render_total tc c src t Hsrc Ht).
Qed.
