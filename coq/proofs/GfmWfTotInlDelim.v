(* ProcessDelimiters with both delimiter processors (model/InlineParseX.v closer_loopX,
   process_delimitersX): the port of wrap_spec, closer_loop_spec and process_delimiters_spec of
   proofs/ParseInlineTotalEmph.v; the new node's kind is on_match o_ch consume, an IEmphasis node
   of some level. *)
Require Import GM.model.Base GM.model.Util GM.model.Reader GM.model.BlockParse GM.model.InlineParse GM.model.InlineParseX.
Require Import GM.proofs.ParseInlineTotalHeap GM.proofs.ParseInlineTotalDelim GM.proofs.ParseInlineTotalEmph.
From Coq Require Import ZArith Lia List Arith.
Import ListNotations.

Lemma on_match_emph ch consume : exists ek, on_match ch consume = IEmphasis ek.
Proof. unfold on_match, IStrikethrough. destruct (N.eqb ch 126); eexists; reflexivity. Qed.

Section Phase3.
Variable src : bytes.
Variable lo : Z.
Notation DInv := (DInv src lo).

(* consume characters of opener and closer, wrap the nodes between them in an emphasis node *)
Lemma wrap_specX ek c dl op cl consume so coo cco leno origo cho po no sc coc ccc lenc origc chc pc nc :
  DInv c dl -> In op dl -> In cl dl -> op <> cl ->
  kd (i_h c) op = Some (IDelim so coo cco leno origo cho po no) ->
  kd (i_h c) cl = Some (IDelim sc coc ccc lenc origc chc pc nc) ->
  (0 < consume <= leno)%Z -> (consume <= lenc)%Z ->
  exists h1 h2 opn parent child h4 h5,
    consume_chars (i_h c) op consume = Ok h1 /\ consume_chars h1 cl consume = Ok h2 /\
    length h2 = length (i_h c) /\
    kd h2 op = Some (IDelim (seg_with_stop so (s_start so + (leno - consume))) coo cco (leno - consume) origo cho po no) /\
    nth_error (h2 ++ [fresh (IEmphasis ek)]) op = Some opn /\ ipar opn = Some parent /\
    i_next (h2 ++ [fresh (IEmphasis ek)]) op = Ok child /\
    move_children (S (length (h2 ++ [fresh (IEmphasis ek)]))) (h2 ++ [fresh (IEmphasis ek)]) child (Some cl) (length h2) = Ok h4 /\
    i_insert_after h4 parent op (length h2) = Ok h5 /\
    DInv (cx_h c h5) dl /\ dstep c (cx_h c h5) /\
    kd h5 op = Some (IDelim (seg_with_stop so (s_start so + (leno - consume))) coo cco (leno - consume) origo cho po no) /\
    kd h5 cl = Some (IDelim (seg_with_stop sc (s_start sc + (lenc - consume))) coc ccc (lenc - consume) origc chc pc nc) /\
    (forall y, y <> op -> y <> cl -> dcoreh h5 y = dcoreh (i_h c) y).
Proof.
  intros I Hop Hcl Hne Hko Hkc Hcons Hconsc. set (h0 := i_h c) in *.
  pose proof (di_wf _ _ _ _ I) as W0. pose proof (di_kok _ _ _ _ I) as K0. pose proof (di_dl _ _ _ _ I) as D0.
  destruct (di_acyc _ _ _ _ I) as [rk R0].
  destruct (consume_chars_spec h0 op _ _ _ _ _ _ _ _ consume Hko) as (h1 & E1 & T1 & Ko1 & Kn1).
  assert (Hkc1 : kd h1 cl = Some (IDelim sc coc ccc lenc origc chc pc nc)) by (rewrite Kn1 by congruence; exact Hkc).
  destruct (consume_chars_spec h1 cl _ _ _ _ _ _ _ _ consume Hkc1) as (h2 & E2 & T2 & Kc2 & Kn2).
  exists h1, h2.
  assert (T02 : same_tree h0 h2) by (eapply same_tree_trans; eassumption).
  destruct T02 as (L2 & P2 & C2).
  assert (Ko2 : kd h2 op = Some (IDelim (seg_with_stop so (s_start so + (leno - consume))) coo cco (leno - consume) origo cho po no))
    by (rewrite Kn2 by exact Hne; exact Ko1).
  assert (Kn02 : forall y, y <> op -> y <> cl -> kd h2 y = kd h0 y).
  { intros y H1 H2. rewrite Kn2 by exact H2. apply Kn1. exact H1. }
  assert (W2 : HWF h2) by (eapply hwf_same_tree; [|exact W0]; repeat split; assumption).
  set (node := length h2). set (h3 := h2 ++ [fresh (IEmphasis ek)]).
  assert (W3 : HWF h3) by (apply hwf_snoc; exact W2).
  assert (L3 : length h3 = S (length h0)) by (unfold h3; rewrite app_length; cbn; lia).
  pose proof (w_len h0 W0) as Hpos.
  (* the opener is attached *)
  destruct (par h0 op) as [parent|] eqn:EP; [|exfalso; exact (dl_att _ _ _ _ D0 op Hop EP)].
  assert (P3 : forall y, par h3 y = par h0 y) by (intros y; unfold h3; rewrite par_snoc; apply P2).
  assert (C3 : forall y, chl h3 y = chl h0 y) by (intros y; unfold h3; rewrite chl_snoc; apply C2).
  assert (Hoplt : (op < length h3)%nat) by (pose proof (par_lt _ _ _ EP); lia).
  destruct (nth_error_ex_lt h3 op Hoplt) as [opn Hopn].
  assert (Eopn : ipar opn = Some parent).
  { pose proof (P3 op) as X. unfold par at 1 in X. rewrite Hopn in X. congruence. }
  exists opn, parent.
  assert (Hin : In op (chl h0 parent)) by (apply (w_pc h0 W0); exact EP).
  destruct (in_split_nodup op _ Hin (w_nd h0 W0 parent)) as (k1 & k2 & EC & Hk1 & Hk2).
  exists (hd_error k2).
  assert (Enext : i_next h3 op = Ok (hd_error k2)).
  { rewrite (i_next_spec h3 op Hoplt W3). rewrite P3, EP, C3, EC. rewrite next_in_split by exact Hk1. reflexivity. }
  pose proof (hwf_par_lt _ _ _ W0 EP) as Hparlt.
  (* ranks *)
  set (rk' := rk_set (fun y => 2 * rk y)%nat node (2 * rk parent + 1)%nat).
  assert (Hnode : node = length h0) by (unfold node; exact L2).
  assert (R3 : Ranked rk' h3).
  { apply ranked_rk_set; [exact W3| | |].
    - apply ranked_snoc. apply ranked_double. intros x p Hx. apply R0. rewrite <- P2. exact Hx.
    - rewrite P3. destruct (par h0 node) eqn:X; [apply par_lt in X; lia|reflexivity].
    - rewrite C3. destruct (chl h0 node) as [|a t] eqn:X; [reflexivity|].
      assert (Y : In a (chl h0 node)) by (rewrite X; left; reflexivity). apply chl_lt in Y. lia. }
  assert (Hrk2 : forall x, In x k2 -> (rk' node < rk' x)%nat).
  { intros x Hx. assert (Hxp : par h0 x = Some parent) by (apply (w_pc h0 W0); rewrite EC; apply in_app_iff; right; right; exact Hx).
    pose proof (par_lt _ _ _ Hxp) as Hxlt. specialize (R0 _ _ Hxp).
    unfold rk', rk_set. rewrite Nat.eqb_refl. destruct (Nat.eqb_spec x node); lia. }
  fold h0 in Hparlt.
  assert (HC3 : chl h3 parent = (k1 ++ [op]) ++ k2) by (rewrite C3, EC, <- app_assoc; reflexivity).
  assert (Hnl : (node < length h3)%nat) by lia.
  assert (Hnode0 : node <> 0%nat) by lia.
  assert (Hpn3 : par h3 node = None).
  { rewrite P3. destruct (par h0 node) eqn:X; [apply par_lt in X; lia|reflexivity]. }
  assert (HPn : parent <> node) by lia.
  assert (Hfu : (length k2 + 1 <= S (length h3))%nat).
  { pose proof (chl_length_le h0 parent W0) as X. rewrite EC, app_length in X. cbn [length] in X. lia. }
  destruct (move_children_spec rk' (Some cl) node parent k2 (S (length h3)) h3 (k1 ++ [op]) W3 HC3 Hnl Hnode0 Hpn3 HPn R3 Hrk2 Hfu)
    as (h4 & E4 & W4 & SK4 & R4 & F4).
  exists h4. destruct SK4 as [L4 K4].
  assert (Hop4 : par h4 op = Some parent).
  { destruct (F4 op) as [F|[F _]]; [rewrite F, P3; exact EP|contradiction]. }
  destruct (i_insert_after_spec h4 parent op node W4 Hop4) as (h5 & E5 & W5 & (L5 & K5) & Pn5 & Po5); try lia.
  { pose proof (par_lt _ _ _ EP). lia. }
  exists h5. split; [exact E1|]. split; [exact E2|]. split; [exact L2|]. split; [exact Ko2|]. split; [exact Hopn|]. split; [exact Eopn|].
  split; [exact Enext|]. split; [exact E4|]. split; [exact E5|].
  assert (K50 : forall y, (y < length h0)%nat -> kd h5 y = kd h2 y).
  { intros y Hy. rewrite K5, K4. unfold h3. apply kd_snoc_old. lia. }
  assert (K5n : kd h5 node = Some (IEmphasis ek)).
  { rewrite K5, K4. unfold h3, node. apply kd_snoc_new. }
  assert (K5big : forall y, (length h0 < y)%nat -> kd h5 y = None).
  { intros y Hy. destruct (kd h5 y) eqn:X; [apply kd_lt in X; lia|reflexivity]. }
  assert (Par5 : forall y, (y < length h0)%nat -> (par h5 y = None <-> par h0 y = None)).
  { intros y Hy. rewrite Po5 by lia. destruct (F4 y) as [F|[F1 F2]].
    - rewrite F, P3. tauto.
    - rewrite F2. assert (Hyp : par h0 y = Some parent) by (apply (w_pc h0 W0); rewrite EC; apply in_app_iff; right; right; exact F1).
      rewrite Hyp. split; discriminate. }
  assert (Hoplt0 : (op < length h0)%nat) by (eapply par_lt; exact EP).
  assert (Hcllt0 : (cl < length h0)%nat) by (eapply kd_lt; exact Hkc).
  assert (Ko5 : kd h5 op = Some (IDelim (seg_with_stop so (s_start so + (leno - consume))) coo cco (leno - consume) origo cho po no))
    by (rewrite K50 by exact Hoplt0; exact Ko2).
  assert (Kc5 : kd h5 cl = Some (IDelim (seg_with_stop sc (s_start sc + (lenc - consume))) coc ccc (lenc - consume) origc chc pc nc))
    by (rewrite K50 by exact Hcllt0; exact Kc2).
  assert (Kother : forall y, y <> op -> y <> cl -> (y < length h0)%nat -> kd h5 y = kd h0 y).
  { intros y H1 H2 Hy. rewrite K50 by exact Hy. apply Kn02; assumption. }
  (* delimiter-ness is unchanged *)
  assert (DK5 : forall y, isdk h5 y <-> isdk h0 y).
  { intros y. destruct (Nat.lt_ge_cases y (length h0)) as [Hy|Hy].
    - destruct (Nat.eq_dec y op) as [Eo|Eo]; [subst y; split; intros _; eexists; split; try eassumption; reflexivity|].
      destruct (Nat.eq_dec y cl) as [Ec|Ec]; [subst y; split; intros _; eexists; split; try eassumption; reflexivity|].
      unfold isdk. rewrite Kother by assumption. tauto.
    - split; intros (k & Hk & Hdk).
      + destruct (Nat.eq_dec y node) as [En|En].
        * subst y. rewrite K5n in Hk. inversion Hk; subst k. discriminate.
        * rewrite K5big in Hk by lia. discriminate.
      + apply kd_lt in Hk. lia. }
  split.
  { constructor; cbn [i_h cx_h i_dfirst i_dlast].
    - exact W5.
    - intros y k Hy. destruct (Nat.lt_ge_cases y (length h0)) as [Hlt|Hge].
      + destruct (Nat.eq_dec y op) as [Eo|Eo].
        { subst y. rewrite Ko5 in Hy. inversion Hy; subst k. pose proof (K0 op _ Hko) as X. cbn in X |- *.
          cbn [seg_with_stop mksegp s_start s_stop]. lia. }
        destruct (Nat.eq_dec y cl) as [Ec|Ec].
        { subst y. rewrite Kc5 in Hy. inversion Hy; subst k. pose proof (K0 cl _ Hkc) as X. cbn in X |- *.
          cbn [seg_with_stop mksegp s_start s_stop]. lia. }
        rewrite Kother in Hy by assumption. exact (K0 y k Hy).
      + destruct (Nat.eq_dec y node) as [En|En].
        * subst y. rewrite K5n in Hy. inversion Hy; subst k. exact Logic.I.
        * rewrite K5big in Hy by lia. discriminate.
    - exists rk'. eapply ranked_set_par; [exact R4|exact Pn5| |exact Po5].
      unfold rk', rk_set. rewrite Nat.eqb_refl. destruct (Nat.eqb_spec parent node); lia.
    - eapply DL_frame_gen; [exact D0| | |].
      + intros y p n (s & co & cc & len & orig & ch & Hy). fold h0 in Hy.
        destruct (Nat.eq_dec y op) as [Eo|Eo]; [subst y; rewrite Hko in Hy; inversion Hy; subst; do 6 eexists; exact Ko5|].
        destruct (Nat.eq_dec y cl) as [Ec|Ec]; [subst y; rewrite Hkc in Hy; inversion Hy; subst; do 6 eexists; exact Kc5|].
        do 6 eexists. rewrite Kother; [exact Hy|exact Eo|exact Ec|eapply kd_lt; exact Hy].
      + intros y. apply DK5.
      + intros y Hy. apply Par5. apply isdk_lt. exact Hy. }
  split.
  { constructor; cbn [i_h cx_h i_labels i_bottoms]; try reflexivity.
    - intros y. unfold lv. destruct (Nat.lt_ge_cases y (length h0)) as [Hlt|Hge].
      + destruct (Nat.eq_dec y op) as [Eo|Eo]; [subst y; fold h0; rewrite Ko5, Hko; reflexivity|].
        destruct (Nat.eq_dec y cl) as [Ec|Ec]; [subst y; fold h0; rewrite Kc5, Hkc; reflexivity|].
        fold h0. rewrite Kother by assumption. reflexivity.
      + fold h0. assert (X : kd h0 y = None) by (destruct (kd h0 y) eqn:X; [apply kd_lt in X; lia|reflexivity]). rewrite X.
        destruct (Nat.eq_dec y node) as [En|En]; [subst y; rewrite K5n; reflexivity | rewrite K5big by lia; reflexivity].
    - fold h0. lia.
    - intros y _. apply DK5.
    - intros y Hy _. apply Par5. exact Hy.
    - fold h0. intros x y Hx. destruct (Nat.eq_dec x node) as [Exn|Exn].
      + subst x. rewrite Pn5 in Hx. inversion Hx; subst y. right. exists op. exact EP.
      + rewrite Po5 in Hx by exact Exn. destruct (F4 x) as [F|[_ F]].
        * rewrite F, P3 in Hx. right. eauto.
        * rewrite F in Hx. inversion Hx; subst y. left. lia. }
  split; [exact Ko5|]. split; [exact Kc5|].
  intros y H1 H2. destruct (Nat.lt_ge_cases y (length h0)) as [Hlt|Hge].
  - apply dcoreh_of_kd. apply Kother; assumption.
  - unfold dcoreh. assert (X : kd h0 y = None) by (destruct (kd h0 y) eqn:X; [apply kd_lt in X; lia|reflexivity]). rewrite X.
    destruct (Nat.eq_dec y node) as [En|En]; [subst y; rewrite K5n; reflexivity | rewrite K5big by lia; reflexivity].
Qed.

Lemma closer_loopX_spec b : forall fuel c dl closer,
  DInv c dl -> AllPos (i_h c) dl ->
  match closer with
  | None => (1 <= fuel)%nat
  | Some cl => exists l1 l2, dl = l1 ++ cl :: l2 /\ (2 * S (length l2) + sumlen (i_h c) dl < fuel)%nat
  end ->
  exists c' dl', closer_loopX fuel c closer b = Ok c' /\ DInv c' dl' /\ AllPos (i_h c') dl' /\ dstep c c' /\
    (sumlen (i_h c') dl' <= sumlen (i_h c) dl)%nat.
Proof.
  induction fuel as [|f IH]; intros c dl closer I AP Hcl.
  - destruct closer as [cl|]; [destruct Hcl as (l1 & l2 & _ & X); lia | lia].
  - cbn [closer_loopX]. destruct closer as [cl|].
    2:{ exists c, dl. split; [reflexivity|]. split; [exact I|]. split; [exact AP|]. split; [apply dstep_refl|lia]. }
    destruct Hcl as (l1 & l2 & Edl & Hfuel). subst dl.
    pose proof (di_dl _ _ _ _ I) as D. pose proof (dl_nd _ _ _ _ D) as Hnd. pose proof (dl_seg _ _ _ _ D) as Hseg.
    destruct (dseg_split _ _ _ _ _ _ Hseg) as (sc & c_open & c_close & c_len & c_orig & c_ch & Hkc).
    rewrite (dget_spec _ _ _ _ _ _ _ _ _ _ Hkc). cbn [bind].
    assert (Hcl1 : ~ In cl l1 /\ ~ In cl l2).
    { apply NoDup_remove_2 in Hnd. split; intros X; apply Hnd; apply in_app_iff; tauto. }
    (* moving on to the next closer, in a state whose list still ends with l2 *)
    assert (Hnext : forall c1 la1, DInv c1 (la1 ++ l2) -> AllPos (i_h c1) (la1 ++ l2) -> dstep c c1 ->
              (sumlen (i_h c1) (la1 ++ l2) <= sumlen (i_h c) (l1 ++ cl :: l2))%nat ->
              exists c' dl', closer_loopX f c1 (hd_or l2 None) b = Ok c' /\ DInv c' dl' /\ AllPos (i_h c') dl' /\ dstep c c' /\
                (sumlen (i_h c') dl' <= sumlen (i_h c) (l1 ++ cl :: l2))%nat).
    { intros c1 la1 I1 AP1 S1 SL1.
      destruct (IH c1 (la1 ++ l2) (hd_or l2 None) I1 AP1) as (c' & dl' & E' & I' & AP' & S' & SL').
      - destruct l2 as [|n2 l2']; cbn [hd_or]; [lia|]. exists la1, l2'. split; [reflexivity|]. cbn [length] in Hfuel. lia.
      - exists c', dl'. split; [exact E'|]. split; [exact I'|]. split; [exact AP'|]. split; [eapply dstep_trans; eassumption|lia]. }
    destruct (negb c_close).
    { replace (l1 ++ cl :: l2) with ((l1 ++ [cl]) ++ l2) in * by (rewrite <- app_assoc; reflexivity).
      apply (Hnext c (l1 ++ [cl])); [exact I|exact AP|apply dstep_refl|lia]. }
    (* the opener search *)
    assert (S1 : dseg (i_h c) None l1 (Some cl)).
    { apply dseg_app in Hseg. exact (proj1 Hseg). }
    pose proof (dl_length_le _ _ _ _ D) as Hdll. rewrite app_length in Hdll. cbn [length] in Hdll.
    destruct (find_opener_spec (i_h c) b c_open c_len c_orig c_ch l1 (S (length (i_h c))) false (Some cl) S1) as (found & maybe & Efo & Pfo); [lia|].
    rewrite Efo. cbn [bind].
    destruct found as [[op consume]|].
    2:{ (* no opener *)
      destruct (negb maybe && negb c_open).
      - destruct (rd_step_at src lo c cl l1 l2 I) as (c1 & m & E1 & I1 & St1 & FC1 & _).
        rewrite E1. cbn [bind]. apply (Hnext c1 l1 I1); [|exact St1|apply sumlen_remove; exact FC1].
        intros d Hd. unfold dlen. rewrite FC1. apply AP. apply in_app_iff in Hd. apply in_app_iff. cbn [In]. tauto.
      - cbn [bind]. replace (l1 ++ cl :: l2) with ((l1 ++ [cl]) ++ l2) in * by (rewrite <- app_assoc; reflexivity).
        apply (Hnext c (l1 ++ [cl])); [exact I|exact AP|apply dstep_refl|lia]. }
    (* an opener *)
    destruct Pfo as (Hopl1 & Hcpos & so & coo & cco & leno & origo & cho & po & no & Hko & Econs).
    destruct (in_split _ _ Hopl1) as (la & lb & El1). subst l1.
    assert (Hopcl : op <> cl) by (intros X; subst op; apply (proj1 Hcl1); exact Hopl1).
    assert (Hopdl : In op ((la ++ op :: lb) ++ cl :: l2)) by (apply in_app_iff; left; exact Hopl1).
    assert (Hcldl : In cl ((la ++ op :: lb) ++ cl :: l2)) by (apply in_app_iff; right; left; reflexivity).
    assert (Hlens : (consume <= leno /\ consume <= c_len)%Z).
    { pose proof (allpos_len _ _ _ _ _ _ _ _ _ _ _ AP Hopdl Hko). pose proof (allpos_len _ _ _ _ _ _ _ _ _ _ _ AP Hcldl Hkc).
      rewrite Econs in Hcpos |- *. destruct (calc_consumption_cases _ _ _ _ _ _ Hcpos) as [(E & A1 & A2)|E]; rewrite E; lia. }
    (* the links of the opener *)
    assert (Hno : no = hd_or (lb ++ cl :: l2) None).
    { rewrite <- app_assoc in Hseg. cbn [app] in Hseg. destruct (dseg_split _ _ _ _ _ _ Hseg) as (s1 & co1 & cc1 & len1 & orig1 & ch1 & X).
      rewrite Hko in X. inversion X. reflexivity. }
    destruct (on_match_emph cho consume) as [ek Eek].
    destruct (wrap_specX ek c _ op cl consume _ _ _ _ _ _ _ _ _ _ _ _ _ _ _ _ I Hopdl Hcldl Hopcl Hko Hkc) as
      (h1 & h2 & opn & parent & child & h4 & h5 & E1 & E2 & L2 & Ko2 & Hopn & Eopn & Enext & E4 & E5 & I5 & St5 & Ko5 & Kc5 & Fo5); [lia|lia|].
    rewrite E1. cbn [bind]. rewrite E2. cbn [bind]. cbn [i_h cx_h].
    rewrite (dget_spec _ _ _ _ _ _ _ _ _ _ Ko2). cbn [bind]. rewrite Eek.
    rewrite new_inode_eq. cbn [i_h cx_h].
    rewrite (iget_ok _ _ _ Hopn). cbn [bind]. rewrite Eopn. rewrite Enext. cbn [bind]. rewrite E4. cbn [bind].
    rewrite E5. cbn [bind].
    change (cx_h (cx_h (cx_h c h2) (h2 ++ [fresh (IEmphasis ek)])) h5) with (cx_h c h5).
    set (c5 := cx_h c h5) in *. change h5 with (i_h c5) in Ko5, Kc5, Fo5 |- *. clearbody c5.
    rewrite (dget_spec _ _ _ _ _ _ _ _ _ _ Ko5). cbn [bind]. rewrite Hno.
    assert (Enx : hd_or (lb ++ cl :: l2) None = hd_error (lb ++ [cl])) by (destruct lb; reflexivity). rewrite Enx.
    (* remove the delimiters in between *)
    assert (I5' : DInv c5 ((la ++ [op]) ++ lb ++ cl :: l2)).
    { replace ((la ++ [op]) ++ lb ++ cl :: l2) with ((la ++ op :: lb) ++ cl :: l2); [exact I5|].
      rewrite <- !app_assoc. reflexivity. }
    destruct (remove_between_spec src lo cl lb (S (length (i_h c5))) c5 (la ++ [op]) l2 I5') as (c6 & E6 & I6 & St6 & FC6 & _).
    { pose proof (dl_length_le _ _ _ _ (di_dl _ _ _ _ I5')) as X. rewrite !app_length in X. cbn [length] in X. lia. }
    rewrite E6. cbn [bind].
    pose proof (di_dl _ _ _ _ I6) as D6. pose proof (dl_seg _ _ _ _ D6) as Hseg6.
    assert (Ko6 : exists p6 n6, kd (i_h c6) op = Some (IDelim (seg_with_stop so (s_start so + (leno - consume))) coo cco (leno - consume) origo cho p6 n6)).
    { rewrite <- app_assoc in Hseg6. cbn [app] in Hseg6. pose proof (dseg_split _ _ _ _ _ _ Hseg6) as X.
      do 2 eexists. eapply dget_of_core; [exact X|]. rewrite FC6. eapply dcoreh_kd. exact Ko5. }
    destruct Ko6 as (p6 & n6 & Ko6). rewrite (dget_spec _ _ _ _ _ _ _ _ _ _ Ko6). cbn [bind].
    (* the opener, if used up *)
    assert (H7 : exists c7 la7, (if (leno - consume =? 0)%Z then remove_delimiter c6 op else Ok c6) = Ok c7 /\
               DInv c7 (la7 ++ cl :: l2) /\ dstep c6 c7 /\ (forall y, dcoreh (i_h c7) y = dcoreh (i_h c6) y) /\
               (la7 = la /\ (leno - consume = 0)%Z \/ la7 = la ++ [op] /\ (leno - consume <> 0)%Z)).
    { destruct (Z.eqb_spec (leno - consume) 0) as [Ez|Ez].
      - assert (I6' : DInv c6 (la ++ op :: cl :: l2)) by (rewrite <- app_assoc in I6; exact I6).
        destruct (rd_step_at src lo c6 op la (cl :: l2) I6') as (c7 & m & E7 & I7 & St7 & FC7 & _).
        exists c7, la. split; [exact E7|]. split; [exact I7|]. split; [exact St7|]. split; [exact FC7|]. left. auto.
      - exists c6, (la ++ [op]). split; [reflexivity|]. split; [exact I6|]. split; [apply dstep_refl|]. split; [auto|]. right. auto. }
    destruct H7 as (c7 & la7 & E7 & I7 & St7 & FC7 & Hla7). rewrite E7. cbn [bind].
    pose proof (di_dl _ _ _ _ I7) as D7. pose proof (dl_seg _ _ _ _ D7) as Hseg7.
    assert (Kc7 : kd (i_h c7) cl = Some (IDelim (seg_with_stop sc (s_start sc + (c_len - consume))) c_open c_close (c_len - consume) c_orig c_ch (last_or la7 None) (hd_or l2 None))).
    { pose proof (dseg_split _ _ _ _ _ _ Hseg7) as X. eapply dget_of_core; [exact X|]. rewrite FC7, FC6. eapply dcoreh_kd. exact Kc5. }
    rewrite (dget_spec _ _ _ _ _ _ _ _ _ _ Kc7). cbn [bind].
    (* bookkeeping: cores in state 7 *)
    assert (Fo7 : forall y, y <> op -> y <> cl -> dcoreh (i_h c7) y = dcoreh (i_h c) y).
    { intros y H1 H2. rewrite FC7, FC6. apply Fo5; assumption. }
    assert (Hop7 : dlen (i_h c7) op = Z.to_nat (leno - consume)).
    { unfold dlen. rewrite FC7, FC6. rewrite (dcoreh_kd _ _ _ _ _ _ _ _ _ _ Ko5). reflexivity. }
    assert (Hcl7 : dlen (i_h c7) cl = Z.to_nat (c_len - consume)) by (apply (dlen_of_kd _ _ _ _ _ _ _ _ _ _ Kc7)).
    assert (Hop0 : dlen (i_h c) op = Z.to_nat leno) by (apply (dlen_of_kd _ _ _ _ _ _ _ _ _ _ Hko)).
    assert (Hcl0 : dlen (i_h c) cl = Z.to_nat c_len) by (apply (dlen_of_kd _ _ _ _ _ _ _ _ _ _ Hkc)).
    assert (Hnd' : NoDup (la ++ op :: lb ++ cl :: l2)) by (rewrite <- app_assoc in Hnd; exact Hnd).
    assert (Hla : forall y, In y la -> y <> op /\ y <> cl).
    { intros y Hy. split; intros X; subst y.
      - apply NoDup_remove_2 in Hnd'. apply Hnd'. apply in_app_iff. left. exact Hy.
      - apply (proj1 Hcl1). apply in_app_iff. left. exact Hy. }
    assert (Hl2 : forall y, In y l2 -> y <> op /\ y <> cl).
    { intros y Hy. split; intros X; subst y.
      - apply NoDup_remove_2 in Hnd'. apply Hnd'. apply in_app_iff. right. apply in_app_iff. right. right. exact Hy.
      - apply (proj2 Hcl1). exact Hy. }
    assert (SLa : sumlen (i_h c7) la = sumlen (i_h c) la).
    { apply sumlen_frame. intros y Hy. destruct (Hla y Hy). apply Fo7; assumption. }
    assert (SL2 : sumlen (i_h c7) l2 = sumlen (i_h c) l2).
    { apply sumlen_frame. intros y Hy. destruct (Hl2 y Hy). apply Fo7; assumption. }
    assert (S0 : sumlen (i_h c) ((la ++ op :: lb) ++ cl :: l2) =
                 (sumlen (i_h c) la + Z.to_nat leno + sumlen (i_h c) lb + Z.to_nat c_len + sumlen (i_h c) l2)%nat).
    { rewrite !sumlen_app, !sumlen_cons, Hop0, Hcl0. lia. }
    assert (SLa7 : (sumlen (i_h c7) la7 <= sumlen (i_h c) la + Z.to_nat (leno - consume))%nat).
    { destruct Hla7 as [[-> _]|[-> _]]; [lia|]. rewrite sumlen_app, sumlen_cons, Hop7, SLa. change (sumlen (i_h c7) []) with 0%nat. lia. }
    assert (APla7 : forall d, In d la7 -> (1 <= dlen (i_h c7) d)%nat).
    { intros d Hd. assert (X : In d la \/ (d = op /\ (leno - consume <> 0)%Z)).
      { destruct Hla7 as [[-> _]|[-> Hz]]; [left; exact Hd|]. apply in_app_iff in Hd. destruct Hd as [Hd|[Hd|[]]]; [left; exact Hd|right; auto]. }
      destruct X as [X|[-> Hz]].
      - destruct (Hla d X). unfold dlen. rewrite Fo7 by assumption. apply AP. apply in_app_iff. left. apply in_app_iff. left. exact X.
      - rewrite Hop7. lia. }
    assert (APl2 : forall d, In d l2 -> (1 <= dlen (i_h c7) d)%nat).
    { intros d Hd. destruct (Hl2 d Hd). unfold dlen. rewrite Fo7 by assumption. apply AP. apply in_app_iff. right. right. exact Hd. }
    assert (St07 : dstep c c7) by (eapply dstep_trans; [exact St5|]; eapply dstep_trans; eassumption).
    destruct (Z.eqb_spec (c_len - consume) 0) as [Ez|Ez].
    + (* the closer is used up *)
      destruct (rd_step_at src lo c7 cl la7 l2 I7) as (c8 & m & E8 & I8 & St8 & FC8 & _).
      rewrite E8. cbn [bind].
      destruct (IH c8 (la7 ++ l2) (hd_or l2 None) I8) as (c' & dl' & E' & I' & AP' & S' & SL').
      * intros d Hd. unfold dlen. rewrite FC8. apply in_app_iff in Hd. destruct Hd as [Hd|Hd]; [apply APla7|apply APl2]; exact Hd.
      * rewrite (sumlen_frame (i_h c7) (i_h c8)) by (intros; apply FC8). rewrite sumlen_app, SL2.
        destruct l2 as [|n2 l2']; cbn [hd_or]; [lia|]. exists la7, l2'. split; [reflexivity|].
        rewrite S0 in Hfuel. cbn [length] in Hfuel. lia.
      * exists c', dl'. split; [exact E'|]. split; [exact I'|]. split; [exact AP'|].
        split; [eapply dstep_trans; [exact St07|]; eapply dstep_trans; eassumption|].
        rewrite (sumlen_frame (i_h c7) (i_h c8)) in SL' by (intros; apply FC8). rewrite sumlen_app, SL2 in SL'. rewrite S0. lia.
    + (* the closer stays *)
      destruct (IH c7 (la7 ++ cl :: l2) (Some cl) I7) as (c' & dl' & E' & I' & AP' & S' & SL').
      * intros d Hd. apply in_app_iff in Hd. destruct Hd as [Hd|[Hd|Hd]]; [apply APla7; exact Hd| |apply APl2; exact Hd].
        subst d. rewrite Hcl7. lia.
      * exists la7, l2. split; [reflexivity|]. rewrite sumlen_app, sumlen_cons, SL2, Hcl7. rewrite S0 in Hfuel. lia.
      * exists c', dl'. split; [exact E'|]. split; [exact I'|]. split; [exact AP'|].
        split; [eapply dstep_trans; eassumption|].
        rewrite sumlen_app, sumlen_cons, SL2, Hcl7 in SL'. rewrite S0. lia.
Qed.
End Phase3.

Section Phase4.
Variable src : bytes.
Variable lo : Z.
Notation DInv := (DInv src lo).

Lemma process_delimitersX_spec fuel c dl b :
  DInv c dl -> AllPos (i_h c) dl -> (2 * length (i_h c) + sumlen (i_h c) dl + 3 <= fuel)%nat ->
  exists c' dl', process_delimitersX fuel c b = Ok c' /\ DInv c' dl' /\ AllPos (i_h c') dl' /\ dstep c c' /\
    (sumlen (i_h c') dl' <= sumlen (i_h c) dl)%nat.
Proof.
  intros I AP Hf. unfold process_delimitersX.
  pose proof (di_dl _ _ _ _ I) as D. pose proof (di_wf _ _ _ _ I) as W.
  destruct (i_dlast c) as [last|] eqn:El.
  2:{ exists c, dl. split; [reflexivity|]. split; [exact I|]. split; [exact AP|]. split; [apply dstep_refl|lia]. }
  (* the first closer candidate *)
  assert (Hc : exists closer, match b with
              | BNil => Ok (i_dfirst c)
              | BPtr _ => if is_bottom b last then Ok None
                          else pv <- i_prev (i_h c) last ;; earliest_delim (S (length (i_h c))) (i_h c) pv b None
              end = Ok closer /\ match closer with None => True | Some a => In a dl end).
  { destruct b as [|bp].
    - exists (i_dfirst c). split; [reflexivity|]. rewrite (dl_first _ _ _ _ D). destruct dl; [exact Logic.I|left; reflexivity].
    - destruct (is_bottom (BPtr bp) last); [exists None; auto|].
      assert (Hin : In last dl) by (apply last_error_in; rewrite <- (dl_last _ _ _ _ D); reflexivity).
      destruct (par (i_h c) last) as [P|] eqn:EP; [|exfalso; exact (dl_att _ _ _ _ D last Hin EP)].
      pose proof (par_lt _ _ _ EP) as Hlt. rewrite (i_prev_spec _ _ Hlt W). cbn [bind]. rewrite EP.
      assert (HinP : In last (chl (i_h c) P)) by (apply (w_pc _ W); exact EP).
      destruct (in_split_nodup last _ HinP (w_nd _ W P)) as (l1 & l2 & EC & H1 & H2).
      rewrite EC. rewrite prev_in_split by exact H1.
      pose proof (chl_length_le (i_h c) P W) as HL. rewrite EC, app_length in HL. cbn [length] in HL.
      assert (Hcur : match last_error l1 with
                     | None => (1 <= S (length (i_h c)))%nat
                     | Some x0 => exists P0 l3 l4, par (i_h c) x0 = Some P0 /\ chl (i_h c) P0 = l3 ++ x0 :: l4 /\ ~ In x0 l3 /\ (length l3 + 2 <= S (length (i_h c)))%nat
                     end).
      { destruct (last_error l1) as [y|] eqn:Ely; [|lia].
        assert (EL : exists t, l1 = t ++ [y]).
        { unfold last_error in Ely. destruct (rev l1) as [|z r] eqn:Er; [discriminate|]. inversion Ely; subst z.
          exists (rev r). rewrite <- (rev_involutive l1), Er. reflexivity. }
        destruct EL as [t EL]. subst l1. exists P, t, (last :: l2).
        split; [apply (w_pc _ W); rewrite EC; apply in_app_iff; left; apply in_app_iff; right; left; reflexivity|].
        split; [rewrite EC, <- app_assoc; reflexivity|]. split.
        - pose proof (w_nd _ W P) as Hnd. rewrite EC, <- app_assoc in Hnd. cbn [app] in Hnd.
          apply NoDup_remove_2 in Hnd. intros X. apply Hnd. apply in_app_iff. left. exact X.
        - rewrite app_length in HL. cbn [length] in HL. lia. }
      destruct (earliest_delim_spec src lo (BPtr bp) c dl I (S (length (i_h c))) (last_error l1) None Hcur Logic.I) as (r & Er & Hr).
      exists r. split; [|exact Hr]. rewrite <- Er. destruct (last_error l1); reflexivity. }
  destruct Hc as (closer & Ec & Hcl). rewrite Ec. cbn [bind].
  destruct closer as [cl|].
  - destruct (in_split _ _ Hcl) as (l1 & l2 & Edl).
    pose proof (dl_length_le _ _ _ _ D) as Hdll.
    destruct (closer_loopX_spec src lo b fuel c dl (Some cl) I AP) as (c1 & dl1 & E1 & I1 & AP1 & S1 & SL1).
    { exists l1, l2. split; [exact Edl|]. rewrite Edl, app_length in Hdll. cbn [length] in Hdll. lia. }
    rewrite E1. cbn [bind].
    destruct (clear_delimiters_spec src lo c1 dl1 b I1) as (c2 & dl2 & E2 & I2 & S2 & SL2 & SUB2).
    exists c2, dl2. split; [exact E2|]. split; [exact I2|]. split.
    + intros d Hd. destruct (SUB2 d Hd) as [X1 X2]. unfold dlen. rewrite X2. apply AP1. exact X1.
    + split; [eapply dstep_trans; eassumption|lia].
  - destruct (clear_delimiters_spec src lo c dl b I) as (c2 & dl2 & E2 & I2 & S2 & SL2 & SUB2).
    exists c2, dl2. split; [exact E2|]. split; [exact I2|]. split.
    + intros d Hd. destruct (SUB2 d Hd) as [X1 X2]. unfold dlen. rewrite X2. apply AP. exact X1.
    + split; [exact S2|lia].
Qed.
End Phase4.
