(* The driver of model/HeadingOpts.v with automatic heading ids only, in lockstep with the driver of
   the default parser and the invariant of proofs/ParseBlocksRange*.v, part C: the loop over the opened
   blocks, the outer loops, the end of the block phase. *)
Require Import GM.model.Base GM.model.Util GM.model.Reader GM.model.ReaderSpec GM.model.Blocks GM.model.ListItem
               GM.model.LeafBlocks GM.model.CodeBlock GM.model.LinkDest GM.model.Regex GM.model.HtmlWriter
               GM.model.Html GM.model.HtmlSpec GM.model.Attr GM.model.Ids GM.model.BlockParse GM.model.InlineParse GM.model.HeadingOpts.
Require Import GM.proofs.MiscProofs GM.proofs.ReaderProofs GM.proofs.BlockRangeProofs GM.proofs.ParseInv GM.proofs.IdsProofs
               GM.proofs.ParseBlocksRangeA GM.proofs.ParseBlocksRangeB GM.proofs.ParseBlocksRangeC
               GM.proofs.ParseBlocksRangeD GM.proofs.ParseBlocksRangeE GM.proofs.ParseBlocksRangeF
               GM.proofs.ParseBlocksRangeG GM.proofs.ParseBlocksRangeH GM.proofs.ParseBlocksRangeI GM.proofs.ParseBlocksRangeJ
               GM.proofs.ParseBlocksRangeL GM.proofs.ParseBlocksRangeM GM.proofs.ParseBlocksRangeN GM.proofs.ParseBlocksRangeP.
Require Import GM.proofs.HeadingOptsEqDefs GM.proofs.HeadingOptsEqHp GM.proofs.HeadingOptsEqFrame
               GM.proofs.HeadingOptsEqBlk GM.proofs.HeadingOptsEqDrvA GM.proofs.HeadingOptsEqDrvB.
From Coq Require Import List ZArith NArith Bool Lia Sorted.
Import ListNotations.
Open Scope Z_scope.

Section D.
Variable hc : hcfg.
Hypothesis Hattr : h_attr hc = false.
Hypothesis Hauto : h_autoid hc = true.
Variable space_table punct_table : list N.
Variable norm : bytes -> bytes.
Variable re_t1o re_t1c re_t2 re_t3 re_t4 re_t5 re_t6 re_t7 : re.
Variable allowed_tags : list bytes.
Variable utf8len_table : list N.
Variable spaces : bytes.
Variable src : bytes.
Hypothesis sp32 : is_space space_table 32%N = true.
Hypothesis Hsrc : bytes_ok src.
Set Default Proof Using "All".

Notation CC f := (f space_table punct_table norm re_t1o re_t1c re_t2 re_t3 re_t4 re_t5 re_t6 re_t7 allowed_tags src sp32) (only parsing).
Notation CE f := (f space_table punct_table norm re_t1o re_t1c re_t2 re_t3 re_t4 re_t5 re_t6 re_t7 allowed_tags src sp32) (only parsing).
Notation CJ f := (f space_table punct_table norm re_t1o re_t1c re_t2 re_t3 re_t4 re_t5 re_t6 re_t7 allowed_tags src sp32 Hsrc) (only parsing).
Notation CD f := (f hc Hattr Hauto space_table punct_table norm re_t1o re_t1c re_t2 re_t3 re_t4 re_t5 re_t6 re_t7 allowed_tags
                    utf8len_table spaces src sp32 Hsrc) (only parsing).
Notation SInv := (SInv space_table src).
Notation OInv := (OInv space_table src).
Notation heapS := (heapS space_table src).
Notation QH := (QH utf8len_table space_table spaces src).
Notation QO := (QO space_table utf8len_table spaces src).
Notation item_guard := (item_guard space_table).
Notation verdict := (verdict space_table).
Notation p_continue := (p_continue space_table re_t1c).
Notation CB := (close_blocks space_table punct_table norm).
Notation CBH := (close_blocksH hc space_table punct_table norm utf8len_table spaces).
Notation OB := (open_blocks space_table punct_table norm re_t1o re_t1c re_t2 re_t3 re_t4 re_t5 re_t6 re_t7 allowed_tags).
Notation OBH := (open_blocksH hc space_table punct_table norm re_t1o re_t1c re_t2 re_t3 re_t4 re_t5 re_t6 re_t7 allowed_tags utf8len_table spaces).
Notation EO := (each_opened space_table punct_table norm re_t1o re_t1c re_t2 re_t3 re_t4 re_t5 re_t6 re_t7 allowed_tags).
Notation EOH := (each_openedH hc space_table punct_table norm re_t1o re_t1c re_t2 re_t3 re_t4 re_t5 re_t6 re_t7 allowed_tags utf8len_table spaces).
Notation LL := (lines_loop space_table punct_table norm re_t1o re_t1c re_t2 re_t3 re_t4 re_t5 re_t6 re_t7 allowed_tags).
Notation LLH := (lines_loopH hc space_table punct_table norm re_t1o re_t1c re_t2 re_t3 re_t4 re_t5 re_t6 re_t7 allowed_tags utf8len_table spaces).
Notation PBL := (parse_blocks_loop space_table punct_table norm re_t1o re_t1c re_t2 re_t3 re_t4 re_t5 re_t6 re_t7 allowed_tags).
Notation PBLH := (parse_blocks_loopH hc space_table punct_table norm re_t1o re_t1c re_t2 re_t3 re_t4 re_t5 re_t6 re_t7 allowed_tags utf8len_table spaces).

Definition sum_rel (r : st + st) (rH : sth + sth) : Prop :=
  match r, rH with
  | inl s, inl x' => hx_s x' = s /\ QH x' []
  | inr s, inr x' => hx_s x' = s /\ QO x'
  | _, _ => False
  end.

(* closeBlocks on the state of the H driver, with the invariant for the opened blocks of the state *)
Lemma close_blocksH_q fl x s' A D N from to : OInv fl (hx_s x) A D N -> to = zlen A -> from = zlen A + zlen D - 1 ->
  QO x -> CB (hx_s x) from to = Ok s' ->
  exists x', CBH x from to = Ok x' /\ hx_s x' = s' /\ QO x' /\ QH x' (A ++ [] ++ N).
Proof.
  intros HO Hto Hfrom HQ H.
  destruct (CJ close_blocks_ok fl (hx_s x) s' A D N from to HO Hto Hfrom H) as [[_ [HO' _]] _].
  destruct (CD close_blocksH_ft fl x s' A D N from to HO Hto Hfrom) as [x' [E1 [E2 HQ']]]; [|exact H|].
  - apply (CD QO_Oeq _ _ (proj1 (proj2 HO))). exact HQ.
  - exists x'. csplit; auto. apply (CD QO_Oeq x' (A ++ [] ++ N)); [rewrite E2; exact HO'|exact HQ'].
Qed.
Lemma QH_same_C x x' E : QH x E -> s_h (hx_s x') = s_h (hx_s x) -> hx_ids x' = hx_ids x -> hx_attrs x' = hx_attrs x -> QH x' E.
Proof. apply (CD QH_same). Qed.

(* the block at index i did not continue *)
Lemma not_cont_caseH_q E i node bp x fuel blank (st1 : list (Z * Z * bool)) r stats' :
  OInv FF (hx_s x) E [] [] -> 0 <= i -> nth_error E (Z.to_nat i) = Some (node, bp) ->
  (forall j y bq, (j < Z.to_nat i)%nat -> nth_error E j = Some (y, bq) -> container (pkind bq) = true) ->
  QO x ->
  (this_parent <- (if i =? 0 then Ok 0%nat
                   else match nth_error E (Z.to_nat (i - 1)) with Some (p, _) => Ok p | None => Panic end) ;;
   last_node <- match nth_error E (Z.to_nat (zlen E - 1)) with Some (p, _) => Ok p | None => Panic end ;;
   o <- OB fuel this_parent blank (hx_s x) ;;
   (let '(res, s) := o in
    if negb (res =? paragraphContinuation)
    then now_last <- match nth_error (c_arr (s_c s)) (Z.to_nat (zlen E - 1)) with Some (p, _) => Ok p | None => Panic end ;;
         s0 <- CB s (if (now_last =? last_node)%nat then zlen E - 1 else zlen E - 1 - 1) i ;;
         Ok (inr s0, st1)
    else Ok (inr s, st1))) = Ok (r, stats') ->
  exists rH,
  (this_parent <- (if i =? 0 then Ok 0%nat
                   else match nth_error E (Z.to_nat (i - 1)) with Some (p, _) => Ok p | None => Panic end) ;;
   last_node <- match nth_error E (Z.to_nat (zlen E - 1)) with Some (p, _) => Ok p | None => Panic end ;;
   o <- OBH fuel this_parent blank x ;;
   (let '(res, x) := o in
    if negb (res =? paragraphContinuation)
    then now_last <- match nth_error (c_arr (s_c (hx_s x))) (Z.to_nat (zlen E - 1)) with Some (p, _) => Ok p | None => Panic end ;;
         x0 <- CBH x (if (now_last =? last_node)%nat then zlen E - 1 else zlen E - 1 - 1) i ;;
         Ok (inr x0, st1)
    else Ok (inr x, st1))) = Ok (rH, stats') /\ sum_rel r rH.
Proof.
  intros HO Hi Enth Hcb HQ H.
  set (k := Z.to_nat i) in *.
  destruct (CJ split_at E k node bp Enth) as [HE [HlenA [HD HAn]]].
  set (A := firstn k E) in *. set (D := skipn k E) in *.
  assert (zlen A = i) as HzA by (unfold zlen; rewrite HlenA; unfold k; lia).
  assert (zlen E = zlen A + zlen D) as HzE by (rewrite HE at 1; apply zlen_app).
  assert (1 <= zlen D) as HzD by (rewrite HD, zlen_cons; pose proof (zlen_nonneg (skipn (S k) E)); lia).
  bind_inv H tp Etp. bind_inv H ln Eln. bind_inv H o Eo. destruct o as [res s3].
  rewrite Etp. cbn [bind]. rewrite Eln. cbn [bind].
  assert (tp = lastid (ids A)) as Htp.
  { destruct (Z.eqb_spec i 0) as [E0|E0].
    - injection Etp as <-. assert (k = 0%nat) as Ek by (unfold k; lia). unfold A. rewrite Ek. reflexivity.
    - destruct (nth_error E (Z.to_nat (i - 1))) as [[p pq]|] eqn:Ep; [|discriminate]. injection Etp as <-.
      assert (k = S (Z.to_nat (i - 1))) as Ek by (unfold k; lia). unfold A. rewrite Ek.
      rewrite (CJ firstn_S_nth _ _ _ Ep). symmetry. apply (CE lastid_ids_snoc). }
  assert (topC A) as Htop.
  { intros E' y bq EA. eapply (Hcb (length E')).
    - apply (f_equal (@length _)) in EA. rewrite app_length in EA. cbn [length] in EA. lia.
    - rewrite <- HAn by (apply (f_equal (@length _)) in EA; rewrite app_length in EA; cbn [length] in EA; lia).
      rewrite EA. apply nth_error_mid_h. }
  rewrite HE in HO. pose proof (CE OInv_split _ _ _ _ HO) as HO2.
  destruct (CJ open_blocks_ok fuel tp blank (hx_s x) A D res s3 HO2 Htop Htp Eo) as [D' [N' [HW3 [HD' [Hpc [Hne Hlen3]]]]]].
  destruct (CD open_blocksH_q fuel tp blank x A D res s3 HO2 Htop Htp HQ Eo) as [x3 [Ex3 [Eh3 HQ3]]].
  rewrite Ex3. cbn [bind].
  destruct (nth_error E (Z.to_nat (zlen E - 1))) as [[lnode lq]|] eqn:Elast; [|discriminate]. injection Eln as <-.
  destruct (Z.eqb_spec res paragraphContinuation) as [Eres|Eres]; cbn [negb] in H |- *.
  - injection H as <- <-. eexists. split; [reflexivity|]. cbn [sum_rel]. auto.
  - bind_inv H nl Enl. bind_inv H s4 Ec. injection H as <- <-. rewrite Eh3, Enl. cbn [bind].
    subst s3.
    destruct HD' as [->|[-> [x0 [EDx [Hxn Harr]]]]].
    + destruct HW3 as [HS3 [HO3 Hu3]].
      assert (nth_error (c_arr (s_c (hx_s x3))) (Z.to_nat (zlen E - 1)) = Some (lnode, lq)) as Enow.
      { rewrite (CJ Oeq_nth _ _ _ HO3).
        - rewrite app_assoc, <- HE. rewrite nth_error_app1; [exact Elast|]. apply nth_some_lt in Elast. exact Elast.
        - rewrite app_assoc, <- HE, app_length. apply nth_some_lt in Elast. lia. }
      rewrite Enow in Enl. injection Enl as <-. rewrite Nat.eqb_refl in Ec |- *.
      destruct (close_blocksH_q WW x3 s4 A D N' (zlen E - 1) i (conj HS3 (conj HO3 Hu3)) ltac:(lia) ltac:(lia) HQ3 Ec)
        as [x4 [Ex4 [Eh4 [HQ4 _]]]].
      rewrite Ex4. cbn [bind]. eexists. split; [reflexivity|]. cbn [sum_rel]. auto.
    + assert (zlen D = 1) as HzD1 by (rewrite EDx; reflexivity).
      assert ((node, bp) = (x0, PParagraph)) as Enx by (rewrite HD in EDx; injection EDx as ? ?; congruence).
      assert (Z.to_nat (zlen E - 1) = k) as Ekl by (unfold k; lia).
      rewrite Ekl in *. rewrite Enth in Elast. injection Elast as <- <-. injection Enx as -> ->.
      destruct HW3 as [HS3 [HO3 Hu3]].
      destruct N' as [|[y yq] N''].
      * exfalso. rewrite (Harr eq_refl) in Enl. destruct HO as [_ [HOs _]].
        rewrite (CJ Oeq_nth _ _ k HOs) in Enl.
        2: { rewrite app_nil_r, <- HE. apply nth_some_lt in Enth. exact Enth. }
        rewrite app_nil_r, <- HE, Enth in Enl. injection Enl as <-. rewrite Nat.eqb_refl in Ec.
        unfold close_blocks in Ec. replace (Z.to_nat (zlen E - 1 - i + 1)) with 1%nat in Ec by lia.
        cbn [close_range] in Ec. destruct HO3 as [HO3 _]. rewrite HO3 in Ec. cbn [app] in Ec. rewrite app_nil_r in Ec.
        replace (zlen A <=? zlen E - 1) with true in Ec by lia. rewrite orb_true_r in Ec. discriminate.
      * assert (nth_error (c_arr (s_c (hx_s x3))) k = Some (y, yq)) as Enow.
        { rewrite (CJ Oeq_nth _ _ _ HO3).
          - cbn [app]. rewrite <- HlenA. apply nth_error_mid_h.
          - cbn [app]. rewrite app_length. cbn [length]. lia. }
        rewrite Enow in Enl. injection Enl as <-.
        assert (y <> x0) as Hyx by (intros ->; apply Hxn; left; reflexivity).
        apply Nat.eqb_neq in Hyx. rewrite Hyx in Ec |- *.
        destruct (close_blocksH_q WW x3 s4 A [] ((y, yq) :: N'') (zlen E - 1 - 1) i (conj HS3 (conj HO3 Hu3)) ltac:(lia))
          as [x4 [Ex4 [Eh4 [HQ4 _]]]]; [rewrite zlen_nil; lia|exact HQ3|exact Ec|].
        rewrite Ex4. cbn [bind]. eexists. split; [reflexivity|]. cbn [sum_rel]. auto.
Qed.

(* ---------- the loop over the opened blocks ---------- *)
Lemma each_openedH_q E : forall fuel i fl x stats r stats',
  OInv fl (hx_s x) E [] [] -> (i <= zlen E - 1 -> fl = FF) -> 0 <= i ->
  (i <= zlen E - 1 -> forall j y bq, (j < Z.to_nat i)%nat -> nth_error E j = Some (y, bq) -> container (pkind bq) = true) ->
  (forall node, nth_error E (Z.to_nat i) = Some (node, PListItem) -> item_guard (hx_s x) node) ->
  QO x ->
  EO fuel E 0%nat i (zlen E - 1) stats (hx_s x) = Ok (r, stats') ->
  exists rH, EOH fuel E 0%nat i (zlen E - 1) stats x = Ok (rH, stats') /\ sum_rel r rH.
Proof.
  induction fuel as [|f IH]; intros i fl x stats r stats' HO Hfl Hi Hcb Hig HQ H; [discriminate|].
  cbn [each_opened] in H. cbn [each_openedH]. destruct (Z.ltb_spec (zlen E - 1) i) as [Hend|Hin].
  - injection H as <- <-. eexists. split; [reflexivity|]. cbn [sum_rel]. auto.
  - specialize (Hfl Hin). subst fl. specialize (Hcb Hin).
    destruct (nth_error E (Z.to_nat i)) as [[node bp]|] eqn:Enth; [|discriminate].
    bind_inv H y Ex. destruct y as [[s1 line] sg]. rewrite Ex. cbn [bind].
    pose proof HO as [HS [HOe Hu]].
    destruct (CC peek_s_ok _ _ _ _ _ _ _ HS Ex) as [HS1 [Eh1 [Ec1 [Ep1 [Esg [El [Ein1 Esrc1]]]]]]].
    pose proof (CC peek_s_rkey _ _ _ _ (proj1 (proj1 HS)) Ex) as Ek1.
    assert (OInv FF s1 E [] []) as HO1 by (eapply (CJ OInv_same); [exact HO|exact HS1|congruence|congruence]).
    assert (QO (sth_s x s1)) as HQ1 by (apply (CD QO_same); [exact HQ|exact Eh1|congruence|congruence]).
    destruct line as [line|].
    2: { (* end of the source: everything is closed *)
      bind_inv H s2 Ec. injection H as <- <-.
      pose proof (CE OInv_split FF s1 [] E HO1) as HO1'.
      destruct (close_blocksH_q FF (sth_s x s1) s2 [] E [] (zlen E - 1) 0 HO1' eq_refl ltac:(rewrite zlen_nil; lia) HQ1 Ec)
        as [x2 [Ex2 [Eh2 [_ HQ2]]]].
      rewrite Ex2. cbn [bind]. eexists. split; [reflexivity|]. cbn [sum_rel]. unfold advance_line_h. cbn [hx_s sth_s].
      split; [rewrite Eh2; reflexivity|]. eapply QH_same_C; [exact HQ2|reflexivity|reflexivity|reflexivity]. }
    destruct (peeked_some _ _ El line eq_refl) as [Hir _].
    assert (In (node, bp) (E ++ [] ++ [])) as Hin' by (rewrite app_nil_r; eapply nth_error_In; exact Enth).
    destruct (CE SInv_entry _ _ _ _ _ _ _ HS1 Hin') as [nn [Enn [Knn _]]].
    bind_inv H isp Eisp. bind_inv H c Ec. destruct c as [[s2 cont] kids].
    cbn [hx_s sth_s]. rewrite Eisp. cbn [bind].
    unfold is_paragraph, hget in Eisp. rewrite Enn in Eisp. cbn [bind] in Eisp. injection Eisp as <-.
    (* Continue of the block, on the state of the H driver *)
    assert (exists x2,
      (if negb (bkind_eqb (bk nn) BParagraph)
       then y <- p_continue bp s1 node ;; (let '(s, cont, kids) := y in Ok (sth_s (sth_s x s1) s, cont, kids))
       else Ok (sth_s x s1, false, false)) = Ok (x2, cont, kids) /\ hx_s x2 = s2 /\
      (c_arr (s_c s2) = c_arr (s_c s1) -> c_len (s_c s2) = c_len (s_c s1) -> QO x2)) as [x2 [Ec2 [Eh2 HQ2]]].
    { destruct (bkind_eqb (bk nn) BParagraph); cbn [negb] in Ec |- *.
      - injection Ec as <- <- <-. eexists. split; [reflexivity|]. split; [reflexivity|]. intros _ _. exact HQ1.
      - bind_inv Ec y Ey. destruct y as [[s2' c2'] k2']. injection Ec as <- <- <-. rewrite Ey. cbn [bind].
        eexists. split; [reflexivity|]. split; [reflexivity|]. intros Ea El'.
        apply (CD QO_hstep); cbn [hx_s sth_s]; auto.
        + eapply p_continue_hstep; eassumption.
        + eapply (CD closed_SInv). exact HS1. }
    rewrite Ec2. cbn [bind].
    assert (c_arr (s_c s2) = c_arr (s_c s1) /\ c_len (s_c s2) = c_len (s_c s1) /\
            (cont = false -> SInv FF s2 E [] []) /\
            (cont = true -> kids = container (pkind bp) /\ (if container (pkind bp) then SInv FF s2 E [] [] else SInv WW s2 E [] []) /\
                            (bp = PList -> verdict s2 node))) as [Ea2 [El2 [Hcf Hct]]].
    { destruct (bkind_eqb (bk nn) BParagraph); cbn [negb] in Ec.
      - injection Ec as <- <- <-. csplit; auto. discriminate.
      - bind_inv Ec y Ey. destruct y as [[s2' c2'] k2']. injection Ec as <- <- <-.
        assert (r_in_range (s_r s1) = true) as Hir1 by congruence.
        destruct (CE p_continue_ok bp s1 node s2' c2' k2' E [] [] HS1 Hin' Hir1) as [[Ea [El' [Hf Ht]]] [Hk Hv]]; [|exact Ey|].
        + intros ->. eapply (CJ item_guard_eq); [exact Eh1|exact Ek1|]. apply Hig. reflexivity.
        + csplit; auto. intros Hc. csplit; [exact Hk|apply Ht; exact Hc|intros Eb; apply Hv; assumption]. }
    specialize (HQ2 Ea2 El2). subst s2.
    destruct cont.
    + destruct (Hct eq_refl) as [-> [HS2 Hv]].
      destruct (container (pkind bp)) eqn:Kc; cbn [andb] in H |- *.
      * assert (OInv FF (hx_s x2) E [] []) as HO2 by (eapply (CJ OInv_same); [exact HO1|exact HS2|congruence|congruence]).
        destruct (Z.eqb_spec i (zlen E - 1)) as [Elast|Elast].
        -- (* blocks are opened below the last opened block *)
           bind_inv H o Eo. destruct o as [res s3]. injection H as <- <-. cbn [snd].
           assert (exists E', E = E' ++ [(node, bp)]) as [E' EE].
           { destruct (CC exists_last_or_nil E) as [->|[E' [e EE]]]; [destruct (Z.to_nat i); discriminate|].
             exists E'. rewrite EE in Enth. replace (Z.to_nat i) with (length E') in Enth.
             - rewrite nth_error_mid_h in Enth. congruence.
             - rewrite EE in Elast. unfold zlen in Elast. rewrite app_length in Elast. cbn [length] in Elast. lia. }
           assert (topC E) as Htop.
           { intros E'' y bq EE'. rewrite EE in EE'. apply app_inj_tail in EE'. destruct EE' as [_ EE']. injection EE' as <- <-. exact Kc. }
           assert (node = lastid (ids E)) as Hpar by (rewrite EE; symmetry; apply (CE lastid_ids_snoc)).
           pose proof (CE OInv_split FF (hx_s x2) E [] ltac:(rewrite app_nil_r; exact HO2)) as HO2'.
           destruct (CD open_blocksH_q _ node _ x2 E [] res s3 HO2' Htop Hpar HQ2 Eo) as [x3 [Ex3 [Eh3 HQ3]]].
           rewrite Ex3. cbn [bind snd]. eexists. split; [reflexivity|]. cbn [sum_rel]. auto.
        -- (* on to the next opened block *)
           eapply (IH (i + 1) FF); [exact HO2|reflexivity|lia| | |exact HQ2|exact H].
           ++ intros _ j y bq Hj Ej. destruct (Nat.eq_dec j (Z.to_nat i)) as [->|Hne].
              ** rewrite Enth in Ej. injection Ej as <- <-. exact Kc.
              ** eapply Hcb; [|exact Ej]. lia.
           ++ intros node' Enth'. replace (Z.to_nat (i + 1)) with (S (Z.to_nat i)) in Enth' by lia.
              pose proof (CE SInv_spine _ _ _ HS2) as Hsp.
              assert (Adj (0%nat :: ids E) node node') as Hadj.
              { apply Adj_cons. right. eapply (CJ nth_adj); eapply (CJ ids_nth); eassumption. }
              destruct (Hsp _ _ Hadj) as [np [Enp Hlc]]. apply last_id_in in Hlc.
              pose proof HS2 as [_ HH2]. pose proof (hi_heap _ _ _ _ _ _ _ _ HH2) as HhS.
              destruct (hs_K _ _ _ HhS _ _ _ Enp Hlc) as [nc [Enc Pnc]].
              assert (In (node', PListItem) (E ++ [] ++ [])) as Hin2 by (rewrite app_nil_r; eapply nth_error_In; exact Enth').
              destruct (CE SInv_entry _ _ _ _ _ _ _ HS2 Hin2) as [nc' [Enc' [Knc _]]]. assert (nc' = nc) by congruence. subst nc'.
              pose proof (hs_item _ _ _ HhS _ _ _ _ Enp Hlc Enc Knc) as Knp.
              destruct (CE SInv_entry _ _ _ _ _ _ _ HS2 Hin') as [np' [Enp' [Knp' _]]]. assert (np' = np) by congruence. subst np'.
              assert (bp = PList) as -> by (destruct bp; cbn [pkind] in *; congruence).
              intros n p En Pn. assert (n = nc) by congruence. subst n. assert (p = node) by congruence. subst p. apply Hv. reflexivity.
      * (* a leaf block has continued: it is the last opened block *)
        assert (i = zlen E - 1) as Hlast.
        { destruct (CC exists_last_or_nil E) as [EE|[E' [e EE]]]; [rewrite EE in Enth; destruct (Z.to_nat i); discriminate|].
          pose proof HS1 as [_ HH1].
          assert (node = fst e) as Hne.
          { eapply (CC leaf_entry_top) with (A := E) (D := []); [exact (hi_heap _ _ _ _ _ _ _ _ HH1)|exact (hi_open _ _ _ _ _ _ _ _ HH1)|rewrite app_nil_r; exact EE| |exact Enn|].
            - rewrite app_nil_r. eapply in_ids. eapply nth_error_In. exact Enth.
            - rewrite Knn. exact Kc. }
          pose proof (os_nodup _ _ _ _ _ _ (hi_open _ _ _ _ _ _ _ _ HH1)) as Hnd. rewrite app_nil_r in Hnd.
          assert (Z.to_nat i = length E') as Hidx.
          { eapply (CJ nodup_nth_eq); [exact Hnd|eapply (CJ ids_nth); exact Enth|]. rewrite EE, (CC ids_snoc), <- Hne.
            replace (length E') with (length (ids E')) by (unfold ids; apply map_length). apply nth_error_mid_h. }
          rewrite EE. unfold zlen. rewrite app_length. cbn [length]. lia. }
        eapply (IH (i + 1) WW); [|intros Hle; exfalso; lia|lia|intros Hle; exfalso; lia| |exact HQ2|exact H].
        -- eapply (CJ OInv_same); [apply (CE OInv_FW); exact HO1|exact HS2|congruence|congruence].
        -- intros node' Enth'. exfalso. apply nth_some_lt in Enth'. unfold zlen in Hlast. lia.
    + specialize (Hcf eq_refl).
      assert (OInv FF (hx_s x2) E [] []) as HO2 by (eapply (CJ OInv_same); [exact HO1|exact Hcf|congruence|congruence]).
      eapply not_cont_caseH_q; [exact HO2|exact Hi|exact Enth|exact Hcb|exact HQ2|exact H].
Qed.

(* ---------- the loop over the lines of a run of non-blank lines ---------- *)
Lemma lines_loopH_q : forall fuel x stats E r stats', OInv FF (hx_s x) E [] [] -> QO x ->
  LL fuel 0%nat stats (hx_s x) = Ok (r, stats') ->
  exists rH, LLH fuel 0%nat stats x = Ok (rH, stats') /\ sum_rel r rH.
Proof.
  induction fuel as [|f IH]; intros x stats E r stats' HO HQ H; [discriminate|].
  cbn [lines_loop] in H. cbn [lines_loopH]. pose proof HO as [HS [HOe Hu]]. rewrite (CJ Oeq_opened _ _ HOe) in *.
  destruct E as [|e0 E0]; [injection H as <- <-; eexists; split; [reflexivity|]; cbn [sum_rel]; auto|].
  set (E := e0 :: E0) in *. bind_inv H y Ex. destruct y as [r1 stats1].
  assert (EPost space_table src r1) as HP.
  { eapply (CJ each_opened_ok E _ 0 FF); [exact HO|reflexivity|lia| | |exact Ex].
    - intros _ j y bq Hj. cbn in Hj. lia.
    - intros node Enth. exfalso. change (nth_error E (Z.to_nat 0)) with (Some e0) in Enth. injection Enth as Ee0.
      pose proof (CE SInv_spine _ _ _ HS) as Hsp. pose proof HS as [_ HH]. pose proof (hi_heap _ _ _ _ _ _ _ _ HH) as HhS.
      assert (Adj (0%nat :: ids E) 0%nat node) as Hadj.
      { unfold E. rewrite Ee0. cbn [ids map fst]. exists [], (map fst E0). reflexivity. }
      destruct (Hsp _ _ Hadj) as [n0 [En0 Hlc]]. apply last_id_in in Hlc.
      destruct (hs_K _ _ _ HhS _ _ _ En0 Hlc) as [nc [Enc Pnc]].
      assert (In (node, PListItem) (E ++ [] ++ [])) as Hin by (rewrite app_nil_r; unfold E; rewrite Ee0; left; reflexivity).
      destruct (CE SInv_entry _ _ _ _ _ _ _ HS Hin) as [nc' [Enc' [Knc _]]]. assert (nc' = nc) by congruence. subst nc'.
      pose proof (hs_item _ _ _ HhS _ _ _ _ En0 Hlc Enc Knc) as Kn0.
      destruct (hs_root _ _ _ HhS) as [r0 [Er0 [Kr0 _]]]. congruence. }
  destruct (each_openedH_q E (S (length E)) 0 FF x stats r1 stats1) as [rH1 [ErH1 Hrel]]; [exact HO|reflexivity|lia| | |exact HQ|exact Ex|].
  - intros _ j y bq Hj. cbn in Hj. lia.
  - intros node Enth. exfalso. change (nth_error E (Z.to_nat 0)) with (Some e0) in Enth. injection Enth as Ee0.
    pose proof (CE SInv_spine _ _ _ HS) as Hsp. pose proof HS as [_ HH]. pose proof (hi_heap _ _ _ _ _ _ _ _ HH) as HhS.
    assert (Adj (0%nat :: ids E) 0%nat node) as Hadj.
    { unfold E. rewrite Ee0. cbn [ids map fst]. exists [], (map fst E0). reflexivity. }
    destruct (Hsp _ _ Hadj) as [n0 [En0 Hlc]]. apply last_id_in in Hlc.
    destruct (hs_K _ _ _ HhS _ _ _ En0 Hlc) as [nc [Enc Pnc]].
    assert (In (node, PListItem) (E ++ [] ++ [])) as Hin by (rewrite app_nil_r; unfold E; rewrite Ee0; left; reflexivity).
    destruct (CE SInv_entry _ _ _ _ _ _ _ HS Hin) as [nc' [Enc' [Knc _]]]. assert (nc' = nc) by congruence. subst nc'.
    pose proof (hs_item _ _ _ HhS _ _ _ _ En0 Hlc Enc Knc) as Kn0.
    destruct (hs_root _ _ _ HhS) as [r0 [Er0 [Kr0 _]]]. congruence.
  - change (zlen (e0 :: E0) - 1) with (zlen E - 1). change (S (length (e0 :: E0))) with (S (length E)) in *.
    unfold E in ErH1 |- *. rewrite ErH1. cbn [bind].
    destruct r1 as [s1|s1]; destruct rH1 as [x1|x1]; cbn [sum_rel] in Hrel; try contradiction; destruct Hrel as [Eh1 HQ1].
    + injection H as <- <-. eexists. split; [reflexivity|]. cbn [sum_rel]. auto.
    + destruct HP as [E' HO']. subst s1. eapply (IH (advance_line_h x1)); [|unfold advance_line_h|exact H].
      * unfold advance_line_h. cbn [hx_s sth_s]. eapply (CJ OInv_advance_line). exact HO'.
      * apply (CD QO_same); [exact HQ1|reflexivity|reflexivity|reflexivity].
Qed.

(* ---------- parseBlocks ---------- *)
Lemma parse_blocks_loopH_q : forall fuel x stats s', OInv FF (hx_s x) [] [] [] -> QO x ->
  PBL fuel 0%nat stats (hx_s x) = Ok s' ->
  exists x', PBLH fuel 0%nat stats x = Ok x' /\ hx_s x' = s' /\ QH x' [].
Proof.
  induction fuel as [|f IH]; intros x stats s' HO HQ H; [discriminate|].
  cbn [parse_blocks_loop] in H. cbn [parse_blocks_loopH]. bind_inv H y Ex. destruct y as [[[r1 sg] lines] ok].
  rewrite Ex. cbn [bind].
  pose proof HO as [HS [HOe Hu]].
  destruct (skip_blank_ok space_table src _ _ _ _ _ _ _ (proj1 HS) Ex) as [HR1 Hle1].
  assert (OInv FF (st_r (hx_s x) r1) [] [] []) as HO1.
  { split; [apply (CC SInv_reader); assumption|]. split; assumption. }
  assert (QO (sth_s x (st_r (hx_s x) r1))) as HQ1 by (apply (CD QO_same); [exact HQ|reflexivity|reflexivity|reflexivity]).
  destruct ok; cbn [negb] in H |- *.
  2: { injection H as <-. eexists. split; [reflexivity|]. split; [reflexivity|].
       apply (CD QO_Oeq _ ([] ++ [] ++ [])) in HQ1; [exact HQ1|]. cbn [hx_s sth_s]. exact (proj1 (proj2 HO1)). }
  bind_inv H o Eo. destruct o as [res s2].
  assert (topC []) as Htop by (intros E' y bq EE; destruct E'; discriminate).
  destruct (CJ open_blocks_ok _ 0%nat _ (st_r (hx_s x) r1) [] [] res s2 HO1 Htop eq_refl Eo) as [D' [N' [HW2 [HD' [_ [Hne _]]]]]].
  assert (D' = []) as -> by (destruct HD' as [->|[-> _]]; reflexivity).
  destruct (CD open_blocksH_q _ 0%nat _ (sth_s x (st_r (hx_s x) r1)) [] [] res s2 HO1 Htop eq_refl HQ1 Eo) as [x2 [Ex2 [Eh2 HQ2]]].
  cbn [hx_s sth_s] in Ex2 |- *. rewrite Ex2. cbn [bind].
  destruct (Z.eqb_spec res newBlocksOpened) as [Er|Er]; cbn [negb] in H |- *.
  - bind_inv H y Ey. destruct y as [r2 stats2]. subst s2.
    assert (OInv FF (advance_line_s (hx_s x2)) ([] ++ N') [] []) as HO3.
    { apply (CE OInv_merge). eapply (CJ OInv_advance_line). exact HW2. }
    pose proof (CJ lines_loop_ok _ _ _ _ _ _ HO3 Ey) as Hr.
    edestruct lines_loopH_q with (x := advance_line_h x2) (E := [] ++ N') as [rH2 [ErH2 Hrel]];
      [exact HO3|unfold advance_line_h; apply (CD QO_same); [exact HQ2|reflexivity|reflexivity|reflexivity]|exact Ey|].
    unfold advance_line_h in ErH2 |- *. cbn [hx_s sth_s] in ErH2 |- *. rewrite ErH2. cbn [bind].
    destruct r2 as [s3|s3]; destruct rH2 as [x3|x3]; cbn [sum_rel] in Hrel; try contradiction; destruct Hrel as [Eh3 HQ3].
    + injection H as <-. eexists. split; [reflexivity|]. auto.
    + subst s3. eapply IH; [exact Hr|exact HQ3|exact H].
  - injection H as <-. eexists. split; [reflexivity|]. split; [exact Eh2|].
    rewrite (Hne Er) in HW2. apply (CD QO_Oeq _ ([] ++ [] ++ [])) in HQ2; [exact HQ2|]. rewrite Eh2. exact (proj1 (proj2 HW2)).
Qed.

(* the block phase with automatic heading ids: it returns whenever the block phase of the default
   parser does, with the same block state, and the invariant holds with no block open *)
Theorem parse_blocksH_ids s :
  parse_blocks space_table punct_table norm re_t1o re_t1c re_t2 re_t3 re_t4 re_t5 re_t6 re_t7 allowed_tags src = Ok s ->
  exists x, parse_blocksH hc space_table punct_table norm re_t1o re_t1c re_t2 re_t3 re_t4 re_t5 re_t6 re_t7 allowed_tags
              utf8len_table spaces src = Ok x /\ hx_s x = s /\ QH x [].
Proof.
  intros H. unfold parse_blocks in H. unfold parse_blocksH.
  set (x0 := {| hx_s := {| s_h := [mknode BDocument 0]; s_c := init_ctx; s_r := new_reader src |}; hx_ids := []; hx_attrs := [] |}).
  apply (parse_blocks_loopH_q _ x0); [exact (CJ init_OInv)| |exact H].
  exists []. cbn [hx_s hx_ids hx_attrs s_h s_c x0 map app]. csplit.
  - eapply hp_ct with (n := mknode BDocument 0); [reflexivity|reflexivity|]. cbn [mknode bch]. constructor.
  - constructor.
  - reflexivity.
  - intros n v [].
Qed.

End D.
