(* Shared definitions of the FootnoteWf*.v files (C05 / C01 / C03 / C04 / C16 for the parser model
   with extension.Footnote, model/FootnoteParse*.v): what the block phase guarantees about the
   Footnote / FootnoteList nodes of its heap (next to the invariant of the core block phase,
   ParseBlocksRangeB.heapS / Jinv), and the invariant of the footnote data the inline phase
   threads through the blocks. *)
Require Import GM.model.Base GM.model.Util GM.model.Reader GM.model.HtmlWriter GM.model.Html GM.model.HtmlSpec
               GM.model.BlockParse GM.model.InlineParse GM.model.FootnoteX
               GM.model.FootnoteParseBlock GM.model.FootnoteParseInline GM.model.FootnoteParse.
Require Import GM.proofs.ParseInv GM.proofs.ParseBlocksRangeA GM.proofs.ParseBlocksRangeB GM.proofs.FootnoteProofs.
From Coq Require Import List ZArith Lia Bool.
Import ListNotations.
Open Scope Z_scope.

(* ---------- the block heap ---------- *)
(* every node written with the kind of a block quote is a block quote (b_i1 = 0), a Footnote that
   has not been referenced yet and has a label segment (b_i1 = 1), or THE FootnoteList of the
   parse context (b_i1 = 2) *)
Definition fn_nodes_ok (h : heap) (lst : option nat) : Prop :=
  forall i n, nth_error h i = Some n -> bk n = BBlockquote ->
    b_i1 n = 0 \/
    (b_i1 n = 1 /\ b_i2 n = -1 /\ exists sg, b_seg n = Some sg) \/
    (b_i1 n = 2 /\ lst = Some i).
(* the FootnoteList of the context is a node of the heap, it has a parent, and its children are Footnote nodes *)
Definition fn_list_ok (h : heap) (lst : option nat) : Prop :=
  forall l, lst = Some l ->
    exists ln, nth_error h l = Some ln /\ is_fnlist_node ln = true /\ bpar ln <> None /\
      forall c, In c (bch ln) -> exists cn, nth_error h c = Some cn /\ is_footnote_node cn = true.

Section Blk.
Variable space_table : list N.
Variable src : bytes.
(* what the block phase of the footnote model establishes (proofs/FootnoteWfBlk.v) *)
Definition BlkFinal (x : stf) : Prop :=
  heapS space_table src (s_h (bf_s x)) /\ Jinv src (s_h (bf_s x)) [] /\ refs_ok (c_refs (s_c (bf_s x))) /\
  fn_nodes_ok (s_h (bf_s x)) (bf_list x) /\ fn_list_ok (s_h (bf_s x)) (bf_list x).
End Blk.

(* ---------- the footnote data of the inline phase ---------- *)
(* without a FootnoteList nothing is ever numbered; with one, the numbers handed out so far are
   1 .. count, each to one definition (FootnoteProofs.Inv), and every FootnoteLink carries one *)
Definition FSI (fs : fstate) : Prop :=
  match fs_defs fs with
  | None => fs_count fs = 0 /\ fs_links fs = []
  | Some defs => Inv defs (fs_count fs) /\ forall i, In i (fs_links fs) -> 1 <= i <= fs_count fs
  end.
(* the footnote data grows: same presence of the list, same number of definitions with the same
   labels, the link list is extended *)
Definition fs_le (a b : fstate) : Prop :=
  (fs_defs a = None <-> fs_defs b = None) /\
  (forall da db, fs_defs a = Some da -> fs_defs b = Some db -> map d_ref db = map d_ref da) /\
  exists more, fs_links b = fs_links a ++ more.

(* the FootnoteLink nodes of a tree: (Index, position in the link list) *)
Fixpoint link_nodes (t : tree) {struct t} : list (Z * Z) :=
  match t with
  | Node k _ _ kids =>
    (match k with KFootnoteLink i _ s => [(i, s)] | _ => [] end) ++
    (fix go (l : list tree) : list (Z * Z) := match l with [] => [] | x :: r => link_nodes x ++ go r end) kids
  end.
(* no Footnote / FootnoteList / FootnoteBacklink node in a tree *)
Definition not_fn_block (k : kind) : bool :=
  match k with KFootnote _ | KFootnoteList | KFootnoteBacklink _ _ _ => false | _ => true end.
