(* Helper file 3 for TypoDefWfTotBlkOpenA.v: the head of one round of open_blocks_loopD (the port of
   ParseBlocksTotalOpen.round_head, with the facts about BlockOffset / BlockIndent the definition list
   parsers need) and the dispatch list candidatesD. *)
Require Import GM.model.Base GM.model.Util GM.model.Reader GM.model.ReaderSpec GM.model.Blocks GM.model.ListItem
               GM.model.LeafBlocks GM.model.CodeBlock GM.model.LinkDest GM.model.Regex GM.model.BlockParse
               GM.model.TypoDefParseD.
Require Import GM.proofs.ReaderProofs GM.proofs.BlocksProofs
               GM.proofs.ParseBlocksTotalReader GM.proofs.ParseBlocksTotalDefs GM.proofs.ParseBlocksTotalSpec
               GM.proofs.ParseBlocksTotalSt GM.proofs.ParseBlocksTotalShape GM.proofs.ParseBlocksTotalLeaf
               GM.proofs.ParseBlocksTotalOpen
               GM.proofs.TypoDefWfTotBlkDefs GM.proofs.TypoDefWfTotBlkSpec GM.proofs.TypoDefWfTotBlkOpenI
               GM.proofs.TypoDefWfTotBlkOpenAI GM.proofs.TypoDefWfTotBlkOpenA1.
From Coq Require Import ZArith Lia List Bool.
Import ListNotations.
Open Scope Z_scope.

(* the dispatch list of a round *)
Definition candsD (l : bytes) (pos : Z) : list bparserD :=
  if pos <? zlen l then candidatesD true (nth_byte l pos) else map DCore free_parsers.

Definition colon (l : bytes) (pos : Z) : bool := (pos <? zlen l) && N.eqb (nth_byte l pos) 58.

Lemma candsD_core l pos : colon l pos = false -> candsD l pos = map DCore (cands l pos).
Proof.
  unfold colon, candsD, cands, candidatesD. intros H. destruct (pos <? zlen l); [|reflexivity].
  cbn [andb] in H. rewrite H. reflexivity.
Qed.
Lemma candsD_colon l pos : colon l pos = true ->
  candsD l pos = [DDefList; DDefDesc; DCore PCodeBlock; DCore PParagraph] /\ cands l pos = free_parsers.
Proof.
  unfold colon, candsD, cands, candidatesD. intros H. apply andb_true_iff in H. destruct H as [H1 H2].
  rewrite H1. apply N.eqb_eq in H2. rewrite H2. split; reflexivity.
Qed.

(* a line that starts with ':' is not blank *)
Lemma DLine_view s : DLine s -> exists r, sview s = 58%N :: r.
Proof.
  intros (_ & _ & _ & Hb & Hl). destruct (sview s) as [|c r]; [unfold zlen in Hl; cbn in Hl; lia|].
  unfold nth_byte in Hb. cbn in Hb. subst c. eauto.
Qed.

Section S.
Variable space_table punct_table : list N.
Variable norm : bytes -> bytes.
Variable re_t1o re_t1c re_t2 re_t3 re_t4 re_t5 re_t6 re_t7 : re.
Variable allowed_tags : list bytes.
Variable src : bytes.
Hypothesis tbl : TblOK space_table.
Notation SI := (SI space_table src).
Notation TPD := (try_parsersD space_table punct_table norm re_t1o re_t2 re_t3 re_t4 re_t5 re_t6 re_t7 allowed_tags).
Notation OBLD := (open_blocks_loopD true space_table punct_table norm re_t1o re_t2 re_t3 re_t4 re_t5 re_t6 re_t7 allowed_tags).
Notation isb := (Reader.is_blank space_table).

Lemma DLine_nonblank s : DLine s -> isb (sview s) = false.
Proof using tbl. intros H. destruct (DLine_view s H) as [r ->]. cbn [Reader.is_blank]. rewrite tbl. reflexivity. Qed.

(* the head of one round: the line is peeked, BlockOffset / BlockIndent are set *)
Lemma round_headD f parent blank cont res s : SI s ->
  exists s3, SI s3 /\ dcl s s3 /\ c_skip_list (s_c s3) = c_skip_list (s_c s) /\
    (((~ sin s \/ exists r, sview s = 10%N :: r) /\ OBLD (S f) parent blank cont res s = Ok (res, cont, s3))
     \/
     (sin s /\ (forall r, sview s <> 10%N :: r) /\ BoffOK s3 /\ OffOK s3 /\
      exists w pos, indent_width (sview s) (soff s) = (w, pos) /\
        (zlen (sview s) <= w \/ (c_boff (s_c s3) = pos /\ c_bind (s_c s3) = w)) /\
        OBLD (S f) parent blank cont res s =
          (t <- TPD (candsD (sview s) pos) parent blank cont res w s3 ;;
           match t with
           | TRetry parent' cont' res' s' => OBLD f parent' blank cont' res' s'
           | TDone res' s' => Ok (res', cont, s')
           end))).
Proof using tbl.
  intros HS. cbn [open_blocks_loopD].
  destruct (peek_line_s_ok _ _ s HS) as [s1 (E1 & S1 & C1 & _)]. rewrite E1. cbn [bind]. cbv beta iota.
  destruct (line_offset_s_ok _ _ s1 S1) as [s2 (E2 & S2 & C2 & _)]. rewrite (scache_off _ _ C1) in E2.
  rewrite E2. cbn [bind]. cbv beta iota.
  pose proof (scache_trans _ _ _ C1 C2) as (CH & CC & CP).
  assert (HD : forall o i, dcl s (st_c s2 (cset_off (s_c s2) o i)) /\ SI (st_c s2 (cset_off (s_c s2) o i)) /\
                           c_skip_list (s_c (st_c s2 (cset_off (s_c s2) o i))) = c_skip_list (s_c s)).
  { intros o i. csplit.
    - unfold dcl. cbn [st_c s_h s_c s_r cset_off c_arr c_len c_fence c_tmp_para]. rewrite CH, CC. csplit; auto.
    - apply SI_set_c; [exact S2|]. apply CInv_set_off, (si_c _ _ _ S2).
    - cbn [st_c s_c cset_off c_skip_list]. rewrite CC. reflexivity. }
  destruct (r_in_range (s_r s)) eqn:Hin.
  - cbn [line_of]. destruct (indent_width (sview s) (soff s)) as [w pos] eqn:Eiw. cbv zeta.
    match goal with |- context [st_c s2 ?c] => set (c3 := c) end.
    assert (H3 : dcl s (st_c s2 c3) /\ SI (st_c s2 c3) /\ c_skip_list (s_c (st_c s2 c3)) = c_skip_list (s_c s)).
    { unfold c3. destruct (zlen (sview s) <=? w); apply HD. }
    destruct H3 as (D3 & S3 & K3).
    exists (st_c s2 c3). split; [exact S3|]. split; [exact D3|]. split; [exact K3|].
    pose proof (sview_pos space_table src s HS Hin) as Hpos.
    destruct (sview s) as [|c r] eqn:Ev; [unfold zlen in Hpos; cbn in Hpos; lia|].
    destruct (N.eqb_spec c 10) as [->|Hc].
    + left. split; [right; eauto|reflexivity].
    + right. split; [exact Hin|]. split; [intros r' C; congruence|].
      rewrite <- Ev in Eiw. destruct (view_indent space_table norm src s _ _ _ HS Eiw) as (V1 & V2 & V3).
      pose proof (ri_bounds _ (si_r _ _ _ HS)) as Hbd.
      split; [|split].
      * unfold BoffOK. rewrite (dcl_view _ _ D3), (dcl_pos _ _ D3). rewrite Ev.
        unfold c3. cbn [st_c s_c].
        destruct (Z.leb_spec (zlen (c :: r)) w) as [Hle|Hgt]; cbn [cset_off c_boff]; lia.
      * unfold OffOK. rewrite (dcl_pos _ _ D3). unfold c3. cbn [st_c s_c].
        destruct (Z.leb_spec (zlen (c :: r)) w) as [Hle|Hgt]; cbn [cset_off c_boff c_bind]; lia.
      * exists w, pos. split; [reflexivity|]. split; [|reflexivity].
        unfold c3. cbn [st_c s_c].
        destruct (Z.leb_spec (zlen (c :: r)) w) as [Hle|Hgt]; cbn [cset_off c_boff c_bind]; [left; exact Hle|right; split; reflexivity].
  - cbn [line_of]. cbv zeta.
    change (indent_width [] (soff s)) with (0, 0). cbv beta iota.
    change (zlen (@nil N) <=? 0) with true. cbv iota.
    destruct (HD (-1) (-1)) as (D3 & S3 & K3).
    exists (st_c s2 (cset_off (s_c s2) (-1) (-1))). split; [exact S3|]. split; [exact D3|]. split; [exact K3|].
    left. split; [|reflexivity]. left. unfold sin. congruence.
Qed.

End S.
