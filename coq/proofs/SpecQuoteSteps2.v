(* Block quotes around plain paragraphs, block phase, part 2: openBlocks on the first line of a
   block behind the markers of the open quotes: the new quotes and the paragraph. *)
Require Import GM.model.Base GM.model.Util GM.model.Reader GM.model.ListItem GM.model.Blocks GM.model.CodeBlock
               GM.model.Regex GM.model.BlockParse.
Require Import GM.gen.Tables GM.proofs.SpecParaBytes GM.proofs.SpecParaReader GM.proofs.SpecParaBlocks
               GM.proofs.SpecQuoteShape GM.proofs.SpecQuoteMachine GM.proofs.SpecQuoteReader GM.proofs.SpecQuoteSteps.
From Coq Require Import List NArith ZArith Bool Lia.
Import ListNotations.
Open Scope Z_scope.

Opaque space_table punct_table.

(* ---------- state-level reader steps ---------- *)
Lemma peek_s_any h c src pre line rest k hd b st pk lo : at_line src pre line rest st b -> line <> [] ->
  pk = None \/ pk = Some line ->
  peek_line_s (mkst h c (rd src k hd b st pk lo)) = Ok (mkst h c (rd src k hd b st (Some line) lo), Some line, lseg st b).
Proof.
  intros Hat Hne Hpk. unfold peek_line_s. cbn [s_r s_h s_c]. rewrite (peek_any src pre line rest k hd b st pk lo Hat Hne Hpk). reflexivity.
Qed.
Lemma line_offset_s_any h c src k hd b st pk lo : 0 <= hd -> st <= zlen src -> lo = -1 \/ lo = lofs src hd st ->
  line_offset_s (mkst h c (rd src k hd b st pk lo)) = Ok (mkst h c (rd src k hd b st pk (lofs src hd st)), lofs src hd st).
Proof.
  intros H1 H2 Hlo. unfold line_offset_s. cbn [s_r s_h s_c]. rewrite (line_offset_any src k hd b st pk lo H1 H2 Hlo). reflexivity.
Qed.
Lemma advance_s_fast_at h c src k hd b st v lo n : n < zlen v ->
  advance_s (mkst h c (rd src k hd b st (Some v) lo)) n = Ok (mkst h c (rd src k hd b (st + n) None (-1))).
Proof. intros H. unfold advance_s. cbn [s_r s_h s_c]. rewrite (advance_fast_at src k hd b st v lo n H). reflexivity. Qed.

Lemma indent_position_text_at body term o : body_okb body = true -> indent_position (body ++ term) o 4 = (-1, -1).
Proof.
  intros H. destruct (body_ok_head body H) as (c & r & -> & Hc). apply wordc_range in Hc.
  unfold indent_position, indent_position_padding. change (4 =? 0) with false. cbv iota.
  cbn [app indent_position_loop]. change (0 <? 0) with false. cbv iota.
  replace (N.eqb c 9) with false by (symmetry; apply N.eqb_neq; lia).
  replace (N.eqb c 32) with false by (symmetry; apply N.eqb_neq; lia). reflexivity.
Qed.

Lemma last_opened_in op junk l p : last_opened (octx op junk) = Some (l, p) -> In l (map fst op).
Proof.
  unfold last_opened, octx, ctx. cbn [c_len c_arr]. destruct (length op) as [|n] eqn:E; [discriminate|].
  intros H. rewrite nth_error_app1 in H by lia. apply nth_error_In in H.
  apply (in_map fst) in H. exact H.
Qed.

(* the code block parser declines *)
Lemma code_open_at h c src pre body term rest k hd b st :
  cur_line src pre body term rest st b -> 0 <= hd ->
  code_open space_table (mkst h c (rd src k hd b st (SomeB (body ++ term)) (lofs src hd st))) =
  Ok (mkst h c (rd src k hd b st (SomeB (body ++ term)) (lofs src hd st)), None).
Proof.
  intros Hc Hhd. pose proof (cur_line_range _ _ _ _ _ _ _ Hc) as Hr.
  unfold code_open, code_block_open. cbn [s_r].
  rewrite peek_cached_at by lia. cbn [bind].
  rewrite (line_offset_any src k hd b st _ _ Hhd) by (try (right; reflexivity); lia). cbn [bind].
  rewrite (indent_position_text_at body term _ (cl_body _ _ _ _ _ _ _ Hc)).
  change (-1 <? 0) with true. cbn [orb]. cbv iota. reflexivity.
Qed.

(* the paragraph parser opens: a new detached node with the line *)
Lemma paragraph_open_at h c src pre body term rest k hd b st lo :
  cur_line src pre body term rest st b ->
  paragraph_open space_table (mkst h c (rd src k hd b st (SomeB (body ++ term)) lo)) =
  Ok (mkst (h ++ [pnode None [mkseg st b] false]) c (rd src k hd b (b - 1) None (-1)), Some (length h, false, false)).
Proof.
  intros Hc. pose proof (cur_line_range _ _ _ _ _ _ _ Hc) as Hr. pose proof (cur_line_len _ _ _ _ _ _ _ Hc) as Hl.
  destruct Hc as [Hat Hb Ht].
  unfold paragraph_open. rewrite (peek_s_any _ _ src pre (body ++ term) rest) by (try exact Hat; try (right; reflexivity); apply text_line_nonempty; exact Hb).
  cbn [bind].
  unfold seg_trim_left_space, src_of. cbn [s_r s_h s_c].
  unfold rd at 1. cbn [r_src]. unfold lseg. cbn [s_start s_stop].
  destruct Hat as (Hs & Ha & Hb'). rewrite Hs at 1. rewrite (slice_mid pre (body ++ term) rest st b Ha Hb').
  cbn [bind]. rewrite (text_line_trim_left body term Hb). rewrite Z.add_0_r.
  unfold seg_is_empty, mkseg. cbn [s_start s_stop s_pad].
  replace (b <=? st) with false by (symmetry; apply Z.leb_gt; lia). cbn [andb]. cbv iota.
  unfold new_node, halloc. cbn [s_h]. unfold st_h. cbn [s_h s_c s_r].
  unfold seg_len. cbn [s_start s_stop s_pad].
  rewrite advance_s_fast_at by (rewrite zlen_app; lia). cbn [bind].
  replace (st + (b - st + 0 - 1)) with (b - 1) by lia. reflexivity.
Qed.

(* ---------- a marker and what follows it ---------- *)
Lemma bq_mk src pre line rest k hd b st lo s c tail :
  at_line src pre line rest st b -> 0 <= hd -> lo = -1 \/ lo = lofs src hd st ->
  line = mk s ++ c :: tail -> c <> 32%N -> c <> 9%N ->
  bq_process_total (rd src k hd b st (SomeB line) lo) = Ok (rd src k hd b (st + zlen (mk s)) None (-1), true).
Proof.
  intros Hat Hhd Hlo Hl H32 H9. destruct s; cbn [mk app] in Hl.
  - exact (bq_blank src pre line rest k hd b st lo Hat Hhd Hlo (c :: tail) Hl).
  - exact (bq_bare src pre line rest k hd b st lo Hat Hhd Hlo c tail Hl H32 H9).
Qed.
Lemma mk_cons s : exists l, mk s = 62%N :: l.
Proof. destruct s; eexists; reflexivity. Qed.
Lemma at_line_shift src pre x l rest st b : at_line src pre (x ++ l) rest st b ->
  at_line src (pre ++ x) l rest (st + zlen x) b.
Proof.
  intros (Hs & Ha & Hb). split; [|split].
  - rewrite Hs, <- !app_assoc. reflexivity.
  - rewrite zlen_app. lia.
  - rewrite Hb, !zlen_app. lia.
Qed.
(* what follows a marker is never a blank or a tab: another marker or the body *)
Lemma chain_body_head ms body term : body_okb body = true ->
  exists c tail, chain ms ++ body ++ term = c :: tail /\ c <> 32%N /\ c <> 9%N.
Proof.
  intros Hb. destruct ms as [|s ms].
  - destruct (body_ok_head body Hb) as (c & r & -> & Hc). apply wordc_range in Hc.
    exists c, (r ++ term). cbn [chain app]. split; [reflexivity|]. split; lia.
  - destruct (mk_cons s) as [l Hl]. exists 62%N, (l ++ chain ms ++ body ++ term). cbn [chain]. rewrite Hl.
    split; [rewrite <- !app_assoc; reflexivity|]. split; discriminate.
Qed.
Lemma nth_error_last_eq {A} (l : list A) x n : length l = n -> nth_error (l ++ [x]) n = Some x.
Proof. intros <-. apply nth_error_last. Qed.
Lemma is_bq_last_eq h par cs bl p n : par = Some p -> length h = n -> is_bq (h ++ [qnode par cs bl]) n.
Proof. intros Hp <-. apply (is_bq_last h par cs bl p Hp). Qed.
Lemma add_children_last_eq h n ids k : length h = k -> add_children (h ++ [n]) k ids = h ++ [set_ch n (bch n ++ ids)].
Proof. intros <-. apply add_children_last. Qed.
Lemma cand_gt : candidates 62 = [PBlockquote; PCodeBlock; PParagraph].
Proof. reflexivity. Qed.

Section Driver.
Variable norm : bytes -> bytes.
Variables re_t1o re_t1c re_t2 re_t3 re_t4 re_t5 re_t6 re_t7 : re.
Variable allowed_tags : list bytes.
Notation TRY := (try_parsers space_table punct_table norm re_t1o re_t2 re_t3 re_t4 re_t5 re_t6 re_t7 allowed_tags).
Notation OBL := (open_blocks_loop space_table punct_table norm re_t1o re_t2 re_t3 re_t4 re_t5 re_t6 re_t7 allowed_tags).
Notation OB := (open_blocks space_table punct_table norm re_t1o re_t1c re_t2 re_t3 re_t4 re_t5 re_t6 re_t7 allowed_tags).

(* the free parsers on a text line: the paragraph parser opens *)
Lemma try_open_at h pn op junk src pre body term rest k hd b st parent blank res :
  cur_line src pre body term rest st b -> 0 <= hd ->
  nth_error h parent = Some pn -> Forall (is_bq h) (map fst op) ->
  TRY free_parsers parent blank false res 0
      (mkst h (octx op junk) (rd src k hd b st (SomeB (body ++ term)) (lofs src hd st))) =
  Ok (TDone newBlocksOpened
        (mkst (add_children h parent [length h] ++ [pnode (Some parent) [mkseg st b] blank])
              (octx (op ++ [(length h, PParagraph)]) (skipn 1 junk)) (rd src k hd b (b - 1) None (-1)))).
Proof.
  intros Hc Hhd HP Hop. unfold free_parsers. cbn [try_parsers andb can_interrupt_paragraph can_accept_indented negb].
  change (3 <? 0) with false. cbn [andb]. cbv iota.
  cbn [s_c]. cbn [p_open]. rewrite (code_open_at _ _ _ _ _ _ _ _ _ _ _ Hc Hhd). cbn [bind]. cbv iota.
  cbn [andb can_interrupt_paragraph can_accept_indented negb]. cbv iota.
  rewrite (paragraph_open_at _ _ _ _ _ _ _ _ _ _ _ _ Hc). cbn [bind]. cbv iota.
  cbn [s_h s_c s_r]. rewrite hupd_app_last. cbn [bind]. unfold st_h. cbn [s_h s_c s_r].
  assert (Hatt : match last_opened (octx op junk) with
                 | Some (last, _) => attached (h ++ [set_blank (pnode None [mkseg st b] false) blank]) last = Ok true
                 | None => True end).
  { destruct (last_opened (octx op junk)) as [[last lp]|] eqn:E; [|exact I].
    apply is_bq_attached. apply is_bq_app. apply (proj1 (Forall_forall _ _) Hop). exact (last_opened_in _ _ _ _ E). }
  destruct (last_opened (octx op junk)) as [[last lp]|].
  - rewrite Hatt. cbn [bind negb]. cbv iota. cbn [s_h s_c s_r].
    rewrite (append_child_last h _ parent pn HP). cbn [bind]. unfold st_c. cbn [s_h s_c s_r]. rewrite push_octx. reflexivity.
  - cbn [bind s_h s_c s_r].
    rewrite (append_child_last h _ parent pn HP). cbn [bind]. unfold st_c. cbn [s_h s_c s_r]. rewrite push_octx. reflexivity.
Qed.

(* openBlocks' loop on a text line *)
Lemma obl_text f h pn op junk src pre body term rest k hd b st pk lo parent blank res :
  cur_line src pre body term rest st b -> 0 <= hd ->
  nth_error h parent = Some pn -> Forall (is_bq h) (map fst op) ->
  pk = None \/ pk = SomeB (body ++ term) -> lo = -1 \/ lo = lofs src hd st ->
  OBL (S f) parent blank false res (mkst h (octx op junk) (rd src k hd b st pk lo)) =
  Ok (newBlocksOpened, false,
      mkst (add_children h parent [length h] ++ [pnode (Some parent) [mkseg st b] blank])
           (octx (op ++ [(length h, PParagraph)]) (skipn 1 junk)) (rd src k hd b (b - 1) None (-1))).
Proof.
  intros Hc Hhd HP Hop Hpk Hlo. pose proof (cur_line_range _ _ _ _ _ _ _ Hc) as Hr. pose proof (cl_body _ _ _ _ _ _ _ Hc) as Hb.
  cbn [open_blocks_loop].
  rewrite (peek_s_any _ _ src pre (body ++ term) rest) by (try exact (cl_at _ _ _ _ _ _ _ Hc); try exact Hpk; apply text_line_nonempty; exact Hb).
  cbn [bind]. rewrite line_offset_s_any by (try exact Hlo; lia). cbn [bind line_of].
  rewrite (text_line_indent body term _ Hb).
  replace (zlen (body ++ term) <=? 0) with false by (symmetry; apply Z.leb_gt; apply text_line_zlen; exact Hb).
  unfold st_c. cbn [s_h s_c s_r]. rewrite cset_off_octx. rewrite (line_skip_text body term Hb).
  replace (0 <? zlen (body ++ term)) with true by (symmetry; apply Z.ltb_lt; apply text_line_zlen; exact Hb).
  rewrite (candidates_text body term Hb).
  rewrite (try_open_at h pn op junk src pre body term rest k hd b st parent blank res Hc Hhd HP Hop). cbn [bind]. reflexivity.
Qed.
(* openBlocks' loop on a marker: a block quote is opened, the loop goes on inside it *)
Lemma obl_bq f h pn op junk src pre line rest k hd b st pk lo parent blank res s c tail :
  at_line src pre line rest st b -> 0 <= hd ->
  line = mk s ++ c :: tail -> c <> 32%N -> c <> 9%N ->
  nth_error h parent = Some pn -> Forall (is_bq h) (map fst op) ->
  pk = None \/ pk = SomeB line -> lo = -1 \/ lo = lofs src hd st ->
  OBL (S f) parent blank false res (mkst h (octx op junk) (rd src k hd b st pk lo)) =
  OBL f (length h) blank false newBlocksOpened
      (mkst (add_children h parent [length h] ++ [qnode (Some parent) [] blank])
            (octx (op ++ [(length h, PBlockquote)]) (skipn 1 junk)) (rd src k hd b (st + zlen (mk s)) None (-1))).
Proof.
  intros Hat Hhd Hl H32 H9 HP Hop Hpk Hlo.
  destruct (mk_cons s) as [ml Hml].
  assert (Hl2 : line = 62%N :: ml ++ c :: tail) by (rewrite Hl, Hml; reflexivity).
  assert (Hne : line <> []) by (rewrite Hl2; discriminate).
  pose proof (at_line_in_range _ _ _ _ _ _ Hat Hne) as Hr.
  assert (Hz : 1 < zlen line) by (rewrite Hl2, zlen_cons, zlen_app, zlen_cons; pose proof (zlen_nonneg ml); pose proof (zlen_nonneg tail); lia).
  cbn [open_blocks_loop].
  rewrite (peek_s_any _ _ src pre line rest) by assumption.
  cbn [bind]. rewrite line_offset_s_any by (try exact Hlo; lia). cbn [bind line_of].
  rewrite Hl2 at 1. rewrite indent_width_nb by discriminate.
  replace (zlen line <=? 0) with false by (symmetry; apply Z.leb_gt; lia).
  unfold st_c. cbn [s_h s_c s_r]. rewrite cset_off_octx.
  rewrite Hl2 at 1. change (N.eqb 62 10) with false. cbv iota.
  replace (0 <? zlen line) with true by (symmetry; apply Z.ltb_lt; lia).
  replace (nth_byte line 0) with 62%N by (rewrite Hl2; reflexivity). rewrite cand_gt.
  cbn [try_parsers andb can_interrupt_paragraph can_accept_indented negb].
  change (3 <? 0) with false. cbn [andb]. cbv iota. cbn [s_c p_open].
  unfold bq_open. cbn [s_r].
  rewrite (bq_mk src pre line rest k hd b st _ s c tail Hat Hhd (or_intror eq_refl) Hl H32 H9). cbn [bind].
  unfold st_r. cbn [s_h s_c s_r]. unfold new_node, halloc. cbn [s_h]. unfold st_h. cbn [s_h s_c s_r bind].
  change (mknode BBlockquote 0) with (qnode None [] false).
  rewrite hupd_app_last. cbn [bind]. cbn [s_h s_c s_r].
  assert (Hatt : match last_opened (octx op junk) with
                 | Some (last, _) => attached (h ++ [set_blank (qnode None [] false) blank]) last = Ok true
                 | None => True end).
  { destruct (last_opened (octx op junk)) as [[last lp]|] eqn:E; [|exact I].
    apply is_bq_attached. apply is_bq_app. apply (proj1 (Forall_forall _ _) Hop). exact (last_opened_in _ _ _ _ E). }
  destruct (last_opened (octx op junk)) as [[last lp]|].
  - rewrite Hatt. cbn [bind negb]. cbv iota. cbn [s_h s_c s_r].
    rewrite (append_child_last h _ parent pn HP). cbn [bind]. unfold st_c. cbn [s_h s_c s_r]. rewrite push_octx. reflexivity.
  - cbn [bind s_h s_c s_r].
    rewrite (append_child_last h _ parent pn HP). cbn [bind]. unfold st_c. cbn [s_h s_c s_r]. rewrite push_octx. reflexivity.
Qed.

(* the first line of a block behind the markers ms of its new quotes *)
Lemma obl_chain ms : forall f h pn op junk src pre body term rest k hd b st pk lo parent blank res,
  (length ms < f)%nat ->
  at_line src pre (chain ms ++ body ++ term) rest st b -> body_okb body = true -> term_ok term rest -> 0 <= hd ->
  nth_error h parent = Some pn -> Forall (is_bq h) (map fst op) ->
  pk = None \/ pk = SomeB (chain ms ++ body ++ term) -> lo = -1 \/ lo = lofs src hd st ->
  OBL f parent blank false res (mkst h (octx op junk) (rd src k hd b st pk lo)) =
  Ok (newBlocksOpened, false,
      mkst (add_children h parent [length h] ++ first_nodes blank parent (length h) (length ms) [mkseg (st + zlen (chain ms)) b])
           (octx (op ++ qop (seq (length h) (length ms)) ++ [((length h + length ms)%nat, PParagraph)]) (skipn (S (length ms)) junk))
           (rd src k hd b (b - 1) None (-1))).
Proof.
  induction ms as [|s ms IH]; intros f h pn op junk src pre body term rest k hd b st pk lo parent blank res Hf Hat Hb Ht Hhd HP Hop Hpk Hlo.
  - destruct f as [|f]; [cbn [length] in Hf; lia|].
    cbn [chain app length first_nodes seq qop map] in *. change (zlen (@nil N)) with 0. rewrite Z.add_0_r, Nat.add_0_r.
    apply (obl_text f h pn op junk src pre body term rest); try assumption. split; assumption.
  - destruct f as [|f]; [cbn [length] in Hf; lia|].
    destruct (chain_body_head ms body term Hb) as (c & tail & Hct & H32 & H9).
    assert (Hl : chain (s :: ms) ++ body ++ term = mk s ++ c :: tail).
    { cbn [chain]. rewrite <- app_assoc, Hct. reflexivity. }
    rewrite (obl_bq f h pn op junk src pre _ rest k hd b st pk lo parent blank res s c tail Hat Hhd Hl H32 H9 HP Hop Hpk Hlo).
    assert (Hat' : at_line src (pre ++ mk s) (chain ms ++ body ++ term) rest (st + zlen (mk s)) b).
    { apply at_line_shift. cbn [chain] in Hat. rewrite <- app_assoc in Hat. exact Hat. }
    set (h1 := add_children h parent [length h] ++ [qnode (Some parent) [] blank]).
    assert (Hlen1 : length (add_children h parent [length h]) = length h) by apply add_children_length.
    assert (HP1 : nth_error h1 (length h) = Some (qnode (Some parent) [] blank)).
    { unfold h1. apply nth_error_last_eq. exact Hlen1. }
    assert (Hop1 : Forall (is_bq h1) (map fst (op ++ [(length h, PBlockquote)]))).
    { rewrite map_app. apply Forall_app. split.
      - eapply Forall_impl; [|exact Hop]. intros q Hq. unfold h1. apply is_bq_app. apply is_bq_add_children. exact Hq.
      - constructor; [|constructor]. cbn [fst]. unfold h1. eapply is_bq_last_eq; [reflexivity|exact Hlen1]. }
    rewrite (IH f h1 (qnode (Some parent) [] blank) (op ++ [(length h, PBlockquote)]) (skipn 1 junk) src (pre ++ mk s) body term rest k hd b (st + zlen (mk s)) None (-1) (length h) blank newBlocksOpened);
      try assumption; [|cbn [length] in Hf; lia|left; reflexivity|left; reflexivity].
    assert (Hl1 : length h1 = S (length h)) by (unfold h1; rewrite app_length, Hlen1; cbn [length]; lia).
    rewrite Hl1.
    assert (Eh : add_children h1 (length h) [S (length h)] ++
                 first_nodes blank (length h) (S (length h)) (length ms) [mkseg (st + zlen (mk s) + zlen (chain ms)) b] =
                 add_children h parent [length h] ++
                 first_nodes blank parent (length h) (length (s :: ms)) [mkseg (st + zlen (chain (s :: ms))) b]).
    { unfold h1. rewrite (add_children_last_eq _ _ _ _ Hlen1). cbn [length first_nodes]. rewrite <- app_assoc. cbn [app chain].
      rewrite zlen_app. rewrite Z.add_assoc. reflexivity. }
    assert (Ec : octx ((op ++ [(length h, PBlockquote)]) ++ qop (seq (S (length h)) (length ms)) ++
                       [((S (length h) + length ms)%nat, PParagraph)]) (skipn (S (length ms)) (skipn 1 junk)) =
                 octx (op ++ qop (seq (length h) (length (s :: ms))) ++ [((length h + length (s :: ms))%nat, PParagraph)])
                      (skipn (S (length (s :: ms))) junk)).
    { cbn [length seq qop map]. rewrite <- !app_assoc. cbn [app]. replace (skipn (S (length ms)) (skipn 1 junk)) with (skipn (S (S (length ms))) junk)
        by (destruct junk as [|a t]; [rewrite !skipn_nil; reflexivity|reflexivity]).
      replace (S (length h) + length ms)%nat with (length h + S (length ms))%nat by lia. reflexivity. }
    rewrite Eh, Ec. reflexivity.
Qed.

(* openBlocks on the first line of a block, behind the markers of the open quotes q *)
Lemma ob_first fuel ms h pn q junk src pre body term rest k hd b st pk parent blank :
  (length ms < fuel)%nat ->
  at_line src pre (chain ms ++ body ++ term) rest st b -> body_okb body = true -> term_ok term rest -> 0 <= hd ->
  nth_error h parent = Some pn -> Forall (is_bq h) q ->
  pk = None \/ pk = SomeB (chain ms ++ body ++ term) ->
  OB fuel parent blank (mkst h (octx (qop q) junk) (rd src k hd b st pk (-1))) =
  Ok (newBlocksOpened,
      mkst (add_children h parent [length h] ++ first_nodes blank parent (length h) (length ms) [mkseg (st + zlen (chain ms)) b])
           (octx (qop q ++ qop (seq (length h) (length ms)) ++ [((length h + length ms)%nat, PParagraph)]) (skipn (S (length ms)) junk))
           (rd src k hd b (b - 1) None (-1))).
Proof.
  intros Hf Hat Hb Ht Hhd HP Hq Hpk.
  assert (Hop : Forall (is_bq h) (map fst (qop q))).
  { unfold qop. rewrite map_map. cbn [fst]. rewrite map_id. exact Hq. }
  unfold open_blocks. cbn [s_c s_h].
  assert (Hcont : match last_opened (octx (qop q) junk) with
                  | Some (l, _) => is_paragraph h l | None => Ok false end = Ok false).
  { destruct (last_opened (octx (qop q) junk)) as [[last lp]|] eqn:E; [|reflexivity].
    apply is_bq_not_para. apply (proj1 (Forall_forall _ _) Hop). exact (last_opened_in _ _ _ _ E). }
  rewrite Hcont. cbn [bind].
  rewrite (obl_chain ms fuel h pn (qop q) junk src pre body term rest k hd b st pk (-1) parent blank noBlocksOpened Hf Hat Hb Ht Hhd HP Hop Hpk (or_introl eq_refl)).
  cbn [bind]. change (newBlocksOpened =? noBlocksOpened) with false. cbn [andb]. reflexivity.
Qed.
End Driver.
