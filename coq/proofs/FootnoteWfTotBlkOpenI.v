(* Helper file for FootnoteWfTotBlk.v: the interface between the proof of openBlocks of the footnote model
   (open_blocksF, files FootnoteWfTotBlkOpenA.v / FootnoteWfTotBlkOpenB.v) and the proofs of the loops around it
   (FootnoteWfTotBlkEach*.v, FootnoteWfTotBlkDrive.v): the statement open_blocksF_spec.  It is the postcondition of
   the core proof (ParseBlocksTotalOpen.v open_blocks_ok_fix) over x : stf, with s := bf_s x and the invariant
   parameter lst := bf_list x. *)
Require Import GM.model.Base GM.model.Util GM.model.Reader GM.model.ReaderSpec GM.model.Blocks GM.model.ListItem
               GM.model.LeafBlocks GM.model.CodeBlock GM.model.LinkDest GM.model.Regex GM.model.BlockParse
               GM.model.FootnoteParseBlock.
Require Import GM.proofs.ReaderProofs GM.proofs.BlocksProofs
               GM.proofs.ParseBlocksTotalReader GM.proofs.FootnoteWfTotBlkDefs GM.proofs.FootnoteWfTotBlkSpec
               GM.proofs.FootnoteWfTotBlkSt GM.proofs.FootnoteWfTotBlkShape.
From Coq Require Import ZArith Lia List Bool.
Import ListNotations.
Open Scope Z_scope.

(* the paragraph at the end of the opened blocks, if any *)
Definition last_para (c : pctx) : option nat :=
  match last_opened c with Some (x, PParagraph) => Some x | _ => None end.

(* what openBlocks may do to the old nodes: kinds stay; lines and parents stay except at the last
   opened paragraph; the children of List nodes other than `parent0` stay *)
Definition OFrame (h h' : heap) (parent0 : nat) (x0 : option nat) : Prop :=
  (length h <= length h')%nat /\
  forall j n, nth_error h j = Some n -> exists n', nth_error h' j = Some n' /\ bk n' = bk n /\
    (Some j <> x0 -> blines n' = blines n /\ bpar n' = bpar n) /\
    (bk n = BList -> j <> parent0 -> bch n' = bch n).

Section S.
Variable space_table punct_table : list N.
Variable norm : bytes -> bytes.
Variable re_t1o re_t1c re_t2 re_t3 re_t4 re_t5 re_t6 re_t7 : re.
Variable allowed_tags : list bytes.
Variable src : bytes.
Notation SIx x := (SI space_table src (bf_list x) (bf_s x)).
Notation OBF := (open_blocksF space_table punct_table norm re_t1o re_t1c re_t2 re_t3 re_t4 re_t5 re_t6 re_t7 allowed_tags).

Definition open_blocksF_spec : Prop :=
  forall fuel parent pn blank x, let s := bf_s x in
  SIx x -> nth_error (s_h s) parent = Some pn ->
  (bk pn = BList -> LP space_table s parent) ->
  (forall e n, In e (ops s) -> nth_error (s_h s) (fst e) = Some n -> bpar n <> None) ->
  (forall k e, nth_error (ops s) k = Some e -> (S k < length (ops s))%nat -> is_container (snd e) = true) ->
  Below (s_h s) (s_r s) ->
  (Z.to_nat (2 * (s_stop (r_pos (s_r s)) - s_start (r_pos (s_r s))) + 8) <= fuel)%nat ->
  exists res x', OBF fuel parent blank x = Ok (res, x') /\ let s' := bf_s x' in
    SIx x' /\ r_le (s_r s) (s_r s') /\
    (c_fence (s_c s) <> None -> c_fence (s_c s') <> None) /\
    (c_tmp_para (s_c s) <> None -> c_tmp_para (s_c s') <> None) /\
    (forall t, c_tmp_para (s_c s') = Some t -> (t < length (s_h s))%nat) /\
    (((res = paragraphContinuation \/ res = noBlocksOpened) /\ ops s' = ops s /\
      c_fence (s_c s') = c_fence (s_c s) /\ c_tmp_para (s_c s') = c_tmp_para (s_c s) /\
      hsame_pc (s_h s) (s_h s') /\
      (forall j n n', Some j <> last_para (s_c s) -> nth_error (s_h s) j = Some n -> nth_error (s_h s') j = Some n' ->
                      blines n' = blines n) /\
      bk pn <> BList /\
      bf_list x' = bf_list x)
     \/
     (res = newBlocksOpened /\ exists base' new, ops s' = base' ++ new /\ new <> [] /\
      (base' = ops s \/ exists y, ops s = base' ++ [(y, PParagraph)]) /\
      OFrame (s_h s) (s_h s') parent (last_para (s_c s)) /\
      Chain (s_h s') parent new /\ (forall e, In e new -> (length (s_h s) <= fst e)%nat) /\
      (bk pn = BList -> exists it pn', nth_error new 0%nat = Some (it, PListItem) /\
                                       nth_error (s_h s') parent = Some pn' /\ last_id (bch pn') = Some it) /\
      (forall n p nn, nth_error new (pred (length new)) = Some (n, p) -> nth_error (s_h s') n = Some nn ->
         (p = PFenced -> exists ch ind fl, c_fence (s_c s') = Some (ch, ind, fl, n)) /\
         (p <> PFenced -> c_fence (s_c s') = c_fence (s_c s)) /\
         (p = PSetext -> c_tmp_para (s_c s') <> None /\ blines nn <> [] /\
                         exists y, last_opened (s_c s) = Some (y, PParagraph)) /\
         (p <> PSetext -> c_tmp_para (s_c s') = c_tmp_para (s_c s) \/
                          exists y, last_opened (s_c s) = Some (y, PParagraph))))).

End S.
