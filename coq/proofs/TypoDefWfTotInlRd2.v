(* Fork of proofs/ParseInlineTotalReader2.v over the reader invariant RI of proofs/TypoDefWfTotInlRd.v (the first line of the
   block may have padding); the text below is that of the original, only the imports differ. *)
(* Reader-level parts of the inline parsers: FindClosure with the segments it returns, Value
   of lists of segments, parseLinkDestination / parseLinkTitle / parseLink, the rune input of
   the regular expressions, the multi-line scans of raw HTML and code spans. *)
Require Import GM.model.Base GM.model.Util GM.model.Reader GM.model.ReaderSpec GM.model.ListItem GM.model.LeafBlocks
               GM.model.CodeSpan GM.model.LinkDest GM.model.Regex GM.model.BlockParse GM.model.InlineParse.
Require Import GM.proofs.BReaderProofs GM.proofs.BlockRangeProofs GM.proofs.RegexProofs GM.proofs.TypoDefWfTotInlRd.
From Coq Require Import ZArith Lia List ZifyBool ZifyN.
Import ListNotations.
Open Scope Z_scope.

(* ---------- pure bounds ---------- *)
Lemma prefix_of_len p : forall s, prefix_of p s = true -> zlen p <= zlen s.
Proof.
  induction p as [|a p IH]; intros s H; [change (zlen (@nil N)) with 0; apply zlen_nonneg|].
  destruct s as [|b s]; [discriminate|]. cbn [prefix_of] in H. apply andb_prop in H. destruct H as [_ H].
  rewrite !zlen_cons. specialize (IH s H). lia.
Qed.

Lemma index_of_bound pat : forall s i j, index_of pat s i = j -> -1 < j -> i <= j /\ (j - i) + zlen pat <= zlen s.
Proof.
  induction s as [|c tl IH]; intros i j H Hj.
  - cbn [index_of] in H. destruct pat; [|lia]. subst j. change (zlen (@nil N)) with 0. lia.
  - cbn [index_of] in H. destruct (prefix_of pat (c :: tl)) eqn:E.
    + subst j. apply prefix_of_len in E. lia.
    + destruct (IH (i + 1) j H Hj) as [A B]. rewrite zlen_cons. lia.
Qed.

Lemma zlen_zskip_le {A} n (l : list A) : zlen (zskip n l) <= zlen l.
Proof. unfold zskip, zlen. rewrite skipn_length. lia. Qed.
Lemma zlen_zskip_eq {A} n (l : list A) : 0 <= n <= zlen l -> zlen (zskip n l) = zlen l - n.
Proof. intros H. unfold zskip, zlen in *. rewrite skipn_length. lia. Qed.

Lemma find_closer_bound opener : forall fuel l i j, 0 <= opener -> find_closer fuel l i opener = Some j ->
  i + opener <= j <= i + zlen l.
Proof.
  induction fuel as [|f IH]; intros l i j Ho H; [discriminate|]. cbn [find_closer] in H.
  destruct l as [|c r]; [discriminate|].
  destruct (N.eqb c 96).
  - pose proof (br_count_byte_range 96%N (c :: r)) as Hc.
    destruct (Z.eqb_spec (count_byte 96 (c :: r)) opener) as [E|E].
    + assert (Ej : j = i + count_byte 96 (c :: r)) by congruence. lia.
    + destruct (Z.le_gt_cases (count_byte 96 (c :: r) + 1) (zlen (c :: r))) as [Hle|Hgt].
      * apply IH in H; [|exact Ho]. rewrite zlen_zskip_eq in H by lia. lia.
      * assert (Y : zskip (count_byte 96 (c :: r) + 1) (c :: r) = []).
        { unfold zskip. apply skipn_all2. unfold zlen in Hgt. lia. }
        rewrite Y in H. destruct f; discriminate.
  - apply IH in H; [|exact Ho]. rewrite zlen_cons. lia.
Qed.

Section Dest.
Variable space_table punct_table : list N.

Lemma angle_close_bound : forall fuel l i k, angle_close punct_table fuel l i = Some k -> i <= k < i + zlen l.
Proof.
  induction fuel as [|f IH]; intros l i k H; [discriminate|]. cbn [angle_close] in H.
  destruct l as [|c r]; [discriminate|]. destruct r as [|d r'].
  - destruct (N.eqb c 62); [|discriminate]. inversion H; subst. change (zlen [c]) with 1. lia.
  - destruct (N.eqb c 92 && is_punct punct_table d)%bool.
    + apply IH in H. rewrite !zlen_cons. lia.
    + destruct (N.eqb c 62).
      * inversion H; subst. rewrite !zlen_cons. pose proof (zlen_nonneg r'). lia.
      * apply IH in H. rewrite !zlen_cons in *. lia.
Qed.

Lemma bare_end_bound : forall fuel l i opened, i <= bare_end space_table punct_table fuel l i opened <= i + zlen l.
Proof.
  induction fuel as [|f IH]; intros l i opened; [cbn; pose proof (zlen_nonneg l); lia|]. cbn [bare_end].
  destruct l as [|c r]; [pose proof (zlen_nonneg (@nil N)); lia|]. destruct r as [|d r'].
  - change (zlen [c]) with 1.
    repeat match goal with |- context [if ?b then _ else _] => destruct b end; lia.
  - pose proof (IH r' (i + 2) opened) as X1. pose proof (IH (d :: r') (i + 1) (opened + 1)) as X2.
    pose proof (IH (d :: r') (i + 1) (opened - 1)) as X3. pose proof (IH (d :: r') (i + 1) opened) as X4.
    rewrite !zlen_cons in *. pose proof (zlen_nonneg r').
    repeat match goal with |- context [if ?b then _ else _] => destruct b end; lia.
Qed.

Lemma pld_bound line d adv : parse_link_destination space_table punct_table line = Some (d, adv) -> 0 < adv <= zlen line.
Proof.
  unfold parse_link_destination. destruct line as [|c rest].
  - cbn. discriminate.
  - destruct (N.eqb_spec c 60) as [E|E].
    + subst c. destruct (angle_close punct_table (S (length (60%N :: rest))) rest 1) as [i|] eqn:Ea; [|discriminate].
      intros H. injection H as _ Hadv. apply angle_close_bound in Ea. rewrite zlen_cons. lia.
    + assert (X : forall (T : Type) (a b : T), match c with 60%N => a | _ => b end = b).
      { intros T a b. destruct c as [|p]; [reflexivity|]. do 6 (destruct p as [p|p|]; try reflexivity). congruence. }
      rewrite X. pose proof (bare_end_bound (S (length (c :: rest))) (c :: rest) 0 0) as B.
      remember (bare_end space_table punct_table (S (length (c :: rest))) (c :: rest) 0 0) as be eqn:Ebe. clear Ebe.
      destruct (Z.eqb_spec be 0); [discriminate|].
      intros H. injection H as _ Hadv. lia.
Qed.
End Dest.

(* ---------- UTF-8: a decoded rune is re-encoded in as many bytes ---------- *)
Open Scope N_scope.
Lemma encode_decode_len v rn w : decode_rune v = (rn, w) -> rn <> 65533 -> length (encode_rune rn) = N.to_nat w.
Proof.
  unfold decode_rune. destruct v as [|c0 r0]; [intros H; inversion H; congruence|].
  destruct (c0 <? 128) eqn:E0.
  { intros H _. inversion H; subst. unfold encode_rune. rewrite E0. reflexivity. }
  destruct ((194 <=? c0) && (c0 <=? 223)) eqn:E1.
  { destruct r0 as [|c1 r1]; [intros H; inversion H; congruence|].
    destruct (cont c1) eqn:Ec1; [|intros H; inversion H; congruence].
    intros H _. inversion H; subst. unfold cont in Ec1. unfold encode_rune.
    replace ((c0 - 192) * 64 + (c1 - 128) <? 128) with false by lia.
    replace ((c0 - 192) * 64 + (c1 - 128) <? 2048) with true by lia. reflexivity. }
  destruct ((224 <=? c0) && (c0 <=? 239)) eqn:E2.
  { destruct r0 as [|c1 [|c2 r2]]; try (intros H; inversion H; congruence).
    destruct (((if c0 =? 224 then 160 else 128) <=? c1) && (c1 <=? (if c0 =? 237 then 159 else 191)) && cont c2) eqn:Ec; [|intros H; inversion H; congruence].
    intros H Hne. inversion H; subst. unfold cont in Ec. unfold encode_rune, valid_rune in *.
    set (r := (c0 - 224) * 4096 + (c1 - 128) * 64 + (c2 - 128)) in *.
    assert (Hr : 2048 <= r < 65536 /\ (r < 55296 \/ 57344 <= r)).
    { unfold r. destruct (N.eqb_spec c0 224), (N.eqb_spec c0 237); lia. }
    replace (r <? 128) with false by lia. replace (r <? 2048) with false by lia.
    replace (negb ((r <? 55296) || (57344 <=? r) && (r <=? 1114111))) with false by lia.
    replace (r <? 65536) with true by lia. reflexivity. }
  destruct ((240 <=? c0) && (c0 <=? 244)) eqn:E3; [|intros H; inversion H; congruence].
  destruct r0 as [|c1 [|c2 [|c3 r3]]]; try (intros H; inversion H; congruence).
  destruct (((if c0 =? 240 then 144 else 128) <=? c1) && (c1 <=? (if c0 =? 244 then 143 else 191)) && cont c2 && cont c3) eqn:Ec; [|intros H; inversion H; congruence].
  intros H Hne. inversion H; subst. unfold cont in Ec. unfold encode_rune, valid_rune in *.
  set (r := (c0 - 240) * 262144 + (c1 - 128) * 4096 + (c2 - 128) * 64 + (c3 - 128)) in *.
  assert (Hr : 65536 <= r <= 1114111).
  { unfold r. destruct (N.eqb_spec c0 240), (N.eqb_spec c0 244); lia. }
  replace (r <? 128) with false by lia. replace (r <? 2048) with false by lia.
  replace (negb ((r <? 55296) || (57344 <=? r) && (r <=? 1114111))) with false by lia.
  replace (r <? 65536) with false by lia. reflexivity.
Qed.
Close Scope N_scope.

Section R3.
Variable src : bytes.
Variable segs : list seg.
Variable space_table punct_table : list N.
Notation RI := (RI src segs).

Definition segp (z : Z) (s : seg) : Prop := z <= s_start s /\ s_start s <= s_stop s.
Lemma segp_mono z z' s : z' <= z -> segp z s -> segp z' s.
Proof. unfold segp. lia. Qed.

(* ---------- FindClosure ---------- *)
Notation b_fc_lines := (fc_lines punct_table breader b_peek_line b_advance b_advance_line).

Lemma ri_fc_lines opts o c z : forall fuel r opened cso ret, RI r -> z <= s_start (b_pos r) ->
  Forall (segp z) ret -> zlen (b_rest r) + 1 < Z.of_nat fuel ->
  exists r' res, b_fc_lines fuel opts o c r opened cso ret = Ok (r', res) /\ RI r' /\ rle r r' /\
    match res with None => True | Some l => Forall (segp z) l end.
Proof.
  induction fuel as [|f IH]; intros r opened cso ret HR Hz Hret Hf; [pose proof (zlen_nonneg (b_rest r)); lia|].
  cbn [fc_lines]. rewrite (ri_peek_line src segs r HR). cbn [bind].
  destruct (b_in_range r) eqn:Hin.
  2:{ exists r, None. split; [reflexivity|]. split; [exact HR|]. split; [apply rle_refl|exact I]. }
  destruct (ri_view src segs r HR Hin) as (_ & Elen & Hrange & _ & tl & Er).
  pose proof (fc_scan_total punct_table opts o c (S (length (b_view r))) (b_view r) 0 opened cso (Nat.lt_succ_diag_r _)) as Hok.
  destruct (fc_scan punct_table (S (length (b_view r))) opts o c (b_view r) 0 opened cso) as [res| |] eqn:Escan;
    try (exfalso; exact Hok).
  cbn [bind]. destruct res as [i| |opened' cso'].
  - apply fc_scan_closed in Escan.
    destruct (ri_advance_rle src segs r (i + 1) HR) as (r' & E & HR' & Hle & _).
    { rewrite Er, zlen_app. pose proof (zlen_nonneg tl). lia. }
    rewrite E. cbn [bind]. eexists r', _. split; [reflexivity|]. split; [exact HR'|]. split; [exact Hle|].
    apply Forall_app. split; [exact Hret|]. constructor; [|constructor].
    unfold segp. cbn [seg_with_stop mksegp s_start s_stop]. lia.
  - exists r, None. split; [reflexivity|]. split; [exact HR|]. split; [apply rle_refl|exact I].
  - destruct (negb (o_newline opts)).
    + exists r, None. split; [reflexivity|]. split; [exact HR|]. split; [apply rle_refl|exact I].
    + destruct (ri_advance_line_rle src segs r HR) as (r1 & E1 & HR1 & Hle1 & _ & Hrest1).
      rewrite E1. cbn [bind]. specialize (Hrest1 Hin).
      destruct (IH r1 opened' cso' (ret ++ [b_pos r]) HR1) as (r' & res' & E' & HR' & Hle' & Hres').
      * destruct Hle1. lia.
      * apply Forall_app. split; [exact Hret|]. constructor; [|constructor]. unfold segp. lia.
      * rewrite Hrest1. rewrite Er, zlen_app in Hf. rewrite Er, zlen_app. lia.
      * exists r', res'. split; [exact E'|]. split; [exact HR'|]. split; [eapply rle_trans; eassumption|exact Hres'].
Qed.

Lemma ri_find_closure r o c : RI r ->
  exists r' res, b_find_closure punct_table (bfuel r) r o c link_fc_opts = Ok (r', res) /\ RI r' /\ rle r r' /\
    match res with None => True | Some l => Forall (segp (s_start (b_pos r))) l end.
Proof.
  intros HR. unfold b_find_closure, find_closure, b_position.
  destruct (ri_fc_lines link_fc_opts o c (s_start (b_pos r)) (bfuel r) r 1 0 [] HR) as (r' & res & E & HR' & Hle & Hres).
  - lia.
  - constructor.
  - apply (bfuel_bound src segs r HR).
  - rewrite E. cbn [bind link_fc_opts o_advance negb]. exists r', res. auto.
Qed.

(* ---------- Value of a list of segments ---------- *)
Lemma ri_b_value r sg first : RI r -> hd_error segs = Some first ->
  s_start first <= s_start sg -> s_start sg - 1 <= s_stop sg -> exists v, b_value r sg = Ok v.
Proof.
  intros HR Hf H1 H2. pose proof (ri_segs_ok src segs r HR) as Hok. destruct HR as (_ & Es & Eg & _).
  apply (b_value_total r sg first); [rewrite Es, Eg; exact Hok|rewrite Eg; exact Hf|exact H1|exact H2].
Qed.

Lemma ri_bvalues r first : RI r -> hd_error segs = Some first -> forall l,
  Forall (segp (s_start first)) l -> exists v, bvalues r l = Ok v.
Proof.
  intros HR Hf. induction l as [|a t IH]; intros Hl; [eexists; reflexivity|].
  inversion Hl as [|? ? Ha Ht]; subst. cbn [bvalues].
  destruct (ri_b_value r a first HR Hf) as [v Ev]; [apply Ha|destruct Ha; lia|].
  rewrite Ev. cbn [bind]. destruct (IH Ht) as [w Ew]. rewrite Ew. cbn [bind]. eexists. reflexivity.
Qed.

(* the first line starts no later than any reader position *)
Lemma ri_first_le r first : RI r -> hd_error segs = Some first -> b_in_range r = true -> s_start first <= s_start (b_pos r).
Proof.
  intros HR Hf Hin. pose proof (ri_segs_ok src segs r HR) as Hok. destruct HR as (H & Es & Eg & _).
  destruct (binv_in r H Hin) as (s & pre & post & Hn & El & Elen & Hsok & Ha & _).
  assert (Hf0 : nth_error (b_segs r) 0 = Some first) by (rewrite Eg; destruct segs; [discriminate|exact Hf]).
  destruct (Nat.eq_dec (Z.to_nat (b_line r)) 0) as [E0|E0].
  - rewrite E0 in Hn. rewrite Hf0 in Hn. inversion Hn; subst. exact Ha.
  - assert (X : s_stop first <= s_start s).
    { apply (sorted_nth (b_src r) (b_segs r) 0 (Z.to_nat (b_line r)) first s); try assumption; [apply (bi_segs r H)|lia]. }
    destruct (nth_facts _ _ _ _ (bi_segs r H) Hf0) as (_ & _ & _ & _ & Hfok & _). unfold seg_ok in Hfok. lia.
Qed.

End R3.

Section R4.
Variable src : bytes.
Variable segs : list seg.
Variable space_table punct_table : list N.
Variable first : seg.
Hypothesis Hfirst : hd_error segs = Some first.
Notation RI := (RI src segs).

Lemma ri_peek r : RI r -> b_peek r = Ok (if b_in_range r then hd 255%N (b_view r) else 255%N).
Proof. intros (H & _). apply b_peek_head. exact H. Qed.

Lemma ri_rest_pos r : RI r -> b_in_range r = true -> 1 <= zlen (b_rest r).
Proof.
  intros HR Hin. destruct (ri_view src segs r HR Hin) as (_ & Elen & Hrange & _ & tl & Er).
  rewrite Er, zlen_app. pose proof (zlen_nonneg tl). lia.
Qed.

Lemma ri_parse_link_dest r : RI r ->
  exists r' d, b_parse_link_destination space_table punct_table r = Ok (r', d) /\ RI r' /\ rle r r'.
Proof.
  intros HR. unfold b_parse_link_destination.
  destruct (ri_skip_spaces src segs space_table r HR) as (r1 & sg & ch & b & E1 & HR1 & Hle1).
  rewrite E1. cbn [bind]. rewrite (ri_peek_line src segs r1 HR1). cbn [bind].
  destruct (parse_link_destination space_table punct_table (line_of (if b_in_range r1 then Some (b_view r1) else None))) as [[d adv]|] eqn:Ep.
  - apply pld_bound in Ep. destruct (b_in_range r1) eqn:Hin; [|cbn in Ep; change (zlen (@nil N)) with 0 in Ep; lia].
    cbn [line_of] in Ep. destruct (ri_view src segs r1 HR1 Hin) as (_ & Elen & Hrange & _ & tl & Er).
    destruct (ri_advance_rle src segs r1 adv HR1) as (r2 & E2 & HR2 & Hle2 & _).
    { rewrite Er, zlen_app. pose proof (zlen_nonneg tl). lia. }
    rewrite E2. cbn [bind]. exists r2, (Some d). split; [reflexivity|]. split; [exact HR2|]. eapply rle_trans; eassumption.
  - exists r1, None. split; [reflexivity|]. split; [exact HR1|exact Hle1].
Qed.

Lemma ri_parse_link_title r : RI r ->
  exists r' t, parse_link_title space_table punct_table r = Ok (r', t) /\ RI r' /\ rle r r'.
Proof.
  intros HR. unfold parse_link_title.
  destruct (ri_skip_spaces src segs space_table r HR) as (r1 & sg & ch & b & E1 & HR1 & Hle1).
  rewrite E1. cbn [bind]. rewrite (ri_peek r1 HR1). cbn [bind].
  set (opener := if b_in_range r1 then hd 255%N (b_view r1) else 255%N).
  destruct (negb (N.eqb opener 34 || N.eqb opener 39 || N.eqb opener 40)) eqn:Eo.
  { exists r1, None. split; [reflexivity|]. split; [exact HR1|exact Hle1]. }
  assert (Hin : b_in_range r1 = true).
  { destruct (b_in_range r1) eqn:Hin; [reflexivity|]. unfold opener in Eo. cbn in Eo. discriminate. }
  destruct (ri_advance_rle src segs r1 1 HR1) as (r2 & E2 & HR2 & Hle2 & _ & Hm2).
  { pose proof (ri_rest_pos r1 HR1 Hin). lia. }
  rewrite E2. cbn [bind].
  destruct (ri_find_closure src segs punct_table r2 opener (if N.eqb opener 40 then 41%N else opener) HR2) as (r3 & res & E3 & HR3 & Hle3 & Hres).
  rewrite E3. cbn [bind].
  assert (Hle : rle r r3) by (eapply rle_trans; [exact Hle1|]; eapply rle_trans; eassumption).
  destruct res as [l|].
  - destruct (ri_bvalues src segs r3 first HR3 Hfirst l) as [v Ev].
    { eapply Forall_impl; [|exact Hres]. intros a Ha. eapply segp_mono; [|exact Ha].
      pose proof (ri_first_le src segs r1 first HR1 Hfirst Hin). lia. }
    rewrite Ev. cbn [bind]. eexists r3, _. split; [reflexivity|]. split; [exact HR3|exact Hle].
  - exists r3, None. split; [reflexivity|]. split; [exact HR3|exact Hle].
Qed.

Lemma ri_peek_advance1 r (K : breader -> result (breader * option (bytes * option bytes))) v :
  RI r -> (forall r1, RI r1 -> rle r r1 -> exists r' res, K r1 = Ok (r', res) /\ RI r' /\ rle r r') ->
  exists r' res, (pk <- b_peek r ;; if N.eqb pk 41 then (r1 <- b_advance r 1 ;; Ok (r1, Some v)) else K r) = Ok (r', res) /\ RI r' /\ rle r r'.
Proof.
  intros HR HK. rewrite (ri_peek r HR). cbn [bind].
  destruct (N.eqb (if b_in_range r then hd 255%N (b_view r) else 255%N) 41) eqn:E41.
  - assert (Hin : b_in_range r = true) by (destruct (b_in_range r); [reflexivity|discriminate]).
    destruct (ri_advance_rle src segs r 1 HR) as (r2 & E2 & HR2 & Hle2 & _).
    { pose proof (ri_rest_pos r HR Hin). lia. }
    rewrite E2. cbn [bind]. eexists r2, _. split; [reflexivity|]. auto.
  - apply HK; [exact HR|apply rle_refl].
Qed.

Lemma ri_parse_link r : RI r -> 1 <= zlen (b_rest r) ->
  exists r' res, parse_link space_table punct_table r = Ok (r', res) /\ RI r' /\ rle r r'.
Proof.
  intros HR Hrest. unfold parse_link.
  destruct (ri_advance_rle src segs r 1 HR) as (r1 & E1 & HR1 & Hle1 & _); [lia|].
  rewrite E1. cbn [bind].
  destruct (ri_skip_spaces_r src segs space_table r1 HR1) as (r2 & E2 & HR2 & Hle2).
  rewrite E2. cbn [bind].
  assert (Hle02 : rle r r2) by (eapply rle_trans; eassumption).
  destruct (ri_peek_advance1 r2 (fun r2 =>
      d <- b_parse_link_destination space_table punct_table r2 ;;
      let '(r0, dest) := d in
      match dest with
      | None => Ok (r0, None)
      | Some dest =>
        r3 <- skip_spaces_r space_table r0 ;;
        pk <- b_peek r3 ;;
        if N.eqb pk 41 then (r4 <- b_advance r3 1 ;; Ok (r4, Some (dest, None)))
        else
          t <- parse_link_title space_table punct_table r3 ;;
          let '(r4, title) := t in
          match title with
          | None => Ok (r4, None)
          | Some title =>
            r5 <- skip_spaces_r space_table r4 ;;
            pk <- b_peek r5 ;;
            if N.eqb pk 41 then (r6 <- b_advance r5 1 ;; Ok (r6, Some (dest, Some title)))
            else Ok (r5, None)
          end
      end) ([], None) HR2) as (r' & res & E & HR' & Hle').
  2:{ exists r', res. split; [exact E|]. split; [exact HR'|]. eapply rle_trans; eassumption. }
  intros ra HRa Hlea.
  destruct (ri_parse_link_dest ra HRa) as (rb & d & Eb & HRb & Hleb). rewrite Eb. cbn [bind].
  assert (Hle2b : rle r2 rb) by (eapply rle_trans; eassumption).
  destruct d as [dest|]; [|exists rb, None; auto].
  destruct (ri_skip_spaces_r src segs space_table rb HRb) as (rc & Ec & HRc & Hlec). rewrite Ec. cbn [bind].
  assert (Hle2c : rle r2 rc) by (eapply rle_trans; eassumption).
  destruct (ri_peek_advance1 rc (fun r3 =>
          t <- parse_link_title space_table punct_table r3 ;;
          let '(r4, title) := t in
          match title with
          | None => Ok (r4, None)
          | Some title =>
            r5 <- skip_spaces_r space_table r4 ;;
            pk <- b_peek r5 ;;
            if N.eqb pk 41 then (r6 <- b_advance r5 1 ;; Ok (r6, Some (dest, Some title)))
            else Ok (r5, None)
          end) (dest, None) HRc) as (r' & res & E & HR' & Hle').
  2:{ exists r', res. split; [exact E|]. split; [exact HR'|]. eapply rle_trans; eassumption. }
  intros rd HRd Hled.
  destruct (ri_parse_link_title rd HRd) as (re & t & Ee & HRe & Hlee). rewrite Ee. cbn [bind].
  assert (Hlece : rle rc re) by (eapply rle_trans; eassumption).
  destruct t as [title|]; [|exists re, None; auto].
  destruct (ri_skip_spaces_r src segs space_table re HRe) as (rf & Ef & HRf & Hlef). rewrite Ef. cbn [bind].
  assert (Hlecf : rle rc rf) by (eapply rle_trans; eassumption).
  destruct (ri_peek_advance1 rf (fun r5 => Ok (r5, None)) (dest, Some title) HRf) as (r' & res & E & HR' & Hle').
  { intros rg HRg Hleg. exists rg, None. auto. }
  exists r', res. split; [exact E|]. split; [exact HR'|]. eapply rle_trans; eassumption.
Qed.

End R4.

(* ---------- regular expressions that cannot match the empty string ---------- *)
Fixpoint re_nonempty (r : re) : bool :=
  match r with
  | RLit _ | RClass _ | RAny | RAnyNotNL => true
  | RCat a b => re_nonempty a || re_nonempty b
  | RAlt a b => re_nonempty a && re_nonempty b
  | RPlus _ a => re_nonempty a
  | RCap _ a => re_nonempty a
  | _ => false
  end.

Lemma matches_nonempty s r i j : Matches s r i j -> 0 <= i <= zlen s -> re_nonempty r = true -> i < j.
Proof.
  intros H. induction H as
    [i|x i r w Hd Hne He|rs i r w Hd Hne He|i r w Hd Hne|i r w Hd Hne He| |i He
    |a b i j k Ha IHa Hb IHb|a b i j Ha IHa|a b i j Hb IHb|g a i
    |g a i j k Ha IHa Hb IHb|g a i j k Ha IHa Hb IHb|g a i|g a i j Ha IHa|n a i j Ha IHa];
    intros Hi Hn; cbn [re_nonempty] in Hn; try discriminate;
    try (pose proof (rune_step_range s i r w (proj1 Hi) Hne Hd); lia).
  - pose proof (Matches_range _ _ _ _ Ha Hi) as Hj. assert (Hj' : 0 <= j <= zlen s) by lia.
    pose proof (Matches_range _ _ _ _ Hb Hj') as Hk.
    apply orb_prop in Hn. destruct Hn as [Hn|Hn]; [specialize (IHa Hi Hn)|specialize (IHb Hj' Hn)]; lia.
  - apply andb_prop in Hn. apply IHa; tauto.
  - apply andb_prop in Hn. apply IHb; tauto.
  - pose proof (Matches_range _ _ _ _ Ha Hi) as Hj. assert (Hj' : 0 <= j <= zlen s) by lia.
    pose proof (Matches_range _ _ _ _ Hb Hj') as Hk. specialize (IHa Hi Hn). lia.
  - apply IHa; assumption.
Qed.

Lemma re_find_range rx inp caps : re_find rx inp = Some caps ->
  exists a b, cap_at caps 0 = Some (a, b) /\ 0 <= a <= b /\ b <= zlen inp /\ (re_nonempty rx = true -> a < b).
Proof.
  intros H. destruct (re_find_sound rx inp caps H) as (i & j & Hc & Hij & Hj & Hm).
  exists i, j. split; [exact Hc|]. split; [exact Hij|]. split; [exact Hj|].
  intros Hn. apply (matches_nonempty inp rx i j Hm); [lia|exact Hn].
Qed.

Section R5.
Variable src : bytes.
Variable segs : list seg.
Variable space_table : list N.
Notation RI := (RI src segs).

(* ---------- the rune input of the regular expression engine ---------- *)
Lemma ri_rune_input : forall fuel r acc, RI r -> zlen (b_rest r) < Z.of_nat fuel ->
  exists v, rune_input fuel r acc = Ok v /\ zlen v <= zlen acc + zlen (b_rest r).
Proof.
  induction fuel as [|f IH]; intros r acc HR Hf; [pose proof (zlen_nonneg (b_rest r)); lia|].
  cbn [rune_input]. unfold b_read_rune, read_rune. rewrite (ri_peek_line src segs r HR). cbn [bind].
  destruct (b_in_range r) eqn:Hin.
  2:{ exists acc. split; [reflexivity|]. pose proof (zlen_nonneg (b_rest r)). lia. }
  destruct (ri_view src segs r HR Hin) as (_ & Elen & Hrange & _ & tl & Er).
  destruct (decode_rune (b_view r)) as [rn w] eqn:Ed.
  destruct (N.eqb_spec rn 65533) as [E|E].
  { cbn [bind]. exists acc. split; [reflexivity|]. pose proof (zlen_nonneg (b_rest r)). lia. }
  assert (Hne : b_view r <> []) by (intros X; rewrite X in Elen; change (zlen (@nil N)) with 0 in Elen; lia).
  destruct (decode_rune_width _ _ _ Hne Ed) as [Hw1 Hw2].
  destruct (ri_advance_rle src segs r (Z.of_N w) HR) as (r1 & E1 & HR1 & Hle1 & Hrest1 & _).
  { rewrite Er, zlen_app. pose proof (zlen_nonneg tl). unfold zlen at 1. lia. }
  rewrite E1. cbn [bind].
  destruct (IH r1 (acc ++ encode_rune rn) HR1) as (v & Ev & Hv); [lia|].
  exists v. split; [exact Ev|]. rewrite zlen_app in Hv.
  pose proof (encode_decode_len _ _ _ Ed E) as Hl.
  assert (Hl' : zlen (encode_rune rn) = Z.of_N w) by (unfold zlen; rewrite Hl; lia). lia.
Qed.

(* ---------- parseUntil ---------- *)
Lemma ri_raw_until closer : closer <> [] -> forall fuel r offset acc, RI r -> 0 <= offset ->
  zlen segs - b_line r < Z.of_nat fuel -> (0 < fuel)%nat ->
  exists res, raw_until fuel r closer offset acc = Ok res /\
    match res with
    | None => True
    | Some (sgs, r') => RI r' /\ rle r r' /\ zlen (b_rest r') < zlen (b_rest r)
    end.
Proof.
  intros Hcl. induction fuel as [|f IH]; intros r offset acc HR Hoff Hf Hf0; [lia|].
  cbn [raw_until]. rewrite (ri_peek_line src segs r HR). cbn [bind].
  destruct (b_in_range r) eqn:Hin; [|exists None; auto].
  destruct (ri_view src segs r HR Hin) as (_ & Elen & Hrange & _ & tl & Er).
  destruct (Z.ltb_spec (-1) (index_of closer (zskip offset (b_view r)) 0)) as [Hidx|Hidx].
  - destruct (index_of_bound closer _ 0 _ eq_refl Hidx) as [A B].
    assert (Hcl1 : 1 <= zlen closer) by (destruct closer; [congruence|rewrite zlen_cons; pose proof (zlen_nonneg closer); lia]).
    assert (Hoffle : offset <= zlen (b_view r)).
    { destruct (Z.le_gt_cases offset (zlen (b_view r))); [assumption|].
      assert (X : zskip offset (b_view r) = []) by (unfold zskip; apply skipn_all2; unfold zlen in *; lia).
      rewrite X in A, B. change (zlen (@nil N)) with 0 in B. lia. }
    rewrite zlen_zskip_eq in B by lia.
    destruct (ri_advance_rle src segs r (offset + index_of closer (zskip offset (b_view r)) 0 + zlen closer) HR) as (r1 & E1 & HR1 & Hle1 & Hrest1 & _).
    { rewrite Er, zlen_app. pose proof (zlen_nonneg tl). lia. }
    rewrite E1. cbn [bind]. eexists (Some (_, r1)). split; [reflexivity|]. split; [exact HR1|]. split; [exact Hle1|lia].
  - destruct (ri_advance_line_rle src segs r HR) as (r1 & E1 & HR1 & Hle1 & Hl1 & Hrest1).
    rewrite E1. cbn [bind]. specialize (Hrest1 Hin).
    pose proof (in_range_true r Hin) as [Hlr _]. destruct HR as (Hb & Es & Eg & Ep & Hp). rewrite Eg in Hlr.
    destruct (IH r1 0 (acc ++ [b_pos r]) HR1) as (res & Eres & Hres); [lia|lia|lia|].
    exists res. split; [exact Eres|]. destruct res as [[sgs r']|]; [|exact I].
    destruct Hres as (HR' & Hle' & Hlt'). split; [exact HR'|]. split; [eapply rle_trans; eassumption|].
    destruct Hle1. lia.
Qed.

(* ---------- PrecendingCharacter ---------- *)
Lemma ri_preceding r : RI r -> exists c, b_preceding r = Ok c.
Proof.
  intros HR. pose proof (ri_segs_ok src segs r HR) as Hok. destruct HR as (H & Es & Eg & Ep & Hp).
  unfold b_preceding, b_nsegs. rewrite Ep. cbn [negb Z.eqb]. rewrite Eg, Es.
  destruct (Z.ltb_spec (zlen segs) 1) as [Hn|Hn]; [eexists; reflexivity|].
  destruct (nth_error_ex segs 0) as [f0 Hf0]; [lia|].
  rewrite (seg_at_ok _ _ f0) by (try lia; exact Hf0). cbn [bind].
  destruct ((b_line r =? 0) && (s_start (b_pos r) <=? s_start f0)); [eexists; reflexivity|].
  pose proof (bi_line r H) as Hl0.
  assert (Hcur : exists cur, (if (0 <? b_line r) && (b_line r <? zlen segs) then seg_at segs (b_line r) else Ok f0) = Ok cur).
  { destruct ((0 <? b_line r) && (b_line r <? zlen segs)) eqn:Ec; [|eexists; reflexivity].
    destruct (nth_error_ex segs (b_line r)) as [t Ht]; [lia|]. rewrite (seg_at_ok _ _ t) by (try lia; exact Ht). eexists. reflexivity. }
  destruct Hcur as [cur Ecur]. rewrite Ecur. cbn [bind].
  destruct ((0 <? b_line r) && (b_line r <? zlen segs) && (s_start (b_pos r) <=? s_start cur)) eqn:Ec.
  - destruct (nth_error_ex segs (b_line r - 1)) as [pv Hpv]; [lia|].
    rewrite (seg_at_ok _ _ pv) by (try lia; exact Hpv). cbn [bind].
    destruct (nth_facts _ _ _ _ Hok Hpv) as (_ & _ & _ & _ & Hpok & _). unfold seg_ok in Hpok.
    destruct ((s_start pv <? s_stop pv) && (s_stop pv <=? zlen src)); [|eexists; reflexivity].
    destruct (Z.ltb_spec (s_start pv) 0); [lia|eexists; reflexivity].
  - destruct ((s_start (b_pos r) - 1 <? 0) || (zlen src <=? s_start (b_pos r) - 1)); [eexists; reflexivity|].
    destruct (rune_start_before _ _); eexists; reflexivity.
Qed.

End R5.

Require Import GM.proofs.MiscProofs.

Section R6.
Variable src : bytes.
Variable segs : list seg.
Variable space_table : list N.
Notation RI := (RI src segs).

Lemma b_advance_line_head r r1 : b_advance_line r = Ok r1 -> b_head r1 = s_start (b_pos r1).
Proof.
  unfold b_advance_line. destruct (b_set_position r (b_line r + 1) (mkseg (-1) (-1))) as [r'| |]; cbn [bind]; try discriminate.
  intros E. inversion E. reflexivity.
Qed.

(* ---------- parseMultiLineRegexp ---------- *)
Lemma ri_raw_regexp_lines sline sstart eline estart :
  (forall s, nth_error segs (Z.to_nat eline) = Some s -> s_start s <= estart <= s_stop s) -> 0 <= eline ->
  sstart <= estart ->
  forall fuel r acc, RI r -> sline <= b_line r -> (b_line r = sline -> s_start (b_pos r) = sstart) ->
    (b_line r <> sline -> s_start (b_pos r) = b_head r) ->
    zlen segs - b_line r < Z.of_nat fuel -> (0 < fuel)%nat ->
  exists sgs r', raw_regexp_lines fuel r sline sstart eline estart acc = Ok (sgs, r') /\ RI r' /\ rle r r' /\
    (b_in_range r = true -> b_line r = sline -> sstart < estart -> zlen (b_rest r') < zlen (b_rest r)).
Proof.
  intros HE He0 Hse. induction fuel as [|f IH]; intros r acc HR Hsl Q2 Q3 Hf Hf0; [lia|].
  cbn [raw_regexp_lines]. rewrite (ri_peek_line src segs r HR). cbn [bind].
  destruct (b_in_range r) eqn:Hin.
  2:{ exists acc, r. split; [reflexivity|]. split; [exact HR|]. split; [apply rle_refl|]. discriminate. }
  destruct (ri_view src segs r HR Hin) as (_ & Elen & Hrange & _ & tl & Er).
  pose proof HR as (Hb & Es & Eg & Ep & Hp).
  destruct (binv_in r Hb Hin) as (s & pre & post & Hn & El & Ell & Hok & Ha & Hbb & Hc & Hd & Hle & _).
  pose proof (in_range_true r Hin) as [Hlr _]. rewrite Eg in Hlr, Hn.
  destruct (Z.eqb_spec (b_line r) eline) as [Ee|Ee].
  - specialize (HE s). rewrite <- Ee in HE. specialize (HE Hn).
    set (start := if b_line r =? sline then sstart else s_start (b_pos r)).
    assert (Hst : start = s_start (b_pos r) /\ s_start (b_pos r) <= estart).
    { unfold start. destruct (Z.eqb_spec (b_line r) sline) as [E1|E1].
      - rewrite (Q2 E1). split; [reflexivity|lia].
      - split; [reflexivity|]. rewrite (Q3 E1), Hd. lia. }
    destruct Hst as [Est Hst].
    destruct (ri_advance_rle src segs r (estart - start) HR) as (r1 & E1 & HR1 & Hle1 & Hrest1 & _).
    { rewrite Er, zlen_app. pose proof (zlen_nonneg tl). lia. }
    rewrite E1. cbn [bind]. eexists _, r1. split; [reflexivity|]. split; [exact HR1|]. split; [exact Hle1|].
    intros _ E2 Hlt. rewrite (Q2 E2) in Est. lia.
  - destruct (ri_advance_line_rle src segs r HR) as (r1 & E1 & HR1 & Hle1 & Hl1 & Hrest1).
    rewrite E1. cbn [bind]. specialize (Hrest1 Hin).
    destruct (IH r1 (acc ++ [mkseg (if b_line r =? sline then sstart else s_start (b_pos r)) (s_stop (b_pos r))]) HR1) as (sgs & r' & E' & HR' & Hle' & _);
      try lia.
    + intros _. symmetry. apply (b_advance_line_head r r1 E1).
    + exists sgs, r'. split; [exact E'|]. split; [exact HR'|]. split; [eapply rle_trans; eassumption|].
      intros _ _ _. destruct Hle'. lia.
Qed.

(* the reader side of parseSingleLineRegexp / parseMultiLineRegexp *)
Lemma ri_raw_regexp_reader r0 : RI r0 -> b_in_range r0 = true ->
  exists inp r1, rune_input (S (length (b_src r0))) r0 [] = Ok inp /\
    b_set_position r0 (b_line r0) (b_pos r0) = Ok r1 /\ RI r1 /\ rle r0 r1 /\
    forall a b, 0 <= a <= b -> b <= zlen inp ->
      exists r2 r3 sgs r4, b_advance r1 (b - a) = Ok r2 /\ b_set_position r2 (b_line r0) (b_pos r0) = Ok r3 /\
        raw_regexp_lines (S (length (b_segs r3))) r3 (b_line r0) (s_start (b_pos r0)) (b_line r2) (s_start (b_pos r2)) [] = Ok (sgs, r4) /\
        RI r4 /\ rle r0 r4 /\ (a < b -> zlen (b_rest r4) < zlen (b_rest r0)).
Proof.
  intros HR0 Hin0. pose proof HR0 as (Hb0 & Es0 & Eg0 & Ep0 & Hp0).
  assert (Hne : segs <> []).
  { intros X. apply in_range_true in Hin0. rewrite Eg0, X in Hin0. change (zlen (@nil seg)) with 0 in Hin0. pose proof (bi_line r0 Hb0). lia. }
  destruct (ri_rune_input src segs (S (length (b_src r0))) r0 [] HR0) as (inp & Einp & Hinp).
  { pose proof (ri_rest_le src segs r0 HR0). rewrite Es0. unfold zlen in *. lia. }
  exists inp. destruct (ri_set_position src segs r0 r0 HR0 HR0 Hne) as (r1 & E1 & HR1 & L1 & P1).
  exists r1. split; [exact Einp|]. split; [exact E1|]. split; [exact HR1|].
  destruct (ri_same_pos src segs r1 r0 HR1 HR0 L1 P1) as (Ein1 & Ev1 & Er1).
  split; [split; [rewrite Er1; lia|rewrite P1; lia]|].
  intros a b Hab Hb. change (zlen (@nil N)) with 0 in Hinp.
  destruct (ri_advance_rle src segs r1 (b - a) HR1) as (r2 & E2 & HR2 & Hle2 & Hrest2 & Hm2); [rewrite Er1; lia|].
  destruct (ri_set_position src segs r2 r0 HR2 HR0 Hne) as (r3 & E3 & HR3 & L3 & P3).
  destruct (ri_same_pos src segs r3 r0 HR3 HR0 L3 P3) as (Ein3 & Ev3 & Er3).
  pose proof HR2 as (Hb2 & Es2 & Eg2 & Ep2 & _). pose proof HR3 as (Hb3 & Es3 & Eg3 & _).
  destruct (ri_raw_regexp_lines (b_line r0) (s_start (b_pos r0)) (b_line r2) (s_start (b_pos r2))) with (fuel := S (length (b_segs r3))) (r := r3) (acc := @nil seg)
    as (sgs & r4 & E4 & HR4 & Hle4 & Hlt4); try assumption; try lia.
  - intros s Hs. rewrite <- Eg2 in Hs. destruct (bi_pos r2 Hb2 s Hs) as (A1 & _). exact A1.
  - apply (bi_line r2 Hb2).
  - rewrite P1 in Hm2. lia.
  - intros _. rewrite P3. reflexivity.
  - rewrite Eg3. pose proof (bi_line r0 Hb0). unfold zlen. lia.
  - exists r2, r3, sgs, r4. split; [exact E2|]. split; [exact E3|]. split; [exact E4|]. split; [exact HR4|].
    split.
    + destruct Hle4 as [X1 X2]. split; [rewrite <- Er3; exact X1|rewrite <- P3; exact X2].
    + intros Hlt. rewrite <- Er3. apply Hlt4; [rewrite Ein3; exact Hin0|exact L3|]. rewrite P1 in Hm2. lia.
Qed.

(* ---------- code spans ---------- *)
Definition vseg (s : seg) : Prop := 0 <= s_start s <= s_stop s /\ s_stop s <= zlen src /\ s_pad s = 0 /\ s_fnl s = false.

Lemma ri_pos_vseg r : RI r -> b_in_range r = true -> vseg (b_pos r).
Proof.
  intros HR Hin. destruct (ri_view src segs r HR Hin) as (_ & _ & Hrange & Hstop & _).
  destruct HR as (Hb & _ & _ & Ep & _). unfold vseg. pose proof (bi_fnl r Hb). repeat split; try lia; assumption.
Qed.

Lemma ri_code_span_lines opener : 0 <= opener -> forall fuel r acc, RI r -> Forall vseg acc ->
  zlen segs - b_line r < Z.of_nat fuel -> (0 < fuel)%nat ->
  exists res, code_span_lines fuel r opener acc = Ok res /\
    match res with None => True | Some (sgs, r') => RI r' /\ rle r r' /\ Forall vseg sgs end.
Proof.
  intros Ho. induction fuel as [|f IH]; intros r acc HR Hacc Hf Hf0; [lia|].
  cbn [code_span_lines]. rewrite (ri_peek_line src segs r HR). cbn [bind].
  destruct (b_in_range r) eqn:Hin; [|exists None; auto].
  destruct (ri_view src segs r HR Hin) as (_ & Elen & Hrange & Hstop & tl & Er).
  pose proof (ri_pos_vseg r HR Hin) as Hv.
  destruct (find_closer (S (length (b_view r))) (b_view r) 0 opener) as [i|] eqn:Efc.
  - apply find_closer_bound in Efc; [|exact Ho].
    destruct (ri_advance_rle src segs r i HR) as (r1 & E1 & HR1 & Hle1 & _).
    { rewrite Er, zlen_app. pose proof (zlen_nonneg tl). lia. }
    rewrite E1. cbn [bind]. eexists (Some (_, r1)). split; [reflexivity|]. split; [exact HR1|]. split; [exact Hle1|].
    destruct (seg_is_empty (seg_with_stop (b_pos r) (s_start (b_pos r) + i - opener))); [exact Hacc|].
    apply Forall_app. split; [exact Hacc|]. constructor; [|constructor].
    destruct Hv as (V1 & V2 & V3 & V4). unfold vseg. cbn [seg_with_stop mksegp s_start s_stop s_pad s_fnl]. repeat split; try lia; assumption.
  - destruct (ri_advance_line_rle src segs r HR) as (r1 & E1 & HR1 & Hle1 & Hl1 & _).
    rewrite E1. cbn [bind].
    pose proof (in_range_true r Hin) as [Hlr _]. destruct HR as (Hb & Es & Eg & Ep & Hp). rewrite Eg in Hlr.
    destruct (IH r1 (acc ++ [b_pos r]) HR1) as (res & Eres & Hres); [|lia|lia|].
    { apply Forall_app. split; [exact Hacc|]. constructor; [exact Hv|constructor]. }
    exists res. split; [exact Eres|]. destruct res as [[sgs r']|]; [|exact I].
    destruct Hres as (HR' & Hle' & Hv'). split; [exact HR'|]. split; [eapply rle_trans; eassumption|exact Hv'].
Qed.

Lemma all_blank_total : forall sgs, Forall vseg sgs -> exists b, all_blank space_table src sgs = Ok b.
Proof.
  induction sgs as [|a t IH]; intros H; [eexists; reflexivity|]. inversion H as [|? ? Ha Ht]; subst. cbn [all_blank].
  destruct Ha as (V1 & V2 & V3 & V4). destruct (seg_value_total src a) as [v Ev]; [unfold seg_range; lia|lia|].
  rewrite Ev. cbn [bind]. destruct (is_blank space_table v); [apply IH; exact Ht|eexists; reflexivity].
Qed.

Lemma ri_code_span_parse r : RI r -> b_in_range r = true -> hd 255%N (b_view r) = 96%N ->
  exists res r', code_span_parse space_table r = Ok (res, r') /\ RI r' /\ rle r r' /\
    zlen (b_rest r') < zlen (b_rest r) /\
    match res with inl _ => True | inr sg => 0 <= s_start sg <= s_stop sg /\ s_stop sg <= zlen src end.
Proof.
  intros HR Hin Hhd. unfold code_span_parse. rewrite (ri_peek_line src segs r HR). cbn [bind]. rewrite Hin.
  destruct (ri_view src segs r HR Hin) as (_ & Elen & Hrange & Hstop & tl & Er).
  pose proof (br_count_byte_range 96%N (b_view r)) as Hc.
  assert (Hc1 : 1 <= count_byte 96 (b_view r)).
  { destruct (b_view r) as [|c t]; [cbn in Hhd; discriminate|]. cbn in Hhd. subst c. pose proof (br_count_byte_head 96%N t). lia. }
  destruct (ri_advance_rle src segs r (count_byte 96 (b_view r)) HR) as (r1 & E1 & HR1 & Hle1 & Hrest1 & _).
  { rewrite Er, zlen_app. pose proof (zlen_nonneg tl). lia. }
  rewrite E1. cbn [bind].
  pose proof HR1 as (Hb1 & Es1 & Eg1 & Ep1 & Hp1).
  assert (Hne : segs <> []).
  { intros X. pose proof HR as (Hb & _ & Eg & _). apply in_range_true in Hin. rewrite Eg, X in Hin. change (zlen (@nil seg)) with 0 in Hin. pose proof (bi_line r Hb). lia. }
  destruct (ri_code_span_lines (count_byte 96 (b_view r))) with (fuel := S (length (b_segs r1))) (r := r1) (acc := @nil seg) as (res & Eres & Hres);
    try assumption; try lia.
  { constructor. }
  { rewrite Eg1. pose proof (bi_line r1 Hb1). unfold zlen. lia. }
  rewrite Eres. cbn [bind]. destruct res as [[sgs r2]|].
  - destruct Hres as (HR2 & Hle2 & Hv2). pose proof HR2 as (_ & Es2 & _). rewrite Es2.
    assert (Hfin : RI r2 /\ rle r r2 /\ zlen (b_rest r2) < zlen (b_rest r)).
    { split; [exact HR2|]. split; [eapply rle_trans; eassumption|]. destruct Hle2. lia. }
    destruct (all_blank_total sgs Hv2) as [bl Ebl]. rewrite Ebl. cbn [bind].
    destruct bl; [eexists (inl _), r2; split; [reflexivity|tauto]|].
    destruct sgs as [|fs sgs']; [cbn in Ebl; inversion Ebl|].
    destruct (rev (fs :: sgs')) as [|ls rl] eqn:Erev.
    { apply (f_equal (@length seg)) in Erev. rewrite rev_length in Erev. discriminate. }
    assert (Hls : vseg ls).
    { rewrite Forall_forall in Hv2. apply Hv2. apply in_rev. rewrite Erev. left. reflexivity. }
    assert (Hfs : vseg fs) by (inversion Hv2; assumption).
    assert (Hcf : exists cf, (if seg_is_empty fs then Ok false else c <- at_ src (s_start fs) ;; Ok (is_space_or_newline c)) = Ok cf).
    { destruct (seg_is_empty fs) eqn:Ee; [eexists; reflexivity|]. destruct Hfs as (V1 & V2 & V3 & V4).
      unfold seg_is_empty in Ee. rewrite V3 in Ee. unfold at_.
      replace ((0 <=? s_start fs) && (s_start fs <? zlen src)) with true by lia. cbn [bind]. eexists. reflexivity. }
    destruct Hcf as [cf Ecf]. rewrite Ecf. cbn [bind].
    assert (Hcl : exists cl, (if seg_is_empty ls then Ok false else c <- at_ src (s_stop ls - 1) ;; Ok (is_space_or_newline c)) = Ok cl).
    { destruct (seg_is_empty ls) eqn:Ee; [eexists; reflexivity|]. destruct Hls as (V1 & V2 & V3 & V4).
      unfold seg_is_empty in Ee. rewrite V3 in Ee. unfold at_.
      replace ((0 <=? s_stop ls - 1) && (s_stop ls - 1 <? zlen src)) with true by lia. cbn [bind]. eexists. reflexivity. }
    destruct Hcl as [cl Ecl]. rewrite Ecl. cbn [bind].
    destruct (cf && cl)%bool; eexists (inl _), r2; (split; [reflexivity|tauto]).
  - destruct (ri_set_position src segs r1 r1 HR1 HR1 Hne) as (r2 & E2 & HR2 & L2 & P2).
    (* the reader after the failed scan is not r1 itself: code_span_lines returned None and dropped it;
       the model restores the position on the reader it holds, which is r1 *)
    rewrite E2. cbn [bind]. eexists (inr _), r2. split; [reflexivity|]. split; [exact HR2|].
    destruct (ri_same_pos src segs r2 r1 HR2 HR1 L2 P2) as (_ & _ & Er2).
    split; [split; [rewrite Er2; destruct Hle1; lia|rewrite P2; destruct Hle1; lia]|].
    split; [rewrite Er2; lia|]. cbn [seg_with_stop mksegp s_start s_stop]. lia.
Qed.

End R6.
