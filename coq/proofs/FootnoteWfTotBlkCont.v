(* Helper file for ParseBlocksTotal.v: the container block parsers (block quote, list, list item)
   under the state invariant SI, and the protocol between the list and the list item parsers. *)
Require Import GM.model.Base GM.model.Util GM.model.Reader GM.model.ReaderSpec GM.model.Blocks GM.model.ListItem
               GM.model.LeafBlocks GM.model.CodeBlock GM.model.LinkDest GM.model.Regex GM.model.BlockParse.
Require Import GM.proofs.MiscProofs GM.proofs.ReaderProofs GM.proofs.BlocksProofs GM.proofs.BlockRangeProofs
               GM.proofs.ParseBlocksTotalReader GM.proofs.FootnoteWfTotBlkDefs GM.proofs.FootnoteWfTotBlkSpec
               GM.proofs.FootnoteWfTotBlkSt.
Require GM.proofs.FootnoteWfTotBlkContBq GM.proofs.FootnoteWfTotBlkContOpen GM.proofs.FootnoteWfTotBlkContItem
        GM.proofs.FootnoteWfTotBlkContClose.
From Coq Require Import ZArith Lia List Bool.
Open Scope Z_scope.

Section S.
Variable space_table : list N.
Variable src : bytes.
Variable lst : option nat.
Hypothesis tbl : TblOK space_table.
Notation SI := (SI space_table src lst).
Notation open_post := (open_post space_table src lst).
Notation cont_post := (cont_post space_table src lst).
Notation close_post := (close_post space_table src lst).

(* ---------- block quote ---------- *)
Lemma bq_open_ok s parent : SI s -> sin s ->
  exists s' o, bq_open s = Ok (s', o) /\ open_post PBlockquote parent s s' o.
Proof using All. intros HS Hin. exact (GM.proofs.FootnoteWfTotBlkContBq.bq_open_ok_aux space_table src lst s parent HS Hin). Qed.

Lemma bq_continue_ok s node : SI s -> sin s ->
  exists s' cont, bq_continue s = Ok (s', cont) /\ cont_post PBlockquote node s s' cont true.
Proof using All. intros HS Hin. exact (GM.proofs.FootnoteWfTotBlkContBq.bq_continue_ok_aux space_table src lst s node HS Hin). Qed.

(* ---------- list: Open ---------- *)
(* the list parser declines when the last opened block is a list or the skip flag is set *)
Lemma list_open_ok s parent : SI s -> sin s ->
  exists s' o, list_open space_table s parent = Ok (s', o) /\ open_post PList parent s s' o /\
    (((exists l lp ln, last_opened (s_c s) = Some (l, lp) /\ nth_error (s_h s) l = Some ln /\ bk ln = BList) \/
      c_skip_list (s_c s) = true) -> o = None).
Proof using All. intros HS Hin. exact (GM.proofs.FootnoteWfTotBlkContOpen.list_open_ok_aux space_table src lst s parent HS Hin). Qed.

(* the list item parser opens an item exactly below a List node when the line is a list item *)
Lemma list_item_open_ok s parent pn : SI s -> sin s -> nth_error (s_h s) parent = Some pn ->
  exists s' o, list_item_open_s space_table s parent = Ok (s', o) /\ open_post PListItem parent s s' o /\
    (bk pn = BList -> snd (parse_list_item (sview s)) <> 0%N -> o <> None) /\
    (bk pn <> BList -> o = None).
Proof using All. intros HS Hin Hn. exact (GM.proofs.FootnoteWfTotBlkContItem.list_item_open_ok space_table src lst tbl s parent pn HS Hin Hn). Qed.

(* ---------- list: Close ---------- *)
Lemma list_close_ok s node n : SI s -> nth_error (s_h s) node = Some n -> bk n = BList ->
  exists s', list_close s node = Ok s' /\ close_post PList node s s'.
Proof using All. intros HS Hn Hk. exact (GM.proofs.FootnoteWfTotBlkContClose.list_close_ok space_table src lst s node n HS Hn Hk). Qed.

(* ---------- pure facts about list item lines used by the dispatch ---------- *)

Lemma pbc_nth_byte_cons c (r : bytes) i : 0 <= i -> nth_byte (c :: r) (1 + i) = nth_byte r i.
Proof. intros Hi. unfold nth_byte. replace (Z.to_nat (1 + i)) with (S (Z.to_nat i)) by lia. reflexivity. Qed.

Lemma pbc_indent_pos_count_blanks (line : bytes) : forall cur w pos,
  count_blanks line < zlen line -> nth_byte line (count_blanks line) <> 9%N ->
  indent_width_pos line cur w pos = (w + count_blanks line, pos + count_blanks line).
Proof.
  induction line as [|c r IH]; intros cur w pos Hlt H9.
  - cbn in Hlt. lia.
  - cbn [count_blanks indent_width_pos] in *. pose proof (br_count_blanks_range r) as Hr.
    destruct (N.eqb_spec c 32) as [E|E].
    + rewrite zlen_cons in Hlt. rewrite pbc_nth_byte_cons in H9 by lia. rewrite IH by (assumption || lia). f_equal; lia.
    + change (nth_byte (c :: r) 0) with c in H9. destruct (N.eqb_spec c 9) as [E9|E9]; [contradiction|]. f_equal; lia.
Qed.

Lemma pbc_count_digits_head (l : bytes) : count_digits l <> 0 -> (48 <= nth_byte l 0 <= 57)%N.
Proof.
  destruct l as [|c r]; cbn [count_digits]; [congruence|]. change (nth_byte (c :: r) 0) with c.
  destruct (N.leb_spec 48 c); destruct (N.leb_spec c 57); cbn [andb]; try congruence. intros _. lia.
Qed.

Lemma pbc_nth_byte_zskip (l : bytes) i : 0 <= i -> nth_byte (zskip i l) 0 = nth_byte l i.
Proof. intros Hi. unfold nth_byte, zskip. rewrite nth_skipn_add. f_equal. lia. Qed.

Definition is_marker (c : N) : Prop := c = 45%N \/ c = 42%N \/ c = 43%N \/ (48 <= c <= 57)%N.

(* on a list item line the indentation is at most three blanks and the first non-blank byte is
   the marker (a bullet or a digit) *)
Lemma list_line_indent (line : bytes) (off : Z) : snd (parse_list_item line) <> 0%N ->
  exists w pos, indent_width line off = (w, pos) /\ 0 <= w <= 3 /\ 0 <= pos < zlen line /\ w < zlen line /\
                is_marker (nth_byte line pos).
Proof using All.
  intros H. unfold parse_list_item in H. cbv zeta in H.
  pose proof (br_count_blanks_range line) as Hb.
  destruct (Z.ltb_spec 3 (count_blanks line)) as [H3|H3]; [cbn in H; congruence|].
  destruct (Z.leb_spec (zlen line) (count_blanks line)) as [Hl|Hl]; [cbn in H; congruence|].
  assert (Hm : is_marker (nth_byte line (count_blanks line))).
  { unfold is_marker.
    destruct (N.eqb_spec (nth_byte line (count_blanks line)) 45) as [E|E]; [auto|].
    destruct (N.eqb_spec (nth_byte line (count_blanks line)) 42) as [E1|E1]; [auto|].
    destruct (N.eqb_spec (nth_byte line (count_blanks line)) 43) as [E2|E2]; [auto|].
    cbn [orb] in H. right. right. right.
    destruct (Z.eqb_spec (count_digits (zskip (count_blanks line) line)) 0) as [E0|E0]; [cbn in H; congruence|].
    apply pbc_count_digits_head in E0. rewrite pbc_nth_byte_zskip in E0 by lia. exact E0. }
  exists (count_blanks line), (count_blanks line). unfold indent_width.
  rewrite pbc_indent_pos_count_blanks; [|lia|].
  - csplit; auto; lia.
  - unfold is_marker in Hm. intros E. rewrite E in Hm. lia.
Qed.

(* the dispatch list of a marker byte *)
Lemma candidates_marker (c : N) : is_marker c ->
  exists pre, candidates c = pre ++ PList :: PListItem :: free_parsers /\
              (forall p, In p pre -> p = PSetext \/ p = PThematic) /\
              ((c = 45%N \/ c = 42%N) -> In PThematic pre).
Proof using All.
  intros [->|[->|[->|Hd]]].
  - exists [PSetext; PThematic]. csplit; [reflexivity| |intros _; cbn; auto]. cbn [In]. intros p [<-|[<-|[]]]; auto.
  - exists [PThematic]. csplit; [reflexivity| |intros _; cbn; auto]. cbn [In]. intros p [<-|[]]; auto.
  - exists []. csplit; [reflexivity| |intros [E|E]; discriminate]. cbn [In]. tauto.
  - exists []. csplit; [| cbn [In]; tauto | intros [E|E]; lia]. unfold candidates.
    destruct (N.eqb_spec c 45); [lia|]. destruct (N.eqb_spec c 61); [lia|]. destruct (N.eqb_spec c 42); [lia|].
    destruct (N.eqb_spec c 95); [lia|]. destruct (N.eqb_spec c 43); [lia|]. destruct (N.eqb_spec c 35); [lia|].
    destruct (N.eqb_spec c 126); [lia|]. destruct (N.eqb_spec c 96); [lia|]. destruct (N.eqb_spec c 62); [lia|].
    destruct (N.eqb_spec c 60); [lia|]. destruct (N.leb_spec 48 c); [|lia]. destruct (N.leb_spec c 57); [|lia].
    reflexivity.
Qed.

(* a line whose first non-blank byte is '+' or a digit is not a thematic break *)
Lemma marker_not_thematic (line : bytes) (off w pos : Z) : indent_width line off = (w, pos) -> 0 <= pos < zlen line ->
  (nth_byte line pos = 43%N \/ (48 <= nth_byte line pos <= 57)%N) ->
  is_thematic_break space_table line off = false.
Proof using All.
  intros Hiw Hpos Hc. unfold is_thematic_break. rewrite Hiw. destruct (3 <? w); [reflexivity|].
  unfold zskip. rewrite skipn_split by exact Hpos. fold (nth_byte line pos). cbn [tb_scan].
  rewrite tbl. set (c := nth_byte line pos) in *.
  destruct (N.eqb_spec c 9); [lia|]. destruct (N.eqb_spec c 10); [lia|]. destruct (N.eqb_spec c 13); [lia|].
  destruct (N.eqb_spec c 32); [lia|]. cbn [orb]. change (N.eqb 0 0) with true. cbv iota.
  destruct (N.eqb_spec c 42); [lia|]. destruct (N.eqb_spec c 45); [lia|]. destruct (N.eqb_spec c 95); [lia|].
  reflexivity.
Qed.

End S.
