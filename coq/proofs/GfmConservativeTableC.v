(* C11 for the GFM parser model, Table extension, part C: on a source without '-' the block driver
   with the Table extension on (model/BlockParseX.v, table_on = true) is the driver of the default
   parser lifted through the state, as long as the block-phase invariant of ParseBlocksRange holds.
   This file: transformParagraph and closeBlocks. *)
Require Import GM.model.Base GM.model.Util GM.model.Reader GM.model.ReaderSpec GM.model.Blocks GM.model.ListItem
               GM.model.LeafBlocks GM.model.CodeBlock GM.model.LinkDest GM.model.Regex GM.model.HtmlWriter
               GM.model.Html GM.model.HtmlSpec GM.model.TableX GM.model.BlockParse GM.model.BlockParseX GM.model.InlineParse.
Require Import GM.proofs.ReaderProofs GM.proofs.BlockRangeProofs GM.proofs.ParseInv
               GM.proofs.ParseBlocksRangeA GM.proofs.ParseBlocksRangeB GM.proofs.ParseBlocksRangeC
               GM.proofs.ParseBlocksRangeD GM.proofs.ParseBlocksRangeE
               GM.proofs.ParseBlocksRangeG GM.proofs.ParseBlocksRangeH GM.proofs.ParseBlocksRangeI GM.proofs.ParseBlocksRangeJ
               GM.proofs.ParseBlocksRangeL.
Require Import GM.proofs.GfmConservativeDefs GM.proofs.GfmConservativeTableA GM.proofs.GfmConservativeBlk.
From Coq Require Import List ZArith NArith Bool Lia Sorted.
Import ListNotations.
Open Scope Z_scope.

(* a segment inside the source has a value *)
Lemma gct_seg_inr_value src sg : seg_inr src sg -> exists v, seg_value src sg = Ok v.
Proof.
  unfold seg_inr, seg_value, slice. intros [[H0 H1] [H2 H3]].
  replace ((0 <=? s_start sg) && (s_start sg <=? s_stop sg) && (s_stop sg <=? zlen src))%bool with true by lia.
  cbn [bind]. replace (s_pad sg <? 0) with false by lia.
  destruct (s_fnl sg); [|eauto].
  match goal with |- context [rev ?r] => destruct (rev r) as [|c t] end; [eauto|].
  destruct (N.eqb c 10); eauto.
Qed.

Section C.
Variable space_table punct_table : list N.
Variable norm : bytes -> bytes.
Variable re_t1o re_t1c re_t2 re_t3 re_t4 re_t5 re_t6 re_t7 : re.
Variable allowed_tags : list bytes.
Variable src : bytes.
Hypothesis sp32 : is_space space_table 32%N = true.
Hypothesis Hsrc : bytes_ok src.
Hypothesis Hnd : ~ In 45%N src.
Set Default Proof Using "All".

Notation SInv := (SInv space_table src).
Notation OInv := (OInv space_table src).
Notation CE f := (f space_table punct_table norm re_t1o re_t1c re_t2 re_t3 re_t4 re_t5 re_t6 re_t7 allowed_tags src sp32) (only parsing).
Notation CJ f := (f space_table punct_table norm re_t1o re_t1c re_t2 re_t3 re_t4 re_t5 re_t6 re_t7 allowed_tags src sp32 Hsrc) (only parsing).
Notation p_close := (p_close space_table).
Notation TP := (transform_paragraph space_table punct_table norm).
Notation TPX := (transform_paragraphX true space_table punct_table norm).
Notation CR := (close_range space_table punct_table norm).
Notation CRX := (close_rangeX true space_table punct_table norm).
Notation CB := (close_blocks space_table punct_table norm).
Notation CBX := (close_blocksX true space_table punct_table norm).

(* ---------- tableParagraphTransformer.Transform on a node whose lines are inside the source ---------- *)
Lemma table_transform_none x node n :
  src_of (bx_s x) = src -> nth_error (s_h (bx_s x)) node = Some n -> Forall (seg_inr src) (blines n) ->
  table_transform space_table x node = Ok x.
Proof.
  intros Es En Hl. unfold table_transform, hget. rewrite En. cbn [bind]. rewrite Es.
  rewrite (transform_no_dash space_table src (blines n) Hnd); [reflexivity|].
  intros l Hin. apply gct_seg_inr_value. rewrite Forall_forall in Hl. exact (Hl l Hin).
Qed.

(* ---------- transformParagraph on the last of the blocks being closed ---------- *)
Lemma transform_paragraphX_on fl x node A D N :
  SInv fl (bx_s x) A (D ++ [(node, PParagraph)]) N ->
  TPX x node = (y <- TP (bx_s x) node ;; Ok (stx_s x (fst y), snd y)).
Proof.
  intros HS. destruct (TP (bx_s x) node) as [[s2 gone]| |] eqn:Et.
  - destruct (CJ transform_paragraph_ok fl (bx_s x) node s2 gone A D N HS Et) as [_ [_ [_ [_ [_ [T6 [_ T8]]]]]]].
    unfold transform_paragraph in Et. gc_bind Et s1 E1. gc_bind Et n1 En1. injection Et as <- <-.
    unfold transform_paragraphX. rewrite E1. cbn [bind bx_s stx_s]. rewrite En1. cbn [bind fst snd].
    destruct (bpar n1) as [p|] eqn:Ep; [|reflexivity].
    destruct (T8 eq_refl) as [HS2 _]. apply hget_ok in En1.
    assert (Forall (seg_inr src) (blines n1)) as Hl.
    { destruct HS2 as [_ HH]. exact (np_lines _ _ _ (hs_node _ _ _ (hi_heap _ _ _ _ _ _ _ _ HH) _ _ En1)). }
    assert (src_of s1 = src) as Es by (apply (CJ rd_ok_src fl); exact (proj1 HS2)).
    rewrite (table_transform_none (stx_s x s1) node n1 Es En1 Hl). cbn [bind bx_s stx_s].
    unfold hget. rewrite En1. cbn [bind]. rewrite Ep. reflexivity.
  - unfold transform_paragraph in Et. unfold transform_paragraphX.
    destruct (lrd_transform space_table punct_table norm (bx_s x) node) as [s1| |]; cbn [bind] in *; try discriminate; try reflexivity.
    cbn [bx_s stx_s]. destruct (hget (s_h s1) node) as [n1| |]; cbn [bind] in *; try discriminate; reflexivity.
  - unfold transform_paragraph in Et. unfold transform_paragraphX.
    destruct (lrd_transform space_table punct_table norm (bx_s x) node) as [s1| |]; cbn [bind] in *; try discriminate; try reflexivity.
    cbn [bx_s stx_s]. destruct (hget (s_h s1) node) as [n1| |]; cbn [bind] in *; try discriminate; reflexivity.
Qed.

(* ---------- closeBlocks: the blocks D2 are closed from the last one down ---------- *)
Lemma close_rangeX_on fl A N : forall D2 R D1 x blocks i,
  blocks = A ++ D1 ++ D2 ++ R -> i = zlen (A ++ D1 ++ D2) - 1 ->
  SInv fl (bx_s x) A (D1 ++ D2) N -> uniqS (A ++ (D1 ++ D2) ++ N) ->
  CRX x blocks (length D2) i = lift0 x (CR (bx_s x) blocks (length D2) i).
Proof.
  intros D2. induction D2 as [|[y bp] D2' IH] using rev_ind; intros R D1 x blocks i Hb Hi HS Hu.
  - cbn [length close_rangeX close_range]. unfold lift0. cbn [bind]. rewrite stx_s_id. reflexivity.
  - rewrite app_length. cbn [length]. rewrite Nat.add_1_r. cbn [close_rangeX close_range].
    destruct ((i <? 0) || (zlen blocks <=? i))%bool; [reflexivity|].
    assert (nth_error blocks (Z.to_nat i) = Some (y, bp)) as Enth.
    { subst blocks i. rewrite !app_assoc. rewrite <- (app_assoc _ [(y, bp)] R). cbn [app].
      replace (Z.to_nat (zlen (((A ++ D1) ++ D2') ++ [(y, bp)]) - 1)) with (length ((A ++ D1) ++ D2')).
      - apply (CJ nth_error_mid).
      - unfold zlen. rewrite (app_length _ [(y, bp)]). cbn [length]. lia. }
    rewrite Enth.
    rewrite (app_assoc D1 D2' [(y, bp)]) in HS, Hu.
    destruct (is_paragraph (s_h (bx_s x)) y) as [isp| |] eqn:Eisp; cbn [bind]; try reflexivity.
    destruct (attached (s_h (bx_s x)) y) as [att| |] eqn:Eatt; cbn [bind]; try reflexivity.
    (* the first half of the step: transformParagraph *)
    set (TX := (if (isp && att)%bool then (z <- TPX x y ;; Ok (fst z)) else Ok x) : result stx).
    set (T := (if (isp && att)%bool then (z <- TP (bx_s x) y ;; Ok (fst z)) else Ok (bx_s x)) : result st).
    assert (TX = lift0 x T) as HT.
    { subst TX T. destruct (isp && att)%bool eqn:Ecnd.
      - apply andb_true_iff in Ecnd. destruct Ecnd as [-> ->].
        destruct (CE SInv_entry _ _ _ _ _ _ _ HS (CJ in_mid _ _ _ _)) as [n [En [K _]]].
        unfold is_paragraph, hget in Eisp. rewrite En in Eisp. cbn [bind] in Eisp. injection Eisp as Ek.
        apply (CE bkind_eqb_eq) in Ek.
        assert (bp = PParagraph) as -> by (apply (CE pkind_para); congruence).
        rewrite (transform_paragraphX_on fl x y A (D1 ++ D2') N HS). unfold lift0.
        destruct (TP (bx_s x) y) as [[s2 g]| |]; reflexivity.
      - unfold lift0. cbn [bind]. rewrite stx_s_id. reflexivity. }
    rewrite HT. clear HT TX. unfold lift0 at 1.
    destruct T as [s1| |] eqn:Es1; cbn [bind]; try reflexivity.
    cbn [bx_s stx_s].
    destruct (attached (s_h s1) y) as [att'| |] eqn:Eatt'; cbn [bind]; try reflexivity.
    set (PX := (if att' then lift0 (stx_s x s1) (p_close bp s1 y) else Ok (stx_s x s1)) : result stx).
    set (P := (if att' then p_close bp s1 y else Ok s1) : result st).
    assert (PX = lift0 x P) as HP.
    { subst PX P. destruct att'; [reflexivity|]. reflexivity. }
    rewrite HP. clear HP PX. unfold lift0 at 1.
    destruct P as [s2| |] eqn:Es2; cbn [bind]; try reflexivity.
    destruct (CJ close_step_ok
                fl (bx_s x) y bp s1 s2 isp att att' A (D1 ++ D2') N HS Hu Eisp Eatt Es1 Eatt' Es2) as [HS2 _].
    rewrite (IH ((y, bp) :: R) D1 (stx_s x s2) blocks (i - 1)).
    + reflexivity.
    + subst blocks. rewrite <- !app_assoc. reflexivity.
    + subst i. unfold zlen. rewrite !app_length. cbn [length]. lia.
    + exact HS2.
    + eapply (CE uniqS_incl); [exact Hu|]. intros e He. apply in_app_or in He. apply in_or_app.
      destruct He as [He|He]; [left; exact He|right]. apply in_app_or in He. apply in_or_app.
      destruct He as [He|He]; [left; apply in_or_app; left; exact He|right; exact He].
Qed.

Lemma close_blocksX_on fl x A D N from to : OInv fl (bx_s x) A D N -> to = zlen A -> from = zlen A + zlen D - 1 ->
  CBX x from to = lift0 x (CB (bx_s x) from to).
Proof.
  intros [HS [[Ho Hl] Hu]] Hto Hfrom. unfold close_blocksX, close_blocks.
  replace (Z.to_nat (from - to + 1)) with (length D) by (subst; unfold zlen; lia).
  rewrite (close_rangeX_on fl A N D N [] x (opened (s_c (bx_s x))) from); auto.
  2:{ subst from. cbn [app]. rewrite zlen_app. lia. }
  unfold lift0.
  destruct (CR (bx_s x) (opened (s_c (bx_s x))) (length D) from) as [s| |]; cbn [bind]; try reflexivity.
  cbn [bx_s stx_s].
  destruct (from =? Z.of_nat (c_len (s_c s)) - 1).
  - destruct ((to <? 0) || (Z.of_nat (c_len (s_c s)) <? to))%bool; reflexivity.
  - destruct ((to <? 0) || (from + 1 <? to) || (Z.of_nat (c_len (s_c s)) <? from + 1))%bool; reflexivity.
Qed.

End C.
