(* Block quotes around plain paragraphs: the lines of a quoted document and an abstract machine
   that follows the block phase line by line on heaps without blank-line flags. *)
Require Import GM.model.Base GM.model.Util GM.model.Reader GM.model.SpecDoc GM.model.BlockParse.
Require Import GM.proofs.SpecParaBytes GM.proofs.SpecParaBlocks GM.proofs.SpecQuoteShape.
From Coq Require Import List NArith ZArith Bool Lia.
Import ListNotations.
Open Scope Z_scope.

(* ---------- lines ---------- *)
(* a text line behind markers; a separator: the empty line (None) or markers and a bare '>' *)
Inductive qline := LTxt (ms : list bool) (body : bytes) | LSep (t : option (list bool)).
Fixpoint chain (ms : list bool) : bytes := match ms with [] => [] | s :: r => mk s ++ chain r end.
Definition lbytes (l : qline) : bytes :=
  match l with
  | LTxt ms body => chain ms ++ body
  | LSep None => []
  | LSep (Some t) => chain t ++ [62%N]
  end.
(* sg: the marker styles of the enclosing quotes; sepl: the line between two blocks of the list *)
Fixpoint qb_lines (sg : list bool) (b : qb) : list qline :=
  match b with
  | QP p => map (LTxt sg) p
  | QQ st bs => qbs_lines (sg ++ [st]) (LSep (Some sg)) bs
  end
with qbs_lines (sg : list bool) (sepl : qline) (bs : qbs) : list qline :=
  match bs with
  | QOne b => qb_lines sg b
  | QCons b r => qb_lines sg b ++ sepl :: qbs_lines sg sepl r
  end.
Definition qdoc_lines (d : qbs) : list qline := qbs_lines [] (LSep None) d.

(* ---------- the machine ---------- *)
(* a_q: the open quotes, outermost first; a_p: a paragraph is open (the last node of the heap);
   a_off: the offset of the next line *)
Record ast := { a_h : heap; a_q : list nat; a_p : bool; a_off : Z }.

Definition add_children (h : heap) (P : nat) (ids : list nat) : heap :=
  match nth_error h P with Some n => hset h P (set_ch n (bch n ++ ids)) | None => h end.
(* m new quotes, each the only child of the one before, and a paragraph with the lines ls *)
Fixpoint first_nodes (bl : bool) (par idx : nat) (m : nat) (ls : list seg) : list bnode :=
  match m with
  | O => [pnode (Some par) ls bl]
  | S m' => qnode (Some par) [S idx] bl :: first_nodes bl idx (S idx) m' ls
  end.
Definition lastq (q : list nat) : nat := last q 0%nat.
Fixpoint upd_last (f : bnode -> bnode) (h : heap) : heap :=
  match h with [] => [] | [n] => [f n] | x :: r => x :: upd_last f r end.
Definition add_line (sg : seg) (n : bnode) : bnode := set_lines n (blines n ++ [sg]).
Fixpoint trim_segs (t : Z) (ls : list seg) : list seg :=
  match ls with [] => [] | [x] => [mkseg (s_start x) (s_stop x - t)] | x :: r => x :: trim_segs t r end.
Definition trim_node (t : Z) (n : bnode) : bnode := set_lines n (trim_segs t (blines n)).

(* t: the length of the terminator of the line *)
Definition astep (t : Z) (s : ast) (l : qline) : ast :=
  match l with
  | LTxt ms body =>
    let c := zlen (chain ms) in
    let sg := mkseg (a_off s + c) (a_off s + c + zlen body + t) in
    let off' := a_off s + c + zlen body + t in
    if a_p s then {| a_h := upd_last (add_line sg) (a_h s); a_q := a_q s; a_p := true; a_off := off' |}
    else
      let i := length (a_h s) in
      let m := (length ms - length (a_q s))%nat in
      {| a_h := add_children (a_h s) (lastq (a_q s)) [i] ++ first_nodes false (lastq (a_q s)) i m [sg];
         a_q := a_q s ++ seq i m; a_p := true; a_off := off' |}
  | LSep tau =>
    let n := match tau with None => O | Some tau => S (length tau) end in
    {| a_h := upd_last (trim_node 1) (a_h s); a_q := firstn n (a_q s); a_p := false;
       a_off := a_off s + zlen (lbytes l) + t |}
  end.
(* every line but the last ends with a newline; the last with t bytes *)
Fixpoint arun (t : Z) (s : ast) (ls : list qline) : ast :=
  match ls with
  | [] => s
  | [l] => astep t s l
  | l :: r => arun t (astep 1 s l) r
  end.
Definition ainit : ast := {| a_h := [dnode []]; a_q := []; a_p := false; a_off := 0 |}.
Definition afinal (t : Z) (s : ast) : heap := upd_last (trim_node t) (a_h s).

(* ---------- validity of a line in a state (only the open quotes and paragraph matter) ---------- *)
Definition lvalid (s : ast) (l : qline) : Prop :=
  match l with
  | LTxt ms body => body_okb body = true /\
                    (if a_p s then length ms = length (a_q s) else (length (a_q s) <= length ms)%nat)
  | LSep tau => a_p s = true /\
                match tau with None => True | Some tau => (S (length tau) <= length (a_q s))%nat end
  end.
Fixpoint avalid (s : ast) (ls : list qline) : Prop :=
  match ls with [] => True | l :: r => lvalid s l /\ avalid (astep 1 s l) r end.
Definition inner (l : qline) : Prop := l <> LSep None.

Lemma arun_cons2 t s l l' r : arun t s (l :: l' :: r) = arun t (astep 1 s l) (l' :: r).
Proof. reflexivity. Qed.
Lemma arun_app t l1 : forall s l2, l2 <> [] -> arun t s (l1 ++ l2) = arun t (arun 1 s l1) l2.
Proof.
  induction l1 as [|l [|l' r] IH]; intros s l2 Hne.
  - reflexivity.
  - destruct l2 as [|x l2]; [congruence|]. reflexivity.
  - change ((l :: l' :: r) ++ l2) with (l :: (l' :: r) ++ l2).
    change ((l' :: r) ++ l2) with (l' :: r ++ l2) at 1. rewrite arun_cons2.
    change (l' :: r ++ l2) with ((l' :: r) ++ l2). rewrite IH by exact Hne. reflexivity.
Qed.
Lemma avalid_app l1 : forall s l2, avalid s (l1 ++ l2) <-> avalid s l1 /\ avalid (arun 1 s l1) l2.
Proof.
  induction l1 as [|l [|l' r] IH]; intros s l2.
  - cbn [app avalid arun]. tauto.
  - cbn [app avalid arun]. tauto.
  - change ((l :: l' :: r) ++ l2) with (l :: (l' :: r) ++ l2). rewrite arun_cons2.
    cbn [avalid]. rewrite (IH (astep 1 s l) l2). cbn [avalid]. tauto.
Qed.
Lemma upd_last_app f h n : upd_last f (h ++ [n]) = h ++ [f n].
Proof.
  induction h as [|x h IH]; [reflexivity|].
  cbn [app]. destruct (h ++ [n]) as [|y t] eqn:E; [destruct h; discriminate|].
  change (upd_last f (x :: y :: t)) with (x :: upd_last f (y :: t)). rewrite IH. reflexivity.
Qed.
