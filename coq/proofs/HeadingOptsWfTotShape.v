(* Fork of ParseBlocksTotalShape.v for the heading-options model (files HeadingOptsWfTot...): LastOK has two more
   conjuncts (olineE lines of an open ATX heading, pad-0 lines of the temporary paragraph of a Setext heading) and
   takes src.  The shape of the opened-blocks list at line boundaries
   (LineInv) and basic facts about the opened-blocks slice of the context. *)
Require Import GM.model.Base GM.model.Util GM.model.Reader GM.model.ReaderSpec GM.model.Blocks GM.model.ListItem
               GM.model.LeafBlocks GM.model.CodeBlock GM.model.LinkDest GM.model.Regex GM.model.BlockParse.
Require Import GM.proofs.ReaderProofs GM.proofs.BlocksProofs
               GM.proofs.ParseBlocksTotalReader GM.proofs.ParseBlocksTotalDefs GM.proofs.ParseBlocksTotalSpec
               GM.proofs.ParseBlocksTotalSt.
From Coq Require Import ZArith Lia List Bool.
Open Scope Z_scope.

Definition ops (s : st) : list (nat * bparser) := opened (s_c s).

(* the parent of the k-th entry of a chain of opened blocks that starts below parent0 *)
Definition par_at (parent0 : nat) (l : list (nat * bparser)) (k : nat) : nat :=
  match k with O => parent0 | S j => fst (nth j l (0%nat, PParagraph)) end.

(* a chain of opened blocks below parent0: each block is a child of the previous one, all but the
   last are containers, a list is followed by its last item *)
Record Chain (h : heap) (parent0 : nat) (l : list (nat * bparser)) : Prop := {
  ch_par : forall k n p, nth_error l k = Some (n, p) ->
           exists nn, nth_error h n = Some nn /\ bpar nn = Some (par_at parent0 l k);
  ch_cont : forall k e, nth_error l k = Some e -> (S k < length l)%nat -> is_container (snd e) = true;
  ch_list : forall k L, nth_error l k = Some (L, PList) ->
            exists it Ln, nth_error l (S k) = Some (it, PListItem) /\ nth_error h L = Some Ln /\
                          last_id (bch Ln) = Some it
}.

(* what the context records for the last opened block *)
(* a line of a heading: inside the source, no padding; it may be EMPTY (start = stop) *)
Definition olineE (src : bytes) (sg : seg) : Prop :=
  0 <= s_start sg <= s_stop sg /\ s_stop sg <= zlen src /\ s_pad sg = 0 /\ s_fnl sg = false.

(* NEW (conjuncts 3 and 4): the lines of an open ATX heading are olineE; the lines of the temporary
   paragraph of an open Setext heading have no padding.  NEW2 (conjunct 5, as in GfmWfTotBlkShape.v):
   the open paragraph is the last child of its parent (so that the branch of try_parsersH in which
   a Setext heading is pushed while its paragraph stays open is unreachable) *)
Definition LastOK (src : bytes) (h : heap) (c : pctx) : Prop :=
  forall n p nn, last_opened c = Some (n, p) -> nth_error h n = Some nn ->
    (p = PFenced -> c_fence c <> None) /\
    (p = PSetext -> c_tmp_para c <> None /\ blines nn <> []) /\
    (p = PATX -> Forall (olineE src) (blines nn)) /\
    (p = PSetext -> forall t tn, c_tmp_para c = Some t -> nth_error h t = Some tn ->
                    Forall (fun sg => s_pad sg = 0) (blines tn)) /\
    (p = PParagraph -> exists q qn, bpar nn = Some q /\ nth_error h q = Some qn /\ last_id (bch qn) = Some n).

Definition RootOK (h : heap) : Prop := exists n0, nth_error h 0%nat = Some n0 /\ bk n0 = BDocument.

(* ---------- the opened-blocks slice ---------- *)
Lemma opened_length c : (c_len c <= length (c_arr c))%nat -> length (opened c) = c_len c.
Proof. intros H. unfold opened. rewrite firstn_length. lia. Qed.

Lemma opened_nth c k : (k < c_len c)%nat -> nth_error (opened c) k = nth_error (c_arr c) k.
Proof.
  intros H. unfold opened. generalize (c_arr c) as l. revert k H. generalize (c_len c) as m.
  induction m as [|m IH]; intros k H l; [lia|]. destruct l as [|x l]; [destruct k; reflexivity|].
  destruct k as [|k]; [reflexivity|]. cbn [firstn nth_error]. apply IH. lia.
Qed.

Lemma opened_in c e : In e (opened c) -> In e (c_arr c).
Proof. unfold opened. intros H. eapply (In_nth_error) in H. destruct H as [k H].
  assert (Hk : (k < length (firstn (c_len c) (c_arr c)))%nat) by (apply nth_error_Some; congruence).
  rewrite firstn_length in Hk. rewrite <- (firstn_skipn (c_len c) (c_arr c)). apply in_or_app. left.
  eapply nth_error_In, H.
Qed.

Lemma last_opened_spec c : (c_len c <= length (c_arr c))%nat ->
  last_opened c = match c_len c with O => None | S k => nth_error (opened c) k end.
Proof.
  intros H. unfold last_opened. destruct (c_len c) as [|k] eqn:E; [reflexivity|].
  symmetry. rewrite <- E in *. unfold opened. rewrite E.
  assert (G : forall (l : list (nat * bparser)) m j, (j < m)%nat -> nth_error (firstn m l) j = nth_error l j).
  { intros l m. revert l. induction m as [|m IH]; intros l j Hj; [lia|]. destruct l as [|x l]; [destruct j; reflexivity|].
    destruct j; [reflexivity|]. cbn [firstn nth_error]. apply IH. lia. }
  apply G. lia.
Qed.

Lemma last_opened_app c l e : (c_len c <= length (c_arr c))%nat -> opened c = l ++ [e] -> last_opened c = Some e.
Proof.
  intros H E. rewrite last_opened_spec by exact H. pose proof (opened_length c H) as HL.
  rewrite E, app_length in HL. cbn [length] in HL. destruct (c_len c) as [|k]; [lia|].
  rewrite E. rewrite nth_error_app2 by lia. replace (k - length l)%nat with O by lia. reflexivity.
Qed.

Lemma last_opened_inv c e : (c_len c <= length (c_arr c))%nat -> last_opened c = Some e ->
  exists l, opened c = l ++ [e].
Proof.
  intros H E. rewrite last_opened_spec in E by exact H. pose proof (opened_length c H) as HL.
  destruct (c_len c) as [|k] eqn:Ek; [discriminate|].
  exists (firstn k (opened c)). rewrite <- (firstn_skipn k (opened c)) at 1. f_equal.
  assert (G : forall (l : list (nat * bparser)) j x, nth_error l j = Some x -> length l = S j -> skipn j l = [x]).
  { intros l j. revert l. induction j as [|j IH]; intros l x Hx Hl.
    - destruct l as [|y l]; [discriminate|]. cbn in Hx. injection Hx as ->. destruct l; [reflexivity|discriminate].
    - destruct l as [|y l]; [discriminate|]. cbn [nth_error] in Hx. cbn [skipn]. apply IH; [exact Hx|cbn in Hl; lia]. }
  apply G; assumption.
Qed.

Lemma last_opened_in c e : (c_len c <= length (c_arr c))%nat -> last_opened c = Some e -> In e (c_arr c).
Proof.
  intros H E. destruct (last_opened_inv c e H E) as [l El]. apply opened_in. rewrite El. apply in_or_app. right. left. reflexivity.
Qed.

Lemma last_opened_none c : (c_len c <= length (c_arr c))%nat -> last_opened c = None -> opened c = [].
Proof.
  intros H E. rewrite last_opened_spec in E by exact H. pose proof (opened_length c H) as HL.
  destruct (c_len c) as [|k] eqn:Ek.
  - destruct (opened c); [reflexivity|discriminate].
  - apply nth_error_None in E. lia.
Qed.

(* append(pc.OpenedBlocks(), be) *)
Lemma push_opened_spec c be : (c_len c <= length (c_arr c))%nat ->
  opened (push_opened c be) = opened c ++ [be] /\ c_len (push_opened c be) = S (c_len c) /\
  (c_len (push_opened c be) <= length (c_arr (push_opened c be)))%nat /\
  (forall e, In e (c_arr (push_opened c be)) -> e = be \/ In e (c_arr c)) /\
  c_boff (push_opened c be) = c_boff c /\ c_bind (push_opened c be) = c_bind c /\
  c_refs (push_opened c be) = c_refs c /\ c_skip_list (push_opened c be) = c_skip_list c /\
  c_empty_item (push_opened c be) = c_empty_item c /\ c_fence (push_opened c be) = c_fence c /\
  c_tmp_para (push_opened c be) = c_tmp_para c.
Proof.
  intros H. unfold push_opened, opened, cset_open. cbn [c_arr c_len c_boff c_bind c_refs c_skip_list c_empty_item c_fence c_tmp_para].
  assert (L1 : length (firstn (c_len c) (c_arr c)) = c_len c) by (rewrite firstn_length; lia).
  csplit; try reflexivity.
  - replace (S (c_len c)) with (length (firstn (c_len c) (c_arr c) ++ [be]) + 0)%nat
      by (rewrite app_length, L1; cbn; lia).
    rewrite app_assoc. rewrite firstn_app_2. cbn [firstn]. rewrite app_nil_r. reflexivity.
  - rewrite !app_length, L1. cbn [length]. lia.
  - intros e He. apply in_app_or in He. destruct He as [He|He].
    + right. rewrite <- (firstn_skipn (c_len c) (c_arr c)). apply in_or_app. left. exact He.
    + apply in_app_or in He. destruct He as [[<-|[]]|He]; [left; reflexivity|].
      right. rewrite <- (firstn_skipn (S (c_len c)) (c_arr c)). apply in_or_app. right. exact He.
Qed.

(* dropping the last opened block *)
Lemma pop_opened_spec c l e : (c_len c <= length (c_arr c))%nat -> opened c = l ++ [e] ->
  opened (cset_open c (c_arr c) (pred (c_len c))) = l /\ c_len c = S (length l).
Proof.
  intros H E. pose proof (opened_length c H) as HL. rewrite E, app_length in HL. cbn [length] in HL.
  split; [|lia]. unfold opened in *. cbn [cset_open c_arr c_len].
  replace (pred (c_len c)) with (length l) by lia.
  assert (G : firstn (length l) (firstn (c_len c) (c_arr c)) = firstn (length l) (c_arr c)).
  { rewrite firstn_firstn. f_equal. lia. }
  rewrite <- G, E. rewrite firstn_app, firstn_all, Nat.sub_diag. cbn [firstn]. apply app_nil_r.
Qed.

Section S.
Variable space_table : list N.
Variable src : bytes.
Notation SI := (SI space_table src).
Notation LastOK := (LastOK src).

Record LineInv (s : st) : Prop := {
  li_si : SI s;
  li_chain : Chain (s_h s) 0%nat (ops s);
  li_last : LastOK (s_h s) (s_c s);
  li_root : RootOK (s_h s)
}.

(* the ids of a chain increase *)
Lemma chain_sorted h parent0 l : HInv space_table src h -> Chain h parent0 l ->
  forall j k a b, (j < k)%nat -> nth_error l j = Some a -> nth_error l k = Some b -> (fst a < fst b)%nat.
Proof.
  intros HH [Cp _ _] j k. revert j. induction k as [|k IH]; intros j a b Hjk Ha Hb; [lia|].
  destruct b as [nb pb]. destruct (Cp (S k) nb pb Hb) as [nn [Hn Hp]]. cbn [par_at] in Hp.
  assert (Hk : exists c, nth_error l k = Some c).
  { destruct (nth_error l k) eqn:E; [eauto|]. apply nth_error_None in E.
    assert (nth_error l (S k) <> None) by congruence. apply nth_error_Some in H. lia. }
  destruct Hk as [c Hc]. rewrite (nth_error_nth l k _ Hc) in Hp.
  pose proof (hi_par _ _ _ HH nb nn _ Hn Hp) as Hlt. cbn [fst].
  destruct (Nat.eq_dec j k) as [->|Hne].
  - rewrite Ha in Hc. injection Hc as <-. exact Hlt.
  - pose proof (IH j a c ltac:(lia) Ha Hc). lia.
Qed.

Lemma chain_parent_lt h parent0 l : HInv space_table src h -> Chain h parent0 l ->
  forall k a, nth_error l k = Some a -> (parent0 < fst a)%nat.
Proof.
  intros HH HC k. induction k as [|k IH]; intros a Ha.
  - destruct a as [n p]. destruct (ch_par _ _ _ HC 0%nat n p Ha) as [nn [Hn Hp]]. cbn [par_at] in Hp.
    exact (hi_par _ _ _ HH n nn _ Hn Hp).
  - assert (Hk : exists c, nth_error l k = Some c).
    { destruct (nth_error l k) eqn:E; [eauto|]. apply nth_error_None in E.
      assert (nth_error l (S k) <> None) by congruence. apply nth_error_Some in H. lia. }
    destruct Hk as [c Hc]. pose proof (IH c Hc). pose proof (chain_sorted h parent0 l HH HC k (S k) c a ltac:(lia) Hc Ha). lia.
Qed.

End S.
