(* Helper file for FootnoteWfInl.v: every inline parser of model/FootnoteParseInline.v keeps the
   invariant "heap well formed (ParseInlineRangeHeap.ctx_ok) and reader inside the block
   (ParseInlineRangeReader.RI)".  The core parsers are covered by ip_parse_ok of
   proofs/ParseInlineRangeParsers.v; the new work is footnoteParser.Parse (footnote_parse): it
   allocates a childless node IEmphasis (-3 - serial) and, for '!', appends a Text node for the
   first byte of the current line to the parent. *)
Require Import GM.model.Base GM.model.Util GM.model.Reader GM.model.ReaderSpec GM.model.Blocks GM.model.ListItem
               GM.model.LeafBlocks GM.model.CodeSpan GM.model.LinkDest GM.model.Regex GM.model.Delim GM.model.HtmlWriter
               GM.model.Html GM.model.HtmlSpec GM.model.BlockParse GM.model.InlineParse
               GM.model.FootnoteX GM.model.FootnoteParseBlock GM.model.FootnoteParseInline.
Require Import GM.proofs.BReaderProofs GM.proofs.BlockRangeProofs GM.proofs.RegexProofs GM.proofs.ParseInv.
Require Import GM.proofs.ParseInlineRangeHeap GM.proofs.ParseInlineRangeReader GM.proofs.ParseInlineRangeParsers.
From Coq Require Import ZArith Lia List Bool.
Import ListNotations.
Open Scope Z_scope.

(* ---------- util.FindClosure on a byte string: a closure found lies inside the string ---------- *)
Lemma fwi_find_closure_plain_bound ptbl : forall fuel bs i o c,
  0 <= find_closure_plain ptbl fuel bs i o c -> 0 <= i ->
  i <= find_closure_plain ptbl fuel bs i o c < i + zlen bs.
Proof.
  induction fuel as [|f IH]; intros bs i o c H Hi; cbn [find_closure_plain] in *; [lia|].
  destruct bs as [|b rest]; [lia|]. rewrite zlen_cons.
  destruct rest as [|b2 rest2].
  - change (zlen (@nil N)) with 0. destruct (N.eqb b c); lia.
  - rewrite zlen_cons. pose proof (zlen_nonneg rest2) as Hr.
    destruct (N.eqb b 92 && is_punct ptbl b2).
    + specialize (IH rest2 (i + 2) o c H ltac:(lia)). lia.
    + destruct (N.eqb b c); [lia|]. destruct (N.eqb b o); [lia|].
      specialize (IH (b2 :: rest2) (i + 1) o c H ltac:(lia)). rewrite zlen_cons in IH. lia.
Qed.

Lemma fwi_find_closure_bytes_bound ptbl bs o c :
  0 <= find_closure_bytes ptbl bs o c -> find_closure_bytes ptbl bs o c < zlen bs.
Proof.
  unfold find_closure_bytes. intros H.
  pose proof (fwi_find_closure_plain_bound ptbl (S (length bs)) bs 0 o c H ltac:(lia)). lia.
Qed.

Section Parsers.
Variable space_table punct_table : list N.
Variable norm : bytes -> bytes.
Variable url_table email_table : list N.
Variable re_email_domain re_open_tag re_close_tag : re.
Variable punct_rune space_rune : N -> bool.
Variable refs : list (bytes * (bytes * option bytes)).
Variable src : bytes.
Variable lines : list seg.
Hypothesis Hsp32 : is_space space_table 32 = true.
Hypothesis Hsp10 : is_space space_table 10 = true.
Hypothesis Hsrc : bytes_ok src.
Hypothesis Hrefs : refs_ok refs.

Local Notation RI := (ParseInlineRangeReader.RI src lines).
Local Notation st_ok := (ParseInlineRangeParsers.st_ok src lines).
Local Notation pstep := (ParseInlineRangeParsers.pstep src lines).
Local Notation ip_parse_ok := (ParseInlineRangeParsers.ip_parse_ok space_table punct_table norm url_table email_table
  re_email_domain re_open_tag re_close_tag punct_rune space_rune refs src lines Hsp32 Hsp10 Hsrc Hrefs).

(* ---------- footnoteParser.Parse ---------- *)
Lemma footnote_parse_ok x parent x' res L : st_ok (fi_s x) L -> pok (i_h (t_c (fi_s x))) parent ->
  footnote_parse punct_table x parent = Ok (x', res) -> pstep (fi_s x) (fi_s x') res.
Proof.
  unfold footnote_parse. intros [Hc Hr] Hpar H. set (s := fi_s x) in *.
  destruct (b_peek_line (t_r s)) as [[[r1 line] segment]| |] eqn:Ep; cbn [bind] in H; try discriminate.
  destruct (ri_peek _ _ _ _ _ _ Hr Ep) as (-> & -> & Hline).
  cbn [fi_s fist_s ist_r t_c t_r fi_f] in H.
  assert (Hnone : pstep s (ist_r s (t_r s)) None).
  { exists L. split; [split; assumption|]. split; [apply kle_refl|]. intros n E; discriminate. }
  set (ln := line_of line) in *.
  set (bang := match ln with c :: _ => N.eqb c 33 | [] => false end) in *.
  set (pos := if bang then 2 else 1) in *.
  assert (Hpos : 1 <= pos <= 2) by (subst pos; destruct bang; lia).
  destruct (_ || _); [inversion H; subst x' res; exact Hnone|].
  destruct (Z.leb_spec (zlen ln) (pos + 1)) as [_|Hlen]; [inversion H; subst x' res; exact Hnone|].
  set (closure := find_closure_bytes punct_table (zskip (pos + 1) ln) 91%N 93%N) in *.
  destruct (Z.ltb_spec closure 0) as [_|Hcl]; [inversion H; subst x' res; exact Hnone|].
  pose proof (fwi_find_closure_bytes_bound punct_table _ _ _ Hcl) as Hcb. fold closure in Hcb.
  rewrite zlen_zskip in Hcb.
  destruct line as [l|]; subst ln; cbn [line_of] in *; [|change (zlen (@nil N)) with 0 in *; lia].
  destruct Hline as (Hin & Hv & Hl & Hs0 & Hs1 & Hs2 & _).
  destruct (b_value (t_r s) _) as [value| |]; cbn [bind] in H; try discriminate.
  destruct (b_advance (t_r s) (pos + 1 + closure + 1)) as [r2| |] eqn:Ea; cbn [bind] in H; try discriminate.
  assert (Hr2 : RI r2).
  { destruct (ri_advance_in src lines (t_r s) (pos + 1 + closure + 1) r2 Hr Hin) as [X _]; [lia|exact Ea|exact X]. }
  assert (Hnone2 : pstep s (ist_r (ist_r s (t_r s)) r2) None).
  { exists L. split; [split; assumption|]. split; [apply kle_refl|]. intros n E; discriminate. }
  destruct (fs_defs (fi_f x)) as [defs|]; [|inversion H; subst x' res; exact Hnone2].
  destruct (assign defs (fs_count (fi_f x)) value) as [[defs' count'] found].
  destruct found as [index|]; [|inversion H; subst x' res; exact Hnone2].
  cbn [ist_r t_c t_r] in H.
  destruct (new_inode (t_c s) (IFootnoteLink (zlen (fs_links (fi_f x))))) as [c1 n] eqn:En.
  destruct (ctx_new src _ _ _ _ _ _ En I Hc) as (Hc1 & Hk1 & _ & Kn & _).
  assert (Hnd1 : ndelim (i_h c1) n). { exists (IFootnoteLink (zlen (fs_links (fi_f x)))). split; [exact Kn|cbn; lia]. }
  match type of H with (_ <- ?X ;; _) = _ => destruct X as [c2| |] eqn:Ec end; cbn [bind] in H; try discriminate.
  inversion H; subst x' res. clear H. cbn [fi_s].
  assert (Hc2 : ctx_ok src [] c2 L /\ kle (i_h c1) (i_h c2)).
  { destruct l as [|c0 tl]; [discriminate|].
    destruct (N.eqb c0 33); [|inversion Ec; subst c2; split; [exact Hc1|apply kle_refl]].
    destruct (new_inode c1 (mk_text _)) as [c3 t] eqn:En3.
    destruct (i_append (i_h c3) parent t) as [h| |] eqn:Eap; cbn [bind] in Ec; try discriminate.
    inversion Ec; subst c2. clear Ec.
    assert (Hseg : kind_ok src (mk_text (mkseg (s_start (b_pos (t_r s))) (s_start (b_pos (t_r s)) + 1)))).
    { cbn. apply seg_in_intro; cbn [mkseg mksegp s_start s_stop s_pad]; lia. }
    destruct (ctx_new src _ _ _ _ _ _ En3 Hseg Hc1) as (Hc3 & Hk3 & _ & Kt & _).
    pose proof (i_append_spec _ _ _ _ Eap (h_tree _ _ (proj1 Hc3))) as Hat.
    destruct (ctx_attach src _ _ _ _ _ _ Hc3 Hat) as [Hc4 Hk4].
    { eapply text_edge. exact Kt. }
    { left. eapply kd_dlk_none; [exact Kt|cbn; lia]. }
    split; [exact Hc4|]. cbn [cx_h i_h]. eapply kle_trans; eassumption. }
  destruct Hc2 as [Hc2 Hk2].
  exists L. split; [split; [exact Hc2|exact Hr2]|]. cbn [t_c t_r]. split; [eapply kle_trans; eassumption|].
  intros m Em. inversion Em; subst m. left. apply ndelim_dlk. eapply ndelim_kle; eassumption.
Qed.

(* ---------- the parser table, try_inlineF ---------- *)
Notation IPF := (ip_parseF space_table punct_table norm url_table email_table re_email_domain re_open_tag re_close_tag
                  punct_rune space_rune refs).
Notation TRYF := (try_inlineF space_table punct_table norm url_table email_table re_email_domain re_open_tag re_close_tag
                  punct_rune space_rune refs).

Lemma ip_parseF_ok p x parent x' res L : st_ok (fi_s x) L -> pok (i_h (t_c (fi_s x))) parent ->
  IPF p x parent = Ok (x', res) -> pstep (fi_s x) (fi_s x') res.
Proof.
  intros Hs Hpar H. destruct p as [p|]; cbn [ip_parseF] in H.
  - match type of H with (_ <- ?X ;; _) = _ => destruct X as [[s1 r1]| |] eqn:Ep end; cbn [bind] in H; try discriminate.
    cbn [fst snd] in H. inversion H; subst x' res. cbn [fi_s fist_s]. eapply ip_parse_ok; eassumption.
  - eapply footnote_parse_ok; eassumption.
Qed.

Lemma try_inlineF_ok r0 : RI r0 -> forall ips x parent x' res L, st_ok (fi_s x) L -> pok (i_h (t_c (fi_s x))) parent ->
  b_line (t_r (fi_s x)) = b_line r0 -> b_pos (t_r (fi_s x)) = b_pos r0 ->
  TRYF ips x parent (b_line r0) (b_pos r0) = Ok (x', res) ->
  pstep (fi_s x) (fi_s x') res /\ (res = None -> b_line (t_r (fi_s x')) = b_line r0 /\ b_pos (t_r (fi_s x')) = b_pos r0).
Proof.
  intros H0. induction ips as [|p rest IH]; intros x parent x' res L Hs Hpar El Epos H; cbn [try_inlineF] in H.
  - inversion H; subst x' res. split; [|auto]. exists L. split; [exact Hs|]. split; [apply kle_refl|]. intros n E; discriminate.
  - destruct (IPF p x parent) as [[x1 n]| |] eqn:Ep; cbn [bind] in H; try discriminate.
    destruct (ip_parseF_ok _ _ _ _ _ _ Hs Hpar Ep) as (L1 & Hs1 & Hk1 & Hres1).
    destruct n as [n|].
    + inversion H; subst x' res. split; [|discriminate]. exists L1. auto.
    + destruct (b_set_position (t_r (fi_s x1)) (b_line r0) (b_pos r0)) as [r2| |] eqn:Es; cbn [bind] in H; try discriminate.
      destruct (ri_set_position _ _ _ _ _ (proj2 Hs1) H0 Es) as (Hr2 & Hl2 & Hp2).
      destruct (IH (fist_s x1 (ist_r (fi_s x1) r2)) parent x' res L1) as [(L2 & Hs2 & Hk2 & Hres2) Hpos]; try assumption.
      { cbn [fi_s fist_s]. split; [exact (proj1 Hs1)|exact Hr2]. }
      { cbn [fi_s fist_s ist_r t_c]. eapply pok_kle; eassumption. }
      split; [|exact Hpos]. exists L2. split; [exact Hs2|]. split; [eapply kle_trans; eassumption|exact Hres2].
Qed.

End Parsers.
