(* Helper library for GfmWfBlk.v, part A (the first part of ParseBlocksRangeB.v, unchanged): access to the heap
   of block nodes, lists of children. *)
Require Import GM.model.Base GM.model.Util GM.model.Reader GM.model.ReaderSpec GM.model.Blocks GM.model.ListItem
               GM.model.LeafBlocks GM.model.CodeBlock GM.model.LinkDest GM.model.Regex GM.model.HtmlWriter
               GM.model.Html GM.model.HtmlSpec GM.model.BlockParse GM.model.InlineParse.
Require Import GM.proofs.ReaderProofs GM.proofs.BlockRangeProofs GM.proofs.ParseInv
               GM.proofs.ParseBlocksRangeA.
From Coq Require Import ZArith Lia Sorted.
Open Scope Z_scope.

(* ================= heap access ================= *)
Lemma hget_ok h i n : hget h i = Ok n <-> nth_error h i = Some n.
Proof. unfold hget. destruct (nth_error h i); split; intros H; try discriminate; congruence. Qed.

Lemma length_hset h : forall i n, length (hset h i n) = length h.
Proof. induction h as [|x t IH]; intros [|i] n; cbn [hset length]; auto. Qed.

Lemma nth_hset_eq h : forall i n, (i < length h)%nat -> nth_error (hset h i n) i = Some n.
Proof.
  induction h as [|x t IH]; intros [|i] n Hi; cbn [hset length nth_error] in *; try lia; auto.
  apply IH. lia.
Qed.

Lemma nth_hset_ne h : forall i j n, i <> j -> nth_error (hset h i n) j = nth_error h j.
Proof.
  induction h as [|x t IH]; intros [|i] [|j] n Hij; cbn [hset nth_error]; auto; try congruence.
Qed.

(* a node of the updated heap is the new node or an old one *)
Lemma nth_hset_inv h i n j m : nth_error (hset h i n) j = Some m ->
  (j = i /\ m = n /\ (i < length h)%nat) \/ (j <> i /\ nth_error h j = Some m).
Proof.
  intros H. destruct (Nat.eq_dec j i) as [E|E].
  - subst j. left. assert (i < length h)%nat as Hi.
    { rewrite <- (length_hset h i n). apply nth_error_Some. congruence. }
    rewrite nth_hset_eq in H by exact Hi. injection H as <-. auto.
  - right. rewrite nth_hset_ne in H by congruence. auto.
Qed.

Lemma hupd_ok h i f h' : hupd h i f = Ok h' -> exists n, nth_error h i = Some n /\ h' = hset h i (f n).
Proof.
  unfold hupd. intros H. bind_inv H n Hn. apply hget_ok in Hn. injection H as <-. exists n. auto.
Qed.

Lemma nth_app_new {A} (h : list A) n : nth_error (h ++ [n]) (length h) = Some n.
Proof. rewrite nth_error_app2 by lia. rewrite Nat.sub_diag. reflexivity. Qed.

Lemma nth_app_inv {A} (h : list A) n j m : nth_error (h ++ [n]) j = Some m ->
  (j = length h /\ m = n) \/ ((j < length h)%nat /\ nth_error h j = Some m).
Proof.
  intros H. destruct (Nat.lt_ge_cases j (length h)) as [Hlt|Hge].
  - right. rewrite nth_error_app1 in H by exact Hlt. auto.
  - left. rewrite nth_error_app2 in H by exact Hge.
    destruct (j - length h)%nat as [|k] eqn:E; cbn in H.
    + injection H as <-. split; [lia|reflexivity].
    + destruct k; discriminate.
Qed.

Lemma nth_some_lt {A} (h : list A) i n : nth_error h i = Some n -> (i < length h)%nat.
Proof. intros H. apply nth_error_Some. congruence. Qed.

(* ================= child lists ================= *)
Lemma last_id_snoc l c : last_id (l ++ [c]) = Some c.
Proof. unfold last_id. rewrite rev_app_distr. reflexivity. Qed.

Lemma last_id_some l x : last_id l = Some x <-> exists l', l = l' ++ [x].
Proof.
  unfold last_id. split.
  - intros H. destruct (rev l) as [|y t] eqn:E; [discriminate|]. injection H as ->.
    exists (rev t). rewrite <- (rev_involutive l), E. reflexivity.
  - intros [l' ->]. rewrite rev_app_distr. reflexivity.
Qed.

Lemma last_id_in l x : last_id l = Some x -> In x l.
Proof. intros H. apply last_id_some in H. destruct H as [l' ->]. apply in_or_app. right. left. reflexivity. Qed.

Lemma remove_id_incl c l x : In x (remove_id c l) -> In x l.
Proof.
  induction l as [|y t IH]; cbn [remove_id]; [auto|]. destruct (Nat.eqb c y); intros H.
  - right. exact H.
  - destruct H as [H|H]; [left; exact H|right; auto].
Qed.

Lemma remove_id_nodup c l : NoDup l -> NoDup (remove_id c l) /\ ~ In c (remove_id c l).
Proof.
  induction l as [|y t IH]; cbn [remove_id]; intros Hnd.
  - split; [constructor|auto].
  - inversion Hnd as [|? ? Hy Ht]; subst. destruct (Nat.eqb_spec c y) as [E|E].
    + subst. auto.
    + destruct (IH Ht) as [H1 H2]. split.
      * constructor; [|exact H1]. intros H. apply Hy. eapply remove_id_incl; eassumption.
      * intros [H|H]; [congruence|auto].
Qed.

Lemma remove_id_keep c l x : In x l -> x <> c -> In x (remove_id c l).
Proof.
  induction l as [|y t IH]; cbn [remove_id]; [auto|]. intros [H|H] Hx.
  - subst y. destruct (Nat.eqb_spec c x); [congruence|left; reflexivity].
  - destruct (Nat.eqb_spec c y); [exact H|right; auto].
Qed.

Lemma remove_id_last c l x : last_id l = Some x -> x <> c -> last_id (remove_id c l) = Some x.
Proof.
  intros H Hx. apply last_id_some in H. destruct H as [l' ->]. apply last_id_some.
  induction l' as [|y t IH]; cbn [app remove_id].
  - destruct (Nat.eqb_spec c x); [congruence|]. exists []. reflexivity.
  - destruct (Nat.eqb_spec c y).
    + exists t. reflexivity.
    + destruct IH as [l'' E]. rewrite E. exists (y :: l''). reflexivity.
Qed.

Lemma replace_id_in old new l x : In x (replace_id old new l) -> x = new \/ In x l.
Proof.
  induction l as [|y t IH]; cbn [replace_id]; [auto|]. destruct (Nat.eqb old y); intros [H|H]; auto.
  - right. right. exact H.
  - right. left. exact H.
  - destruct (IH H); auto. right. right. assumption.
Qed.

Lemma replace_id_keep old new l x : In x l -> x <> old -> In x (replace_id old new l).
Proof.
  induction l as [|y t IH]; cbn [replace_id]; [auto|]. intros [H|H] Hx.
  - subst y. destruct (Nat.eqb_spec old x); [congruence|left; reflexivity].
  - destruct (Nat.eqb_spec old y); [right; exact H|right; auto].
Qed.

Lemma replace_id_nodup old new l : NoDup l -> ~ In new l -> NoDup (replace_id old new l) /\ (new <> old -> ~ In old (replace_id old new l)).
Proof.
  induction l as [|y t IH]; cbn [replace_id]; intros Hnd Hnew.
  - split; [constructor|auto].
  - inversion Hnd as [|? ? Hy Ht]; subst. destruct (Nat.eqb_spec old y) as [E|E].
    + subst y. split.
      * constructor; [|exact Ht]. intros H. apply Hnew. right. exact H.
      * intros Hne [H|H]; [congruence|auto].
    + destruct (IH Ht ltac:(intros H; apply Hnew; right; exact H)) as [H1 H2]. split.
      * constructor; [|exact H1]. intros H. apply replace_id_in in H. destruct H as [H|H]; [|auto].
        subst y. apply Hnew. left. reflexivity.
      * intros Hne [H|H]; [congruence|]. apply (H2 Hne H).
Qed.

Lemma replace_id_last old new l x : last_id l = Some x -> x <> old -> last_id (replace_id old new l) = Some x.
Proof.
  intros H Hx. apply last_id_some in H. destruct H as [l' ->]. apply last_id_some.
  induction l' as [|y t IH]; cbn [app replace_id].
  - destruct (Nat.eqb_spec old x); [congruence|]. exists []. reflexivity.
  - destruct (Nat.eqb_spec old y).
    + exists (new :: t). reflexivity.
    + destruct IH as [l'' E]. rewrite E. exists (y :: l''). reflexivity.
Qed.

Lemma replace_id_last_old old new l : last_id l = Some old -> NoDup l -> last_id (replace_id old new l) = Some new.
Proof.
  intros H Hnd. apply last_id_some in H. destruct H as [l' ->]. apply last_id_some.
  induction l' as [|y t IH]; cbn [app replace_id].
  - rewrite Nat.eqb_refl. exists []. reflexivity.
  - inversion Hnd as [|? ? Hy Ht]; subst. destruct (Nat.eqb_spec old y) as [E|E].
    + subst y. exfalso. apply Hy. apply in_or_app. right. left. reflexivity.
    + destruct (IH Ht) as [l'' E']. rewrite E'. exists (y :: l''). reflexivity.
Qed.

Lemma NoDup_app_snoc {A} (l : list A) c : NoDup l -> ~ In c l -> NoDup (l ++ [c]).
Proof.
  intros Hnd Hc. induction l as [|x t IH]; cbn [app].
  - constructor; [auto|constructor].
  - inversion Hnd as [|? ? Hx Ht]; subst. constructor.
    + intros H. apply in_app_or in H. destruct H as [H|[H|[]]]; [auto|]. subst. apply Hc. left. reflexivity.
    + apply IH; [exact Ht|]. intros H. apply Hc. right. exact H.
Qed.

