(* Helper library for GfmWfBlk.v (ported from ParseBlocksRangeN.v to the driver of BlockParseX.v), part N:
   openBlocks (try_parsersX, open_blocks_loopX, open_blocksX). *)
Require Import GM.model.Base GM.model.Util GM.model.Reader GM.model.ReaderSpec GM.model.Blocks GM.model.ListItem
               GM.model.LeafBlocks GM.model.CodeBlock GM.model.LinkDest GM.model.Regex GM.model.HtmlWriter
               GM.model.Html GM.model.HtmlSpec GM.model.TableX GM.model.BlockParse GM.model.InlineParse GM.model.BlockParseX.
Require Import GM.proofs.ReaderProofs GM.proofs.BlockRangeProofs GM.proofs.ParseInv GM.proofs.GfmWfDefs
               GM.proofs.ParseBlocksRangeA GM.proofs.GfmWfBlkB GM.proofs.GfmWfBlkC
               GM.proofs.GfmWfBlkD GM.proofs.GfmWfBlkE
               GM.proofs.GfmWfBlkG GM.proofs.GfmWfBlkH GM.proofs.GfmWfBlkJ GM.proofs.GfmWfBlkM
               GM.proofs.GfmWfBlkQ GM.proofs.GfmWfBlkR GM.proofs.GfmWfBlkS GM.proofs.GfmWfBlkL.
From Coq Require Import ZArith Lia Sorted.
Open Scope Z_scope.

Section N.
Variable table_on : bool.
Variable space_table punct_table : list N.
Variable norm : bytes -> bytes.
Variable re_t1o re_t1c re_t2 re_t3 re_t4 re_t5 re_t6 re_t7 : re.
Variable allowed_tags : list bytes.
Variable src : bytes.
Hypothesis sp32 : is_space space_table 32%N = true.
Hypothesis sp10 : is_space space_table 10%N = true.
Set Default Proof Using "All".

(* lemmas of parts C and D take all the section variables: CC supplies them *)
Notation CC f := (f space_table punct_table norm re_t1o re_t1c re_t2 re_t3 re_t4 re_t5 re_t6 re_t7 allowed_tags src sp32) (only parsing).
Notation SInv := (SInv space_table src).
Notation HI := (HI space_table src).
Notation nodeP := (nodeP space_table src).
Notation heapS := (heapS space_table src).
Notation Jinv := (Jinv src).
Notation openS := (openS src).
Notation pline := (pline space_table src).
Notation oline := (oline src).
Notation fin_lines := (fin_lines src).
Notation fin := (fin src).
Notation cont_post := (cont_post space_table src).
Notation item_guard := (item_guard space_table).
Notation verdict := (verdict space_table).
Hypothesis Hsrc : bytes_ok src.
Notation CE f := (f space_table punct_table norm re_t1o re_t1c re_t2 re_t3 re_t4 re_t5 re_t6 re_t7 allowed_tags src sp32) (only parsing).
Notation CJ f := (f space_table punct_table norm re_t1o re_t1c re_t2 re_t3 re_t4 re_t5 re_t6 re_t7 allowed_tags src sp32 Hsrc) (only parsing).
Notation OInv := (OInv space_table src).
Notation CS f := (f space_table punct_table norm re_t1o re_t1c re_t2 re_t3 re_t4 re_t5 re_t6 re_t7 allowed_tags src sp32 sp10 Hsrc) (only parsing).
Notation CL f := (f table_on space_table punct_table norm re_t1o re_t1c re_t2 re_t3 re_t4 re_t5 re_t6 re_t7 allowed_tags src sp32 sp10 Hsrc) (only parsing).
Notation XInv := (XInv space_table src).
Notation entryP := (entryP src).
Notation finne := (finne src).
Notation transform_paragraphX := (transform_paragraphX table_on space_table punct_table norm).
Notation close_blocksX := (close_blocksX table_on space_table punct_table norm).
Notation try_parsersX := (try_parsersX table_on space_table punct_table norm re_t1o re_t2 re_t3 re_t4 re_t5 re_t6 re_t7 allowed_tags).
Notation open_blocks_loopX := (open_blocks_loopX table_on space_table punct_table norm re_t1o re_t2 re_t3 re_t4 re_t5 re_t6 re_t7 allowed_tags).
Notation open_blocksX := (open_blocksX table_on space_table punct_table norm re_t1o re_t1c re_t2 re_t3 re_t4 re_t5 re_t6 re_t7 allowed_tags).

(* ---------- what transformParagraph and Continue of paragraphs leave alone ---------- *)
(* every node below L but `node` keeps kind and parent, and stays childless if it was *)
Definition fr (node L : nat) (h h' : heap) : Prop :=
  forall j nj, nth_error h j = Some nj -> j <> node -> (j < L)%nat ->
  exists nj', nth_error h' j = Some nj' /\ bk nj' = bk nj /\ bpar nj' = bpar nj /\ (bch nj = [] -> bch nj' = []).
Lemma fr_refl node L h : fr node L h h.
Proof. intros j nj E _ _. exists nj. auto. Qed.
Lemma fr_trans node L a b c : fr node L a b -> fr node L b c -> fr node L a c.
Proof.
  intros H1 H2 j nj E Hj Hl. destruct (H1 j nj E Hj Hl) as [n1 [E1 [K1 [P1 C1]]]]. destruct (H2 j n1 E1 Hj Hl) as [n2 [E2 [K2 [P2 C2]]]].
  exists n2. csplit; auto; congruence.
Qed.
Lemma fr_app node L h n : fr node L h (h ++ [n]).
Proof. intros j nj E _ _. exists nj. rewrite nth_error_app1 by (eapply nth_some_lt; eassumption). auto. Qed.
Lemma fr_hupd node L h i f h' : hupd h i f = Ok h' ->
  (i <> node -> (i < L)%nat -> forall n, bk (f n) = bk n /\ bpar (f n) = bpar n /\ (bch n = [] -> bch (f n) = [])) -> fr node L h h'.
Proof.
  intros H Hf j nj E Hj Hl. apply hupd_ok in H. destruct H as [n [En ->]]. destruct (Nat.eq_dec j i) as [->|Hne].
  - assert (nj = n) by congruence. subst nj. exists (f n). rewrite nth_hset_eq by (eapply nth_some_lt; eassumption).
    destruct (Hf Hj Hl n) as [K [P C]]. auto.
  - exists nj. rewrite nth_hset_ne by congruence. auto.
Qed.

Lemma fr_replace node L h p old new h1 : replace_child h p old new = Ok h1 -> (old <> node -> (old < L)%nat -> False) ->
  (L <= new)%nat -> fr node L h h1.
Proof.
  intros Eh Hold Hnew. unfold replace_child in Eh. bind_inv Eh no Eno. destruct (opt_nat_eqb (bpar no) (Some p)).
  - bind_inv Eh h2 E2. bind_inv Eh h3 E3.
    eapply fr_trans; [eapply fr_hupd; [exact E2|]|eapply fr_trans; [eapply fr_hupd; [exact E3|]|eapply fr_hupd; [exact Eh|]]].
    + intros _ _ m. cbn [set_ch bk bpar bch]. csplit; auto. intros ->. reflexivity.
    + intros _ Hl. lia.
    + intros Hne Hl. destruct (Hold Hne Hl).
  - injection Eh as <-. apply fr_refl.
Qed.

Lemma lrd_frame s node s' : lrd_transform space_table punct_table norm s node = Ok s' ->
  fr node (length (s_h s)) (s_h s) (s_h s').
Proof.
  intros E1.
  unfold lrd_transform in E1. bind_inv E1 n En. bind_inv E1 br Ebr. bind_inv E1 x Ex. destruct x as [c removes].
  bind_inv E1 lines El. destruct lines as [|l0 ls].
  - unfold new_node, halloc in E1. cbv beta iota zeta in E1. cbn [st_c st_h s_h s_c] in E1.
    destruct (bpar n) as [p|]; [|discriminate]. bind_inv E1 h1 Eh. injection E1 as <-. cbn [st_h s_h].
    eapply fr_trans; [apply fr_app|]. eapply fr_replace; [exact Eh| |lia]. intros Hne _. congruence.
  - cbn [st_c s_h] in E1. bind_inv E1 h1 Eh. injection E1 as <-. cbn [st_h s_h].
    eapply fr_hupd; [exact Eh|]. intros Hne _. congruence.
Qed.

Lemma fr_hupd' node L h i f h' : hupd h i f = Ok h' ->
  (i <> node -> (i < L)%nat -> forall n, nth_error h i = Some n -> bk (f n) = bk n /\ bpar (f n) = bpar n /\ (bch n = [] -> bch (f n) = [])) -> fr node L h h'.
Proof.
  intros H Hf j nj E Hj Hl. apply hupd_ok in H. destruct H as [n [En ->]]. destruct (Nat.eq_dec j i) as [->|Hne].
  - assert (nj = n) by congruence. subst nj. exists (f n). rewrite nth_hset_eq by (eapply nth_some_lt; eassumption).
    destruct (Hf Hj Hl n En) as [K [P C]]. auto.
  - exists nj. rewrite nth_hset_ne by congruence. auto.
Qed.

(* the parent of node has children *)
Definition par_ch (h : heap) (node : nat) : Prop :=
  forall n p np, nth_error h node = Some n -> bpar n = Some p -> nth_error h p = Some np -> bch np <> [].

Lemma table_frame x node x' : table_transform space_table x node = Ok x' -> par_ch (s_h (bx_s x)) node ->
  fr node (length (s_h (bx_s x))) (s_h (bx_s x)) (s_h (bx_s x')).
Proof.
  intros H Hpc. unfold table_transform in H. bind_inv H n En. apply hget_ok in En. bind_inv H r Er.
  destruct r as [[before tbl]|]; [|injection H as <-; apply fr_refl].
  destruct (bpar n) as [p|] eqn:Pn; [|discriminate]. unfold new_node, halloc in H. cbv beta iota zeta in H. cbn [st_h s_h] in H.
  bind_inv H h1 E1. bind_inv H h2 E2. injection H as <-. cbn [bx_s st_h s_h].
  eapply fr_trans; [apply fr_app|].
  assert (fr node (length (s_h (bx_s x))) (s_h (bx_s x) ++ [mknode BThematicBreak 0]) h1) as F1.
  { unfold insert_after in E1. bind_inv E1 ha Ea. eapply fr_trans; [eapply fr_hupd'; [exact Ea|]|eapply fr_hupd; [exact E1|]].
    - intros _ Hl m Em. cbn [set_ch bk bpar bch]. csplit; auto. intros E. exfalso.
      rewrite nth_error_app1 in Em by exact Hl. exact (Hpc _ _ _ En Pn Em E).
    - intros _ Hl. lia. }
  eapply fr_trans; [exact F1|]. destruct before as [|b0 bt].
  - bind_inv E2 h' E'. eapply fr_trans; [eapply fr_hupd; [exact E'|intros Hne _; congruence]|].
    unfold remove_child in E2. bind_inv E2 nc Enc. destruct (opt_nat_eqb (bpar nc) (Some p)); [|injection E2 as <-; apply fr_refl].
    bind_inv E2 hb Eb. eapply fr_trans; [eapply fr_hupd; [exact Eb|]|eapply fr_hupd; [exact E2|intros Hne _; congruence]].
    intros _ _ m. cbn [set_ch bk bpar bch]. csplit; auto. intros ->. reflexivity.
  - eapply fr_hupd; [exact E2|]. intros Hne _. congruence.
Qed.

Lemma fr_mono node L L' a b : fr node L' a b -> (L <= L')%nat -> fr node L a b.
Proof. intros H Hle j nj E Hj Hl. apply H; auto. lia. Qed.

Lemma lrd_cases s node s' : lrd_transform space_table punct_table norm s node = Ok s' ->
  (exists n lines, nth_error (s_h s) node = Some n /\ s_h s' = hset (s_h s) node (set_lines n lines)) \/
  (exists n p tn, nth_error (s_h s) node = Some n /\ bpar n = Some p /\
     replace_child (s_h s ++ [tn]) p node (length (s_h s)) = Ok (s_h s')).
Proof.
  intros E1. unfold lrd_transform in E1. bind_inv E1 n En. apply hget_ok in En. bind_inv E1 br Ebr. bind_inv E1 y Ey. destruct y as [c removes].
  bind_inv E1 lines El. destruct lines as [|l0 ls].
  - unfold new_node, halloc in E1. cbv beta iota zeta in E1. cbn [st_c st_h s_h s_c] in E1.
    destruct (bpar n) as [p|] eqn:Pn; [|discriminate]. bind_inv E1 h1 Eh. injection E1 as <-. cbn [st_h s_h].
    right. eexists n, p, _. csplit; eauto.
  - cbn [st_c s_h] in E1. bind_inv E1 h1 Eh. injection E1 as <-. cbn [st_h s_h]. apply hupd_ok in Eh. destruct Eh as [n' [En' ->]].
    assert (n' = n) by congruence. subst n'. left. exists n, (l0 :: ls). auto.
Qed.

Lemma transform_frameX x node x' gone : transform_paragraphX x node = Ok (x', gone) -> par_ch (s_h (bx_s x)) node ->
  fr node (length (s_h (bx_s x))) (s_h (bx_s x)) (s_h (bx_s x')).
Proof.
  intros H Hpc. unfold BlockParseX.transform_paragraphX in H. bind_inv H s1 E1. bind_inv H n1 En1. apply hget_ok in En1.
  pose proof (lrd_frame _ _ _ E1) as F1. cbn [stx_s bx_s] in *.
  destruct (lrd_cases _ _ _ E1) as [[n [lines [En Eh]]]|[n [p [tn [En [Pn Er]]]]]].
  - pose proof (nth_some_lt _ _ _ En) as Hlt.
    destruct (bpar n1) as [q|] eqn:Pq; [|injection H as <- _; exact F1].
    destruct table_on; [|injection H as <- _; exact F1].
    bind_inv H x2 E2. bind_inv H n2 En2. injection H as <- _.
    eapply fr_trans; [exact F1|]. eapply fr_mono; [apply (table_frame _ _ _ E2)|cbn [stx_s bx_s]; rewrite Eh, length_hset; lia].
    cbn [stx_s bx_s]. rewrite Eh. intros m p' np' Em Pm Ep'.
    rewrite nth_hset_eq in Em by exact Hlt. injection Em as <-. cbn [set_lines bpar] in Pm.
    destruct (Nat.eq_dec p' node) as [->|Hne].
    + rewrite nth_hset_eq in Ep' by exact Hlt. injection Ep' as <-. cbn [set_lines bch]. eapply Hpc; eassumption.
    + rewrite nth_hset_ne in Ep' by congruence. eapply Hpc; eassumption.
  - (* the paragraph has been replaced: it is detached *)
    assert (bpar n1 = None) as Pq.
    { unfold replace_child in Er. bind_inv Er no Eno. apply hget_ok in Eno.
      rewrite nth_error_app1 in Eno by (eapply nth_some_lt; exact En). assert (no = n) by congruence. subst no.
      rewrite Pn in Er. cbn [opt_nat_eqb] in Er. rewrite Nat.eqb_refl in Er.
      bind_inv Er h2 E2. bind_inv Er h3 E3. apply hupd_ok in Er. destruct Er as [m [Em Eh]]. rewrite Eh in En1.
      rewrite nth_hset_eq in En1 by (eapply nth_some_lt; exact Em). injection En1 as <-. reflexivity. }
    rewrite Pq in H. injection H as <- _. exact F1.
Qed.

Lemma paragraph_continue_shape s node s' cont : paragraph_continue space_table s node = Ok (s', cont) ->
  shape_le (s_h s) (s_h s').
Proof.
  intros H. unfold paragraph_continue in H. bind_inv H x Ex. destruct x as [[s1 l] sg].
  unfold peek_line_s in Ex. bind_inv Ex y Ey. destruct y as [[r1 l1] sg1]. injection Ex as <- <- <-. cbn [st_r s_h] in H.
  destruct (Reader.is_blank space_table (line_of l1)).
  - injection H as <- _. apply shape_le_refl.
  - bind_inv H h1 Eh. bind_inv H s2 Ea. injection H as <- _. unfold advance_s in Ea. bind_inv Ea r2 Er. injection Ea as <-.
    cbn [st_r st_h s_h]. apply hupd_ok in Eh. destruct Eh as [n [En ->]]. eapply shape_le_hset; [exact En|apply (CC same_shape_lines)].
Qed.


(* ---------- list items are only opened below lists ---------- *)
Lemma list_item_open_parent s parent s' x : list_item_open_s space_table s parent = Ok (s', Some x) ->
  exists pn, nth_error (s_h s) parent = Some pn /\ bk pn = BList.
Proof.
  intros H. unfold list_item_open_s in H. bind_inv H pn Epn. apply hget_ok in Epn.
  destruct (bkind_eqb (bk pn) BList) eqn:Ek; cbn [negb] in H; [|discriminate].
  apply (CC bkind_eqb_eq) in Ek. eauto.
Qed.

(* ---------- the state after AppendChild and the append to the opened blocks ---------- *)
Lemma uniqS_snoc E y bq : uniqS E -> (bq = PSetext -> forall z, ~ In (z, PSetext) E) -> uniqS (E ++ [(y, bq)]).
Proof.
  intros Hu Hn a b Ha Hb. apply in_app_or in Ha. apply in_app_or in Hb.
  destruct Ha as [Ha|[Ha|[]]], Hb as [Hb|[Hb|[]]].
  - apply Hu; assumption.
  - injection Hb as -> ->. destruct (Hn eq_refl a Ha).
  - injection Ha as -> ->. destruct (Hn eq_refl b Hb).
  - congruence.
Qed.

Lemma attach_state fl s1 s3 A D N node bp nn np blank :
  OInv fl s1 A D N -> nth_error (s_h s1) node = Some nn -> bpar nn = None -> bch nn = [] -> bk nn = pkind bp ->
  entryP bp nn ->
  (bp = PSetext -> (forall z, ~ In (z, PSetext) (A ++ D ++ N)) /\
     exists tmp t, c_tmp_para (s_c s1) = Some tmp /\ nth_error (s_h s1) tmp = Some t /\ bk t = BParagraph /\
                   finne (blines t) /\ ~ In tmp (ids (A ++ D ++ N)) /\ tmp <> node) ->
  (forall tmp y, c_tmp_para (s_c s1) = Some tmp -> In (y, PSetext) (A ++ D ++ N) -> tmp <> node) ->
  ~ In node (ids (A ++ D ++ N)) -> node <> 0%nat ->
  nth_error (s_h s1) (lastid (ids (A ++ N))) = Some np -> container (bk np) = true ->
  (bk nn = BListItem -> bk np = BList) ->
  s_r s3 = s_r s1 -> s_c s3 = push_opened (s_c s1) (node, bp) ->
  append_child (hset (s_h s1) node (set_blank nn blank)) (lastid (ids (A ++ N))) node = Ok (s_h s3) ->
  OInv fl s3 A D (N ++ [(node, bp)]).
Proof.
  intros [[HR HH] [HO Hu]] En Pn Cn Kn Hatx Hset Htmp Hni Hn0 Ep Kp Hli Er Ec Ha.
  assert (nodeP (set_blank nn blank)) as HnP.
  { eapply nodeP_same; [exact (hs_node _ _ _ (hi_heap _ _ _ _ _ _ _ _ HH) _ _ En)|reflexivity..|].
    intros _. exact Cn. }
  assert (HI (rd_bound fl (s_r s1)) (hset (s_h s1) node (set_blank nn blank)) (s_c s1) A D N) as HH2.
  { eapply (CE HI_hset_free); [exact HH|exact En|exact Pn|repeat split|reflexivity|exact HnP]. }
  assert (node <> lastid (ids (A ++ N))) as Hcp.
  { destruct (CE lastid_cases (ids (A ++ N))) as [[_ E]|[_ Hin]]; [congruence|]. intros E. apply Hni. rewrite E.
    rewrite !ids_app in *. apply in_app_or in Hin. apply in_or_app. destruct Hin; [left; assumption|right; apply in_or_app; right; assumption]. }
  assert (forall j nj, j <> node -> nth_error (s_h s1) j = Some nj ->
            nth_error (hset (s_h s1) node (set_blank nn blank)) j = Some nj) as Hother.
  { intros j nj Hj Ej. rewrite nth_hset_ne by congruence. exact Ej. }
  assert (nth_error (hset (s_h s1) node (set_blank nn blank)) node = Some (set_blank nn blank)) as En2.
  { apply nth_hset_eq. eapply nth_some_lt; eassumption. }
  assert (HI (rd_bound fl (s_r s1)) (s_h s3) (s_c s1) A D (N ++ [(node, bp)])) as HH3.
  { eapply (CE HI_attach) with (nn := set_blank nn blank) (np := np); try exact Ha; try exact HH2; try exact En2; auto.
    - intros E. destruct (Hset E) as [_ [tmp [t [T1 [T2 [T3 [T4 [T5 T6]]]]]]]]. exists tmp, t. csplit; auto. }
  split; [|split].
  - split; [rewrite Er; exact HR|]. rewrite Er, Ec. eapply (CC HI_ctx); [exact HH3|reflexivity..].
  - rewrite Ec. replace (A ++ D ++ N ++ [(node, bp)]) with ((A ++ D ++ N) ++ [(node, bp)]) by (rewrite <- !app_assoc; reflexivity).
    apply (CE Oeq_push). exact HO.
  - replace (A ++ D ++ N ++ [(node, bp)]) with ((A ++ D ++ N) ++ [(node, bp)]) by (rewrite <- !app_assoc; reflexivity).
    apply uniqS_snoc; [exact Hu|]. intros E. exact (proj1 (Hset E)).
Qed.


(* ---------- only the setext parser touches the temporary paragraph of the context ---------- *)
Lemma peek_line_s_c s s' l sg : peek_line_s s = Ok (s', l, sg) -> s_c s' = s_c s /\ s_h s' = s_h s.
Proof. unfold peek_line_s. intros H. bind_inv H x Ex. destruct x as [[r l1] sg1]. injection H as <- _ _. auto. Qed.
Lemma line_offset_s_c s s' o : line_offset_s s = Ok (s', o) -> s_c s' = s_c s /\ s_h s' = s_h s.
Proof. unfold line_offset_s. intros H. bind_inv H x Ex. destruct x as [r o1]. injection H as <- _. auto. Qed.
Lemma advance_s_c s n s' : advance_s s n = Ok s' -> s_c s' = s_c s /\ s_h s' = s_h s.
Proof. unfold advance_s. intros H. bind_inv H r Er. injection H as <-. auto. Qed.

Ltac ctx_step H :=
  match type of H with
  | bind (peek_line_s _) _ = Ok _ => let x := fresh "x" in let E := fresh "E" in bind_inv H x E; destruct x as [[? ?] ?]; apply peek_line_s_c in E; destruct E as [? ?]
  | bind (line_offset_s _) _ = Ok _ => let x := fresh "x" in let E := fresh "E" in bind_inv H x E; destruct x as [? ?]; apply line_offset_s_c in E; destruct E as [? ?]
  | bind (advance_s _ _) _ = Ok _ => let x := fresh "x" in let E := fresh "E" in bind_inv H x E; apply advance_s_c in E; destruct E as [? ?]
  | bind _ _ = Ok _ => let x := fresh "x" in let E := fresh "E" in bind_inv H x E
  | (if ?b then _ else _) = Ok _ => destruct b
  | match ?x with Some _ => _ | None => _ end = Ok _ => destruct x
  | (let '(_, _) := ?x in _) = Ok _ => destruct x
  | Ok _ = Ok _ => injection H as <- <-
  end.

Ltac ctx_done :=
  cbn [st_h st_c st_r s_c cset_skip cset_empty cset_fence c_tmp_para] in *;
  repeat match goal with Hc : s_c ?a = _ |- context [s_c ?a] => rewrite Hc; cbn [st_h st_c st_r s_c cset_skip cset_empty cset_fence c_tmp_para] end;
  reflexivity.

Lemma p_open_tmp bp s parent s' o :
  p_open space_table re_t1o re_t2 re_t3 re_t4 re_t5 re_t6 re_t7 allowed_tags bp s parent = Ok (s', o) ->
  bp <> PSetext -> c_tmp_para (s_c s') = c_tmp_para (s_c s).
Proof.
  intros H Hbp. destruct bp; cbn [p_open] in H; try congruence.
  - unfold thematic_open, new_node, halloc in H. repeat ctx_step H; ctx_done.
  - unfold list_open, new_node, halloc in H. repeat ctx_step H; ctx_done.
  - unfold list_item_open_s, new_node, halloc in H. repeat ctx_step H; try destruct p as [[? ?] ?]; repeat ctx_step H; ctx_done.
  - unfold code_open, new_node, halloc in H. repeat ctx_step H; try destruct p as [? ?]; repeat ctx_step H; ctx_done.
  - unfold atx_open_s, new_node, halloc in H. repeat ctx_step H; try destruct p as [? ?]; repeat ctx_step H; ctx_done.
  - unfold fenced_open, new_node, halloc in H. repeat ctx_step H; try destruct p as [[[? ?] ?] ?]; repeat ctx_step H; ctx_done.
  - unfold bq_open, new_node, halloc in H. repeat ctx_step H; ctx_done.
  - unfold html_open, new_node, halloc in H. cbv zeta in H. repeat ctx_step H; ctx_done.
  - unfold paragraph_open, new_node, halloc in H. repeat ctx_step H; ctx_done.
Qed.


(* ---------- the paragraph a setext heading line follows ---------- *)
Lemma nodup_app_disj {X} (a b : list X) x : NoDup (a ++ b) -> In x a -> In x b -> False.
Proof.
  induction a as [|y t IH]; cbn [app]; intros H Ha Hb; [destruct Ha|]. inversion H as [|? ? Hy Ht]; subst.
  destruct Ha as [->|Ha]; [apply Hy; apply in_or_app; right; exact Hb|auto].
Qed.

Lemma setext_pos fl s A D last lp nl parent :
  SInv fl s A D [] -> Oeq (s_c s) (A ++ D ++ []) -> last_opened (s_c s) = Some (last, lp) ->
  nth_error (s_h s) last = Some nl -> bk nl = BParagraph -> bpar nl = Some parent -> parent = lastid (ids (A ++ [])) ->
  D = [(last, PParagraph)] /\ lastchild (s_h s) parent last /\ (forall z, ~ In (z, PSetext) (A ++ D ++ [])).
Proof.
  intros HS HO Elo Enl Knl Pnl Hpar. rewrite app_nil_r in Hpar.
  pose proof (CC last_opened_spec _ _ HO) as Hlo. rewrite Elo in Hlo. destruct Hlo as [E' HE].
  pose proof HS as [_ HH]. pose proof (hi_heap _ _ _ _ _ _ _ _ HH) as HhS. pose proof (hi_open _ _ _ _ _ _ _ _ HH) as HoS.
  assert (In (last, lp) (A ++ D ++ [])) as Hin by (rewrite HE; apply in_or_app; right; left; reflexivity).
  destruct (CE SInv_entry _ _ _ _ _ _ _ HS Hin) as [n0 [En0 [K0 _]]]. assert (n0 = nl) by congruence. subst n0.
  assert (lp = PParagraph) as -> by (apply (CE pkind_para); congruence).
  assert (forall z, ~ In (z, PSetext) (A ++ D ++ [])) as Hno.
  { intros z Hz. destruct (CE SInv_entry _ _ _ _ _ _ _ HS Hz) as [nz [Ez [Kz _]]]. cbn [pkind] in Kz.
    assert (z = last) as ->.
    { change last with (fst (last, PParagraph)). rewrite app_nil_r in HE, Hz. eapply (CC leaf_entry_top); try eassumption.
      - eapply in_ids. exact Hz.
      - rewrite Kz. reflexivity. }
    congruence. }
  destruct (CC snoc_cases _ _ _ _ _ HE) as [[N' EN]|[[_ [D' ED]]|[_ [ED [A' EA]]]]].
  - destruct N'; discriminate.
  - destruct (CC exists_last_or_nil D') as [->|[D'' [[f fp] ->]]].
    + cbn [app] in ED. subst D. csplit; auto. pose proof (os_lc _ _ _ _ _ _ HoS eq_refl) as Hl. cbn [fst] in Hl. rewrite Hpar. exact Hl.
    + exfalso. subst D. pose proof (os_chain _ _ _ _ _ _ HoS) as Hc.
      assert (child (s_h s) f last) as Hch.
      { apply Hc. rewrite !(CC ids_snoc). cbn [fst]. exists (lastid (ids A) :: ids D''), []. rewrite <- app_assoc. reflexivity. }
      destruct Hch as [nf [Ef Hl]]. destruct (hs_K _ _ _ HhS f nf last Ef Hl) as [nc [Ec Pc]].
      assert (f = lastid (ids A)) as Ef' by congruence.
      assert (In f (ids ((D'' ++ [(f, fp)]) ++ [(last, PParagraph)]))) as HfD.
      { rewrite !(CC ids_snoc). cbn [fst]. apply in_or_app. left. apply in_or_app. right. left. reflexivity. }
      destruct (CE lastid_cases (ids A)) as [[_ E0]|[_ HinA]].
      * eapply chain_no_root; [exact HhS|exact Hc|]. rewrite <- E0, <- Ef'. exact HfD.
      * pose proof (os_nodup _ _ _ _ _ _ HoS) as Hnd. rewrite (ids_app A), (ids_app _ []) in Hnd. rewrite <- Ef' in HinA.
        eapply nodup_app_disj; [exact Hnd|exact HinA|]. apply in_or_app. left. exact HfD.
  - exfalso. subst A. rewrite (CE lastid_ids_snoc) in Hpar. subst parent.
    eapply hs_noself; [exact HhS|exact Enl|exact Pnl].
Qed.


Lemma append_child_length h p c h1 : append_child h p c = Ok h1 -> length h1 = length h.
Proof.
  unfold append_child. intros H. bind_inv H h0 E0. apply hupd_ok in E0. destruct E0 as [n0 [_ ->]].
  apply hupd_ok in H. destruct H as [n1 [_ ->]]. rewrite !length_hset. reflexivity.
Qed.

Lemma lastid_app_ne (A N : list (nat * bparser)) : N <> [] -> lastid (ids (A ++ N)) = lastid (ids N).
Proof.
  intros HN. destruct (CC exists_last_or_nil N) as [->|[N' [[y bq] ->]]]; [congruence|].
  rewrite app_assoc, !(CE lastid_ids_snoc). reflexivity.
Qed.

(* ---------- transformParagraph on the closed paragraph a setext underline follows ---------- *)
Lemma transformX_closed_ok fl x node x' gone A D N n p np :
  SInv fl (bx_s x) A D N -> tabs_ok src (bx_tabs x) -> ~ In node (ids (A ++ D ++ N)) ->
  (forall y, ~ In (y, PSetext) (A ++ D ++ N)) ->
  nth_error (s_h (bx_s x)) node = Some n -> bk n = BParagraph -> bpar n = Some p ->
  nth_error (s_h (bx_s x)) p = Some np -> In node (bch np) ->
  fin_lines (blines n) -> blines n <> [] ->
  transform_paragraphX x node = Ok (x', gone) ->
  tframe (bx_s x) (bx_s x') /\ SInv fl (bx_s x') A D N /\ tabs_ok src (bx_tabs x') /\
  exists n', nth_error (s_h (bx_s x')) node = Some n' /\ (gone = true <-> bpar n' = None) /\
    (gone = false -> bk n' = BParagraph /\ bpar n' = Some p /\ fin_lines (blines n') /\ blines n' <> []).
Proof.
  intros HS Htabs Hni Hno En Kn Pn Ep Hch Hfin Hne H.
  assert (forall c0 y, In (y, PSetext) (A ++ D ++ N) -> c_tmp_para c0 <> Some node) as Htmp by (intros c0 y Hy; destruct (Hno y Hy)).
  unfold BlockParseX.transform_paragraphX in H. bind_inv H s1 E1. bind_inv H n1 En1. apply hget_ok in En1. cbn [stx_s bx_s] in En1.
  destruct (CJ lrd_closed_ok fl _ _ _ A D N n p np HS Hni (Htmp _) En Kn Pn Ep Hfin E1) as [F1 [HS1 [n1' [En1' [K1 Hc1]]]]].
  assert (n1' = n1) by congruence. subst n1'.
  destruct (bpar n1) as [q|] eqn:Pq.
  - destruct Hc1 as [Hbad|[Pq' [Hfin1 [Hne1 [_ [np1 [Ep1 Ec1]]]]]]]; [discriminate|]. injection Pq' as ->.
    destruct table_on.
    + bind_inv H x2 E2. bind_inv H n2 En2. apply hget_ok in En2. injection H as <- <-.
      destruct (CS table_closed_ok fl (stx_s x s1) node x2 A D N n1 p np1 HS1 Htabs Hni (Htmp _) En1 K1 Pq Ep1) as [F2 [HS2 [Ht2 [n2' [En2' [K2 Hc2]]]]]]; auto.
      { rewrite Ec1. exact Hch. }
      assert (n2' = n2) by congruence. subst n2'. cbn [stx_s bx_s] in *.
      split; [eapply (CJ tframe_trans); eassumption|]. csplit; auto. exists n2. split; [exact En2|].
      destruct (bpar n2) as [q2|] eqn:Pq2.
      * destruct Hc2 as [Hbad|[E2' [Hf2 Hn2]]]; [discriminate|]. split; [split; discriminate|]. intros _. csplit; auto.
      * split; [split; reflexivity|discriminate].
    + injection H as <- <-. cbn [stx_s bx_s bx_tabs]. csplit; auto. exists n1. split; [exact En1|]. rewrite Pq.
      split; [split; discriminate|]. intros _. csplit; auto.
  - injection H as <- <-. cbn [stx_s bx_s bx_tabs]. csplit; auto. exists n1. split; [exact En1|]. rewrite Pq.
    split; [split; reflexivity|discriminate].
Qed.

(* ---------- the bookkeeping of one call of openBlocks, relative to its start ---------- *)
Section Track.
Variables (s0 : st) (A D0 : list (nat * bparser)) (cont0 : bool).

Record Trk (s : st) (D N : list (nat * bparser)) (res : Z) (cont : bool) : Prop := {
  tk_len : (length (s_h s0) <= length (s_h s))%nat;
  tk_D : D = D0 \/ (D = [] /\ exists x, D0 = [(x, PParagraph)]);
  tk_arr : N = [] -> c_arr (s_c s) = c_arr (s_c s0);
  tk_res : (res = noBlocksOpened /\ N = []) \/ (res = newBlocksOpened /\ N <> []);
  tk_cont : cont = true -> cont0 = true /\ (N = [] -> D = D0 /\ shape_le (s_h s0) (s_h s));
  tk_new : forall y, In y (ids N) -> (length (s_h s0) <= y)%nat }.

Definition TPre (x : stx) (D N : list (nat * bparser)) (parent : nat) : Prop :=
  XInv FF x A D N /\ parent = lastid (ids (A ++ N)) /\ topC (A ++ N).

Lemma Trk_same s s1 D N res cont : Trk s D N res cont -> s_h s1 = s_h s -> c_arr (s_c s1) = c_arr (s_c s) -> Trk s1 D N res cont.
Proof. intros [T1 T2 T3 T4 T5 T6] Eh Ea. constructor; rewrite ?Eh, ?Ea; auto. Qed.

Lemma TPre_same x s1 D N parent : TPre x D N parent -> SInv FF s1 A D N -> c_arr (s_c s1) = c_arr (s_c (bx_s x)) ->
  c_len (s_c s1) = c_len (s_c (bx_s x)) -> TPre (stx_s x s1) D N parent.
Proof.
  intros [[[_ [HO Hu]] Htabs] [Hp Ht]] HS Ea El. split; [|split; assumption]. split; [|exact Htabs]. cbn [stx_s bx_s].
  split; [exact HS|]. split; [|exact Hu]. eapply (CE Oeq_same); eassumption.
Qed.

(* the tail of a successful Open: Blank flag, AppendChild, append to the opened blocks *)
Lemma tail_ok fl (xa : stx) D N parent node bp blank (lb : option (nat * bparser)) nn h2 x2 h3 :
  XInv fl xa A D N -> nth_error (s_h (bx_s xa)) node = Some nn -> bpar nn = None -> bch nn = [] -> bk nn = pkind bp ->
  entryP bp nn ->
  (bp = PSetext -> (forall z, ~ In (z, PSetext) (A ++ D ++ N)) /\
     exists tmp t, c_tmp_para (s_c (bx_s xa)) = Some tmp /\ nth_error (s_h (bx_s xa)) tmp = Some t /\ bk t = BParagraph /\
                   finne (blines t) /\ ~ In tmp (ids (A ++ D ++ N)) /\ tmp <> node) ->
  (forall tmp y, c_tmp_para (s_c (bx_s xa)) = Some tmp -> In (y, PSetext) (A ++ D ++ N) -> tmp <> node) ->
  ~ In node (ids (A ++ D ++ N)) -> node <> 0%nat -> topC (A ++ N) -> parent = lastid (ids (A ++ N)) ->
  (bp = PListItem -> exists pn, nth_error (s_h (bx_s xa)) parent = Some pn /\ bk pn = BList) ->
  (forall last lp, lb = Some (last, lp) -> last <> node /\ exists nl q, nth_error (s_h (bx_s xa)) last = Some nl /\ bpar nl = Some q) ->
  hupd (s_h (bx_s xa)) node (fun n => set_blank n blank) = Ok h2 ->
  match lb with
  | Some (last, _) =>
      att <- attached (s_h (bx_s (stx_s xa (st_h (bx_s xa) h2)))) last ;;
      (if negb att
       then close_blocksX (stx_s xa (st_h (bx_s xa) h2)) (Z.of_nat (c_len (s_c (bx_s (stx_s xa (st_h (bx_s xa) h2))))) - 1)
              (Z.of_nat (c_len (s_c (bx_s (stx_s xa (st_h (bx_s xa) h2))))) - 1)
       else Ok (stx_s xa (st_h (bx_s xa) h2)))
  | None => Ok (stx_s xa (st_h (bx_s xa) h2))
  end = Ok x2 ->
  append_child (s_h (bx_s x2)) parent node = Ok h3 ->
  XInv fl (stx_s x2 (st_c (st_h (bx_s x2) h3) (push_opened (s_c (bx_s x2)) (node, bp)))) A D (N ++ [(node, bp)]) /\
  length h3 = length (s_h (bx_s xa)).
Proof.
  intros [HO Htabs] En Pn Cn Kn Hatx Hset Htmp Hni Hn0 Htop Hpar Hli Hlb Eh2 Es2 Eh3.
  apply hupd_ok in Eh2. destruct Eh2 as [nn0 [En0 ->]]. assert (nn0 = nn) by congruence. subst nn0.
  assert (x2 = stx_s xa (st_h (bx_s xa) (hset (s_h (bx_s xa)) node (set_blank nn blank)))) as ->.
  { destruct lb as [[last lp]|]; [|injection Es2 as <-; reflexivity].
    destruct (Hlb last lp eq_refl) as [Hne [nl [q [Enl Pnl]]]].
    unfold attached, hget in Es2. cbn [stx_s bx_s st_h s_h] in Es2. rewrite nth_hset_ne in Es2 by congruence. rewrite Enl in Es2.
    cbn [bind] in Es2. rewrite Pnl in Es2. cbn [negb] in Es2. injection Es2 as <-. reflexivity. }
  cbn [stx_s bx_s bx_tabs st_h s_h s_c] in *.
  destruct (CE parent_node fl (bx_s xa) A D N (proj1 HO) Htop) as [np [Ep Kp]].
  split.
  - split; [|exact Htabs]. cbn [bx_s].
    subst parent. eapply (attach_state fl (bx_s xa) _ A D N node bp nn np blank); try eassumption; try reflexivity.
    intros Kli. assert (bp = PListItem) as Eb by (destruct bp; cbn [pkind] in *; congruence).
    destruct (Hli Eb) as [pn [Epn Kpn]]. congruence.
  - apply append_child_length in Eh3. rewrite Eh3. apply length_hset.
Qed.

Lemma nth_app_old {X} (h : list X) n i x : nth_error h i = Some x -> nth_error (h ++ [n]) i = Some x.
Proof. intros H. rewrite nth_error_app1 by (eapply nth_some_lt; eassumption). exact H. Qed.

Lemma try_parsersX_ok blank w : forall bps x D N parent res cont t, TPre x D N parent -> Trk (bx_s x) D N res cont ->
  try_parsersX bps parent blank cont res w x = Ok t ->
  match t with
  | TRetryX p' cont' res' x' => exists D' N', TPre x' D' N' p' /\ Trk (bx_s x') D' N' res' cont'
  | TDoneX res' x' => exists D' N', XInv WW x' A D' N' /\ Trk (bx_s x') D' N' res' cont /\ (N' = [] -> XInv FF x' A D' N')
  end.
Proof.
  induction bps as [|bp rest IH]; intros x D N parent res cont t HP HT H.
  - cbn [BlockParseX.try_parsersX] in H. injection H as <-. exists D, N. destruct HP as [[HO Htabs] _]. csplit; auto.
    split; [apply (CE OInv_FW); exact HO|exact Htabs]. split; assumption.
  - cbn [BlockParseX.try_parsersX] in H.
    destruct (cont && (res =? noBlocksOpened) && negb (can_interrupt_paragraph bp))%bool; [eapply IH; eassumption|].
    destruct ((3 <? w) && negb (can_accept_indented bp))%bool; [eapply IH; eassumption|].
    cbv zeta in H. bind_inv H y Ey. destruct y as [s1 o].
    pose proof HP as [[[HS [HO Hu]] Htabs] [Hpar Htop]].
    remember (bx_s x) as s eqn:Es.
    assert (PC N (s_h s)) as HPC.
    { intros HN. rewrite <- (lastid_app_ne A N HN). eapply (CE parent_node); eassumption. }
    pose proof (CC p_open_spec bp s parent s1 o A D N HS HO HPC Ey) as [Ea [El Hpost]].
    assert (Oeq (s_c s1) (A ++ D ++ N)) as HO1 by (eapply (CE Oeq_same); eassumption).
    assert (last_opened (s_c s1) = last_opened (s_c s)) as Elo1 by (unfold last_opened; rewrite Ea, El; reflexivity).
    destruct o as [[[node hc] rp]|].
    2: { destruct Hpost as [HS1 Eh1]. subst s. eapply IH; [eapply TPre_same; eassumption| |exact H].
         cbn [stx_s bx_s]. eapply Trk_same; eassumption. }
    destruct Hpost as [Hnode [[n [Eh1 [Pn [Cn [Kn Hatx]]]]] [HW1 [Hhc [Hrpf Hrpt]]]]].
    assert (nth_error (s_h s1) node = Some n) as En1 by (rewrite Eh1, Hnode; apply nth_app_new).
    assert (forall y, In y (ids (A ++ D ++ N)) -> (y < node)%nat) as Hold.
    { intros y Hy. apply in_ids_inv in Hy. destruct Hy as [bq Hy].
      destruct (CE SInv_entry _ _ _ _ _ _ _ HS Hy) as [nx [_ [_ Hlt]]]. lia. }
    assert (node <> 0%nat) as Hn0.
    { destruct HS as [_ HH]. destruct (hs_root _ _ _ (hi_heap _ _ _ _ _ _ _ _ HH)) as [r0 [E0 _]]. apply nth_some_lt in E0. lia. }
    assert (~ In node (ids (A ++ D ++ N))) as Hni by (intros Hi; apply Hold in Hi; lia).
    assert (length (s_h s1) = S (length (s_h s))) as Hlen1 by (rewrite Eh1, app_length; cbn [length]; lia).
    destruct rp.
    + (* RequireParagraph: a setext heading *)
      destruct (Hrpt eq_refl) as [-> [-> [HF1 [-> [last [lp [nl [Elo [Etmp [Enl [Knl Pnl]]]]]]]]]]].
      rewrite Elo in H. bind_inv H r Er. bind_inv Er pn Epn. apply hget_ok in Epn. cbn [stx_s bx_s] in Epn, Er.
      assert (nth_error (s_h s1) last = Some nl) as Enl1 by (rewrite Eh1; apply nth_app_old; exact Enl).
      rewrite <- Elo1 in Elo.
      destruct (setext_pos FF s1 A D last lp nl parent HF1 HO1 Elo Enl1 Knl Pnl Hpar) as [-> [[pn' [Epn' Hlc]] Hno]].
      assert (pn' = pn) by congruence. subst pn'. rewrite Hlc in Er. cbn [opt_nat_eqb] in Er. rewrite Nat.eqb_refl in Er.
      assert (lp = PParagraph) as ->.
      { assert (In (last, lp) (A ++ [(last, PParagraph)] ++ [])) as Hin.
        { pose proof (CC last_opened_spec _ _ HO1) as Hs. rewrite Elo in Hs. destruct Hs as [E' HE]. rewrite HE. apply in_or_app. right. left. reflexivity. }
        destruct (CE SInv_entry _ _ _ _ _ _ _ HF1 Hin) as [n0 [En0 [K0 _]]]. apply (CE pkind_para). congruence. }
      bind_inv Er s2 Ec2. cbn [p_close] in Ec2.
      destruct (CE paragraph_close_ok FF s1 last s2 A [] [] HF1 Ec2) as [HF2 [Ec2' [Er2 [Hlen2 [Hsh2 [nl0 [L2 [Enl0 [Eh2 [Ffin2 [Fne2 _]]]]]]]]]]].
      assert (nl0 = nl) by congruence. subst nl0.
      destruct (Nat.eqb (c_len (s_c s2)) 0); [discriminate|].
      set (s3 := st_c s2 (cset_open (s_c s2) (c_arr (s_c s2)) (Init.Nat.pred (c_len (s_c s2))))) in *.
      bind_inv Er t4 Et. destruct t4 as [x4 gone]. cbn [stx_s bx_s bx_tabs] in Et.
      assert (SInv FF s3 A [] []) as HF3 by (apply (CC SInv_ctx); auto).
      assert (nth_error (s_h s3) last = Some (set_lines nl L2)) as Enl3.
      { cbn [s3 st_c s_h]. rewrite Eh2. apply nth_hset_eq. eapply nth_some_lt. exact Enl1. }
      assert (last <> parent) as Hlp.
      { intros ->. destruct HF1 as [_ HH]. eapply (hs_noself _ _ _ (hi_heap _ _ _ _ _ _ _ _ HH)); [exact Enl1|exact Pnl]. }
      assert (nth_error (s_h s3) parent = Some pn) as Epn3.
      { cbn [s3 st_c s_h]. rewrite Eh2. rewrite nth_hset_ne by congruence. exact Epn. }
      assert (~ In last (ids (A ++ [] ++ []))) as Hlast.
      { destruct HF1 as [_ HH]. pose proof (os_nodup _ _ _ _ _ _ (hi_open _ _ _ _ _ _ _ _ HH)) as Hnd.
        cbn [app]. rewrite app_nil_r. rewrite ids_app in Hnd. intros Hi. eapply nodup_app_disj; [exact Hnd|exact Hi|left; reflexivity]. }
      assert (forall y, ~ In (y, PSetext) (A ++ [] ++ [])) as Hno3.
      { intros y Hy. apply (Hno y). cbn [app] in *. rewrite app_nil_r in Hy. apply in_or_app. left. exact Hy. }
      destruct (transformX_closed_ok FF (stx_s x s3) last x4 gone A [] [] (set_lines nl L2) parent pn) as [T0 [HF4 [Htabs4 [l4 [El4 [T6 T8]]]]]]; auto.
      { apply last_id_in. exact Hlc. }
      cbn [stx_s bx_s] in T0, HF4. destruct T0 as [T1 [T2 [T3 [_ [T4 T5]]]]].
      assert (par_ch (s_h s3) last) as Hpc.
      { intros m p' np' Em Pm Ep'. assert (m = set_lines nl L2) by congruence. subst m. cbn [set_lines bpar] in Pm.
        assert (p' = parent) by congruence. subst p'. assert (np' = pn) by congruence. subst np'.
        intros E. rewrite E in Hlc. discriminate. }
      pose proof (transform_frameX _ _ _ _ Et Hpc) as Hfr. cbn [stx_s bx_s s3 st_c s_h] in Hfr, T5.
      assert (Oeq (s_c (bx_s x4)) (A ++ [] ++ [])) as HO4.
      { eapply (CE Oeq_same); [|exact T1|exact T2]. cbn [s3 st_c s_c app]. rewrite app_nil_r. rewrite Ec2'.
        eapply (CE Oeq_pop). cbn [app] in HO1. exact HO1. }
      assert (uniqS (A ++ [] ++ [])) as Hu4.
      { eapply (CE uniqS_incl); [exact Hu|]. intros e He. cbn [app] in He. rewrite app_nil_r in He. apply in_or_app. left. exact He. }
      assert (c_arr (s_c (bx_s x4)) = c_arr (s_c s)) as Earr4 by (rewrite T1; cbn [s3 st_c s_c cset_open c_arr]; congruence).
      assert (length (s_h s0) <= length (s_h (bx_s x4)))%nat as Hlen4 by (pose proof (tk_len _ _ _ _ _ HT); lia).
      assert (D0 = [(last, PParagraph)]) as ED0.
      { destruct (tk_D _ _ _ _ _ HT) as [E|[E _]]; [congruence|discriminate]. }
      destruct gone.
      * (* the paragraph held only link reference definitions, or only a table *)
        injection Er as <-. injection H as <-. exists [], []. split.
        -- split; [|split; assumption]. split; [|exact Htabs4]. split; [exact HF4|]. split; assumption.
        -- constructor; auto.
           ++ right. split; [reflexivity|]. eauto.
           ++ intros _. rewrite Earr4. apply (tk_arr _ _ _ _ _ HT). reflexivity.
           ++ destruct (tk_res _ _ _ _ _ HT) as [Hr|[_ Hr]]; [left; exact Hr|congruence].
           ++ discriminate.
           ++ intros y [].
      * (* the heading is attached, the paragraph becomes its temporary paragraph *)
        injection Er as <-. destruct (T8 eq_refl) as [Kl4 [Pl4 [Ffin4 Fne4]]].
        bind_inv H h5 Eh5. bind_inv H x5 Ex5. bind_inv H h6 Eh6. injection H as <-.
        (* the new node after Close and Transform *)
        destruct (Hsh2 node n En1) as [n2' [En2' [K2 [P2 C2]]]].
        assert (node <> last) as Hnl by (apply nth_some_lt in Enl; lia).
        destruct (Hfr node n2' En2' Hnl ltac:(lia)) as [n4 [En4 [K4 [P4 C4]]]].
        destruct (tail_ok FF x4 [] [] parent node PSetext blank (Some (last, PParagraph)) n4 h5 x5 h6) as [HO6 Hlen6]; auto.
        -- split; [|exact Htabs4]. split; [exact HF4|split; assumption].
        -- congruence.
        -- apply C4. congruence.
        -- cbn [pkind]. cbn [pkind] in Kn. congruence.
        -- split; discriminate.
        -- intros _. split; [exact Hno3|].
           exists last, l4. csplit; auto; [|split; assumption]. rewrite T3. cbn [s3 st_c s_c cset_open c_tmp_para]. rewrite Ec2'. exact Etmp.
        -- intros tmp y _ Hy. destruct (Hno3 y Hy).
        -- intros Hi. apply Hni. cbn [app] in *. rewrite app_nil_r in Hi. rewrite ids_app in *. apply in_or_app. left. exact Hi.
        -- discriminate.
        -- intros l' lp' E. injection E as <- <-. split; [auto|]. eauto.
        -- exists [], ([] ++ [(node, PSetext)]). split; [destruct HO6 as [HO6 Ht6]; split; [apply (CE OInv_FW); exact HO6|exact Ht6]|].
           split; [|intros E; discriminate].
           constructor; auto.
           ++ cbn [stx_s bx_s st_c st_h s_h]. lia.
           ++ right. split; [reflexivity|]. eauto.
           ++ intros E. discriminate.
           ++ right. split; [reflexivity|discriminate].
           ++ intros Hc. split; [exact (proj1 (tk_cont _ _ _ _ _ HT Hc))|intros E; discriminate].
           ++ intros y [<-|[]]. cbn [fst]. pose proof (tk_len _ _ _ _ _ HT). lia.
    + (* an ordinary Open *)
      pose proof (Hrpf eq_refl) as Hbp. cbn [bind] in H. bind_inv H h2 Eh2. bind_inv H x2 Ex2. bind_inv H h3 Eh3.
      cbn [stx_s bx_s] in Eh2.
      pose proof (p_open_tmp _ _ _ _ _ Ey Hbp) as Etmp.
      assert (forall fl, SInv fl s1 A D N ->
                XInv fl (stx_s x2 (st_c (st_h (bx_s x2) h3) (push_opened (s_c (bx_s x2)) (node, bp)))) A D (N ++ [(node, bp)]) /\
                length h3 = length (s_h s1)) as Hatt.
      { intros fl HS1. eapply (tail_ok fl (stx_s x s1) D N parent node bp blank (last_opened (s_c s)) n h2 x2 h3); auto; try eassumption.
        - split; [|exact Htabs]. split; [exact HS1|split; assumption].
        - intros E. cbn [stx_s bx_s]. congruence.
        - intros tmp y Et Hy. destruct HS as [_ HH]. destruct (os_tmp _ _ _ _ _ _ (hi_open _ _ _ _ _ _ _ _ HH) y Hy) as [tmp' [t' [T1 [T2 _]]]].
          cbn [stx_s bx_s] in Et. rewrite Etmp in Et. assert (tmp' = tmp) by congruence. subst tmp'. apply nth_some_lt in T2. lia.
        - intros E. subst bp. cbn [p_open] in Ey. destruct (list_item_open_parent _ _ _ _ Ey) as [pn [Epn Kpn]].
          exists pn. split; [cbn [stx_s bx_s]; rewrite Eh1; apply nth_app_old; exact Epn|exact Kpn].
        - intros last lp Elo.
          assert (In last (ids (A ++ D ++ N))) as Hin.
          { pose proof (CC last_opened_spec _ _ HO) as Hs. rewrite Elo in Hs. destruct Hs as [E' HE]. rewrite HE, (CC ids_snoc).
            apply in_or_app. right. left. reflexivity. }
          split; [apply Hold in Hin; lia|]. destruct (CE opened_attached _ _ _ _ _ _ HS Hin) as [q [nx [Ex' Px]]].
          exists nx, q. split; [cbn [stx_s bx_s]; rewrite Eh1; apply nth_app_old; exact Ex'|exact Px]. }
      assert (Trk (bx_s (stx_s x2 (st_c (st_h (bx_s x2) h3) (push_opened (s_c (bx_s x2)) (node, bp))))) D (N ++ [(node, bp)]) newBlocksOpened cont) as HT3.
      { destruct (Hatt WW HW1) as [_ Hlen3]. constructor.
        - cbn [stx_s bx_s st_c st_h s_h]. pose proof (tk_len _ _ _ _ _ HT). lia.
        - exact (tk_D _ _ _ _ _ HT).
        - intros E. destruct N; discriminate.
        - right. split; [reflexivity|]. destruct N; discriminate.
        - intros Hc. split; [exact (proj1 (tk_cont _ _ _ _ _ HT Hc))|intros E; destruct N; discriminate].
        - intros y Hy. rewrite (CC ids_snoc) in Hy. apply in_app_or in Hy. destruct Hy as [Hy|[<-|[]]].
          + exact (tk_new _ _ _ _ _ HT y Hy).
          + cbn [fst]. pose proof (tk_len _ _ _ _ _ HT). lia. }
      destruct hc.
      * injection H as <-. destruct (Hhc eq_refl) as [Kc HF1]. exists D, (N ++ [(node, bp)]). split; [|exact HT3].
        split; [exact (proj1 (Hatt FF HF1))|]. split.
        -- rewrite app_assoc. rewrite (CE lastid_ids_snoc). reflexivity.
        -- intros E' y bq HE. rewrite app_assoc in HE. apply app_inj_tail in HE. destruct HE as [_ HE]. injection HE as <- <-. exact Kc.
      * injection H as <-. exists D, (N ++ [(node, bp)]). split; [exact (proj1 (Hatt WW HW1))|]. split; [exact HT3|].
        intros E. destruct N; discriminate.
Qed.


Lemma open_blocks_loopX_ok blank : forall fuel parent x D N res cont res' cont' x', TPre x D N parent -> Trk (bx_s x) D N res cont ->
  open_blocks_loopX fuel parent blank cont res x = Ok (res', cont', x') ->
  exists D' N', XInv WW x' A D' N' /\ Trk (bx_s x') D' N' res' cont' /\ (N' = [] -> XInv FF x' A D' N').
Proof.
  induction fuel as [|f IH]; intros parent x D N res cont res' cont' x' HP HT H; [discriminate|].
  cbn [BlockParseX.open_blocks_loopX] in H. bind_inv H y Ex. destruct y as [[s1 line] sg].
  pose proof HP as [[[HS [HO Hu]] Htabs] [Hpar Htop]].
  destruct (CC peek_s_ok _ _ _ _ _ _ _ HS Ex) as [HS1 [Eh1 [Ec1 _]]].
  bind_inv H yo Ey. destruct yo as [s2 off].
  destruct (CC loff_s_ok _ _ _ _ _ _ HS1 Ey) as [HS2 [Eh2 [Ec2 _]]].
  destruct (Blocks.indent_width (line_of line) off) as [w pos].
  match type of H with context [st_c s2 ?c] => set (c3 := c) in * end.
  assert (c_tmp_para c3 = c_tmp_para (s_c s2) /\ c_fence c3 = c_fence (s_c s2) /\ c_refs c3 = c_refs (s_c s2) /\
          c_arr c3 = c_arr (s_c s2) /\ c_len c3 = c_len (s_c s2)) as [C1 [C2 [C3 [C4 C5]]]].
  { unfold c3. destruct (zlen (line_of line) <=? w); cbn [cset_off c_tmp_para c_fence c_refs c_arr c_len]; auto. }
  assert (TPre (stx_s x (st_c s2 c3)) D N parent) as HP3.
  { eapply TPre_same; [exact HP|apply (CC SInv_ctx); auto|cbn [st_c s_c]; congruence|cbn [st_c s_c]; congruence]. }
  assert (Trk (bx_s (stx_s x (st_c s2 c3))) D N res cont) as HT3.
  { eapply Trk_same; [exact HT|cbn [stx_s bx_s st_c s_h]; congruence|cbn [stx_s bx_s st_c s_c]; congruence]. }
  match type of H with (if ?b then _ else _) = _ => destruct b end.
  - injection H as <- <- <-. exists D, N. destruct HP3 as [[HO3 Ht3] _]. csplit; auto.
    + split; [apply (CE OInv_FW); exact HO3|exact Ht3].
    + intros _. split; assumption.
  - bind_inv H t Et. pose proof (try_parsersX_ok _ _ _ _ _ _ _ _ _ _ HP3 HT3 Et) as Ht. destruct t as [p' c' r' st'|r' st'].
    + destruct Ht as [D' [N' [HP' HT']]]. eapply IH; eassumption.
    + injection H as <- <- <-. exact Ht.
Qed.

End Track.

Lemma shape_le_length h h' : shape_le h h' -> (length h <= length h')%nat.
Proof.
  intros H. destruct (Nat.le_gt_cases (length h) (length h')) as [Hle|Hgt]; [exact Hle|exfalso].
  destruct (nth_error h (length h')) as [n|] eqn:E.
  - destruct (H _ _ E) as [n' [E' _]]. apply nth_some_lt in E'. lia.
  - apply nth_error_None in E. lia.
Qed.

(* ---------- openBlocks ---------- *)
Lemma open_blocksX_ok fuel parent blank x A D res x' : XInv FF x A D [] -> topC A -> parent = lastid (ids A) ->
  open_blocksX fuel parent blank x = Ok (res, x') ->
  exists D' N', XInv WW x' A D' N' /\
    (D' = D \/ (D' = [] /\ exists y, D = [(y, PParagraph)] /\ ~ In y (ids N') /\ (N' = [] -> c_arr (s_c (bx_s x')) = c_arr (s_c (bx_s x))))) /\
    (res = paragraphContinuation -> D' = D /\ N' = [] /\ shape_le (s_h (bx_s x)) (s_h (bx_s x'))) /\
    (res <> newBlocksOpened -> N' = []) /\ (length (s_h (bx_s x)) <= length (s_h (bx_s x')))%nat.
Proof.
  intros HX0 Htop Hpar H. pose proof HX0 as [HO0 Htabs0]. unfold BlockParseX.open_blocksX in H. bind_inv H cont0 Ec0. bind_inv H y Ex. destruct y as [[res1 cont1] x1].
  assert (TPre A x D [] parent) as HP.
  { split; [exact HX0|]. rewrite app_nil_r. auto. }
  assert (Trk (bx_s x) D cont0 (bx_s x) D [] noBlocksOpened cont0) as HT.
  { constructor; auto. - intros Hc. split; [exact Hc|]. intros _. split; [reflexivity|apply shape_le_refl]. - intros y []. }
  destruct (open_blocks_loopX_ok (bx_s x) A D cont0 blank _ _ _ _ _ _ _ _ _ _ HP HT Ex) as [D' [N' [HW1 [HT1 HF1]]]].
  assert (D' = D \/ (D' = [] /\ exists y, D = [(y, PParagraph)] /\ ~ In y (ids N') /\ (N' = [] -> c_arr (s_c (bx_s x1)) = c_arr (s_c (bx_s x))))) as HD.
  { destruct (tk_D _ _ _ _ _ _ _ _ HT1) as [E|[E [y Ex']]]; [left; exact E|right]. split; [exact E|]. exists y. csplit; auto.
    - intros Hi. apply (tk_new _ _ _ _ _ _ _ _ HT1) in Hi.
      assert (In (y, PParagraph) (A ++ D ++ [])) as Hin by (rewrite Ex'; apply in_or_app; right; left; reflexivity).
      destruct (CE SInv_entry _ _ _ _ _ _ _ (proj1 HO0) Hin) as [_ [_ [_ Hlt]]]. lia.
    - exact (tk_arr _ _ _ _ _ _ _ _ HT1). }
  pose proof (tk_len _ _ _ _ _ _ _ _ HT1) as Hlen1.
  destruct ((res1 =? noBlocksOpened) && cont1)%bool eqn:Ecnd.
  - apply andb_true_iff in Ecnd. destruct Ecnd as [Er1 ->]. apply Z.eqb_eq in Er1. subst res1.
    destruct (tk_res _ _ _ _ _ _ _ _ HT1) as [[_ ->]|[Hr _]]; [|discriminate].
    destruct (tk_cont _ _ _ _ _ _ _ _ HT1 eq_refl) as [-> Hc]. destruct (Hc eq_refl) as [-> Hsh1].
    pose proof (HF1 eq_refl) as [[HS1 [HO1 Hu1]] Htabs1].
    destruct (last_opened (s_c (bx_s x1))) as [[l lp]|] eqn:Elo; [|discriminate].
    bind_inv H yo Ey. destruct yo as [[s2 c2] k2]. injection H as <- <-.
    pose proof (CC last_opened_spec _ _ HO1) as Hs. rewrite Elo in Hs. destruct Hs as [E' HE].
    destruct HO0 as [HS0 [HO0 Hu0]]. rewrite HE in HO0. rewrite (CE Oeq_last _ _ _ HO0) in Ec0.
    unfold is_paragraph in Ec0. bind_inv Ec0 nl Enl. apply hget_ok in Enl. injection Ec0 as Ek. apply (CC bkind_eqb_eq) in Ek.
    assert (In (l, lp) (A ++ D ++ [])) as Hin by (rewrite HE; apply in_or_app; right; left; reflexivity).
    destruct (CE SInv_entry _ _ _ _ _ _ _ HS0 Hin) as [n0 [En0 [K0 _]]]. assert (n0 = nl) by congruence. subst n0.
    assert (lp = PParagraph) as -> by (apply (CE pkind_para); congruence).
    cbn [p_continue] in Ey. bind_inv Ey yp Ez. destruct yp as [s2' c2']. cbn [fst snd] in Ey. injection Ey as <- <- <-.
    destruct (CC paragraph_continue_ok _ _ _ _ _ _ _ HS1 Hin Ez) as [Ea [El [Hcf Hct]]].
    pose proof (paragraph_continue_shape _ _ _ _ Ez) as Hsh2.
    exists D, []. cbn [stx_s bx_s bx_tabs]. csplit.
    + split; [|exact Htabs1]. cbn [stx_s bx_s]. split; [destruct c2'; [apply Hct; reflexivity|apply (CC SInv_FW); apply Hcf; reflexivity]|].
      split; [eapply (CE Oeq_same); eassumption|exact Hu1].
    + left. reflexivity.
    + intros _. csplit; auto. eapply shape_le_trans; eassumption.
    + intros _. reflexivity.
    + apply shape_le_length in Hsh2. lia.
  - injection H as <- <-. exists D', N'. csplit; auto.
    + intros E. destruct (tk_res _ _ _ _ _ _ _ _ HT1) as [[Hr _]|[Hr _]]; rewrite Hr in E; discriminate.
    + intros Hne. destruct (tk_res _ _ _ _ _ _ _ _ HT1) as [[_ Hr]|[Hr _]]; [exact Hr|congruence].
Qed.

End N.
