(* Helper file for TypoDefWfTotBlk.v (totality of the block phase with extension.DefinitionList on):
   the loop over the opened blocks for one line (each_openedD), part A: chains of opened blocks
   (ChainD) under frames and glued to the blocks openBlocks has opened, the line invariant LineInvD
   under the steps that keep the structure of the heap, the shape of the range closeBlocks closes,
   and the line invariant after openBlocks + closeBlocks (eoD_finish).
   Port of the first half of ParseBlocksTotalEach.v (whose pure list lemmas are imported). *)
Require Import GM.model.Base GM.model.Util GM.model.Reader GM.model.ReaderSpec GM.model.Blocks GM.model.ListItem
               GM.model.LeafBlocks GM.model.CodeBlock GM.model.LinkDest GM.model.Regex GM.model.BlockParse
               GM.model.TypoDefParseD.
Require Import GM.proofs.ReaderProofs GM.proofs.BlocksProofs
               GM.proofs.ParseBlocksTotalReader GM.proofs.ParseBlocksTotalDefs GM.proofs.ParseBlocksTotalSpec
               GM.proofs.ParseBlocksTotalSt GM.proofs.ParseBlocksTotalShape
               GM.proofs.ParseBlocksTotalLeaf2 GM.proofs.ParseBlocksTotalCont GM.proofs.ParseBlocksTotalPair
               GM.proofs.ParseBlocksTotalClose GM.proofs.ParseBlocksTotalOpen GM.proofs.ParseBlocksTotalEach
               GM.proofs.TypoDefWfTotBlkDefs GM.proofs.TypoDefWfTotBlkSpec GM.proofs.TypoDefWfTotBlkTc
               GM.proofs.TypoDefWfTotBlkDl GM.proofs.TypoDefWfTotBlkClose GM.proofs.TypoDefWfTotBlkOpenI.
From Coq Require Import ZArith Lia List Bool.
Import ListNotations.
Open Scope Z_scope.

(* ---------- kinds ---------- *)
Lemma eoD_kop_para p : kind_of_parser p = BParagraph -> p = PParagraph.
Proof. destruct p; cbn; intros H; try discriminate; reflexivity. Qed.
Lemma eoD_kop_html p : kind_of_parser p = BHTML -> p = PHTML.
Proof. destruct p; cbn; intros H; try discriminate; reflexivity. Qed.
Lemma eoD_kop_list p : kind_of_parser p = BList -> p = PList.
Proof. destruct p; cbn; intros H; try discriminate; reflexivity. Qed.

Lemma eoD_dl_dd_excl h i : dlk h i -> ddk h i -> False.
Proof.
  intros (n & E & D) (n' & E' & D'). rewrite E in E'. injection E' as <-. rewrite (is_dl_not_dd n D) in D'. discriminate.
Qed.
Lemma eoD_dlk_lt h i : dlk h i -> (i < length h)%nat.
Proof. intros (n & E & _). eapply nth_error_lt, E. Qed.
Lemma eoD_dlk_kind h i n : dlk h i -> nth_error h i = Some n -> bk n = BHTML.
Proof. intros D E. apply is_dl_kind. eapply dlk_node; eassumption. Qed.
Lemma eoD_not_dlk h i n : nth_error h i = Some n -> is_dl n = false -> ~ dlk h i.
Proof. intros E D H. rewrite (dlk_node h i n E H) in D. discriminate. Qed.

Lemma eoD_nlp_ready s node p : nlp p -> ReadyLeaf s node p.
Proof. intros [A B]. split; intros E; contradiction. Qed.

(* ---------- chains ---------- *)
Lemma eoD_chain_nil h parent : ChainD h parent [].
Proof. constructor; intros k; intros; destruct k; discriminate. Qed.

Lemma eoD_chain_frame h h' parent l : ChainD h parent l -> kkeep h h' ->
  (forall n p nn, In (n, p) l -> nth_error h n = Some nn -> exists nn', nth_error h' n = Some nn' /\ bpar nn' = bpar nn) ->
  (forall L Ln, In (L, PList) l -> nth_error h L = Some Ln -> exists Ln', nth_error h' L = Some Ln' /\ bch Ln' = bch Ln) ->
  ChainD h' parent l.
Proof.
  intros HC HK Hp Hc. constructor.
  - intros k n p Hk. destruct (chd_par _ _ _ HC k n p Hk) as [nn [Hn Hpar]].
    destruct (Hp n p nn (nth_error_In _ _ Hk) Hn) as [nn' [Hn' Hpar']]. exists nn'. split; [exact Hn'|congruence].
  - intros k e Hk Hl. eapply contD_keep; [exact HK|]. exact (chd_cont _ _ _ HC k e Hk Hl).
  - intros k L Hk. destruct (chd_list _ _ _ HC k L Hk) as [it [Ln (A & B & C)]].
    destruct (Hc L Ln (nth_error_In _ _ Hk) B) as [Ln' [B' C']]. exists it, Ln'. csplit; auto. congruence.
  - intros k L p Hk HD. destruct (chd_par _ _ _ HC k L p Hk) as [nn [Hn _]].
    pose proof (dlk_back h h' L HK (nth_error_lt _ _ _ Hn) HD) as HD0.
    destruct (chd_dl _ _ _ HC k L p Hk HD0) as [D [A B]]. exists D. split; [exact A|]. eapply ddk_keep; eassumption.
Qed.

Lemma eoD_chain_glue h0 h j cap new :
  ChainD h0 0%nat cap -> kkeep h0 h -> (j <= length cap)%nat ->
  (forall k e, (k < j)%nat -> nth_error cap k = Some e -> contD h0 e) ->
  (forall k n p nn, (k < j)%nat -> nth_error cap k = Some (n, p) -> nth_error h0 n = Some nn ->
     exists nn', nth_error h n = Some nn' /\ bpar nn' = bpar nn) ->
  (forall k L Ln, (S k < j)%nat -> nth_error cap k = Some (L, PList) -> nth_error h0 L = Some Ln ->
     exists Ln', nth_error h L = Some Ln' /\ bch Ln' = bch Ln) ->
  (forall k L, j = S k -> nth_error cap k = Some (L, PList) ->
     exists it Ln, nth_error new 0%nat = Some (it, PListItem) /\ nth_error h L = Some Ln /\ last_id (bch Ln) = Some it) ->
  (forall k L p, j = S k -> nth_error cap k = Some (L, p) -> ~ dlk h0 L) ->
  ChainD h (par_at 0%nat cap j) new ->
  ChainD h 0%nat (firstn j cap ++ new).
Proof.
  intros HC HK Hj Hcont Hpar Hch Hlist Hnodl HN. constructor.
  - intros k n p Hk. destruct (Nat.lt_ge_cases k j) as [Hlt|Hge].
    + rewrite eo_nth_lo in Hk by lia. destruct (chd_par _ _ _ HC k n p Hk) as [nn [Hn Hp]].
      destruct (Hpar k n p nn Hlt Hk Hn) as [nn' [Hn' Hp']]. exists nn'. split; [exact Hn'|].
      rewrite Hp', Hp. f_equal. symmetry. apply eo_par_at_lo; lia.
    + rewrite eo_nth_hi in Hk by lia. destruct (chd_par _ _ _ HN _ n p Hk) as [nn [Hn Hp]]. exists nn.
      split; [exact Hn|]. rewrite Hp. f_equal. symmetry. apply eo_par_at_hi; lia.
  - intros k e Hk Hlen. rewrite eo_len_glue in Hlen by lia. destruct (Nat.lt_ge_cases k j) as [Hlt|Hge].
    + rewrite eo_nth_lo in Hk by lia. eapply contD_keep; [exact HK|]. eapply Hcont; eauto.
    + rewrite eo_nth_hi in Hk by lia. eapply (chd_cont _ _ _ HN); [exact Hk|lia].
  - intros k L Hk. destruct (Nat.lt_ge_cases k j) as [Hlt|Hge].
    + rewrite eo_nth_lo in Hk by lia. destruct (Nat.eq_dec j (S k)) as [Ej|Ej].
      * destruct (Hlist k L Ej Hk) as [it [Ln (A & B & C)]]. exists it, Ln. split; [|auto].
        rewrite eo_nth_hi by lia. replace (S k - j)%nat with O by lia. exact A.
      * destruct (chd_list _ _ _ HC k L Hk) as [it [Ln (A & B & C)]].
        destruct (Hch k L Ln ltac:(lia) Hk B) as [Ln' [B' C']]. exists it, Ln'. rewrite eo_nth_lo by lia.
        split; [exact A|]. split; [exact B'|congruence].
    + rewrite eo_nth_hi in Hk by lia. destruct (chd_list _ _ _ HN _ L Hk) as [it [Ln (A & B & C)]]. exists it, Ln.
      rewrite eo_nth_hi by lia. replace (S k - j)%nat with (S (k - j)) by lia. auto.
  - intros k L p Hk HD. destruct (Nat.lt_ge_cases k j) as [Hlt|Hge].
    + rewrite eo_nth_lo in Hk by lia. destruct (chd_par _ _ _ HC k L p Hk) as [nn [Hn _]].
      pose proof (dlk_back h0 h L HK (nth_error_lt _ _ _ Hn) HD) as HD0.
      destruct (Nat.eq_dec j (S k)) as [Ej|Ej]; [exfalso; exact (Hnodl k L p Ej Hk HD0)|].
      destruct (chd_dl _ _ _ HC k L p Hk HD0) as [D [A B]]. exists D. rewrite eo_nth_lo by lia.
      split; [exact A|]. eapply ddk_keep; eassumption.
    + rewrite eo_nth_hi in Hk by lia. destruct (chd_dl _ _ _ HN _ L p Hk HD) as [D [A B]]. exists D.
      rewrite eo_nth_hi by lia. replace (S k - j)%nat with (S (k - j)) by lia. auto.
Qed.

Section S.
Variable space_table : list N.
Variable src : bytes.
Notation SI := (SI space_table src).
Notation SD := (SD space_table src).
Notation LineInvD := (LineInvD space_table src).
Notation LineMidD := (LineMidD space_table src).
Notation HInv := (HInv space_table src).
Notation eo_ops_len := (eo_ops_len space_table src).
Notation eo_ops_node := (eo_ops_node space_table src).
Notation eo_last := (eo_last space_table src).

(* ---------- basic access to the opened blocks ---------- *)
(* the node of an entry that is a container (contD) is no paragraph *)
Lemma eoD_cont_kind s k n p nn : SI s -> nth_error (ops s) k = Some (n, p) -> nth_error (s_h s) n = Some nn ->
  contD (s_h s) (n, p) -> bk nn <> BParagraph.
Proof.
  intros HS Hk Hn HD K. destruct (eo_ops_node s k n p HS Hk) as [nn' [Hn' Kn]]. rewrite Hn in Hn'. injection Hn' as <-.
  rewrite Kn in K. apply eoD_kop_para in K. exact (contD_not_para _ _ HD K).
Qed.

(* a block below a List node is a list item *)
Lemma eoD_parent_list s k n p pn : LineInvD s -> nth_error (ops s) k = Some (n, p) ->
  nth_error (s_h s) (par_at 0%nat (ops s) k) = Some pn -> bk pn = BList -> p = PListItem.
Proof.
  intros HL Hk Hpn Kp. pose proof (lid_si _ _ _ HL) as HS.
  destruct (chd_par _ _ _ (lid_chain _ _ _ HL) k n p Hk) as [nn [Hn Hp]].
  destruct (eo_ops_node s k n p HS Hk) as [nn' [Hn' Kn]]. rewrite Hn in Hn'. injection Hn' as <-.
  pose proof (hi_listp _ _ _ (si_h _ _ _ HS) n nn _ pn Hn Hp Hpn Kp) as K. rewrite Kn in K.
  destruct p; cbn in K; congruence.
Qed.

(* a list item follows its list *)
Lemma eoD_item_prev s k it : LineInvD s -> nth_error (ops s) (S k) = Some (it, PListItem) ->
  exists L, nth_error (ops s) k = Some (L, PList).
Proof.
  intros HL Hk. pose proof (lid_si _ _ _ HL) as HS.
  destruct (chd_par _ _ _ (lid_chain _ _ _ HL) (S k) it PListItem Hk) as [nn [Hn Hp]]. cbn [par_at] in Hp.
  destruct (eo_ops_node s (S k) it PListItem HS Hk) as [nn' [Hn' Kn]]. rewrite Hn in Hn'. injection Hn' as <-.
  cbn [kind_of_parser] in Kn.
  destruct (nth_error (ops s) k) as [[L q]|] eqn:Ek.
  2:{ apply nth_error_None in Ek. apply nth_error_lt in Hk. lia. }
  rewrite (nth_error_nth _ _ _ Ek) in Hp. cbn [fst] in Hp.
  destruct (eo_ops_node s k L q HS Ek) as [Ln [HLn KL]].
  pose proof (hi_item _ _ _ (si_h _ _ _ HS) it nn L Ln Hn Kn Hp HLn) as K. rewrite KL in K.
  destruct q; cbn in K; try discriminate. exists L. reflexivity.
Qed.

(* the parent of position j lies before every block at position >= j *)
Lemma eoD_par_lt s j m e : LineInvD s -> (j <= m)%nat -> nth_error (ops s) m = Some e ->
  (par_at 0%nat (ops s) j < fst e)%nat.
Proof.
  intros HL Hjm Hm. pose proof (si_h _ _ _ (lid_si _ _ _ HL)) as HH. destruct j as [|j]; cbn [par_at].
  - exact (chainD_parent_lt space_table src _ _ _ HH (lid_chain _ _ _ HL) m e Hm).
  - destruct (nth_error_ex_lt (ops s) j) as [a Ha]; [apply nth_error_lt in Hm; lia|].
    rewrite (nth_error_nth _ _ _ Ha).
    exact (chainD_sorted space_table src _ _ _ HH (lid_chain _ _ _ HL) j m a e ltac:(lia) Ha Hm).
Qed.

(* the parent of position j is a node of the heap *)
Lemma eoD_par_node s j : LineInvD s -> (j <= length (ops s))%nat ->
  exists pn, nth_error (s_h s) (par_at 0%nat (ops s) j) = Some pn /\
    (j = O -> bk pn = BDocument) /\
    (forall k n p, j = S k -> nth_error (ops s) k = Some (n, p) -> bk pn = kind_of_parser p).
Proof.
  intros HL Hj. destruct j as [|k].
  - destruct (lid_root _ _ _ HL) as [n0 [H0 K0]]. exists n0. split; [exact H0|]. split; [auto|]. intros k n p C. discriminate.
  - destruct (nth_error_ex_lt (ops s) k ltac:(lia)) as [[n p] Hk].
    destruct (eo_ops_node s k n p (lid_si _ _ _ HL) Hk) as [nn [Hn Kn]]. exists nn.
    rewrite (eo_par_at_S _ _ _ _ Hk). split; [exact Hn|]. split; [discriminate|]. intros k' n' p' E Hk'. injection E as <-.
    rewrite Hk in Hk'. injection Hk' as <- <-. exact Kn.
Qed.

Lemma eoD_attached s : LineInvD s -> forall e n, In e (ops s) -> nth_error (s_h s) (fst e) = Some n -> bpar n <> None.
Proof.
  intros HL [x p] n He Hn. apply In_nth_error in He. destruct He as [k Hk].
  destruct (chd_par _ _ _ (lid_chain _ _ _ HL) k x p Hk) as [nn [Hn' Hp]]. cbn [fst] in Hn. rewrite Hn in Hn'.
  injection Hn' as <-. congruence.
Qed.

(* a DefinitionList is never the last opened block *)
Lemma eoD_dl_not_last s k n p : LineInvD s -> nth_error (ops s) k = Some (n, p) -> dlk (s_h s) n ->
  (S k < length (ops s))%nat.
Proof.
  intros HL Hk HD. destruct (chd_dl _ _ _ (lid_chain _ _ _ HL) k n p Hk HD) as [D [A _]]. eapply nth_error_lt, A.
Qed.

(* the parent of an entry that is no DefinitionDescription is no DefinitionList *)
Lemma eoD_par_not_dl s k n p : LineInvD s -> nth_error (ops s) k = Some (n, p) -> ~ ddk (s_h s) n ->
  ~ dlk (s_h s) (par_at 0%nat (ops s) k).
Proof.
  intros HL Hk Hnd HD. destruct k as [|k]; cbn [par_at] in HD.
  - destruct (lid_root _ _ _ HL) as [n0 [H0 K0]]. pose proof (eoD_dlk_kind _ _ _ HD H0). congruence.
  - destruct (nth_error_ex_lt (ops s) k) as [[a pa] Ha]; [apply nth_error_lt in Hk; lia|].
    rewrite (nth_error_nth _ _ _ Ha) in HD. cbn [fst] in HD.
    destruct (chd_dl _ _ _ (lid_chain _ _ _ HL) k a pa Ha HD) as [D [A B]]. rewrite Hk in A. injection A as <- _.
    exact (Hnd B).
Qed.

(* ---------- the line invariant under steps that keep the structure ---------- *)
Lemma eoD_chain_pc h h' parent l : ChainD h parent l -> kkeep h h' -> hsame_pc h h' -> ChainD h' parent l.
Proof.
  intros HC HK [L H]. eapply eoD_chain_frame; [exact HC|exact HK| |].
  - intros n p nn _ Hn. destruct (H n nn Hn) as [n' (A & B & C & D)]. exists n'. auto.
  - intros x Ln _ Hn. destruct (H x Ln Hn) as [n' (A & B & C & D)]. exists n'. auto.
Qed.

Lemma eoD_inv_pc s s' : LineInvD s -> SI s' -> TC (s_h s') -> kkeep (s_h s) (s_h s') ->
  hsame_pc (s_h s) (s_h s') -> ops s' = ops s ->
  c_fence (s_c s') = c_fence (s_c s) -> c_tmp_para (s_c s') = c_tmp_para (s_c s) ->
  (forall n nn nn', last_opened (s_c s) = Some (n, PSetext) -> nth_error (s_h s) n = Some nn ->
                    nth_error (s_h s') n = Some nn' -> blines nn' = blines nn) ->
  LineInvD s'.
Proof.
  intros HL S' T' HK Hpc Ho Hf Ht Hl. pose proof (lid_si _ _ _ HL) as HS. constructor.
  - exact S'.
  - exact T'.
  - rewrite Ho. eapply eoD_chain_pc; [apply HL|exact HK|exact Hpc].
  - intros n p nn' Hlo Hn'. rewrite (eo_last s' S'), Ho, <- (eo_last s HS) in Hlo.
    destruct (eo_pc_back (fun x => x) src _ _ _ _ Hpc Hn') as [nn (Hn & _)].
    destruct (lid_last _ _ _ HL n p nn Hlo Hn) as [A B]. split.
    + intros E. rewrite Hf. exact (A E).
    + intros E. destruct (B E) as [B1 B2]. rewrite Ht. split; [exact B1|]. subst p.
      rewrite (Hl n nn nn' Hlo Hn Hn'). exact B2.
  - destruct (lid_root _ _ _ HL) as [n0 [H0 K0]]. destruct Hpc as [_ Hpc].
    destruct (Hpc _ _ H0) as [n0' (A & B & _)]. exists n0'. split; [exact A|congruence].
Qed.

Lemma eoD_mid_struct cap s s' : LineMidD cap s -> SI s' -> TC (s_h s') -> kkeep (s_h s) (s_h s') ->
  hsame_struct (s_h s) (s_h s') -> cframe (s_c s) (s_c s') ->
  c_fence (s_c s') = c_fence (s_c s) -> c_tmp_para (s_c s') = c_tmp_para (s_c s) -> r_le (s_r s) (s_r s') ->
  LineMidD cap s'.
Proof.
  intros (HL & Ho & HB) S' T' HK Hs Hc Hf Ht Hle. destruct (eo_ops_cframe s s' Hc) as [Eo El].
  split; [|split].
  - apply (eoD_inv_pc s s' HL S' T' HK (eo_struct_pc _ _ Hs) Eo Hf Ht).
    intros n nn nn' _ Hn Hn'. destruct Hs as [_ Hs]. destruct (Hs n nn Hn) as [n2 (A & _ & _ & _ & E)].
    rewrite Hn' in A. injection A as <-. exact E.
  - congruence.
  - eapply (eo_below_struct (fun x => x) src); eassumption.
Qed.

(* heap and context unchanged, the reader moves forward *)
Lemma eoD_mid_same cap s s' : LineMidD cap s -> SI s' -> s_h s' = s_h s -> s_c s' = s_c s -> r_le (s_r s) (s_r s') ->
  LineMidD cap s'.
Proof.
  intros HM S' Eh Ec Hle. pose proof HM as (HL & _). apply (eoD_mid_struct cap s s' HM S').
  - rewrite Eh. apply HL.
  - rewrite Eh. apply kkeep_refl.
  - rewrite Eh. apply hsame_struct_refl.
  - rewrite Ec. unfold cframe. auto.
  - rewrite Ec. reflexivity.
  - rewrite Ec. reflexivity.
  - exact Hle.
Qed.

Lemma eoD_mid_scache cap s s1 : LineMidD cap s -> SI s1 -> scache s s1 -> LineMidD cap s1.
Proof. intros HM S1 (Eh & Ec & Ep). apply (eoD_mid_same cap s s1 HM S1 Eh Ec). apply same_pos_le, Ep. Qed.

Lemma eoD_mid_cont cap bp node s s' cont kids : LineMidD cap s -> cont_post space_table src bp node s s' cont kids ->
  TC (s_h s') -> kkeep (s_h s) (s_h s') ->
  (is_container bp = true \/ cont = false) -> LineMidD cap s' /\ same_line (s_r s) (s_r s').
Proof.
  intros HM (P1 & P2 & P3 & P4 & P5 & P6 & P7 & P8 & P9) T' HK Hor.
  assert (Hs : hsame_struct (s_h s) (s_h s') /\ same_line (s_r s) (s_r s')).
  { destruct (is_container bp) eqn:Ec.
    - destruct (P7 eq_refl) as [A B]. rewrite A. split; [apply hsame_struct_refl|exact B].
    - destruct Hor as [C|C]; [discriminate|]. exact (P8 eq_refl C). }
  destruct Hs as [Hs Hl]. split; [|exact Hl]. eapply eoD_mid_struct; eassumption.
Qed.

(* ---------- what closeBlocks needs from the closed range ---------- *)
Lemma eoD_all_nlp_ready s (l : list (nat * bparser)) : Forall (fun x => nlp (snd x)) l ->
  match l with [] => True | e :: t => ReadyLeaf s (fst e) (snd e) /\ Forall (fun x => nlp (snd x)) t end.
Proof.
  intros H. destruct l as [|e t]; [exact I|]. inversion H as [|x y Hx Hy]; subst.
  split; [apply eoD_nlp_ready; exact Hx|exact Hy].
Qed.

(* the range j .. last of the opened blocks, closed from the top: the last block is ready in s1
   (a state reached from s by steps that keep the context's records), the others are containers *)
Lemma eoD_closed_shape cap j s s1 : LineInvD s -> ops s = cap -> (j < length cap)%nat ->
  (c_fence (s_c s) <> None -> c_fence (s_c s1) <> None) ->
  (c_tmp_para (s_c s) <> None -> c_tmp_para (s_c s1) <> None) ->
  (forall n nn nn1, last_opened (s_c s) = Some (n, PSetext) -> nth_error (s_h s) n = Some nn ->
                    nth_error (s_h s1) n = Some nn1 -> blines nn1 = blines nn) ->
  match rev (skipn j cap) with
  | [] => True
  | e :: t => ReadyLeaf s1 (fst e) (snd e) /\ Forall (fun x => nlp (snd x)) t
  end.
Proof.
  intros HL Ho Hj Hf Ht Hl. destruct (rev (skipn j cap)) as [|e t] eqn:E; [exact I|].
  assert (Es : skipn j cap = rev t ++ [e]).
  { rewrite <- (rev_involutive (skipn j cap)), E. reflexivity. }
  assert (Ec : cap = (firstn j cap ++ rev t) ++ [e]).
  { rewrite <- app_assoc, <- Es. symmetry. apply firstn_skipn. }
  pose proof (lid_si _ _ _ HL) as HS. pose proof (ci_len _ _ (si_c _ _ _ HS)) as Hlen.
  assert (Hlast : last_opened (s_c s) = Some e).
  { apply (last_opened_app _ (firstn j cap ++ rev t)); [exact Hlen|]. fold (ops s). rewrite Ho. exact Ec. }
  split.
  - destruct e as [n p]. cbn [fst snd].
    pose proof (last_opened_in _ _ Hlen Hlast) as Hin.
    destruct (ci_arr _ _ (si_c _ _ _ HS) _ Hin) as [nn [Hn Kn]]. cbn [fst snd] in Hn, Kn.
    destruct (lid_last _ _ _ HL n p nn Hlast Hn) as [A B]. split.
    + intros Ep. apply Hf, A, Ep.
    + intros Ep. destruct (B Ep) as [B1 B2]. split; [apply Ht, B1|]. subst p. intros n1 Hn1 _.
      rewrite (Hl n nn n1 Hlast Hn Hn1). exact B2.
  - apply Forall_forall. intros x Hx. apply in_rev in Hx. apply In_nth_error in Hx. destruct Hx as [k Hk].
    assert (Hkl : (k < length (rev t))%nat) by (eapply nth_error_lt, Hk).
    assert (Hc : nth_error cap (j + k) = Some x).
    { rewrite <- nth_error_skipn_add, Es, nth_error_app1 by exact Hkl. exact Hk. }
    pose proof (lid_chain _ _ _ HL) as HC. rewrite Ho in HC. apply (contD_nlp (s_h s)).
    apply (chd_cont _ _ _ HC (j + k)%nat x Hc).
    rewrite Ec at 1. rewrite !app_length, firstn_length. cbn [length]. lia.
Qed.

(* ---------- the line invariant after openBlocks and closeBlocks ----------
   t: the state before openBlocks (opened blocks cap); t1: after openBlocks below position j
   (blocks `new` opened; old nodes changed within OFrameD); u: after closing `closed`, a part of
   cap[j..], with opened blocks cap[0..j) ++ new.  A new entry is a new node or an old
   DefinitionList; the parent of position j is no DefinitionList. *)
Lemma eoD_finish cap j t t1 u new closed :
  LineInvD t -> ops t = cap -> (j <= length cap)%nat ->
  (forall k e, (k < j)%nat -> nth_error cap k = Some e -> contD (s_h t) e) ->
  (forall k L p, j = S k -> nth_error cap k = Some (L, p) -> ~ dlk (s_h t) L) ->
  SI t1 -> kkeep (s_h t) (s_h t1) ->
  OFrameD (s_h t) (s_h t1) (par_at 0%nat cap j) ->
  ChainD (s_h t1) (par_at 0%nat cap j) new ->
  (forall e, In e new -> ((length (s_h t) <= fst e)%nat \/ (snd e = PHTML /\ dlk (s_h t) (fst e))) /\
                         In e (c_arr (s_c t1))) ->
  (forall k L, j = S k -> nth_error cap k = Some (L, PList) ->
     exists it pn', nth_error new 0%nat = Some (it, PListItem) /\ nth_error (s_h t1) L = Some pn' /\
                    last_id (bch pn') = Some it) ->
  (forall t0, c_tmp_para (s_c t1) = Some t0 -> (t0 < length (s_h t))%nat) ->
  (forall n p nn, nth_error new (pred (length new)) = Some (n, p) -> nth_error (s_h t1) n = Some nn ->
     (p = PFenced -> exists ch ind fl, c_fence (s_c t1) = Some (ch, ind, fl, n)) /\
     (p = PSetext -> c_tmp_para (s_c t1) <> None /\ blines nn <> [] /\
                     exists x, last_opened (s_c t) = Some (x, PParagraph))) ->
  SD u -> kkeep (s_h t1) (s_h u) -> ops u = firstn j cap ++ new ->
  (forall e, In e closed -> In e (skipn j cap)) ->
  (forall ch ind fl nd, c_fence (s_c t1) = Some (ch, ind, fl, nd) -> ~ In (nd, PFenced) closed ->
                        c_fence (s_c u) = c_fence (s_c t1)) ->
  ((forall H, ~ In (H, PSetext) closed) -> c_tmp_para (s_c u) = c_tmp_para (s_c t1)) ->
  CFrame (DaccD (s_h t1) (s_c t1) closed) (fun x => In x (map fst closed)) (s_h t1) (s_h u) ->
  LineInvD u.
Proof.
  intros HL Ho Hj Hcont Hnodl S1 KK1 [OL OF] HN Hnew Hlist Htmp Hlastnew [SU TU] KK2 Hou Hclosed Hfence Htmpu [CL CF].
  pose proof (lid_si _ _ _ HL) as HS. pose proof (si_h _ _ _ HS) as HH.
  pose proof (lid_chain _ _ _ HL) as HC. rewrite Ho in HC.
  (* closed entries are old entries at positions >= j *)
  assert (F1 : forall e, In e closed -> exists m, (j <= m)%nat /\ nth_error cap m = Some e).
  { intros e He. apply (eo_skipn_nth (fun x => x) src), Hclosed, He. }
  assert (F2 : forall m n p, nth_error cap m = Some (n, p) ->
            exists nn, nth_error (s_h t) n = Some nn /\ bk nn = kind_of_parser p /\ (n < length (s_h t))%nat).
  { intros m n p Hm. rewrite <- Ho in Hm. destruct (eo_ops_node t m n p HS Hm) as [nn [Hn Kn]]. exists nn.
    csplit; auto. eapply nth_error_lt, Hn. }
  assert (Fnotclosed : forall n, (length (s_h t) <= n)%nat -> ~ In n (map fst closed)).
  { intros n Hn Hin. apply in_map_iff in Hin. destruct Hin as [[x p] [Ex Hin]]. cbn [fst] in Ex. subst x.
    destruct (F1 _ Hin) as [m [_ Hm]]. destruct (F2 m n p Hm) as [nn (_ & _ & Hlt)]. lia. }
  (* old container entries below j keep parent and (for lists other than the parent) children *)
  assert (K1 : forall k n p nn, (k < j)%nat -> nth_error cap k = Some (n, p) -> nth_error (s_h t) n = Some nn ->
            exists nn', nth_error (s_h u) n = Some nn' /\ bk nn' = bk nn /\ bpar nn' = bpar nn /\
                        (bk nn = BList -> n <> par_at 0%nat cap j -> bch nn' = bch nn)).
  { intros k n p nn Hk Hc Hn. pose proof (Hcont k _ Hk Hc) as Hcp.
    assert (Knp : bk nn <> BParagraph).
    { apply (eoD_cont_kind t k n p nn HS); [rewrite Ho; exact Hc|exact Hn|exact Hcp]. }
    destruct (OF n nn Hn) as [n1 (A1 & A2 & A3 & A4)]. destruct (A3 Knp) as [_ A3p].
    destruct (CF n n1 A1) as [n2 (B1 & B2 & B3 & B4 & B5)]. exists n2. csplit.
    - exact B1.
    - congruence.
    - destruct B5 as [B5|[B5 _]]; [congruence|]. rewrite A2 in B5. contradiction.
    - intros Kl Hne. rewrite B4 by congruence. apply A4; assumption. }
  assert (Hfresh_nd : forall k n p, nth_error new k = Some (n, p) ->
            exists nn, nth_error (s_h t1) n = Some nn /\ bk nn = kind_of_parser p /\
                       ((length (s_h t) <= n)%nat \/ (p = PHTML /\ dlk (s_h t) n))).
  { intros k n p Hk. destruct (Hnew _ (nth_error_In _ _ Hk)) as [A B].
    destruct (ci_arr _ _ (si_c _ _ _ S1) _ B) as [nn [Hn Kn]]. exists nn. auto. }
  constructor.
  - exact SU.
  - exact TU.
  - rewrite Hou. apply (eoD_chain_glue (s_h t) (s_h u) j cap new HC (kkeep_trans _ _ _ KK1 KK2) Hj Hcont).
    + intros k n p nn Hk Hc Hn. destruct (K1 k n p nn Hk Hc Hn) as [nn' (A & _ & B & _)]. exists nn'. auto.
    + intros k L Ln Hk Hc Hn. destruct (K1 k L PList Ln ltac:(lia) Hc Hn) as [nn' (A & _ & _ & B)]. exists nn'.
      split; [exact A|]. destruct (F2 k L PList Hc) as [x (Hx & Kx & _)]. rewrite Hn in Hx. injection Hx as <-.
      apply B; [exact Kx|]. destruct j as [|j']; [lia|].
      destruct (nth_error_ex_lt cap j' ltac:(lia)) as [[a pa] Ha]. rewrite (eo_par_at_S _ _ _ _ Ha).
      pose proof (chainD_sorted space_table src _ _ _ HH HC k j' (L, PList) (a, pa) ltac:(lia) Hc Ha) as Hlt.
      cbn [fst] in Hlt. lia.
    + intros k L Ej Hc. destruct (Hlist k L Ej Hc) as [it [pn' (A & B & C)]].
      destruct (F2 k L PList Hc) as [Ln (HLn & KLn & _)]. cbn [kind_of_parser] in KLn.
      destruct (OF L Ln HLn) as [n1 (A1 & A2 & _)].
      rewrite B in A1. injection A1 as <-. destruct (CF L pn' B) as [n2 (B1 & B2 & B3 & B4 & B5)].
      exists it, n2. csplit; auto. rewrite B4 by congruence. exact C.
    + exact Hnodl.
    + eapply eoD_chain_frame; [exact HN|exact KK2| |].
      * intros n p nn Hin Hn. destruct (CF n nn Hn) as [n2 (B1 & B2 & B3 & B4 & B5)]. exists n2. split; [exact B1|].
        destruct B5 as [B5|[B5 B6]]; [exact B5|]. exfalso.
        apply In_nth_error in Hin. destruct Hin as [k Hk].
        destruct (Hfresh_nd k n p Hk) as [nn' (Hn' & Kn' & Hfr0)]. rewrite Hn in Hn'. injection Hn' as <-.
        assert (Ep : p = PParagraph) by (apply eoD_kop_para; congruence). subst p.
        assert (Hfr : (length (s_h t) <= n)%nat) by (destruct Hfr0 as [Hfr|[C _]]; [exact Hfr|discriminate]).
        destruct (chd_par _ _ _ HN k n PParagraph Hk) as [nn2 [Hn2 Hp2]]. rewrite Hn in Hn2. injection Hn2 as <-.
        destruct B6 as [[B6|[[B6 _]|B6]]|B6].
        -- exact (Fnotclosed n Hfr B6).
        -- apply Htmp in B6. lia.
        -- destruct B6 as [L [c [ln (D1 & D2 & D3 & D4)]]]. destruct (F1 _ D1) as [m [Hjm Hm]].
           destruct (F2 m L PList Hm) as [Ln (HLn & KLn & _)].
           pose proof (eoD_par_lt t j m (L, PList) HL Hjm ltac:(rewrite Ho; exact Hm)) as Hpl. rewrite Ho in Hpl.
           cbn [fst] in Hpl. destruct (OF L Ln HLn) as [n1 (A1 & A2 & _ & A4)]. rewrite D3 in A1. injection A1 as <-.
           rewrite (A4 KLn ltac:(lia)) in D4.
           pose proof (hi_ch _ _ _ HH L Ln HLn) as Hch. rewrite Forall_forall in Hch. specialize (Hch c D4).
           rewrite Hp2 in D2. injection D2 as <-. destruct k as [|k]; cbn [par_at] in Hch; [lia|].
           destruct (nth_error_ex_lt new k) as [[a pa] Ha]; [apply nth_error_lt in Hk; lia|].
           rewrite (nth_error_nth _ _ _ Ha) in Hch. cbn [fst] in Hch.
           destruct (Hfresh_nd k a pa Ha) as [_ (_ & _ & [Hfa|[_ Hda]])]; [lia|].
           destruct (chd_dl _ _ _ HN k a pa Ha (dlk_keep _ _ _ KK1 Hda)) as [D0 [E0 _]]. rewrite Hk in E0. discriminate.
        -- destruct B6 as [D (D1 & D2 & D3)]. destruct (F1 _ D1) as [m [Hjm Hm]].
           destruct (F2 m D PHTML Hm) as [Dn (HDn & _ & HDlt)].
           pose proof (eoD_par_lt t j m (D, PHTML) HL Hjm ltac:(rewrite Ho; exact Hm)) as Hpl. rewrite Ho in Hpl.
           cbn [fst] in Hpl. rewrite Hp2 in D2. injection D2 as D2. destruct k as [|k]; cbn [par_at] in D2; [lia|].
           destruct (nth_error_ex_lt new k) as [[a pa] Ha]; [apply nth_error_lt in Hk; lia|].
           rewrite (nth_error_nth _ _ _ Ha) in D2. cbn [fst] in D2. subst a.
           destruct (Hfresh_nd k D pa Ha) as [_ (_ & _ & [Hfa|[_ Hda]])]; [lia|].
           exact (eoD_dl_dd_excl _ _ Hda (ddk_back _ _ _ KK1 HDlt D3)).
      * intros L Ln Hin Hn. destruct (Hnew _ Hin) as [_ Hina].
        destruct (ci_arr _ _ (si_c _ _ _ S1) _ Hina) as [x [Hx Kx]]. cbn [fst snd kind_of_parser] in Hx, Kx.
        rewrite Hn in Hx. injection Hx as <-. destruct (CF L Ln Hn) as [n2 (B1 & B2 & B3 & B4 & B5)].
        exists n2. split; [exact B1|]. apply B4, Kx.
  - intros n p nn Hlo Hn. rewrite (eo_last u SU), Hou, eo_len_glue in Hlo by exact Hj.
    destruct new as [|e0 new0] eqn:Enew.
    + cbn [length] in Hlo. rewrite Nat.add_0_r in Hlo. destruct j as [|j']; [cbn in Hlo; discriminate|].
      cbn [pred] in Hlo. rewrite eo_nth_lo in Hlo by lia. pose proof (contD_nlp _ _ (Hcont j' _ ltac:(lia) Hlo)) as [N1 N2].
      cbn [snd] in N1, N2. split; intros E; contradiction.
    + rewrite <- Enew in *. assert (Hlen : (0 < length new)%nat) by (rewrite Enew; cbn; lia).
      rewrite eo_nth_hi in Hlo by lia. replace (pred (j + length new) - j)%nat with (pred (length new)) in Hlo by lia.
      destruct (Hfresh_nd _ n p Hlo) as [nn1 (Hn1 & Kn1 & Hfr0)].
      destruct (Hlastnew n p nn1 Hlo Hn1) as [A C].
      destruct (CF n nn1 Hn1) as [n2 (B1 & B2 & B3 & B4 & B5)]. rewrite Hn in B1. injection B1 as <-.
      assert (Hold : p <> PHTML -> (length (s_h t) <= n)%nat /\ forall q, ~ In (n, q) closed).
      { intros Np. assert (Hfr : (length (s_h t) <= n)%nat) by (destruct Hfr0 as [Hfr|[Cp _]]; [exact Hfr|contradiction]).
        split; [exact Hfr|]. intros q Hq. apply (Fnotclosed n Hfr). apply in_map_iff. exists (n, q). auto. }
      split.
      * intros ->. destruct (Hold ltac:(discriminate)) as [Hfr Hnc].
        destruct (A eq_refl) as (ch & ind & fl & E). rewrite (Hfence ch ind fl n E (Hnc PFenced)), E. discriminate.
      * intros ->. destruct (Hold ltac:(discriminate)) as [Hfr Hnc].
        destruct (C eq_refl) as (C1 & C2 & [x C3]). rewrite (B3 (Fnotclosed n Hfr)). split; [|exact C2].
        rewrite Htmpu; [exact C1|]. intros H Hin. destruct (F1 _ Hin) as [m [Hjm Hm]].
        rewrite (eo_last t HS), Ho in C3. pose proof (nth_error_lt _ _ _ Hm) as Hml.
        destruct (Nat.eq_dec m (pred (length cap))) as [->|Hne]; [congruence|].
        pose proof (contD_nlp _ _ (chd_cont _ _ _ HC m _ Hm ltac:(lia))) as [_ Hcp]. cbn [snd] in Hcp. contradiction.
  - destruct (lid_root _ _ _ HL) as [n0 [H0 K0]]. destruct (OF _ _ H0) as [n1 (A1 & A2 & _)].
    destruct (CF _ _ A1) as [n2 (B1 & B2 & _)]. exists n2. split; [exact B1|congruence].
Qed.

End S.
