(* Helper file for FootnoteWfTotBlkCont.v: the block quote parser under the invariants RI / SI. *)
Require Import GM.model.Base GM.model.Util GM.model.Reader GM.model.ReaderSpec GM.model.Blocks GM.model.ListItem
               GM.model.LeafBlocks GM.model.CodeBlock GM.model.LinkDest GM.model.Regex GM.model.BlockParse.
Require Import GM.proofs.ReaderProofs GM.proofs.BlocksProofs GM.proofs.BlockRangeProofs
               GM.proofs.ParseBlocksTotalReader GM.proofs.FootnoteWfTotBlkPad GM.proofs.FootnoteWfTotBlkPad2 GM.proofs.FootnoteWfTotBlkDefs GM.proofs.FootnoteWfTotBlkSpec
               GM.proofs.FootnoteWfTotBlkSt.
From Coq Require Import ZArith Lia List Bool.
Open Scope Z_scope.

(* the bytes passed by IndentWidth are blanks or tabs *)
Lemma indent_pos_blank bs : forall cur w pos w' pos', indent_width_pos bs cur w pos = (w', pos') ->
  forall k, 0 <= k < pos' - pos -> nth (Z.to_nat k) bs 0%N = 32%N \/ nth (Z.to_nat k) bs 0%N = 9%N.
Proof.
  induction bs as [|c bs IH]; intros cur w pos w' pos' H k Hk; cbn [indent_width_pos] in H.
  - injection H as _ <-. lia.
  - destruct (N.eqb_spec c 32) as [E|E].
    + destruct (Z.eq_dec k 0) as [->|Hk0]; [left; exact E|].
      replace (Z.to_nat k) with (S (Z.to_nat (k - 1))) by lia. cbn [nth]. eapply IH; [exact H|lia].
    + destruct (N.eqb_spec c 9) as [E9|E9].
      * destruct (Z.eq_dec k 0) as [->|Hk0]; [right; exact E9|].
        replace (Z.to_nat k) with (S (Z.to_nat (k - 1))) by lia. cbn [nth]. eapply IH; [exact H|lia].
      * injection H as _ <-. lia.
Qed.

Lemma tab_width_pos o : 0 <= tab_width o - 1.
Proof. unfold tab_width. pose proof (Z.mod_pos_bound o 4 ltac:(lia)). lia. Qed.

Lemma bq_total_ri r : RI r ->
  exists r' ok, bq_process_total r = Ok (r', ok) /\ RI r' /\
    (ok = true -> same_line r r' /\ s_start (r_pos r) + 1 <= s_start (r_pos r')) /\
    (ok = false -> same_pos r r').
Proof.
  intros HI. unfold bq_process_total.
  destruct (ri_peek r HI) as [r1 (E1 & I1 & P1 & _)]. rewrite E1. cbn [bind].
  destruct (r_in_range r) eqn:Hin.
  2:{ exists r1, false. csplit; auto. discriminate. }
  unfold bq_process. rewrite E1. cbn [bind].
  destruct (ri_line_offset r1 I1) as [r2 (E2 & I2 & P2 & _)]. rewrite E2. cbn [bind].
  pose proof (same_pos_trans _ _ _ P1 P2) as P. generalize (r_column r1 (r_head r1)). intros off. clear E1 E2 P1 P2 I1 r1.
  rewrite <- (same_pos_view _ _ P). rewrite <- (same_pos_in_range _ _ P) in Hin.
  assert (Hfin : forall r3 ok, RI r3 ->
            (ok = true -> same_line r2 r3 /\ s_start (r_pos r2) + 1 <= s_start (r_pos r3)) ->
            (ok = false -> same_pos r2 r3) ->
            exists r' ok', Ok (r3, ok) = Ok (r', ok') /\ RI r' /\
              (ok' = true -> same_line r r' /\ s_start (r_pos r) + 1 <= s_start (r_pos r')) /\
              (ok' = false -> same_pos r r')).
  { intros r3 ok I3 Ht Hf. exists r3, ok. csplit; auto.
    - intros Eo. destruct (Ht Eo) as [L1 L2]. split; [eapply same_line_trans; [apply same_pos_line, P|exact L1]|].
      destruct P as (_ & Pp & _). rewrite <- Pp. exact L2.
    - intros Eo. eapply same_pos_trans; [exact P|exact (Hf Eo)]. }
  clear P HI.
  pose proof (ri_bounds r2 I2) as Hb. pose proof I2 as [Hinv2 _]. pose proof (view_zlen r2 Hinv2) as Hvz.
  destruct (indent_width (r_view r2) off) as [w pos] eqn:Eiw. unfold indent_width in Eiw.
  pose proof (indent_pos_bounds _ _ _ _ _ _ Eiw) as Hpb.
  pose proof (indent_pos_blank _ _ _ _ _ _ Eiw) as Hbl.
  assert (Hdecl : exists r' ok', Ok (r2, false) = Ok (r', ok') /\ RI r' /\
              (ok' = true -> same_line r r' /\ s_start (r_pos r) + 1 <= s_start (r_pos r')) /\
              (ok' = false -> same_pos r r')).
  { apply Hfin; [exact I2|discriminate|intros _; apply same_pos_refl]. }
  destruct (3 <? w); cbn [orb]; [exact Hdecl|].
  destruct (Z.leb_spec (zlen (r_view r2)) pos) as [Hpos|Hpos]; [exact Hdecl|].
  rewrite at_nth by lia. cbn [bind].
  destruct (N.eqb_spec (nth (Z.to_nat pos) (r_view r2) 0%N) 62) as [Ec|Ec]; cbn [negb]; [|exact Hdecl].
  cbv zeta. clear Hdecl.
  (* the marker is a source byte *)
  assert (Hpp : s_pad (r_pos r2) <= pos).
  { destruct (Z.lt_ge_cases pos (s_pad (r_pos r2))) as [Hlt|Hge]; [|lia].
    rewrite nth_view_pad in Ec by lia. discriminate. }
  assert (Hnl : forall k, 0 <= k < pos + 1 -> nth (Z.to_nat k) (r_view r2) 0%N <> 10%N).
  { intros k Hk. destruct (Z.eq_dec k pos) as [->|Hne]; [rewrite Ec; discriminate|].
    destruct (Hbl k ltac:(lia)) as [E|E]; rewrite E; discriminate. }
  destruct (Z.leb_spec (zlen (r_view r2)) (pos + 1)) as [Hpos1|Hpos1].
  { destruct (ri_advance_in_line r2 (pos + 1) I2 Hin ltac:(lia) Hnl) as [r3 (E3 & I3 & L3 & S3 & _)].
    rewrite E3. cbn [bind]. apply Hfin; [exact I3| |discriminate]. intros _. split; [exact L3|lia]. }
  rewrite at_nth by lia. cbn [bind].
  destruct (ri_advance_within r2 (pos + 1) I2 Hin ltac:(lia)) as [r3 (E3 & I3 & L3 & S3 & Pd3 & V3 & Hin3)].
  destruct (N.eqb_spec (nth (Z.to_nat (pos + 1)) (r_view r2) 0%N) 10) as [Ed|Ed].
  { rewrite E3. cbn [bind]. apply Hfin; [exact I3| |discriminate]. intros _. split; [exact L3|lia]. }
  rewrite E3. cbn [bind].
  destruct (N.eqb (nth (Z.to_nat (pos + 1)) (r_view r2) 0%N) 32 || N.eqb (nth (Z.to_nat (pos + 1)) (r_view r2) 0%N) 9).
  2:{ apply Hfin; [exact I3| |discriminate]. intros _. split; [exact L3|lia]. }
  destruct (ri_line_offset r3 I3) as [r4 (E4 & I4 & P4 & _)]. rewrite E4. cbn [bind]. cbv zeta.
  match goal with |- context [r_advance_and_set_padding r4 1 ?p] => assert (Hp : 0 <= p); [|generalize dependent p] end.
  { destruct (N.eqb _ 9); [apply tab_width_pos|lia]. }
  intros padding Hp.
  pose proof (same_pos_view _ _ P4) as V4. pose proof (same_pos_in_range _ _ P4) as Hin4. rewrite Hin3 in Hin4.
  pose proof (view_nonempty r4 I4 Hin4) as Hne4.
  destruct (ri_advance_and_set_padding_in_line r4 1 padding I4 Hin4 ltac:(lia)) as [r5 (E5 & I5 & L5 & S5)]; [|exact Hp|].
  { intros k Hk. replace k with 0 by lia. rewrite V4, V3. change (Z.to_nat 0) with 0%nat.
    rewrite nth_skipn_add. rewrite Nat.add_0_r. exact Ed. }
  rewrite E5. cbn [bind]. apply Hfin; [exact I5| |discriminate]. intros _.
  assert (L35 : same_line r3 r5) by (eapply same_line_trans; [apply same_pos_line, P4|exact L5]).
  split; [eapply same_line_trans; eassumption|]. destruct L35 as (_ & _ & L & _). lia.
Qed.

Section S.
Variable space_table : list N.
Variable src : bytes.
Variable lst : option nat.
Hypothesis tbl : TblOK space_table.
Notation SI := (SI space_table src lst).
Notation open_post := (open_post space_table src lst).
Notation cont_post := (cont_post space_table src lst).

Lemma cframe_refl c : cframe c c.
Proof. unfold cframe. auto. Qed.

Lemma bq_open_ok_aux s parent : SI s -> sin s ->
  exists s' o, bq_open s = Ok (s', o) /\ open_post PBlockquote parent s s' o.
Proof.
  intros HS _. destruct (bq_total_ri (s_r s) (si_r _ _ _ _ HS)) as (r' & ok & E & I' & Ht & Hf).
  unfold bq_open. rewrite E. cbn [bind]. destruct ok.
  - destruct (Ht eq_refl) as [L1 L2]. clear Ht Hf.
    assert (HS1 : SI (st_r s r')) by (apply SI_set_r; [exact HS|exact I'|apply same_line_le, L1|exact (PadB_bq_process_total _ _ _ E (si_pad _ _ _ _ HS))]).
    destruct (new_node_ok space_table src lst (st_r s r') (mknode BBlockquote 0) HS1 eq_refl eq_refl I) as (N1 & N2 & N3 & N4 & N5).
    { cbn. discriminate. }
    destruct (new_node (st_r s r') (mknode BBlockquote 0)) as [s2 id] eqn:En. cbn [fst snd] in *.
    cbn [st_r s_h s_c s_r] in *.
    exists s2, (Some (id, true, false)). split; [reflexivity|]. unfold open_post.
    split; [exact N1|]. rewrite N5, N4. split; [apply same_line_le, L1|]. split; [apply cframe_refl|].
    exists (mknode BBlockquote 0). csplit; auto; try reflexivity. intros C. discriminate.
    cbn [open_extra]. rewrite N5. auto.
  - specialize (Hf eq_refl). exists (st_r s r'), None. split; [reflexivity|]. unfold open_post. cbn [st_r s_h s_c s_r].
    split; [apply SI_set_r; [exact HS|exact I'|apply same_pos_le, Hf|exact (PadB_bq_process_total _ _ _ E (si_pad _ _ _ _ HS))]|].
    split; [apply same_pos_le, Hf|]. split; [apply cframe_refl|]. csplit; auto.
Qed.

Lemma bq_continue_ok_aux s node : SI s -> sin s ->
  exists s' cont, bq_continue s = Ok (s', cont) /\ cont_post PBlockquote node s s' cont true.
Proof.
  intros HS _. destruct (bq_total_ri (s_r s) (si_r _ _ _ _ HS)) as (r' & ok & E & I' & Ht & Hf).
  unfold bq_continue. rewrite E. cbn [bind]. exists (st_r s r'), ok. split; [reflexivity|].
  assert (L : same_line (s_r s) r').
  { destruct ok; [apply Ht; reflexivity|apply same_pos_line, Hf; reflexivity]. }
  unfold cont_post. cbn [st_r s_h s_c s_r is_container].
  split; [apply SI_set_r; [exact HS|exact I'|apply same_line_le, L|exact (PadB_bq_process_total _ _ _ E (si_pad _ _ _ _ HS))]|].
  split; [apply same_line_le, L|]. split; [apply cframe_refl|]. csplit; auto; discriminate.
Qed.
End S.
