(* Helper library for TypoDefWfBlk.v, part R: the heap operations of the definition list parsers against the
   invariant of TypoDefWfBlkB.v: data changes of a DefinitionList node (its b_seg is no source segment),
   the detaching AppendChild (append_childD) of a new block or of a list that is opened again,
   AppendChild of a definition term, RemoveChild of the paragraph the description parser has taken over. *)
Require Import GM.model.Base GM.model.Util GM.model.Reader GM.model.ReaderSpec GM.model.Blocks GM.model.ListItem
               GM.model.LeafBlocks GM.model.CodeBlock GM.model.LinkDest GM.model.Regex GM.model.HtmlWriter
               GM.model.Html GM.model.HtmlSpec GM.model.BlockParse GM.model.InlineParse GM.model.TypoDefParseD.
Require Import GM.proofs.ReaderProofs GM.proofs.BlockRangeProofs GM.proofs.ParseInv
               GM.proofs.ParseBlocksRangeA GM.proofs.TypoDefWfBlkB GM.proofs.TypoDefWfBlkT GM.proofs.TypoDefWfBlkC
               GM.proofs.TypoDefWfBlkD GM.proofs.TypoDefWfBlkE GM.proofs.TypoDefWfBlkM.
Require GM.proofs.TypoDefConservativeBlk.
From Coq Require Import ZArith Lia Sorted.
Open Scope Z_scope.

(* old nodes keep kind and type field (the b_seg of a DefinitionList may change) *)
Definition kb_le (h h' : heap) : Prop :=
  forall i n, nth_error h i = Some n -> exists n', nth_error h' i = Some n' /\ bk n' = bk n /\ b_i1 n' = b_i1 n.
Lemma kb_le_refl h : kb_le h h.
Proof. intros i n E. exists n. auto. Qed.
Lemma kb_le_trans a b c : kb_le a b -> kb_le b c -> kb_le a c.
Proof.
  intros H1 H2 i n E. destruct (H1 i n E) as [n1 [E1 [K1 I1]]]. destruct (H2 i n1 E1) as [n2 [E2 [K2 I2]]].
  exists n2. csplit; congruence.
Qed.
Lemma kind_kb_le h h' : kind_le h h' -> kb_le h h'.
Proof. intros H i n E. destruct (kind_le_nth _ _ _ _ H E) as [n' [E' [K [I _]]]]. exists n'. auto. Qed.
Lemma kb_le_app h n : kb_le h (h ++ [n]).
Proof. apply kind_kb_le. apply kind_le_app. Qed.
Lemma kb_le_hset h i n n' : nth_error h i = Some n -> bk n' = bk n -> b_i1 n' = b_i1 n -> kb_le h (hset h i n').
Proof.
  intros E K I j m Hj. destruct (Nat.eq_dec j i) as [->|Hne].
  - exists n'. rewrite nth_hset_eq by (eapply nth_some_lt; eassumption). assert (m = n) by congruence. subst. auto.
  - exists m. rewrite nth_hset_ne by congruence. auto.
Qed.
Lemma kb_le_length h h' : kb_le h h' -> (length h <= length h')%nat.
Proof.
  intros H. destruct (Nat.le_gt_cases (length h) (length h')) as [Hle|Hgt]; [exact Hle|exfalso].
  destruct (nth_error h (length h')) as [n|] eqn:E.
  - destruct (H _ _ E) as [n' [E' _]]. apply nth_some_lt in E'. lia.
  - apply nth_error_None in E. lia.
Qed.
Lemma kb_le_nth h h' i n : kb_le h h' -> nth_error h i = Some n ->
  exists n', nth_error h' i = Some n' /\ bk n' = bk n /\ b_i1 n' = b_i1 n /\ is_dl n' = is_dl n /\ is_dt n' = is_dt n /\
             is_dd n' = is_dd n /\ cnt n' = cnt n.
Proof.
  intros H E. destruct (H i n E) as [n' [E' [K I]]]. exists n'. csplit; auto.
  - unfold is_dl. rewrite K, I. reflexivity.
  - unfold is_dt. rewrite K, I. reflexivity.
  - unfold is_dd. rewrite K, I. reflexivity.
  - unfold cnt, is_dl, is_dd. rewrite K, I. reflexivity.
Qed.
Lemma topN_kb h h' E : topN h E -> kb_le h h' -> topN h' E.
Proof.
  intros Ht Hk E' y bq HE. destruct (Ht E' y bq HE) as [n [En Kn]].
  destruct (kb_le_nth _ _ _ _ Hk En) as [n' [En' [_ [_ [_ [_ [_ Kc]]]]]]]. exists n'. split; [exact En'|congruence].
Qed.

Lemma R_last_cons0 l : last (0%nat :: l) 0%nat = last l 0%nat.
Proof. destruct l as [|a t]; [reflexivity|]. apply last_cons_ne. discriminate. Qed.
Lemma R_ids_snoc E e : ids (E ++ [e]) = ids E ++ [fst e].
Proof. unfold ids. rewrite map_app. reflexivity. Qed.

Lemma opt_some_dec (e : option nat) x : {e = Some x} + {e <> Some x}.
Proof. destruct e as [y|]; [destruct (Nat.eq_dec y x) as [->|H]; [left; reflexivity|right; congruence]|right; discriminate]. Qed.

Section R.
Variable space_table : list N.
Variable src : bytes.
Notation SInv := (SInv space_table src).
Notation HI := (HI space_table src).
Notation nodeP := (nodeP space_table src).
Notation heapS := (heapS space_table src).
Notation Jinv := (Jinv src).
Notation openS := (openS src).
Notation fin_lines := (fin_lines src).
Notation fin := (fin src).

(* ================= a data change of one node ================= *)
(* as heapS_hset, but the b_seg of a DefinitionList can change *)
Lemma heapS_hset_kb h i n n' : heapS h -> nth_error h i = Some n -> bk n' = bk n -> bpar n' = bpar n -> bch n' = bch n ->
  nodeP n' -> heapS (hset h i n').
Proof.
  intros [Hroot HK Hnd Hns Hit Hnode HP] E K P C Hn'. pose proof (nth_some_lt _ _ _ E) as Hi. constructor.
  - destruct Hroot as [n0 [E0 [K0 P0]]]. destruct (Nat.eq_dec i 0) as [->|Hne].
    + exists n'. rewrite nth_hset_eq by exact Hi. assert (n0 = n) by congruence. subst. csplit; congruence.
    + exists n0. rewrite nth_hset_ne by congruence. auto.
  - intros p np c Hp Hc. apply nth_hset_inv in Hp.
    assert (exists np0, nth_error h p = Some np0 /\ bch np0 = bch np) as [np0 [Ep0 Ec0]].
    { destruct Hp as [[-> [-> _]]|[_ Hp]]; [exists n; auto|exists np; auto]. }
    rewrite <- Ec0 in Hc. destruct (HK p np0 c Ep0 Hc) as [nc [Enc Pc]].
    destruct (Nat.eq_dec c i) as [->|Hne].
    + exists n'. rewrite nth_hset_eq by exact Hi. assert (nc = n) by congruence. subst. split; congruence.
    + exists nc. rewrite nth_hset_ne by congruence. auto.
  - intros p np Hp. apply nth_hset_inv in Hp. destruct Hp as [[-> [-> _]]|[_ Hp]].
    + rewrite C. eapply Hnd; eassumption.
    + eapply Hnd; eassumption.
  - intros j m Hj. apply nth_hset_inv in Hj. destruct Hj as [[-> [-> _]]|[_ Hj]].
    + rewrite P. eapply Hns; eassumption.
    + eapply Hns; eassumption.
  - intros p np c nc Hp Hin Hc Kc. apply nth_hset_inv in Hc. apply nth_hset_inv in Hp.
    assert (exists nc0, nth_error h c = Some nc0 /\ bk nc0 = bk nc) as [nc0 [Ec0 Kc0]].
    { destruct Hc as [[-> [-> _]]|[_ Hc]]; [exists n; auto|exists nc; auto]. }
    assert (exists np0, nth_error h p = Some np0 /\ bk np0 = bk np /\ bch np0 = bch np) as [np0 [Ep0 [Kp0 Cp0]]].
    { destruct Hp as [[-> [-> _]]|[_ Hp]]; [exists n; auto|exists np; auto]. }
    rewrite <- Kp0. eapply (Hit p np0 c nc0); try eassumption; congruence.
  - intros j m Hj. apply nth_hset_inv in Hj. destruct Hj as [[-> [-> _]]|[_ Hj]]; [exact Hn'|eapply Hnode; eassumption].
  - intros j m q Hj Pj. apply nth_hset_inv in Hj.
    assert (exists m0, nth_error h j = Some m0 /\ bpar m0 = bpar m) as [m0 [Ej0 Pj0]].
    { destruct Hj as [[-> [-> _]]|[_ Hj]]; [exists n; auto|exists m; auto]. }
    rewrite <- Pj0 in Pj. destruct (HP j m0 q Ej0 Pj) as [nq [Eq Hin]].
    destruct (Nat.eq_dec q i) as [->|Hne].
    + exists n'. rewrite nth_hset_eq by exact Hi. assert (nq = n) by congruence. subst. split; [reflexivity|]. rewrite C. exact Hin.
    + exists nq. rewrite nth_hset_ne by congruence. auto.
Qed.

(* ================= the opened-blocks bookkeeping under a change of the heap, general form ================= *)
(* what the new heap keeps of an old node x: kind and type field; when x is not the excepted node e also the
   b_seg of a DefinitionList *)
Definition keep1 (e : option nat) (h h' : heap) (x : nat) : Prop :=
  forall n, nth_error h x = Some n -> exists n', nth_error h' x = Some n' /\ bk n' = bk n /\ b_i1 n' = b_i1 n /\
    (e <> Some x -> is_dl n = true -> b_seg n' = b_seg n).

Lemma openS_trans h h' c A D N e : openS h c A D N ->
  (forall x, In x (ids (A ++ D ++ N)) -> keep1 e h h' x) ->
  (forall x n, prot c (A ++ D ++ N) x -> nth_error h x = Some n ->
               exists n', nth_error h' x = Some n' /\ bk n' = bk n /\ blines n' = blines n) ->
  (forall q y, In y (ids (A ++ N)) -> lastchild h q y -> lastchild h' q y) ->
  (N = [] -> forall q y t, D = y :: t -> lastchild h q (fst y) -> lastchild h' q (fst y)) ->
  ((forall q y, In y (ids D) -> child h q y -> child h' q y) \/ (N <> [] /\ exists x, D = [(x, PParagraph)])) ->
  (forall x n', e = Some x -> nth_error h' x = Some n' -> is_dl n' = true -> b_seg n' <> None -> N <> [] /\ x = lastid (ids N)) ->
  openS h' c A D N.
Proof.
  intros [Hp Ha HnD HnN Hdu Hs Hc Hl Ht Hf Hdt Hpe] Hk Hpr Hlc Hl0 Hch Hex.
  assert (forall x bp n', In (x, bp) (A ++ D ++ N) -> nth_error h' x = Some n' ->
            exists n, nth_error h x = Some n /\ bk n' = bk n /\ b_i1 n' = b_i1 n /\
                      (e <> Some x -> is_dl n = true -> b_seg n' = b_seg n)) as Hback.
  { intros x bp n' Hin E'. destruct (Hp x bp Hin) as [n [E K]]. destruct (Hk x (in_ids _ _ _ Hin) n E) as [n2 [E2 K2]].
    assert (n2 = n') by congruence. subst n2. exists n. split; [exact E|exact K2]. }
  constructor.
  - intros x bp Hin. destruct (Hp x bp Hin) as [n [E K]]. destruct (Hk x (in_ids _ _ _ Hin) n E) as [n' [E' [K' _]]].
    exists n'. split; congruence.
  - intros x Hin. destruct (Ha x Hin) as [n [E F]]. destruct (Hpr x n (or_introl Hin) E) as [n' [E' [_ L]]].
    exists n'. rewrite L. auto.
  - exact HnD.
  - exact HnN.
  - intros x H1 H2. destruct (Hdu x H1 H2) as [n [E K]]. destruct (Hk x (in_D_all A D N x H1) n E) as [n' [E' [K' [I' _]]]].
    exists n'. split; [exact E'|]. unfold is_dl in *. rewrite K', I'. exact K.
  - intros q x Hq. apply Hlc; [|apply Hs; exact Hq]. eapply Adj_snd_in0. exact Hq.
  - destruct Hc as [Hc|Hc]; [|right; exact Hc]. destruct Hch as [Hch|Hch]; [left|right; exact Hch].
    intros q x Hq. apply Hch; [|apply Hc; exact Hq]. eapply Adj_snd_in0. exact Hq.
  - intros HN. specialize (Hl HN). destruct D as [|d D']; [auto|]. eapply Hl0; [exact HN|reflexivity|exact Hl].
  - intros x Hin. destruct (Ht x Hin) as [tmp [t [E1 [E2 [K [F Hni]]]]]].
    destruct (Hpr tmp t (or_intror (conj E1 (ex_intro _ x Hin))) E2) as [t' [E' [K' L]]].
    exists tmp, t'. rewrite L. csplit; auto. congruence.
  - exact Hf.
  - intros x bp n' Hin E'. destruct (Hback x bp n' Hin E') as [n [E [K [I _]]]].
    pose proof (Hdt x bp n Hin E) as Hd. unfold is_dt in *. rewrite K, I. exact Hd.
  - intros x bp n' Hin E' Hdl Hsg. destruct (Hback x bp n' Hin E') as [n [E [K [I Ks]]]].
    destruct (opt_some_dec e x) as [Ee|Ee]; [exact (Hex x n' Ee E' Hdl Hsg)|].
    assert (is_dl n = true) as Hdl0 by (unfold is_dl in *; rewrite <- K, <- I; exact Hdl).
    rewrite (Ks Ee Hdl0) in Hsg. eapply Hpe; eassumption.
Qed.

(* ================= AppendChild of the block that becomes the last of the new blocks ================= *)
(* `node`, a new block or a definition list that is opened again (it can then be the first of D), becomes the last
   child of p = the last of A ++ N; h3 is described by its nodes: nn3 (node), np3 (p), the others are those of h *)
Lemma openS_attach h h3 c A D N node bp nn nn3 np np3 :
  openS h c A D N -> heapS h ->
  nth_error h node = Some nn -> nth_error h (lastid (ids (A ++ N))) = Some np -> node <> lastid (ids (A ++ N)) ->
  nth_error h3 node = Some nn3 -> nth_error h3 (lastid (ids (A ++ N))) = Some np3 ->
  (forall j, j <> node -> j <> lastid (ids (A ++ N)) -> nth_error h3 j = nth_error h j) ->
  bk nn3 = bk nn -> b_i1 nn3 = b_i1 nn -> blines nn3 = blines nn -> bch nn3 = bch nn ->
  bki np3 = bki np -> blines np3 = blines np -> (forall x, In x (bch np) -> In x (bch np3)) -> last_id (bch np3) = Some node ->
  bk nn = pkind bp -> (bp = PATX -> fin_lines (blines nn)) ->
  (bp = PSetext -> exists tmp t, c_tmp_para c = Some tmp /\ nth_error h tmp = Some t /\ bk t = BParagraph /\
                   fin_lines (blines t) /\ ~ In tmp (ids (A ++ D ++ N)) /\ tmp <> node) ->
  (forall tmp y, c_tmp_para c = Some tmp -> In (y, PSetext) (A ++ D ++ N) -> tmp <> node) ->
  ~ In node (ids (A ++ N)) -> (In node (ids D) -> is_dl nn = true) -> node <> 0%nat -> is_dt nn = false ->
  (forall x bq n, In (x, bq) (A ++ D ++ N) -> x <> node -> nth_error h x = Some n -> is_dl n = true -> b_seg n = None) ->
  openS h3 c A D (N ++ [(node, bp)]).
Proof.
  intros HO HS En Ep Hnp E3n E3p E3o Kn In_ Ln Cn Kp Lp Cp Lc Kpair Hatx Hset Htmp Hni HnD Hn0 Hdt Hnpend.
  set (p := lastid (ids (A ++ N))) in *.
  destruct (bki_eq _ _ Kp) as [Kpb [Kpi [Kpl [_ [_ [_ Kps]]]]]].
  assert (forall x n, nth_error h x = Some n -> exists n3, nth_error h3 x = Some n3 /\ bk n3 = bk n /\ b_i1 n3 = b_i1 n /\
            blines n3 = blines n /\ (x <> node -> is_dl n = true -> b_seg n3 = b_seg n)) as Hold.
  { intros x n Ex. destruct (Nat.eq_dec x node) as [->|Hx1].
    - assert (n = nn) by congruence. subst n. exists nn3. csplit; auto. congruence.
    - destruct (Nat.eq_dec x p) as [->|Hx2].
      + assert (n = np) by congruence. subst n. exists np3. csplit; auto.
      + exists n. rewrite E3o by assumption. csplit; auto. }
  assert (forall n n3 : bnode, bk n3 = bk n -> b_i1 n3 = b_i1 n -> is_dl n3 = is_dl n /\ is_dt n3 = is_dt n) as Hkd.
  { intros n n3 K I. unfold is_dl, is_dt. rewrite K, I. auto. }
  assert (A ++ D ++ N ++ [(node, bp)] = (A ++ D ++ N) ++ [(node, bp)]) as Hflat by (rewrite <- !app_assoc; reflexivity).
  assert (forall e, In e (A ++ D ++ N ++ [(node, bp)]) -> e = (node, bp) \/ In e (A ++ D ++ N)) as Hsplit.
  { intros e He. rewrite Hflat in He. apply in_app_or in He. destruct He as [He|[He|[]]]; auto. }
  destruct HO as [Hp Ha HnDD HnN Hdu Hs Hc Hl Ht Hf Hdtt Hpe].
  assert (NoDup (0%nat :: ids (A ++ N))) as Hnd0.
  { constructor; [|exact HnN]. eapply chain_no_root; [exact HS|apply spineL_chainL; exact Hs]. }
  constructor.
  - intros x bq Hin. destruct (Hsplit _ Hin) as [E|Hin0].
    + injection E as -> ->. exists nn3. split; [exact E3n|congruence].
    + destruct (Hp x bq Hin0) as [n [Ex K]]. destruct (Hold x n Ex) as [n3 [E3 [K3 _]]]. exists n3. split; [exact E3|congruence].
  - intros x Hin. destruct (Hsplit _ Hin) as [E|Hin0].
    + injection E as -> <-. exists nn3. split; [exact E3n|]. rewrite Ln. apply Hatx. reflexivity.
    + destruct (Ha x Hin0) as [n [Ex F]]. destruct (Hold x n Ex) as [n3 [E3 [_ [_ [L3 _]]]]]. exists n3. rewrite L3. auto.
  - exact HnDD.
  - rewrite app_assoc, ids_app. change (ids [(node, bp)]) with [node]. apply NoDup_app_snoc; assumption.
  - intros x H1 H2. rewrite ids_app in H2. apply in_app_or in H2. destruct H2 as [H2|[<-|[]]].
    + destruct (Hdu x H1 H2) as [n [Ex K]]. destruct (Hold x n Ex) as [n3 [E3 [K3 [I3 _]]]]. exists n3. split; [exact E3|].
      rewrite (proj1 (Hkd n n3 K3 I3)). exact K.
    + exists nn3. split; [exact E3n|]. rewrite (proj1 (Hkd nn nn3 Kn In_)). apply HnD. exact H1.
  - assert (0%nat :: ids (A ++ N ++ [(node, bp)]) = (0%nat :: ids (A ++ N)) ++ [node]) as Esp.
    { rewrite app_assoc, ids_app. reflexivity. }
    rewrite Esp. intros q x Hq. apply Adj_snoc_inv in Hq. destruct Hq as [Hq|[_ [-> ->]]].
    + destruct (Hs q x Hq) as [nq [Eq Lq]]. exists nq. split; [|exact Lq]. rewrite E3o; [exact Eq| |].
      * intros ->. apply Adj_in in Hq. destruct Hq as [[Hq|Hq] _]; [congruence|contradiction].
      * unfold p, lastid. rewrite <- (R_last_cons0 (ids (A ++ N))). apply (Adj_not_last _ q x 0%nat Hnd0 Hq).
    + rewrite R_last_cons0. fold (lastid (ids (A ++ N))). fold p. exists np3. auto.
  - destruct Hc as [Hc|[HN Hx]].
    + left. intros q x Hq. destruct (Hc q x Hq) as [nq [Eq Hx]].
      destruct (Nat.eq_dec q node) as [->|Hq1].
      * assert (nq = nn) by congruence. subst nq. exists nn3. split; [exact E3n|congruence].
      * destruct (Nat.eq_dec q p) as [->|Hq2].
        -- assert (nq = np) by congruence. subst nq. exists np3. auto.
        -- exists nq. rewrite E3o by assumption. auto.
    + right. split; [destruct N; discriminate|exact Hx].
  - intros E. destruct N; discriminate.
  - intros x Hin. destruct (Hsplit _ Hin) as [E|Hin0].
    + injection E as -> <-. destruct (Hset eq_refl) as [tmp [t [T1 [T2 [T3 [T4 [T5 T6]]]]]]].
      destruct (Hold tmp t T2) as [t' [Et' [K' [_ [L' _]]]]]. exists tmp, t'. rewrite L'. csplit; auto; try congruence.
      rewrite Hflat, ids_app. intros Hi. apply in_app_or in Hi. destruct Hi as [Hi|[Hi|[]]]; [contradiction|cbn [fst] in Hi; congruence].
    + destruct (Ht x Hin0) as [tmp [t [T1 [T2 [T3 [T4 T5]]]]]].
      destruct (Hold tmp t T2) as [t' [Et' [K' [_ [L' _]]]]]. exists tmp, t'. rewrite L'. csplit; auto; try congruence.
      rewrite Hflat, ids_app. intros Hi. apply in_app_or in Hi. destruct Hi as [Hi|[Hi|[]]]; [contradiction|].
      cbn [fst] in Hi. eapply Htmp; [exact T1|exact Hin0|congruence].
  - exact Hf.
  - intros x bq n3 Hin E3. destruct (Hsplit _ Hin) as [E|Hin0].
    + injection E as -> ->. assert (n3 = nn3) by congruence. subst n3. rewrite (proj2 (Hkd nn nn3 Kn In_)). exact Hdt.
    + destruct (Hp x bq Hin0) as [n [Ex K]]. destruct (Hold x n Ex) as [n3' [E3' [K3 [I3 _]]]]. assert (n3' = n3) by congruence. subst n3'.
      rewrite (proj2 (Hkd n n3 K3 I3)). eapply Hdtt; eassumption.
  - intros x bq n3 Hin E3 Hdl Hsg. split; [destruct N; discriminate|]. rewrite ids_app. change (ids [(node, bp)]) with [node]. rewrite lastid_snoc.
    destruct (Nat.eq_dec x node) as [Hx|Hx]; [exact Hx|exfalso].
    destruct (Hsplit _ Hin) as [E|Hin0]; [congruence|].
    destruct (Hp x bq Hin0) as [n [Ex K]]. destruct (Hold x n Ex) as [n3' [E3' [K3 [I3 [_ S3]]]]]. assert (n3' = n3) by congruence. subst n3'.
    assert (is_dl n = true) as Hdl0 by (rewrite <- (proj1 (Hkd n n3 K3 I3)); exact Hdl).
    rewrite (S3 Hx Hdl0) in Hsg. apply Hsg. eapply Hnpend; eassumption.
Qed.

End R.

(* ================= the composite steps ================= *)
Section R2.
Variable space_table punct_table : list N.
Variable norm : bytes -> bytes.
Variable re_t1o re_t1c re_t2 re_t3 re_t4 re_t5 re_t6 re_t7 : re.
Variable allowed_tags : list bytes.
Variable src : bytes.
Hypothesis sp32 : is_space space_table 32%N = true.
Set Default Proof Using "All".
Notation CC f := (f space_table punct_table norm re_t1o re_t1c re_t2 re_t3 re_t4 re_t5 re_t6 re_t7 allowed_tags src sp32) (only parsing).
Notation SInv := (SInv space_table src).
Notation HI := (HI space_table src).
Notation nodeP := (nodeP space_table src).
Notation heapS := (heapS space_table src).
Notation Jinv := (Jinv src).
Notation openS := (openS src).
Notation fin_lines := (fin_lines src).
Notation fin := (fin src).

(* no opened block is a list whose b_seg is set *)
Definition nopend (h : heap) (E : list (nat * bparser)) : Prop :=
  forall x bq n, In (x, bq) E -> nth_error h x = Some n -> is_dl n = true -> b_seg n = None.

(* ---------- a new block ---------- *)
Lemma HI_attach_new b h c A D N node bp nn np blank h3 :
  HI b h c A D N -> nth_error h node = Some nn -> bpar nn = None -> bk nn = pkind bp ->
  (bp = PATX -> fin_lines (blines nn)) ->
  (bp = PSetext -> exists tmp t, c_tmp_para c = Some tmp /\ nth_error h tmp = Some t /\ bk t = BParagraph /\
                   fin_lines (blines t) /\ ~ In tmp (ids (A ++ D ++ N)) /\ tmp <> node) ->
  (forall tmp y, c_tmp_para c = Some tmp -> In (y, PSetext) (A ++ D ++ N) -> tmp <> node) ->
  ~ In node (ids (A ++ D ++ N)) -> node <> 0%nat -> is_dt nn = false ->
  nth_error h (lastid (ids (A ++ N))) = Some np -> cnt np = true -> (bk nn = BListItem -> bk np = BList) ->
  nopend h (A ++ D ++ N) ->
  append_child (hset h node (set_blank nn blank)) (lastid (ids (A ++ N))) node = Ok h3 ->
  HI b h3 c A D (N ++ [(node, bp)]).
Proof.
  intros HH En Pn Kn Hatx Hset Htmp Hni Hn0 Hdt Ep Kp Hli Hnpe Ha.
  set (p := lastid (ids (A ++ N))) in *. set (n2 := set_blank nn blank) in *.
  assert (node <> p) as Hcp.
  { destruct (CC lastid_cases (ids (A ++ N))) as [[_ E]|[_ Hin]]; [unfold p; congruence|].
    intros ->. apply Hni. apply in_AN_all. exact Hin. }
  assert (nodeP n2) as Hn2.
  { eapply nodeP_same; [exact (hs_node _ _ _ (hi_heap _ _ _ _ _ _ _ _ HH) _ _ En)|reflexivity..|].
    intros Hk. exact (np_leaf _ _ _ (hs_node _ _ _ (hi_heap _ _ _ _ _ _ _ _ HH) _ _ En) Hk). }
  assert (HI b (hset h node n2) c A D N) as HH2.
  { eapply (CC HI_hset_free); [exact HH|exact En|exact Pn|repeat split|reflexivity|exact Hn2]. }
  pose proof (nth_some_lt _ _ _ En) as Ln.
  assert (nth_error (hset h node n2) node = Some n2) as En2 by (apply nth_hset_eq; exact Ln).
  assert (nth_error (hset h node n2) p = Some np) as Ep2 by (rewrite nth_hset_ne by congruence; exact Ep).
  destruct (append_child_spec _ _ _ _ Ha Hcp) as [nc [np' [Ec [Ep' [Hlen [E1c [E1p E1o]]]]]]].
  assert (nc = n2) by congruence. assert (np' = np) by congruence. subst nc np'.
  destruct HH2 as [H1 H2 H3 H4 H5].
  constructor.
  - eapply (Bnd_append (hset h node n2) h3 p node n2 np); eassumption.
  - eapply (heapS_append space_table src (hset h node n2) h3 p node n2 np); eassumption.
  - eapply (Jinv_append src (hset h node n2) h3 p node n2 np) with (R := ids (A ++ D ++ N)); try eassumption.
    + intros x Hx. rewrite !ids_app in *. rewrite !in_app_iff in *. tauto.
    + rewrite !ids_app. rewrite !in_app_iff. right. right. right. left. reflexivity.
  - eapply (openS_attach space_table src (hset h node n2) h3 c A D N node bp n2 (set_par n2 (Some p)) np (set_ch np (bch np ++ [node])));
      try eassumption; try reflexivity.
    + intros x Hx. cbn [set_ch bch]. apply in_or_app. left. exact Hx.
    + cbn [set_ch bch]. apply last_id_snoc.
    + intros E. destruct (Hset E) as [tmp [t [T1 [T2 [T3 [T4 [T5 T6]]]]]]]. exists tmp, t. csplit; auto.
      rewrite nth_hset_ne by congruence. exact T2.
    + intros Hi. apply Hni. apply in_AN_all. exact Hi.
    + intros Hi. exfalso. apply Hni. apply in_D_all. exact Hi.
    + intros x bq n Hin Hx Ex Hdl. rewrite nth_hset_ne in Ex by congruence. eapply Hnpe; eassumption.
  - exact H5.
Qed.

Lemma keep1_kind e h h' x : kind_le h h' -> keep1 e h h' x.
Proof.
  intros Hk n E. destruct (kind_le_nth _ _ _ _ Hk E) as [n' [E' [K [I [_ [_ [_ [_ S]]]]]]]]. exists n'. csplit; auto.
Qed.

Lemma nodeP_dl_data nl n1 : nodeP nl -> is_dl nl = true -> bk n1 = bk nl -> b_i1 n1 = b_i1 nl -> bch n1 = bch nl ->
  blines n1 = blines nl -> 0 <= b_i2 n1 -> nodeP n1.
Proof.
  intros [H1 H2 H3 H4 H5 H6 H7 H8 H9] Hdl K I C L Hi2.
  destruct (is_dl_kind _ Hdl) as [Kb Ki].
  assert (is_dl n1 = true) as Hdl1 by (unfold is_dl in *; rewrite K, I; exact Hdl).
  assert (is_dt n1 = false) as Hdt1 by (unfold is_dt; rewrite K, I, Kb, Ki; reflexivity).
  assert (cnt n1 = true) as Hc1 by (unfold cnt; rewrite Hdl1, Bool.orb_true_r; reflexivity).
  constructor; rewrite ?L, ?K, ?Kb, ?Hdl1, ?Hdt1, ?Hc1; auto; try discriminate.
Qed.

(* ---------- a definition list that is opened again: it stays where it is, or moves behind the paragraph ---------- *)
Lemma HI_attach_old b h c A D N lst nl n1 np h2 h3 :
  HI b h c A D N -> nth_error h lst = Some nl -> is_dl nl = true -> bpar nl = Some (lastid (ids (A ++ N))) ->
  bk n1 = bk nl -> b_i1 n1 = b_i1 nl -> bpar n1 = bpar nl -> bch n1 = bch nl -> blines n1 = blines nl -> 0 <= b_i2 n1 ->
  ~ In lst (ids (A ++ N)) -> nth_error h (lastid (ids (A ++ N))) = Some np -> cnt np = true ->
  (forall x bq n, In (x, bq) (A ++ D ++ N) -> x <> lst -> nth_error h x = Some n -> is_dl n = true -> b_seg n = None) ->
  remove_child (hset h lst n1) (lastid (ids (A ++ N))) lst = Ok h2 -> append_child h2 (lastid (ids (A ++ N))) lst = Ok h3 ->
  HI b h3 c A D (N ++ [(lst, PHTML)]) /\ length h3 = length h /\ kb_le h h3 /\
  (forall j, j <> lst -> j <> lastid (ids (A ++ N)) -> nth_error h3 j = nth_error h j) /\
  nth_error h3 lst = Some (set_par (set_par n1 None) (Some (lastid (ids (A ++ N))))).
Proof.
  intros HH En Hdl Pn K1 I1 P1 C1 L1 Hi2 Hni Ep Kp Hnpe Hr Ha.
  set (p := lastid (ids (A ++ N))) in *. destruct HH as [H1 H2 H3 H4 H5].
  pose proof (nth_some_lt _ _ _ En) as Ln. destruct (is_dl_kind _ Hdl) as [Kb Ki].
  assert (lst <> p) as Hcp by (intros E; rewrite <- E in Pn; exact (hs_noself _ _ _ H2 _ _ En Pn)).
  assert (lst <> 0%nat) as Hn0.
  { intros ->. destruct (hs_root _ _ _ H2) as [n0 [E0 [_ P0]]]. congruence. }
  assert (nodeP n1) as Hn1 by (eapply nodeP_dl_data; [exact (hs_node _ _ _ H2 _ _ En)|eassumption..]).
  set (h1 := hset h lst n1) in *.
  assert (nth_error h1 lst = Some n1) as E1l by (apply nth_hset_eq; exact Ln).
  assert (nth_error h1 p = Some np) as E1p by (unfold h1; rewrite nth_hset_ne by congruence; exact Ep).
  assert (heapS h1) as S1 by (eapply heapS_hset_kb; eassumption).
  assert (Jinv h1 (ids (A ++ D ++ N))) as J1.
  { eapply Jinv_hset; [exact H3|exact En|]. intros _. left. intros [E|E]; congruence. }
  assert (Bnd h1 b) as B1 by (apply Bnd_hset; [exact H1|intros E; congruence]).
  destruct (remove_child_spec _ _ _ _ Hr Hcp) as [nc [Ec Hrc]]. assert (nc = n1) by congruence. subst nc.
  destruct Hrc as [[Hbad _]|[_ [np' [Ep' [Hlen2 [E2l [E2p E2o]]]]]]]; [congruence|].
  assert (np' = np) by congruence. subst np'.
  assert (bpar n1 = Some p) as Pn1 by congruence.
  pose proof (heapS_remove space_table src h1 h2 p lst n1 np Hcp E1l E1p Pn1 E2l E2p E2o S1) as S2.
  pose proof (Jinv_remove src h1 h2 p lst n1 np E1p E2l E2p E2o _ J1) as J2.
  pose proof (Bnd_remove h1 h2 p lst n1 np E1l E1p E2l E2p E2o _ B1) as B2.
  set (np2 := set_ch np (remove_id lst (bch np))) in *. set (n2 := set_par n1 None) in *.
  destruct (append_child_spec _ _ _ _ Ha Hcp) as [nc [np' [Ec3 [Ep3 [Hlen3 [E3l [E3p E3o]]]]]]].
  assert (nc = n2) by congruence. assert (np' = np2) by congruence. subst nc np'.
  assert (forall j, j <> lst -> j <> p -> nth_error h3 j = nth_error h j) as Hoth.
  { intros j J1' J2'. rewrite E3o, E2o by assumption. unfold h1. apply nth_hset_ne. congruence. }
  csplit.
  - constructor.
    + eapply (Bnd_append h2 h3 p lst n2 np2); eassumption.
    + eapply (heapS_append space_table src h2 h3 p lst n2 np2); try eassumption; try reflexivity. cbn [n2 set_par bk]. congruence.
    + eapply (Jinv_append src h2 h3 p lst n2 np2) with (R := ids (A ++ D ++ N)); try eassumption.
      * intros x Hx. rewrite !ids_app in *. rewrite !in_app_iff in *. tauto.
      * rewrite !ids_app. rewrite !in_app_iff. right. right. right. left. reflexivity.
    + eapply (openS_attach space_table src h h3 c A D N lst PHTML nl (set_par n2 (Some p)) np (set_ch np2 (bch np2 ++ [lst])));
        try eassumption; try reflexivity; try discriminate.
      * intros x Hx. cbn [set_ch bch np2]. apply in_or_app. destruct (Nat.eq_dec x lst) as [->|Hx']; [right; left; reflexivity|left].
        apply remove_id_keep; assumption.
      * cbn [set_ch bch]. apply last_id_snoc.
      * intros tmp y T1 Hy. destruct (os_tmp _ _ _ _ _ _ H4 y Hy) as [tmp' [t [T1' [T2 [T3 _]]]]]. intros ->. congruence.
      * intros _. exact Hdl.
      * unfold is_dt. rewrite Kb, Ki. reflexivity.
    + exact H5.
  - rewrite Hlen3, Hlen2. apply length_hset.
  - intros j m Ej. destruct (Nat.eq_dec j lst) as [->|J1'].
    + eexists. split; [exact E3l|]. assert (m = nl) by congruence. subst m. split; [exact K1|exact I1].
    + destruct (Nat.eq_dec j p) as [->|J2'].
      * eexists. split; [exact E3p|]. assert (m = np) by congruence. subst m. split; reflexivity.
      * exists m. rewrite Hoth by assumption. auto.
  - exact Hoth.
  - exact E3l.
Qed.

(* a block of the spine has one parent: no block of the spine is a child of the last one *)
Lemma spine_not_child_of_last h c A D N y : heapS h -> openS h c A D N -> In y (ids (A ++ N)) ->
  ~ child h (lastid (ids (A ++ N))) y.
Proof.
  intros HS HO Hy Hc. pose proof (os_spine _ _ _ _ _ _ HO) as Hs.
  assert (NoDup (0%nat :: ids (A ++ N))) as Hnd0.
  { constructor; [|exact (os_ndN _ _ _ _ _ _ HO)]. eapply chain_no_root; [exact HS|apply spineL_chainL; exact Hs]. }
  destruct (in_adj_cons 0%nat _ _ Hy) as [q Hq]. pose proof (spineL_chainL _ _ Hs q y Hq) as Hqy.
  assert (q = lastid (ids (A ++ N))) as Eq.
  { destruct Hqy as [nq [Eq Hin]]. destruct Hc as [np [Ep Hin']].
    destruct (hs_K _ _ _ HS q nq y Eq Hin) as [ny [Ey Py]]. destruct (hs_K _ _ _ HS _ np y Ep Hin') as [ny' [Ey' Py']]. congruence. }
  unfold lastid in Eq. rewrite <- (R_last_cons0 (ids (A ++ N))) in Eq. exact (Adj_not_last _ q y 0%nat Hnd0 Hq Eq).
Qed.

(* ---------- AppendChild of a definition term below the list, the last of the new blocks ---------- *)
Lemma HI_add_term b h c A D N t tn np h1 :
  HI b h c A D N -> N <> [] -> nth_error h t = Some tn -> bpar tn = None -> bk tn = BHTML ->
  ~ In t (ids (A ++ D ++ N)) -> t <> 0%nat ->
  nth_error h (lastid (ids (A ++ N))) = Some np -> cnt np = true ->
  append_child h (lastid (ids (A ++ N))) t = Ok h1 ->
  HI b h1 c A D N /\ length h1 = length h /\
  (forall j, j <> t -> j <> lastid (ids (A ++ N)) -> nth_error h1 j = nth_error h j) /\
  nth_error h1 (lastid (ids (A ++ N))) = Some (set_ch np (bch np ++ [t])) /\
  nth_error h1 t = Some (set_par tn (Some (lastid (ids (A ++ N))))).
Proof.
  intros HH HN En Pn Kn Hni Hn0 Ep Kp Ha. set (p := lastid (ids (A ++ N))) in *.
  assert (t <> p) as Hcp.
  { destruct (CC lastid_cases (ids (A ++ N))) as [[_ E]|[_ Hin]]; [unfold p; congruence|].
    intros ->. apply Hni. apply in_AN_all. exact Hin. }
  destruct (append_child_spec _ _ _ _ Ha Hcp) as [nc [np' [Ec [Ep' [Hlen [E1c [E1p E1o]]]]]]].
  assert (nc = tn) by congruence. assert (np' = np) by congruence. subst nc np'.
  destruct HH as [H1 H2 H3 H4 H5].
  pose proof (append_data_le h h1 p t tn np Ec Ep' E1c E1p E1o) as Hdl.
  csplit; auto. constructor.
  - eapply (Bnd_append h h1 p t tn np); eassumption.
  - eapply (heapS_append space_table src h h1 p t tn np); try eassumption. congruence.
  - intros q nq Hq Hp. destruct (append_cases h h1 p t tn np E1c E1p E1o q nq Hq) as [[-> ->]|[[-> ->]|[J1 [J2 Hq']]]].
    + left. intros [E|E]; cbn [set_par bk] in E; congruence.
    + cbn [set_ch bpar] in Hp. destruct (H3 p np Ep Hp) as [Hf|Hin]; [left|right; exact Hin]. apply (fin_same src np); auto.
    + exact (H3 q nq Hq' Hp).
  - eapply (openS_trans src h h1 c A D N None); [exact H4| | | | | |].
    + intros x _. apply keep1_kind. apply data_kind_le. exact Hdl.
    + intros x n _ E. destruct (Hdl x n E) as [n' [E' [K L]]]. exists n'. csplit; auto. apply bki_eq in K. apply K.
    + intros q y Hy Hl. eapply (append_lastchild h h1 p t tn); try eassumption.
      intros ->. eapply spine_not_child_of_last; [exact H2|exact H4|exact Hy|]. destruct Hl as [nq [Eq L]]. exists nq. split; [exact Eq|apply last_id_in; exact L].
    + intros E. congruence.
    + left. intros q y _ Hq. eapply (append_child_keep h h1 p t tn np); eassumption.
    + intros x n' E. discriminate.
  - exact H5.
Qed.

(* ---------- RemoveChild of the paragraph the description parser has taken over ---------- *)
Lemma HI_remove_para b h c A D N pp x h1 :
  HI b h c A D N -> remove_child h pp x = Ok h1 -> x <> pp -> ~ In x (ids (A ++ N)) ->
  (In x (ids D) -> N <> [] /\ D = [(x, PParagraph)]) ->
  HI b h1 c A D N /\ length h1 = length h /\ kind_le h h1 /\
  (forall j, j <> x -> j <> pp -> nth_error h1 j = nth_error h j).
Proof.
  intros HH Hr Hxp Hni HxD. apply remove_child_spec in Hr; [|exact Hxp].
  destruct Hr as [nx [Ex [[_ ->]|[Px [np [Ep [Hlen [E1x [E1p E1o]]]]]]]]]; [csplit; auto; apply kind_le_refl|].
  pose proof (remove_data_le h h1 pp x nx np Ex Ep E1x E1p E1o) as Hdl.
  split; [|split; [exact Hlen|split; [apply data_kind_le; exact Hdl|exact E1o]]].
  destruct HH as [H1 H2 H3 H4 H5]. constructor; auto.
  - eapply (Bnd_remove h h1 pp x nx np); eassumption.
  - eapply (heapS_remove space_table src h h1 pp x nx np); eassumption.
  - eapply (Jinv_remove src h h1 pp x nx np); eassumption.
  - eapply (openS_trans src h h1 c A D N None); [exact H4| | | | | |].
    + intros y _. apply keep1_kind. apply data_kind_le. exact Hdl.
    + intros y n _ E. destruct (Hdl y n E) as [n' [E' [K L]]]. exists n'. csplit; auto. apply bki_eq in K. apply K.
    + intros q y Hy Hl. eapply (remove_lastchild h h1 pp x nx np); try eassumption. intros ->. contradiction.
    + intros HN q y t ED Hl. eapply (remove_lastchild h h1 pp x nx np); try eassumption. intros E.
      destruct (HxD ltac:(rewrite ED; left; exact E)) as [HN' _]. congruence.
    + destruct (in_dec Nat.eq_dec x (ids D)) as [Hin|Hnin].
      * right. destruct (HxD Hin) as [HN ED]. split; [exact HN|]. exists x. exact ED.
      * left. intros q y Hy Hq. eapply (remove_child_keep h h1 pp x nx np); try eassumption. intros ->. contradiction.
    + intros y n' E. discriminate.
Qed.

(* ---------- the definition terms ---------- *)
(* a paragraph line, cut at its right end, is the line of a term *)
Lemma trim_right_term sg sg' : pline space_table src sg -> seg_trim_right_space space_table src sg = Ok sg' ->
  seg_ok src sg' /\ seg_inr src sg'.
Proof.
  intros [[Hr [Hl Hp]] [Hf Hb]] H. unfold seg_trim_right_space in H.
  rewrite slice_sub in H by lia. cbn [bind] in H.
  set (v := sub src (s_start sg) (s_stop sg)) in *.
  pose proof (br_trs_range space_table v) as Htr.
  assert (zlen v = s_stop sg - s_start sg) as Hzv by (apply ReaderProofs.zlen_sub; lia).
  destruct (CC trs_keep v Hb) as [Hlt Hnb].
  destruct (Z.eqb_spec (trim_right_space_len space_table v) (zlen v)) as [E|_]; [lia|].
  injection H as <-. unfold seg_ok, seg_inr. cbn [mksegp s_start s_stop s_pad s_fnl]. csplit; try lia; reflexivity.
Qed.

Lemma nodeP_term sg : seg_ok src sg -> seg_inr src sg -> nodeP (set_lines (mknode BHTML 101) [sg]).
Proof.
  intros Hok Hin. constructor; cbn [set_lines mknode blines b_seg bk b_i1 b_i2 bch]; try discriminate; auto; try lia.
  intros _. exists sg. auto.
Qed.

Lemma add_terms_ok b c A D N lst : forall lines h r h' c' r',
  HI b h c A D N -> N <> [] -> lst = lastid (ids (A ++ N)) -> r_src r = src ->
  (exists nl, nth_error h lst = Some nl /\ cnt nl = true) -> Forall (pline space_table src) lines ->
  add_terms space_table {| s_h := h; s_c := c; s_r := r |} lst lines = Ok {| s_h := h'; s_c := c'; s_r := r' |} ->
  HI b h' c A D N /\ c' = c /\ r' = r /\ (length h <= length h')%nat /\
  (forall j m, nth_error h j = Some m -> j <> lst -> nth_error h' j = Some m) /\
  (exists nl nl', nth_error h lst = Some nl /\ nth_error h' lst = Some nl' /\
      bki nl' = bki nl /\ bpar nl' = bpar nl /\ blines nl' = blines nl /\ b_i2 nl' = b_i2 nl /\ bblank nl' = bblank nl /\
      (forall x, In x (bch nl) -> In x (bch nl'))).
Proof.
  induction lines as [|sg rest IH]; intros h r h' c' r' HH HN Hl Hsrc [nl [El Kl]] HF H; cbn [add_terms] in H.
  - injection H as <- <- <-. csplit; auto. exists nl, nl. csplit; auto.
  - pose proof (Forall_inv HF) as Hsg. pose proof (Forall_inv_tail HF) as Hrest. unfold src_of in H. cbn [s_r] in H. rewrite Hsrc in H.
    bind_inv H sg' Et. destruct (trim_right_term _ _ Hsg Et) as [Hok Hin].
    unfold new_node, halloc in H. cbv beta iota zeta in H. cbn [st_h s_h s_c s_r] in H. bind_inv H h1 Ea.
    set (tn := set_lines (mknode BHTML 101) [sg']) in *. set (t := length h) in *.
    assert (nth_error (h ++ [tn]) t = Some tn) as Et1 by apply nth_app_new.
    rewrite (GM.proofs.TypoDefConservativeBlk.append_childD_core _ _ _ _ Et1 eq_refl) in Ea.
    assert (HI b (h ++ [tn]) c A D N) as HH1.
    { apply (CC HI_alloc); auto; [apply nodeP_term; assumption|discriminate]. }
    pose proof (nth_some_lt _ _ _ El) as Ll.
    assert (nth_error (h ++ [tn]) lst = Some nl) as El1 by (rewrite nth_error_app1 by exact Ll; exact El).
    assert (~ In t (ids (A ++ D ++ N))) as Hni.
    { intros Hi. apply in_ids_inv in Hi. destruct Hi as [bq Hi].
      destruct (os_pair _ _ _ _ _ _ (hi_open _ _ _ _ _ _ _ _ HH) t bq Hi) as [n0 [E0 _]]. apply nth_some_lt in E0. unfold t in E0. lia. }
    assert (t <> 0%nat) as Hn0 by (unfold t; lia).
    subst lst.
    destruct (HI_add_term b (h ++ [tn]) c A D N t tn nl h1 HH1 HN Et1 eq_refl eq_refl Hni Hn0 El1 Kl Ea)
      as [HH2 [Hlen2 [Hoth2 [E2l E2t]]]].
    change (st_h {| s_h := h ++ [tn]; s_c := c; s_r := r |} h1) with {| s_h := h1; s_c := c; s_r := r |} in H.
    destruct (IH h1 r h' c' r' HH2 HN eq_refl Hsrc) as [HH' [Ec [Er [Hlen [Hoth [nl1 [nl' [E1 [E' [K' [P' [L' [I' [B' C']]]]]]]]]]]]]]; auto.
    { eexists. split; [exact E2l|]. exact Kl. }
    assert (nl1 = set_ch nl (bch nl ++ [t])) by congruence. subst nl1.
    csplit; auto.
    + rewrite app_length in Hlen2. cbn [length] in Hlen2. lia.
    + intros j m Ej Hj. apply Hoth; [|exact Hj]. pose proof (nth_some_lt _ _ _ Ej) as Lj. rewrite Hoth2; [| unfold t; lia|exact Hj].
      rewrite nth_error_app1 by exact Lj. exact Ej.
    + exists nl, nl'. csplit; auto. intros x Hx. apply C'. cbn [set_ch bch]. apply in_or_app. left. exact Hx.
Qed.

(* ---------- the b_seg and b_i2 of an opened definition list ---------- *)
Lemma lastchild_hset h x n n1 q y : nth_error h x = Some n -> bch n1 = bch n -> lastchild h q y -> lastchild (hset h x n1) q y.
Proof.
  intros En C [nq [Eq L]]. pose proof (nth_some_lt _ _ _ En) as Ln. destruct (Nat.eq_dec q x) as [->|Hne].
  - assert (nq = n) by congruence. subst nq. exists n1. rewrite nth_hset_eq by exact Ln. split; [reflexivity|congruence].
  - exists nq. rewrite nth_hset_ne by congruence. auto.
Qed.
Lemma child_hset h x n n1 q y : nth_error h x = Some n -> bch n1 = bch n -> child h q y -> child (hset h x n1) q y.
Proof.
  intros En C [nq [Eq L]]. pose proof (nth_some_lt _ _ _ En) as Ln. destruct (Nat.eq_dec q x) as [->|Hne].
  - assert (nq = n) by congruence. subst nq. exists n1. rewrite nth_hset_eq by exact Ln. split; [reflexivity|congruence].
  - exists nq. rewrite nth_hset_ne by congruence. auto.
Qed.

Lemma HI_set_dl b h c A D N x n n1 : HI b h c A D N -> nth_error h x = Some n -> is_dl n = true ->
  bk n1 = bk n -> b_i1 n1 = b_i1 n -> bpar n1 = bpar n -> bch n1 = bch n -> blines n1 = blines n -> 0 <= b_i2 n1 ->
  (b_seg n1 = None \/ (N <> [] /\ x = lastid (ids N))) ->
  HI b (hset h x n1) c A D N.
Proof.
  intros [H1 H2 H3 H4 H5] En Hdl K1 I1 P1 C1 L1 Hi2 Hsg. destruct (is_dl_kind _ Hdl) as [Kb Ki].
  assert (nodeP n1) as Hn1 by (eapply nodeP_dl_data; [exact (hs_node _ _ _ H2 _ _ En)|eassumption..]).
  pose proof (nth_some_lt _ _ _ En) as Ln.
  constructor.
  - apply Bnd_hset; [exact H1|intros E; congruence].
  - eapply heapS_hset_kb; eassumption.
  - eapply Jinv_hset; [exact H3|exact En|]. intros _. left. intros [E|E]; congruence.
  - eapply (openS_trans src h (hset h x n1) c A D N (Some x)); [exact H4| | | | | |].
    + intros y _ m Ey. destruct (Nat.eq_dec y x) as [->|Hne].
      * assert (m = n) by congruence. subst m. exists n1. rewrite nth_hset_eq by exact Ln. csplit; auto. congruence.
      * exists m. rewrite nth_hset_ne by congruence. csplit; auto.
    + intros y m _ Ey. destruct (Nat.eq_dec y x) as [->|Hne].
      * assert (m = n) by congruence. subst m. exists n1. rewrite nth_hset_eq by exact Ln. csplit; auto.
      * exists m. rewrite nth_hset_ne by congruence. csplit; auto.
    + intros q y _ Hl. eapply lastchild_hset; eassumption.
    + intros _ q y t _ Hl. eapply lastchild_hset; eassumption.
    + left. intros q y _ Hq. eapply child_hset; eassumption.
    + intros y n' E Ey Hdl' Hs'. injection E as <-. rewrite nth_hset_eq in Ey by exact Ln. injection Ey as <-.
      destruct Hsg as [Hsg|Hsg]; [congruence|exact Hsg].
  - exact H5.
Qed.

End R2.
