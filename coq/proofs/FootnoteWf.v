(* C05 / C01 / C03 / C04 / C16 for the model of the parser with extension.Footnote
   (model/FootnoteI.v), for EVERY source.
   Proof: the block phase (proofs/FootnoteWfBlk*.v: the invariant of the core block phase is kept by
   the footnote block parser; what the heap holds about Footnote / FootnoteList nodes), the inline
   phase (proofs/FootnoteWfInl*.v: well-formed inline children; proofs/FootnoteWfFs.v: the footnote
   data threaded through the blocks), the AST transformer on the heap (proofs/FootnoteWfHeap.v,
   FootnoteWfSort.v, FootnoteWfXf.v), the tree (proofs/FootnoteWfTree.v), the numbering clause
   (proofs/FootnoteWfNum.v), well-formedness (proofs/FootnoteWfWf.v), totality
   (proofs/FootnoteWfTotBlk*.v, FootnoteWfTotInl*.v, FootnoteWfTotTree.v, FootnoteWfTot.v). *)
Require Import GM.model.Base GM.model.Util GM.model.UtilI GM.model.Reader GM.model.Regex GM.model.HtmlWriter GM.model.Html GM.model.HtmlI GM.model.HtmlSpec
               GM.model.DelimI GM.model.BlockParse GM.model.InlineParse GM.model.ParseI GM.model.FootnoteX
               GM.model.FootnoteParseBlock GM.model.FootnoteParseInline GM.model.FootnoteParse GM.model.FootnoteI.
Require Import GM.gen.Tables GM.gen.Regexes.
Require Import GM.proofs.ParseInv GM.proofs.HtmlConcrete.
Require Import GM.proofs.FootnoteWfDefs GM.proofs.FootnoteWfDefs2 GM.proofs.FootnoteWfBlk GM.proofs.FootnoteWfInl
               GM.proofs.FootnoteWfTree GM.proofs.FootnoteWfNum GM.proofs.FootnoteWfWf
               GM.proofs.FootnoteWfTotBlk GM.proofs.FootnoteWfTotInl GM.proofs.FootnoteWfTot.
From Coq Require Import List ZArith Bool.
Import ListNotations.

(* the white space table regenerated from the code classes the blank and the newline as white space *)
Lemma fw_sp32 : is_space space_table 32%N = true.
Proof. vm_compute. reflexivity. Qed.
Lemma fw_sp10 : is_space space_table 10%N = true.
Proof. vm_compute. reflexivity. Qed.

Lemma ParseBlocksF_final src x : bytes_ok src ->
  parse_blocksF space_table punct_table ToLinkReference
    re_htmlBlockType1Open re_htmlBlockType1Close re_htmlBlockType2Open re_htmlBlockType3Open
    re_htmlBlockType4Open re_htmlBlockType5Open re_htmlBlockType6 re_htmlBlockType7 allowed_block_tags src = Ok x ->
  BlkFinal space_table src x.
Proof. intros Hsrc H. exact (parse_blocksF_final_sp _ _ _ _ _ _ _ _ _ _ _ _ src x fw_sp32 Hsrc H). Qed.

(* C05: every tree the Footnote parser model yields is well formed *)
Theorem ParseTreeFn_wf : forall src t, bytes_ok src -> ParseTreeFn src = Ok t -> wf_tree src t = true.
Proof.
  intros src t Hsrc H. unfold ParseTreeFn in H.
  exact (parse_treeF_wf _ _ _ _ _ _ _ _ _ _ _ _ _ _ _ _ _ _ _ fw_sp32 fw_sp10 src Hsrc
           (fun x Hx => ParseBlocksF_final src x Hsrc Hx) t H).
Qed.

(* C01: the Footnote parser model never panics and never runs out of fuel *)
Theorem ParseTreeFn_total : forall src, bytes_ok src -> exists t, ParseTreeFn src = Ok t.
Proof.
  intros src Hsrc. unfold ParseTreeFn.
  apply (parse_treeF_total _ _ _ _ _ _ _ _ _ _ _ _ _ _ _ _ _ _ _ fw_sp32 src Hsrc (ParseBlocksF_total src Hsrc)).
  - intros x Hx. exact (parse_blocksF_final2_sp _ _ _ _ _ _ _ _ _ _ _ _ src x fw_sp32 Hsrc Hx).
  - intros refs fs lines Hl. exact (InlineChildrenF_total refs fs src lines Hsrc Hl).
Qed.

(* C03 / C04: safe-mode output of the Footnote Convert model is inert, for every source *)
Theorem ConvertModelFn_safe_inert : forall c src o, unsafe c = false -> bytes_ok src -> ConvertModelFn c src = Ok o -> Inert o.
Proof.
  intros c src o Hu Hsrc H. unfold ConvertModelFn in H.
  destruct (ParseTreeFn src) as [t| |] eqn:Et; cbn [bind] in H; try discriminate.
  exact (RenderHTML_safe_inert c src t o Hu (ParseTreeFn_wf src t Hsrc Et) H).
Qed.

(* C01: for every source and every renderer configuration the Footnote Convert model has an output *)
Theorem ConvertModelFn_total : forall c src, bytes_ok src -> exists o, ConvertModelFn c src = Ok o.
Proof.
  intros c src Hsrc. destruct (ParseTreeFn_total src Hsrc) as [t Ht]. unfold ConvertModelFn. rewrite Ht. cbn [bind].
  exact (RenderHTML_total c src t (ParseTreeFn_wf src t Hsrc Ht)).
Qed.

(* C16, the numbering clause: the footnotes of the list are numbered 1, 2, ... in list order,
   and every footnote reference in the tree carries the number of a footnote of the list *)
Fixpoint fn_links (t : tree) {struct t} : list Z :=
  match t with
  | Node k _ _ kids =>
    (match k with KFootnoteLink i _ _ => [i] | _ => [] end) ++
    (fix go (l : list tree) : list Z := match l with [] => [] | x :: r => fn_links x ++ go r end) kids
  end.
Fixpoint fn_items (t : tree) {struct t} : list Z :=
  match t with
  | Node k _ _ kids =>
    match k with
    | KFootnoteList => flat_map (fun x => match x with Node (KFootnote i) _ _ _ => [i] | _ => [] end) kids
    | _ => (fix go (l : list tree) : list Z := match l with [] => [] | x :: r => fn_items x ++ go r end) kids
    end
  end.
Definition numbering_ok (t : tree) : Prop :=
  fn_items t = map Z.of_nat (seq 1 (length (fn_items t))) /\
  Forall (fun i => In i (fn_items t)) (fn_links t).
Theorem ParseTreeFn_numbering : forall src t, bytes_ok src -> ParseTreeFn src = Ok t -> numbering_ok t.
Proof.
  intros src t Hsrc H. unfold ParseTreeFn in H.
  exact (parse_treeF_numbering _ _ _ _ _ _ _ _ _ _ _ _ _ _ _ _ _ _ _ src
           (fun x Hx => ParseBlocksF_final src x Hsrc Hx) t H).
Qed.
