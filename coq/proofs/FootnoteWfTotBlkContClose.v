(* Helper file for FootnoteWfTotBlkCont.v: the Close function of the list parser (tightness and the
   conversion of the paragraphs of a tight list into text blocks) under the state invariant SI. *)
Require Import GM.model.Base GM.model.Util GM.model.Reader GM.model.ReaderSpec GM.model.Blocks GM.model.ListItem
               GM.model.LeafBlocks GM.model.CodeBlock GM.model.LinkDest GM.model.Regex GM.model.BlockParse.
Require Import GM.proofs.ReaderProofs GM.proofs.BlocksProofs GM.proofs.BlockRangeProofs
               GM.proofs.ParseBlocksTotalReader GM.proofs.FootnoteWfTotBlkDefs GM.proofs.FootnoteWfTotBlkSpec
               GM.proofs.FootnoteWfTotBlkSt.
From Coq Require Import ZArith Lia List Bool.
Open Scope Z_scope.

Section S.
Variable space_table : list N.
Variable src : bytes.
Variable lst : option nat.
Hypothesis tbl : TblOK space_table.
Notation SI := (SI space_table src lst).
Notation close_post := (close_post space_table src lst).

(* ---------- the anonymous loops of list_close, named ---------- *)
Definition lc_any (h : heap) :=
  fix any (l : list nat) : result bool :=
    match l with
    | [] => Ok false
    | g :: tl => gn <- hget h g ;; if bblank gn then Ok true else any tl
    end.

Definition lc_tight (h : heap) :=
  fix go (cs : list nat) (first : bool) (tight : bool) : result bool :=
    match cs with
    | [] => Ok tight
    | c :: rest =>
      if negb tight then Ok false
      else
        cn <- hget h c ;;
        inner <- match bch cn with
                 | _ :: ((_ :: _) as others) => lc_any h others
                 | _ => Ok false
                 end ;;
        let tight := if inner then false else tight in
        let tight := if negb first && bblank cn then false else tight in
        go rest false tight
    end.

Definition lc_kids (c : nat) :=
  fix kids (gs : list nat) (s : st) : result st :=
    match gs with
    | [] => Ok s
    | g :: tl =>
      gn <- hget (s_h s) g ;;
      if bkind_eqb (bk gn) BParagraph then
        let '(s, t) := new_node s (set_lines (mknode BTextBlock 0) (blines gn)) in
        h <- replace_child (s_h s) c g t ;;
        kids tl (st_h s h)
      else kids tl s
    end.

Definition lc_items :=
  fix items (cs : list nat) (s : st) : result st :=
    match cs with
    | [] => Ok s
    | c :: rest =>
      cn <- hget (s_h s) c ;;
      s <- lc_kids c (bch cn) s ;;
      items rest s
    end.

Lemma list_close_eq s node :
  list_close s node =
  (n <- hget (s_h s) node ;;
   tight <- lc_tight (s_h s) (bch n) true (b_tight n) ;;
   h <- hupd (s_h s) node (fun m => set_tight m tight) ;;
   let s := st_h s h in
   if negb tight then Ok s else lc_items (bch n) s).
Proof. reflexivity. Qed.

Lemma lc_any_cons h g tl :
  lc_any h (g :: tl) = (gn <- hget h g ;; if bblank gn then Ok true else lc_any h tl).
Proof. reflexivity. Qed.
Lemma lc_tight_cons h c rest first tight :
  lc_tight h (c :: rest) first tight =
  (if negb tight then Ok false
   else
     cn <- hget h c ;;
     inner <- match bch cn with
              | _ :: ((_ :: _) as others) => lc_any h others
              | _ => Ok false
              end ;;
     let tight := if inner then false else tight in
     let tight := if negb first && bblank cn then false else tight in
     lc_tight h rest false tight).
Proof. reflexivity. Qed.
Lemma lc_kids_cons c g tl s :
  lc_kids c (g :: tl) s =
  (gn <- hget (s_h s) g ;;
   if bkind_eqb (bk gn) BParagraph then
     let '(s, t) := new_node s (set_lines (mknode BTextBlock 0) (blines gn)) in
     h <- replace_child (s_h s) c g t ;;
     lc_kids c tl (st_h s h)
   else lc_kids c tl s).
Proof. reflexivity. Qed.
Lemma lc_items_cons c rest s :
  lc_items (c :: rest) s = (cn <- hget (s_h s) c ;; s <- lc_kids c (bch cn) s ;; lc_items rest s).
Proof. reflexivity. Qed.

(* ---------- the tightness loops only read the heap ---------- *)
Lemma lc_any_ok h l : Forall (fun g => (g < length h)%nat) l -> exists b, lc_any h l = Ok b.
Proof.
  induction l as [|g tl IH]; intros HF; [exists false; reflexivity|].
  inversion HF as [|x xs Hg Htl]; subst x xs. rewrite lc_any_cons.
  destruct (hget_lt h g Hg) as [gn [E _]]. rewrite E. cbn [bind].
  destruct (bblank gn); [exists true; reflexivity|exact (IH Htl)].
Qed.

Lemma lc_tight_ok h cs first tight :
  (forall i n, nth_error h i = Some n -> Forall (fun c => (c < length h)%nat) (bch n)) ->
  Forall (fun c => (c < length h)%nat) cs -> exists b, lc_tight h cs first tight = Ok b.
Proof.
  intros Hch. revert first tight. induction cs as [|c rest IH]; intros first tight HF; [exists tight; reflexivity|].
  inversion HF as [|x xs Hc Hrest]; subst x xs. rewrite lc_tight_cons.
  destruct (negb tight); [exists false; reflexivity|].
  destruct (hget_lt h c Hc) as [cn [E En]]. rewrite E. cbn [bind].
  assert (HA : Forall (fun g => (g < length h)%nat) (bch cn)).
  { eapply Forall_impl; [|exact (Hch c cn En)]. cbv beta. intros g Hg. lia. }
  assert (HI : exists inner, match bch cn with
                             | _ :: ((_ :: _) as others) => lc_any h others
                             | _ => Ok false
                             end = Ok inner).
  { destruct (bch cn) as [|g0 [|g1 gs]]; [exists false; reflexivity..|].
    apply lc_any_ok. inversion HA as [|x xs _ HA']; subst x xs. exact HA'. }
  destruct HI as [inner EI]. rewrite EI. cbn [bind]. cbv zeta. apply IH, Hrest.
Qed.

(* ---------- the invariant of the text block loops ---------- *)
(* the current heap h1 relative to the heap h0 at entry; ln is the list node at entry *)
Definition lc_LR (h0 : heap) (ln : bnode) (h1 : heap) : Prop :=
  (length h0 <= length h1)%nat /\
  forall j n0, nth_error h0 j = Some n0 -> exists n1, nth_error h1 j = Some n1 /\ bk n1 = bk n0 /\
    blines n1 = blines n0 /\ (bk n0 = BList -> bch n1 = bch n0) /\
    (bpar n1 = bpar n0 \/
     (bpar n1 = None /\ bk n0 = BParagraph /\ exists c, bpar n0 = Some c /\ In c (bch ln))).

Definition lc_LInv (s0 : st) (ln : bnode) (s1 : st) : Prop :=
  SI s1 /\ s_r s1 = s_r s0 /\ s_c s1 = s_c s0 /\ lc_LR (s_h s0) ln (s_h s1).

(* one paragraph becomes a text block *)
Lemma lc_kid_step s0 ln s1 c g gn : lc_LInv s0 ln s1 -> In c (bch ln) ->
  nth_error (s_h s1) g = Some gn -> bk gn = BParagraph ->
  exists h', replace_child (s_h s1 ++ [set_lines (mknode BTextBlock 0) (blines gn)]) c g (length (s_h s1)) = Ok h' /\
    length h' = S (length (s_h s1)) /\
    lc_LInv s0 ln (st_h (st_h s1 (s_h s1 ++ [set_lines (mknode BTextBlock 0) (blines gn)])) h').
Proof.
  intros (HS & Er & Ec & HL) Hin Hg Kg.
  set (nd := set_lines (mknode BTextBlock 0) (blines gn)).
  assert (Hnok : node_ok space_table src nd) by exact I.
  assert (Hnl : bk nd = BParagraph -> Forall (fun sg => s_stop sg <= s_stop (r_pos (s_r s1))) (blines nd)).
  { intros K. discriminate K. }
  destruct (new_node_ok space_table src lst s1 nd HS eq_refl eq_refl Hnok Hnl) as (HS2 & _ & _).
  unfold new_node, halloc in HS2. cbn [fst] in HS2.
  set (s2 := st_h s1 (s_h s1 ++ [nd])) in *.
  assert (Hgl : (g < length (s_h s1))%nat) by (eapply nth_error_lt, Hg).
  assert (Kg1 : bk gn <> BListItem) by (rewrite Kg; discriminate).
  assert (Kn1 : bk nd <> BListItem) by (cbn; discriminate).
  assert (Hnlst : lst <> Some (length (s_h s1))).
  { intros El. pose proof (hi_lst_valid _ _ _ _ _ (si_h _ _ _ _ HS) El). lia. }
  destruct (replace_child_ok space_table src lst (s_h s1 ++ [nd]) c g (length (s_h s1)) gn nd
              (si_h _ _ _ _ HS2) (nth_error_alloc_old _ _ _ _ Hg) (nth_error_alloc_new _ _) Hgl Hnlst Kg1 Kn1)
    as (h' & E & HSt & Hlen & Hoth & Hall & Hdet & Hsame).
  rewrite app_length in Hlen. cbn [length] in Hlen.
  exists h'. split; [exact E|]. split; [lia|].
  split; [apply (SI_set_h space_table src lst s2 h' HS2 HSt)|].
  cbn [st_h s_h s_c s_r]. split; [exact Er|]. split; [exact Ec|].
  destruct HL as [HL1 HL2].
  split; [lia|].
  intros j n0 Hj. destruct (HL2 j n0 Hj) as (n1 & E1 & K1 & L1 & C1 & P1).
  assert (Hjl : (j < length (s_h s1))%nat) by (eapply nth_error_lt, E1).
  destruct (nth_error_ex_lt h' j ltac:(lia)) as [n3 E3].
  destruct (Hall j n3 E3) as (n2 & E2 & K2 & L2 & _ & _ & P2 & C2).
  rewrite (nth_error_alloc_old _ nd _ _ E1) in E2. injection E2 as <-.
  exists n3. split; [exact E3|]. split; [congruence|]. split; [congruence|].
  split; [intros K; rewrite C2 by congruence; exact (C1 K)|].
  destruct (Nat.eq_dec j g) as [->|Jg].
  - rewrite Hg in E1. injection E1 as <-.
    destruct (opt_nat_eqb (bpar gn) (Some c)) eqn:Eg.
    + assert (Ep : bpar gn = Some c).
      { unfold opt_nat_eqb in Eg. destruct (bpar gn) as [q|]; [|discriminate]. apply Nat.eqb_eq in Eg. congruence. }
      destruct (Hdet Ep) as (on' & Eo & Po). rewrite E3 in Eo. injection Eo as <-.
      right. split; [exact Po|]. split; [congruence|]. exists c. split; [|exact Hin].
      destruct P1 as [P1|(P1 & _)]; congruence.
    + assert (Ep : bpar gn <> Some c).
      { intros Ep. rewrite Ep in Eg. cbn in Eg. rewrite Nat.eqb_refl in Eg. discriminate. }
      rewrite (Hsame Ep) in E3. rewrite (nth_error_alloc_old _ nd _ _ Hg) in E3. injection E3 as <-. exact P1.
  - rewrite (P2 Jg ltac:(lia)). exact P1.
Qed.

Lemma lc_kids_ok s0 ln c : In c (bch ln) ->
  forall gs s1, lc_LInv s0 ln s1 -> Forall (fun g => (g < length (s_h s1))%nat) gs ->
  exists s2, lc_kids c gs s1 = Ok s2 /\ lc_LInv s0 ln s2.
Proof.
  intros Hin. induction gs as [|g tl IH]; intros s1 HI HF; [exists s1; split; [reflexivity|exact HI]|].
  inversion HF as [|x xs Hg Htl]; subst x xs. rewrite lc_kids_cons.
  destruct (hget_lt (s_h s1) g Hg) as [gn [E En]]. rewrite E. cbn [bind].
  destruct (bkind_eqb_spec (bk gn) BParagraph) as [Kg|Kg]; [|exact (IH s1 HI Htl)].
  unfold new_node, halloc. cbn [st_h s_h].
  destruct (lc_kid_step s0 ln s1 c g gn HI Hin En Kg) as (h' & E' & Hlen & HI').
  rewrite E'. cbn [bind]. apply IH; [exact HI'|]. cbn [st_h s_h].
  eapply Forall_impl; [|exact Htl]. cbv beta. intros x Hx. lia.
Qed.

Lemma lc_items_ok s0 ln : forall cs s1, lc_LInv s0 ln s1 ->
  (forall c, In c cs -> In c (bch ln) /\ (c < length (s_h s0))%nat) ->
  exists s2, lc_items cs s1 = Ok s2 /\ lc_LInv s0 ln s2.
Proof.
  induction cs as [|c rest IH]; intros s1 HI Hcs; [exists s1; split; [reflexivity|exact HI]|].
  rewrite lc_items_cons.
  destruct (Hcs c (or_introl eq_refl)) as [Hin Hc].
  pose proof HI as (HS & _ & _ & (HL1 & _)).
  destruct (hget_lt (s_h s1) c ltac:(lia)) as [cn [E En]]. rewrite E. cbn [bind].
  assert (HF : Forall (fun g => (g < length (s_h s1))%nat) (bch cn)).
  { exact (hi_ch_valid _ _ _ _ _ _ (si_h _ _ _ _ HS) En). }
  destruct (lc_kids_ok s0 ln c Hin (bch cn) s1 HI HF) as (s2 & E2 & HI2). rewrite E2. cbn [bind].
  apply IH; [exact HI2|]. intros x Hx. apply Hcs. right. exact Hx.
Qed.

(* ---------- list: Close ---------- *)
Lemma list_close_ok s node n : SI s -> nth_error (s_h s) node = Some n -> bk n = BList ->
  exists s', list_close s node = Ok s' /\ close_post PList node s s'.
Proof.
  intros HS Hn Kn. pose proof (si_h _ _ _ _ HS) as HH.
  assert (Hpost : forall s', lc_LInv s n s' -> close_post PList node s s').
  { intros s' (HS' & Er & Ec & (HL1 & HL2)). unfold close_post. rewrite Ec. csplit; auto.
    - unfold cframe. csplit; reflexivity.
    - split; [exact HL1|]. intros j n0 Hj. destruct (HL2 j n0 Hj) as (n1 & E1 & K1 & L1 & C1 & P1).
      exists n1. csplit; auto.
      destruct P1 as [P1|(_ & K0 & c & Ep & Hin)]; [left; exact P1|right]. split; [exact K0|].
      cbn [close_detach]. exists c, n. auto. }
  rewrite list_close_eq. rewrite (hget_some _ _ _ Hn). cbn [bind].
  assert (Hch : Forall (fun c => (c < length (s_h s))%nat) (bch n)).
  { exact (hi_ch_valid _ _ _ _ _ _ HH Hn). }
  destruct (lc_tight_ok (s_h s) (bch n) true (b_tight n) (fun i x Hx => hi_ch_valid _ _ _ _ _ _ HH Hx) Hch) as [tight ET].
  rewrite ET. cbn [bind]. rewrite (hupd_ok _ _ _ _ Hn). cbn [bind]. cbv zeta.
  set (s1 := st_h s (hset (s_h s) node (set_tight n tight))).
  assert (HI1 : lc_LInv s n s1).
  { split; [|split; [reflexivity|split; [reflexivity|]]].
    - apply (upd_node_ok space_table src lst s node n (set_tight n tight) HS Hn); try reflexivity.
      + unfold node_ok. cbn [set_tight bk]. rewrite Kn. exact I.
      + cbn [set_tight bk]. rewrite Kn. discriminate.
    - unfold s1. cbn [st_h s_h]. split; [rewrite hset_length; lia|].
      intros j n0 Hj. destruct (Nat.eq_dec node j) as [<-|Jn].
      + rewrite hset_same by (eapply nth_error_lt, Hn). rewrite Hn in Hj. injection Hj as <-.
        exists (set_tight n tight). cbn [set_tight bk blines bch bpar]. csplit; auto.
      + rewrite hset_other by exact Jn. exists n0. csplit; auto. }
  destruct (negb tight).
  - exists s1. split; [reflexivity|apply Hpost, HI1].
  - destruct (lc_items_ok s n (bch n) s1 HI1) as (s2 & E2 & HI2).
    + intros c Hc. split; [exact Hc|]. rewrite Forall_forall in Hch. exact (Hch c Hc).
    + exists s2. split; [exact E2|apply Hpost, HI2].
Qed.

End S.
