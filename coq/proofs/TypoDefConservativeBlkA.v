(* C11 for the model with the DefinitionList extension, block phase (helper file 2): what the Open
   functions of the ten default block parsers do to the state: the opened-blocks slice is kept and
   the heap is unchanged (no block opened) or gets exactly one new detached node, which is no node
   of the extension; RequireParagraph is only returned when the last opened block is a paragraph. *)
Require Import GM.model.Base GM.model.Util GM.model.Reader GM.model.Blocks GM.model.ListItem
               GM.model.LeafBlocks GM.model.CodeBlock GM.model.LinkDest GM.model.Regex
               GM.model.BlockParse GM.model.TypoDefParseD.
Require Import GM.proofs.GfmConservativeDefs GM.proofs.ParseBlocksTotalDefs GM.proofs.TypoDefConservativeBlkInv.
From Coq Require Import List ZArith NArith Bool Lia.
Import ListNotations.
Open Scope Z_scope.

Definition open_post (s s' : st) (o : open_res) : Prop :=
  c_arr (s_c s') = c_arr (s_c s) /\ c_len (s_c s') = c_len (s_c s) /\
  match o with
  | None => s_h s' = s_h s
  | Some (node, hc, rp) => exists n, s_h s' = s_h s ++ [n] /\ node = length (s_h s) /\ bpar n = None /\ dnode n /\
      (rp = true -> exists last lp ln, last_opened (s_c s) = Some (last, lp) /\ nth_error (s_h s) last = Some ln /\ bk ln = BParagraph)
  end.

Lemma new_node_inv s n s' id : new_node s n = (s', id) -> s' = st_h s (s_h s ++ [n]) /\ id = length (s_h s).
Proof. unfold new_node, halloc. intros H. injection H as <- <-. auto. Qed.

Ltac peek H :=
  let x := fresh "x" in let E := fresh "E" in
  gc_bind H x E; destruct x as [[? ?] ?]; apply peek_line_s_inv in E; destruct E as [? ->].
Ltac loff H :=
  let x := fresh "x" in let E := fresh "E" in
  gc_bind H x E; destruct x as [? ?]; apply line_offset_s_inv in E; destruct E as [? ->].
Ltac adv H :=
  let x := fresh "x" in let E := fresh "E" in
  gc_bind H x E; apply advance_s_inv in E; destruct E as [? ->].
Ltac newn H :=
  match type of H with
  | context [new_node ?s ?n] =>
    let s2 := fresh "s" in let id := fresh "id" in let E := fresh "E" in
    destruct (new_node s n) as [s2 id] eqn:E; apply new_node_inv in E; destruct E as [-> ->]
  end.
Ltac prj := cbn [s_h s_c s_r st_h st_c st_r c_arr c_len cset_open cset_off cset_refs cset_skip cset_empty cset_fence cset_tmp].
Ltac prjall := cbn [s_h s_c s_r st_h st_c st_r c_arr c_len cset_open cset_off cset_refs cset_skip cset_empty cset_fence cset_tmp] in *.
Ltac op_none H := injection H as <- <-; unfold open_post; prj; auto.
Ltac op_some H :=
  injection H as <- <-; unfold open_post; prj; split; [reflexivity|split; [reflexivity|]];
  eexists; split; [reflexivity|split; [reflexivity|split; [reflexivity|split; [|try (intros HH; discriminate HH)]]]].

Section Open.
Variable space_table : list N.
Variable re_t1o re_t2 re_t3 re_t4 re_t5 re_t6 re_t7 : re.
Variable allowed_tags : list bytes.

Lemma paragraph_open_post s s' o : paragraph_open space_table s = Ok (s', o) -> open_post s s' o.
Proof.
  unfold paragraph_open. intros H. peek H. gc_bind H sg Esg.
  destruct (seg_is_empty sg); [op_none H|].
  newn H. adv H. op_some H. apply dnode_kind. cbn. discriminate.
Qed.

Lemma thematic_open_post s s' o : thematic_open space_table s = Ok (s', o) -> open_post s s' o.
Proof.
  unfold thematic_open. intros H. peek H. loff H.
  destruct (is_thematic_break _ _ _); [|op_none H].
  adv H. newn H. op_some H. apply dnode_kind. cbn. discriminate.
Qed.

Lemma atx_open_s_post s s' o : atx_open_s space_table s = Ok (s', o) -> open_post s s' o.
Proof.
  unfold atx_open_s. intros H. peek H. gc_bind H a Ea.
  destruct a as [[level body]|]; [|op_none H].
  newn H. op_some H. apply dnode_kind. cbn. discriminate.
Qed.

Lemma fenced_open_post s s' o : fenced_open space_table s = Ok (s', o) -> open_post s s' o.
Proof.
  unfold fenced_open. intros H. peek H. gc_bind H a Ea.
  destruct a as [[[[ch indent] flen] info]|]; [|op_none H].
  newn H. op_some H. apply dnode_kind. cbn. discriminate.
Qed.

Lemma code_open_post s s' o : code_open space_table s = Ok (s', o) -> open_post s s' o.
Proof.
  unfold code_open. intros H. gc_bind H x Ex.
  destruct x as [[sg r]|]; [|op_none H].
  newn H. op_some H. apply dnode_kind. cbn. discriminate.
Qed.

Lemma bq_open_post s s' o : bq_open s = Ok (s', o) -> open_post s s' o.
Proof.
  unfold bq_open. intros H. gc_bind H x Ex. destruct x as [r ok].
  destruct ok; [|op_none H].
  newn H. op_some H. apply dnode_kind. cbn. discriminate.
Qed.

Lemma setext_open_post s parent s' o : setext_open space_table s parent = Ok (s', o) -> open_post s s' o.
Proof.
  unfold setext_open. intros H.
  destruct (last_opened (s_c s)) as [[last lp]|] eqn:El; [|op_none H].
  gc_bind H ln Eln. apply hget_inv in Eln.
  destruct (bkind_eqb_spec (bk ln) BParagraph) as [Ek|Ek]; cbn [andb negb] in H; [|op_none H].
  destruct (opt_nat_eqb (bpar ln) (Some parent)); cbn [negb] in H; [|op_none H].
  peek H. gc_bind H mb Emb. destruct mb as [c|]; [|op_none H].
  newn H. op_some H; [apply dnode_kind; cbn; discriminate|].
  intros _. exists last, lp, ln. auto.
Qed.

Lemma list_open_post s parent s' o : list_open space_table s parent = Ok (s', o) -> open_post s s' o.
Proof.
  unfold list_open. intros H. gc_bind H lst Elst.
  match type of H with (if ?b then _ else _) = _ => destruct b end; [op_none H|].
  peek H. destruct (matches_list_item _ _) as [m typ].
  destruct (N.eqb typ 0); [op_none H|].
  match type of H with (if ?b then _ else _) = _ => destruct b end; [op_none H|].
  gc_bind H mk Emk.
  match type of H with context [if -1 <? ?x then _ else _] => destruct (-1 <? x) end;
    newn H; op_some H; apply dnode_kind; cbn; discriminate.
Qed.

Lemma list_item_open_s_post s parent s' o : list_item_open_s space_table s parent = Ok (s', o) -> open_post s s' o.
Proof.
  unfold list_item_open_s. intros H. gc_bind H pn Epn.
  destruct (negb _); [op_none H|].
  gc_bind H offset Eoff. gc_bind H x Ex.
  destruct x as [[[node_offset r] children]|]; [|op_none H].
  newn H. op_some H. apply dnode_kind. cbn. discriminate.
Qed.

Lemma html_open_post s s' o :
  html_open space_table re_t1o re_t2 re_t3 re_t4 re_t5 re_t6 re_t7 allowed_tags s = Ok (s', o) -> open_post s s' o.
Proof.
  unfold html_open. intros H. peek H.
  destruct (c_boff _ <? 0); [op_none H|].
  gc_bind H c Ec. destruct (negb _); [op_none H|].
  gc_bind H lip Elip.
  match type of H with (if ?t =? 0 then _ else _) = _ => assert (Htyp : 0 <= t <= 7); [clear H|set (typ := t) in *] end.
  { repeat first [ match goal with |- context [if ?b then _ else _] => destruct b end
                 | match goal with |- context [match ?b with Some _ => _ | None => _ end] => destruct b end ]; lia. }
  destruct (typ =? 0); [op_none H|].
  adv H. newn H. op_some H. apply dnode_typ; cbn [b_i1 set_lines mknode]; lia.
Qed.

Lemma p_open_post bp s parent s' o :
  p_open space_table re_t1o re_t2 re_t3 re_t4 re_t5 re_t6 re_t7 allowed_tags bp s parent = Ok (s', o) -> open_post s s' o.
Proof.
  destruct bp; cbn [p_open]; intros H.
  - eapply setext_open_post, H.
  - eapply thematic_open_post, H.
  - eapply list_open_post, H.
  - eapply list_item_open_s_post, H.
  - eapply code_open_post, H.
  - eapply atx_open_s_post, H.
  - eapply fenced_open_post, H.
  - eapply bq_open_post, H.
  - eapply html_open_post, H.
  - eapply paragraph_open_post, H.
Qed.
End Open.
