(* Instantiation of the table-parametric theorems with the tables dumped from the running
   code (gen/).  Every fact about a table is discharged by computation over the 256 byte
   values (vm_compute), lifted with byte_forall: these lemmas are re-checked whenever the
   code's tables change. *)
Require Import GM.model.Base GM.model.Util GM.model.HtmlDecode.
Require Import GM.gen.Tables GM.model.UtilI.
Require Import GM.proofs.Finite GM.proofs.EscapeProofs.
From Coq Require Import Lia.
Open Scope N_scope.

Lemma html_escape_table_len : length html_escape_table = 256%nat.
Proof. vm_compute. reflexivity. Qed.

Lemma html_escape_table_std c : esc_entry html_escape_table c = esc_std c.
Proof.
  destruct (N.ltb_spec c 256) as [Hc|Hc].
  - apply obytes_eqb_eq.
    apply (byte_forall (fun c => obytes_eqb (esc_entry html_escape_table c) (esc_std c))); [|exact Hc].
    vm_compute. reflexivity.
  - unfold esc_entry. rewrite tbl_overflow by (auto using html_escape_table_len).
    unfold esc_std.
    destruct (N.eqb_spec c 34); [lia|]. destruct (N.eqb_spec c 38); [lia|].
    destruct (N.eqb_spec c 60); [lia|]. destruct (N.eqb_spec c 62); [lia|]. reflexivity.
Qed.



Theorem EscapeHTML_out v : EscOut (EscapeHTML v).
Proof. apply escape_html_out, html_escape_table_std. Qed.

Theorem EscapeHTML_no_raw v : Forall (fun b => b <> 60 /\ b <> 62 /\ b <> 34) (EscapeHTML v).
Proof. apply escape_html_no_raw, html_escape_table_std. Qed.

Theorem EscapeHTML_roundtrip v : html_decode (EscapeHTML v) = v.
Proof. apply html_decode_escape, html_escape_table_std. Qed.
