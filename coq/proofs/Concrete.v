(* Instantiation of the table-parametric theorems with the tables dumped from the running
   code (gen/).  Every fact about a table is discharged by computation over the 256 byte
   values (vm_compute), lifted with byte_forall: these lemmas are re-checked whenever the
   code's tables change. *)
Require Import GM.model.Base GM.model.Util GM.model.HtmlDecode.
Require Import GM.gen.Tables GM.model.UtilI.
Require Import GM.model.UrlSpec.
Require Import GM.proofs.Finite GM.proofs.EscapeProofs GM.proofs.UrlProofs.
From Coq Require Import Lia.
Open Scope N_scope.

Lemma html_escape_table_len : length html_escape_table = 256%nat.
Proof. vm_compute. reflexivity. Qed.

Lemma html_escape_table_std c : esc_entry html_escape_table c = esc_std c.
Proof.
  destruct (N.ltb_spec c 256) as [Hc|Hc].
  - apply obytes_eqb_eq.
    apply (byte_forall (fun c => obytes_eqb (esc_entry html_escape_table c) (esc_std c))); [|exact Hc].
    vm_compute. reflexivity.
  - unfold esc_entry. rewrite tbl_overflow by (auto using html_escape_table_len).
    unfold esc_std.
    destruct (N.eqb_spec c 34); [lia|]. destruct (N.eqb_spec c 38); [lia|].
    destruct (N.eqb_spec c 60); [lia|]. destruct (N.eqb_spec c 62); [lia|]. reflexivity.
Qed.



Theorem EscapeHTML_out v : EscOut (EscapeHTML v).
Proof. apply escape_html_out, html_escape_table_std. Qed.

Theorem EscapeHTML_no_raw v : Forall (fun b => b <> 60 /\ b <> 62 /\ b <> 34) (EscapeHTML v).
Proof. apply escape_html_no_raw, html_escape_table_std. Qed.

Theorem EscapeHTML_roundtrip v : html_decode (EscapeHTML v) = v.
Proof. apply html_decode_escape, html_escape_table_std. Qed.

(* ---- URLEscape (escaping stage) on the real tables ---- *)
Lemma real_url_tables_ok : url_tables_ok url_escape_table utf8len_table = true.
Proof. vm_compute. reflexivity. Qed.
Lemma real_plus_safe : url_safe url_escape_table 43 = true.
Proof. vm_compute. reflexivity. Qed.

Definition all_bytes (v : bytes) : Prop := Forall (fun c => c < 256) v.

Theorem URLEscape_alphabet v : all_bytes v -> forallb url_byte_ok (URLEscapeRaw v) = true.
Proof. apply url_escape_alphabet, real_url_tables_ok. Qed.
Theorem URLEscape_percent v : all_bytes v -> percent_ok (URLEscapeRaw v) = true.
Proof. apply url_escape_percent, real_url_tables_ok. Qed.
Theorem URLEscape_idempotent v : all_bytes v -> URLEscapeRaw (URLEscapeRaw v) = URLEscapeRaw v.
Proof. apply url_escape_idempotent; [apply real_url_tables_ok | apply real_plus_safe]. Qed.
Theorem URLEscape_ascii v : all_bytes v -> valid_utf8 v = true -> Forall (fun b => b < 128) (URLEscapeRaw v).
Proof. apply url_escape_ascii, real_url_tables_ok. Qed.
Theorem URLEscape_keeps_triple f total h1 h2 rest :
  is_hex h1 = true -> is_hex h2 = true ->
  url_escape_loop url_escape_table utf8len_table (S f) total (37 :: h1 :: h2 :: rest)
  = 37 :: h1 :: h2 :: url_escape_loop url_escape_table utf8len_table f total rest.
Proof. apply url_escape_keeps_triple, real_url_tables_ok. Qed.
Theorem URLEscape_out v : all_bytes v ->
  UOut url_escape_table utf8len_table (URLEscapeRaw v) \/ (exists c, v = [c] /\ 128 <= c /\ URLEscapeRaw v = [c]).
Proof. apply url_escape_out; [apply real_url_tables_ok | apply real_plus_safe]. Qed.

(* ---- text-level HTML writers on the real tables ---- *)
Require Import GM.model.HtmlWriter GM.proofs.HtmlWriterProofs GM.gen.Entities.

Lemma real_entities_bytes : Forall (fun e => Forall (fun c => c < 256) (snd e)) entities.
Proof.
  assert (H : forallb (fun e => forallb (fun c => c <? 256) (snd e)) entities = true) by (vm_compute; reflexivity).
  rewrite forallb_forall in H. apply Forall_forall. intros e He. specialize (H e He).
  rewrite forallb_forall in H. apply Forall_forall. intros c Hc. specialize (H c Hc). apply N.ltb_lt. exact H.
Qed.

Theorem WriterWrite_out es v : all_bytes v -> EscOut (WriterWrite es v).
Proof. apply (writer_write_out html_escape_table punct_table entities html_escape_table_std). Qed.
Theorem RawWrite_out v : EscOut (RawWrite v).
Proof. apply (raw_write_out html_escape_table html_escape_table_std). Qed.
Theorem RenderAttributes_out filter attrs :
  Forall (fun a => attr_name_ok (a_name a) = true) attrs -> AttrsOut (RenderAttributes filter attrs).
Proof. apply (render_attributes_out html_escape_table html_escape_table_std). Qed.
Theorem UrlValue_safe dest resolve : all_bytes dest -> browser_dangerous (UrlValue false dest resolve) = false.
Proof.
  apply (url_value_safe html_escape_table punct_table entities url_escape_table utf8len_table
           html_escape_table_std real_url_tables_ok real_entities_bytes).
Qed.
