(* Totality of the block phase of the heading-options model, part OpsCG (bridge): the child-list frames
   (bch_frame) of the UNFORKED core functions p_close / transform_paragraph under the core invariant
   ParseBlocksTotalDefs.SI.  They are read off the lemmas of the GFM fork (GfmWfTotBlk{Close,Transform}.v),
   which are about the same functions under the weaker invariant GfmWfTotBlkDefs.SI (core SI implies it). *)
Require Import GM.model.Base GM.model.Util GM.model.Reader GM.model.ReaderSpec GM.model.Blocks GM.model.ListItem
               GM.model.LeafBlocks GM.model.CodeBlock GM.model.LinkDest GM.model.Regex GM.model.BlockParse.
Require Import GM.proofs.ReaderProofs GM.proofs.BlocksProofs
               GM.proofs.ParseBlocksTotalReader GM.proofs.ParseBlocksTotalDefs GM.proofs.ParseBlocksTotalSpec.
Require GM.proofs.GfmWfTotBlkDefs GM.proofs.GfmWfTotBlkSpec GM.proofs.GfmWfTotBlkClose GM.proofs.GfmWfTotBlkTransform.
From Coq Require Import ZArith Lia List Bool.
Open Scope Z_scope.

(* how a closing step changes the child lists of the old nodes (as GfmWfTotBlkSpec.v) *)
Definition bch_frame (T : nat -> bnode -> bnode -> Prop) (h h' : heap) : Prop :=
  forall j n n', nth_error h j = Some n -> nth_error h' j = Some n' -> bch n' = bch n \/ T j n n'.
Definition close_bch (bp : bparser) (node : nat) (s : st) (j : nat) (n n' : bnode) : Prop :=
  match bp with
  | PSetext => exists tmp, c_tmp_para (s_c s) = Some tmp /\ bch n' = remove_id tmp (bch n)
  | PList => exists ln, nth_error (s_h s) node = Some ln /\ In j (bch ln)
  | _ => False
  end.

Lemma bch_frame_refl T h : bch_frame T h h.
Proof. intros j n n' H H'. left. congruence. Qed.
Lemma bch_frame_weaken (T T' : nat -> bnode -> bnode -> Prop) h h' :
  bch_frame T h h' -> (forall j n n', T j n n' -> T' j n n') -> bch_frame T' h h'.
Proof. intros H HT j n n' Hj Hj'. destruct (H j n n' Hj Hj') as [A|A]; [left; exact A|right; apply HT, A]. Qed.

Section S.
Variable space_table punct_table : list N.
Variable norm : bytes -> bytes.
Variable re_t1o re_t1c re_t2 re_t3 re_t4 re_t5 re_t6 re_t7 : re.
Variable allowed_tags : list bytes.
Variable src : bytes.
Hypothesis tbl : TblOK space_table.
Notation SI := (SI space_table src).
Notation GSI := (GfmWfTotBlkDefs.SI space_table src).

Lemma para_lines_gfm ls : para_lines space_table src ls -> GfmWfTotBlkDefs.para_lines space_table src ls.
Proof. intros H. exact H. Qed.

Lemma node_ok_gfm n : node_ok space_table src n -> GfmWfTotBlkDefs.node_ok space_table src n.
Proof.
  unfold node_ok, GfmWfTotBlkDefs.node_ok. cbv zeta. destruct (bk n); try (intros H; exact H).
  intros (Hne & (Hall & _) & _). split; [|intros E; contradiction].
  eapply Forall_impl; [|exact Hall]. intros sg (A & B & C & _). unfold GfmWfTotBlkDefs.seg_rng. lia.
Qed.

Lemma SI_gfm s : SI s -> GSI s.
Proof.
  intros [S1 S2 [H1 H2 H3 H4 H5 H6 H7] [C1 C2 C3 C4] S5]. constructor; auto.
  - constructor; auto. intros i n Hn. apply node_ok_gfm. eapply H4, Hn.
  - constructor; auto.
Qed.

(* the temporary paragraph of the context has lines *)
Lemma tmp_has_lines s t tn : SI s -> c_tmp_para (s_c s) = Some t -> nth_error (s_h s) t = Some tn -> blines tn <> [].
Proof.
  intros HS Ht Htn. destruct (ci_tmp _ _ (si_c _ _ _ HS) t Ht) as [n [Hn Hk]]. rewrite Htn in Hn. injection Hn as <-.
  pose proof (hi_ok _ _ _ (si_h _ _ _ HS) t tn Htn) as Hok. unfold node_ok in Hok. rewrite Hk in Hok. apply Hok.
Qed.

Lemma p_close_bch bp s node n s' : SI s -> nth_error (s_h s) node = Some n -> bk n = kind_of_parser bp ->
  bpar n <> None ->
  (bp = PFenced -> c_fence (s_c s) <> None) ->
  (bp = PSetext -> blines n <> [] /\ c_tmp_para (s_c s) <> None) ->
  p_close space_table bp s node = Ok s' ->
  bch_frame (close_bch bp node s) (s_h s) (s_h s').
Proof.
  intros HS Hn Hk Hp Hf Hsx E.
  destruct (GfmWfTotBlkClose.p_close_ok space_table punct_table norm re_t1o re_t1c re_t2 re_t3 re_t4 re_t5 re_t6 re_t7
              allowed_tags src tbl bp s node n (SI_gfm s HS) Hn Hk Hp Hf Hsx) as [s2 (E2 & P2)].
  { intros _ t tn Ht Htn. eapply tmp_has_lines; eassumption. }
  rewrite E in E2. injection E2 as <-.
  destruct P2 as (_ & _ & _ & _ & _ & _ & _ & B). exact B.
Qed.

Lemma transform_bch s node n s' gone : SI s -> nth_error (s_h s) node = Some n -> bk n = BParagraph -> bpar n <> None ->
  transform_paragraph space_table punct_table norm s node = Ok (s', gone) ->
  bch_frame (fun j _ _ => exists nn, nth_error (s_h s) node = Some nn /\ bpar nn = Some j) (s_h s) (s_h s').
Proof.
  intros HS Hn Hk Hp E.
  destruct (GfmWfTotBlkTransform.transform_paragraph_ok space_table punct_table norm src tbl s node n (SI_gfm s HS) Hn Hk Hp)
    as [s2 [g2 (E2 & P2 & _)]].
  { pose proof (hi_ok _ _ _ (si_h _ _ _ HS) node n Hn) as Hok. unfold node_ok in Hok. rewrite Hk in Hok. exact Hok. }
  rewrite E in E2. injection E2 as <- <-.
  destruct P2 as (_ & _ & _ & _ & _ & _ & _ & _ & _ & _ & B). exact B.
Qed.

End S.
