(* C02: goldmark's classification of a delimiter run is the specification's (left-/right-
   flanking, can open / can close), and the four situations the SpecDoc printer puts a
   delimiter run in each force a single reading. *)
Require Import GM.model.Base GM.model.Util GM.model.ListItem GM.model.LeafBlocks GM.model.Delim.
From Coq Require Import ZArith Lia.
Open Scope N_scope.

Section WithClasses.
Variable punct_rune space_rune : N -> bool.
Variable is_delim : N -> bool.
Notation scan := (scan_delimiter punct_rune space_rune is_delim).

(* whatever the run and the context, what ScanDelimiter answers is the specification's
   can-open / can-close of the classes of the two neighbouring characters *)
Theorem scan_delimiter_is_spec line before minimum co cc len ch after :
  scan line before minimum = Ok (Some (co, cc, len, ch)) ->
  (if (len =? zlen line)%Z then Ok 32 else to_rune line len) = Ok after ->
  co = can_open (ch =? 95) (space_rune before) (punct_rune before) (space_rune after) (punct_rune after) /\
  cc = can_close (ch =? 95) (space_rune before) (punct_rune before) (space_rune after) (punct_rune after) /\
  len = count_byte ch line.
Proof.
  unfold scan_delimiter. destruct line as [|c rest]; [discriminate|].
  destruct (is_delim c); cbn [negb]; [|discriminate].
  remember (count_byte c (c :: rest)) as j eqn:Ej.
  destruct (j <? minimum)%Z; [discriminate|].
  intros H Ha.
  destruct (if (j =? zlen (c :: rest))%Z then Ok 32 else to_rune (c :: rest) j) as [a| |] eqn:E;
    cbn in H; try discriminate.
  destruct (c =? 95) eqn:Ec; injection H as <- <- <- <-;
    rewrite E in Ha; injection Ha as <-; rewrite Ec;
    unfold can_open, can_close, left_flanking, right_flanking; repeat split; try reflexivity; exact Ej.
Qed.

(* the four situations of a generated delimiter run *)
(* 1. preceded by white space, followed by anything but white space: opens, cannot close *)
Theorem after_space_opens_only u bp aw ap : aw = false ->
  can_open u true bp aw ap = true /\ can_close u true bp aw ap = false.
Proof. intros ->. destruct u, bp, ap; split; reflexivity. Qed.
(* 2. followed by white space, preceded by anything but white space: closes, cannot open *)
Theorem before_space_closes_only u bw bp ap : bw = false ->
  can_close u bw bp true ap = true /\ can_open u bw bp true ap = false.
Proof. intros ->. destruct u, bp, ap; split; reflexivity. Qed.
(* 3. preceded by punctuation (an outer delimiter, a bracket), followed by a letter: opens only *)
Theorem punct_then_letter_opens_only u : 
  can_open u false true false false = true /\ can_close u false true false false = false.
Proof. destruct u; split; reflexivity. Qed.
(* 4. preceded by a letter, followed by punctuation: closes only *)
Theorem letter_then_punct_closes_only u :
  can_close u false false false true = true /\ can_open u false false false true = false.
Proof. destruct u; split; reflexivity. Qed.
(* and the situation the generator avoids: punctuation on both sides is ambiguous for '*' *)
Theorem punct_both_sides_is_both : can_open false false true false true = true /\ can_close false false true false true = true.
Proof. split; reflexivity. Qed.
(* an intraword underscore neither opens nor closes *)
Theorem intraword_underscore_inert : can_open true false false false false = false /\ can_close true false false false false = false.
Proof. split; reflexivity. Qed.
End WithClasses.
