(* Conservativity of the Footnote extension, inline phase: when the footnote state has no
   definition list (fs_defs = None) the inline phase with the footnote inline parser
   (model/FootnoteParseInline.v) is the inline phase of the default parser (model/InlineParse.v)
   and leaves the footnote state alone.

   The footnote inline parser is tried before the link parser on '!' and '['.  Without a
   FootnoteList it never makes a node, but it reads a value from the block reader and advances
   it before it looks for the list: that it does not fail needs the reader invariant of the
   inline phase (ParseInlineRangeReader.RI), and that the following SetPosition gives the link
   parser the reader it has in the default parser needs that the reader of the call carries no
   line offset (FootnoteConservativeInlRd.v).  The invariant is carried through scan_line and
   parse_block_loop as in ParseInlineRangeParsers.v (st_ok, pok, scan_inv). *)
Require Import GM.model.Base GM.model.Util GM.model.Reader GM.model.ReaderSpec GM.model.Blocks GM.model.ListItem
               GM.model.LeafBlocks GM.model.CodeSpan GM.model.LinkDest GM.model.Regex GM.model.Delim GM.model.HtmlWriter
               GM.model.Html GM.model.HtmlSpec GM.model.BlockParse GM.model.InlineParse
               GM.model.FootnoteX GM.model.FootnoteParseBlock GM.model.FootnoteParseInline.
Require Import GM.proofs.BReaderProofs GM.proofs.BlockRangeProofs GM.proofs.RegexProofs GM.proofs.ParseInv.
Require Import GM.proofs.ParseInlineRangeHeap GM.proofs.ParseInlineRangeReader GM.proofs.ParseInlineRangeParsers.
Require Import GM.proofs.FootnoteConservativeInlRd.
Require GM.model.InlineParseX GM.proofs.GfmConservativeDefs GM.proofs.GfmConservativeInl GM.proofs.ParseInlineRange.
From Coq Require Import ZArith NArith Lia List Bool.
Import ListNotations.
Open Scope Z_scope.

(* goals of the shape  X = C  where X and C start with the same bind *)
Ltac fstep x E :=
  match goal with
  | |- bind ?e _ = _ => destruct e as [x| |] eqn:E; cbn [bind]; [|reflexivity|reflexivity]
  end.

(* ---------- the tree: no node of the core heap stands for a FootnoteLink ---------- *)
Lemma itreeF_core src h links : GfmConservativeDefs.gheap h -> forall fuel i, itreeF fuel src h links i = itree fuel src h i.
Proof.
  intros Hg. induction fuel as [|f IH]; intros i; cbn [itreeF itree]; [reflexivity|].
  destruct (iget h i) as [n| |] eqn:En; cbn [bind]; try reflexivity.
  assert (Hk : GfmConservativeDefs.gk (ik n)).
  { unfold iget in En. destruct (nth_error h i) as [m|] eqn:Em; [|discriminate]. inversion En; subst m.
    unfold GfmConservativeDefs.gheap in Hg. rewrite Forall_forall in Hg. apply Hg. eapply nth_error_In. exact Em. }
  assert (Hm : map_res (itreeF f src h links) (ich n) = map_res (itree f src h) (ich n)).
  { generalize (ich n). induction l as [|x r IHl]; cbn [map_res]; [reflexivity|]. rewrite IH, IHl. reflexivity. }
  rewrite Hm. destruct (map_res (itree f src h) (ich n)) as [kids| |]; cbn [bind]; try reflexivity.
  destruct (ik n); try reflexivity.
  cbn [GfmConservativeDefs.gk] in Hk. destruct (Z.leb_spec level (-3)) as [E|_]; [lia|reflexivity].
Qed.

Section Inl.
Variable space_table punct_table : list N.
Variable norm : bytes -> bytes.
Variable url_table email_table : list N.
Variable re_email_domain re_open_tag re_close_tag : re.
Variable punct_rune space_rune : N -> bool.
Variable refs : list (bytes * (bytes * option bytes)).
Variable src : bytes.
Hypothesis Hsp32 : is_space space_table 32 = true.
Hypothesis Hsp10 : is_space space_table 10 = true.
Hypothesis Hsrc : bytes_ok src.
Hypothesis Hrefs : refs_ok refs.
Variable fs : fstate.
Hypothesis Hfs : fs_defs fs = None.

Notation IP := (ip_parse space_table punct_table norm url_table email_table re_email_domain re_open_tag re_close_tag
                  punct_rune space_rune refs).
Notation TRY := (try_inline space_table punct_table norm url_table email_table re_email_domain re_open_tag re_close_tag
                  punct_rune space_rune refs).
Notation SCAN := (scan_line space_table punct_table norm url_table email_table re_email_domain re_open_tag re_close_tag
                  punct_rune space_rune refs).
Notation LOOP := (parse_block_loop space_table punct_table norm url_table email_table re_email_domain re_open_tag re_close_tag
                  punct_rune space_rune refs).
Notation PB := (parse_block space_table punct_table norm url_table email_table re_email_domain re_open_tag re_close_tag
                  punct_rune space_rune refs).
Notation IPF := (ip_parseF space_table punct_table norm url_table email_table re_email_domain re_open_tag re_close_tag
                  punct_rune space_rune refs).
Notation TRYF := (try_inlineF space_table punct_table norm url_table email_table re_email_domain re_open_tag re_close_tag
                  punct_rune space_rune refs).
Notation SCANF := (scan_lineF space_table punct_table norm url_table email_table re_email_domain re_open_tag re_close_tag
                  punct_rune space_rune refs).
Notation LOOPF := (parse_block_loopF space_table punct_table norm url_table email_table re_email_domain re_open_tag re_close_tag
                  punct_rune space_rune refs).
Notation PBF := (parse_blockF space_table punct_table norm url_table email_table re_email_domain re_open_tag re_close_tag
                  punct_rune space_rune refs).
Notation liftF := (liftF fs).

Ltac fold_lift :=
  repeat match goal with
  | |- context [fist_s (FootnoteConservativeInlRd.liftF fs ?a) ?b] =>
      change (fist_s (FootnoteConservativeInlRd.liftF fs a) b) with (FootnoteConservativeInlRd.liftF fs b)
  end; cbn [fi_s FootnoteConservativeInlRd.liftF].

Definition liftres (y : ist * option nat) : fist * option nat := (liftF (fst y), snd y).

(* ---------- the parser table ---------- *)
Lemma inline_parsersF_spec c :
  inline_parsersF c = map FIn (inline_parsers c) \/
  (inline_parsersF c = FFn :: map FIn (inline_parsers c) /\ inline_parsers c = [IPLink]).
Proof.
  unfold inline_parsersF, inline_parsers.
  destruct (N.eqb_spec c 33) as [->|_]; [right; split; reflexivity|].
  destruct (N.eqb_spec c 91) as [->|_]; [right; split; reflexivity|].
  left. reflexivity.
Qed.

(* the default parsers do not see the footnote state *)
Lemma try_inlineF_in : forall ips s parent sl sp,
  TRYF (map FIn ips) (liftF s) parent sl sp = (y <- TRY ips s parent sl sp ;; Ok (liftres y)).
Proof.
  induction ips as [|p rest IH]; intros s parent sl sp; cbn [map try_inlineF try_inline ip_parseF]; [reflexivity|].
  cbn [fi_s FootnoteConservativeInlRd.liftF].
  destruct (IP p s parent) as [[s1 n1]| |]; cbn [bind]; [|reflexivity|reflexivity].
  cbn [fst snd]. destruct n1 as [n1|]; [reflexivity|].
  cbn [fi_s fi_f fist_s FootnoteConservativeInlRd.liftF].
  fstep r1 Er1. apply IH.
Qed.

Section Lines.
Variable lines : list seg.
Notation RI := (RI src lines).
Notation st_ok := (st_ok src lines).
Notation scan_inv := (scan_inv lines).

(* the footnote parser in front: nothing happens *)
Lemma try_inlineF_fn ips s parent : RI (t_r s) -> b_loff (t_r s) = -1 -> b_line (t_r s) < zlen lines ->
  TRYF (FFn :: map FIn ips) (liftF s) parent (b_line (t_r s)) (b_pos (t_r s)) =
  TRYF (map FIn ips) (liftF s) parent (b_line (t_r s)) (b_pos (t_r s)).
Proof.
  intros Hr Hl Hlt. cbn [try_inlineF ip_parseF].
  destruct (footnote_parse_none src lines punct_table fs Hfs s parent Hr) as (r' & E & Hr').
  rewrite E. cbn [bind fi_s fi_f fist_s FootnoteConservativeInlRd.liftF t_r ist_r].
  rewrite (ri_set_position_back src lines r' (t_r s) Hr' Hr Hl Hlt). cbn [bind].
  destruct s as [c r]. reflexivity.
Qed.

Definition lift_scan (y : (ist * bool) + (ist * Z * seg)) : (fist * bool) + (fist * Z * seg) :=
  match y with inl (s, e) => inl (liftF s, e) | inr (s, n, sp) => inr (liftF s, n, sp) end.

(* ---------- scan_line ---------- *)
Lemma scan_lineF_core : forall fuel line i line_length n escaped start_pos s parent l0 L,
  st_ok s L -> pok (i_h (t_c s)) parent -> scan_inv line l0 i n start_pos s ->
  SCANF fuel line i line_length n escaped start_pos (liftF s) parent =
  (y <- SCAN fuel line i line_length n escaped start_pos s parent ;; Ok (lift_scan y)).
Proof.
  induction fuel as [|f IH]; intros line i line_length n escaped start_pos s parent l0 L Hs Hpar Hinv;
    cbn [scan_lineF scan_line]; [reflexivity|].
  destruct (line_length <=? i); [reflexivity|].
  destruct (zskip i line) as [|c tl] eqn:Ez; [reflexivity|].
  destruct (N.eqb c 10); [reflexivity|].
  assert (Hi : i < zlen line).
  { pose proof (zlen_zskip i line) as Hz. rewrite Ez, zlen_cons in Hz. pose proof (zlen_nonneg tl). destruct Hinv. lia. }
  cbv zeta.
  set (isspace := is_space space_table c && negb (N.eqb c 13) && negb false).
  set (consult := is_punct punct_table c && negb escaped || isspace || (i =? 0)).
  set (pchar := if isspace || (i =? 0) && negb (is_punct punct_table c) then 32%N else c).
  set (cips := if consult then inline_parsers pchar else []).
  remember (if consult then inline_parsersF pchar else []) as fips eqn:Efips.
  assert (Hips : fips = map FIn cips \/ (fips = FFn :: map FIn cips /\ cips = [IPLink])).
  { subst fips cips. destruct consult; [apply inline_parsersF_spec|left; reflexivity]. }
  clear Efips.
  set (RX := match fips with [] => _ | _ :: _ => _ end).
  set (R := match cips with [] => _ | _ :: _ => _ end).
  assert (HR : RX = (r <- R ;; Ok (match r with inl s1 => inl (liftF s1) | inr (s1, n1, sp1) => inr (liftF s1, n1, sp1) end)) /\
               (forall r, R = Ok r ->
                  match r with
                  | inl _ => True
                  | inr (s', n', sp') => exists L', st_ok s' L' /\ kle (i_h (t_c s)) (i_h (t_c s')) /\ scan_inv line l0 i n' sp' s'
                  end)).
  { subst RX R. destruct cips as [|ip0 ips0] eqn:Ecips.
    { assert (fips = []) by (destruct Hips as [->|[_ E]]; [reflexivity|discriminate E]). subst fips.
      cbn [bind]. split; [reflexivity|]. intros r E. inversion E; subst r.
      exists L. split; [exact Hs|]. split; [apply kle_refl|exact Hinv]. }
    assert (Hne : fips <> []) by (destruct Hips as [->|[-> _]]; discriminate).
    destruct fips as [|fp0 fps0] eqn:Efips; [congruence|]. clear Hne. rewrite <- Efips in Hips |- *. clear Efips fp0 fps0.
    cbn [fi_s FootnoteConservativeInlRd.liftF].
    destruct Hs as [Hc Hrd]. destruct Hinv as [I1 I2 I3 I4 I5 I6 I7].
    destruct (b_advance (t_r s) n) as [rd| |] eqn:Ea; cbn [bind]; [|split; [reflexivity|discriminate]|split; [reflexivity|discriminate]].
    assert (Hfast : b_line rd = b_line (t_r s) /\ s_start (b_pos rd) = s_start (b_pos (t_r s)) + n /\
                    s_stop (b_pos rd) = s_stop (b_pos (t_r s))).
    { eapply ri_advance_fast; [exact Hrd| |exact Ea]. lia. }
    destruct Hfast as (Fl & Fs & Fe).
    assert (Hin : b_in_range (t_r s) = true) by (apply (ri_in_range_intro space_table norm src lines Hsp32 Hsp10); [exact Hrd|lia|lia]).
    destruct (ri_advance_in src lines (t_r s) n rd Hrd Hin) as [Hrd1 _]; [lia|exact Ea|].
    pose proof (b_advance_loff _ _ _ Ea) as Hloff.
    cbn [ist_r t_c t_r].
    (* flushing the pending text *)
    match goal with |- (bind ?X _ = _) /\ _ => destruct X as [[s1 sp1]| |] eqn:Et end; cbn [bind];
      [|split; [reflexivity|discriminate]|split; [reflexivity|discriminate]].
    assert (Ht : exists L1, st_ok s1 L1 /\ kle (i_h (t_c s)) (i_h (t_c s1)) /\ t_r s1 = rd /\
                 0 <= s_start sp1 <= s_start (b_pos rd) /\ s_pad sp1 = 0).
    { destruct (negb (i =? 0)).
      - destruct (seg_between start_pos (b_pos rd)) as [bt| |] eqn:Eb; cbn [bind] in Et; try discriminate.
        destruct (merge_or_append (t_c s) parent bt) as [c'| |] eqn:Em; cbn [bind] in Et; try discriminate.
        inversion Et; subst s1 sp1. clear Et.
        assert (Hbt : seg_in src bt = true).
        { unfold seg_between in Eb. destruct (s_stop start_pos =? s_stop (b_pos rd)); [|discriminate Eb]. inversion Eb; subst bt.
          pose proof (ri_bounds _ _ _ Hrd1). apply seg_in_intro; cbn [mksegp s_start s_stop s_pad]; try lia.
          rewrite I7, (ri_pad _ _ _ Hrd1). lia. }
        destruct (nstep_neutral src _ _ (fun Hh => merge_or_append_ok src _ _ _ _ Em Hh Hbt) [] L Hc) as [Hc' Hk'].
        exists L. split; [split; [exact Hc'|exact Hrd1]|]. split; [exact Hk'|]. split; [reflexivity|].
        split; [pose proof (ri_bounds _ _ _ Hrd1); lia|exact (ri_pad _ _ _ Hrd1)].
      - inversion Et; subst s1 sp1. exists L. split; [split; [exact Hc|exact Hrd1]|]. split; [apply kle_refl|].
        split; [reflexivity|]. split; [lia|exact I7]. }
    destruct Ht as (L1 & Hs1 & Hk1 & Er1 & Hsp1 & Hpad1).
    change (fist_s (liftF s) s1) with (liftF s1).
    assert (Htry : TRYF fips (liftF s1) parent (b_line rd) (b_pos rd) =
                   (y <- TRY (ip0 :: ips0) s1 parent (b_line rd) (b_pos rd) ;; Ok (liftres y))).
    { destruct Hips as [->|[-> _]]; [apply try_inlineF_in|].
      rewrite <- Er1. rewrite try_inlineF_fn; [apply try_inlineF_in|rewrite Er1; exact Hrd1|rewrite Er1; exact Hloff|rewrite Er1; lia]. }
    rewrite Htry. clear Htry.
    destruct (TRY (ip0 :: ips0) s1 parent (b_line rd) (b_pos rd)) as [[s2 node]| |] eqn:Etry; cbn [bind];
      [|split; [reflexivity|discriminate]|split; [reflexivity|discriminate]].
    unfold liftres. cbn [fst snd fi_s fi_f fist_s FootnoteConservativeInlRd.liftF].
    destruct (try_inline_ok space_table punct_table norm url_table email_table re_email_domain re_open_tag re_close_tag
                punct_rune space_rune refs src lines Hsp32 Hsp10 Hsrc Hrefs
                rd Hrd1 _ _ _ _ _ L1 Hs1 ltac:(rewrite Er1; reflexivity) ltac:(rewrite Er1; reflexivity) Etry)
      as [(L2 & Hs2 & Hk2 & Hres2) Hpos2].
    destruct node as [nd|].
    - destruct (i_append (i_h (t_c s2)) parent nd) as [h| |] eqn:Eap; cbn [bind];
        [|split; [reflexivity|discriminate]|split; [reflexivity|discriminate]].
      split; [reflexivity|]. intros r E. inversion E; subst r. exact I.
    - split; [reflexivity|]. intros r E. inversion E; subst r. destruct (Hpos2 eq_refl) as [Pl Pp].
      exists L2. split; [exact Hs2|]. split; [eapply kle_trans; eassumption|].
      constructor; rewrite ?Pl, ?Pp; try lia; try exact Hpad1. }
  destruct HR as [HR1 HR2]. rewrite HR1. clear HR1 RX.
  destruct R as [r| |]; cbn [bind]; [|reflexivity|reflexivity]. specialize (HR2 r eq_refl).
  destruct r as [s1|[[s1 n1] sp1]]; [reflexivity|].
  destruct HR2 as (L1 & Hs1 & Hk1 & Hinv1).
  assert (Hp1 : pok (i_h (t_c s1)) parent) by (eapply pok_kle; eassumption).
  assert (Hi1 : scan_inv line l0 (i + 1) (n1 + 1) sp1 s1).
  { destruct Hinv1 as [I1 I2 I3 I4 I5 I6 I7]. constructor; try lia; assumption. }
  destruct escaped; [eapply IH; eassumption|]. destruct (N.eqb c 92); eapply IH; eassumption.
Qed.

(* ---------- parseBlock: the loop over the lines ---------- *)
Lemma parse_block_loopF_core : forall fuel s parent escaped L,
  st_ok s L -> pok (i_h (t_c s)) parent ->
  LOOPF fuel (liftF s) parent escaped = (s' <- LOOP fuel s parent escaped ;; Ok (liftF s')).
Proof.
  induction fuel as [|f IH]; intros s parent escaped L Hs Hpar; cbn [parse_block_loopF parse_block_loop]; [reflexivity|].
  cbn [fi_s FootnoteConservativeInlRd.liftF].
  destruct Hs as [Hc Hr].
  destruct (b_peek_line (t_r s)) as [[[r1 line] sg]| |] eqn:Ep; cbn [bind]; [|reflexivity|reflexivity].
  destruct (ri_peek _ _ _ _ _ _ Hr Ep) as (-> & -> & Hline).
  destruct line as [line|]; [|reflexivity].
  destruct Hline as (Hin & Hv & Hl & Hp0 & Hp1 & Hp2 & Hlt).
  match goal with |- context [if ?b then (?x, true, true, false) else ?y] => set (LL := if b then (x, true, true, false) else y) end.
  destruct LL as [[[line_length hard] visible] soft].
  fold_lift. cbn [ist_r t_c t_r].
  assert (Hinv0 : scan_inv line (b_line (t_r s)) 0 0 (b_pos (t_r s)) (ist_r s (t_r s))).
  { pose proof (zlen_nonneg line). constructor; cbn [ist_r t_r]; try lia; try reflexivity. exact (ri_pad _ _ _ Hr). }
  assert (Hs0 : st_ok (ist_r s (t_r s)) L) by (split; [exact Hc|exact Hr]).
  change {| t_c := t_c s; t_r := t_r s |} with (ist_r s (t_r s)).
  rewrite (scan_lineF_core (S (length line)) line 0 line_length 0 escaped (b_pos (t_r s)) (ist_r s (t_r s)) parent _ L Hs0 Hpar Hinv0).
  destruct (SCAN (S (length line)) line 0 line_length 0 escaped (b_pos (t_r s)) (ist_r s (t_r s)) parent) as [out| |] eqn:Esc;
    cbn [bind]; [|reflexivity|reflexivity].
  pose proof (scan_line_ok space_table punct_table norm url_table email_table re_email_domain re_open_tag re_close_tag
                punct_rune space_rune refs src lines Hsp32 Hsp10 Hsrc Hrefs
                _ _ _ _ _ _ _ _ _ _ _ L Esc Hs0 Hpar Hinv0) as Hout.
  destruct out as [[s1 esc]|[[s1 n] sp]]; cbn [lift_scan].
  - destruct Hout as (L1 & Hs1 & Hk1). cbn [ist_r t_c] in Hk1.
    eapply IH; [exact Hs1|eapply pok_kle; eassumption].
  - destruct Hout as (L1 & i' & [Hc1 Hr1] & Hk1 & [I1 I2 I3 I4 I5 I6 I7]). cbn [ist_r t_c] in Hk1.
    assert (Hpar1 : pok (i_h (t_c s1)) parent) by (eapply pok_kle; eassumption).
    fold_lift. cbn [ist_r t_c t_r].
    match goal with |- bind ?X _ = _ => destruct X as [r2| |] eqn:Ea end; cbn [bind]; [|reflexivity|reflexivity].
    assert (Hr2 : RI r2 /\ pos_le (t_r s1) r2).
    { destruct (negb (n =? 0)) eqn:En.
      - apply negb_true_iff, Z.eqb_neq in En.
        assert (Hin1 : b_in_range (t_r s1) = true) by (apply (ri_in_range_intro space_table norm src lines Hsp32 Hsp10); [exact Hr1|lia|lia]).
        eapply ri_advance_in; [exact Hr1|exact Hin1| |exact Ea]. lia.
      - inversion Ea; subst r2. split; [exact Hr1|apply pos_le_refl]. }
    destruct Hr2 as [Hr2 Hpos2].
    destruct (negb (b_line (t_r s) =? b_line r2)) eqn:Eline.
    { eapply (IH _ _ _ L1); [split; [exact Hc1|exact Hr2]|exact Hpar1]. }
    apply negb_false_iff, Z.eqb_eq in Eline.
    destruct (seg_between sp (b_pos r2)) as [diff| |] eqn:Eb; cbn [bind]; [|reflexivity|reflexivity].
    assert (Hdiff : seg_in src diff = true).
    { unfold seg_between in Eb. destruct (s_stop sp =? s_stop (b_pos r2)); [|discriminate Eb]. inversion Eb; subst diff.
      destruct Hpos2 as [_ Hp2']. destruct (Hp2' ltac:(lia)) as [Hle _].
      pose proof (ri_bounds _ _ _ Hr2). apply seg_in_intro; cbn [mksegp s_start s_stop s_pad]; try lia.
      rewrite I7, (ri_pad _ _ _ Hr2). lia. }
    match goal with |- bind ?X _ = _ => destruct X as [[c2 tseg]| |] eqn:Et end; cbn [bind]; [|reflexivity|reflexivity].
    assert (Ht : ctx_ok src [] c2 L1 /\ kle (i_h (t_c s1)) (i_h c2) /\ seg_in src tseg = true).
    { assert (Hsame : forall tg, seg_in src tg = true -> ctx_ok src [] (t_c s1) L1 /\ kle (i_h (t_c s1)) (i_h (t_c s1)) /\ seg_in src tg = true).
      { intros tg Htg. split; [exact Hc1|]. split; [apply kle_refl|exact Htg]. }
      destruct (hard && visible); [inversion Et; subst c2 tseg; apply Hsame; exact Hdiff|].
      rewrite (ri_src _ _ _ Hr2) in Et.
      destruct (seg_trim_right_space space_table src diff) as [trimmed| |] eqn:Etr; cbn [bind] in Et; try discriminate.
      pose proof (trim_right_in space_table norm src Hsp32 Hsp10 _ _ Hdiff Etr) as Htrim.
      destruct (seg_is_empty trimmed); [|inversion Et; subst c2 tseg; apply Hsame; exact Htrim].
      destruct (iget (i_h (t_c s1)) parent) as [pn| |]; cbn [bind] in Et; try discriminate.
      destruct (last_id (ich pn)) as [lst|]; [|inversion Et; subst c2 tseg; apply Hsame; exact Htrim].
      destruct (iget (i_h (t_c s1)) lst) as [ln| |] eqn:Eg; cbn [bind] in Et; try discriminate.
      apply iget_kd in Eg. destruct Eg as (Ekl & _).
      destruct (ik ln) as [|ts sf hd raw| | | | | | | |]; try (inversion Et; subst c2 tseg; apply Hsame; exact Htrim).
      destruct (_ && _ && _ && _); [|inversion Et; subst c2 tseg; apply Hsame; exact Htrim].
      destruct (seg_trim_right_space space_table src ts) as [ts'| |] eqn:Ets; cbn [bind] in Et; try discriminate.
      destruct (iupd (i_h (t_c s1)) lst _) as [h| |] eqn:Eu; cbn [bind] in Et; try discriminate.
      inversion Et; subst c2 tseg. clear Et.
      apply iupd_kind in Eu. destruct Eu as (_ & Lh & Kh & Ph & Ch).
      assert (Hst : kind_step (i_h (t_c s1)) h lst (IText ts' sf hd raw)) by (repeat split; assumption).
      pose proof (h_kind _ _ (proj1 Hc1) lst _ Ekl) as Hko. cbn in Hko.
      destruct (ctx_kind src _ _ _ _ _ _ _ Hc1 Hst Ekl eq_refl) as [Hc2 Hk2];
        [cbn; lia|cbn; eapply (trim_right_in space_table norm src Hsp32 Hsp10); eassumption|].
      split; [exact Hc2|]. split; [exact Hk2|exact Htrim]. }
    destruct Ht as (Hc2 & Hk2 & Htseg).
    destruct (new_inode c2 (IText tseg soft hard false)) as [c3 tx] eqn:En.
    destruct (i_append (i_h c3) parent tx) as [h4| |] eqn:Eap; cbn [bind]; [|reflexivity|reflexivity].
    destruct (b_advance_line r2) as [r3| |] eqn:Eal; cbn [bind]; [|reflexivity|reflexivity].
    destruct (ctx_new src _ _ _ _ _ _ En Htseg Hc2) as (Hc3 & Hk3 & _ & Kx & _).
    pose proof (i_append_spec _ _ _ _ Eap (h_tree _ _ (proj1 Hc3))) as Hat.
    destruct (ctx_attach src _ _ _ _ _ _ Hc3 Hat) as [Hc4 Hk4].
    { eapply text_edge. exact Kx. }
    { left. eapply kd_dlk_none; [exact Kx|cbn; lia]. }
    destruct (ri_advance_line _ _ _ _ Hr2 Eal) as (Hr3 & _).
    assert (Hk04 : kle (i_h (t_c s)) h4).
    { eapply kle_trans; [exact Hk1|]. eapply kle_trans; [exact Hk2|]. eapply kle_trans; [exact Hk3|exact Hk4]. }
    change {| fi_s := {| t_c := cx_h c3 h4; t_r := r3 |}; fi_f := fs |} with (liftF {| t_c := cx_h c3 h4; t_r := r3 |}).
    eapply (IH _ _ _ L1).
    + split; [exact Hc4|exact Hr3].
    + cbn [t_c cx_h i_h]. eapply pok_kle; [exact Hk04|exact Hpar].
Qed.

End Lines.

(* a reader off the block (no lines): the loop stops at once *)
Lemma parse_block_loopF_out fuel s parent escaped : b_in_range (t_r s) = false ->
  LOOPF fuel (liftF s) parent escaped = (s' <- LOOP fuel s parent escaped ;; Ok (liftF s')).
Proof.
  intros Hr. destruct fuel as [|f]; cbn [parse_block_loopF parse_block_loop]; [reflexivity|].
  cbn [fi_s FootnoteConservativeInlRd.liftF]. unfold b_peek_line. rewrite Hr. cbn [bind]. destruct s as [c r]. reflexivity.
Qed.

(* ---------- parseBlock ---------- *)
Lemma parse_blockF_core lines : lines_ok src lines ->
  PBF fs src lines = (c <- PB src lines ;; Ok (c, fs)).
Proof.
  intros Hlines. unfold parse_blockF, parse_block.
  fstep r Er.
  change {| fi_s := {| t_c := init_ictx; t_r := r |}; fi_f := fs |} with (liftF {| t_c := init_ictx; t_r := r |}).
  assert (Hloop : forall fuel, LOOPF fuel (liftF {| t_c := init_ictx; t_r := r |}) 0%nat false =
                  (s' <- LOOP fuel {| t_c := init_ictx; t_r := r |} 0%nat false ;; Ok (liftF s'))).
  { intros fuel. destruct lines as [|l0 lines'].
    - apply parse_block_loopF_out. cbn [t_r]. eapply ParseInlineRange.new_block_reader_nil. exact Er.
    - pose proof (ri_new _ _ _ Hlines ltac:(discriminate) Er) as Hr.
      destruct (ParseInlineRange.init_ok space_table norm Hsp32 Hsp10 src) as [Hc0 Hp0].
      eapply (parse_block_loopF_core (l0 :: lines') fuel _ 0%nat false []).
      + split; [exact Hc0|exact Hr].
      + exact Hp0. }
  rewrite Hloop. clear Hloop.
  destruct (LOOP (2 * length src + 2 * length lines + 8) {| t_c := init_ictx; t_r := r |} 0%nat false) as [s1| |];
    cbn [bind]; [|reflexivity|reflexivity].
  cbn [fi_s fi_f FootnoteConservativeInlRd.liftF].
  destruct (process_delimiters (ifuel s1) (t_c s1) BNil) as [c2| |]; cbn [bind]; [|reflexivity|reflexivity].
  destruct (link_close_block c2) as [c3| |]; reflexivity.
Qed.

(* ---------- the inline children of a block ---------- *)
Theorem inline_childrenF_core_sp lines : lines_ok src lines ->
  inline_childrenF space_table punct_table norm url_table email_table re_email_domain re_open_tag re_close_tag
                   punct_rune space_rune refs fs src lines =
  (ts <- inline_children space_table punct_table norm url_table email_table re_email_domain re_open_tag re_close_tag
                         punct_rune space_rune refs src lines ;; Ok (ts, fs)).
Proof.
  intros Hlines. unfold inline_childrenF, inline_children. rewrite (parse_blockF_core lines Hlines).
  destruct (GfmConservativeInl.parse_block_core space_table punct_table norm refs url_table email_table
              re_email_domain re_open_tag re_close_tag punct_rune space_rune re_open_tag re_open_tag re_open_tag
              {| InlineParseX.x_strike := false; InlineParseX.x_task := false; InlineParseX.x_table := false;
                 InlineParseX.x_linkify := false |} eq_refl eq_refl eq_refl false src lines) as [_ Hg].
  destruct (PB src lines) as [c| |]; cbn [bind]; [|reflexivity|reflexivity].
  rewrite (itreeF_core src (i_h c) (fs_links fs) (Hg c eq_refl)).
  destruct (itree (S (length (i_h c))) src (i_h c) 0%nat) as [t| |]; reflexivity.
Qed.

End Inl.

(* ---------- the parser model with the regenerated tables (model/ParseI.v, model/FootnoteI.v) ---------- *)
Require Import GM.gen.Tables GM.gen.Regexes GM.model.UtilI GM.model.DelimI.
Require GM.model.ParseI.

Theorem inline_childrenF_core : forall refs src lines fs,
  bytes_ok src -> refs_ok refs -> lines_ok src lines -> fs_defs fs = None ->
  inline_childrenF space_table punct_table ToLinkReference url_table email_table re_emailDomain re_openTag re_closeTag
                   PunctRune SpaceRune refs fs src lines
  = (ts <- GM.model.ParseI.InlineChildren refs src lines ;; Ok (ts, fs)).
Proof.
  intros refs src lines fs Hsrc Hrefs Hlines Hfs. unfold GM.model.ParseI.InlineChildren.
  apply inline_childrenF_core_sp; try assumption; vm_compute; reflexivity.
Qed.
