(* C10 for the L1 renderer: the three renderer options are orthogonal rewrites of the output.

   Status: all four theorems (xhtml_rel, hardwraps_rel, unsafe_rel, unsafe_same) are proved exactly as
   stated in the skeleton; no statement and no relation of model/HtmlSpec.v had to be changed, and no
   counterexample was found (the primitive rewrites xr_void / hr_br / ur_raw / ur_raw_nl / ur_url match
   the byte shapes written by model/Html.v).

   Route: a generic lifting lemma (Section Lift, lift_node) takes any relation R that is reflexive and
   closed under ++, together with a per-node lemma on render_enter (same walk flag) and on render_leave,
   through the walk render_node, by induction over the nested tree (tree_ind').  It is instantiated
   with XhtmlRel, HardWrapRel (xhtml c) and the flipped UnsafeRel.  unsafe_same is proved directly by
   the same induction (same_node). *)
Require Import GM.model.Base GM.model.Util GM.model.Reader GM.model.HtmlDecode GM.model.HtmlWriter GM.model.Html GM.model.HtmlSpec.
From Coq Require Import ZArith Lia.
Open Scope N_scope.

Lemma bind_ok {A B} (r : result A) (f : A -> result B) b :
  bind r f = Ok b -> exists a, r = Ok a /\ f a = Ok b.
Proof. destruct r as [a| |]; cbn; intros H; try discriminate. exists a; auto. Qed.

Lemma ok_pair_inv {A B} (a o : A) (b w : B) : Ok (a, b) = Ok (o, w) -> o = a /\ w = b.
Proof. intros H. injection H as <- <-. auto. Qed.
Lemma ok_inv {A} (a o : A) : Ok a = Ok o -> o = a.
Proof. intros H. injection H as <-. auto. Qed.

Fixpoint tree_ind' (P : tree -> Prop)
  (H : forall k l a cs, Forall P cs -> P (Node k l a cs)) (t : tree) : P t :=
  match t with
  | Node k l a cs =>
      H k l a cs ((fix go (l : list tree) : Forall P l :=
                     match l with
                     | [] => Forall_nil P
                     | ch :: r => Forall_cons ch (tree_ind' P H ch) (go r)
                     end) cs)
  end.

Section L1Rel.
Variable html_escape_table : list (option bytes).
Variable punct_table : list N.
Variable entities : list (bytes * bytes).
Variable url_escape_table : list N.
Variable utf8len_table : list N.
Variable f_global f_blockquote f_list f_listitem f_thematic f_link f_image f_table f_thead f_tr f_th f_td : list bytes.

Notation render := (render html_escape_table punct_table entities url_escape_table utf8len_table
  f_global f_blockquote f_list f_listitem f_thematic f_link f_image f_table f_thead f_tr f_th f_td).
Notation render_node := (render_node html_escape_table punct_table entities url_escape_table utf8len_table
  f_global f_blockquote f_list f_listitem f_thematic f_link f_image f_table f_thead f_tr f_th f_td).
Notation render_enter := (render_enter html_escape_table punct_table entities url_escape_table utf8len_table
  f_global f_blockquote f_list f_listitem f_thematic f_link f_image f_table f_thead f_tr f_th f_td).

Definition with_xhtml (c : rcfg) (v : bool) : rcfg := {| unsafe := unsafe c; xhtml := v; hardwraps := hardwraps c; talign := talign c |}.
Definition with_hardwraps (c : rcfg) (v : bool) : rcfg := {| unsafe := unsafe c; xhtml := xhtml c; hardwraps := v; talign := talign c |}.
Definition with_unsafe (c : rcfg) (v : bool) : rcfg := {| unsafe := v; xhtml := xhtml c; hardwraps := hardwraps c; talign := talign c |}.

(* table alignment rendering pinned to one method (the default method depends on XHTML by design) *)
Definition pinned (c : rcfg) : Prop := talign c <> 0%Z.

(* ---------- the walk, unfolded ---------- *)
Definition render_children (c : rcfg) (src : bytes) (pk : kind) : list tree -> result bytes :=
  fix go (l : list tree) : result bytes :=
  match l with
  | [] => Ok []
  | ch :: rest =>
      a <- render_node c src (Some pk)
             (match rest with [] => false | _ => true end)
             (match rest with [] => true | _ => false end) ch ;;
      b <- go rest ;; Ok (a ++ b)
  end.

Definition render_close (c : rcfg) (src : bytes) (parent : option kind) (has_next is_last : bool) (t : tree) : result bytes :=
  match t_kind t, parent with
  | KTableCell _, Some KTableHeader => Ok (tag_close n_th ++ [10])
  | KTableCell _, _ => Ok (tag_close n_td ++ [10])
  | _, _ => render_leave c src has_next is_last t
  end.

Lemma render_node_eq c src parent hn il t :
  render_node c src parent hn il t =
  (e <- render_enter c src parent t ;;
   let '(open, walk) := e in
   inner <- (if walk then render_children c src (t_kind t) (t_children t) else Ok []) ;;
   close <- render_close c src parent hn il t ;;
   Ok (open ++ inner ++ close)).
Proof. destruct t as [k l a cs]. reflexivity. Qed.


Lemma render_children_cons c src pk ch rest :
  render_children c src pk (ch :: rest) =
  (a <- render_node c src (Some pk)
          (match rest with [] => false | _ => true end)
          (match rest with [] => true | _ => false end) ch ;;
   b <- render_children c src pk rest ;; Ok (a ++ b)).
Proof. reflexivity. Qed.

(* ---------- generic lifting of an enter/leave relation through the walk ---------- *)
Section Lift.
Variables (c1 c2 : rcfg) (src : bytes) (R : bytes -> bytes -> Prop).
Hypothesis Rrefl : forall a, R a a.
Hypothesis Rapp : forall a a' b b', R a a' -> R b b' -> R (a ++ b) (a' ++ b').
Hypothesis Henter : forall parent t o w, render_enter c1 src parent t = Ok (o, w) ->
  exists o', render_enter c2 src parent t = Ok (o', w) /\ R o o'.
Hypothesis Hleave : forall hn il t o, render_leave c1 src hn il t = Ok o ->
  exists o', render_leave c2 src hn il t = Ok o' /\ R o o'.

Definition node_lifts (t : tree) : Prop :=
  forall parent hn il o, render_node c1 src parent hn il t = Ok o ->
  exists o', render_node c2 src parent hn il t = Ok o' /\ R o o'.

Lemma lift_children pk cs : Forall node_lifts cs ->
  forall o, render_children c1 src pk cs = Ok o ->
  exists o', render_children c2 src pk cs = Ok o' /\ R o o'.
Proof.
  induction 1 as [|ch rest Hch Hrest IH]; intros o H.
  - cbn in H. injection H as <-. exists []. split; [reflexivity|apply Rrefl].
  - rewrite render_children_cons in H |- *.
    apply bind_ok in H. destruct H as [a [Ha H]].
    apply bind_ok in H. destruct H as [b [Hb H]]. injection H as <-.
    destruct (Hch _ _ _ _ Ha) as [a' [Ha' Ra]]. destruct (IH _ Hb) as [b' [Hb' Rb]].
    exists (a' ++ b'). rewrite Ha', Hb'. split; [reflexivity | apply Rapp; assumption].
Qed.

Lemma lift_close parent hn il t o : render_close c1 src parent hn il t = Ok o ->
  exists o', render_close c2 src parent hn il t = Ok o' /\ R o o'.
Proof.
  unfold render_close. destruct (t_kind t); try apply Hleave.
  destruct parent as [pk|]; [destruct pk|]; intros H; (exists o; split; [exact H|apply Rrefl]).
Qed.

Lemma lift_node t : node_lifts t.
Proof.
  induction t as [k l a cs IH] using tree_ind'. intros parent hn il o H.
  rewrite render_node_eq in H |- *.
  apply bind_ok in H. destruct H as [[op w] [He H]]. cbv beta iota in H.
  apply bind_ok in H. destruct H as [inner [Hi H]].
  apply bind_ok in H. destruct H as [cl [Hc H]]. injection H as <-.
  destruct (Henter _ _ _ _ He) as [op' [He' Rop]].
  destruct (lift_close _ _ _ _ _ Hc) as [cl' [Hc' Rc]].
  assert (Hin : exists inner', (if w then render_children c2 src (t_kind (Node k l a cs)) (t_children (Node k l a cs)) else Ok []) = Ok inner' /\ R inner inner').
  { destruct w.
    - apply lift_children; assumption.
    - exists inner; split; [exact Hi| apply Rrefl]. }
  destruct Hin as [inner' [Hi' Ri]].
  rewrite He'. cbn [bind]. cbv beta iota. rewrite Hi'. cbn [bind]. rewrite Hc'. cbn [bind].
  eexists; split; [reflexivity|]. apply Rapp; [assumption|]. apply Rapp; assumption.
Qed.
End Lift.


(* ---------- XHTML ---------- *)
Lemma xr_app_l a b b' : XhtmlRel b b' -> XhtmlRel (a ++ b) (a ++ b').
Proof. intros H. apply xr_app; [apply xr_eq|exact H]. Qed.

Lemma in_void_hr : In n_hr void_names. Proof. simpl; auto 10. Qed.
Lemma in_void_br : In [98;114] void_names. Proof. simpl; auto 10. Qed.
Lemma in_void_img : In [105;109;103] void_names. Proof. simpl; auto 10. Qed.
Lemma in_void_input : In [105;110;112;117;116] void_names. Proof. simpl; auto 10. Qed.

Lemma xr_void_end c name pre tail : In name void_names -> (exists attrs, pre = [60] ++ name ++ attrs) ->
  XhtmlRel (pre ++ void_end (with_xhtml c false) tail) (pre ++ void_end (with_xhtml c true) tail).
Proof.
  intros Hn [attrs ->]. unfold void_end. cbn [xhtml with_xhtml].
  replace (([60] ++ name ++ attrs) ++ [62] ++ tail) with (([60] ++ name ++ attrs ++ [62]) ++ tail)
    by (rewrite <- !app_assoc; reflexivity).
  replace (([60] ++ name ++ attrs) ++ [32;47;62] ++ tail) with (([60] ++ name ++ attrs ++ [32;47;62]) ++ tail)
    by (rewrite <- !app_assoc; reflexivity).
  apply xr_app; [apply xr_void; exact Hn|apply xr_eq].
Qed.

Lemma xr_br c : XhtmlRel (br_tag (with_xhtml c false)) (br_tag (with_xhtml c true)).
Proof. apply (xr_void_end c [98;114] [60;98;114] [10] in_void_br). exists []. reflexivity. Qed.

Lemma table_cell_open_pinned c tag f a attrs : pinned c ->
  table_cell_open html_escape_table (with_xhtml c true) tag f a attrs =
  table_cell_open html_escape_table (with_xhtml c false) tag f a attrs.
Proof.
  intros Hp. unfold table_cell_open. cbn [talign with_xhtml].
  destruct (Z.eqb_spec (talign c) 0) as [E|E]; [contradiction|reflexivity].
Qed.

Lemma xhtml_enter c src parent t o w : pinned c ->
  render_enter (with_xhtml c false) src parent t = Ok (o, w) ->
  exists o', render_enter (with_xhtml c true) src parent t = Ok (o', w) /\ XhtmlRel o o'.
Proof.
  intros Hp H. destruct t as [k l a cs]. unfold Html.render_enter in *.
  destruct k; cbv beta iota in H |- *; try (exists o; split; [exact H | apply xr_eq]).
  - (* KThematicBreak *)
    apply ok_pair_inv in H; destruct H as [-> ->]. eexists; split; [reflexivity|].
    rewrite !app_assoc. apply (xr_void_end c n_hr _ _ in_void_hr).
    rewrite <- ?app_assoc. eexists; reflexivity.
  - (* KText *)
    apply bind_ok in H. destruct H as [v [Hv H]]. rewrite Hv. cbn [bind].
    cbn [hardwraps with_xhtml] in *.
    destruct raw.
    + exists o; split; [exact H | apply xr_eq].
    + apply ok_pair_inv in H; destruct H as [-> ->]. eexists; split; [reflexivity|].
      apply xr_app_l. destruct (hard || soft && hardwraps c); [apply xr_br|apply xr_eq].
  - (* KImage *)
    apply bind_ok in H. destruct H as [alt [Halt H]]. apply ok_pair_inv in H; destruct H as [-> ->].
    rewrite Halt. cbn [bind]. eexists; split; [reflexivity|].
    rewrite !app_assoc. apply (xr_void_end c [105;109;103] _ _ in_void_img).
    rewrite <- ?app_assoc. eexists; reflexivity.
  - (* KTableCell *)
    rewrite !table_cell_open_pinned by exact Hp.
    exists o; split; [exact H | apply xr_eq].
  - (* KTaskCheckBox *)
    apply ok_pair_inv in H; destruct H as [-> ->]. eexists; split; [reflexivity|].
    rewrite !app_assoc. apply (xr_void_end c [105;110;112;117;116] _ _ in_void_input).
    rewrite <- ?app_assoc. eexists; reflexivity.
  - (* KFootnoteList *)
    apply ok_pair_inv in H; destruct H as [-> ->]. eexists; split; [reflexivity|].
    do 3 apply xr_app_l. rewrite !(app_assoc (tag_open n_hr)).
    apply xr_app; [|apply xr_eq].
    apply (xr_void_end c n_hr _ _ in_void_hr). exists []. reflexivity.
Qed.


Lemma xhtml_leave c src hn il t o :
  render_leave (with_xhtml c false) src hn il t = Ok o ->
  exists o', render_leave (with_xhtml c true) src hn il t = Ok o' /\ XhtmlRel o o'.
Proof. intros H. exists o; split; [exact H|apply xr_eq]. Qed.

(* enabling XHTML changes nothing except that void elements are closed by " />" *)
Theorem xhtml_rel c src t o : pinned c -> render (with_xhtml c false) src t = Ok o ->
  exists o', render (with_xhtml c true) src t = Ok o' /\ XhtmlRel o o'.
Proof.
  intros Hp H. unfold Html.render in *.
  apply (lift_node (with_xhtml c false) (with_xhtml c true) src XhtmlRel xr_eq xr_app
           (fun parent t o w => xhtml_enter c src parent t o w Hp) (xhtml_leave c src) t _ _ _ _ H).
Qed.

(* ---------- HardWraps ---------- *)
Lemma hr_app_l x a b b' : HardWrapRel x b b' -> HardWrapRel x (a ++ b) (a ++ b').
Proof. intros H. apply hr_app; [apply hr_eq|exact H]. Qed.

Lemma hardwraps_enter c src parent t o w :
  render_enter (with_hardwraps c false) src parent t = Ok (o, w) ->
  exists o', render_enter (with_hardwraps c true) src parent t = Ok (o', w) /\ HardWrapRel (xhtml c) o o'.
Proof.
  intros H. destruct t as [k l a cs]. unfold Html.render_enter in *.
  destruct k; cbv beta iota in H |- *; try (exists o; split; [exact H | apply hr_eq]).
  (* KText *)
  apply bind_ok in H. destruct H as [v [Hv H]]. rewrite Hv. cbn [bind].
  cbn [hardwraps with_hardwraps] in *.
  destruct raw.
  - exists o; split; [exact H | apply hr_eq].
  - apply ok_pair_inv in H; destruct H as [-> ->]. eexists; split; [reflexivity|].
    apply hr_app_l. destruct hard; [apply hr_eq|]. destruct soft; [|apply hr_eq].
    cbn [orb andb]. unfold br_tag. cbn [xhtml with_hardwraps]. apply hr_br.
Qed.

Lemma hardwraps_leave c src hn il t o :
  render_leave (with_hardwraps c false) src hn il t = Ok o ->
  exists o', render_leave (with_hardwraps c true) src hn il t = Ok o' /\ HardWrapRel (xhtml c) o o'.
Proof. intros H. exists o; split; [exact H|apply hr_eq]. Qed.

(* enabling HardWraps changes nothing except a <br> before the newline of soft line breaks *)
Theorem hardwraps_rel c src t o : render (with_hardwraps c false) src t = Ok o ->
  exists o', render (with_hardwraps c true) src t = Ok o' /\ HardWrapRel (xhtml c) o o'.
Proof.
  intros H. unfold Html.render in *.
  apply (lift_node (with_hardwraps c false) (with_hardwraps c true) src (HardWrapRel (xhtml c))
           (hr_eq _) (hr_app _) (hardwraps_enter c src) (hardwraps_leave c src) t _ _ _ _ H).
Qed.

(* ---------- Unsafe ---------- *)
Definition UnsafeRelF (a b : bytes) : Prop := UnsafeRel b a.
Lemma urf_eq a : UnsafeRelF a a. Proof. apply ur_eq. Qed.
Lemma urf_app a a' b b' : UnsafeRelF a a' -> UnsafeRelF b b' -> UnsafeRelF (a ++ b) (a' ++ b').
Proof. unfold UnsafeRelF. intros H1 H2. apply ur_app; assumption. Qed.
Lemma ur_app_l a b b' : UnsafeRel b b' -> UnsafeRel (a ++ b) (a ++ b').
Proof. intros H. apply ur_app; [apply ur_eq|exact H]. Qed.

Notation url_value := (url_value html_escape_table punct_table entities url_escape_table utf8len_table).

Lemma url_value_rel d r : UnsafeRel (url_value false d r) (url_value true d r).
Proof.
  unfold HtmlWriter.url_value. cbn [orb].
  destruct (is_dangerous_url _); cbn [negb]; [apply ur_url|apply ur_eq].
Qed.

Lemma unsafe_enter c src parent t o w :
  render_enter (with_unsafe c true) src parent t = Ok (o, w) ->
  exists o', render_enter (with_unsafe c false) src parent t = Ok (o', w) /\ UnsafeRelF o o'.
Proof.
  intros H. destruct t as [k l a cs]. unfold Html.render_enter in *.
  destruct k; cbv beta iota in H |- *; try (exists o; split; [exact H | apply urf_eq]);
    cbn [unsafe with_unsafe] in *; unfold UnsafeRelF.
  - (* KHTMLBlock *)
    apply bind_ok in H. destruct H as [v [Hv H]]. apply ok_pair_inv in H; destruct H as [-> ->].
    eexists; split; [reflexivity|]. apply ur_raw_nl.
  - (* KLink *)
    apply ok_pair_inv in H; destruct H as [-> ->]. eexists; split; [reflexivity|].
    do 2 apply ur_app_l. apply ur_app; [apply url_value_rel|apply ur_eq].
  - (* KImage *)
    apply bind_ok in H. destruct H as [alt [Halt H]]. apply ok_pair_inv in H; destruct H as [-> ->].
    rewrite Halt. cbn [bind]. eexists; split; [reflexivity|].
    apply ur_app_l. apply ur_app; [apply url_value_rel|apply ur_eq].
  - (* KAutoLink *)
    apply ok_pair_inv in H; destruct H as [-> ->]. eexists; split; [reflexivity|].
    do 3 apply ur_app_l. apply ur_app; [apply url_value_rel|apply ur_eq].
  - (* KRawHTML *)
    apply bind_ok in H. destruct H as [v [Hv H]]. apply ok_pair_inv in H; destruct H as [-> ->].
    eexists; split; [reflexivity|]. apply ur_raw.
Qed.

Lemma unsafe_leave c src hn il t o :
  render_leave (with_unsafe c true) src hn il t = Ok o ->
  exists o', render_leave (with_unsafe c false) src hn il t = Ok o' /\ UnsafeRelF o o'.
Proof.
  intros H. destruct t as [k l a cs]. unfold render_leave in *.
  destruct k; cbv beta iota in H |- *; try (exists o; split; [exact H | apply urf_eq]).
  destruct closure as [cl|]; [|exists o; split; [exact H | apply urf_eq]].
  cbn [unsafe with_unsafe] in *. eexists; split; [reflexivity|]. apply ur_raw_nl.
Qed.

(* enabling Unsafe changes only raw-HTML placeholders and blanked URLs *)
Theorem unsafe_rel c src t o' : render (with_unsafe c true) src t = Ok o' ->
  exists o, render (with_unsafe c false) src t = Ok o /\ UnsafeRel o o'.
Proof.
  intros H. unfold Html.render in *.
  apply (lift_node (with_unsafe c true) (with_unsafe c false) src UnsafeRelF
           urf_eq urf_app (unsafe_enter c src) (unsafe_leave c src) t _ _ _ _ H).
Qed.


(* ... and nothing at all when the tree has no raw HTML and no destination classified dangerous *)
Fixpoint no_raw_no_danger (t : tree) : bool :=
  match t with
  | Node k _ _ cs =>
    (match k with
     | KHTMLBlock _ | KRawHTML _ => false
     | KLink d _ | KImage d _ =>
         negb (is_dangerous_url (url_escape url_escape_table utf8len_table punct_table entities d true))
     | KAutoLink _ u _ => negb (is_dangerous_url (url_escape url_escape_table utf8len_table punct_table entities u false))
     | _ => true
     end) &&
    (fix go (l : list tree) : bool := match l with [] => true | ch :: r => no_raw_no_danger ch && go r end) cs
  end.

Definition kind_ok (k : kind) : bool :=
  match k with
  | KHTMLBlock _ | KRawHTML _ => false
  | KLink d _ | KImage d _ =>
      negb (is_dangerous_url (url_escape url_escape_table utf8len_table punct_table entities d true))
  | KAutoLink _ u _ => negb (is_dangerous_url (url_escape url_escape_table utf8len_table punct_table entities u false))
  | _ => true
  end.

Lemma nrnd_inv k l a cs : no_raw_no_danger (Node k l a cs) = true ->
  kind_ok k = true /\ Forall (fun t => no_raw_no_danger t = true) cs.
Proof.
  intros H. cbn [no_raw_no_danger] in H. apply andb_prop in H. destruct H as [Hk Hcs].
  split; [exact Hk|]. clear Hk.
  induction cs as [|ch r IH]; [constructor|].
  apply andb_prop in Hcs. destruct Hcs as [H1 H2]. constructor; [exact H1|exact (IH H2)].
Qed.

Lemma url_value_same d r :
  negb (is_dangerous_url (url_escape url_escape_table utf8len_table punct_table entities d r)) = true ->
  url_value true d r = url_value false d r.
Proof. intros H. unfold HtmlWriter.url_value. rewrite H. reflexivity. Qed.

Lemma same_enter c src parent k l a cs : kind_ok k = true ->
  render_enter (with_unsafe c true) src parent (Node k l a cs) =
  render_enter (with_unsafe c false) src parent (Node k l a cs).
Proof.
  intros Hk. unfold Html.render_enter.
  destruct k; cbv beta iota; try reflexivity; cbn [kind_ok] in Hk; try discriminate Hk;
    cbn [unsafe with_unsafe]; rewrite (url_value_same _ _ Hk); reflexivity.
Qed.

Lemma same_close c src parent hn il k l a cs : kind_ok k = true ->
  render_close (with_unsafe c true) src parent hn il (Node k l a cs) =
  render_close (with_unsafe c false) src parent hn il (Node k l a cs).
Proof.
  intros Hk. unfold render_close, render_leave. cbn [t_kind].
  destruct k; try reflexivity. discriminate Hk.
Qed.

Lemma same_node c src t : no_raw_no_danger t = true -> forall parent hn il,
  render_node (with_unsafe c true) src parent hn il t = render_node (with_unsafe c false) src parent hn il t.
Proof.
  induction t as [k l a cs IH] using tree_ind'. intros H parent hn il.
  apply nrnd_inv in H. destruct H as [Hk Hcs].
  rewrite !render_node_eq. rewrite (same_enter c src parent k l a cs Hk).
  rewrite (same_close c src parent hn il k l a cs Hk).
  assert (Hch : render_children (with_unsafe c true) src k cs = render_children (with_unsafe c false) src k cs).
  { clear Hk. induction cs as [|ch r IHr]; [reflexivity|].
    rewrite !render_children_cons.
    inversion IH as [|x y IH1 IH2]; subst. inversion Hcs as [|x y Hc1 Hc2]; subst.
    rewrite (IH1 Hc1). rewrite (IHr IH2 Hc2). reflexivity. }
  cbn [t_kind t_children]. rewrite Hch. reflexivity.
Qed.

Theorem unsafe_same c src t : no_raw_no_danger t = true ->
  render (with_unsafe c true) src t = render (with_unsafe c false) src t.
Proof. intros H. unfold Html.render. apply same_node. exact H. Qed.

End L1Rel.
