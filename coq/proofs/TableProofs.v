(* C17: every table the transformer produces is rectangular, cells carry their column's
   alignment, a header that does not match the delimiter row yields no table. *)
Require Import GM.model.Base GM.model.Util GM.model.Reader GM.model.Html GM.model.TableX.
From Coq Require Import ZArith Lia.
Open Scope N_scope.

Lemma bind_ok {A B} (r : result A) (f : A -> result B) b :
  bind r f = Ok b -> exists a, r = Ok a /\ f a = Ok b.
Proof.
  destruct r as [a| |]; cbn [bind]; intros H; try discriminate H.
  exists a; split; [reflexivity|exact H].
Qed.

Ltac bind_inv H x Hx :=
  apply bind_ok in H; destruct H as [x [Hx H]].

Section Table.
Variable space_table : list N.
Notation parse_cells := (parse_cells space_table).
Notation parse_row := (parse_row space_table).
Notation parse_rows := (parse_rows space_table).
Notation transform_from := (transform_from space_table).
Notation transform := (transform space_table).
Notation parse_delimiter := (parse_delimiter space_table).

(* ---------- parse_cells ---------- *)

Lemma parse_cells_body_width fuel : forall src line base pos limit aligns cells,
  parse_cells fuel src line base pos limit aligns false = Ok cells ->
  length cells = length aligns.
Proof.
  induction fuel as [|f IH]; intros src line base pos limit aligns cells H; cbn [TableX.parse_cells] in H.
  - discriminate H.
  - destruct (pos <? limit)%Z.
    + destruct aligns as [|a t].
      * inversion H; reflexivity.
      * bind_inv H s1 Hs1. bind_inv H s2 Hs2. bind_inv H rest Hrest.
        inversion H; subst cells. cbn [tl] in Hrest.
        apply IH in Hrest. cbn [length]. rewrite Hrest. reflexivity.
    + inversion H; subst cells. apply map_length.
Qed.

Lemma parse_cells_alignment fuel : forall src line base pos limit aligns hdr cells i s a,
  parse_cells fuel src line base pos limit aligns hdr = Ok cells ->
  nth_error cells i = Some (Some s, a) ->
  nth_error aligns i = Some a \/ (hdr = true /\ (length aligns <= i)%nat /\ a = ANone).
Proof.
  induction fuel as [|f IH]; intros src line base pos limit aligns hdr cells i s a H Hn;
    cbn [TableX.parse_cells] in H.
  - discriminate H.
  - destruct (pos <? limit)%Z.
    + destruct aligns as [|a0 t].
      * destruct hdr.
        -- bind_inv H s1 Hs1. bind_inv H s2 Hs2. bind_inv H rest Hrest.
           inversion H; subst cells. cbn [tl] in Hrest.
           destruct i as [|i'].
           ++ cbn [nth_error] in Hn. inversion Hn; subst. right.
              split; [reflexivity|]. split; [cbn [length]; lia|reflexivity].
           ++ cbn [nth_error] in Hn.
              destruct (IH _ _ _ _ _ _ _ _ _ _ _ Hrest Hn) as [Hc|[_ [_ Ha]]].
              ** destruct i'; discriminate Hc.
              ** right. split; [reflexivity|]. split; [cbn [length]; lia|exact Ha].
        -- inversion H; subst cells. destruct i; discriminate Hn.
      * bind_inv H s1 Hs1. bind_inv H s2 Hs2. bind_inv H rest Hrest.
        inversion H; subst cells. cbn [tl] in Hrest.
        destruct i as [|i'].
        -- cbn [nth_error] in Hn. inversion Hn; subst. left. reflexivity.
        -- cbn [nth_error] in Hn.
           destruct (IH _ _ _ _ _ _ _ _ _ _ _ Hrest Hn) as [Hc|[Hh [Hl Ha]]].
           ++ left. exact Hc.
           ++ right. split; [exact Hh|]. split; [cbn [length]; lia|exact Ha].
    + destruct hdr.
      * inversion H; subst cells. destruct i; discriminate Hn.
      * inversion H; subst cells. exfalso.
        clear -Hn. revert i Hn. induction aligns as [|a1 t IHt]; intros i Hn.
        -- destruct i; discriminate Hn.
        -- destruct i as [|i']; cbn [map nth_error] in Hn.
           ++ discriminate Hn.
           ++ exact (IHt _ Hn).
Qed.

Lemma parse_cells_padding fuel : forall src line base pos limit aligns cells i a,
  parse_cells fuel src line base pos limit aligns false = Ok cells ->
  nth_error cells i = Some (None, a) -> a = ANone.
Proof.
  induction fuel as [|f IH]; intros src line base pos limit aligns cells i a H Hn;
    cbn [TableX.parse_cells] in H.
  - discriminate H.
  - destruct (pos <? limit)%Z.
    + destruct aligns as [|a0 t].
      * inversion H; subst cells. destruct i; discriminate Hn.
      * bind_inv H s1 Hs1. bind_inv H s2 Hs2. bind_inv H rest Hrest.
        inversion H; subst cells. cbn [tl] in Hrest.
        destruct i as [|i']; cbn [nth_error] in Hn.
        -- discriminate Hn.
        -- exact (IH _ _ _ _ _ _ _ _ _ Hrest Hn).
    + inversion H; subst cells.
      clear -Hn. revert i Hn. induction aligns as [|a1 t IHt]; intros i Hn.
      * destruct i; discriminate Hn.
      * destruct i as [|i']; cbn [map nth_error] in Hn.
        -- inversion Hn; reflexivity.
        -- exact (IHt _ Hn).
Qed.

(* ---------- parse_row ---------- *)

Lemma parse_row_cells src sg aligns hdr cells :
  parse_row src sg aligns hdr = Ok cells ->
  exists fuel line base pos limit,
    parse_cells fuel src line base pos limit aligns hdr = Ok cells.
Proof.
  unfold TableX.parse_row. intros H.
  bind_inv H s1 Hs1. bind_inv H s2 Hs2. bind_inv H line Hline.
  eexists _, _, _, _, _. exact H.
Qed.

(* a body row has exactly as many cells as the delimiter row: short rows are padded (with cells
   that have no content), excess cells are dropped *)
Theorem body_row_width src sg aligns cells :
  parse_row src sg aligns false = Ok cells -> length cells = length aligns.
Proof.
  intros H. apply parse_row_cells in H.
  destruct H as [fuel [line [base [pos [limit H]]]]].
  exact (parse_cells_body_width _ _ _ _ _ _ _ _ H).
Qed.

(* each cell written in the source carries the alignment of its column; padding cells have none *)
Theorem row_cell_alignment src sg aligns hdr cells i s a :
  parse_row src sg aligns hdr = Ok cells -> nth_error cells i = Some (Some s, a) ->
  nth_error aligns i = Some a \/ (hdr = true /\ (length aligns <= i)%nat /\ a = ANone).
Proof.
  intros H Hn. apply parse_row_cells in H.
  destruct H as [fuel [line [base [pos [limit H]]]]].
  exact (parse_cells_alignment _ _ _ _ _ _ _ _ _ _ _ _ H Hn).
Qed.

Theorem row_padding_cells src sg aligns cells i a :
  parse_row src sg aligns false = Ok cells -> nth_error cells i = Some (None, a) -> a = ANone.
Proof.
  intros H Hn. apply parse_row_cells in H.
  destruct H as [fuel [line [base [pos [limit H]]]]].
  exact (parse_cells_padding _ _ _ _ _ _ _ _ _ _ H Hn).
Qed.

(* the delimiter row defines at least one column *)
Theorem delimiter_nonempty line aligns : parse_delimiter line = Some aligns -> aligns <> [].
Proof.
  unfold TableX.parse_delimiter. intros H.
  destruct (negb (is_table_delim space_table line)); [discriminate H|].
  match type of H with
  | match ?e with _ => _ end = _ => destruct e as [[|x xs]|]
  end.
  - discriminate H.
  - inversion H; subst aligns. discriminate.
  - discriminate H.
Qed.

(* ---------- parse_rows ---------- *)

Lemma parse_rows_spec src aligns : forall ls rows,
  parse_rows src ls aligns = Ok rows ->
  length rows = length ls /\ Forall (fun r => length r = length aligns) rows.
Proof.
  induction ls as [|l r IH]; intros rows H; cbn [TableX.parse_rows] in H.
  - inversion H; subst rows. split; [reflexivity|constructor].
  - bind_inv H row Hrow. bind_inv H rest Hrest. inversion H; subst rows.
    destruct (IH _ Hrest) as [Hlen Hall].
    split.
    + cbn [length]. rewrite Hlen. reflexivity.
    + constructor; [exact (body_row_width _ _ _ _ Hrow)|exact Hall].
Qed.

(* ---------- transform ---------- *)

Lemma transform_from_spec fuel : forall src before prev rest kept tbl,
  transform_from fuel src before prev rest = Ok (Some (kept, tbl)) ->
  t_aligns tbl <> [] /\
  length (t_header tbl) = length (t_aligns tbl) /\
  Forall (fun r => length r = length (t_aligns tbl)) (t_rows tbl) /\
  (length kept + 2 + length (t_rows tbl) = length before + 1 + length rest)%nat.
Proof.
  induction fuel as [|f IH]; intros src before prev rest kept tbl H;
    cbn [TableX.transform_from] in H.
  - discriminate H.
  - destruct rest as [|cur after]; [discriminate H|].
    bind_inv H line Hline.
    destruct (parse_delimiter line) as [aligns|] eqn:Hd.
    + bind_inv H header Hheader.
      destruct (Nat.eqb (length aligns) (length header)) eqn:He; cbn [negb] in H;
        [|discriminate H].
      bind_inv H rows Hrows. inversion H; subst kept tbl. cbn [t_aligns t_header t_rows].
      apply Nat.eqb_eq in He.
      destruct (parse_rows_spec _ _ _ _ Hrows) as [Hlen Hall].
      split; [exact (delimiter_nonempty _ _ Hd)|].
      split; [symmetry; exact He|].
      split; [exact Hall|].
      cbn [length]. lia.
    + apply IH in H. destruct H as [H1 [H2 [H3 H4]]].
      split; [exact H1|]. split; [exact H2|]. split; [exact H3|].
      rewrite app_length in H4. cbn [length] in H4 |- *. lia.
Qed.

(* every table produced is rectangular: the header has exactly one cell per column (otherwise
   there is no table at all), and so has every body row *)
Theorem transform_rectangular src lines kept tbl :
  transform src lines = Ok (Some (kept, tbl)) ->
  t_aligns tbl <> [] /\
  length (t_header tbl) = length (t_aligns tbl) /\
  Forall (fun r => length r = length (t_aligns tbl)) (t_rows tbl).
Proof.
  unfold TableX.transform. intros H.
  destruct lines as [|l0 rest]; [discriminate H|].
  apply transform_from_spec in H. destruct H as [H1 [H2 [H3 _]]].
  split; [exact H1|]. split; [exact H2|exact H3].
Qed.

(* the lines kept in the paragraph and the rows account for every line of the paragraph *)
Theorem transform_accounts_lines src lines kept tbl :
  transform src lines = Ok (Some (kept, tbl)) ->
  (length kept + 2 + length (t_rows tbl) = length lines)%nat.
Proof.
  unfold TableX.transform. intros H.
  destruct lines as [|l0 rest]; [discriminate H|].
  apply transform_from_spec in H. destruct H as [_ [_ [_ H4]]].
  cbn [length] in H4 |- *. lia.
Qed.

End Table.
