(* Helper library for FootnoteWfBlk.v, part O: Open and Continue of the footnote block parser
   (model/FootnoteParseBlock.v) satisfy the post-conditions of the block quote parser of the core
   (ParseBlocksRangeC.open_post, ParseBlocksRangeD.cont_post for PBlockquote). *)
Require Import GM.model.Base GM.model.Util GM.model.Reader GM.model.ReaderSpec GM.model.Blocks GM.model.ListItem
               GM.model.LeafBlocks GM.model.CodeBlock GM.model.LinkDest GM.model.Regex GM.model.HtmlWriter
               GM.model.Html GM.model.HtmlSpec GM.model.BlockParse GM.model.InlineParse GM.model.FootnoteParseBlock.
Require Import GM.proofs.ReaderProofs GM.proofs.BlockRangeProofs GM.proofs.ParseInv
               GM.proofs.ParseBlocksRangeA GM.proofs.ParseBlocksRangeB GM.proofs.ParseBlocksRangeC
               GM.proofs.ParseBlocksRangeD GM.proofs.FootnoteWfDefs GM.proofs.FootnoteWfBlkInv.
From Coq Require Import ZArith Lia List Bool.
Import ListNotations.
Open Scope Z_scope.

Section O.
Variable space_table punct_table : list N.
Variable norm : bytes -> bytes.
Variable re_t1o re_t1c re_t2 re_t3 re_t4 re_t5 re_t6 re_t7 : re.
Variable allowed_tags : list bytes.
Variable src : bytes.
Hypothesis sp32 : is_space space_table 32%N = true.
Set Default Proof Using "All".
Notation SInv := (SInv space_table src).
Notation open_post := (open_post space_table src).
Notation cont_post := (cont_post space_table src).

(* the node of a footnote definition *)
Definition fn_node (sg : seg) : bnode := set_seg (set_i2 (mknode BBlockquote fn_footnote) (-1)) (Some sg).

(* lemmas of part C take all the section variables: CC supplies them *)
Notation CC f := (f space_table punct_table norm re_t1o re_t1c re_t2 re_t3 re_t4 re_t5 re_t6 re_t7 allowed_tags src sp32) (only parsing).

Lemma at_inv (l : bytes) i c : at_ l i = Ok c -> 0 <= i < zlen l /\ nth (Z.to_nat i) l 0%N = c.
Proof.
  unfold at_. destruct (Z.leb_spec 0 i) as [H0|H0]; cbn [andb]; [|discriminate].
  destruct (Z.ltb_spec i (zlen l)) as [H1|H1]; [|discriminate]. intros H. injection H as <-. split; [lia|reflexivity].
Qed.

(* the index found by FindClosure lies inside the searched bytes *)
Lemma fcp_range fuel : forall bs i o c,
  find_closure_plain punct_table fuel bs i o c = -1 \/
  i <= find_closure_plain punct_table fuel bs i o c < i + zlen bs.
Proof.
  induction fuel as [|f IH]; intros bs i o c; cbn [find_closure_plain]; [left; reflexivity|].
  destruct bs as [|b rest]; [left; reflexivity|]. rewrite zlen_cons.
  destruct rest as [|b2 rest2].
  - destruct (N.eqb b c); [right; unfold zlen; cbn [length]; lia|left; reflexivity].
  - rewrite zlen_cons. pose proof (zlen_nonneg rest2) as Hr.
    destruct (N.eqb b 92 && is_punct punct_table b2)%bool.
    + destruct (IH rest2 (i + 2) o c) as [E|E]; [left; exact E|right; lia].
    + destruct (N.eqb b c); [right; lia|]. destruct (N.eqb b o); [left; reflexivity|].
      destruct (IH (b2 :: rest2) (i + 1) o c) as [E|E]; [left; exact E|right; rewrite zlen_cons in E; lia].
Qed.
Lemma find_closure_range bs o c : 0 <= find_closure_bytes punct_table bs o c ->
  find_closure_bytes punct_table bs o c < zlen bs.
Proof. unfold find_closure_bytes. intros H. destruct (fcp_range (S (length bs)) bs 0 o c) as [E|E]; lia. Qed.

Lemma nodeP_fn sg : seg_inr src sg -> nodeP space_table src (fn_node sg).
Proof.
  intros Hsg. unfold fn_node. constructor; cbn [mknode set_seg set_i2 blines b_seg bk b_i1 bch]; try discriminate; auto.
  intros sg0 E. injection E as <-. exact Hsg.
Qed.

Lemma footnote_open_ok s s' o A D N : SInv FF s A D N ->
  footnote_open space_table punct_table s = Ok (s', o) ->
  open_post PBlockquote s s' o A D N /\ c_tmp_para (s_c s') = c_tmp_para (s_c s) /\
  match o with None => True | Some _ => exists sg, s_h s' = s_h s ++ [fn_node sg] end.
Proof.
  intros HS H. unfold footnote_open in H.
  bind_inv H x Ex. destruct x as [[s1 l] sg].
  destruct (CC peek_s_ok _ _ _ _ _ _ _ HS Ex) as [HS1 [Eh1 [Ec1 [Ep1 [Esg [El [Ein Esrc1]]]]]]].
  assert (open_post PBlockquote s s1 None A D N /\ c_tmp_para (s_c s1) = c_tmp_para (s_c s) /\ True) as Hnone.
  { unfold open_post. rewrite Ec1. csplit; auto. }
  cbv zeta in H.
  destruct (Z.ltb_spec (c_boff (s_c s1)) 0) as [Hp0|Hp0]; [injection H as <- <-; exact Hnone|].
  set (p0 := c_boff (s_c s1)) in *.
  bind_inv H c Ec. destruct (N.eqb_spec c 91) as [E91|E91]; cbn [negb] in H; [|injection H as <- <-; exact Hnone].
  destruct (Z.ltb_spec (zlen (line_of l) - 1) (p0 + 1)) as [Hl1|Hl1]; [injection H as <- <-; exact Hnone|].
  bind_inv H c2 Ec2. destruct (negb (N.eqb c2 94)); [injection H as <- <-; exact Hnone|].
  set (closure := find_closure_bytes punct_table (zskip (p0 + 1 + 1) (line_of l)) 91%N 93%N) in *.
  destruct (Z.ltb_spec closure 0) as [Hcl|Hcl]; [injection H as <- <-; exact Hnone|].
  destruct (Z.leb_spec (zlen (line_of l)) (p0 + 1 + 1 + closure + 1)) as [Hnx|Hnx]; [injection H as <- <-; exact Hnone|].
  bind_inv H c3 Ec3. destruct (negb (N.eqb c3 58)); [injection H as <- <-; exact Hnone|].
  bind_inv H label Elab.
  destruct (Reader.is_blank space_table label); [injection H as <- <-; exact Hnone|].
  (* the line and the position of the opening bracket *)
  destruct l as [v|]; [|cbn [line_of] in Ec; apply at_inv in Ec; unfold zlen in Ec; cbn [length] in Ec; lia].
  destruct (peeked_some _ _ El v eq_refl) as [Hir Hv]. cbn [line_of] in *.
  apply at_inv in Ec. destruct Ec as [Hpr Hnth]. rewrite E91 in Hnth.
  pose proof (CC R2_bounds _ (proj1 HS)) as Hb. pose proof HS as [[Hinv [Hsrc Hpadinv]] _].
  rewrite Hv in Hnth. rewrite view_spaces in Hnth.
  pose proof (view_idx_pad _ _ _ _ (proj1 Hpr) Hnth ltac:(discriminate)) as Hpp.
  assert (zlen v = s_pad (r_pos (s_r s)) + (s_stop (r_pos (s_r s)) - s_start (r_pos (s_r s)))) as Hzv
    by (rewrite Hv; apply view_zlen; exact Hinv).
  pose proof (ri_pad _ Hinv) as Hpad0.
  set (lseg := mkseg (s_start sg + (p0 + 1 + 1) - s_pad sg) (s_start sg + (p0 + 1 + 1 + closure) - s_pad sg)) in *.
  assert (seg_inr src lseg) as Hlseg.
  { subst lseg sg. unfold seg_inr. cbn [mkseg s_start s_stop s_pad]. lia. }
  pose proof (nodeP_fn _ Hlseg) as HnP.
  change (set_seg (set_i2 (mknode BBlockquote fn_footnote) (-1)) (Some lseg)) with (fn_node lseg) in H.
  unfold new_node, halloc in H. cbv beta iota zeta in H.
  destruct (Z.leb_spec (zlen v) (p0 + 1 + 1 + closure + 1 + 1 - s_pad sg)) as [Hle|Hgt].
  - (* NoChildren *)
    bind_inv H s3 Ea. injection H as <- <-.
    unfold advance_s in Ea. cbn [st_h s_r s_h s_c] in Ea. bind_inv Ea r3 Er. injection Ea as <-.
    assert (advance_s s1 (p0 + 1 + 1 + closure + 1 + 1 - s_pad sg) = Ok (st_r s1 r3)) as Ea
      by (unfold advance_s; rewrite Er; reflexivity).
    destruct (CC adv_s_weak _ _ _ _ _ _ HS1 Ea) as [HS3 [Eh3 Ec3']].
    csplit.
    + eapply (CC open_post_some) with (s1 := st_r s1 r3) (n := fn_node lseg);
        try reflexivity; try (cbn [st_r s_h s_c]; congruence); try discriminate.
      apply (CC SInv_alloc); auto; discriminate.
    + cbn [st_r st_h s_c]. congruence.
    + exists lseg. cbn [st_r st_h s_h]. congruence.
  - (* HasChildren *)
    cbn [st_h s_r s_h s_c] in H. bind_inv H r3 Er. injection H as <- <-.
    assert (r_in_range (s_r s1) = true) as Hir1 by congruence.
    assert (R2 src r3 /\ Rle (s_r s1) r3) as [HR3 Hle3].
    { eapply adv_pad_ok; [exact (proj1 HS1)| | |exact Er].
      - subst sg. lia.
      - intros _. right. split; [subst sg; lia|exact Hir1]. }
    pose proof (CC SInv_reader _ _ _ _ _ HS1 HR3 Hle3) as HS3.
    assert (SInv FF (st_h (st_r s1 r3) (s_h (st_r s1 r3) ++ [fn_node lseg])) A D N) as HF.
    { apply (CC SInv_alloc); auto; discriminate. }
    csplit.
    + eapply (CC open_post_some) with (s1 := st_r s1 r3) (n := fn_node lseg);
        try reflexivity; try (cbn [st_r s_h s_c]; congruence); try discriminate.
      * apply (CC SInv_FW). exact HF.
      * intros _. split; [reflexivity|exact HF].
    + cbn [st_r st_h s_c]. congruence.
    + exists lseg. cbn [st_r st_h s_h]. congruence.
Qed.

Lemma footnote_continue_ok s s' cont A D N : SInv FF s A D N -> r_in_range (s_r s) = true ->
  footnote_continue space_table s = Ok (s', cont) ->
  cont_post PBlockquote s s' cont A D N /\ s_h s' = s_h s.
Proof.
  intros HS Hir H. unfold footnote_continue in H.
  bind_inv H x Ex. destruct x as [[s1 l] sg].
  destruct (CC peek_s_ok _ _ _ _ _ _ _ HS Ex) as [HS1 [Eh1 [Ec1 [Ep1 [Esg [El [Ein Esrc1]]]]]]].
  rewrite Hir in El. subst l. cbn [line_of] in H.
  destruct (Reader.is_blank space_table (r_view (s_r s))).
  { injection H as <- <-. unfold cont_post. cbn [pkind container]. rewrite Ec1. csplit; auto. }
  bind_inv H y Ey. destruct y as [s2 off].
  destruct (CC loff_s_ok _ _ _ _ _ _ HS1 Ey) as [HS2 [Eh2 [Ec2 [Ep2 Ein2]]]].
  destruct (indent_position (r_view (s_r s)) off 4) as [childpos padding] eqn:Eip.
  destruct (Z.ltb_spec childpos 0) as [Hneg|Hpos].
  { injection H as <- <-. unfold cont_post. cbn [pkind container]. rewrite Ec2, Ec1. csplit; auto; congruence. }
  bind_inv H r Er. injection H as <- <-.
  destruct (ip_range _ _ 4 _ _ ltac:(lia) Eip) as [[Hp _]|[Hp [Hq Hpq]]]; [lia|].
  assert (R2 src r /\ Rle (s_r s2) r) as [HR3 Hle3].
  { eapply adv_pad_ok; [exact (proj1 HS2)|exact (proj1 Hp)| |exact Er].
    intros Hq0. right. split; [lia|congruence]. }
  pose proof (CC SInv_reader _ _ _ _ _ HS2 HR3 Hle3) as HS3.
  unfold cont_post. cbn [pkind container st_r s_c s_h]. rewrite Ec2, Ec1. csplit; auto; congruence.
Qed.

End O.
