(* The inline parsers of the GFM extensions (model/InlineParseX.v strike_parse, task_parse,
   linkify_parse) over the state invariant SInv of proofs/ParseInlineTotalParsers.v: each returns
   Ok, and a returned node comes with a reader that has moved forward (PPost). *)
Require Import GM.model.Base GM.model.Util GM.model.Reader GM.model.ReaderSpec GM.model.ListItem GM.model.LeafBlocks
               GM.model.CodeSpan GM.model.LinkDest GM.model.Regex GM.model.Delim GM.model.BlockParse GM.model.Html GM.model.InlineParse
               GM.model.InlineParseX.
Require Import GM.proofs.BReaderProofs GM.proofs.BlockRangeProofs GM.proofs.RegexProofs.
Require Import GM.proofs.ParseInlineTotalHeap GM.proofs.ParseInlineTotalDelim GM.proofs.ParseInlineTotalEmph
               GM.proofs.ParseInlineTotalLabel GM.proofs.ParseInlineTotalCtx GM.proofs.ParseInlineTotalTree
               GM.proofs.ParseInlineTotalReader GM.proofs.ParseInlineTotalReader2 GM.proofs.ParseInlineTotalParsers
               GM.proofs.GfmWfTotInlRe.
From Coq Require Import ZArith Lia List Arith Bool.
Import ListNotations.
Open Scope Z_scope.

(* ---------- the byte scans of linkify.go ---------- *)
Lemma back_trail_range line : forall f i, 0 <= i -> 0 <= back_trail f line i <= i.
Proof.
  induction f as [|f IH]; intros i Hi; cbn [back_trail]; [lia|].
  destruct (Z.ltb_spec 0 i) as [H|H]; cbn [andb]; [|lia].
  destruct (is_link_trail (nth_byte line i)); [|lia].
  specialize (IH (i - 1)). lia.
Qed.

Lemma back_alnum_le line : forall f i, back_alnum f line i <= i.
Proof.
  induction f as [|f IH]; intros i; cbn [back_alnum]; [lia|].
  destruct ((0 <=? i) && is_alnum_byte (nth_byte line i))%bool; [|lia]. specialize (IH (i - 1)). lia.
Qed.

(* the scan stops at the latest at a byte that is neither a letter nor a digit *)
Lemma back_alnum_ge line k : is_alnum_byte (nth_byte line k) = false ->
  forall f i, k <= i -> k <= back_alnum f line i.
Proof.
  intros Hk. induction f as [|f IH]; intros i Hi; cbn [back_alnum]; [lia|].
  destruct ((0 <=? i) && is_alnum_byte (nth_byte line i))%bool eqn:E; [|lia].
  apply IH. destruct (Z.eq_dec i k) as [X|X]; [|lia]. subst i.
  rewrite Hk, andb_false_r in E. discriminate.
Qed.

Lemma paren_balance_le v : paren_balance v <= zlen v.
Proof.
  induction v as [|c r IH]; [cbn; unfold zlen; cbn; lia|].
  cbn [paren_balance]. rewrite zlen_cons. destruct (N.eqb c 41); [lia|]. destruct (N.eqb c 40); lia.
Qed.

Lemma index_byte_range c : forall v off i, 0 <= i < zlen v -> nth_byte v i = c ->
  off <= index_byte c v off <= off + i.
Proof.
  induction v as [|x r IH]; intros off i Hi Hn.
  - unfold zlen in Hi. cbn in Hi. lia.
  - cbn [index_byte]. destruct (N.eqb_spec x c) as [E|E]; [lia|].
    rewrite zlen_cons in Hi.
    assert (Hi0 : i <> 0).
    { intros X. subst i. unfold nth_byte in Hn. cbn in Hn. contradiction. }
    specialize (IH (off + 1) (i - 1)).
    assert (Hn' : nth_byte r (i - 1) = c).
    { unfold nth_byte in *. replace (Z.to_nat i) with (S (Z.to_nat (i - 1))) in Hn by lia. exact Hn. }
    specialize (IH ltac:(lia) Hn'). lia.
Qed.

Lemma count_while_range f l : 0 <= count_while f l <= zlen l.
Proof.
  induction l as [|c r IH]; cbn [count_while]; [unfold zlen; cbn; lia|].
  rewrite zlen_cons. destruct (f c); lia.
Qed.

(* util.FindEmailIndex: the index it returns lies behind an '@' that is not the first byte *)
Lemma find_email_index_range email_table re_email_domain b :
  0 <= find_email_index email_table re_email_domain b ->
  exists i, 1 <= i /\ nth_byte b i = 64%N /\ i + 1 <= find_email_index email_table re_email_domain b <= zlen b.
Proof.
  unfold find_email_index. cbv zeta.
  set (i := count_while (fun c => tbit email_table c 1) b).
  pose proof (count_while_range (fun c => tbit email_table c 1) b) as Hi. fold i in Hi.
  destruct (Z.eqb_spec i 0) as [E0|E0]; [lia|].
  destruct (Z.leb_spec (zlen b) i) as [E1|E1]; cbn [orb]; [lia|].
  destruct (N.eqb_spec (nth_byte b i) 64) as [E2|E2]; cbn [negb]; [|lia].
  destruct (Z.leb_spec (zlen b) (i + 1)) as [E3|E3]; [lia|].
  destruct (re_find re_email_domain (zskip (i + 1) b)) as [caps|] eqn:Ef; [|lia].
  destruct (re_find_range _ _ _ Ef) as (a & e & Ecap & Hae & He & _). rewrite Ecap.
  intros _. exists i. split; [lia|]. split; [exact E2|].
  rewrite br_zlen_zskip in He by lia. lia.
Qed.

Lemma prefix_of_cons a p s : prefix_of (a :: p) s = true -> exists s', s = a :: s' /\ prefix_of p s' = true.
Proof.
  destruct s as [|b s']; cbn [prefix_of]; [discriminate|]. intros H. apply andb_prop in H. destruct H as [H1 H2].
  apply N.eqb_eq in H1. subst b. exists s'. auto.
Qed.

(* what linkify.go knows of the line before it runs its regular expressions: the line begins
   with a letter and has a ':' or a '.' at index 3, 4 or 5 *)
Definition link_head (line : bytes) : Prop :=
  (exists c rest, line = c :: rest /\ N.eqb c 41 = false /\ N.eqb c 40 = false) /\
  exists k, 3 <= k <= 5 /\ is_alnum_byte (nth_byte line k) = false.

Lemma link_head_proto line :
  (prefix_of proto_http line || prefix_of proto_https line || prefix_of proto_ftp line)%bool = true -> link_head line.
Proof.
  intros H. apply orb_prop in H. destruct H as [H|H]; [apply orb_prop in H; destruct H as [H|H]|].
  - unfold proto_http in H. repeat (apply prefix_of_cons in H; destruct H as (? & -> & H)).
    split; [eexists _, _; split; [reflexivity|split; reflexivity]|]. exists 4. split; [lia|reflexivity].
  - unfold proto_https in H. repeat (apply prefix_of_cons in H; destruct H as (? & -> & H)).
    split; [eexists _, _; split; [reflexivity|split; reflexivity]|]. exists 5. split; [lia|reflexivity].
  - unfold proto_ftp in H. repeat (apply prefix_of_cons in H; destruct H as (? & -> & H)).
    split; [eexists _, _; split; [reflexivity|split; reflexivity]|]. exists 3. split; [lia|reflexivity].
Qed.

Lemma link_head_www line : prefix_of domain_www line = true -> link_head line.
Proof.
  intros H. unfold domain_www in H. repeat (apply prefix_of_cons in H; destruct H as (? & -> & H)).
  split; [eexists _, _; split; [reflexivity|split; reflexivity]|]. exists 3. split; [lia|reflexivity].
Qed.

Lemma at_ok line i : 0 <= i < zlen line -> exists c, at_ line i = Ok c.
Proof.
  intros H. unfold at_. destruct (Z.leb_spec 0 i); [|lia]. destruct (Z.ltb_spec i (zlen line)); [|lia].
  cbn [andb]. eexists. reflexivity.
Qed.

(* the end of the link after the rules for a final '.', ')' and ';' *)
Lemma url_match_end_spec line e : link_head line -> 7 <= e <= zlen line ->
  exists e', url_match_end line e = Ok e' /\ 1 <= e' <= e.
Proof.
  intros [(c & rest & El & Hc41 & Hc40) (k & Hk & Hal)] He. unfold url_match_end.
  destruct (at_ok line (e - 1)) as [lc Elc]; [lia|]. rewrite Elc. cbn [bind].
  destruct (N.eqb lc 46); [eexists; split; [reflexivity|lia]|].
  destruct (N.eqb lc 41).
  { assert (Hpb : paren_balance (zfirst e line) <= e - 1).
    { subst line. unfold zfirst. replace (Z.to_nat e) with (S (Z.to_nat (e - 1))) by lia. cbn [firstn paren_balance].
      rewrite Hc41, Hc40. pose proof (paren_balance_le (firstn (Z.to_nat (e - 1)) rest)) as X.
      assert (zlen (firstn (Z.to_nat (e - 1)) rest) <= e - 1).
      { unfold zlen. rewrite firstn_length. lia. }
      lia. }
    eexists. split; [reflexivity|]. destruct (Z.ltb_spec 0 (paren_balance (zfirst e line))); lia. }
  destruct (N.eqb lc 59); [|eexists; split; [reflexivity|lia]].
  pose proof (back_alnum_le line (length line) (e - 2)) as Hle.
  pose proof (back_alnum_ge line k Hal (length line) (e - 2) ltac:(lia)) as Hge.
  destruct (Z.eqb_spec (back_alnum (length line) line (e - 2)) (e - 2)) as [E|E]; cbn [negb];
    [eexists; split; [reflexivity|lia]|].
  destruct (at_ok line (back_alnum (length line) line (e - 2))) as [ac Eac]; [lia|]. rewrite Eac. cbn [bind].
  eexists. split; [reflexivity|]. destruct (N.eqb ac 38); lia.
Qed.

Section St.
Variable src : bytes.
Variable segs : list seg.
Variable first : seg.
Hypothesis Hfirst : hd_error segs = Some first.
Notation lo := (s_start first).
Notation CInv := (CInv src lo).
Notation RI := (RI src segs).
Notation KOK := (KOK src lo).
Notation SInv := (SInv src segs first).
Notation PPost := (PPost src segs first).

(* flushing a text segment into the block *)
Lemma sinv_flush s dl ll bt : SInv s dl ll -> seg_in src bt ->
  exists c', merge_or_append (t_c s) 0%nat bt = Ok c' /\ SInv (ist_c s c') dl ll.
Proof.
  intros [C R B] Hbt. pose proof (ci_d _ _ _ _ _ C) as [W K A D].
  destruct (merge_or_append_spec src lo (t_c s) 0%nat bt W K A (w_len _ W) Hbt) as (c' & E & W' & K' & A' & CS & DS & L' & Pn).
  exists c'. split; [exact E|]. constructor; cbn [ist_c t_c t_r].
  - eapply CInv_tree; [exact C| | | | | |]; try assumption.
    intros y Hy. rewrite Pn; [tauto|]. destruct Hy as [Hy|Hy]; [apply isdk_lt in Hy|apply islk_lt in Hy]; exact Hy.
  - exact R.
  - destruct B as [B1 B2]. destruct DS as [DV LV]. split.
    + rewrite (sumlen_frame (i_h (t_c s)) (i_h c')) by (intros y _; apply dcoreh_dv; exact DV). exact B1.
    + eapply lab_le_lv; [exact LV|exact B2].
Qed.

(* ---------- extension/strikethrough.go ---------- *)
Variable punct_rune space_rune : N -> bool.

Lemma strike_parse_spec s dl ll : SInv s dl ll -> b_in_range (t_r s) = true ->
  exists s' res, strike_parse punct_rune space_rune s = Ok (s', res) /\ PPost s s' res.
Proof.
  intros Iv Hin. pose proof Iv as [C R B]. unfold strike_parse.
  destruct (ri_preceding src segs (t_r s) R) as [before Eb]. rewrite Eb. cbn [bind].
  rewrite (ri_peek_line src segs _ R). cbn [bind]. rewrite Hin. cbn [line_of].
  destruct (ri_view src segs _ R Hin) as (_ & Elen & Hrange & Hstop & tl & Er).
  assert (Hne : b_view (t_r s) <> []).
  { intros X. rewrite X in Elen. change (zlen (@nil N)) with 0 in Elen. lia. }
  destruct (scan_delimiter_ok punct_rune space_rune (fun c => N.eqb c 126) (b_view (t_r s)) before 1 Hne) as [d Ed].
  rewrite Ed. cbn [bind]. destruct d as [[[[co cc] len] ch]|].
  2:{ eexists _, None. split; [reflexivity|]. apply (PPost_none_r _ _ _ _ dl ll). exact Iv. }
  destruct ((2 <? len) || N.eqb before 126)%bool.
  { eexists _, None. split; [reflexivity|]. apply (PPost_none_r _ _ _ _ dl ll). exact Iv. }
  apply scan_delimiter_in_range in Ed. destruct Ed as (Hlen & _ & _).
  rewrite new_inode_eq. cbn [t_c t_r ist_r i_h cx_h].
  destruct (ri_advance_rle src segs (t_r s) len R) as (r1 & E1 & HR1 & Hle1 & Hrest1 & _).
  { rewrite Er, zlen_app. pose proof (zlen_nonneg tl). lia. }
  rewrite E1. cbn [bind].
  destruct (push_delim_append src lo (t_c s) dl ll (seg_with_stop (b_pos (t_r s)) (s_start (b_pos (t_r s)) + len)) co cc len len ch C)
    as (c2 & h4 & E2 & E4 & C4 & _ & SL4 & _ & LV4).
  { cbn. cbn [seg_with_stop mksegp s_start s_stop]. lia. }
  { lia. }
  rewrite E2. cbn [bind]. eexists _, (Some _). split; [reflexivity|].
  exists (dl ++ [length (i_h (t_c s))]), ll, h4. cbn [t_c t_r ist_c]. split; [exact E4|]. split; [|lia].
  constructor; cbn [t_c t_r ist_c].
  - exact C4.
  - exact HR1.
  - destruct B as [B1 B2]. split; cbn [i_h cx_h].
    + rewrite SL4. lia.
    + eapply lab_le_lv; [exact LV4|]. eapply lab_le_mono; [|exact B2]. destruct Hle1. lia.
Qed.

(* ---------- extension/tasklist.go ---------- *)
Variable re_task : re.
Hypothesis Htask : task_caps_ok re_task.

Lemma task_parse_spec in_item s dl ll : SInv s dl ll -> b_in_range (t_r s) = true ->
  exists s' res, task_parse re_task in_item s 0%nat = Ok (s', res) /\ PPost s s' res.
Proof.
  intros Iv Hin. pose proof Iv as [C R B]. unfold task_parse.
  destruct (negb in_item).
  { eexists _, None. split; [reflexivity|]. apply (PPost_none_same _ _ _ _ dl ll). exact Iv. }
  pose proof (ci_d _ _ _ _ _ C) as [W K A D].
  destruct (nth_error_ex_lt _ _ (w_len _ W)) as [pn Hpn]. rewrite (iget_ok _ _ _ Hpn). cbn [bind].
  destruct (ich pn).
  2:{ eexists _, None. split; [reflexivity|]. apply (PPost_none_same _ _ _ _ dl ll). exact Iv. }
  rewrite (ri_peek_line src segs _ R). cbn [bind]. rewrite Hin. cbn [line_of].
  destruct (ri_view src segs _ R Hin) as (_ & Elen & Hrange & Hstop & tl & Er).
  destruct (re_find re_task (b_view (t_r s))) as [caps|] eqn:Ef.
  2:{ eexists _, None. split; [reflexivity|]. apply (PPost_none_r _ _ _ _ dl ll). exact Iv. }
  destruct (Htask _ _ Ef) as (a & m1 & m2 & m3 & E0 & E1 & H23 & H3 & H1). rewrite E0, E1.
  destruct (Z.ltb_spec m2 0); [lia|]. destruct (Z.ltb_spec m3 m2); [lia|].
  destruct (Z.ltb_spec (zlen (b_view (t_r s))) m3); [lia|]. cbn [orb].
  destruct (Z.eqb_spec m3 m2); [lia|]. cbn [t_c t_r ist_r].
  destruct (ri_advance_rle src segs (t_r s) m1 R) as (r1 & Ea & HR1 & Hle1 & Hrest1 & _).
  { rewrite Er, zlen_app. pose proof (zlen_nonneg tl). lia. }
  rewrite Ea. cbn [bind]. rewrite new_inode_eq. eexists _, (Some _). split; [reflexivity|].
  apply (PPost_fresh src segs first s dl ll); try assumption; try reflexivity; try exact Logic.I. lia.
Qed.

(* ---------- extension/linkify.go ---------- *)
Variable punct_table email_table : list N.
Variable re_email_domain re_url re_www : re.
Hypothesis Hurl : 7 <= re_minlen re_url.
Hypothesis Hwww : 7 <= re_minlen re_www.

Lemma match_at_zero_find rx line e : 7 <= re_minlen rx ->
  match_at_zero (re_find rx line) = Some e -> 7 <= e <= zlen line.
Proof.
  intros Hrx. unfold match_at_zero. destruct (re_find rx line) as [caps|] eqn:Ef; [|discriminate].
  destruct (re_find_minlen _ _ _ Ef) as (a & b & Ecap & Ha & Hab & Hb). rewrite Ecap.
  destruct (Z.eqb_spec a 0); [|discriminate]. intros X. inversion X; subst. lia.
Qed.

Lemma linkify_parse_spec s dl ll : SInv s dl ll -> b_in_range (t_r s) = true ->
  exists s' res, linkify_parse punct_table email_table re_email_domain re_url re_www s 0%nat = Ok (s', res) /\
    PPost s s' (option_map fst res).
Proof.
  intros Iv Hin. pose proof Iv as [C R B]. unfold linkify_parse.
  destruct (i_labels (t_c s)).
  { eexists _, None. split; [reflexivity|]. apply (PPost_none_same _ _ _ _ dl ll). exact Iv. }
  rewrite (ri_peek_line src segs _ R). cbn [bind]. rewrite Hin.
  destruct (ri_view src segs _ R Hin) as (_ & Elen & Hrange & Hstop & tl & Er).
  destruct (b_view (t_r s)) as [|c0 vt] eqn:Ev.
  { change (zlen (@nil N)) with 0 in Elen. lia. }
  rewrite zlen_cons in Elen. pose proof (zlen_nonneg vt) as Hvt. pose proof (zlen_nonneg tl) as Htl.
  set (skip := (N.eqb c0 32 || N.eqb c0 42 || N.eqb c0 95 || N.eqb c0 126 || N.eqb c0 40)%bool).
  set (consumes := if skip then 1 else 0).
  set (line := if skip then vt else c0 :: vt).
  assert (Hcons : 0 <= consumes <= 1) by (unfold consumes; destruct skip; lia).
  assert (Hline : zlen line = 1 + zlen vt - consumes).
  { unfold line, consumes. destruct skip; [lia|rewrite zlen_cons; lia]. }
  cbn [t_c t_r ist_r].
  (* the end of the link *)
  match goal with |- exists s' res, (e <- ?X ;; _) = Ok (s', res) /\ _ =>
    assert (He : exists eo, X = Ok eo /\ match eo with Some (e, _) => 1 <= e <= zlen line | None => True end) end.
  { match goal with |- context [match_at_zero ?M2] => destruct (match_at_zero M2) as [e|] eqn:Em end.
    - assert (Hh : link_head line /\ 7 <= e <= zlen line).
      { destruct ((prefix_of proto_http line || prefix_of proto_https line || prefix_of proto_ftp line)%bool) eqn:Ep.
        - destruct (re_find re_url line) as [cu|] eqn:Eu.
          + cbn [andb] in Em. split; [apply link_head_proto; exact Ep|]. rewrite <- Eu in Em. apply (match_at_zero_find re_url); assumption.
          + cbn [andb] in Em. destruct (prefix_of domain_www line) eqn:Ew; [|discriminate Em].
            split; [apply link_head_www; exact Ew|]. apply (match_at_zero_find re_www); assumption.
        - cbn [andb] in Em. destruct (prefix_of domain_www line) eqn:Ew; [|discriminate Em].
          split; [apply link_head_www; exact Ew|]. apply (match_at_zero_find re_www); assumption. }
      destruct Hh as [Hh Hel]. destruct (url_match_end_spec line e Hh Hel) as (e' & Ee' & He').
      rewrite Ee'. cbn [bind]. eexists. split; [reflexivity|]. cbv beta iota. lia.
    - destruct (match line with c :: _ => Util.is_punct punct_table c | [] => false end); [exists None; auto|].
      pose proof (find_email_index_range email_table re_email_domain line) as Hfe.
      destruct (Z.ltb_spec (find_email_index email_table re_email_domain line) 0) as [Hs|Hs]; [exists None; auto|].
      destruct (Hfe Hs) as (i & Hi1 & Hi64 & Hstop'). clear Hfe.
      set (stop := find_email_index email_table re_email_domain line) in *.
      pose proof (index_byte_range 64%N line 0 i ltac:(lia) Hi64) as Hat.
      destruct (Z.ltb_spec (index_byte 64%N line 0) 0); [lia|].
      destruct (Z.ltb_spec (stop - 1) (index_byte 64%N line 0)); [lia|].
      destruct (Z.ltb_spec (zlen line) (stop - 1)); [lia|]. cbn [orb].
      destruct (_ <? 0); [exists None; auto|].
      destruct (at_ok line (stop - 1)) as [lc Elc]; [lia|]. rewrite Elc. cbn [bind].
      set (e := if N.eqb lc 46 then stop - 1 else stop).
      assert (Hee : 1 <= e <= zlen line) by (unfold e; destruct (N.eqb lc 46); lia).
      destruct (Z.ltb_spec e (zlen line)) as [Hez|Hez].
      + destruct (at_ok line e) as [nc Enc]; [lia|]. rewrite Enc. cbn [bind].
        destruct (N.eqb nc 45 || N.eqb nc 95)%bool; [exists None; auto|].
        eexists. split; [reflexivity|]. exact Hee.
      + eexists. split; [reflexivity|]. exact Hee. }
  destruct He as (eo & Ee & Peo). rewrite Ee. cbn [bind].
  destruct eo as [[e email]|].
  2:{ eexists _, None. split; [reflexivity|]. apply (PPost_none_r _ _ _ _ dl ll). exact Iv. }
  (* the skipped byte becomes text *)
  assert (Hc : exists c', (if skip then merge_or_append (t_c s) 0%nat (seg_with_stop (b_pos (t_r s)) (s_start (b_pos (t_r s)) + 1))
                           else Ok (t_c s)) = Ok c' /\ SInv (ist_c s c') dl ll).
  { destruct skip.
    - apply sinv_flush; [exact Iv|]. unfold seg_in. cbn [seg_with_stop mksegp s_start s_stop]. lia.
    - exists (t_c s). split; [reflexivity|]. constructor; assumption. }
  destruct Hc as (c' & Ec & Iv'). rewrite Ec. cbn [bind].
  pose proof (back_trail_range line (length line) (e - 1) ltac:(lia)) as Hbt.
  set (i := back_trail (length line) line (e - 1) + 1) in *.
  destruct (ri_advance_rle src segs (t_r s) (consumes + i) R) as (r1 & Ea & HR1 & Hle1 & Hrest1 & _).
  { rewrite Er, zlen_app, zlen_cons. lia. }
  rewrite Ea. cbn [bind]. rewrite new_inode_eq. eexists _, (Some (_, _)). split; [reflexivity|].
  cbn [option_map fst].
  match goal with |- ParseInlineTotalParsers.PPost _ _ _ s ?S' ?R => change (PPost (ist_c s c') S' R) end.
  apply (PPost_fresh src segs first (ist_c s c') dl ll); cbn [ist_c t_c t_r]; try assumption; try reflexivity; [|lia].
  cbn. unfold seg_in. cbn [mkseg s_start s_stop s_pad s_fnl]. lia.
Qed.

End St.
