(* Helper file for ParseBlocksTotal.v: the loop over the opened blocks for one line (each_opened)
   under the line invariant LineInv. *)
Require Import GM.model.Base GM.model.Util GM.model.Reader GM.model.ReaderSpec GM.model.Blocks GM.model.ListItem
               GM.model.LeafBlocks GM.model.CodeBlock GM.model.LinkDest GM.model.Regex GM.model.BlockParse.
Require Import GM.proofs.ReaderProofs GM.proofs.BlocksProofs
               GM.proofs.ParseBlocksTotalReader GM.proofs.ParseBlocksTotalDefs GM.proofs.ParseBlocksTotalSpec
               GM.proofs.ParseBlocksTotalSt GM.proofs.ParseBlocksTotalShape
               GM.proofs.ParseBlocksTotalLeaf2 GM.proofs.ParseBlocksTotalCont GM.proofs.ParseBlocksTotalPair
               GM.proofs.ParseBlocksTotalClose GM.proofs.ParseBlocksTotalOpen.
From Coq Require Import ZArith Lia List Bool.
Open Scope Z_scope.

(* ---------- lists ---------- *)
Lemma eo_nth_lo {A} (l new : list A) j k : (k < j)%nat -> (j <= length l)%nat ->
  nth_error (firstn j l ++ new) k = nth_error l k.
Proof.
  intros Hk Hj. rewrite nth_error_app1 by (rewrite firstn_length; lia).
  revert l k Hk Hj. induction j as [|j IH]; intros l k Hk Hj; [lia|].
  destruct l as [|x l]; [cbn in Hj; lia|]. destruct k as [|k]; [reflexivity|]. cbn [firstn nth_error].
  apply IH; cbn [length] in Hj; lia.
Qed.
Lemma eo_nth_hi {A} (l new : list A) j k : (j <= k)%nat -> (j <= length l)%nat ->
  nth_error (firstn j l ++ new) k = nth_error new (k - j).
Proof.
  intros Hk Hj. rewrite nth_error_app2 by (rewrite firstn_length; lia). rewrite firstn_length. f_equal. lia.
Qed.
Lemma eo_len_glue {A} (l new : list A) j : (j <= length l)%nat -> length (firstn j l ++ new) = (j + length new)%nat.
Proof. intros Hj. rewrite app_length, firstn_length. lia. Qed.

Lemma eo_par_at_lo p0 (cap new : list (nat * bparser)) j k : (j <= length cap)%nat -> (k <= j)%nat ->
  par_at p0 (firstn j cap ++ new) k = par_at p0 cap k.
Proof.
  intros Hj Hk. destruct k as [|k]; [reflexivity|]. cbn [par_at]. f_equal.
  rewrite app_nth1 by (rewrite firstn_length; lia). apply nth_firstn_lt. lia.
Qed.
Lemma eo_par_at_hi p0 (cap new : list (nat * bparser)) j k : (j <= length cap)%nat -> (j <= k)%nat ->
  par_at p0 (firstn j cap ++ new) k = par_at (par_at p0 cap j) new (k - j).
Proof.
  intros Hj Hk. destruct (k - j)%nat as [|m] eqn:E.
  - assert (k = j) by lia. subst k. cbn [par_at]. apply eo_par_at_lo; lia.
  - assert (k = S (j + m)) by lia. subst k. cbn [par_at]. f_equal.
    rewrite app_nth2 by (rewrite firstn_length; lia). rewrite firstn_length. f_equal. lia.
Qed.

(* suffix of the first part of an appended list *)
Lemma eo_range_suffix {A} (base new : list A) j : (j <= length base)%nat ->
  firstn (length base - j) (skipn j (base ++ new)) = skipn j base.
Proof.
  intros Hj. rewrite skipn_app. replace (j - length base)%nat with O by lia. cbn [skipn].
  rewrite <- (skipn_length j base). rewrite firstn_app, Nat.sub_diag, firstn_all. cbn [firstn]. apply app_nil_r.
Qed.
Lemma eo_range_of (base new : list (nat * bparser)) j : (j <= length base)%nat ->
  range_of (base ++ new) (Z.to_nat (zlen base - 1 - Z.of_nat j + 1)) (zlen base - 1) = skipn j base.
Proof.
  intros Hj. unfold range_of, zlen.
  replace (Z.to_nat (Z.of_nat (length base) - 1 - Z.of_nat j + 1)) with (length base - j)%nat by lia.
  replace (Z.to_nat (Z.of_nat (length base) - 1 + 1 - Z.of_nat (length base - j))) with j by lia.
  apply eo_range_suffix, Hj.
Qed.
Lemma eo_after_close {A} (base new : list A) j : (j <= length base)%nat ->
  firstn j (base ++ new) ++ skipn (length base) (base ++ new) = firstn j base ++ new.
Proof.
  intros Hj. rewrite firstn_app. replace (j - length base)%nat with O by lia. cbn [firstn]. rewrite app_nil_r.
  rewrite skipn_app, Nat.sub_diag, skipn_all. reflexivity.
Qed.

(* ---------- chains ---------- *)
Lemma eo_chain_frame h h' parent l : Chain h parent l ->
  (forall n p nn, In (n, p) l -> nth_error h n = Some nn -> exists nn', nth_error h' n = Some nn' /\ bpar nn' = bpar nn) ->
  (forall L Ln, In (L, PList) l -> nth_error h L = Some Ln -> exists Ln', nth_error h' L = Some Ln' /\ bch Ln' = bch Ln) ->
  Chain h' parent l.
Proof.
  intros HC Hp Hc. constructor.
  - intros k n p Hk. destruct (ch_par _ _ _ HC k n p Hk) as [nn [Hn Hpar]].
    destruct (Hp n p nn (nth_error_In _ _ Hk) Hn) as [nn' [Hn' Hpar']]. exists nn'. split; [exact Hn'|congruence].
  - exact (ch_cont _ _ _ HC).
  - intros k L Hk. destruct (ch_list _ _ _ HC k L Hk) as [it [Ln (A & B & C)]].
    destruct (Hc L Ln (nth_error_In _ _ Hk) B) as [Ln' [B' C']]. exists it, Ln'. csplit; auto. congruence.
Qed.

Lemma eo_chain_glue h0 h j cap new :
  Chain h0 0%nat cap -> (j <= length cap)%nat ->
  (forall k e, (k < j)%nat -> nth_error cap k = Some e -> is_container (snd e) = true) ->
  (forall k n p nn, (k < j)%nat -> nth_error cap k = Some (n, p) -> nth_error h0 n = Some nn ->
     exists nn', nth_error h n = Some nn' /\ bpar nn' = bpar nn) ->
  (forall k L Ln, (S k < j)%nat -> nth_error cap k = Some (L, PList) -> nth_error h0 L = Some Ln ->
     exists Ln', nth_error h L = Some Ln' /\ bch Ln' = bch Ln) ->
  (forall k L, j = S k -> nth_error cap k = Some (L, PList) ->
     exists it Ln, nth_error new 0%nat = Some (it, PListItem) /\ nth_error h L = Some Ln /\ last_id (bch Ln) = Some it) ->
  Chain h (par_at 0%nat cap j) new ->
  Chain h 0%nat (firstn j cap ++ new).
Proof.
  intros HC Hj Hcont Hpar Hch Hlist HN. constructor.
  - intros k n p Hk. destruct (Nat.lt_ge_cases k j) as [Hlt|Hge].
    + rewrite eo_nth_lo in Hk by lia. destruct (ch_par _ _ _ HC k n p Hk) as [nn [Hn Hp]].
      destruct (Hpar k n p nn Hlt Hk Hn) as [nn' [Hn' Hp']]. exists nn'. split; [exact Hn'|].
      rewrite Hp', Hp. f_equal. symmetry. apply eo_par_at_lo; lia.
    + rewrite eo_nth_hi in Hk by lia. destruct (ch_par _ _ _ HN _ n p Hk) as [nn [Hn Hp]]. exists nn.
      split; [exact Hn|]. rewrite Hp. f_equal. symmetry. apply eo_par_at_hi; lia.
  - intros k e Hk Hlen. rewrite eo_len_glue in Hlen by lia. destruct (Nat.lt_ge_cases k j) as [Hlt|Hge].
    + rewrite eo_nth_lo in Hk by lia. eapply Hcont; eauto.
    + rewrite eo_nth_hi in Hk by lia. eapply (ch_cont _ _ _ HN); [exact Hk|lia].
  - intros k L Hk. destruct (Nat.lt_ge_cases k j) as [Hlt|Hge].
    + rewrite eo_nth_lo in Hk by lia. destruct (Nat.eq_dec j (S k)) as [Ej|Ej].
      * destruct (Hlist k L Ej Hk) as [it [Ln (A & B & C)]]. exists it, Ln. split; [|auto].
        rewrite eo_nth_hi by lia. replace (S k - j)%nat with O by lia. exact A.
      * destruct (ch_list _ _ _ HC k L Hk) as [it [Ln (A & B & C)]].
        destruct (Hch k L Ln ltac:(lia) Hk B) as [Ln' [B' C']]. exists it, Ln'. rewrite eo_nth_lo by lia.
        split; [exact A|]. split; [exact B'|congruence].
    + rewrite eo_nth_hi in Hk by lia. destruct (ch_list _ _ _ HN _ L Hk) as [it [Ln (A & B & C)]]. exists it, Ln.
      rewrite eo_nth_hi by lia. replace (S k - j)%nat with (S (k - j)) by lia. auto.
Qed.

(* the last opened block, read off the slice *)
Lemma eo_last_opened c : (c_len c <= length (c_arr c))%nat ->
  last_opened c = nth_error (opened c) (pred (length (opened c))).
Proof.
  intros H. rewrite last_opened_spec by exact H. rewrite (opened_length c H).
  destruct (c_len c) as [|k] eqn:E; [|reflexivity]. unfold opened. rewrite E. reflexivity.
Qed.

Section S.
Variable space_table punct_table : list N.
Variable norm : bytes -> bytes.
Variable re_t1o re_t1c re_t2 re_t3 re_t4 re_t5 re_t6 re_t7 : re.
Variable allowed_tags : list bytes.
Variable src : bytes.
Hypothesis tbl : TblOK space_table.
Notation SI := (SI space_table src).
Notation LineInv := (LineInv space_table src).
Notation EO := (each_opened space_table punct_table norm re_t1o re_t1c re_t2 re_t3 re_t4 re_t5 re_t6 re_t7 allowed_tags).

(* the invariant inside the loop: the opened blocks are still the captured ones, and no paragraph
   line reaches the reader's position *)
Definition LineMid (cap : list (nat * bparser)) (s : st) : Prop :=
  LineInv s /\ ops s = cap /\ Below (s_h s) (s_r s).

Notation HInv := (HInv space_table src).
Notation OB := (open_blocks space_table punct_table norm re_t1o re_t1c re_t2 re_t3 re_t4 re_t5 re_t6 re_t7 allowed_tags).
Notation CB := (close_blocks space_table punct_table norm).
Notation OBK := (open_blocks_ok_fix space_table punct_table norm re_t1o re_t1c re_t2 re_t3 re_t4 re_t5 re_t6 re_t7 allowed_tags src tbl).
Notation CBK := (close_blocks_ok space_table punct_table norm re_t1o re_t1c re_t2 re_t3 re_t4 re_t5 re_t6 re_t7 allowed_tags src tbl).
Notation LF2 lem := (lem space_table punct_table norm re_t1o re_t1c re_t2 re_t3 re_t4 re_t5 re_t6 re_t7 allowed_tags src tbl).
Notation CT lem := (lem space_table src tbl).

(* ---------- basic access to the opened blocks ---------- *)
Lemma eo_ops_len s : SI s -> length (ops s) = c_len (s_c s).
Proof. intros HS. apply opened_length, (ci_len _ _ (si_c _ _ _ HS)). Qed.

Lemma eo_ops_node s k n p : SI s -> nth_error (ops s) k = Some (n, p) ->
  exists nn, nth_error (s_h s) n = Some nn /\ bk nn = kind_of_parser p.
Proof.
  intros HS Hk. apply nth_error_In in Hk. apply opened_in in Hk.
  exact (ci_arr _ _ (si_c _ _ _ HS) _ Hk).
Qed.

Lemma eo_last s : SI s -> last_opened (s_c s) = nth_error (ops s) (pred (length (ops s))).
Proof. intros HS. apply eo_last_opened, (ci_len _ _ (si_c _ _ _ HS)). Qed.

Lemma eo_par_at_S (cap : list (nat * bparser)) k n p : nth_error cap k = Some (n, p) -> par_at 0%nat cap (S k) = n.
Proof. intros H. cbn [par_at]. rewrite (nth_error_nth _ _ _ H). reflexivity. Qed.

(* a block below a List node is a list item *)
Lemma eo_parent_list s k n p pn : LineInv s -> nth_error (ops s) k = Some (n, p) ->
  nth_error (s_h s) (par_at 0%nat (ops s) k) = Some pn -> bk pn = BList -> p = PListItem.
Proof.
  intros HL Hk Hpn Kp. pose proof (li_si _ _ _ HL) as HS.
  destruct (ch_par _ _ _ (li_chain _ _ _ HL) k n p Hk) as [nn [Hn Hp]].
  destruct (eo_ops_node s k n p HS Hk) as [nn' [Hn' Kn]]. rewrite Hn in Hn'. injection Hn' as <-.
  pose proof (hi_listp _ _ _ (si_h _ _ _ HS) n nn _ pn Hn Hp Hpn Kp) as K. rewrite Kn in K.
  destruct p; cbn in K; congruence.
Qed.

(* a list item follows its list *)
Lemma eo_item_prev s k it : LineInv s -> nth_error (ops s) (S k) = Some (it, PListItem) ->
  exists L, nth_error (ops s) k = Some (L, PList).
Proof.
  intros HL Hk. pose proof (li_si _ _ _ HL) as HS.
  destruct (ch_par _ _ _ (li_chain _ _ _ HL) (S k) it PListItem Hk) as [nn [Hn Hp]]. cbn [par_at] in Hp.
  destruct (eo_ops_node s (S k) it PListItem HS Hk) as [nn' [Hn' Kn]]. rewrite Hn in Hn'. injection Hn' as <-.
  cbn [kind_of_parser] in Kn.
  destruct (nth_error (ops s) k) as [[L q]|] eqn:Ek.
  2:{ apply nth_error_None in Ek. apply nth_error_lt in Hk. lia. }
  rewrite (nth_error_nth _ _ _ Ek) in Hp. cbn [fst] in Hp.
  destruct (eo_ops_node s k L q HS Ek) as [Ln [HLn KL]].
  pose proof (hi_item _ _ _ (si_h _ _ _ HS) it nn L Ln Hn Kn Hp HLn) as K. rewrite KL in K.
  destruct q; cbn in K; try discriminate. exists L. reflexivity.
Qed.

Lemma eo_root_not_item s it : LineInv s -> nth_error (ops s) 0%nat <> Some (it, PListItem).
Proof.
  intros HL E. pose proof (li_si _ _ _ HL) as HS. destruct (li_root _ _ _ HL) as [n0 [H0 K0]].
  pose proof (eo_parent_list s 0%nat it PListItem n0 HL E H0) as K. cbn [par_at] in K.
  destruct (ch_par _ _ _ (li_chain _ _ _ HL) 0%nat it PListItem E) as [nn [Hn Hp]]. cbn [par_at] in Hp.
  destruct (eo_ops_node s 0%nat it PListItem HS E) as [nn' [Hn' Kn]]. rewrite Hn in Hn'. injection Hn' as <-.
  pose proof (hi_item _ _ _ (si_h _ _ _ HS) it nn 0%nat n0 Hn Kn Hp H0). congruence.
Qed.

(* the parent of position j lies before every block at position >= j *)
Lemma eo_par_lt s j m e : LineInv s -> (j <= m)%nat -> nth_error (ops s) m = Some e ->
  (par_at 0%nat (ops s) j < fst e)%nat.
Proof.
  intros HL Hjm Hm. pose proof (si_h _ _ _ (li_si _ _ _ HL)) as HH. destruct j as [|j]; cbn [par_at].
  - exact (chain_parent_lt space_table src _ _ _ HH (li_chain _ _ _ HL) m e Hm).
  - destruct (nth_error_ex_lt (ops s) j) as [a Ha]; [apply nth_error_lt in Hm; lia|].
    rewrite (nth_error_nth _ _ _ Ha).
    exact (chain_sorted space_table src _ _ _ HH (li_chain _ _ _ HL) j m a e ltac:(lia) Ha Hm).
Qed.

(* the parent of position j is a node of the heap *)
Lemma eo_par_node s j : LineInv s -> (j <= length (ops s))%nat ->
  exists pn, nth_error (s_h s) (par_at 0%nat (ops s) j) = Some pn /\
    (forall k n p, j = S k -> nth_error (ops s) k = Some (n, p) -> bk pn = kind_of_parser p).
Proof.
  intros HL Hj. destruct j as [|k].
  - destruct (li_root _ _ _ HL) as [n0 [H0 K0]]. exists n0. split; [exact H0|]. intros k n p C. discriminate.
  - destruct (nth_error_ex_lt (ops s) k ltac:(lia)) as [[n p] Hk].
    destruct (eo_ops_node s k n p (li_si _ _ _ HL) Hk) as [nn [Hn Kn]]. exists nn.
    rewrite (eo_par_at_S _ _ _ _ Hk). split; [exact Hn|]. intros k' n' p' E Hk'. injection E as <-.
    rewrite Hk in Hk'. injection Hk' as <- <-. exact Kn.
Qed.

Lemma eo_attached s : LineInv s -> forall e n, In e (ops s) -> nth_error (s_h s) (fst e) = Some n -> bpar n <> None.
Proof.
  intros HL [x p] n He Hn. apply In_nth_error in He. destruct He as [k Hk].
  destruct (ch_par _ _ _ (li_chain _ _ _ HL) k x p Hk) as [nn [Hn' Hp]]. cbn [fst] in Hn. rewrite Hn in Hn'.
  injection Hn' as <-. congruence.
Qed.

Lemma eo_lastok_cont h c : (forall n p, last_opened c = Some (n, p) -> is_container p = true) -> LastOK h c.
Proof. intros H n p nn E _. specialize (H n p E). split; intros ->; discriminate. Qed.

(* ---------- heap relations, backwards ---------- *)
Lemma eo_struct_back h h' j n' : hsame_struct h h' -> nth_error h' j = Some n' ->
  exists n, nth_error h j = Some n /\ bk n' = bk n /\ bch n' = bch n /\ bpar n' = bpar n /\ blines n' = blines n.
Proof.
  intros [L H] Hj. destruct (nth_error_ex_lt h j) as [n Hn]; [apply nth_error_lt in Hj; lia|].
  destruct (H j n Hn) as [n2 (A & B)]. rewrite Hj in A. injection A as <-. exists n. split; [exact Hn|exact B].
Qed.
Lemma eo_pc_back h h' j n' : hsame_pc h h' -> nth_error h' j = Some n' ->
  exists n, nth_error h j = Some n /\ bk n' = bk n /\ bch n' = bch n /\ bpar n' = bpar n.
Proof.
  intros [L H] Hj. destruct (nth_error_ex_lt h j) as [n Hn]; [apply nth_error_lt in Hj; lia|].
  destruct (H j n Hn) as [n2 (A & B)]. rewrite Hj in A. injection A as <-. exists n. split; [exact Hn|exact B].
Qed.
Lemma eo_struct_pc h h' : hsame_struct h h' -> hsame_pc h h'.
Proof.
  intros [L H]. split; [exact L|]. intros j n Hn. destruct (H j n Hn) as [n' (A & B & C & D & _)]. exists n'. auto.
Qed.

Lemma eo_chain_pc h h' parent l : Chain h parent l -> hsame_pc h h' -> Chain h' parent l.
Proof.
  intros HC [L H]. eapply eo_chain_frame; [exact HC| |].
  - intros n p nn _ Hn. destruct (H n nn Hn) as [n' (A & B & C & D)]. exists n'. auto.
  - intros x Ln _ Hn. destruct (H x Ln Hn) as [n' (A & B & C & D)]. exists n'. auto.
Qed.

Lemma eo_ops_cframe s s' : cframe (s_c s) (s_c s') -> ops s' = ops s /\ last_opened (s_c s') = last_opened (s_c s).
Proof. intros (A & B & _). unfold ops, opened, last_opened. rewrite A, B. auto. Qed.

(* ---------- the line invariant under steps that keep the structure ---------- *)
Lemma eo_inv_pc s s' : LineInv s -> SI s' -> hsame_pc (s_h s) (s_h s') -> ops s' = ops s ->
  c_fence (s_c s') = c_fence (s_c s) -> c_tmp_para (s_c s') = c_tmp_para (s_c s) ->
  (forall n nn nn', last_opened (s_c s) = Some (n, PSetext) -> nth_error (s_h s) n = Some nn ->
                    nth_error (s_h s') n = Some nn' -> blines nn' = blines nn) ->
  LineInv s'.
Proof.
  intros HL S' Hpc Ho Hf Ht Hl. pose proof (li_si _ _ _ HL) as HS. constructor.
  - exact S'.
  - rewrite Ho. eapply eo_chain_pc; [apply HL|exact Hpc].
  - intros n p nn' Hlo Hn'. rewrite (eo_last s' S'), Ho, <- (eo_last s HS) in Hlo.
    destruct (eo_pc_back _ _ _ _ Hpc Hn') as [nn (Hn & _)].
    destruct (li_last _ _ _ HL n p nn Hlo Hn) as [A B]. split.
    + intros E. rewrite Hf. exact (A E).
    + intros E. destruct (B E) as [B1 B2]. rewrite Ht. split; [exact B1|]. subst p.
      rewrite (Hl n nn nn' Hlo Hn Hn'). exact B2.
  - destruct (li_root _ _ _ HL) as [n0 [H0 K0]]. destruct Hpc as [_ Hpc].
    destruct (Hpc _ _ H0) as [n0' (A & B & _)]. exists n0'. split; [exact A|congruence].
Qed.

Lemma eo_below_struct h h' r r' : Below h r -> hsame_struct h h' -> r_le r r' -> Below h' r'.
Proof.
  intros HB Hs (_ & Hle & _) i n' Hn' Hk. destruct (eo_struct_back _ _ _ _ Hs Hn') as [n (Hn & K & _ & _ & Ls)].
  rewrite Ls. specialize (HB i n Hn ltac:(congruence)). eapply Forall_impl; [|exact HB]. cbv beta. intros sg Hsg. lia.
Qed.

Lemma eo_mid_struct cap s s' : LineMid cap s -> SI s' -> hsame_struct (s_h s) (s_h s') -> cframe (s_c s) (s_c s') ->
  c_fence (s_c s') = c_fence (s_c s) -> c_tmp_para (s_c s') = c_tmp_para (s_c s) -> r_le (s_r s) (s_r s') ->
  LineMid cap s'.
Proof.
  intros (HL & Ho & HB) S' Hs Hc Hf Ht Hle. destruct (eo_ops_cframe s s' Hc) as [Eo El].
  split; [|split].
  - apply (eo_inv_pc s s' HL S' (eo_struct_pc _ _ Hs) Eo Hf Ht).
    intros n nn nn' _ Hn Hn'. destruct Hs as [_ Hs]. destruct (Hs n nn Hn) as [n2 (A & _ & _ & _ & E)].
    rewrite Hn' in A. injection A as <-. exact E.
  - congruence.
  - eapply eo_below_struct; eassumption.
Qed.

Lemma eo_mid_scache cap s s1 : LineMid cap s -> SI s1 -> scache s s1 -> LineMid cap s1.
Proof.
  intros HM S1 (Eh & Ec & Ep). apply (eo_mid_struct cap s s1 HM S1).
  - rewrite Eh. apply hsame_struct_refl.
  - rewrite Ec. unfold cframe. auto.
  - rewrite Ec. reflexivity.
  - rewrite Ec. reflexivity.
  - apply same_pos_le, Ep.
Qed.

Lemma eo_mid_cont cap bp node s s' cont kids : LineMid cap s -> cont_post space_table src bp node s s' cont kids ->
  (is_container bp = true \/ cont = false) -> LineMid cap s' /\ same_line (s_r s) (s_r s').
Proof.
  intros HM (P1 & P2 & P3 & P4 & P5 & P6 & P7 & P8 & P9) Hor.
  assert (Hs : hsame_struct (s_h s) (s_h s') /\ same_line (s_r s) (s_r s')).
  { destruct (is_container bp) eqn:Ec.
    - destruct (P7 eq_refl) as [A B]. rewrite A. split; [apply hsame_struct_refl|exact B].
    - destruct Hor as [C|C]; [discriminate|]. exact (P8 eq_refl C). }
  destruct Hs as [Hs Hl]. split; [|exact Hl]. eapply eo_mid_struct; eassumption.
Qed.

(* ---------- what closeBlocks needs from the closed range ---------- *)
Lemma eo_all_cont_ready s (l : list (nat * bparser)) : Forall (fun x => is_container (snd x) = true) l ->
  match l with [] => True | e :: t => ReadyLeaf s (fst e) (snd e) /\ Forall (fun x => is_container (snd x) = true) t end.
Proof.
  intros H. destruct l as [|e t]; [exact I|]. inversion H as [|x y Hx Hy]; subst.
  split; [apply container_ready; exact Hx|exact Hy].
Qed.

Lemma eo_skipn_nth (cap : list (nat * bparser)) j e : In e (skipn j cap) -> exists m, (j <= m)%nat /\ nth_error cap m = Some e.
Proof.
  intros H. apply In_nth_error in H. destruct H as [k Hk]. rewrite nth_error_skipn_add in Hk. exists (j + k)%nat.
  split; [lia|exact Hk].
Qed.

(* the range j .. last of the opened blocks, closed from the top: the last block is ready in s1
   (a state reached from s by steps that keep the context's records), the others are containers *)
Lemma eo_closed_shape cap j s s1 : LineInv s -> ops s = cap -> (j < length cap)%nat ->
  (c_fence (s_c s) <> None -> c_fence (s_c s1) <> None) ->
  (c_tmp_para (s_c s) <> None -> c_tmp_para (s_c s1) <> None) ->
  (forall n nn nn1, last_opened (s_c s) = Some (n, PSetext) -> nth_error (s_h s) n = Some nn ->
                    nth_error (s_h s1) n = Some nn1 -> blines nn1 = blines nn) ->
  match rev (skipn j cap) with
  | [] => True
  | e :: t => ReadyLeaf s1 (fst e) (snd e) /\ Forall (fun x => is_container (snd x) = true) t
  end.
Proof.
  intros HL Ho Hj Hf Ht Hl. destruct (rev (skipn j cap)) as [|e t] eqn:E; [exact I|].
  assert (Es : skipn j cap = rev t ++ [e]).
  { rewrite <- (rev_involutive (skipn j cap)), E. reflexivity. }
  assert (Ec : cap = (firstn j cap ++ rev t) ++ [e]).
  { rewrite <- app_assoc, <- Es. symmetry. apply firstn_skipn. }
  pose proof (li_si _ _ _ HL) as HS. pose proof (ci_len _ _ (si_c _ _ _ HS)) as Hlen.
  assert (Hlast : last_opened (s_c s) = Some e).
  { apply (last_opened_app _ (firstn j cap ++ rev t)); [exact Hlen|]. fold (ops s). rewrite Ho. exact Ec. }
  split.
  - destruct e as [n p]. cbn [fst snd].
    pose proof (last_opened_in _ _ Hlen Hlast) as Hin.
    destruct (ci_arr _ _ (si_c _ _ _ HS) _ Hin) as [nn [Hn Kn]]. cbn [fst snd] in Hn, Kn.
    destruct (li_last _ _ _ HL n p nn Hlast Hn) as [A B]. split.
    + intros Ep. apply Hf, A, Ep.
    + intros Ep. destruct (B Ep) as [B1 B2]. split; [apply Ht, B1|]. subst p. intros n1 Hn1 _.
      rewrite (Hl n nn n1 Hlast Hn Hn1). exact B2.
  - apply Forall_forall. intros x Hx. apply in_rev in Hx. apply In_nth_error in Hx. destruct Hx as [k Hk].
    assert (Hkl : (k < length (rev t))%nat) by (eapply nth_error_lt, Hk).
    assert (Hc : nth_error cap (j + k) = Some x).
    { rewrite <- nth_error_skipn_add, Es, nth_error_app1 by exact Hkl. exact Hk. }
    pose proof (li_chain _ _ _ HL) as HC. rewrite Ho in HC. apply (ch_cont _ _ _ HC (j + k)%nat x Hc).
    rewrite Ec at 1. rewrite !app_length, firstn_length. cbn [length]. lia.
Qed.

(* ---------- the line invariant after openBlocks and closeBlocks ----------
   t: the state before openBlocks (opened blocks cap); t1: after openBlocks below position j
   (blocks `new` opened; old nodes changed within OFrame); u: after closing `closed`, a part of
   cap[j..], with opened blocks cap[0..j) ++ new. *)
Lemma eo_finish cap j t t1 u new closed :
  LineInv t -> ops t = cap -> (j <= length cap)%nat ->
  (forall k e, (k < j)%nat -> nth_error cap k = Some e -> is_container (snd e) = true) ->
  SI t1 ->
  OFrame (s_h t) (s_h t1) (par_at 0%nat cap j) (last_para (s_c t)) ->
  Chain (s_h t1) (par_at 0%nat cap j) new ->
  (forall e, In e new -> (length (s_h t) <= fst e)%nat /\ In e (c_arr (s_c t1))) ->
  (forall k L, j = S k -> nth_error cap k = Some (L, PList) ->
     exists it pn', nth_error new 0%nat = Some (it, PListItem) /\ nth_error (s_h t1) L = Some pn' /\
                    last_id (bch pn') = Some it) ->
  (forall t0, c_tmp_para (s_c t1) = Some t0 -> (t0 < length (s_h t))%nat) ->
  (forall n p nn, nth_error new (pred (length new)) = Some (n, p) -> nth_error (s_h t1) n = Some nn ->
     (p = PFenced -> exists ch ind fl, c_fence (s_c t1) = Some (ch, ind, fl, n)) /\
     (p = PSetext -> c_tmp_para (s_c t1) <> None /\ blines nn <> [] /\
                     exists x, last_opened (s_c t) = Some (x, PParagraph))) ->
  SI u -> ops u = firstn j cap ++ new ->
  (forall e, In e closed -> In e (skipn j cap)) ->
  (forall ch ind fl nd, c_fence (s_c t1) = Some (ch, ind, fl, nd) -> ~ In (nd, PFenced) closed ->
                        c_fence (s_c u) = c_fence (s_c t1)) ->
  ((forall H, ~ In (H, PSetext) closed) -> c_tmp_para (s_c u) = c_tmp_para (s_c t1)) ->
  CFrame (Dacc (s_h t1) (s_c t1) closed) (fun x => In x (map fst closed)) (s_h t1) (s_h u) ->
  LineInv u.
Proof.
  intros HL Ho Hj Hcont S1 [OL OF] HN Hnew Hlist Htmp Hlastnew SU Hou Hclosed Hfence Htmpu [CL CF].
  pose proof (li_si _ _ _ HL) as HS. pose proof (si_h _ _ _ HS) as HH.
  pose proof (li_chain _ _ _ HL) as HC. rewrite Ho in HC.
  (* closed entries are old entries at positions >= j *)
  assert (F1 : forall e, In e closed -> exists m, (j <= m)%nat /\ nth_error cap m = Some e).
  { intros e He. apply eo_skipn_nth, Hclosed, He. }
  assert (F2 : forall m n p, nth_error cap m = Some (n, p) ->
            exists nn, nth_error (s_h t) n = Some nn /\ bk nn = kind_of_parser p /\ (n < length (s_h t))%nat).
  { intros m n p Hm. rewrite <- Ho in Hm. destruct (eo_ops_node t m n p HS Hm) as [nn [Hn Kn]]. exists nn.
    csplit; auto. eapply nth_error_lt, Hn. }
  assert (Fnotclosed : forall n, (length (s_h t) <= n)%nat -> ~ In n (map fst closed)).
  { intros n Hn Hin. apply in_map_iff in Hin. destruct Hin as [[x p] [Ex Hin]]. cbn [fst] in Ex. subst x.
    destruct (F1 _ Hin) as [m [_ Hm]]. destruct (F2 m n p Hm) as [nn (_ & _ & Hlt)]. lia. }
  (* old container entries below j keep parent and (for lists other than the parent) children *)
  assert (K1 : forall k n p nn, (k < j)%nat -> nth_error cap k = Some (n, p) -> nth_error (s_h t) n = Some nn ->
            exists nn', nth_error (s_h u) n = Some nn' /\ bk nn' = bk nn /\ bpar nn' = bpar nn /\
                        (bk nn = BList -> n <> par_at 0%nat cap j -> bch nn' = bch nn)).
  { intros k n p nn Hk Hc Hn. pose proof (Hcont k _ Hk Hc) as Hcp. cbn [snd] in Hcp.
    destruct (F2 k n p Hc) as [nn0 (Hn0 & Kn0 & _)]. rewrite Hn in Hn0. injection Hn0 as <-.
    assert (Knp : bk nn <> BParagraph) by (rewrite Kn0; destruct p; cbn in *; congruence).
    assert (Hnl : Some n <> last_para (s_c t)).
    { intros E. unfold last_para in E. destruct (last_opened (s_c t)) as [[x q]|] eqn:El; [|discriminate].
      destruct q; try discriminate. injection E as <-.
      pose proof (last_opened_in _ _ (ci_len _ _ (si_c _ _ _ HS)) El) as Hin.
      destruct (ci_arr _ _ (si_c _ _ _ HS) _ Hin) as [nx [Hx Kx]]. cbn [fst snd kind_of_parser] in Hx, Kx.
      rewrite Hn in Hx. injection Hx as <-. contradiction. }
    destruct (OF n nn Hn) as [n1 (A1 & A2 & A3 & A4)]. destruct (A3 Hnl) as [_ A3p].
    destruct (CF n n1 A1) as [n2 (B1 & B2 & B3 & B4 & B5)]. exists n2. csplit.
    - exact B1.
    - congruence.
    - destruct B5 as [B5|[B5 _]]; [congruence|]. rewrite A2 in B5. contradiction.
    - intros Kl Hne. rewrite B4 by congruence. apply A4; assumption. }
  assert (Hfresh_nd : forall k n p, nth_error new k = Some (n, p) ->
            exists nn, nth_error (s_h t1) n = Some nn /\ bk nn = kind_of_parser p /\ (length (s_h t) <= n)%nat).
  { intros k n p Hk. destruct (Hnew _ (nth_error_In _ _ Hk)) as [A B].
    destruct (ci_arr _ _ (si_c _ _ _ S1) _ B) as [nn [Hn Kn]]. exists nn. auto. }
  constructor.
  - exact SU.
  - rewrite Hou. apply (eo_chain_glue (s_h t) (s_h u) j cap new HC Hj Hcont).
    + intros k n p nn Hk Hc Hn. destruct (K1 k n p nn Hk Hc Hn) as [nn' (A & _ & B & _)]. exists nn'. auto.
    + intros k L Ln Hk Hc Hn. destruct (K1 k L PList Ln ltac:(lia) Hc Hn) as [nn' (A & _ & _ & B)]. exists nn'.
      split; [exact A|]. destruct (F2 k L PList Hc) as [x (Hx & Kx & _)]. rewrite Hn in Hx. injection Hx as <-.
      apply B; [exact Kx|]. destruct j as [|j']; [lia|].
      destruct (nth_error_ex_lt cap j' ltac:(lia)) as [[a pa] Ha]. rewrite (eo_par_at_S _ _ _ _ Ha).
      pose proof (chain_sorted space_table src _ _ _ HH HC k j' (L, PList) (a, pa) ltac:(lia) Hc Ha) as Hlt.
      cbn [fst] in Hlt. lia.
    + intros k L Ej Hc. destruct (Hlist k L Ej Hc) as [it [pn' (A & B & C)]].
      destruct (F2 k L PList Hc) as [Ln (HLn & KLn & _)]. cbn [kind_of_parser] in KLn.
      destruct (OF L Ln HLn) as [n1 (A1 & A2 & _)].
      rewrite B in A1. injection A1 as <-. destruct (CF L pn' B) as [n2 (B1 & B2 & B3 & B4 & B5)].
      exists it, n2. csplit; auto. rewrite B4 by congruence. exact C.
    + eapply eo_chain_frame; [exact HN| |].
      * intros n p nn Hin Hn. destruct (CF n nn Hn) as [n2 (B1 & B2 & B3 & B4 & B5)]. exists n2. split; [exact B1|].
        destruct B5 as [B5|[B5 B6]]; [exact B5|]. exfalso.
        apply In_nth_error in Hin. destruct Hin as [k Hk].
        destruct (Hfresh_nd k n p Hk) as [nn' (Hn' & _ & Hfr)].
        destruct (ch_par _ _ _ HN k n p Hk) as [nn2 [Hn2 Hp2]]. rewrite Hn in Hn2. injection Hn2 as <-.
        destruct B6 as [B6|[[B6 _]|B6]].
        -- exact (Fnotclosed n Hfr B6).
        -- apply Htmp in B6. lia.
        -- destruct B6 as [L [c [ln (D1 & D2 & D3 & D4)]]]. destruct (F1 _ D1) as [m [Hjm Hm]].
           destruct (F2 m L PList Hm) as [Ln (HLn & KLn & _)].
           pose proof (eo_par_lt t j m (L, PList) HL Hjm ltac:(rewrite Ho; exact Hm)) as Hpl. rewrite Ho in Hpl.
           cbn [fst] in Hpl. destruct (OF L Ln HLn) as [n1 (A1 & A2 & _ & A4)]. rewrite D3 in A1. injection A1 as <-.
           rewrite (A4 KLn ltac:(lia)) in D4.
           pose proof (hi_ch _ _ _ HH L Ln HLn) as Hch. rewrite Forall_forall in Hch. specialize (Hch c D4).
           rewrite Hp2 in D2. injection D2 as <-. destruct k as [|k]; cbn [par_at] in Hch; [lia|].
           destruct (nth_error_ex_lt new k) as [[a pa] Ha]; [apply nth_error_lt in Hk; lia|].
           rewrite (nth_error_nth _ _ _ Ha) in Hch. cbn [fst] in Hch.
           destruct (Hfresh_nd k a pa Ha) as [_ (_ & _ & Hfa)]. lia.
      * intros L Ln Hin Hn. destruct (Hnew _ Hin) as [_ Hina].
        destruct (ci_arr _ _ (si_c _ _ _ S1) _ Hina) as [x [Hx Kx]]. cbn [fst snd kind_of_parser] in Hx, Kx.
        rewrite Hn in Hx. injection Hx as <-. destruct (CF L Ln Hn) as [n2 (B1 & B2 & B3 & B4 & B5)].
        exists n2. split; [exact B1|]. apply B4, Kx.
  - intros n p nn Hlo Hn. rewrite (eo_last u SU), Hou, eo_len_glue in Hlo by exact Hj.
    destruct new as [|e0 new0] eqn:Enew.
    + cbn [length] in Hlo. rewrite Nat.add_0_r in Hlo. destruct j as [|j']; [cbn in Hlo; discriminate|].
      cbn [pred] in Hlo. rewrite eo_nth_lo in Hlo by lia. pose proof (Hcont j' _ ltac:(lia) Hlo) as Hcp.
      cbn [snd] in Hcp. split; intros ->; discriminate.
    + rewrite <- Enew in *. assert (Hlen : (0 < length new)%nat) by (rewrite Enew; cbn; lia).
      rewrite eo_nth_hi in Hlo by lia. replace (pred (j + length new) - j)%nat with (pred (length new)) in Hlo by lia.
      destruct (Hfresh_nd _ n p Hlo) as [nn1 (Hn1 & Kn1 & Hfr)].
      destruct (Hlastnew n p nn1 Hlo Hn1) as [A C].
      destruct (CF n nn1 Hn1) as [n2 (B1 & B2 & B3 & B4 & B5)]. rewrite Hn in B1. injection B1 as <-.
      assert (Hold : forall q, ~ In (n, q) closed).
      { intros q Hq. apply (Fnotclosed n Hfr). apply in_map_iff. exists (n, q). auto. }
      split.
      * intros ->. destruct (A eq_refl) as (ch & ind & fl & E). rewrite (Hfence ch ind fl n E (Hold PFenced)), E. discriminate.
      * intros ->. destruct (C eq_refl) as (C1 & C2 & [x C3]). rewrite (B3 (Fnotclosed n Hfr)). split; [|exact C2].
        rewrite Htmpu; [exact C1|]. intros H Hin. destruct (F1 _ Hin) as [m [Hjm Hm]].
        rewrite (eo_last t HS), Ho in C3. pose proof (nth_error_lt _ _ _ Hm) as Hml.
        destruct (Nat.eq_dec m (pred (length cap))) as [->|Hne]; [congruence|].
        pose proof (ch_cont _ _ _ HC m _ Hm ltac:(lia)) as Hcp. discriminate.
  - destruct (li_root _ _ _ HL) as [n0 [H0 K0]]. destruct (OF _ _ H0) as [n1 (A1 & A2 & _)].
    destruct (CF _ _ A1) as [n2 (B1 & B2 & _)]. exists n2. split; [exact B1|congruence].
Qed.

(* ---------- the pieces of each_opened ---------- *)
Notation PC := (p_continue space_table re_t1c).

(* the block at index i does not continue: openBlocks below its parent, then closeBlocks *)
Definition open_path (cap : list (nat * bparser)) (root : nat) (i last_index : Z) (stats : list (Z * Z * bool))
                     (fuel : nat) (blank : bool) (s : st) : result ((st + st) * list (Z * Z * bool)) :=
  this_parent <- (if i =? 0 then Ok root
                  else match nth_error cap (Z.to_nat (i - 1)) with Some (p, _) => Ok p | None => Panic end) ;;
  last_node <- match nth_error cap (Z.to_nat last_index) with Some (p, _) => Ok p | None => Panic end ;;
  o <- OB fuel this_parent blank s ;;
  let '(res, s) := o in
  if negb (res =? paragraphContinuation) then
    now_last <- match nth_error (c_arr (s_c s)) (Z.to_nat last_index) with Some (p, _) => Ok p | None => Panic end ;;
    let last_index := if Nat.eqb now_last last_node then last_index else last_index - 1 in
    s <- CB s last_index i ;;
    Ok (inr s, stats)
  else Ok (inr s, stats).

Lemma eo_unfold f cap root i last_index stats s :
  EO (S f) cap root i last_index stats s =
  if last_index <? i then Ok (inr s, stats)
  else match nth_error cap (Z.to_nat i) with
       | None => Panic
       | Some (node, bp) =>
         x <- peek_line_s s ;;
         let '(s, line, _) := x in
         match line with
         | None => s <- CB s last_index 0 ;; Ok (inl (advance_line_s s), stats)
         | Some line =>
           let line_num := rline s in
           let stats := (line_num, i, Reader.is_blank space_table line) :: stats in
           isp <- is_paragraph (s_h s) node ;;
           c <- (if negb isp then y <- PC bp s node ;; let '(s, cont, kids) := y in Ok (s, cont, kids)
                 else Ok (s, false, false)) ;;
           let '(s, cont, kids) := c in
           if cont then
             if kids && (i =? last_index) then
               o <- OB (2 * length line + 8) node (is_blank_line (line_num - 1) i stats) s ;; Ok (inr (snd o), stats)
             else EO f cap root (i + 1) last_index stats s
           else open_path cap root i last_index stats (2 * length line + 8) (is_blank_line (line_num - 1) i stats) s
         end
       end.
Proof. reflexivity. Qed.

Lemma eo_range_z (base new : list (nat * bparser)) j : 0 <= j <= zlen base ->
  range_of (base ++ new) (Z.to_nat (zlen base - 1 - j + 1)) (zlen base - 1) = skipn (Z.to_nat j) base.
Proof.
  intros Hj. rewrite <- (eo_range_of base new (Z.to_nat j)) by (unfold zlen in Hj; lia). f_equal. lia.
Qed.

(* closeBlocks on the range j .. |base|-1 of the opened blocks base ++ new *)
Lemma eo_close_suffix t1 base new j :
  SI t1 -> ops t1 = base ++ new -> 0 <= j <= zlen base ->
  match rev (skipn (Z.to_nat j) base) with
  | [] => True
  | e :: t => ReadyLeaf t1 (fst e) (snd e) /\ Forall (fun x => is_container (snd x) = true) t
  end ->
  exists u, CB t1 (zlen base - 1) j = Ok u /\ SI u /\ s_r u = s_r t1 /\ ops u = firstn (Z.to_nat j) base ++ new /\
    (forall ch ind fl nd, c_fence (s_c t1) = Some (ch, ind, fl, nd) -> ~ In (nd, PFenced) (rev (skipn (Z.to_nat j) base)) ->
                          c_fence (s_c u) = c_fence (s_c t1)) /\
    ((forall H, ~ In (H, PSetext) (rev (skipn (Z.to_nat j) base))) -> c_tmp_para (s_c u) = c_tmp_para (s_c t1)) /\
    CFrame (Dacc (s_h t1) (s_c t1) (rev (skipn (Z.to_nat j) base)))
           (fun x => In x (map fst (rev (skipn (Z.to_nat j) base)))) (s_h t1) (s_h u).
Proof.
  intros S1 Ho Hj Hready.
  pose proof (CBK t1 (zlen base - 1) j S1 ltac:(lia) ltac:(lia)) as HCB.
  rewrite <- (eo_ops_len t1 S1) in HCB. rewrite Ho in HCB. rewrite app_length in HCB.
  specialize (HCB ltac:(unfold zlen; lia)). cbv zeta in HCB. rewrite (eo_range_z base new j Hj) in HCB.
  destruct (HCB Hready) as [u (E & SU & RU & OU & FU & TU & CU)]. exists u. csplit; auto.
  rewrite OU. replace (Z.to_nat (zlen base - 1 + 1)) with (length base) by (unfold zlen; lia).
  apply eo_after_close. unfold zlen in Hj. lia.
Qed.

Lemma eo_pc_oframe h h' parent x0 : hsame_pc h h' ->
  (forall j n n', Some j <> x0 -> nth_error h j = Some n -> nth_error h' j = Some n' -> blines n' = blines n) ->
  OFrame h h' parent x0.
Proof.
  intros [L H] Hl. split; [lia|]. intros j n Hn. destruct (H j n Hn) as [n' (A & B & C & D)]. exists n'. csplit; auto.
  intros Hne. split; [exact (Hl j n n' Hne Hn A)|exact D].
Qed.

Lemma eo_open_path cap j t stats fuel blank :
  LineMid cap t -> 0 <= j <= zlen cap - 1 ->
  (forall pn, nth_error (s_h t) (par_at 0%nat cap (Z.to_nat j)) = Some pn -> bk pn = BList ->
              LP space_table t (par_at 0%nat cap (Z.to_nat j))) ->
  (Z.to_nat (2 * (s_stop (r_pos (s_r t)) - s_start (r_pos (s_r t))) + 8) <= fuel)%nat ->
  exists u, open_path cap 0%nat j (zlen cap - 1) stats fuel blank t = Ok (inr u, stats) /\
            LineInv u /\ r_le (s_r t) (s_r u).
Proof.
  intros (HL & Ho & HB) Hj HLP Hfuel. pose proof (li_si _ _ _ HL) as HS.
  set (jn := Z.to_nat j) in *. assert (Hjn : (jn < length cap)%nat) by (unfold zlen in Hj; lia).
  pose proof (li_chain _ _ _ HL) as HC. rewrite Ho in HC.
  assert (Hcont : forall k e, (k < jn)%nat -> nth_error cap k = Some e -> is_container (snd e) = true).
  { intros k e Hk He. apply (ch_cont _ _ _ HC k e He). lia. }
  destruct (eo_par_node t jn HL ltac:(rewrite Ho; lia)) as [pn [Hpn Kpn]]. rewrite Ho in Hpn, Kpn.
  set (parent := par_at 0%nat cap jn) in *.
  destruct (nth_error_ex_lt cap (pred (length cap)) ltac:(lia)) as [[ln lp] Hlast].
  unfold open_path.
  assert (Etp : (if j =? 0 then Ok 0%nat
                 else match nth_error cap (Z.to_nat (j - 1)) with Some (p, _) => Ok p | None => Panic end) = Ok parent).
  { unfold parent. destruct (Z.eqb_spec j 0) as [E0|Hne]; [unfold jn; rewrite E0; reflexivity|].
    destruct (nth_error_ex_lt cap (Z.to_nat (j - 1)) ltac:(lia)) as [[a pa] Ha]. rewrite Ha.
    replace jn with (S (Z.to_nat (j - 1))) by lia. rewrite (eo_par_at_S _ _ _ _ Ha). reflexivity. }
  rewrite Etp. cbn [bind].
  replace (Z.to_nat (zlen cap - 1)) with (pred (length cap)) by (unfold zlen; lia).
  rewrite Hlast. cbn [bind].
  assert (Hcont' : forall k e, nth_error (ops t) k = Some e -> (S k < length (ops t))%nat -> is_container (snd e) = true).
  { rewrite Ho. exact (ch_cont _ _ _ HC). }
  destruct (OBK fuel parent pn blank t HS Hpn (HLP pn Hpn) (eo_attached t HL) Hcont' HB Hfuel)
    as (res & t1 & E1 & S1 & R1 & Cf & Ct & Ctl & Hcase).
  rewrite E1. cbn [bind]. cbv beta iota.
  (* both outcomes in one form *)
  assert (Hcommon : (res = paragraphContinuation /\ LineInv t1) \/
    ((res =? paragraphContinuation) = false /\ exists base' new, ops t1 = base' ++ new /\
      (base' = cap \/ (new <> [] /\ exists x, cap = base' ++ [(x, PParagraph)])) /\
      OFrame (s_h t) (s_h t1) parent (last_para (s_c t)) /\ Chain (s_h t1) parent new /\
      (forall e, In e new -> (length (s_h t) <= fst e)%nat) /\
      (bk pn = BList -> exists it pn', nth_error new 0%nat = Some (it, PListItem) /\
                                       nth_error (s_h t1) parent = Some pn' /\ last_id (bch pn') = Some it) /\
      (forall n p nn, nth_error new (pred (length new)) = Some (n, p) -> nth_error (s_h t1) n = Some nn ->
         (p = PFenced -> exists ch ind fl, c_fence (s_c t1) = Some (ch, ind, fl, n)) /\
         (p = PSetext -> c_tmp_para (s_c t1) <> None /\ blines nn <> [] /\
                         exists x, last_opened (s_c t) = Some (x, PParagraph))))).
  { destruct Hcase as [(Hres & Ho1 & Hf1 & Ht1 & Hpc & Hlines & Kpn')|(Hres & base' & new & Ho1 & Hnew & Hbase & HOF & HCh & Hfresh & Hbl & Hlastnew)].
    - destruct Hres as [->| ->].
      + left. split; [reflexivity|]. apply (eo_inv_pc t t1 HL S1 Hpc Ho1 Hf1 Ht1).
        intros n nn nn' Hlo Hn Hn'. apply (Hlines n nn nn'); auto. unfold last_para. rewrite Hlo. discriminate.
      + right. split; [reflexivity|]. exists cap, []. rewrite app_nil_r. csplit.
        * congruence.
        * left. reflexivity.
        * apply eo_pc_oframe; assumption.
        * constructor; intros k; intros; destruct k; discriminate.
        * intros e [].
        * intros K. contradiction.
        * intros n p nn C. destruct (pred (length (@nil (nat * bparser)))); discriminate.
    - right. subst res. split; [reflexivity|]. exists base', new. rewrite Ho in Hbase. csplit; auto.
      + destruct Hbase as [->|Hx]; [left; reflexivity|right; auto].
      + intros n p nn Hn Hnn. destruct (Hlastnew n p nn Hn Hnn) as (A & B & C & D). auto. }
  destruct Hcommon as [[-> HL1]|(Eres & base' & new & Ho1 & Hbase & HOF & HCh & Hfresh & Hbl & Hlastnew)].
  { change (paragraphContinuation =? paragraphContinuation) with true. cbn [negb].
    exists t1. split; [reflexivity|]. split; [exact HL1|exact R1]. }
  rewrite Eres. cbn [negb].
  (* which range is closed *)
  match goal with |- exists u, ?X = _ /\ _ =>
    assert (Hmid : 0 <= j <= zlen base' /\ firstn jn base' = firstn jn cap /\
              (forall e, In e (skipn jn base') -> In e (skipn jn cap)) /\
              match rev (skipn jn base') with
              | [] => True
              | e :: t => ReadyLeaf t1 (fst e) (snd e) /\ Forall (fun x => is_container (snd x) = true) t
              end /\
              X = (s <- CB t1 (zlen base' - 1) j ;; Ok (inr s, stats)))
  end.
  { assert (Hlt1 : (pred (length cap) < c_len (s_c t1))%nat).
    { rewrite <- (eo_ops_len t1 S1), Ho1, app_length.
      destruct Hbase as [->|(Hnew & x & ->)]; [lia|]. rewrite app_length. cbn [length].
      destruct new; [contradiction|cbn [length]; lia]. }
    rewrite <- (opened_nth _ _ Hlt1). fold (ops t1). rewrite Ho1.
    destruct Hbase as [->|(Hnew & x & Ecap)].
    - rewrite nth_error_app1 by lia. rewrite Hlast. cbn [bind]. rewrite Nat.eqb_refl. csplit.
      + lia.
      + lia.
      + reflexivity.
      + auto.
      + apply (eo_closed_shape cap jn t t1 HL Ho Hjn Cf Ct).
        intros n nn nn1 Hlo Hn Hn1. destruct HOF as [_ HOF]. destruct (HOF n nn Hn) as [n' (A1 & A2 & A3 & A4)].
        rewrite Hn1 in A1. injection A1 as <-. apply A3. unfold last_para. rewrite Hlo. discriminate.
      + reflexivity.
    - assert (Elen : length cap = S (length base')) by (rewrite Ecap, app_length; cbn [length]; lia).
      rewrite Elen. cbn [pred]. rewrite nth_error_app2 by lia. rewrite Nat.sub_diag.
      destruct new as [|[n0 p0] new0] eqn:Enew; [contradiction|]. cbn [nth_error bind]. rewrite <- Enew in *.
      assert (Eln : ln = x).
      { rewrite Elen in Hlast. rewrite Ecap in Hlast. cbn [pred] in Hlast. rewrite nth_error_app2 in Hlast by lia.
        rewrite Nat.sub_diag in Hlast. cbn in Hlast. congruence. }
      assert (Hx : (x < length (s_h t))%nat).
      { rewrite <- Ho in Hlast. destruct (eo_ops_node t _ ln lp HS Hlast) as [nx [Hnx _]]. subst ln.
        eapply nth_error_lt, Hnx. }
      pose proof (Hfresh (n0, p0) ltac:(rewrite Enew; left; reflexivity)) as Hf0. cbn [fst] in Hf0.
      destruct (Nat.eqb_spec n0 ln) as [C|_]; [lia|].
      assert (Hjb : (jn <= length base')%nat) by lia.
      csplit.
      + lia.
      + unfold zlen. lia.
      + rewrite Ecap, firstn_app. replace (jn - length base')%nat with O by lia. cbn [firstn]. symmetry. apply app_nil_r.
      + intros e He. rewrite Ecap, skipn_app. apply in_or_app. left. exact He.
      + apply eo_all_cont_ready. apply Forall_forall. intros e He. apply in_rev in He.
        apply eo_skipn_nth in He. destruct He as [m [_ Hm]]. pose proof (nth_error_lt _ _ _ Hm) as Hml.
        apply (ch_cont _ _ _ HC m e); [rewrite Ecap, nth_error_app1 by lia; exact Hm|lia].
      + replace (zlen cap - 1 - 1) with (zlen base' - 1) by (unfold zlen; lia). reflexivity. }
  destruct Hmid as (Hjb & Efirst & Hsub & Hready & ->).
  destruct (eo_close_suffix t1 base' new j S1 Ho1 Hjb Hready) as [u (E & SU & RU & OU & FU & TU & CU)].
  fold jn in OU, FU, TU, CU.
  rewrite E. cbn [bind]. exists u. split; [reflexivity|]. split; [|rewrite RU; exact R1].
  apply (eo_finish cap jn t t1 u new (rev (skipn jn base')) HL Ho ltac:(lia) Hcont S1 HOF HCh).
  - intros e He. split; [apply Hfresh, He|]. apply opened_in. fold (ops t1). rewrite Ho1. apply in_or_app. right. exact He.
  - intros k L Ej Hc. assert (Epl : parent = L) by (unfold parent; rewrite Ej; apply (eo_par_at_S _ _ _ _ Hc)).
    destruct (Hbl ltac:(rewrite (Kpn k L PList Ej Hc); reflexivity)) as [it [pn' Hit]]. exists it, pn'.
    rewrite <- Epl. exact Hit.
  - exact Ctl.
  - exact Hlastnew.
  - exact SU.
  - rewrite OU, Efirst. reflexivity.
  - intros e He. apply Hsub. apply in_rev. exact He.
  - exact FU.
  - exact TU.
  - exact CU.
Qed.

(* ---------- the last block continues and may have children: openBlocks below it ---------- *)
Lemma eo_kids_path cap t node bp fuel blank :
  LineMid cap t -> nth_error cap (pred (length cap)) = Some (node, bp) -> (0 < length cap)%nat ->
  bp = PBlockquote \/ bp = PListItem ->
  (Z.to_nat (2 * (s_stop (r_pos (s_r t)) - s_start (r_pos (s_r t))) + 8) <= fuel)%nat ->
  exists o, OB fuel node blank t = Ok o /\ LineInv (snd o) /\ r_le (s_r t) (s_r (snd o)).
Proof.
  intros (HL & Ho & HB) Hlast Hlen Hbp Hfuel. pose proof (li_si _ _ _ HL) as HS.
  pose proof (li_chain _ _ _ HL) as HC. rewrite Ho in HC.
  set (jn := length cap).
  assert (Hcont : forall k e, (k < jn)%nat -> nth_error cap k = Some e -> is_container (snd e) = true).
  { intros k e Hk He. destruct (Nat.eq_dec (S k) jn) as [Ek|Ek].
    - assert (k = pred (length cap)) by (unfold jn in Ek; lia). subst k. rewrite Hlast in He. injection He as <-.
      destruct Hbp as [->| ->]; reflexivity.
    - apply (ch_cont _ _ _ HC k e He). unfold jn in *. lia. }
  assert (Epar : par_at 0%nat cap jn = node).
  { unfold jn. destruct (length cap) as [|m] eqn:E; [lia|]. cbn [pred] in Hlast. apply (eo_par_at_S _ _ _ _ Hlast). }
  destruct (eo_ops_node t _ node bp HS ltac:(rewrite Ho; exact Hlast)) as [pn [Hpn Kpn]].
  assert (Knl : bk pn <> BList) by (rewrite Kpn; destruct Hbp as [->| ->]; discriminate).
  assert (Hcont' : forall k e, nth_error (ops t) k = Some e -> (S k < length (ops t))%nat -> is_container (snd e) = true).
  { rewrite Ho. exact (ch_cont _ _ _ HC). }
  destruct (OBK fuel node pn blank t HS Hpn (fun K => False_ind _ (Knl K)) (eo_attached t HL) Hcont' HB Hfuel)
    as (res & t1 & E1 & S1 & R1 & Cf & Ct & Ctl & Hcase).
  exists (res, t1). split; [exact E1|]. cbn [snd]. split; [|exact R1].
  destruct Hcase as [(Hres & Ho1 & Hf1 & Ht1 & Hpc & Hlines & _)|(Hres & base' & new & Ho1 & Hnew & Hbase & HOF & HCh & Hfresh & Hbl & Hlastnew)].
  - apply (eo_inv_pc t t1 HL S1 Hpc Ho1 Hf1 Ht1).
    intros n nn nn' Hlo Hn Hn'. apply (Hlines n nn nn'); auto. unfold last_para. rewrite Hlo. discriminate.
  - assert (Eb : base' = cap).
    { destruct Hbase as [E|[x E]]; [congruence|]. rewrite Ho in E. exfalso. rewrite E in Hlast.
      rewrite app_length in Hlast. cbn [length] in Hlast. rewrite nth_error_app2 in Hlast by lia.
      replace (pred (length base' + 1) - length base')%nat with O in Hlast by lia. cbn in Hlast.
      injection Hlast as _ <-. destruct Hbp; discriminate. }
    subst base'.
    apply (eo_finish cap jn t t1 t1 new [] HL Ho (le_n _) Hcont S1).
    + rewrite Epar. exact HOF.
    + rewrite Epar. exact HCh.
    + intros e He. split; [apply Hfresh, He|]. apply opened_in. fold (ops t1). rewrite Ho1. apply in_or_app. right. exact He.
    + intros k L Ej Hc. exfalso. assert (k = pred (length cap)) by (unfold jn in Ej; lia). subst k.
      rewrite Hlast in Hc. injection Hc as _ Ebp. subst bp. destruct Hbp; discriminate.
    + exact Ctl.
    + intros n p nn Hn Hnn. destruct (Hlastnew n p nn Hn Hnn) as (A & B & C & D). auto.
    + exact S1.
    + rewrite Ho1. unfold jn. rewrite firstn_all. reflexivity.
    + intros e [].
    + intros; reflexivity.
    + intros; reflexivity.
    + apply CFrame_refl.
Qed.

(* ---------- end of input: everything is closed ---------- *)
Lemma eo_eof_close cap s1 : LineMid cap s1 -> (0 < length cap)%nat ->
  exists s', CB s1 (zlen cap - 1) 0 = Ok s' /\ SI (advance_line_s s').
Proof.
  intros (HL & Ho & _) Hlen. pose proof (li_si _ _ _ HL) as HS.
  destruct (eo_close_suffix s1 cap [] 0 HS ltac:(rewrite app_nil_r; exact Ho) ltac:(unfold zlen; lia)) as [u (E & SU & _)].
  { change (Z.to_nat 0) with O. apply (eo_closed_shape cap 0%nat s1 s1 HL Ho Hlen); auto. intros; congruence. }
  exists u. split; [exact E|]. unfold advance_line_s.
  destruct (ri_advance_line (s_r u) (si_r _ _ _ SU)) as (A & B & _). apply SI_set_r; assumption.
Qed.

(* ---------- Continue of the parsers other than list, list item and paragraph ---------- *)
Lemma eo_continue cap i s1 node bp : LineMid cap s1 -> sin s1 -> nth_error cap i = Some (node, bp) ->
  bp <> PParagraph -> bp <> PList -> bp <> PListItem ->
  exists s2 cont, PC bp s1 node = Ok (s2, cont, is_container bp) /\ (cont = true -> bp <> PSetext) /\
    exists s2', cont_post space_table src bp node s1 s2' cont (is_container bp) /\
                advance_line_s s2 = advance_line_s s2' /\ (cont = false \/ is_container bp = true -> s2 = s2').
Proof.
  intros (HL & Ho & HB) Hin Hi N1 N2 N3. pose proof (li_si _ _ _ HL) as HS.
  destruct (eo_ops_node s1 i node bp HS ltac:(rewrite Ho; exact Hi)) as [nn [Hn Kn]].
  assert (Hplain : is_container bp = false -> PC bp s1 node = Ok (s1, false, false) ->
            exists s2 cont, PC bp s1 node = Ok (s2, cont, is_container bp) /\ (cont = true -> bp <> PSetext) /\
              exists s2', cont_post space_table src bp node s1 s2' cont (is_container bp) /\
                advance_line_s s2 = advance_line_s s2' /\ (cont = false \/ is_container bp = true -> s2 = s2')).
  { intros Hc E. exists s1, false. rewrite Hc. split; [exact E|]. split; [discriminate|]. exists s1. csplit; auto.
    apply cont_post_scache; [exact Hc|exact HS|apply scache_refl]. }
  destruct bp; try contradiction; cbn [p_continue kind_of_parser is_container] in *.
  - apply Hplain; reflexivity.
  - apply Hplain; reflexivity.
  - destruct (LF2 code_continue_ok s1 node nn HS Hin Hn Kn) as [s2 [cont [E P]]]. rewrite E. cbn [bind fst snd].
    exists s2, cont. split; [reflexivity|]. split; [discriminate|]. exists s2. auto.
  - apply Hplain; reflexivity.
  - assert (Hlast : last_opened (s_c s1) = Some (node, PFenced)).
    { rewrite (eo_last s1 HS), Ho. pose proof (nth_error_lt _ _ _ Hi) as Hil.
      destruct (Nat.eq_dec i (pred (length cap))) as [<-|Hne]; [exact Hi|].
      pose proof (li_chain _ _ _ HL) as HC. rewrite Ho in HC.
      pose proof (ch_cont _ _ _ HC i _ Hi ltac:(lia)) as C. discriminate. }
    destruct (li_last _ _ _ HL node PFenced nn Hlast Hn) as [Hf _].
    destruct (LF2 fenced_continue_ok_fix s1 node nn HS Hin Hn Kn (Hf eq_refl)) as [s2 [cont [E [s2' (P & _ & _ & A & Q)]]]].
    rewrite E. cbn [bind fst snd]. exists s2, cont. split; [reflexivity|]. split; [discriminate|]. exists s2'.
    csplit; auto. intros [C|C]; [exact (Q C)|discriminate].
  - destruct (CT bq_continue_ok s1 node HS Hin) as [s2 [cont [E P]]]. rewrite E. cbn [bind fst snd].
    exists s2, cont. split; [reflexivity|]. split; [discriminate|]. exists s2. auto.
  - destruct (LF2 html_continue_ok s1 node nn HS Hin Hn Kn) as [s2 [cont [E P]]]. rewrite E. cbn [bind fst snd].
    exists s2, cont. split; [reflexivity|]. split; [discriminate|]. exists s2. auto.
Qed.

(* a list item line is a line of the input *)
Lemma eo_sin_item s : SI s -> snd (parse_list_item (sview s)) <> 0%N -> sin s.
Proof.
  intros HS Hp. unfold sin. destruct (r_in_range (s_r s)) eqn:E; [reflexivity|]. exfalso.
  pose proof (si_r _ _ _ HS) as [Hinv Hh]. pose proof (in_range_false _ E Hinv) as Est.
  pose proof (inv_bounds _ Hinv) as Hb.
  assert (Ev : sview s = spaces_n (s_pad (r_pos (s_r s)))).
  { unfold sview, r_view. replace (s_stop (r_pos (s_r s))) with (s_start (r_pos (s_r s))) by lia.
    unfold sub. rewrite Z.sub_diag. cbn [Z.to_nat firstn]. apply app_nil_r. }
  destruct (parse_list_item (sview s)) as [m typ] eqn:Epl. cbn [snd] in Hp.
  destruct (lp_pli_shape _ m typ Epl Hp) as (A1 & A2 & A3 & A4 & A5 & A6).
  assert (Hnb : nth_byte (sview s) (m1 m) = 32%N).
  { rewrite Ev in *. unfold nth_byte, spaces_n in *. apply nth_repeat_in. unfold zlen in A3. rewrite repeat_length in A3. lia. }
  destruct A6 as [(_ & _ & B)|(_ & B & _)]; rewrite Hnb in B.
  - unfold lp_bullet in B. destruct B as [B|[B|B]]; discriminate.
  - unfold lp_digit in B. lia.
Qed.

Lemma eo_bp_cases bp : bp = PParagraph \/ bp = PList \/ bp = PListItem \/ (bp <> PParagraph /\ bp <> PList /\ bp <> PListItem).
Proof. destruct bp; auto; right; right; right; repeat split; discriminate. Qed.

(* ---------- the loop ---------- *)
(* what listItemParser.Continue does after listParser.Continue said "continue" on this line *)
Definition ItemReady (s : st) (it : nat) : Prop :=
  forall s2, SI s2 -> scache s s2 ->
    exists s3 c3, list_item_continue space_table s2 it = Ok (s3, c3) /\
      cont_post space_table src PListItem it s2 s3 c3 true /\
      (c3 = false -> snd (parse_list_item (sview s3)) <> 0%N /\
                     is_thematic_break space_table (sview s3) (soff s3) = false /\ c_skip_list (s_c s3) = true).

Definition EPost (cap : list (nat * bparser)) (i : Z) (s : st) (r : st + st) : Prop :=
  match r with
  | inl s' => SI s'
  | inr s' => exists s'', LineInv s'' /\ r_le (s_r s) (s_r s'') /\ advance_line_s s' = advance_line_s s'' /\
                          (i <= zlen cap - 1 -> r_in_range (s_r s) = true)
  end.

Lemma eo_gen cap : forall f i stats s,
  LineMid cap s -> 0 <= i <= zlen cap -> (Z.to_nat (zlen cap - i) < f)%nat ->
  (forall it, nth_error cap (Z.to_nat i) = Some (it, PListItem) -> ItemReady s it) ->
  exists r stats', EO f cap 0%nat i (zlen cap - 1) stats s = Ok (r, stats') /\ EPost cap i s r.
Proof.
  induction f as [|f IH]; intros i stats s HM Hi Hf Hitem; [lia|]. rewrite eo_unfold.
  pose proof HM as (HL & Ho & HB). pose proof (li_si _ _ _ HL) as HS.
  destruct (Z.ltb_spec (zlen cap - 1) i) as [Hgt|Hle].
  { exists (inr s), stats. split; [reflexivity|]. exists s. csplit; auto; [apply r_le_refl|lia]. }
  set (ii := Z.to_nat i) in *. assert (Hii : (ii < length cap)%nat) by (unfold zlen in Hle; lia).
  destruct (nth_error_ex_lt cap ii Hii) as [[node bp] Hnode]. rewrite Hnode.
  destruct (peek_line_s_ok space_table src s HS) as [s1 (E1 & S1 & C1 & _)]. rewrite E1. cbn [bind]. cbv beta iota.
  pose proof (eo_mid_scache cap s s1 HM S1 C1) as HM1. pose proof HM1 as (HL1 & Ho1 & HB1).
  pose proof (li_chain _ _ _ HL1) as HC1. rewrite Ho1 in HC1.
  destruct (r_in_range (s_r s)) eqn:Hin.
  2:{ destruct (eo_eof_close cap s1 HM1 ltac:(lia)) as [s' [E P]]. rewrite E. cbn [bind].
      exists (inl (advance_line_s s')), stats. split; [reflexivity|exact P]. }
  assert (Hin1 : sin s1) by (eapply scache_sin; [exact C1|exact Hin]).
  cbv zeta.
  set (line := sview s). set (stats1 := (rline s1, i, Reader.is_blank space_table line) :: stats).
  set (blank := is_blank_line (rline s1 - 1) i stats1). set (fuel := (2 * length line + 8)%nat).
  destruct (eo_ops_node s1 ii node bp S1 ltac:(rewrite Ho1; exact Hnode)) as [nn [Hn Kn]].
  unfold is_paragraph. rewrite (hget_some _ _ _ Hn). cbn [bind].
  (* openBlocks has fuel for the rest of the line *)
  assert (Hfu : forall t, same_line (s_r s1) (s_r t) ->
            (Z.to_nat (2 * (s_stop (r_pos (s_r t)) - s_start (r_pos (s_r t))) + 8) <= fuel)%nat).
  { intros t (_ & A & B & _). unfold fuel, line. rewrite <- (scache_view _ _ C1).
    pose proof (view_zlen _ (proj1 (si_r _ _ _ S1))) as Hv. pose proof (ri_bounds _ (si_r _ _ _ S1)) as Hb.
    unfold sview. unfold zlen in Hv. lia. }
  assert (Hle_s1 : r_le (s_r s) (s_r s1)) by (destruct C1 as (_ & _ & C1); apply same_pos_le, C1).
  (* no list: the parent of the block at i is no list unless the block is a list item *)
  assert (HnoLP : forall t, LineMid cap t -> bp <> PListItem ->
            forall pn, nth_error (s_h t) (par_at 0%nat cap ii) = Some pn -> bk pn = BList ->
                       LP space_table t (par_at 0%nat cap ii)).
  { intros t (HLt & Hot & _) Nb pn Hpn Kpn. exfalso. apply Nb. rewrite <- Hot in Hpn.
    apply (eo_parent_list t ii node bp pn HLt); [rewrite Hot; exact Hnode|exact Hpn|exact Kpn]. }
  (* what follows the Continue call *)
  assert (Htail : forall s2 s2' cont,
    cont_post space_table src bp node s1 s2' cont (is_container bp) ->
    advance_line_s s2 = advance_line_s s2' -> (cont = false \/ is_container bp = true -> s2 = s2') ->
    (cont = true -> bp <> PSetext) ->
    (cont = true -> forall it, nth_error cap (S ii) = Some (it, PListItem) -> ItemReady s2 it) ->
    (cont = false -> forall pn, nth_error (s_h s2) (par_at 0%nat cap ii) = Some pn -> bk pn = BList ->
                     LP space_table s2 (par_at 0%nat cap ii)) ->
    exists r stats',
      (if cont then
         if is_container bp && (i =? zlen cap - 1)
         then o <- OB fuel node blank s2 ;; Ok (inr (snd o), stats1)
         else EO f cap 0%nat (i + 1) (zlen cap - 1) stats1 s2
       else open_path cap 0%nat i (zlen cap - 1) stats1 fuel blank s2) = Ok (r, stats') /\ EPost cap i s r).
  { intros s2 s2' cont P Hadv Heq Hnsx Hnext HLP. destruct cont.
    - destruct (is_container bp) eqn:Ec.
      + pose proof (Heq (or_intror eq_refl)) as <-.
        destruct (eo_mid_cont cap bp node s1 s2 true true HM1 P (or_introl Ec)) as [HM2 Hsl].
        assert (Hle2 : r_le (s_r s) (s_r s2)).
        { eapply r_le_trans; [exact Hle_s1|]. apply same_line_le, Hsl. }
        cbn [andb]. destruct (Z.eqb_spec i (zlen cap - 1)) as [Ei|Ei].
        * assert (Elast : ii = pred (length cap)) by (unfold ii, zlen in *; lia).
          assert (Hbp : bp = PBlockquote \/ bp = PListItem).
          { destruct bp; try discriminate; auto. exfalso.
            destruct (ch_list _ _ _ HC1 ii node Hnode) as [it [Ln (A & _)]]. apply nth_error_lt in A. lia. }
          destruct (eo_kids_path cap s2 node bp fuel blank HM2 ltac:(rewrite <- Elast; exact Hnode) ltac:(lia) Hbp (Hfu s2 Hsl))
            as [o (E & LO & RO)].
          rewrite E. cbn [bind]. exists (inr (snd o)), stats1. split; [reflexivity|]. exists (snd o). csplit; auto.
          eapply r_le_trans; eassumption.
        * destruct (IH (i + 1) stats1 s2 HM2 ltac:(lia) ltac:(lia)) as [r [stats' [E P']]].
          { replace (Z.to_nat (i + 1)) with (S ii) by (unfold ii; lia). apply Hnext. reflexivity. }
          exists r, stats'. split; [exact E|]. destruct r as [s'|s']; [exact P'|].
          destruct P' as [s'' (A & B & C & D)]. exists s''. csplit; auto. eapply r_le_trans; eassumption.
      + cbn [andb].
        assert (Elast : i = zlen cap - 1).
        { destruct (Z.eq_dec i (zlen cap - 1)) as [E|E]; [exact E|]. exfalso.
          pose proof (ch_cont _ _ _ HC1 ii _ Hnode ltac:(unfold ii, zlen in *; lia)) as C. cbn [snd] in C. congruence. }
        destruct f as [|f']; [lia|]. rewrite eo_unfold.
        destruct (Z.ltb_spec (zlen cap - 1) (i + 1)) as [_|C]; [|lia].
        exists (inr s2), stats1. split; [reflexivity|]. exists s2'.
        destruct P as (P1 & P2 & P3 & P4 & P5 & P6 & P7 & P8 & P9).
        destruct (eo_ops_cframe s1 s2' P3) as [Eo El]. csplit; auto.
        * apply (eo_inv_pc s1 s2' HL1 P1 (P9 Ec eq_refl) Eo P4 P5).
          intros n x x' Hlo. exfalso. rewrite (eo_last s1 S1), Ho1 in Hlo.
          replace (pred (length cap)) with ii in Hlo by (unfold ii, zlen in *; lia). rewrite Hnode in Hlo.
          injection Hlo as _ Ebp. exact (Hnsx eq_refl Ebp).
        * eapply r_le_trans; eassumption.
    - pose proof (Heq (or_introl eq_refl)) as <-.
      destruct (eo_mid_cont cap bp node s1 s2 false (is_container bp) HM1 P (or_intror eq_refl)) as [HM2 Hsl].
      destruct (eo_open_path cap i s2 stats1 fuel blank HM2 ltac:(lia) (HLP eq_refl) (Hfu s2 Hsl)) as [u (E & LU & RU)].
      exists (inr u), stats1. split; [exact E|]. exists u. csplit; auto.
      eapply r_le_trans; [exact Hle_s1|]. eapply r_le_trans; [apply same_line_le, Hsl|exact RU]. }
  destruct (eo_bp_cases bp) as [Ebp|[Ebp|[Ebp|(N1 & N2 & N3)]]].
  - (* paragraph *)
    subst bp. rewrite Kn. cbn [kind_of_parser bkind_eqb negb bind].
    apply (Htail s1 s1 false).
    + apply cont_post_scache; [reflexivity|exact S1|apply scache_refl].
    + reflexivity.
    + auto.
    + discriminate.
    + discriminate.
    + intros _. apply (HnoLP s1 HM1). discriminate.
  - (* list *)
    subst bp. rewrite Kn. cbn [kind_of_parser bkind_eqb negb bind p_continue].
    destruct (ch_list _ _ _ HC1 ii node Hnode) as [it [Ln (Hit & HLn & Hlastc)]].
    rewrite Hn in HLn. injection HLn as <-.
    destruct (eo_ops_node s1 (S ii) it PListItem S1 ltac:(rewrite Ho1; exact Hit)) as [itn [Hitn Kitn]].
    destruct (ch_par _ _ _ HC1 (S ii) it PListItem Hit) as [itn' [Hitn' Hpar]]. rewrite Hitn in Hitn'.
    injection Hitn' as <-. rewrite (eo_par_at_S _ _ _ _ Hnode) in Hpar.
    destruct (CT list_pair_ok s1 node it nn itn S1 Hin1 Hn Kn Hlastc Hitn Kitn Hpar) as [s2 [c1 (E & P & Hnext)]].
    rewrite E. cbn [bind fst snd].
    apply (Htail s2 s2 c1 P eq_refl (fun _ => eq_refl)).
    + discriminate.
    + intros Hc1 it' Hit'. rewrite Hit in Hit'. injection Hit' as <-. exact (Hnext Hc1).
    + intros Hc1. destruct (eo_mid_cont cap PList node s1 s2 c1 true HM1 P (or_introl eq_refl)) as [HM2 _].
      apply (HnoLP s2 HM2). discriminate.
  - (* list item *)
    subst bp. rewrite Kn. cbn [kind_of_parser bkind_eqb negb bind p_continue].
    destruct (Hitem node Hnode s1 S1 C1) as [s3 [c3 (E & P & Hf3)]].
    rewrite E. cbn [bind fst snd].
    apply (Htail s3 s3 c3 P eq_refl (fun _ => eq_refl)).
    + discriminate.
    + intros _ it' Hit'. exfalso. rewrite <- Ho1 in Hit'. destruct (eo_item_prev s1 ii it' HL1 Hit') as [L HL'].
      rewrite Ho1, Hnode in HL'. discriminate.
    + intros Hc3 pn Hpn Kpn. destruct (Hf3 Hc3) as (A & B & C). unfold LP. csplit; auto.
      apply eo_sin_item; [apply P|exact A].
  - (* the others *)
    assert (Hnp : bkind_eqb (bk nn) BParagraph = false) by (rewrite Kn; destruct bp; try reflexivity; contradiction).
    rewrite Hnp. cbn [negb].
    destruct (eo_continue cap ii s1 node bp HM1 Hin1 Hnode N1 N2 N3) as [s2 [cont (E & Hnsx & s2' & P & Hadv & Heq)]].
    rewrite E. cbn [bind].
    apply (Htail s2 s2' cont P Hadv Heq Hnsx).
    + intros _ it' Hit'. exfalso. rewrite <- Ho1 in Hit'. destruct (eo_item_prev s1 ii it' HL1 Hit') as [L HL'].
      rewrite Ho1, Hnode in HL'. injection HL' as _ HL'. contradiction.
    + intros Hc. pose proof (Heq (or_introl Hc)) as <-.
      destruct (eo_mid_cont cap bp node s1 s2 cont (is_container bp) HM1 P (or_intror Hc)) as [HM2 _].
      apply (HnoLP s2 HM2 N3).
Qed.

Lemma each_opened_ok cap : forall f i stats s,
  LineMid cap s -> 0 <= i <= zlen cap -> (Z.to_nat (zlen cap - i) < f)%nat ->
  (forall it, nth_error cap (Z.to_nat i) <> Some (it, PListItem)) ->
  exists r stats', EO f cap 0%nat i (zlen cap - 1) stats s = Ok (r, stats') /\
    match r with
    | inl s' => SI s'
    | inr s' => exists s'', LineInv s'' /\ r_le (s_r s) (s_r s'') /\ advance_line_s s' = advance_line_s s'' /\
                             (i <= zlen cap - 1 -> r_in_range (s_r s) = true)
    end.
Proof using All.
  intros f i stats s HM Hi Hf Hni. apply (eo_gen cap f i stats s HM Hi Hf).
  intros it Hit. exfalso. exact (Hni it Hit).
Qed.

End S.
