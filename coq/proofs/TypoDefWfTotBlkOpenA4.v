(* Helper file 4 for TypoDefWfTotBlkOpenA.v: the body of try_parsersD behind a successful Open of the
   definition list parser (DDefList): an existing list is moved behind its siblings and pushed
   (dl_move_ok); a new list is pushed, after the paragraph in front has been closed, popped and
   transformed when it is the last opened block (dl_new_ok). *)
Require Import GM.model.Base GM.model.Util GM.model.Reader GM.model.ReaderSpec GM.model.Blocks GM.model.ListItem
               GM.model.LeafBlocks GM.model.CodeBlock GM.model.LinkDest GM.model.Regex GM.model.BlockParse
               GM.model.TypoDefParseD.
Require Import GM.proofs.ReaderProofs GM.proofs.BlocksProofs
               GM.proofs.ParseBlocksTotalReader GM.proofs.ParseBlocksTotalDefs GM.proofs.ParseBlocksTotalSpec
               GM.proofs.ParseBlocksTotalSt GM.proofs.ParseBlocksTotalShape GM.proofs.ParseBlocksTotalLeaf
               GM.proofs.ParseBlocksTotalOpen
               GM.proofs.GfmConservativeDefs GM.proofs.TypoDefConservativeBlkInv
               GM.proofs.TypoDefWfTotBlkDefs GM.proofs.TypoDefWfTotBlkSpec GM.proofs.TypoDefWfTotBlkOpenI
               GM.proofs.TypoDefWfTotBlkOpenAI GM.proofs.TypoDefWfTotBlkOpenA1 GM.proofs.TypoDefWfTotBlkOpenA3.
From Coq Require Import ZArith Lia List Bool.
Import ListNotations.
Open Scope Z_scope.

Section S.
Variable space_table punct_table : list N.
Variable norm : bytes -> bytes.
Variable re_t1o re_t1c re_t2 re_t3 re_t4 re_t5 re_t6 re_t7 : re.
Variable allowed_tags : list bytes.
Variable src : bytes.
Hypothesis tbl : TblOK space_table.
Notation SI := (SI space_table src).
Notation SD := (SD space_table src).
Notation isb := (Reader.is_blank space_table).
Notation attachD := (attachD space_table punct_table norm).
Notation after_openD := (after_openD space_table punct_table norm).
Notation OPopD := (OPopD space_table src).
Notation OPushDL := (OPushDL space_table src).
Notation DLF := (DLF space_table src).
Notation cpt_ok := (cpt_ok space_table punct_table norm re_t1o re_t1c re_t2 re_t3 re_t4 re_t5 re_t6 re_t7 allowed_tags src tbl).
Notation attachD_core := (attachD_core space_table punct_table norm re_t1o re_t1c re_t2 re_t3 re_t4 re_t5 re_t6 re_t7 allowed_tags src tbl).
Notation i_append_childD_move := (i_append_childD_move space_table punct_table norm re_t1o re_t1c re_t2 re_t3 re_t4 re_t5 re_t6 re_t7 allowed_tags src tbl).

(* ---------------------------------------------------------------------------------------- *)
(* the outcomes of the interface along the bookkeeping at the head of the round                *)
Lemma OPopD_pre parent pn res w s0 s t : dcl s0 s -> OPopD parent pn res w s t -> OPopD parent pn res w s0 t.
Proof.
  intros D (s' & base & x & H1 & H2 & H3 & H4 & H5 & H6 & H7 & H8 & H9 & H10 & H11 & H12 & H13).
  pose proof D as (Eh & Ep & Ea & El & Ef & Et).
  exists s', base, x. rewrite (dcl_ops _ _ D), (dcl_view _ _ D), Eh, Ef, Et in *. csplit; auto.
  eapply same_pos_trans; eassumption.
Qed.

Lemma OPushDL_pre parent pn cont s0 s t : dcl s0 s -> OPushDL parent pn cont s t -> OPushDL parent pn cont s0 t.
Proof.
  intros D (lst & s' & H1 & H2 & H3 & H4 & H5 & H6 & H7 & H8 & H9 & H10 & H11 & H12 & H13 & H14).
  pose proof D as (Eh & Ep & Ea & El & Ef & Et).
  exists lst, s'. split; [exact H1|]. unfold TypoDefWfTotBlkOpenAI.DLF.
  rewrite (dcl_ops _ _ D), Eh, Ef, Et in *. csplit; auto.
  eapply same_pos_trans; eassumption.
Qed.

(* ---------------------------------------------------------------------------------------- *)
(* the reader and the context offsets of a state on the same line                              *)
Lemma DLine_same s s' : DLine s -> r_pos (s_r s') = r_pos (s_r s) -> r_src (s_r s') = r_src (s_r s) ->
  c_boff (s_c s') = c_boff (s_c s) -> c_bind (s_c s') = c_bind (s_c s) -> DLine s' /\ sview s' = sview s.
Proof.
  intros (A1 & A2 & A3 & A4 & A5) Ep Es Eb Ei.
  assert (Ev : sview s' = sview s) by (unfold sview, r_view; rewrite Ep, Es; reflexivity).
  split; [|exact Ev]. unfold DLine. rewrite Ev, Eb, Ei, Ep. csplit; assumption.
Qed.

Lemma Wok_same s s' W : sview s' = sview s -> Wok s W -> Wok s' W.
Proof. unfold Wok. intros ->. auto. Qed.

(* ---------------------------------------------------------------------------------------- *)
(* an existing list: moved behind its siblings and pushed                                      *)
Lemma dl_move_ok parent pn blank cont res s s1 node nn W sg :
  SD s -> sin s -> nth_error (s_h s) parent = Some pn -> lastatt s -> bk pn <> BList ->
  DLine s -> Wok s W ->
  SD s1 -> same_pos (s_r s) (s_r s1) -> s_c s1 = s_c s ->
  In node (bch pn) -> nth_error (s_h s) node = Some nn -> is_dl nn = true ->
  s_h s1 = hset (s_h s) node (set_seg (set_i2 nn W) sg) ->
  (forall x, sg = Some x -> exists l ln, x = mkseg (Z.of_nat l) 0 /\ nth_error (s_h s) l = Some ln /\
                                         bk ln = BParagraph /\ bpar ln = Some parent) ->
  exists t, after_openD DDefList parent blank cont res (last_opened (s_c s)) s1 node true false = Ok t /\
            OPushDL parent pn cont s t.
Proof using All.
  intros [HS HT] Hin Hp Hatt Hnl HDL HW [S1 T1] Sp Ec Hc Hn Hdl Eh Hsg.
  set (nn1 := set_seg (set_i2 nn W) sg). set (nn2 := set_blank nn1 blank).
  assert (Hnlt : (node < length (s_h s))%nat) by (eapply nth_error_lt, Hn).
  assert (Hpn : (parent < node)%nat).
  { pose proof (hi_ch _ _ _ (si_h _ _ _ HS) parent pn Hp) as F. rewrite Forall_forall in F. apply (F node Hc). }
  assert (Hn1 : nth_error (s_h s1) node = Some nn1) by (rewrite Eh; apply hset_same; exact Hnlt).
  assert (Kn : bk nn = BHTML) by (apply is_dl_kind, Hdl).
  unfold after_openD, req_paraD. cbn [bind recorded]. unfold TypoDefWfTotBlkOpenA1.attachD.
  rewrite (hupd_ok _ _ _ _ Hn1). cbn [bind]. cbv zeta. fold nn2.
  set (h1 := hset (s_h s1) node nn2).
  assert (Hh1o : forall j, j <> node -> nth_error h1 j = nth_error (s_h s) j).
  { intros j Hj. unfold h1. rewrite hset_other by lia. rewrite Eh. apply hset_other. lia. }
  assert (Hh1n : nth_error h1 node = Some nn2).
  { unfold h1. apply hset_same. rewrite Eh, hset_length. exact Hnlt. }
  assert (EsD : att_stepD space_table punct_table norm (last_opened (s_c s)) (st_h s1 h1) = Ok (st_h s1 h1)).
  { unfold att_stepD. destruct (last_opened (s_c s)) as [[la lp]|] eqn:El; [|reflexivity].
    destruct (is_paragraph_ok space_table src s la lp HS El) as (n0 & En0 & _). pose proof (Hatt la lp n0 El En0) as Pa.
    unfold attached. cbn [st_h s_h]. destruct (Nat.eq_dec la node) as [->|Hne].
    - rewrite (hget_some _ _ _ Hh1n). cbn [bind]. rewrite Hn in En0. injection En0 as <-.
      cbn [nn2 nn1 set_blank set_seg set_i2 bpar]. destruct (bpar nn); [reflexivity|congruence].
    - assert (E0 : nth_error h1 la = Some n0) by (rewrite Hh1o by exact Hne; exact En0).
      rewrite (hget_some _ _ _ E0). cbn [bind]. destruct (bpar n0); [reflexivity|congruence]. }
  rewrite EsD. cbn [bind]. cbn [st_h s_h s_c].
  assert (S1h : SI (st_h s1 h1)).
  { apply (upd_node_ok space_table src s1 node nn1 nn2 S1 Hn1); try reflexivity.
    - apply node_ok_set_blank. exact (hi_ok _ _ _ (si_h _ _ _ S1) node nn1 Hn1).
    - cbn [nn2 nn1 set_blank set_seg set_i2 bk]. rewrite Kn. discriminate. }
  assert (T1h : TC h1) by (unfold h1; eapply i_TC_hset; [exact T1|exact Hn1|reflexivity|reflexivity]).
  assert (Hp1 : nth_error h1 parent = Some pn) by (rewrite Hh1o by lia; exact Hp).
  destruct (i_append_childD_move h1 parent node pn nn2 (si_h _ _ _ S1h) T1h Hp1 Hh1n Hc Hnl)
    as (h2 & E2 & St2 & T2 & L2 & Pn2 & N2 & P2 & O2).
  { cbn [nn2 nn1 set_blank set_seg set_i2 bk]. rewrite Kn. discriminate. }
  rewrite E2. cbn [bind].
  set (s' := st_c (st_h (st_h s1 h1) h2) (push_opened (s_c s1) (node, PHTML))).
  assert (S2 : SI (st_h (st_h s1 h1) h2)) by (apply SI_set_h; [exact S1h|exact St2]).
  assert (HS' : SI s').
  { apply SI_set_c; [exact S2|]. cbn [st_h s_h].
    eapply CInv_push; [exact (si_c _ _ _ S2)|exact N2|]. cbn [nn2 nn1 set_blank set_seg set_i2 bk kind_of_parser]. exact Kn. }
  destruct (push_opened_spec (s_c s1) (node, PHTML) (ci_len _ _ (si_c _ _ _ S1)))
    as (P1 & _ & _ & _ & P5 & P6 & _ & _ & _ & P10 & P11).
  (* the old nodes in the new heap *)
  assert (Hh2 : forall j n, nth_error (s_h s) j = Some n -> exists n', nth_error h2 j = Some n' /\ bk n' = bk n /\
            b_i1 n' = b_i1 n /\ blines n' = blines n /\ bpar n' = bpar n /\ (j <> parent -> bch n' = bch n) /\
            (j <> parent -> j <> node -> n' = n)).
  { intros j n Hj. destruct (Nat.eq_dec j node) as [->|Jn].
    - rewrite Hn in Hj. injection Hj as <-. exists nn2. split; [exact N2|]. cbn [nn2 nn1 set_blank set_seg set_i2 bk b_i1 blines bpar bch].
      csplit; auto. intros _ C. contradiction.
    - destruct (Nat.eq_dec j parent) as [->|Jp].
      + rewrite Hp in Hj. injection Hj as <-. eexists. split; [exact P2|]. cbn [set_ch bk b_i1 blines bpar]. csplit; auto; intros C; contradiction.
      + exists n. rewrite (O2 j Jp Jn), (Hh1o j Jn). csplit; auto. }
  destruct (DLine_same s s' HDL) as [HDL' Ev].
  { cbn [s' st_c st_h s_r]. destruct Sp as (_ & E & _). exact E. }
  { cbn [s' st_c st_h s_r]. destruct Sp as (E & _). exact E. }
  { cbn [s' st_c s_c]. rewrite P5, Ec. reflexivity. }
  { cbn [s' st_c s_c]. rewrite P6, Ec. reflexivity. }
  eexists. split; [reflexivity|]. exists node, s'. split; [reflexivity|]. unfold TypoDefWfTotBlkOpenAI.DLF. csplit.
  - split; [exact HS'|exact T2].
  - split; [cbn [s' st_c st_h s_h]; rewrite L2; unfold h1; rewrite hset_length, Eh, hset_length; lia|].
    intros j n Hj. destruct (Hh2 j n Hj) as (n' & E' & K' & I' & _). exists n'. auto.
  - exact Sp.
  - unfold sin. cbn [s' st_c st_h s_r]. rewrite (same_pos_in_range _ _ Sp). exact Hin.
  - exact HDL'.
  - left. unfold ops. cbn [s' st_c s_c]. rewrite P1, Ec. reflexivity.
  - split; [cbn [s' st_c st_h s_h]; rewrite L2; unfold h1; rewrite hset_length, Eh, hset_length; lia|].
    intros j n Hj. destruct (Hh2 j n Hj) as (n' & E' & K' & _ & Li & Pa & Ch & _). exists n'. csplit; auto.
  - right. exists nn. auto.
  - exists nn2. split; [exact N2|]. split; [|split; [exact Pn2|split]].
    + rewrite <- Hdl. apply is_dl_same; reflexivity.
    + cbn [nn2 nn1 set_blank set_seg set_i2 b_i2]. eapply Wok_same; eassumption.
    + cbn [nn2 nn1 set_blank set_seg set_i2 b_seg]. intros x Ex. destruct (Hsg x Ex) as (l & ln & -> & El & Kl & Pl).
      assert (Hlp : (parent < l)%nat) by exact (hi_par _ _ _ (si_h _ _ _ HS) l ln parent El Pl).
      assert (Hln : l <> node) by (intros ->; rewrite Hn in El; injection El as <-; congruence).
      exists l, ln, parent. csplit; auto. cbn [s' st_c st_h s_h]. rewrite (O2 l) by lia. rewrite Hh1o by exact Hln. exact El.
  - eexists. split; [exact P2|]. cbn [set_ch bch]. apply last_id_app.
  - cbn [s' st_c s_c]. rewrite P10, Ec. reflexivity.
  - cbn [s' st_c s_c]. rewrite P11, Ec. reflexivity.
  - exact Hnl.
Qed.

(* ---------------------------------------------------------------------------------------- *)
(* a new list: appended below the parent and pushed                                           *)
Lemma dl_new_attach parent pn blank cont s s1 sX l W x :
  SD s -> sin s -> nth_error (s_h s) parent = Some pn -> bk pn <> BList -> DLine s -> Wok s W ->
  same_pos (s_r s) (s_r s1) ->
  SD sX -> kkeep (s_h s) (s_h sX) -> s_r sX = s_r s1 ->
  c_fence (s_c sX) = c_fence (s_c s) -> c_tmp_para (s_c sX) = c_tmp_para (s_c s) ->
  c_boff (s_c sX) = c_boff (s_c s) -> c_bind (s_c sX) = c_bind (s_c s) ->
  (opened (s_c sX) = ops s \/ exists base y, ops s = base ++ [(y, PParagraph)] /\ opened (s_c sX) = base) ->
  AF (s_h s) (s_h sX) parent x -> (forall j, x = Some j -> exists n, nth_error (s_h s) j = Some n /\ bk n = BParagraph) ->
  nth_error (s_h sX) (length (s_h s)) = Some (set_seg (set_i2 (mknode BHTML 100) W) (para_ref l)) ->
  (forall la lp, last_opened (s_c s) = Some (la, lp) -> exists n, nth_error (s_h sX) la = Some n /\ bpar n <> None) ->
  (exists lnX pp, nth_error (s_h sX) l = Some lnX /\ bk lnX = BParagraph /\ bpar lnX = Some pp) ->
  (l < length (s_h s))%nat -> l <> parent ->
  exists t, attachD PHTML parent blank cont (last_opened (s_c s)) sX (length (s_h s)) true = Ok t /\
            OPushDL parent pn cont s t.
Proof using All.
  intros [HS HT] Hin Hp Hnl HDL HW Sp [SX TX] KX Er HfX HtX HbX HiX Hops HAF Hx Hnd Hlast (lnX & pp & ElX & KlX & PlX) Hll Hlp.
  set (nd0 := set_seg (set_i2 (mknode BHTML 100) W) (para_ref l)) in *.
  assert (Hpl : (parent < length (s_h s))%nat) by (eapply nth_error_lt, Hp).
  pose proof HAF as [LA FA]. destruct (FA parent pn Hp) as (pnX & EpX & KpX & _).
  assert (Hlast' : forall la lp, last_opened (s_c s) = Some (la, lp) ->
            exists n, nth_error (s_h sX) la = Some n /\ bpar n <> None /\ la <> length (s_h s)).
  { intros la lp El. destruct (Hlast la lp El) as (n & En & Pn'). exists n. csplit; auto.
    destruct (is_paragraph_ok space_table src s la lp HS El) as (n0 & En0 & _). apply nth_error_lt in En0. lia. }
  destruct (attach_ok space_table punct_table norm src PHTML parent blank cont (last_opened (s_c s)) sX (length (s_h s)) true
              pnX nd0 SX Hnd EpX Hpl) as (s' & Et & S' & Rr & Cc & Ll & Nn & Pp & Oo); try reflexivity.
  { rewrite KpX. intros C. contradiction. }
  { cbn. discriminate. }
  { exact Hlast'. }
  destruct (attachD_core PHTML parent blank cont (last_opened (s_c s)) sX (length (s_h s)) true nd0 Hnd eq_refl Hlast') as [Eq Htc].
  rewrite Eq. eexists. split; [exact Et|].
  destruct (Htc _ Et TX ltac:(lia)) as [T' K']. cbn [st_of] in T', K'.
  destruct (push_opened_spec (s_c sX) (length (s_h s), PHTML) (ci_len _ _ (si_c _ _ _ SX)))
    as (P1 & _ & _ & _ & P5 & P6 & _ & _ & _ & P10 & P11).
  destruct (DLine_same s s' HDL) as [HDL' Ev].
  { rewrite Rr, Er. destruct Sp as (_ & E & _). exact E. }
  { rewrite Rr, Er. destruct Sp as (E & _). exact E. }
  { rewrite Cc, P5. exact HbX. }
  { rewrite Cc, P6. exact HiX. }
  exists (length (s_h s)), s'. split; [reflexivity|]. unfold TypoDefWfTotBlkOpenAI.DLF. csplit.
  - split; assumption.
  - eapply kkeep_trans; eassumption.
  - rewrite Rr, Er. exact Sp.
  - unfold sin. rewrite Rr, Er, (same_pos_in_range _ _ Sp). exact Hin.
  - exact HDL'.
  - unfold ops in *. rewrite Cc, P1. destruct Hops as [Ho|(base & y & Ho & Hb)].
    + left. rewrite Ho. reflexivity.
    + right. exists base, y. split; [exact Ho|]. rewrite Hb. reflexivity.
  - eapply AF_OFrameD; [exact Hx|].
    apply (AF_att norm src (s_h s) (s_h sX) (s_h s') parent x (length (s_h s))); [exact HAF| |lia].
    split; [lia|]. intros j n Hj Hjn. destruct (Nat.eq_dec j parent) as [->|Hne].
    + rewrite EpX in Hj. injection Hj as <-. eexists. split; [exact Pp|]. cbn [set_ch bk blines bpar]. csplit; auto.
      intros C. contradiction.
    + exists n. rewrite (Oo j Hne Hjn). csplit; auto.
  - left. lia.
  - eexists. split; [exact Nn|]. split; [reflexivity|]. split; [reflexivity|]. split.
    + cbn [nd0 set_par set_blank set_seg set_i2 b_i2]. eapply Wok_same; eassumption.
    + cbn [nd0 set_par set_blank set_seg set_i2 b_seg]. intros x0 Ex. unfold para_ref in Ex. injection Ex as <-.
      exists l, lnX, pp. csplit; auto. rewrite (Oo l) by lia. exact ElX.
  - eexists. split; [exact Pp|]. cbn [set_ch bch]. apply last_id_app.
  - rewrite Cc, P10. exact HfX.
  - rewrite Cc, P11. exact HtX.
  - exact Hnl.
Qed.

(* the RequireParagraph path of the definition list parser *)
Lemma dl_new_ok parent pn blank cont res w s s1 l ln W :
  SD s -> sin s -> nth_error (s_h s) parent = Some pn -> lastatt s -> bk pn <> BList -> (3 <? w) = false ->
  DLine s -> Wok s W ->
  SD s1 -> same_pos (s_r s) (s_r s1) -> s_c s1 = s_c s ->
  last_id (bch pn) = Some l -> nth_error (s_h s) l = Some ln -> bk ln = BParagraph ->
  s_h s1 = s_h s ++ [set_seg (set_i2 (mknode BHTML 100) W) (para_ref l)] ->
  exists t, after_openD DDefList parent blank cont res (last_opened (s_c s)) s1 (length (s_h s)) true true = Ok t /\
            (OPopD parent pn res w s t \/ OPushDL parent pn cont s t).
Proof using All.
  intros [HS HT] Hin Hp Hatt Hnl Hw HDL HW [S1 T1] Sp Ec Hl El Kl Eh.
  set (nd0 := set_seg (set_i2 (mknode BHTML 100) W) (para_ref l)) in *.
  assert (Hnd1 : nth_error (s_h s1) (length (s_h s)) = Some nd0) by (rewrite Eh; apply nth_error_alloc_new).
  assert (K01 : kkeep (s_h s) (s_h s1)) by (rewrite Eh; apply kkeep_alloc).
  destruct (TC_last_attached (s_h s) parent pn l HT Hp Hl) as (ln' & El' & Pl).
  rewrite El in El'. injection El' as <-.
  assert (Hlp : (parent < l)%nat) by exact (hi_par _ _ _ (si_h _ _ _ HS) l ln parent El Pl).
  assert (Hll : (l < length (s_h s))%nat) by (eapply nth_error_lt, El).
  assert (El1 : nth_error (s_h s1) l = Some ln) by (rewrite Eh; apply nth_error_alloc_old, El).
  assert (Plain : exists t, attachD PHTML parent blank cont (last_opened (s_c s)) s1 (length (s_h s)) true = Ok t /\
                            OPushDL parent pn cont s t).
  { apply (dl_new_attach parent pn blank cont s s1 s1 l W None); auto; try (rewrite Ec; reflexivity).
    - split; assumption.
    - split; assumption.
    - left. unfold ops. rewrite Ec. reflexivity.
    - rewrite Eh. apply (AF_alloc norm src).
    - discriminate.
    - intros la lp Ela. destruct (is_paragraph_ok space_table src s la lp HS Ela) as (n0 & En0 & _).
      exists n0. split; [rewrite Eh; apply nth_error_alloc_old, En0|eapply Hatt; eassumption].
    - exists ln, parent. auto.
    - lia. }
  unfold after_openD, req_paraD. cbn [recorded].
  destruct (last_opened (s_c s)) as [[last lp]|] eqn:Elo.
  2:{ cbn [bind]. destruct Plain as (t & E & O). exists t. split; [exact E|right; exact O]. }
  assert (Hp1 : nth_error (s_h s1) parent = Some pn) by (rewrite Eh; apply nth_error_alloc_old, Hp).
  rewrite (hget_some _ _ _ Hp1). cbn [bind]. rewrite Hl.
  destruct (opt_nat_eqb (Some last) (Some l)) eqn:Eq.
  2:{ cbn [bind]. destruct Plain as (t & E & O). exists t. split; [exact E|right; exact O]. }
  unfold opt_nat_eqb in Eq. apply Nat.eqb_eq in Eq. subst last.
  assert (lp = PParagraph).
  { destruct (is_paragraph_ok space_table src s l lp HS Elo) as (n0 & En0 & Kn0 & _).
    rewrite El in En0. injection En0 as <-. rewrite Kl in Kn0. symmetry in Kn0. apply kind_para_parser in Kn0. exact Kn0. }
  subst lp.
  destruct (last_opened_inv (s_c s) (l, PParagraph) (ci_len _ _ (si_c _ _ _ HS)) Elo) as [base Eb].
  assert (Eo1 : opened (s_c s1) = base ++ [(l, PParagraph)]) by (rewrite Ec; exact Eb).
  destruct (cpt_ok s1 l ln base (conj S1 T1) El1 Kl ltac:(rewrite Pl; discriminate) Eo1)
    as (s2 & s4 & gone & E2 & Elen & Eisp & E4 & [S4 T4] & K14 & Er4 & Ef4 & Et4 & Eb4 & Ei4 & Eo4 & CF2 & CF4 & (n4 & En4 & Hgone) & Hsame).
  rewrite E2. cbn [bind]. cbv zeta. rewrite Elen. cbn [st_c s_h]. rewrite Eisp. cbn [bind negb]. rewrite E4. cbn [bind]. cbv iota beta.
  assert (HAF4 : AF (s_h s) (s_h s4) parent (Some l)).
  { apply (AF_close2 norm src (s_h s) (s_h s1) (s_h s2) (s_h s4) parent l nd0 Eh); [exact CF2|exact CF4]. }
  assert (K04 : kkeep (s_h s) (s_h s4)) by (eapply kkeep_trans; eassumption).
  assert (Hxl : forall j, Some l = Some j -> exists n, nth_error (s_h s) j = Some n /\ bk n = BParagraph).
  { intros j Ej. injection Ej as <-. exists ln. auto. }
  destruct gone.
  - eexists. split; [reflexivity|]. left. exists s4, base, l. csplit; auto.
    + split; assumption.
    + rewrite Er4. exact Sp.
    + eapply AF_OFrameD; [exact Hxl|exact HAF4].
    + rewrite Ef4, Ec. reflexivity.
    + left. rewrite Et4, Ec. reflexivity.
    + intros t Ht. rewrite Et4, Ec in Ht. destruct (ci_tmp _ _ (si_c _ _ _ HS) t Ht) as (n & En & _). eapply nth_error_lt, En.
    + apply (DLine_nonblank space_table tbl), HDL.
  - assert (Hn4 : bpar n4 <> None) by (intros C; apply Hgone in C; discriminate).
    assert (Kn4 : bk n4 = BParagraph).
    { destruct K14 as [_ K14]. destruct (K14 l ln El1) as (n' & E' & K' & _). rewrite En4 in E'. injection E' as <-. congruence. }
    destruct (dl_new_attach parent pn blank cont s s1 s4 l W (Some l)) as (t & E & O); auto.
    + split; assumption.
    + split; assumption.
    + rewrite Ef4, Ec. reflexivity.
    + rewrite Et4, Ec. reflexivity.
    + rewrite Eb4, Ec. reflexivity.
    + rewrite Ei4, Ec. reflexivity.
    + right. exists base, l. auto.
    + rewrite (Hsame parent Pl (length (s_h s))); [exact Hnd1|lia|lia|].
      rewrite Eh, app_length. cbn [length]. lia.
    + intros la lp Ela. rewrite Elo in Ela. injection Ela as <- <-. exists n4. auto.
    + destruct (bpar n4) as [pp|] eqn:Ep4; [|congruence]. exists n4, pp. auto.
    + lia.
    + rewrite Elo in E. exists t. split; [exact E|right; exact O].
Qed.

End S.
