(* C05 / C03 / C04 (inline phase of the GFM parser model, model/InlineParseX.v): the inline
   children inline_childrenX produces for a block whose lines satisfy lines_ok are well formed in
   the sense of HtmlSpec.wf_node.  Port of proofs/ParseInlineRange.v (theorem
   inline_children_ok_sp) to the generalised drivers, with the strikethrough, task check box and
   linkify parsers.  Helper files: proofs/GfmWfInl*.v. *)
Require Import GM.model.Base GM.model.Util GM.model.Reader GM.model.ReaderSpec GM.model.Blocks GM.model.ListItem
               GM.model.LeafBlocks GM.model.CodeSpan GM.model.LinkDest GM.model.Regex GM.model.Delim GM.model.HtmlWriter
               GM.model.Html GM.model.HtmlSpec GM.model.BlockParse GM.model.InlineParse GM.model.InlineParseX.
Require Import GM.proofs.BReaderProofs GM.proofs.ParseInv.
Require Import GM.proofs.ParseInlineRangeHeap GM.proofs.ParseInlineRangeReader GM.proofs.ParseInlineRangeParsers.
Require Import GM.proofs.ParseInlineRange.
Require Import GM.proofs.GfmWfInlDelim GM.proofs.GfmWfInlParsers GM.proofs.GfmWfInlLoop.
From Coq Require Import ZArith Lia List Bool.
Import ListNotations.
Open Scope Z_scope.

Section S.
Variable xc : xcfg.
Variable space_table punct_table : list N.
Variable norm : bytes -> bytes.
Variable url_table email_table : list N.
Variable re_email_domain re_open_tag re_close_tag : re.
Variable punct_rune space_rune : N -> bool.
Variable re_task re_url re_www : re.
Hypothesis Hsp32 : is_space space_table 32 = true.
Hypothesis Hsp10 : is_space space_table 10 = true.
Notation ICX := (inline_childrenX xc space_table punct_table norm url_table email_table
                   re_email_domain re_open_tag re_close_tag punct_rune space_rune re_task re_url re_www).

Notation PBX := (parse_blockX xc space_table punct_table norm url_table email_table
                   re_email_domain re_open_tag re_close_tag punct_rune space_rune re_task re_url re_www).
Notation LOOPX := (parse_block_loopX xc space_table punct_table norm url_table email_table
                   re_email_domain re_open_tag re_close_tag punct_rune space_rune re_task re_url re_www).

(* ---------- parseBlock ---------- *)
(* no line at all: the reader is out of range at once and the loop leaves the state alone *)
Lemma parse_block_loopX_out refs in_item fuel x parent esc x' : b_in_range (t_r (xs_s x)) = false ->
  LOOPX refs in_item fuel x parent esc = Ok x' -> t_c (xs_s x') = t_c (xs_s x).
Proof.
  intros Hr H. destruct fuel as [|f]; cbn [parse_block_loopX] in H; [discriminate|].
  unfold b_peek_line in H. rewrite Hr in H. cbn [bind] in H. inversion H. reflexivity.
Qed.

Lemma parse_blockX_ok refs in_item src lines c http : bytes_ok src -> refs_ok refs -> lines_ok src lines ->
  PBX refs in_item src lines = Ok (c, http) -> exists L, ctx_ok src [] c L.
Proof.
  intros Hsrc Hrefs Hlines H. unfold parse_blockX in H.
  destruct (new_block_reader src lines) as [r| |] eqn:En; cbn [bind] in H; try discriminate.
  destruct (LOOPX refs in_item _ _ 0%nat false) as [x| |] eqn:El; cbn [bind] in H; try discriminate.
  destruct (init_ok space_table norm Hsp32 Hsp10 src) as [Hc0 Hp0].
  assert (Hc1 : exists L1, ctx_ok src [] (t_c (xs_s x)) L1).
  { destruct lines as [|l0 lines'].
    - apply new_block_reader_nil in En. apply parse_block_loopX_out in El; [|exact En].
      rewrite El. exists []. exact Hc0.
    - pose proof (ri_new _ _ _ Hlines ltac:(discriminate) En) as Hr.
      destruct (parse_block_loopX_ok xc space_table punct_table norm url_table email_table re_email_domain re_open_tag re_close_tag
                  punct_rune space_rune re_task re_url re_www refs src (l0 :: lines') Hsp32 Hsp10 Hsrc Hrefs _ _ _ _ _ _ [] El)
        as (L1 & [Hc1 _] & _).
      { split; [exact Hc0|exact Hr]. }
      { exact Hp0. }
      exists L1. exact Hc1. }
  destruct Hc1 as [L1 Hc1].
  destruct (process_delimitersX (ifuel (xs_s x)) (t_c (xs_s x)) BNil) as [c2| |] eqn:Ep; cbn [bind] in H; try discriminate.
  destruct (process_delimitersX_ok src _ _ _ _ _ Ep Hc1) as (L2 & Hc2 & _).
  destruct (link_close_block c2) as [c3| |] eqn:Ec; cbn [bind] in H; try discriminate.
  inversion H; subst c http.
  exists L2. eapply (link_close_block_ok space_table norm Hsp32 Hsp10); eassumption.
Qed.

(* ---------- from the heap to renderer trees ---------- *)
Lemma itreeX_text src h http : forall fuel i t k, itreeX fuel src h http i = Ok t -> kd h i = Some k -> is_text k = true ->
  is_text_node t = true.
Proof.
  intros fuel i t k H Hk Ht. destruct fuel as [|f]; cbn [itreeX] in H; [discriminate|].
  destruct (iget h i) as [n| |] eqn:Eg; cbn [bind] in H; try discriminate.
  apply iget_kd in Eg. destruct Eg as (Ek & _). rewrite Hk in Ek. inversion Ek as [Ek'].
  destruct (map_res _ _) as [kids| |]; cbn [bind] in H; try discriminate.
  rewrite <- Ek' in H. destruct k; cbn in Ht; try discriminate. cbn [bind] in H. inversion H. reflexivity.
Qed.

Lemma all_bytes_b_app a b : all_bytes_b a = true -> all_bytes_b b = true -> all_bytes_b (a ++ b) = true.
Proof. unfold all_bytes_b. intros Ha Hb. rewrite forallb_app, Ha, Hb. reflexivity. Qed.

Lemma itreeX_wf src h http : bytes_ok src -> heap_ok src h ->
  forall fuel i t, itreeX fuel src h http i = Ok t -> wf_node src false false t = true.
Proof.
  intros Hsrc Hh. induction fuel as [|f IH]; intros i t H; cbn [itreeX] in H; [discriminate|].
  destruct (iget h i) as [n| |] eqn:Eg; cbn [bind] in H; try discriminate.
  apply iget_kd in Eg. destruct Eg as (Ek & _ & Ec).
  destruct (map_res (itreeX f src h http) (ich n)) as [kids| |] eqn:Em; cbn [bind] in H; try discriminate.
  assert (Hkids : forall a b, a = false -> b = false -> forallb (wf_node src a b) kids = true).
  { intros a b -> ->. apply forallb_forall. intros y Hy. destruct (map_res_in _ _ _ Em y Hy) as (x & _ & Hx). eapply IH. exact Hx. }
  pose proof (h_kind _ _ Hh i _ Ek) as Hko.
  destruct (ik n) as [|s0 soft hard raw| |lv|d ti|d ti|e sg|segs| |] eqn:Ekn; cbn [bind] in H.
  - inversion H; subst t. rewrite wf_node_node. rewrite Hkids by reflexivity. reflexivity.
  - inversion H; subst t. rewrite wf_node_node. rewrite Hkids by reflexivity. cbn in Hko. cbn. rewrite Hko. reflexivity.
  - inversion H; subst t. rewrite wf_node_node. rewrite Hkids by reflexivity. cbn.
    assert (Ht : forallb is_text_node kids = true).
    { apply forallb_forall. intros y Hy. destruct (map_res_in _ _ _ Em y Hy) as (x & Hx & Hxy).
      assert (Hxc : In x (ch h i)) by (rewrite Ec; exact Hx).
      pose proof (t_child _ (h_tree _ _ Hh) i x Hxc) as Hpx. apply pr_valid in Hpx. destruct (valid_kd h x Hpx) as [kx Ekx].
      eapply itreeX_text; [exact Hxy|exact Ekx|]. eapply (h_cs _ _ Hh i x kx); [exact Ek|exact Hxc|exact Ekx]. }
    rewrite Ht. reflexivity.
  - inversion H; subst t. rewrite wf_node_node.
    destruct (lv =? 0); [|destruct (lv =? -1); [|destruct (lv =? -2)]]; rewrite Hkids by reflexivity; reflexivity.
  - inversion H; subst t. rewrite wf_node_node. rewrite Hkids by reflexivity. cbn in Hko. destruct Hko as [Hd Ht].
    cbn. destruct ti as [ti|]; [rewrite Hd, (Ht ti eq_refl)|rewrite Hd]; reflexivity.
  - inversion H; subst t. rewrite wf_node_node. rewrite Hkids by reflexivity. cbn in Hko. destruct Hko as [Hd Ht].
    cbn. destruct ti as [ti|]; [rewrite Hd, (Ht ti eq_refl)|rewrite Hd]; reflexivity.
  - destruct (seg_value src sg) as [v| |] eqn:Ev; cbn [bind] in H; try discriminate.
    inversion H; subst t. rewrite wf_node_node. rewrite Hkids by reflexivity.
    pose proof (seg_value_bytes _ _ _ Hsrc Ev) as Hv. unfold bytes_ok in Hv. cbn [node_ok forallb attrs_ok].
    destruct (existsb (Nat.eqb i) http).
    + pose proof (all_bytes_b_app [104;116;116;112;58;47;47]%N v (eq_refl _) Hv) as Hp. cbn [app] in Hp.
      rewrite Hp, Hv. reflexivity.
    + rewrite Hv. reflexivity.
  - inversion H; subst t. rewrite wf_node_node. rewrite Hkids by reflexivity. cbn in Hko. cbn. rewrite Hko. reflexivity.
  - inversion H; subst t. rewrite wf_node_node. rewrite Hkids by reflexivity. reflexivity.
  - inversion H; subst t. rewrite wf_node_node. rewrite Hkids by reflexivity. reflexivity.
Qed.

(* ---------- the theorem ---------- *)
Theorem inline_childrenX_ok_sp : forall refs in_item src lines ts,
  bytes_ok src -> refs_ok refs -> lines_ok src lines ->
  ICX refs in_item src lines = Ok ts ->
  Forall (fun t => wf_node src false false t = true) ts.
Proof.
  intros refs in_item src lines ts Hsrc Hrefs Hlines H. unfold inline_childrenX in H.
  destruct (PBX refs in_item src lines) as [[c http]| |] eqn:Ep; cbn [bind] in H; try discriminate.
  destruct (itreeX (S (length (i_h c))) src (i_h c) http 0%nat) as [t| |] eqn:Et; cbn [bind] in H; try discriminate.
  inversion H; subst ts. clear H.
  destruct (parse_blockX_ok refs in_item src lines c http Hsrc Hrefs Hlines Ep) as (L & Hh & _).
  pose proof (itreeX_wf src (i_h c) http Hsrc Hh _ _ _ Et) as Hwf.
  destruct t as [k l a kids]. rewrite wf_node_node in Hwf. apply andb_prop in Hwf. destruct Hwf as [_ Hkids].
  cbn [t_children]. apply Forall_forall. intros x Hx. rewrite forallb_forall in Hkids. specialize (Hkids x Hx).
  (* the root is not a table, header or row *)
  cbn [itreeX] in Et. destruct (iget (i_h c) 0) as [n| |]; cbn [bind] in Et; try discriminate.
  destruct (map_res _ _) as [ks| |]; cbn [bind] in Et; try discriminate.
  destruct (ik n) as [|s0 soft hard raw| |lv|d ti|d ti|e sg|segs| |]; cbn [bind] in Et; try (inversion Et; subst; exact Hkids).
  - destruct (lv =? 0); [|destruct (lv =? -1); [|destruct (lv =? -2)]]; inversion Et; subst; exact Hkids.
  - destruct (seg_value src sg) as [v| |]; cbn [bind] in Et; try discriminate. inversion Et; subst; exact Hkids.
Qed.

End S.
