(* C01 (block phase of the parser model with extension.DefinitionList switched on,
   model/TypoDefParseD.v + model/TypoDefParse.v parse_blocks_treeTD): parse_blocks_treeTD never
   panics and never runs out of fuel.  Port of proofs/ParseBlocksTotal*.v (parse_blocks_total /
   ParseBlocksTree_total); template for the port to a generalised driver: proofs/GfmWfTotBlk*.v
   (notes: /verif/.work/GfmWfTotBlk_NOTES.md).  Helper files: proofs/TypoDefWfTotBlk*.v.
   (With the switch off the block phase is that of the default parser: TypoDefConservativeBlk.v
   parse_blocksD_off; that case is dealt with in TypoDefWf.v.)

   The state invariant SI / HInv / CInv of the core proof (ParseBlocksTotalDefs.v) is reused unchanged
   (a DefinitionList / Term / Description node is a BHTML node), and with it the core lemmas about the
   ten default parsers and the paragraph transformer.  The helper files (compile order):
     Defs    kkeep (old nodes keep kind and type field), TC (tree consistency: needed to exclude
             the Panic of defdesc_open - the temporary paragraph, the last child of a node, is attached),
             SD = SI + TC, contD (container entries by node), ChainD (a list entry is followed by a
             description entry), LineInvD
     Spec    close_postD, DLine / Wok / TmpOK / OffOK (the line and the list of a description)
     Tc      TC and kkeep under the heap operations and the functions of the default parsers
     DlA, DlB, DlC, Dl   deflist_open/continue, add_terms, defdesc_open/close, append_childD, p_continueD / p_closeD
     Close   close_rangeD / close_blocksD
     OpenI   open_blocksD_spec, each_openedD_spec (interfaces of the drivers)
     OpenAI  the outcomes of one round of open_blocks_loopD; round_spec, dd_round_spec
     OpenA1 .. OpenA5, OpenA   one round (try_parsersD): round_okD; the round below a pushed list: dd_round_ok
     OpenB1, OpenB2, OpenB     the loop and open_blocksD: open_blocksD_ok
     EachA, Each               each_openedD: each_openedD_ok
     Drive   lines_loopD, parse_blocks_loopD, parse_blocksD, to_treeD: parse_blocksD_tree_ok *)
Require Import GM.model.Base GM.model.Util GM.model.UtilI GM.model.Reader GM.model.ReaderSpec GM.model.Regex GM.model.HtmlWriter
               GM.model.Html GM.model.HtmlSpec GM.model.BlockParse GM.model.InlineParse
               GM.model.TypoDefParseT GM.model.TypoDefParseD GM.model.TypoDefParse.
Require Import GM.proofs.ParseInv GM.proofs.ParseBlocksTotalSpec.
Require Import GM.proofs.TypoDefWfTotBlkOpenI GM.proofs.TypoDefWfTotBlkOpenAI GM.proofs.TypoDefWfTotBlkOpenA
               GM.proofs.TypoDefWfTotBlkOpenB GM.proofs.TypoDefWfTotBlkEach GM.proofs.TypoDefWfTotBlkDrive.
From Coq Require Import ZArith List Bool.
Import ListNotations.
Open Scope Z_scope.

Section S.
Variable space_table punct_table : list N.
Variable norm : bytes -> bytes.
Variable re_t1o re_t1c re_t2 re_t3 re_t4 re_t5 re_t6 re_t7 : re.
Variable allowed_tags : list bytes.
(* the white space table marks exactly tab, newline, carriage return and blank (ParseBlocksTotalSpec.v) *)
Hypothesis tbl : TblOK space_table.

(* the block phase with the definition list parsers: parse_blocksD ends with a heap that to_treeD converts *)
Lemma parse_blocksD_total : forall src,
  exists s t, parse_blocksD true space_table punct_table norm re_t1o re_t1c re_t2 re_t3 re_t4 re_t5 re_t6 re_t7 allowed_tags src = Ok s /\
              to_treeD (S (length (s_h s))) src (s_h s) 0%nat = Ok t.
Proof.
  intros src.
  pose proof (round_okD space_table punct_table norm re_t1o re_t1c re_t2 re_t3 re_t4 re_t5 re_t6 re_t7 allowed_tags src tbl) as HR.
  pose proof (dd_round_ok space_table punct_table norm re_t1o re_t1c re_t2 re_t3 re_t4 re_t5 re_t6 re_t7 allowed_tags src tbl) as HD.
  pose proof (open_blocksD_ok space_table punct_table norm re_t1o re_t1c re_t2 re_t3 re_t4 re_t5 re_t6 re_t7 allowed_tags src tbl HR HD) as OBK.
  pose proof (each_openedD_ok space_table punct_table norm re_t1o re_t1c re_t2 re_t3 re_t4 re_t5 re_t6 re_t7 allowed_tags src tbl OBK) as EOK.
  exact (parse_blocksD_tree_ok space_table punct_table norm re_t1o re_t1c re_t2 re_t3 re_t4 re_t5 re_t6 re_t7 allowed_tags src OBK EOK).
Qed.

Theorem parse_blocks_treeTD_total : forall tc src, t_deflist tc = true -> bytes_ok src ->
  exists r, parse_blocks_treeTD tc space_table punct_table norm re_t1o re_t1c re_t2 re_t3 re_t4 re_t5 re_t6 re_t7 allowed_tags src = Ok r.
Proof.
  intros tc src Hd _. unfold parse_blocks_treeTD. rewrite Hd.
  destruct (parse_blocksD_total src) as (s & t & E1 & E2).
  rewrite E1. cbn [bind]. rewrite E2. cbn [bind]. eexists. reflexivity.
Qed.

End S.
