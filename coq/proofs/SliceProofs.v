(* C12: the source buffer is never written. *)
Require Import GM.model.Base GM.model.SliceHeap.
From Coq Require Import Arith Lia.
Open Scope nat_scope.

Definition valid_slice (h : sheap) (s : slice_t) : Prop :=
  sl_arr s < length (h_arrays h) /\ sl_len s <= sl_cap s /\ sl_off s + sl_cap s <= length (arr_of h (sl_arr s)).

(* ---------- auxiliary: "array [a] is preserved between h and h'" ---------- *)

Definition pres (a : nat) (h h' : sheap) : Prop :=
  (exists n, h_stores h' = h_stores h ++ n /\ Forall (fun st : nat * nat => fst st <> a) n) /\
  arr_of h' a = arr_of h a /\
  length (h_arrays h) <= length (h_arrays h').

Lemma pres_refl a h : pres a h h.
Proof.
  split; [exists []; split; [now rewrite app_nil_r | constructor] | split; [reflexivity | lia]].
Qed.

Lemma pres_trans a h1 h2 h3 : pres a h1 h2 -> pres a h2 h3 -> pres a h1 h3.
Proof.
  intros [[n1 [E1 F1]] [A1 L1]] [[n2 [E2 F2]] [A2 L2]].
  split; [|split; [congruence | lia]].
  exists (n1 ++ n2); split.
  - rewrite E2, E1, app_assoc; reflexivity.
  - apply Forall_app; split; assumption.
Qed.

Lemma upd_nth_length {A} (l : list A) n v : length (upd_nth l n v) = length l.
Proof.
  revert n; induction l as [|x l IH]; intros n; destruct n as [|n]; simpl; auto.
Qed.

Lemma nth_upd_nth_other {A} (l : list A) n m v d : n <> m -> nth n (upd_nth l m v) d = nth n l d.
Proof.
  revert n m; induction l as [|x l IH]; intros n m Hnm; destruct m as [|m], n as [|n]; simpl; auto; try lia.
  all: try (apply IH; lia).
Qed.

Lemma store_pres a h a' i v : a' <> a -> pres a h (store h a' i v).
Proof.
  intros Hne. unfold pres, store, arr_of; simpl. split; [|split].
  - exists [(a', i)]; split; [reflexivity|]. constructor; [simpl; assumption | constructor].
  - apply nth_upd_nth_other. intros E; apply Hne; symmetry; exact E.
  - rewrite upd_nth_length; lia.
Qed.

Lemma store_many_pres a a' vs : a' <> a -> forall h i, pres a h (store_many h a' i vs).
Proof.
  intros Hne. induction vs as [|v vs IH]; intros h i; simpl.
  - apply pres_refl.
  - eapply pres_trans; [apply store_pres; exact Hne | apply IH].
Qed.

Lemma alloc_pres a h x : a < length (h_arrays h) ->
  pres a h {| h_arrays := h_arrays h ++ [x]; h_stores := h_stores h |}.
Proof.
  intros Ha. unfold pres, arr_of; simpl. split; [|split].
  - exists []; split; [now rewrite app_nil_r | constructor].
  - apply app_nth1; exact Ha.
  - rewrite app_length; simpl; lia.
Qed.

Lemma make_pres a h l c h' s : a < length (h_arrays h) -> make h l c = (h', s) ->
  pres a h h' /\ sl_arr s <> a.
Proof.
  intros Ha E. unfold make in E. injection E as <- <-. split; [apply alloc_pres; exact Ha | simpl; lia].
Qed.

(* append allocating a fresh array: capacity exceeded *)
Lemma append_pres_full a h s vs h' s' : a < length (h_arrays h) ->
  sl_cap s < sl_len s + length vs -> append h s vs = (h', s') ->
  pres a h h' /\ sl_arr s' <> a.
Proof.
  intros Ha Hc E. unfold append in E.
  destruct (Nat.leb_spec (sl_len s + length vs) (sl_cap s)) as [Hle|Hgt]; [lia|].
  injection E as <- <-. split; [apply alloc_pres; exact Ha | simpl; lia].
Qed.

(* append on a slice of another array *)
Lemma append_pres_other a h s vs h' s' : a < length (h_arrays h) ->
  sl_arr s <> a -> append h s vs = (h', s') ->
  pres a h h' /\ sl_arr s' <> a.
Proof.
  intros Ha Hne E.
  destruct (Nat.leb_spec (sl_len s + length vs) (sl_cap s)) as [Hle|Hgt].
  - unfold append in E. apply Nat.leb_le in Hle. rewrite Hle in E.
    injection E as <- <-. split; [apply store_many_pres; exact Hne | simpl; exact Hne].
  - eapply append_pres_full; eassumption.
Qed.

Lemma pres_lt a h h' : a < length (h_arrays h) -> pres a h h' -> a < length (h_arrays h').
Proof. intros Ha [_ [_ L]]; lia. Qed.

Lemma pres_result a h h' : pres a h h' ->
  (exists n, h_stores h' = h_stores h ++ n /\ Forall (fun st : nat * nat => fst st <> a) n) /\
  arr_of h' a = arr_of h a.
Proof. intros [S [A _]]; split; assumption. Qed.

Lemma slice3_full s r3 : slice3 s 0 (sl_len s) (sl_len s) = Some r3 -> sl_cap r3 < sl_len r3 + 1.
Proof.
  unfold slice3. destruct ((0 <=? sl_len s) && (sl_len s <=? sl_len s) && (sl_len s <=? sl_cap s)); [|discriminate].
  intros E; injection E as <-. simpl. lia.
Qed.

(* the forced-newline stage of Segment.Value *)
Lemma fnl_stage a h0 h1 result (fnl : bool) h' r :
  a < length (h_arrays h0) -> pres a h0 h1 ->
  (if fnl then
     match last_byte h1 result with
     | Some c => if N.eqb c 10 then Some (h1, result)
                 else match slice3 result 0 (sl_len result) (sl_len result) with
                      | Some r3 => Some (append h1 r3 [10%N])
                      | None => None
                      end
     | None => Some (h1, result)
     end
   else Some (h1, result)) = Some (h', r) ->
  pres a h0 h'.
Proof.
  intros Ha P E.
  destruct fnl; [|injection E as <- <-; exact P].
  destruct (last_byte h1 result) as [c|]; [|injection E as <- <-; exact P].
  destruct (N.eqb c 10); [injection E as <- <-; exact P|].
  destruct (slice3 result 0 (sl_len result) (sl_len result)) as [r3|] eqn:E3; [|discriminate].
  injection E as E.
  apply slice3_full in E3.
  eapply pres_trans; [exact P|].
  eapply (append_pres_full a h1 r3 [10%N] h' r); [eapply pres_lt; eassumption | simpl; exact E3 | exact E].
Qed.

(* stores only ever extend the log *)
Theorem append_log h s vs h' s' : append h s vs = (h', s') ->
  exists n, h_stores h' = h_stores h ++ n.
Proof.
  intros E.
  (* in-place branch: reuse store_many_pres at an arbitrary array index other than sl_arr s *)
  unfold append in E.
  destruct (sl_len s + length vs <=? sl_cap s).
  - injection E as <- _.
    destruct (store_many_pres (S (sl_arr s)) (sl_arr s) vs (Nat.neq_succ_diag_r _) h (sl_off s + sl_len s))
      as [[n [En _]] _].
    exists n; exact En.
  - injection E as <- _. exists []; simpl; now rewrite app_nil_r.
Qed.

(* Segment.Value (after the fix) performs no store into the array of the buffer it is given -
   whatever spare capacity that buffer has and whatever else lives in the heap *)
Theorem seg_value_no_store_into_input h buffer t h' r : valid_slice h buffer ->
  seg_value_h h buffer t = Some (h', r) ->
  (exists n, h_stores h' = h_stores h ++ n /\ Forall (fun st => fst st <> sl_arr buffer) n) /\
  arr_of h' (sl_arr buffer) = arr_of h (sl_arr buffer).
Proof.
  intros [Ha _] H. apply pres_result.
  unfold seg_value_h in H.
  destruct (slice2 buffer (g_start t) (g_stop t)) as [sub|]; [|discriminate].
  destruct (g_stop t <=? sl_len buffer); [|discriminate].
  destruct (g_pad t =? 0).
  - eapply fnl_stage; [exact Ha | apply pres_refl | exact H].
  - destruct (make h 0 (g_pad t + g_stop t - g_start t + 1)) as [h1 r0] eqn:Em.
    destruct (append h1 r0 (repeat 32%N (g_pad t))) as [h2 r1] eqn:Ea1.
    destruct (append h2 r1 (sl_bytes h sub)) as [h3 result] eqn:Ea2.
    destruct (make_pres _ _ _ _ _ _ Ha Em) as [P1 N1].
    assert (Ha1 := pres_lt _ _ _ Ha P1).
    destruct (append_pres_other _ _ _ _ _ _ Ha1 N1 Ea1) as [P2 N2].
    assert (Ha2 := pres_lt _ _ _ Ha1 P2).
    destruct (append_pres_other _ _ _ _ _ _ Ha2 N2 Ea2) as [P3 N3].
    eapply fnl_stage; [exact Ha | | exact H].
    eapply pres_trans; [exact P1|]. eapply pres_trans; [exact P2 | exact P3].
Qed.

(* the pinned tree's version did store into it: a witness with one byte of spare capacity *)
Theorem seg_value_pinned_refuted : exists h buffer t h' r,
  valid_slice h buffer /\ seg_value_h_pinned h buffer t = Some (h', r) /\
  In (sl_arr buffer, sl_off buffer + sl_len buffer) (h_stores h').
Proof.
  exists {| h_arrays := [[97; 98; 99; 88]%N]; h_stores := [] |}.
  exists {| sl_arr := 0; sl_off := 0; sl_len := 3; sl_cap := 4 |}.
  exists {| g_start := 0; g_stop := 3; g_pad := 0; g_fnl := true |}.
  exists {| h_arrays := [[97; 98; 99; 10]%N]; h_stores := [(0, 3)] |}.
  exists {| sl_arr := 0; sl_off := 0; sl_len := 4; sl_cap := 4 |}.
  split; [|split].
  - unfold valid_slice, arr_of; simpl; lia.
  - vm_compute; reflexivity.
  - simpl; left; reflexivity.
Qed.

(* CopyOnWriteBuffer: after NewCopyOnWriteBuffer(s) no sequence of Write / Append calls stores
   into the array of s *)

Definition cob_inv (a : nat) (b : cob) : Prop := c_copied b = true -> sl_arr (c_buf b) <> a.

Lemma cob_write_pres a h b v h' b' : a < length (h_arrays h) -> cob_inv a b ->
  cob_write h b v = (h', b') -> pres a h h' /\ cob_inv a b'.
Proof.
  intros Ha I E. unfold cob_write in E.
  destruct (c_copied b) eqn:Ec.
  - destruct (append h (c_buf b) v) as [h1 buf1] eqn:Ea.
    injection E as <- <-.
    destruct (append_pres_other _ _ _ _ _ _ Ha (I Ec) Ea) as [P N].
    split; [exact P | intros _; simpl; exact N].
  - destruct (make h 0 (sl_len (c_buf b) + 20)) as [h0 buf0] eqn:Em.
    destruct (append h0 buf0 v) as [h1 buf1] eqn:Ea.
    injection E as <- <-.
    destruct (make_pres _ _ _ _ _ _ Ha Em) as [P0 N0].
    destruct (append_pres_other _ _ _ _ _ _ (pres_lt _ _ _ Ha P0) N0 Ea) as [P N].
    split; [eapply pres_trans; eassumption | intros _; simpl; exact N].
Qed.

Lemma cob_append_pres a h b v h' b' : a < length (h_arrays h) -> cob_inv a b ->
  cob_append h b v = (h', b') -> pres a h h' /\ cob_inv a b'.
Proof.
  intros Ha I E. unfold cob_append in E.
  destruct (c_copied b) eqn:Ec.
  - destruct (append h (c_buf b) v) as [h1 buf1] eqn:Ea.
    injection E as <- <-.
    destruct (append_pres_other _ _ _ _ _ _ Ha (I Ec) Ea) as [P N].
    split; [exact P | intros _; simpl; exact N].
  - destruct (make h (sl_len (c_buf b)) (sl_len (c_buf b) + 20)) as [h0 tmp] eqn:Em.
    destruct (append (store_many h0 (sl_arr tmp) 0 (sl_bytes h (c_buf b))) tmp v) as [h1 buf1] eqn:Ea.
    injection E as <- <-.
    destruct (make_pres _ _ _ _ _ _ Ha Em) as [P0 N0].
    assert (P1 := store_many_pres a (sl_arr tmp) (sl_bytes h (c_buf b)) N0 h0 0).
    assert (P01 := pres_trans _ _ _ _ P0 P1).
    destruct (append_pres_other _ _ _ _ _ _ (pres_lt _ _ _ Ha P01) N0 Ea) as [P N].
    split; [eapply pres_trans; eassumption | intros _; simpl; exact N].
Qed.

Lemma cob_run_pres a ops : forall h b h' b', a < length (h_arrays h) -> cob_inv a b ->
  cob_run h b ops = (h', b') -> pres a h h'.
Proof.
  induction ops as [|o ops IH]; intros h b h' b' Ha I E; unfold cob_run in *; simpl in E.
  - injection E as <- _. apply pres_refl.
  - destruct (cob_step (h, b) o) as [h1 b1] eqn:Es.
    assert (S1 : pres a h h1 /\ cob_inv a b1).
    { destruct o as [v|v]; simpl in Es.
      - eapply cob_write_pres; eassumption.
      - eapply cob_append_pres; eassumption. }
    destruct S1 as [P1 I1].
    eapply pres_trans; [exact P1|].
    eapply IH; [eapply pres_lt; eassumption | exact I1 | exact E].
Qed.

Theorem cob_protocol h s ops h' b' : valid_slice h s ->
  cob_run h (new_cob s) ops = (h', b') ->
  (exists n, h_stores h' = h_stores h ++ n /\ Forall (fun st => fst st <> sl_arr s) n) /\
  arr_of h' (sl_arr s) = arr_of h (sl_arr s).
Proof.
  intros [Ha _] E. apply pres_result.
  eapply cob_run_pres; [exact Ha | | exact E].
  intros C; simpl in C; discriminate.
Qed.
