(* Helper file for FootnoteWfTotBlk.v (NEW, not in the core proof): the padding of the reader's position is
   between 0 and 3.  The footnote block parser re-establishes the padding it found after it has advanced
   behind "[^label]:" (pos = next + 1 - padding; AdvanceAndSetPadding(pos, padding)), so the reader only
   makes progress when 2 * padding <= next; with BlockOffset >= padding this needs padding <= 3.  The core
   proof never needed a bound; here it is a field of the state invariant (FootnoteWfTotBlkDefs.si_pad), and
   this file shows, on the level of the reader model alone (no invariant), that the reader operations keep it. *)
Require Import GM.model.Base GM.model.Util GM.model.Reader GM.model.Blocks GM.model.ListItem
               GM.model.LeafBlocks GM.model.CodeBlock GM.model.BlockParse.
From Coq Require Import ZArith Lia List Bool.
Import ListNotations.
Open Scope Z_scope.

Definition PadB (r : reader) : Prop := 0 <= s_pad (r_pos r) <= 3.

Lemma tab_width_bound c : 1 <= tab_width c <= 4.
Proof. unfold tab_width. pose proof (Z.mod_pos_bound c 4 ltac:(lia)). lia. Qed.

Lemma PadB_same_pos r r' : r_pos r' = r_pos r -> PadB r -> PadB r'.
Proof. unfold PadB. intros ->. auto. Qed.

Lemma PadB_advance_line r : PadB r -> PadB (r_advance_line r).
Proof.
  unfold PadB, r_advance_line. intros H. cbn [rset_peeked rset_loff rset_pos rset_head rset_line r_pos s_stop s_pad].
  destruct (s_stop (r_pos r) <? 0); cbn [rset_peeked rset_loff rset_pos rset_head rset_line r_pos s_stop s_pad]; lia.
Qed.

Lemma PadB_advance_slow : forall fuel r n r', r_advance_slow fuel r n = Ok r' -> PadB r -> PadB r'.
Proof.
  induction fuel as [|f IH]; intros r n r' E H; [discriminate|]. cbn [r_advance_slow] in E.
  destruct ((0 <? n) && (s_start (r_pos r) <? r_len r)).
  2:{ injection E as <-. exact H. }
  destruct (Z.eqb_spec (s_pad (r_pos r)) 0) as [Hp|Hp]; cbn [negb] in E.
  - destruct (at_ (r_src r) (s_start (r_pos r))) as [c| |]; cbn [bind] in E; try discriminate.
    destruct (N.eqb c 10).
    + eapply IH; [exact E|]. apply PadB_advance_line, H.
    + eapply IH; [exact E|]. unfold PadB in *. cbn [rset_pos r_pos s_pad]. exact H.
  - eapply IH; [exact E|]. unfold PadB in *. cbn [rset_pos r_pos s_pad]. lia.
Qed.

Lemma PadB_advance r n r' : r_advance r n = Ok r' -> PadB r -> PadB r'.
Proof.
  unfold r_advance. intros E H.
  destruct ((n <? match r_peeked (rset_loff r (-1)) with Some v => zlen v | None => 0 end) &&
            (s_pad (r_pos (rset_loff r (-1))) =? 0)).
  - injection E as <-. unfold PadB in *. cbn [rset_peeked rset_pos rset_loff r_pos s_pad]. exact H.
  - eapply PadB_advance_slow; [exact E|]. exact H.
Qed.

Lemma PadB_set_padding r v : 0 <= v <= 3 -> PadB (r_set_padding r v).
Proof. intros H. unfold PadB, r_set_padding. cbn [rset_pos r_pos s_pad]. exact H. Qed.

Lemma PadB_advance_and_set_padding r n p r' : r_advance_and_set_padding r n p = Ok r' -> PadB r -> p <= 3 -> PadB r'.
Proof.
  unfold r_advance_and_set_padding. intros E H Hp.
  destruct (r_advance r n) as [r1| |] eqn:E1; cbn [bind] in E; try discriminate.
  pose proof (PadB_advance _ _ _ E1 H) as H1.
  destruct (Z.ltb_spec (s_pad (r_pos r1)) p) as [Hlt|Hge]; injection E as <-; [|exact H1].
  apply PadB_set_padding. unfold PadB in H1. lia.
Qed.

Lemma PadB_peek_line r r' l sg : r_peek_line r = Ok (r', l, sg) -> PadB r -> PadB r' /\ sg = r_pos r.
Proof.
  unfold r_peek_line. intros E H. destruct (r_in_range r).
  - destruct (r_peeked r) as [v|].
    + injection E as <- _ <-. auto.
    + destruct (seg_value (r_src r) (r_pos r)) as [v| |]; cbn [bind] in E; try discriminate.
      injection E as <- _ <-. auto.
  - injection E as <- _ <-. auto.
Qed.

Lemma PadB_line_offset r r' o : r_line_offset r = Ok (r', o) -> PadB r -> PadB r' /\ r_pos r' = r_pos r.
Proof.
  unfold r_line_offset. intros E H. destruct (r_loff r <? 0).
  - destruct (r_head r <? s_start (r_pos r)).
    + destruct (slice (r_src r) (r_head r) (s_start (r_pos r))) as [v| |]; cbn [bind] in E; try discriminate.
      injection E as <- _. auto.
    + injection E as <- _. auto.
  - injection E as <- _. auto.
Qed.

Lemma PadB_set_position r l p r' : r_set_position r l p = Ok r' -> 0 <= s_pad p <= 3 -> PadB r'.
Proof.
  unfold r_set_position. intros E H.
  match type of E with (bind ?a _ = _) => destruct a as [r1| |]; cbn [bind] in E; try discriminate end.
  injection E as <-. unfold PadB. cbn [rset_pos r_pos]. exact H.
Qed.

(* util.IndentPositionPadding: the padding it returns *)
Lemma indent_position_loop_bound : forall bs cur w i p width w' i',
  indent_position_loop bs cur w i p width = (w', i') -> 0 <= p -> w + p <= width + 3 -> w' <= width + 3 /\ w <= w'.
Proof.
  induction bs as [|c r IH]; intros cur w i p width w' i' E Hp Hw; cbn [indent_position_loop] in E.
  - injection E as <- <-. lia.
  - destruct (Z.ltb_spec 0 p) as [Hlt|Hge].
    + apply IH in E; lia.
    + destruct (N.eqb c 9 && (w <? width)) eqn:Et.
      * apply andb_true_iff in Et. destruct Et as [_ Et]. apply Z.ltb_lt in Et.
        pose proof (tab_width_bound (cur + w)). apply IH in E; lia.
      * destruct (N.eqb c 32 && (w <? width)) eqn:Es.
        -- apply andb_true_iff in Es. destruct Es as [_ Es]. apply Z.ltb_lt in Es. apply IH in E; lia.
        -- injection E as <- <-. lia.
Qed.

Lemma indent_position_padding_bound bs cur p width pos padding :
  indent_position_padding bs cur p width = (pos, padding) -> 0 <= p <= 3 -> 0 <= width -> padding <= 3.
Proof.
  unfold indent_position_padding. intros E Hp Hw. destruct (Z.eqb_spec width 0) as [->|Hne].
  - injection E as _ <-. lia.
  - destruct (indent_position_loop bs cur 0 0 p width) as [w i] eqn:El.
    apply indent_position_loop_bound in El; [|lia|lia].
    destruct (width <=? w); injection E as _ <-; lia.
Qed.

Lemma indent_position_bound bs cur width pos padding :
  indent_position bs cur width = (pos, padding) -> 0 <= width -> padding <= 3.
Proof. unfold indent_position. intros E Hw. eapply indent_position_padding_bound; [exact E|lia|exact Hw]. Qed.
