(* Heading order relation hp (HeadingOptsEqDefs.v): invariance under the heap changes hstep, the heap
   operations of model/BlockParse.v as hsteps, and AppendChild at the end of the rightmost spine. *)
Require Import GM.model.Base GM.model.Util GM.model.Reader GM.model.HtmlWriter GM.model.Html GM.model.BlockParse.
Require Import GM.proofs.ParseBlocksRangeA GM.proofs.ParseBlocksRangeB GM.proofs.HeadingOptsEqDefs.
From Coq Require Import List ZArith NArith Bool Lia.
Import ListNotations.
Local Open Scope nat_scope.

(* ---------- hstep ---------- *)
Lemma hstep_refl exc h : hstep exc h h.
Proof.
  split; [lia|]. split; [auto|]. intros j n Hj. exists n. repeat split; auto.
Qed.
Lemma hstep_trans exc h1 h2 h3 : hstep exc h1 h2 -> hstep exc h2 h3 -> hstep exc h1 h3.
Proof.
  intros [L1 [C1 F1]] [L2 [C2 F2]]. split; [lia|]. split; [auto|].
  intros j n Hj. destruct (F1 j n Hj) as [n1 [E1 [K1 [G1 B1]]]].
  destruct (F2 j n1 E1) as [n2 [E2 [K2 [G2 B2]]]].
  exists n2. split; [exact E2|]. split; [congruence|]. split.
  - intros Hc. rewrite G2 by auto. auto.
  - intros Hh He. rewrite B2; [apply B1; assumption|congruence|assumption].
Qed.
Lemma hstep_weaken (exc exc' : nat -> Prop) h h' : (forall j, exc j -> exc' j) -> hstep exc h h' -> hstep exc' h h'.
Proof.
  intros Hw [L [C F]]. split; [exact L|]. split; [exact C|].
  intros j n Hj. destruct (F j n Hj) as [n1 [E1 [K1 [G1 B1]]]].
  exists n1. split; [exact E1|]. split; [exact K1|]. split; [exact G1|].
  intros Hh He. apply B1; [exact Hh|]. intros Hx. apply He. apply Hw. exact Hx.
Qed.

(* ---------- basic facts on hp / hps ---------- *)
Lemma hp_lt h i l : hp h i l -> i < length h.
Proof. intros H. destruct H as [i n E _|i n l E _ _|i n E _]; eapply nth_some_lt; exact E. Qed.

(* a node that is neither a heading nor a container contributes nothing *)
Lemma hp_unint h i l : hp h i l -> intb h i = false -> l = [].
Proof.
  intros H Hi. unfold intb in Hi.
  destruct H as [i n E K|i n l E K _|i n E K]; rewrite E in Hi; unfold intk in Hi.
  - rewrite K in Hi. discriminate.
  - rewrite K in Hi. rewrite orb_true_r in Hi. discriminate.
  - reflexivity.
Qed.

Lemma hp_unint_intro h c : c < length h -> intb h c = false -> hp h c [].
Proof.
  intros Hc Ei. destruct (nth_error h c) as [n|] eqn:E.
  - apply hp_lf with n; [exact E|]. unfold intb in Ei. rewrite E in Ei. exact Ei.
  - apply nth_error_None in E. lia.
Qed.

Lemma hps_filter_l h cs l : hps h cs l -> hps h (filter (intb h) cs) l.
Proof.
  intros H. induction H as [|c cs l1 l2 Hc Hcs IH]; cbn [filter]; [constructor|].
  destruct (intb h c) eqn:Ei.
  - constructor; assumption.
  - rewrite (hp_unint h c l1 Hc Ei). exact IH.
Qed.

Lemma hps_filter_r h cs : (forall c, In c cs -> c < length h) ->
  forall l, hps h (filter (intb h) cs) l -> hps h cs l.
Proof.
  induction cs as [|c cs IH]; intros Hlt l H; cbn [filter] in H; [exact H|].
  assert (forall c0, In c0 cs -> c0 < length h) as Hlt' by (intros c0 H0; apply Hlt; right; exact H0).
  revert H. destruct (intb h c) eqn:Ei; intros H.
  - inversion H as [|c' cs' l1 l2 Hc Hcs]; subst. constructor; [exact Hc|]. apply IH; assumption.
  - change l with ([] ++ l). constructor.
    + apply hp_unint_intro; [apply Hlt; left; reflexivity|exact Ei].
    + apply IH; assumption.
Qed.

Lemma hps_app h c1 l1 : hps h c1 l1 -> forall c2 l2, hps h c2 l2 -> hps h (c1 ++ c2) (l1 ++ l2).
Proof.
  intros H. induction H as [|c cs la lb Hc Hcs IH]; intros c2 l2 H2; [exact H2|].
  cbn [app]. rewrite <- app_assoc. constructor; [exact Hc|]. apply IH. exact H2.
Qed.

Lemma hps_app_inv h c1 : forall c2 l, hps h (c1 ++ c2) l ->
  exists l1 l2, l = l1 ++ l2 /\ hps h c1 l1 /\ hps h c2 l2.
Proof.
  induction c1 as [|c cs IH]; intros c2 l H; cbn [app] in H.
  - exists [], l. split; [reflexivity|]. split; [constructor|exact H].
  - inversion H as [|c' cs' la lb Hc Hcs]; subst.
    destruct (IH c2 lb Hcs) as [l1 [l2 [-> [H1 H2]]]].
    exists (la ++ l1), l2. split; [apply app_assoc|]. split; [constructor; assumption|exact H2].
Qed.

Lemma hps_single h c l : hp h c l -> hps h [c] l.
Proof. intros H. rewrite <- (app_nil_r l). constructor; [exact H|constructor]. Qed.

Lemma hps_single_inv h c l : hps h [c] l -> hp h c l.
Proof.
  intros H. inversion H as [|c' cs' la lb Hc Hcs]; subst. inversion Hcs; subst. rewrite app_nil_r. exact Hc.
Qed.

Lemma hp_ct_inv h i n l : hp h i l -> nth_error h i = Some n -> container (bk n) = true -> hps h (bch n) l.
Proof.
  intros H E K. destruct H as [i m E' K'|i m l E' K' Hps|i m E' K'];
    rewrite E in E'; injection E' as <-.
  - rewrite K' in K. discriminate.
  - exact Hps.
  - unfold intk in K'. rewrite K in K'. rewrite orb_true_r in K'. discriminate.
Qed.

(* ---------- hp does not change along an hstep ---------- *)
Lemma intb_hstep exc h h' c : hstep exc h h' -> c < length h -> intb h' c = intb h c.
Proof.
  intros [_ [_ F]] Hc. unfold intb. destruct (nth_error h c) as [n|] eqn:E.
  - destruct (F c n E) as [n' [E' [K _]]]. rewrite E', K. reflexivity.
  - apply nth_error_None in E. lia.
Qed.

Lemma hp_hstep_aux exc h h' : hstep exc h h' -> closed h ->
  (forall i l, hp h i l -> hp h' i l) /\ (forall cs l, hps h cs l -> hps h' (filter (intb h) cs) l).
Proof.
  intros Hs Hc.
  apply (hp_hps_ind h (fun i l => hp h' i l) (fun cs l => hps h' (filter (intb h) cs) l)).
  - intros i n E K. destruct Hs as [_ [_ F]]. destruct (F i n E) as [n' [E' [K' _]]].
    apply hp_hd with n'; congruence.
  - intros i n l E K Hps IH. pose proof Hs as [_ [Hc' F]]. destruct (F i n E) as [n' [E' [K' [G _]]]].
    apply hp_ct with n'; [exact E'|congruence|].
    apply hps_filter_r.
    + intros c Hin. apply (Hc' Hc i n' c E' Hin).
    + rewrite (G Hc). exact IH.
  - intros i n E K. destruct Hs as [_ [_ F]]. destruct (F i n E) as [n' [E' [K' _]]].
    apply hp_lf with n'; congruence.
  - cbn [filter]. constructor.
  - intros c cs l1 l2 Hc1 IH1 Hcs IH2. cbn [filter]. destruct (intb h c) eqn:Ei.
    + constructor; assumption.
    + rewrite (hp_unint h c l1 Hc1 Ei). exact IH2.
Qed.

Lemma hp_hstep exc h h' i l : hstep exc h h' -> closed h -> hp h i l -> hp h' i l.
Proof. intros Hs Hc. apply (proj1 (hp_hstep_aux exc h h' Hs Hc)). Qed.

(* ---------- the heap operations ---------- *)
(* filters that do not see the changed child *)
Lemma filter_remove_id (f : nat -> bool) c l : f c = false -> filter f (remove_id c l) = filter f l.
Proof.
  intros Hc. induction l as [|y t IH]; [reflexivity|]. cbn [remove_id].
  destruct (Nat.eqb_spec c y) as [<-|Hne].
  - cbn [filter]. rewrite Hc. reflexivity.
  - cbn [filter]. rewrite IH. reflexivity.
Qed.
Lemma filter_replace_id (f : nat -> bool) old new l : f old = false -> f new = false ->
  filter f (replace_id old new l) = filter f l.
Proof.
  intros Ho Hn. induction l as [|y t IH]; [reflexivity|]. cbn [replace_id].
  destruct (Nat.eqb_spec old y) as [<-|Hne].
  - cbn [filter]. rewrite Ho, Hn. reflexivity.
  - cbn [filter]. rewrite IH. reflexivity.
Qed.
Lemma filter_insert_after_id (f : nat -> bool) x y l : f y = false ->
  filter f (insert_after_id x y l) = filter f l.
Proof.
  intros Hy. induction l as [|z t IH]; cbn [insert_after_id].
  - cbn [filter]. rewrite Hy. reflexivity.
  - destruct (Nat.eqb_spec x z) as [<-|Hne].
    + cbn [filter]. rewrite Hy. reflexivity.
    + cbn [filter]. rewrite IH. reflexivity.
Qed.
Lemma filter_snoc_false (f : nat -> bool) c l : f c = false -> filter f (l ++ [c]) = filter f l.
Proof. intros Hc. rewrite filter_app. cbn [filter]. rewrite Hc. apply app_nil_r. Qed.
Lemma insert_after_id_in x y l z : In z (insert_after_id x y l) -> z = y \/ In z l.
Proof.
  induction l as [|w t IH]; cbn [insert_after_id].
  - intros [<-|[]]. left. reflexivity.
  - destruct (Nat.eqb x w).
    + intros [<-|[<-|H]]; [right; left; reflexivity|left; reflexivity|right; right; exact H].
    + intros [<-|H]; [right; left; reflexivity|]. destruct (IH H) as [E|H']; [left; exact E|right; right; exact H'].
Qed.

(* one node replaced, same kind: intb does not change *)
Lemma intb_hset h i n n' c : nth_error h i = Some n -> bk n' = bk n -> intb (hset h i n') c = intb h c.
Proof.
  intros E K. unfold intb. destruct (Nat.eq_dec i c) as [<-|Hne].
  - rewrite nth_hset_eq by (eapply nth_some_lt; exact E). rewrite E, K. reflexivity.
  - rewrite nth_hset_ne by exact Hne. reflexivity.
Qed.

(* the general single-node update: kind kept, children change by uninteresting nodes only *)
Lemma hstep_hset_gen exc h i n n' : nth_error h i = Some n -> bk n' = bk n ->
  (closed h -> forall x, In x (bch n') -> x < length h) ->
  (closed h -> filter (intb h) (bch n') = filter (intb h) (bch n)) ->
  (bk n = BHeading -> ~ exc i -> blines n' = blines n) -> hstep exc h (hset h i n').
Proof.
  intros E K Hin Hf Hl. pose proof (nth_some_lt _ _ _ E) as Hi.
  split; [rewrite length_hset; lia|]. split.
  - intros Hc j m c Hj Hcm. rewrite length_hset. apply nth_hset_inv in Hj.
    destruct Hj as [[-> [-> _]]|[_ Hj]]; [apply Hin; assumption|apply (Hc j m c Hj Hcm)].
  - intros j m Hj. destruct (Nat.eq_dec j i) as [->|Hne].
    + assert (m = n) by congruence. subst m. exists n'. split; [apply nth_hset_eq; exact Hi|].
      split; [exact K|]. split; [|exact Hl].
      intros Hc. rewrite <- (Hf Hc). apply filter_ext. intros c. apply (intb_hset h i n n' c E K).
    + exists m. split; [rewrite nth_hset_ne by congruence; exact Hj|]. split; [reflexivity|].
      split; [|reflexivity]. intros Hc. apply filter_ext. intros c. apply (intb_hset h i n n' c E K).
Qed.

Lemma hstep_hset exc h i n n' : nth_error h i = Some n -> bk n' = bk n -> bch n' = bch n ->
  (bk n = BHeading -> ~ exc i -> blines n' = blines n) -> hstep exc h (hset h i n').
Proof.
  intros E K C Hl. apply (hstep_hset_gen exc h i n n' E K); [| |exact Hl].
  - intros Hc x Hx. rewrite C in Hx. apply (Hc i n x E Hx).
  - intros _. rewrite C. reflexivity.
Qed.

(* hupd with a function that keeps kind, children and lines *)
Lemma hstep_hupd_same exc h i f h' : hupd h i f = Ok h' ->
  (forall m, bk (f m) = bk m /\ bch (f m) = bch m /\ blines (f m) = blines m) -> hstep exc h h'.
Proof.
  intros H Hf. apply hupd_ok in H. destruct H as [n [E ->]]. destruct (Hf n) as [K [C L]].
  apply (hstep_hset exc h i n (f n) E K C). intros _ _. exact L.
Qed.

Lemma hstep_alloc exc h n : bch n = [] -> hstep exc h (h ++ [n]).
Proof.
  intros Hn. split; [rewrite app_length; lia|]. split.
  - intros Hc j m c Hj Hcm. rewrite app_length. apply nth_app_inv in Hj.
    destruct Hj as [[_ ->]|[_ Hj]]; [rewrite Hn in Hcm; destruct Hcm|].
    pose proof (Hc j m c Hj Hcm). lia.
  - intros j m Hj. exists m. split; [rewrite nth_error_app1 by (eapply nth_some_lt; exact Hj); exact Hj|].
    split; [reflexivity|]. split; [|reflexivity].
    intros Hc. apply filter_ext_in. intros c Hcm. pose proof (Hc j m c Hj Hcm) as Hlt.
    unfold intb. rewrite nth_error_app1 by exact Hlt. reflexivity.
Qed.

Lemma intb_false h c nc : nth_error h c = Some nc -> intk (bk nc) = false -> intb h c = false.
Proof. intros E K. unfold intb. rewrite E. exact K. Qed.

Lemma hstep_remove_child exc h p c h' nc : remove_child h p c = Ok h' ->
  nth_error h c = Some nc -> intk (bk nc) = false -> hstep exc h h'.
Proof.
  intros H Ec Kc. unfold remove_child in H. bind_inv H n0 E0.
  destruct (opt_nat_eqb (bpar n0) (Some p)); [|injection H as <-; apply hstep_refl].
  bind_inv H h1 E1. apply hstep_trans with h1.
  - apply hupd_ok in E1. destruct E1 as [np [Ep ->]].
    apply (hstep_hset_gen exc h p np _ Ep); [reflexivity| | |reflexivity].
    + intros Hc x Hx. cbn [bch set_ch] in Hx. apply remove_id_incl in Hx. apply (Hc p np x Ep Hx).
    + intros _. cbn [bch set_ch]. apply filter_remove_id. apply (intb_false h c nc Ec Kc).
  - apply (hstep_hupd_same exc h1 c _ h' H). intros m. auto.
Qed.

Lemma hstep_replace_child exc h p old new h' no nn : replace_child h p old new = Ok h' ->
  nth_error h old = Some no -> intk (bk no) = false -> nth_error h new = Some nn -> intk (bk nn) = false ->
  hstep exc h h'.
Proof.
  intros H Eo Ko En Kn. unfold replace_child in H. bind_inv H n0 E0.
  destruct (opt_nat_eqb (bpar n0) (Some p)); [|injection H as <-; apply hstep_refl].
  bind_inv H h1 E1. bind_inv H h2 E2. apply hstep_trans with h1; [|apply hstep_trans with h2].
  - apply hupd_ok in E1. destruct E1 as [np [Ep ->]].
    apply (hstep_hset_gen exc h p np _ Ep); [reflexivity| | |reflexivity].
    + intros Hc x Hx. cbn [bch set_ch] in Hx. apply replace_id_in in Hx.
      destruct Hx as [->|Hx]; [eapply nth_some_lt; exact En|apply (Hc p np x Ep Hx)].
    + intros _. cbn [bch set_ch]. apply filter_replace_id;
        [apply (intb_false h old no Eo Ko)|apply (intb_false h new nn En Kn)].
  - apply (hstep_hupd_same exc h1 new _ h2 E2). intros m. auto.
  - apply (hstep_hupd_same exc h2 old _ h' H). intros m. auto.
Qed.

Lemma hstep_insert_after exc h p ref new h' nn : insert_after h p ref new = Ok h' ->
  nth_error h new = Some nn -> intk (bk nn) = false -> hstep exc h h'.
Proof.
  intros H En Kn. unfold insert_after in H. bind_inv H h1 E1. apply hstep_trans with h1.
  - apply hupd_ok in E1. destruct E1 as [np [Ep ->]].
    apply (hstep_hset_gen exc h p np _ Ep); [reflexivity| | |reflexivity].
    + intros Hc x Hx. cbn [bch set_ch] in Hx. apply insert_after_id_in in Hx.
      destruct Hx as [->|Hx]; [eapply nth_some_lt; exact En|apply (Hc p np x Ep Hx)].
    + intros _. cbn [bch set_ch]. apply filter_insert_after_id. apply (intb_false h new nn En Kn).
  - apply (hstep_hupd_same exc h1 new _ h' H). intros m. auto.
Qed.

Lemma hstep_append_unint exc h p c h' nc : append_child h p c = Ok h' ->
  nth_error h c = Some nc -> intk (bk nc) = false -> hstep exc h h'.
Proof.
  intros H Ec Kc. unfold append_child in H. bind_inv H h1 E1. apply hstep_trans with h1.
  - apply (hstep_hupd_same exc h c _ h1 E1). intros m. auto.
  - apply hupd_ok in E1. destruct E1 as [nc' [Ec' ->]]. assert (nc' = nc) by congruence. subst nc'.
    apply hupd_ok in H. destruct H as [np [Ep ->]].
    apply (hstep_hset_gen exc _ p np _ Ep); [reflexivity| | |reflexivity].
    + intros Hc x Hx. cbn [bch set_ch] in Hx. apply in_app_or in Hx. destruct Hx as [Hx|[<-|[]]].
      * apply (Hc p np x Ep Hx).
      * rewrite length_hset. eapply nth_some_lt; exact Ec.
    + intros _. cbn [bch set_ch]. apply filter_snoc_false.
      rewrite (intb_hset h c nc (set_par nc (Some p)) c Ec eq_refl). apply (intb_false h c nc Ec Kc).
Qed.

(* ---------- the tree structure the spine argument needs (all of it follows from heapS) ---------- *)
Definition TS (h : heap) : Prop :=
  (exists n0, nth_error h 0%nat = Some n0 /\ bpar n0 = None) /\
  (forall p np c, nth_error h p = Some np -> In c (bch np) -> exists nc, nth_error h c = Some nc /\ bpar nc = Some p) /\
  (forall p np, nth_error h p = Some np -> NoDup (bch np)) /\
  (forall i n, nth_error h i = Some n -> container (bk n) = false -> bch n = []).

Lemma TS_heapS space_table src h : heapS space_table src h -> TS h.
Proof.
  intros H. split; [|split; [|split]].
  - destruct (hs_root _ _ _ H) as [n0 [E [_ P]]]. exists n0. auto.
  - apply (hs_K _ _ _ H).
  - apply (hs_nd _ _ _ H).
  - intros i n E K. apply (np_leaf _ _ _ (hs_node _ _ _ H i n E) K).
Qed.
Lemma TS_closed h : TS h -> closed h.
Proof.
  intros [_ [HK _]] j n c Hj Hc. destruct (HK j n c Hj Hc) as [nc [Ec _]]. eapply nth_some_lt; exact Ec.
Qed.
Lemma TS_hset_same h i n n' : TS h -> nth_error h i = Some n -> bk n' = bk n -> bch n' = bch n -> bpar n' = bpar n ->
  TS (hset h i n').
Proof.
  intros [[n0 [E0 P0]] [HK [HN HL]]] E K C P. pose proof (nth_some_lt _ _ _ E) as Hi.
  assert (forall j m, nth_error (hset h i n') j = Some m ->
            exists m0, nth_error h j = Some m0 /\ bk m = bk m0 /\ bch m = bch m0 /\ bpar m = bpar m0) as Hold.
  { intros j m Hj. apply nth_hset_inv in Hj. destruct Hj as [[-> [-> _]]|[_ Hj]].
    - exists n. auto.
    - exists m. auto. }
  assert (forall j m0, nth_error h j = Some m0 ->
            exists m, nth_error (hset h i n') j = Some m /\ bk m = bk m0 /\ bch m = bch m0 /\ bpar m = bpar m0) as Hnew.
  { intros j m0 Hj. destruct (Nat.eq_dec i j) as [<-|Hne].
    - exists n'. rewrite nth_hset_eq by exact Hi. assert (m0 = n) by congruence. subst m0. auto.
    - exists m0. rewrite nth_hset_ne by exact Hne. auto. }
  split; [|split; [|split]].
  - destruct (Hnew 0 n0 E0) as [m [Em [_ [_ Pm]]]]. exists m. split; [exact Em|congruence].
  - intros q nq c Hq Hc. destruct (Hold q nq Hq) as [m0 [Em0 [_ [Cm0 _]]]]. rewrite Cm0 in Hc.
    destruct (HK q m0 c Em0 Hc) as [nc [Ec Pc]]. destruct (Hnew c nc Ec) as [m [Em [_ [_ Pm]]]].
    exists m. split; [exact Em|congruence].
  - intros q nq Hq. destruct (Hold q nq Hq) as [m0 [Em0 [_ [Cm0 _]]]]. rewrite Cm0. apply (HN q m0 Em0).
  - intros j m Hj Km. destruct (Hold j m Hj) as [m0 [Em0 [Km0 [Cm0 _]]]]. rewrite Cm0. apply (HL j m0 Em0). congruence.
Qed.

(* ---------- descendants ---------- *)
(* dsc h i x: x is in the subtree of i (the last step of the path from i down to x is made explicit) *)
Inductive dsc (h : heap) (i : nat) : nat -> Prop :=
| dsc_refl : dsc h i i
| dsc_down q x : dsc h i q -> child h q x -> dsc h i x.

Lemma dsc_inv h i x : dsc h i x -> x = i \/ exists q, dsc h i q /\ child h q x.
Proof. intros H. destruct H as [|q x Hq Hqx]; [left; reflexivity|right; exists q; split; assumption]. Qed.

Lemma dsc_child_l h i c x : child h i c -> dsc h c x -> dsc h i x.
Proof.
  intros Hc H. induction H as [|q x Hq IH Hqx].
  - apply dsc_down with i; [apply dsc_refl|exact Hc].
  - apply dsc_down with q; assumption.
Qed.

Lemma dsc_trans h i j x : dsc h i j -> dsc h j x -> dsc h i x.
Proof.
  intros Hij H. induction H as [|q x Hq IH Hqx]; [exact Hij|]. apply dsc_down with q; assumption.
Qed.

Section Tree.
Variable h : heap.
Hypothesis HT : TS h.

Lemma child_par q x : child h q x -> exists nx, nth_error h x = Some nx /\ bpar nx = Some q.
Proof. intros [nq [Eq Hin]]. destruct HT as [_ [HK _]]. apply (HK q nq x Eq Hin). Qed.

Lemma child_uniq q q' x : child h q x -> child h q' x -> q = q'.
Proof.
  intros H1 H2. apply child_par in H1. apply child_par in H2.
  destruct H1 as [n1 [E1 P1]]. destruct H2 as [n2 [E2 P2]]. congruence.
Qed.

Lemma root_no_parent q : ~ child h q 0.
Proof.
  intros H. apply child_par in H. destruct H as [n1 [E1 P1]].
  destruct HT as [[n0 [E0 P0]] _]. congruence.
Qed.

(* a node without parent is only below itself *)
Lemma dsc_nopar c x nx : dsc h c x -> nth_error h x = Some nx -> bpar nx = None -> c = x.
Proof.
  intros H E P. destruct (dsc_inv h c x H) as [->|[q [Hq Hqx]]]; [reflexivity|].
  apply child_par in Hqx. destruct Hqx as [n1 [E1 P1]]. congruence.
Qed.

(* no cycle through a node that is connected to the root *)
Lemma dsc_acyc a : dsc h 0 a -> forall x, dsc h a x -> child h x a -> False.
Proof.
  intros H. induction H as [|q a Hq IH Hqa]; intros x Hx Hxa.
  - exact (root_no_parent x Hxa).
  - assert (x = q) by (apply (child_uniq x q a); assumption). subst x.
    destruct (dsc_inv h a q Hx) as [->|[q' [Hq' Hq'q]]].
    + apply (IH a); [apply dsc_refl|exact Hqa].
    + apply (IH q'); [|exact Hq'q]. apply (dsc_child_l h q a q' Hqa Hq').
Qed.

Lemma dsc_acyc' a c : dsc h 0 a -> child h a c -> dsc h c a -> False.
Proof.
  intros Ha Hac Hca. destruct (dsc_inv h c a Hca) as [->|[q [Hq Hqa]]].
  - apply (dsc_acyc c Ha c); [apply dsc_refl|exact Hac].
  - apply (dsc_acyc a Ha q); [|exact Hqa]. apply (dsc_child_l h a c q Hac Hq).
Qed.

(* two nodes above the same node are comparable *)
Lemma dsc_linear c b x : dsc h c x -> dsc h b x -> dsc h c b \/ dsc h b c.
Proof.
  intros H. revert b. induction H as [|q x Hq IH Hqx]; intros b Hb.
  - right. exact Hb.
  - destruct (dsc_inv h b x Hb) as [->|[q' [Hq' Hq'x]]].
    + left. apply dsc_down with q; assumption.
    + assert (q = q') by (apply (child_uniq q q' x); assumption). subst q'. apply IH. exact Hq'.
Qed.

(* two children of a node (connected to the root) above the same node are equal *)
Lemma dsc_siblings a c b x : dsc h 0 a -> child h a c -> child h a b -> dsc h c x -> dsc h b x -> c = b.
Proof.
  intros Ha Hc Hb Hcx Hbx.
  assert (forall c b, child h a c -> child h a b -> dsc h c b -> c = b) as Hone.
  { intros c1 b1 Hc1 Hb1 H. destruct (dsc_inv h c1 b1 H) as [->|[q [Hq Hqb]]]; [reflexivity|].
    assert (q = a) by (apply (child_uniq q a b1); assumption). subst q.
    exfalso. apply (dsc_acyc' a c1 Ha Hc1 Hq). }
  destruct (dsc_linear c b x Hcx Hbx) as [H|H].
  - apply Hone; assumption.
  - symmetry. apply Hone; assumption.
Qed.

Lemma chain_dsc l : forall b, chainL h (b :: l) -> dsc h b (last l b).
Proof.
  induction l as [|c t IH]; intros b Hch; [apply dsc_refl|].
  assert (last (c :: t) b = last t c) as ->.
  { destruct t as [|d t']; [reflexivity|]. rewrite last_cons_ne by discriminate. apply last_indep. discriminate. }
  apply (dsc_child_l h b c).
  - apply Hch. apply Adj_cons. left. split; [reflexivity|]. exists t. reflexivity.
  - apply IH. intros q x Ha. apply Hch. apply Adj_cons. right. exact Ha.
Qed.

(* ---------- AppendChild of a detached leaf n to p ---------- *)
Variables (h' : heap) (p n : nat) (np nn : bnode).
Hypothesis Ep : nth_error h p = Some np.
Hypothesis Kp : container (bk np) = true.
Hypothesis En : nth_error h n = Some nn.
Hypothesis Pn : bpar nn = None.
Hypothesis Cn : bch nn = [].
Hypothesis E1n : nth_error h' n = Some (set_par nn (Some p)).
Hypothesis E1p : nth_error h' p = Some (set_ch np (bch np ++ [n])).
Hypothesis E1o : forall j, j <> n -> j <> p -> nth_error h' j = nth_error h j.

(* subtrees that contain neither p nor n are untouched *)
Lemma hp_frame_aux :
  (forall i l, hp h i l -> (forall x, dsc h i x -> x <> p /\ x <> n) -> hp h' i l) /\
  (forall cs l, hps h cs l -> (forall c x, In c cs -> dsc h c x -> x <> p /\ x <> n) -> hps h' cs l).
Proof.
  apply (hp_hps_ind h (fun i l => (forall x, dsc h i x -> x <> p /\ x <> n) -> hp h' i l)
           (fun cs l => (forall c x, In c cs -> dsc h c x -> x <> p /\ x <> n) -> hps h' cs l)).
  - intros i m E K Hs. destruct (Hs i (dsc_refl h i)) as [Hp Hn].
    apply hp_hd with m; [rewrite E1o by assumption; exact E|exact K].
  - intros i m l E K Hps IH Hs. destruct (Hs i (dsc_refl h i)) as [Hp Hn].
    apply hp_ct with m; [rewrite E1o by assumption; exact E|exact K|].
    apply IH. intros c x Hc Hx. apply Hs. apply (dsc_child_l h i c x); [|exact Hx].
    exists m. split; assumption.
  - intros i m E K Hs. destruct (Hs i (dsc_refl h i)) as [Hp Hn].
    apply hp_lf with m; [rewrite E1o by assumption; exact E|exact K].
  - intros _. constructor.
  - intros c cs l1 l2 Hc IH1 Hcs IH2 Hs. constructor.
    + apply IH1. intros x Hx. apply (Hs c x); [left; reflexivity|exact Hx].
    + apply IH2. intros c0 x Hc0 Hx. apply (Hs c0 x); [right; exact Hc0|exact Hx].
Qed.

(* the new node alone *)
Lemma hp_new_node : hp h' n (if is_hd (bk nn) then [n] else []).
Proof.
  destruct (is_hd (bk nn)) eqn:Eh.
  - apply hp_hd with (set_par nn (Some p)); [exact E1n|]. cbn [bk set_par]. destruct (bk nn); try discriminate. reflexivity.
  - destruct (container (bk nn)) eqn:Ec.
    + apply hp_ct with (set_par nn (Some p)); [exact E1n|exact Ec|]. cbn [bch set_par]. rewrite Cn. constructor.
    + apply hp_lf with (set_par nn (Some p)); [exact E1n|]. cbn [bk set_par]. unfold intk. rewrite Eh, Ec. reflexivity.
Qed.

(* a child c of a node a: n is not below c *)
Lemma below_child_not_n a c x : child h a c -> dsc h c x -> x <> n.
Proof.
  intros Hac Hcx ->. assert (c = n) by (apply (dsc_nopar c n nn Hcx En Pn)). subst c.
  apply child_par in Hac. destruct Hac as [n1 [E1 P1]]. congruence.
Qed.

Lemma spine_step : forall chain a l, dsc h 0 a -> spineL h (a :: chain) -> p = last chain a -> n <> a ->
  hp h a l -> hp h' a (l ++ (if is_hd (bk nn) then [n] else [])).
Proof.
  induction chain as [|b chain IH]; intros a l Ha Hsp Hp Hna Hl.
  - cbn [last] in Hp. subst a. pose proof (hp_ct_inv h p np l Hl Ep Kp) as Hps.
    apply hp_ct with (set_ch np (bch np ++ [n])); [exact E1p|exact Kp|]. cbn [bch set_ch].
    apply hps_app; [|apply hps_single; exact hp_new_node].
    apply (proj2 hp_frame_aux _ _ Hps). intros c x Hc Hx.
    assert (child h p c) as Hpc by (exists np; split; assumption). split.
    + intros ->. exact (dsc_acyc' p c Ha Hpc Hx).
    + exact (below_child_not_n p c x Hpc Hx).
  - assert (last (b :: chain) a = last chain b) as Hlast.
    { destruct chain as [|d t']; [reflexivity|]. rewrite last_cons_ne by discriminate. apply last_indep. discriminate. }
    rewrite Hlast in Hp.
    assert (lastchild h a b) as Hab.
    { apply Hsp. apply Adj_cons. left. split; [reflexivity|]. exists chain. reflexivity. }
    assert (spineL h (b :: chain)) as Hsp'.
    { intros q x Hadj. apply Hsp. apply Adj_cons. right. exact Hadj. }
    destruct Hab as [na [Ea Hlastid]]. apply last_id_some in Hlastid. destruct Hlastid as [cs Ecs].
    assert (child h a b) as Hcab.
    { exists na. split; [exact Ea|]. rewrite Ecs. apply in_or_app. right. left. reflexivity. }
    assert (dsc h 0 b) as Hb by (apply dsc_down with a; assumption).
    assert (dsc h b p) as Hbp. { rewrite Hp. apply chain_dsc. apply spineL_chainL. exact Hsp'. }
    assert (container (bk na) = true) as Ka.
    { destruct (container (bk na)) eqn:Ec; [reflexivity|]. destruct HT as [_ [_ [_ HL]]].
      rewrite (HL a na Ea Ec) in Ecs. destruct cs; discriminate. }
    assert (a <> p) as Hap. { intros ->. exact (dsc_acyc' p b Ha Hcab Hbp). }
    assert (n <> b) as Hnb.
    { intros <-. apply child_par in Hcab. destruct Hcab as [n1 [E1 P1]]. congruence. }
    pose proof (hp_ct_inv h a na l Hl Ea Ka) as Hps. rewrite Ecs in Hps.
    apply hps_app_inv in Hps. destruct Hps as [l1 [l2 [-> [H1 H2]]]]. apply hps_single_inv in H2.
    apply hp_ct with na; [rewrite E1o by congruence; exact Ea|exact Ka|]. rewrite Ecs, <- app_assoc.
    apply hps_app; [|apply hps_single; apply (IH b l2 Hb Hsp' Hp Hnb H2)].
    apply (proj2 hp_frame_aux _ _ H1). intros c x Hc Hx.
    assert (child h a c) as Hac. { exists na. split; [exact Ea|]. rewrite Ecs. apply in_or_app. left. exact Hc. }
    split.
    + intros ->. assert (c = b) by (apply (dsc_siblings a c b p); assumption). subst c.
      destruct HT as [_ [_ [HN _]]]. pose proof (HN a na Ea) as Hnd. rewrite Ecs in Hnd.
      apply NoDup_remove_2 in Hnd. rewrite app_nil_r in Hnd. exact (Hnd Hc).
    + exact (below_child_not_n a c x Hac Hx).
Qed.
End Tree.

(* AppendChild of a fresh node n to the last node p of the rightmost spine 0 :: chain: the heading order
   gets n at its end when n is a heading, and does not change otherwise *)
Lemma hp_append_spine h chain p np n nn h' l :
  TS h -> spineL h (0%nat :: chain) -> p = last chain 0%nat ->
  nth_error h p = Some np -> container (bk np) = true ->
  nth_error h n = Some nn -> bpar nn = None -> bch nn = [] -> n <> 0%nat ->
  append_child h p n = Ok h' -> hp h 0%nat l ->
  hp h' 0%nat (l ++ (if is_hd (bk nn) then [n] else [])).
Proof.
  intros HT Hsp Hp Ep Kp En Pn Cn Hn0 Happ Hl.
  assert (n <> p) as Hnp.
  { intros ->. destruct chain as [|b chain]; [cbn [last] in Hp; congruence|].
    assert (In (last (b :: chain) 0) (b :: chain)) as Hin by (apply last_in; discriminate).
    rewrite <- Hp in Hin. destruct (in_adj_cons 0 (b :: chain) p Hin) as [q Hq].
    pose proof (spineL_chainL h _ Hsp q p Hq) as Hc. apply (child_par h HT) in Hc.
    destruct Hc as [n1 [E1 P1]]. congruence. }
  destruct (append_child_spec h p n h' Happ Hnp) as [nc [np' [Ec [Ep' [_ [E1n [E1p E1o]]]]]]].
  assert (nc = nn) by congruence. assert (np' = np) by congruence. subst nc np'.
  apply (spine_step h HT h' p n np nn Ep Kp En Pn Cn E1n E1p E1o chain 0 l);
    [apply dsc_refl|exact Hsp|exact Hp|exact Hn0|exact Hl].
Qed.
