(* Traversals of the inline forest with fuel = heap size: containsLink and itree terminate
   (ranks make every descent strictly shrink the set of candidate nodes); closing the labels. *)
Require Import GM.model.Base GM.model.Util GM.model.Reader GM.model.BlockParse GM.model.Html GM.model.InlineParse.
Require Import GM.proofs.MiscProofs.
Require Import GM.proofs.ParseInlineTotalHeap GM.proofs.ParseInlineTotalDelim GM.proofs.ParseInlineTotalEmph
               GM.proofs.ParseInlineTotalLabel GM.proofs.ParseInlineTotalCtx.
From Coq Require Import ZArith Lia List Arith.
Import ListNotations.

Lemma filter_len_le {A} (f : A -> bool) (l : list A) : (length (filter f l) <= length l)%nat.
Proof. induction l as [|a t IH]; [cbn; lia|]. cbn [filter]. destruct (f a); cbn [length]; lia. Qed.
Lemma filter_length_lt {A} (f : A -> bool) (l : list A) x : In x l -> f x = false -> (length (filter f l) < length l)%nat.
Proof.
  induction l as [|a t IH]; intros Hx Hf; [destruct Hx|]. cbn [filter length].
  destruct Hx as [E|Hx].
  - subst a. rewrite Hf. pose proof (filter_len_le f t). lia.
  - specialize (IH Hx Hf). destruct (f a); cbn [length]; lia.
Qed.

Section Trav.
Variable rk : nat -> nat.
Variable h : iheap.
Hypothesis W : HWF h.
Hypothesis R : Ranked rk h.

Definition closed (S : list nat) : Prop := forall y, In y S -> incl (chl h y) S.
Definition above (x : nat) (S : list nat) : list nat := filter (fun y => Nat.ltb (rk x) (rk y)) S.
Definition without (x : nat) (S : list nat) : list nat := filter (fun y => negb (Nat.eqb y x)) S.

Lemma in_above x S y : In y (above x S) <-> In y S /\ (rk x < rk y)%nat.
Proof. unfold above. rewrite filter_In, Nat.ltb_lt. tauto. Qed.
Lemma in_without x S y : In y (without x S) <-> In y S /\ y <> x.
Proof. unfold without. rewrite filter_In, negb_true_iff, Nat.eqb_neq. tauto. Qed.
Lemma above_lt x S : In x S -> (length (above x S) < length S)%nat.
Proof. intros Hx. apply (filter_length_lt _ S x Hx). apply Nat.ltb_ge. lia. Qed.
Lemma without_lt x S : In x S -> (length (without x S) < length S)%nat.
Proof. intros Hx. apply (filter_length_lt _ S x Hx). rewrite Nat.eqb_refl. reflexivity. Qed.
Lemma child_rank x c : In c (chl h x) -> (rk x < rk c)%nat.
Proof. intros Hc. apply R. apply (w_pc h W). exact Hc. Qed.
Lemma closed_above x S : closed S -> closed (above x S).
Proof.
  intros C y Hy c Hc. apply in_above in Hy. destruct Hy as [Hy Hr]. apply in_above. split; [exact (C y Hy c Hc)|].
  pose proof (child_rank y c Hc). lia.
Qed.
Lemma children_above x S : closed S -> In x S -> incl (chl h x) (above x S).
Proof. intros C Hx c Hc. apply in_above. split; [exact (C x Hx c Hc)|apply child_rank; exact Hc]. Qed.

(* ---------- containsLink ---------- *)
Lemma contains_link_total : forall fuel S ids,
  (length S < fuel)%nat -> (forall y, In y S -> (y < length h)%nat) -> closed S ->
  NoDup ids -> incl ids S -> (forall x y, In x ids -> In y S -> ~ In x (chl h y)) ->
  exists b, contains_link fuel h ids = Ok b.
Proof.
  induction fuel as [|f IH]; intros S ids Hf Hlt C Hnd Hincl Hroots; [lia|].
  cbn [contains_link]. destruct ids as [|x rest]; [eexists; reflexivity|].
  assert (Hx : In x S) by (apply Hincl; left; reflexivity).
  destruct (nth_error_ex_lt h x (Hlt x Hx)) as [n Hn]. rewrite (iget_ok _ _ _ Hn). cbn [bind].
  assert (Hrec : exists b, (a <- contains_link f h (ich n) ;; if a then Ok true else contains_link f h rest) = Ok b).
  { assert (Ech : ich n = chl h x) by (unfold chl; rewrite Hn; reflexivity).
    destruct (IH (above x S) (ich n)) as [a Ea].
    - pose proof (above_lt x S Hx). lia.
    - intros y Hy. apply in_above in Hy. apply Hlt. tauto.
    - apply closed_above. exact C.
    - rewrite Ech. apply (w_nd h W).
    - rewrite Ech. apply children_above; assumption.
    - rewrite Ech. intros c y Hc Hy Hcy. apply in_above in Hy. destruct Hy as [Hy Hr].
      apply (w_pc h W) in Hc. apply (w_pc h W) in Hcy. rewrite Hc in Hcy. inversion Hcy; subst y. lia.
    - rewrite Ea. cbn [bind]. destruct a; [eexists; reflexivity|].
      inversion Hnd as [|? ? Hxr Hndr]; subst.
      apply (IH (without x S) rest).
      + pose proof (without_lt x S Hx). lia.
      + intros y Hy. apply in_without in Hy. apply Hlt. tauto.
      + intros y Hy c Hc. apply in_without in Hy. destruct Hy as [Hy Hyx]. apply in_without. split; [exact (C y Hy c Hc)|].
        intros E. subst c. exact (Hroots x y (or_introl eq_refl) Hy Hc).
      + exact Hndr.
      + intros r Hr. apply in_without. split; [apply Hincl; right; exact Hr|]. intros E. subst r. contradiction.
      + intros a y Ha Hy. apply in_without in Hy. apply Hroots; [right; exact Ha|tauto]. }
  destruct (ik n); try exact Hrec. eexists. reflexivity.
Qed.

(* ---------- itree ---------- *)
Lemma map_res_total {A B} (g : A -> result B) (l : list A) :
  (forall a, In a l -> exists b, g a = Ok b) -> exists bs, map_res g l = Ok bs.
Proof.
  induction l as [|a t IH]; intros H; [eexists; reflexivity|]. cbn [map_res].
  destruct (H a (or_introl eq_refl)) as [b Eb]. rewrite Eb. cbn [bind].
  destruct IH as [bs Ebs]; [intros x Hx; apply H; right; exact Hx|]. rewrite Ebs. cbn [bind]. eexists. reflexivity.
Qed.

Lemma itree_total src lo : KOKh src lo h -> forall fuel S i,
  (length S < fuel)%nat -> (forall y, In y S -> (y < length h)%nat) -> closed S -> In i S ->
  exists t, itree fuel src h i = Ok t.
Proof.
  intros K. induction fuel as [|f IH]; intros S i Hf Hlt C Hi; [lia|].
  cbn [itree]. destruct (nth_error_ex_lt h i (Hlt i Hi)) as [n Hn]. rewrite (iget_ok _ _ _ Hn). cbn [bind].
  assert (Ech : ich n = chl h i) by (unfold chl; rewrite Hn; reflexivity).
  destruct (map_res_total (itree f src h) (ich n)) as [kids Ek].
  { intros c Hc. rewrite Ech in Hc. apply (IH (above i S) c).
    - pose proof (above_lt i S Hi). lia.
    - intros y Hy. apply in_above in Hy. apply Hlt. tauto.
    - apply closed_above. exact C.
    - apply children_above; assumption. }
  rewrite Ek. cbn [bind].
  assert (Hk : kd h i = Some (ik n)) by (unfold kd; rewrite Hn; reflexivity).
  pose proof (K i _ Hk) as Kk.
  destruct (ik n); cbn [bind]; try (eexists; reflexivity).
  cbn in Kk. destruct Kk as (Hs & Hp & Hfn).
  destruct (seg_value_total src s) as [v Ev]; [exact Hs|lia|]. rewrite Ev. cbn [bind]. eexists. reflexivity.
Qed.
End Trav.

Lemma itree_root_total src lo h : HWF h -> Acyc h -> KOKh src lo h ->
  exists t, itree (S (length h)) src h 0 = Ok t.
Proof.
  intros W [rk R] K. apply (itree_total rk h W R src lo K (S (length h)) (seq 0 (length h)) 0).
  - rewrite seq_length. lia.
  - intros y Hy. apply in_seq in Hy. lia.
  - intros y Hy c Hc. apply in_seq. pose proof (hwf_child_lt h y c W Hc). lia.
  - apply in_seq. pose proof (w_len h W). lia.
Qed.

(* ---------- linkParser.CloseBlock ---------- *)
Section Close.
Variable src : bytes.
Variable lo : Z.

Lemma close_labels_spec : forall ll fuel c,
  HWF (i_h c) -> KOKh src lo (i_h c) -> Acyc (i_h c) -> LL (i_h c) (i_labels c) ll -> (length ll + 1 <= fuel)%nat ->
  exists c', close_labels fuel c (hd_error ll) = Ok c' /\ HWF (i_h c') /\ KOKh src lo (i_h c') /\ Acyc (i_h c').
Proof.
  induction ll as [|x t IH]; intros fuel c W K A L Hf.
  - destruct fuel; [cbn in Hf; lia|]. cbn. exists c. auto.
  - cbn [length] in Hf. destruct fuel as [|f]; [lia|]. cbn [close_labels hd_error].
    pose proof (ll_seg _ _ _ L) as S0. destruct (lseg_hd_links _ _ _ _ _ S0) as (sg & im & fs & ls & Hk).
    rewrite (lget_spec _ _ _ _ _ _ _ _ Hk). cbn [bind].
    destruct (remove_label_spec c x [] t L) as (c1 & E1 & LO1 & L1 & _ & _ & _). cbn [app] in L1.
    rewrite E1. cbn [bind].
    assert (W1 : HWF (i_h c1)) by (eapply hwf_same_tree; [exact (proj1 LO1)|exact W]).
    assert (K1 : KOKh src lo (i_h c1)) by (eapply llinkonly_kok; eassumption).
    assert (A1 : Acyc (i_h c1)) by (destruct A as [rk R]; exists rk; eapply ranked_same_tree; [exact (proj1 LO1)|exact R]).
    destruct (par (i_h c) x) as [p|] eqn:EP; [|exfalso; exact (ll_att _ _ _ L x (or_introl eq_refl) EP)].
    assert (EP1 : par (i_h c1) x = Some p) by (rewrite (llinkonly_par _ _ LO1); exact EP).
    pose proof (par_lt _ _ _ EP1) as Hxlt. destruct (nth_error_ex_lt _ _ Hxlt) as [n Hn].
    rewrite (iget_ok _ _ _ Hn). cbn [bind].
    assert (Ep : ipar n = Some p) by (unfold par in EP1; rewrite Hn in EP1; exact EP1). rewrite Ep.
    rewrite new_inode_eq. cbn [i_h cx_h].
    pose proof (K x _ Hk) as Kx. cbn in Kx.
    destruct (replace_fresh_spec src lo (i_h c1) p x (mk_text sg) W1 K1 A1 EP1) as (h' & E' & W' & K' & A' & DS & L' & Px & Pn & _);
      [intros _; exact (proj1 Kx)|reflexivity|reflexivity|].
    rewrite E'. cbn [bind].
    assert (Enx : hd_or t None = hd_error t) by (destruct t; reflexivity). rewrite Enx.
    apply IH; cbn [i_h cx_h i_labels]; try assumption; [|lia].
    eapply LL_frame; [exact L1|exact (proj2 DS)|].
    intros y Hyt Hy. apply islk_lt in Hy. rewrite Pn; [tauto|exact Hy|].
    intros E. subst y. pose proof (ll_nd _ _ _ L) as Hnd. inversion Hnd; subst. contradiction.
Qed.

Lemma link_close_block_spec c ll :
  HWF (i_h c) -> KOKh src lo (i_h c) -> Acyc (i_h c) -> LL (i_h c) (i_labels c) ll ->
  exists c', link_close_block c = Ok c' /\ HWF (i_h c') /\ KOKh src lo (i_h c') /\ Acyc (i_h c').
Proof.
  intros W K A L. unfold link_close_block. cbn [i_h cx_bottoms i_labels].
  rewrite (ll_head _ _ _ L). apply close_labels_spec; cbn [i_h cx_bottoms i_labels]; try assumption.
  pose proof (ll_length_le _ _ _ L). lia.
Qed.
End Close.
