(* C01 for the Footnote parser model: parse_treeF never panics and never runs out of fuel, from
   the totality of the block phase (proofs/FootnoteWfTotBlk.v), what the block phase guarantees
   (proofs/FootnoteWfBlk.v) and the totality of the inline phase (proofs/FootnoteWfTotInl.v),
   which are Section hypotheses here. *)
Require Import GM.model.Base GM.model.Util GM.model.Reader GM.model.ListItem GM.model.Regex GM.model.HtmlWriter GM.model.Html GM.model.HtmlSpec
               GM.model.BlockParse GM.model.InlineParse GM.model.FootnoteX
               GM.model.FootnoteParseBlock GM.model.FootnoteParseInline GM.model.FootnoteParse.
Require Import GM.proofs.ParseInv GM.proofs.ParseCompose GM.proofs.ParseBlocksRangeA GM.proofs.ParseBlocksRangeB
               GM.proofs.FootnoteProofs GM.proofs.FootnoteConservativeTree
               GM.proofs.FootnoteWfDefs GM.proofs.FootnoteWfDefs2 GM.proofs.FootnoteWfFs GM.proofs.FootnoteWfSort GM.proofs.FootnoteWfHeap
               GM.proofs.FootnoteWfXf GM.proofs.FootnoteWfTree GM.proofs.FootnoteWfNum GM.proofs.FootnoteWfWf GM.proofs.FootnoteWfTotTree.
From Coq Require Import List ZArith Lia Bool Permutation Sorted.
Import ListNotations.
Open Scope Z_scope.

Lemma initial_defs_total space_table src h lst : heapS space_table src h -> fn_nodes_ok h lst -> fn_list_ok h lst ->
  exists defs, initial_defs src h lst = Ok defs /\
    forall l ln, lst = Some l -> nth_error h l = Some ln -> exists ds, defs = Some ds /\ length ds = length (bch ln).
Proof.
  intros HS1 Hn Hl. unfold initial_defs. destruct lst as [l|].
  2:{ eexists. split; [reflexivity|]. intros l ln E. discriminate. }
  destruct (Hl l eq_refl) as (ln & El & _ & _ & Hch). rewrite (proj2 (hget_ok _ _ _) El). cbn [bind].
  assert (Hmap : exists ds, map_res (fun i => n <- hget h i ;;
              match b_seg n with Some sg => v <- seg_value src sg ;; Ok {| d_ref := v; d_index := b_i2 n |} | None => Panic end) (bch ln) = Ok ds
            /\ length ds = length (bch ln)).
  { clear El. induction (bch ln) as [|c cs IH]; cbn [map_res]; [exists []; auto|].
    destruct (Hch c (or_introl eq_refl)) as [cn [Ecn Hfc]]. rewrite (proj2 (hget_ok _ _ _) Ecn). cbn [bind].
    destruct (is_footnote_inv _ Hfc) as [Kc Ic].
    destruct (Hn c cn Ecn Kc) as [H0|[[_ [_ [sg Esg]]]|[H3 _]]]; try lia.
    rewrite Esg. destruct (seg_value_total src sg (np_seg _ _ _ (hs_node _ _ _ HS1 c cn Ecn) sg Esg)) as [v ->]. cbn [bind].
    destruct IH as [ds [-> Hlen]]; [intros c' Hc'; apply Hch; right; exact Hc'|]. cbn [bind].
    eexists. split; [reflexivity|]. cbn [length]. lia. }
  destruct Hmap as [ds [-> Hlen]]. cbn [bind]. eexists. split; [reflexivity|].
  intros l' ln' E El'. injection E as <-. assert (ln' = ln) by congruence. subst. exists ds. auto.
Qed.

Section Tot.
Variable space_table punct_table : list N.
Variable norm : bytes -> bytes.
Variable re_t1o re_t1c re_t2 re_t3 re_t4 re_t5 re_t6 re_t7 : re.
Variable allowed_tags : list bytes.
Variable url_table email_table : list N.
Variable re_email_domain re_open_tag re_close_tag : re.
Variable punct_rune space_rune : N -> bool.
Notation PBF := (parse_blocksF space_table punct_table norm re_t1o re_t1c re_t2 re_t3 re_t4 re_t5 re_t6 re_t7 allowed_tags).
Notation ICF := (inline_childrenF space_table punct_table norm url_table email_table re_email_domain re_open_tag re_close_tag
                                  punct_rune space_rune).
Notation PTF := (parse_treeF space_table punct_table norm re_t1o re_t1c re_t2 re_t3 re_t4 re_t5 re_t6 re_t7 allowed_tags
                             url_table email_table re_email_domain re_open_tag re_close_tag punct_rune space_rune).
Hypothesis sp32 : is_space space_table 32%N = true.
Variable src : bytes.
Hypothesis Hsrc : bytes_ok src.
Hypothesis blk_total : exists x, PBF src = Ok x.
Hypothesis blk_final2 : forall x, PBF src = Ok x -> BlkFinal2 space_table src x.
Hypothesis inl_total : forall refs fs lines, lines_ok src lines -> exists r, ICF refs fs src lines = Ok r.

Theorem parse_treeF_total : exists t, PTF src = Ok t.
Proof.
  destruct blk_total as [x Hx]. unfold parse_treeF. rewrite Hx. cbn [bind]. cbv zeta.
  destruct (blk_final2 x Hx) as [(HS1 & HJ & Hrefs & Hnodes & Hlist) Hpar].
  set (h := s_h (bf_s x)) in *.
  assert (HSh : HS space_table src h) by (split; assumption).
  destruct (initial_defs_total space_table src h (bf_list x) HS1 Hnodes Hlist) as [defs0 [Hdefs Hd0]]. rewrite Hdefs. cbn [bind].
  set (fs0 := {| fs_defs := defs0; fs_count := 0; fs_links := [] |}).
  set (inl := fun fs lines => ICF (c_refs (s_c (bf_s x))) fs src lines).
  destruct (walk_blocks_total space_table src inl h HS1) with (fuel := S (length h)) (i := 0%nat) (path := @nil nat) (fs := fs0)
    (acc := @nil (nat * list tree)) as [[fs kids] Hw].
  { intros fs i n En Hb Hi. apply inl_total. exact (block_lines_ok space_table sp32 src Hsrc h i n HS1 HJ En Hb Hi). }
  { constructor. }
  { cbn [length]. lia. }
  fold inl. rewrite Hw. cbn [bind].
  pose proof (walk_WI space_table punct_table norm url_table email_table re_email_domain re_open_tag re_close_tag punct_rune space_rune
                src _ h fs0 _ _ HS1 Hw) as (_ & W2 & _). cbn [fst] in W2.
  assert (Hp : exists p, ast_transform h (bf_list x) fs kids = Ok p /\ HS space_table src (fp_h p)).
  { destruct (bf_list x) as [l|] eqn:Elst.
    - destruct (Hlist l eq_refl) as (ln & El & Hfl & _ & Hch).
      destruct (Hd0 l ln eq_refl El) as [ds [Eds Hlen]].
      destruct (fs_defs fs) as [defs|] eqn:Edefs.
      2:{ destruct W2 as [[_ W2] _]. specialize (W2 Edefs). unfold fs0 in W2. cbn [fs_defs] in W2. congruence. }
      assert (Hlen2 : length defs = length (bch ln)).
      { destruct W2 as (_ & W2 & _). specialize (W2 ds defs). unfold fs0 in W2. cbn [fs_defs] in W2.
        specialize (W2 Eds Edefs). apply (f_equal (@length bytes)) in W2. rewrite !map_length in W2. lia. }
      destruct (is_fnlist_inv _ Hfl) as [Kl _]. destruct (hs_root _ _ _ HS1) as [r0 [Er0 [Kr0 _]]].
      assert (Hl0 : l <> 0%nat) by (intros ->; congruence).
      destruct (ast_transform_total space_table src h l ln fs defs kids HSh Edefs Hl0 El Hfl Hlen2 Hch (Hpar l ln eq_refl El)) as [p Hp].
      exists p. split; [exact Hp|].
      assert (Hflh : forall ln0, nth_error h l = Some ln0 -> is_fnlist_node ln0 = true) by (intros ln0 E; congruence).
      exact (xp_hs _ _ _ _ _ _ _ _ (ast_transform_some space_table src h l fs defs kids p HSh Edefs Hl0 Hflh Hp)).
    - eexists. split; [reflexivity|exact HSh]. }
  destruct Hp as [p [Hp HSp]]. rewrite Hp. cbn [bind].
  apply (to_treeF_total space_table src p HSp (S (length (fp_h p))) 0%nat []); [constructor|cbn [length]; lia].
Qed.

End Tot.
