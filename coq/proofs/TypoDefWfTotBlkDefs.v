(* Helper file for TypoDefWfTotBlk.v (totality of the block phase with extension.DefinitionList on):
   the definitions the port of ParseBlocksTotal*.v to the driver of model/TypoDefParseD.v adds to
   the core invariants (ParseBlocksTotalDefs.v SI / HInv / CInv are reused unchanged: a DefinitionList,
   DefinitionTerm or DefinitionDescription node is a BHTML node and satisfies the core node_ok).
     kkeep   old nodes keep kind and type field (so is_dl / is_dt / is_dd of a node never change)
     TC      tree consistency: the child lists have no duplicates and a child points to its parent
             (needed to exclude the Panic of defdesc_open: the last child of a node is attached)
     SD      SI + TC
     contD   an entry of the opened blocks is a container: by its parser, or a PHTML entry whose node
             is a DefinitionList / DefinitionDescription
     ChainD  the core Chain with contD and: a DefinitionList entry is followed by a
             DefinitionDescription entry
     LineInvD the invariant at line boundaries *)
Require Import GM.model.Base GM.model.Util GM.model.Reader GM.model.ReaderSpec GM.model.Blocks GM.model.ListItem
               GM.model.LeafBlocks GM.model.CodeBlock GM.model.LinkDest GM.model.Regex GM.model.BlockParse
               GM.model.TypoDefParseD.
Require Import GM.proofs.ReaderProofs GM.proofs.BlocksProofs GM.proofs.ParseBlocksTotalReader
               GM.proofs.ParseBlocksTotalDefs GM.proofs.ParseBlocksTotalSpec GM.proofs.ParseBlocksTotalSt
               GM.proofs.ParseBlocksTotalShape GM.proofs.TypoDefConservativeBlkInv.
From Coq Require Import ZArith Lia List Bool.
Import ListNotations.
Open Scope Z_scope.

(* ---------- kind and type field of old nodes ---------- *)
Definition kkeep (h h' : heap) : Prop :=
  (length h <= length h')%nat /\
  forall j n, nth_error h j = Some n -> exists n', nth_error h' j = Some n' /\ bk n' = bk n /\ b_i1 n' = b_i1 n.

Lemma kkeep_refl h : kkeep h h.
Proof. split; [lia|]. intros j n H. exists n. auto. Qed.
Lemma kkeep_trans a b c : kkeep a b -> kkeep b c -> kkeep a c.
Proof.
  intros [L1 H1] [L2 H2]. split; [lia|]. intros j n Hj. destruct (H1 j n Hj) as (n1 & E1 & K1 & T1).
  destruct (H2 j n1 E1) as (n2 & E2 & K2 & T2). exists n2. split; [exact E2|]. split; congruence.
Qed.
Lemma kkeep_hRk k h h' : hRk k h h' -> kkeep h h'.
Proof.
  intros (L & O & _). split; [exact L|]. intros j n Hj. destruct (O j n Hj) as (n' & E & K & T & _). exists n'. auto.
Qed.
Lemma kkeep_eq h h' : h' = h -> kkeep h h'.
Proof. intros ->. apply kkeep_refl. Qed.
Lemma kkeep_alloc h n : kkeep h (h ++ [n]).
Proof.
  split; [rewrite app_length; lia|]. intros j x H. exists x. split; [apply nth_error_alloc_old, H|auto].
Qed.
Lemma kkeep_hset h i n n' : nth_error h i = Some n -> bk n' = bk n -> b_i1 n' = b_i1 n -> kkeep h (hset h i n').
Proof.
  intros Hi K T. split; [rewrite hset_length; lia|]. intros j x Hj. destruct (Nat.eq_dec i j) as [<-|Hne].
  - rewrite hset_same by (eapply nth_error_lt, Hi). exists n'. rewrite Hi in Hj. injection Hj as <-. auto.
  - rewrite hset_other by exact Hne. exists x. auto.
Qed.

Lemma is_dl_same n n' : bk n' = bk n -> b_i1 n' = b_i1 n -> is_dl n' = is_dl n.
Proof. unfold is_dl. intros -> ->. reflexivity. Qed.
Lemma is_dt_same n n' : bk n' = bk n -> b_i1 n' = b_i1 n -> is_dt n' = is_dt n.
Proof. unfold is_dt. intros -> ->. reflexivity. Qed.
Lemma is_dd_same n n' : bk n' = bk n -> b_i1 n' = b_i1 n -> is_dd n' = is_dd n.
Proof. unfold is_dd. intros -> ->. reflexivity. Qed.
Lemma is_dl_kind n : is_dl n = true -> bk n = BHTML.
Proof. unfold is_dl. intros H. apply andb_true_iff in H. destruct H as [H _]. destruct (bkind_eqb_spec (bk n) BHTML); [assumption|discriminate]. Qed.
Lemma is_dd_kind n : is_dd n = true -> bk n = BHTML.
Proof. unfold is_dd. intros H. apply andb_true_iff in H. destruct H as [H _]. destruct (bkind_eqb_spec (bk n) BHTML); [assumption|discriminate]. Qed.
Lemma is_dl_not_dd n : is_dl n = true -> is_dd n = false.
Proof.
  unfold is_dl, is_dd. intros H. apply andb_true_iff in H. destruct H as [_ H]. apply Z.eqb_eq in H. rewrite H.
  apply andb_false_r.
Qed.

(* the node with the number i is a DefinitionList / a DefinitionDescription *)
Definition dlk (h : heap) (i : nat) : Prop := exists n, nth_error h i = Some n /\ is_dl n = true.
Definition ddk (h : heap) (i : nat) : Prop := exists n, nth_error h i = Some n /\ is_dd n = true.

Lemma dlk_keep h h' i : kkeep h h' -> dlk h i -> dlk h' i.
Proof.
  intros [_ H] (n & E & D). destruct (H i n E) as (n' & E' & K & T). exists n'. split; [exact E'|].
  rewrite (is_dl_same n n' K T). exact D.
Qed.
Lemma ddk_keep h h' i : kkeep h h' -> ddk h i -> ddk h' i.
Proof.
  intros [_ H] (n & E & D). destruct (H i n E) as (n' & E' & K & T). exists n'. split; [exact E'|].
  rewrite (is_dd_same n n' K T). exact D.
Qed.
Lemma dlk_back h h' i : kkeep h h' -> (i < length h)%nat -> dlk h' i -> dlk h i.
Proof.
  intros [_ H] Hi (n' & E' & D). destruct (nth_error_ex_lt h i Hi) as [n E]. destruct (H i n E) as (n2 & E2 & K & T).
  rewrite E' in E2. injection E2 as <-. exists n. split; [exact E|]. rewrite <- (is_dl_same n n' K T). exact D.
Qed.
Lemma ddk_back h h' i : kkeep h h' -> (i < length h)%nat -> ddk h' i -> ddk h i.
Proof.
  intros [_ H] Hi (n' & E' & D). destruct (nth_error_ex_lt h i Hi) as [n E]. destruct (H i n E) as (n2 & E2 & K & T).
  rewrite E' in E2. injection E2 as <-. exists n. split; [exact E|]. rewrite <- (is_dd_same n n' K T). exact D.
Qed.
Lemma dlk_node h i n : nth_error h i = Some n -> dlk h i -> is_dl n = true.
Proof. intros E (n' & E' & D). congruence. Qed.
Lemma ddk_node h i n : nth_error h i = Some n -> ddk h i -> is_dd n = true.
Proof. intros E (n' & E' & D). congruence. Qed.

(* ---------- tree consistency ---------- *)
Record TC (h : heap) : Prop := {
  tc_par : forall p pn c, nth_error h p = Some pn -> In c (bch pn) ->
           exists cn, nth_error h c = Some cn /\ bpar cn = Some p;
  tc_nd : forall p pn, nth_error h p = Some pn -> NoDup (bch pn)
}.

(* the last child of a node is attached *)
Lemma TC_last_attached h p pn l : TC h -> nth_error h p = Some pn -> last_id (bch pn) = Some l ->
  exists ln, nth_error h l = Some ln /\ bpar ln = Some p.
Proof. intros HT Hp Hl. apply (tc_par h HT p pn l Hp). apply last_id_in, Hl. Qed.

(* ---------- the opened blocks ---------- *)
Definition contD (h : heap) (e : nat * bparser) : Prop :=
  is_container (snd e) = true \/ (snd e = PHTML /\ (dlk h (fst e) \/ ddk h (fst e))).
(* what closeBlocks needs of the entries below the top of the closed range: no context record *)
Definition nlp (p : bparser) : Prop := p <> PFenced /\ p <> PSetext.

Lemma contD_keep h h' e : kkeep h h' -> contD h e -> contD h' e.
Proof.
  intros K [C|[P [D|D]]]; [left; exact C|right; split; [exact P|left; eapply dlk_keep; eassumption]|
                            right; split; [exact P|right; eapply ddk_keep; eassumption]].
Qed.
Lemma contD_back h h' e : kkeep h h' -> (fst e < length h)%nat -> contD h' e -> contD h e.
Proof.
  intros K L [C|[P [D|D]]]; [left; exact C|right; split; [exact P|left; eapply dlk_back; eassumption]|
                              right; split; [exact P|right; eapply ddk_back; eassumption]].
Qed.
Lemma contD_nlp h e : contD h e -> nlp (snd e).
Proof. intros [C|[P _]]; [destruct (snd e); try discriminate; split; discriminate|rewrite P; split; discriminate]. Qed.
Lemma contD_not_para h e : contD h e -> snd e <> PParagraph.
Proof. intros [C|[P _]]; [destruct (snd e); try discriminate; discriminate|rewrite P; discriminate]. Qed.
Lemma contD_core h e : is_container (snd e) = true -> contD h e.
Proof. intros H. left. exact H. Qed.

(* a chain of opened blocks below parent0 (cf. ParseBlocksTotalShape.Chain) *)
Record ChainD (h : heap) (parent0 : nat) (l : list (nat * bparser)) : Prop := {
  chd_par : forall k n p, nth_error l k = Some (n, p) ->
            exists nn, nth_error h n = Some nn /\ bpar nn = Some (par_at parent0 l k);
  chd_cont : forall k e, nth_error l k = Some e -> (S k < length l)%nat -> contD h e;
  chd_list : forall k L, nth_error l k = Some (L, PList) ->
             exists it Ln, nth_error l (S k) = Some (it, PListItem) /\ nth_error h L = Some Ln /\
                           last_id (bch Ln) = Some it;
  chd_dl : forall k L p, nth_error l k = Some (L, p) -> dlk h L ->
           exists D, nth_error l (S k) = Some (D, PHTML) /\ ddk h D
}.

Section S.
Variable space_table : list N.
Variable src : bytes.
Notation SI := (SI space_table src).

Definition SD (s : st) : Prop := SI s /\ TC (s_h s).

Record LineInvD (s : st) : Prop := {
  lid_si : SI s;
  lid_tc : TC (s_h s);
  lid_chain : ChainD (s_h s) 0%nat (ops s);
  lid_last : LastOK (s_h s) (s_c s);
  lid_root : RootOK (s_h s)
}.

Lemma lid_sd s : LineInvD s -> SD s.
Proof. intros H. split; [apply H|apply H]. Qed.

(* the ids of a chain increase (as for the core Chain) *)
Lemma chainD_sorted h parent0 l : HInv space_table src h -> ChainD h parent0 l ->
  forall j k a b, (j < k)%nat -> nth_error l j = Some a -> nth_error l k = Some b -> (fst a < fst b)%nat.
Proof.
  intros HH [Cp _ _ _] j k. revert j. induction k as [|k IH]; intros j a b Hjk Ha Hb; [lia|].
  destruct b as [nb pb]. destruct (Cp (S k) nb pb Hb) as [nn [Hn Hp]]. cbn [par_at] in Hp.
  assert (Hk : exists c, nth_error l k = Some c).
  { destruct (nth_error l k) eqn:E; [eauto|]. apply nth_error_None in E.
    assert (nth_error l (S k) <> None) by congruence. apply nth_error_Some in H. lia. }
  destruct Hk as [c Hc]. rewrite (nth_error_nth l k _ Hc) in Hp.
  pose proof (hi_par _ _ _ HH nb nn _ Hn Hp) as Hlt. cbn [fst].
  destruct (Nat.eq_dec j k) as [->|Hne].
  - rewrite Ha in Hc. injection Hc as <-. exact Hlt.
  - pose proof (IH j a c ltac:(lia) Ha Hc). lia.
Qed.

Lemma chainD_parent_lt h parent0 l : HInv space_table src h -> ChainD h parent0 l ->
  forall k a, nth_error l k = Some a -> (parent0 < fst a)%nat.
Proof.
  intros HH HC k. induction k as [|k IH]; intros a Ha.
  - destruct a as [n p]. destruct (chd_par _ _ _ HC 0%nat n p Ha) as [nn [Hn Hp]]. cbn [par_at] in Hp.
    exact (hi_par _ _ _ HH n nn _ Hn Hp).
  - assert (Hk : exists c, nth_error l k = Some c).
    { destruct (nth_error l k) eqn:E; [eauto|]. apply nth_error_None in E.
      assert (nth_error l (S k) <> None) by congruence. apply nth_error_Some in H. lia. }
    destruct Hk as [c Hc]. pose proof (IH c Hc). pose proof (chainD_sorted h parent0 l HH HC k (S k) c a ltac:(lia) Hc Ha). lia.
Qed.

End S.
