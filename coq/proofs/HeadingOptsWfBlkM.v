(* FORK of ParseBlocksRangeM.v for HeadingOptsWf (HI_attach: bp = PATX -> fin_linesH). Helper library, part M: attaching a newly opened block; facts about the opened-blocks slice. *)
Require Import GM.model.Base GM.model.Util GM.model.Reader GM.model.ReaderSpec GM.model.Blocks GM.model.ListItem
               GM.model.LeafBlocks GM.model.CodeBlock GM.model.LinkDest GM.model.Regex GM.model.HtmlWriter
               GM.model.Html GM.model.HtmlSpec GM.model.BlockParse GM.model.InlineParse.
Require Import GM.proofs.ReaderProofs GM.proofs.BlockRangeProofs GM.proofs.ParseInv
               GM.proofs.ParseBlocksRangeA GM.proofs.HeadingOptsWfBlkB GM.proofs.HeadingOptsWfBlkC
               GM.proofs.HeadingOptsWfBlkD GM.proofs.HeadingOptsWfBlkE.
From Coq Require Import ZArith Lia Sorted.
Open Scope Z_scope.

Section M.
Variable space_table punct_table : list N.
Variable norm : bytes -> bytes.
Variable re_t1o re_t1c re_t2 re_t3 re_t4 re_t5 re_t6 re_t7 : re.
Variable allowed_tags : list bytes.
Variable src : bytes.
Hypothesis sp32 : is_space space_table 32%N = true.
Set Default Proof Using "All".

(* lemmas of parts C and D take all the section variables: CC supplies them *)
Notation CC f := (f space_table punct_table norm re_t1o re_t1c re_t2 re_t3 re_t4 re_t5 re_t6 re_t7 allowed_tags src sp32) (only parsing).
Notation SInv := (SInv space_table src).
Notation HI := (HI space_table src).
Notation nodeP := (nodeP space_table src).
Notation heapS := (heapS space_table src).
Notation Jinv := (Jinv src).
Notation openS := (openS src).
Notation pline := (pline space_table src).
Notation oline := (oline src).
Notation fin_lines := (fin_lines src).
Notation NLseg := (NLseg src).
Notation fin_linesH := (fin_linesH src).
Notation fin := (fin src).
Notation cont_post := (cont_post space_table src).
Notation item_guard := (item_guard space_table).
Notation verdict := (verdict space_table).
Notation CE f := (f space_table punct_table norm re_t1o re_t1c re_t2 re_t3 re_t4 re_t5 re_t6 re_t7 allowed_tags src sp32) (only parsing).
Notation OInv := (OInv space_table src).

(* ---------- the opened-blocks slice ---------- *)
Lemma Oeq_same c c' E : Oeq c E -> c_arr c' = c_arr c -> c_len c' = c_len c -> Oeq c' E.
Proof. unfold Oeq, opened. intros [H1 H2] -> ->. auto. Qed.

Lemma Oeq_len c E : Oeq c E -> c_len c = length E.
Proof. unfold Oeq, opened. intros [H1 H2]. rewrite <- H1, firstn_length. lia. Qed.

Lemma Oeq_push c E be : Oeq c E -> Oeq (push_opened c be) (E ++ [be]).
Proof.
  intros [H1 H2]. unfold Oeq, opened, push_opened in *. cbn [cset_open c_arr c_len].
  assert (length (firstn (c_len c) (c_arr c)) = c_len c) as Hl by (rewrite firstn_length; lia).
  split.
  - rewrite firstn_app, Hl. replace (S (c_len c) - c_len c)%nat with 1%nat by lia.
    rewrite firstn_all2 by lia. cbn [app firstn]. rewrite H1. reflexivity.
  - rewrite app_length, Hl. cbn [app length]. lia.
Qed.

Lemma firstn_app_exact' {X} (a b : list X) : firstn (length a) (a ++ b) = a.
Proof. rewrite firstn_app, Nat.sub_diag, firstn_all. cbn [firstn]. apply app_nil_r. Qed.

Lemma Oeq_pop c E e : Oeq c (E ++ [e]) -> Oeq (cset_open c (c_arr c) (pred (c_len c))) E.
Proof.
  intros H. pose proof (Oeq_len _ _ H) as Hl. destruct H as [H1 H2]. unfold Oeq, opened in *. cbn [cset_open c_arr c_len].
  rewrite app_length in Hl. cbn [length] in Hl. split; [|lia].
  replace (pred (c_len c)) with (length E) by lia.
  transitivity (firstn (length E) (firstn (c_len c) (c_arr c))).
  - rewrite firstn_firstn. f_equal. lia.
  - rewrite H1. apply firstn_app_exact'.
Qed.

Lemma Oeq_last c E e : Oeq c (E ++ [e]) -> last_opened c = Some e.
Proof.
  intros H. pose proof (CC last_opened_spec _ _ H) as Hs. destruct (last_opened c) as [e'|].
  - destruct Hs as [E' HE]. apply app_inj_tail in HE. destruct HE as [_ ->]. reflexivity.
  - destruct E; discriminate.
Qed.
Lemma Oeq_last_nil c : Oeq c [] -> last_opened c = None.
Proof.
  intros H. pose proof (CC last_opened_spec _ _ H) as Hs. destruct (last_opened c) as [e'|]; [|reflexivity].
  destruct Hs as [E' HE]. destruct E'; discriminate.
Qed.

(* ---------- opened blocks are attached ---------- *)
Lemma opened_attached fl s A D N x : SInv fl s A D N -> In x (ids (A ++ D ++ N)) ->
  exists q nx, nth_error (s_h s) x = Some nx /\ bpar nx = Some q.
Proof.
  intros [_ HH] Hin. pose proof (hi_heap _ _ _ _ _ _ _ _ HH) as HS. pose proof (hi_open _ _ _ _ _ _ _ _ HH) as HO.
  rewrite !ids_app in Hin. apply in_app_or in Hin. destruct Hin as [Hin|Hin]; [|apply in_app_or in Hin; destruct Hin as [Hin|Hin]].
  - eapply chain_attached; [exact HS|apply spineL_chainL; exact (os_spine _ _ _ _ _ _ HO)|]. rewrite ids_app. apply in_or_app. left. exact Hin.
  - eapply chain_attached; [exact HS|exact (os_chain _ _ _ _ _ _ HO)|exact Hin].
  - eapply chain_attached; [exact HS|apply spineL_chainL; exact (os_spine _ _ _ _ _ _ HO)|]. rewrite ids_app. apply in_or_app. right. exact Hin.
Qed.

(* ---------- the parent of the blocks that are opened: the last of A ++ N, or the root ---------- *)
(* the parser of the last continued / newly opened block is a container parser *)
Definition topC (E : list (nat * bparser)) : Prop := forall E' y bq, E = E' ++ [(y, bq)] -> container (pkind bq) = true.

Lemma last_cons0 l : last (0%nat :: l) 0%nat = last l 0%nat.
Proof. destruct l as [|a t]; [reflexivity|]. apply last_cons_ne. discriminate. Qed.

Lemma lastid_ids_snoc E y bq : lastid (ids (E ++ [(y, bq)])) = y.
Proof. rewrite (CC ids_snoc). apply lastid_snoc. Qed.

Lemma parent_node fl s A D N : SInv fl s A D N -> topC (A ++ N) ->
  exists np, nth_error (s_h s) (lastid (ids (A ++ N))) = Some np /\ container (bk np) = true.
Proof.
  intros HS Ht. destruct (CC exists_last_or_nil (A ++ N)) as [E|[E' [[y bq] E]]].
  - rewrite E. cbn. destruct HS as [_ HH]. destruct (hs_root _ _ _ (hi_heap _ _ _ _ _ _ _ _ HH)) as [n0 [E0 [K0 _]]].
    exists n0. rewrite K0. auto.
  - rewrite E, lastid_ids_snoc. destruct (CE SInv_entry fl s A D N y bq HS) as [n [En [K _]]].
    + assert (In (y, bq) (A ++ N)) as Hin by (rewrite E; apply in_or_app; right; left; reflexivity).
      apply in_app_or in Hin. apply in_or_app. destruct Hin; [left; assumption|right; apply in_or_app; right; assumption].
    + exists n. rewrite K. split; [exact En|]. eapply Ht. exact E.
Qed.

Lemma lastid_cases l : (l = [] /\ lastid l = 0%nat) \/ (l <> [] /\ In (lastid l) l).
Proof. destruct l as [|a t]; [left; auto|right]. split; [discriminate|]. apply last_in. discriminate. Qed.

Lemma nodup_drop_mid {X} (a d n : list X) : NoDup (a ++ d ++ n) -> NoDup (a ++ n).
Proof.
  induction a as [|x t IH]; cbn [app]; intros H.
  - induction d as [|y d' IHd]; cbn [app] in H; [exact H|]. inversion H; subst. auto.
  - inversion H as [|? ? Hx Ht]; subst. constructor; [|apply IH; exact Ht].
    intros Hin. apply Hx. apply in_app_or in Hin. apply in_or_app. destruct Hin; [left; assumption|right; apply in_or_app; right; assumption].
Qed.

(* ---------- updating a detached node ---------- *)
Lemma HI_hset_free b h c A D N i n n' : HI b h c A D N -> nth_error h i = Some n -> bpar n = None ->
  same_shape n n' -> blines n' = blines n -> nodeP n' -> HI b (hset h i n') c A D N.
Proof.
  intros [H1 H2 H3 H4 H5] E P Hs Hl Hn. constructor; auto.
  - apply Bnd_hset; [exact H1|]. intros K sg Hsg. rewrite Hl in Hsg. destruct Hs as [Hk _]. eapply H1; [exact E|congruence|exact Hsg].
  - eapply heapS_hset; eassumption.
  - eapply Jinv_hset; [exact H3|exact E|]. destruct Hs as [_ [Hp _]]. intros Hp'. congruence.
  - eapply openS_hset; try eassumption. left. exact Hl.
Qed.

(* ---------- AppendChild of a new block below the last of A ++ N, and its entry in the opened blocks ---------- *)
Lemma HI_attach b h c A D N node bp nn np h3 :
  HI b h c A D N -> nth_error h node = Some nn -> bpar nn = None -> bch nn = [] -> bk nn = pkind bp ->
  (bp = PATX -> fin_linesH (blines nn)) -> (bp = PParagraph -> Forall NLseg (blines nn)) ->
  (bp = PSetext -> exists tmp t, c_tmp_para c = Some tmp /\ nth_error h tmp = Some t /\ bk t = BParagraph /\
                   fin_lines (blines t) /\ ~ In tmp (ids (A ++ D ++ N)) /\ tmp <> node) ->
  (forall tmp y, c_tmp_para c = Some tmp -> In (y, PSetext) (A ++ D ++ N) -> tmp <> node) ->
  ~ In node (ids (A ++ D ++ N)) -> node <> 0%nat ->
  nth_error h (lastid (ids (A ++ N))) = Some np -> container (bk np) = true ->
  (bk nn = BListItem -> bk np = BList) ->
  append_child h (lastid (ids (A ++ N))) node = Ok h3 ->
  HI b h3 c A D (N ++ [(node, bp)]).
Proof.
  intros [H1 H2 H3 H4 H5] En Pn Cn Kn Hatx Hpara Hset Htmp Hni Hn0 Ep Kp Hli Ha.
  set (p := lastid (ids (A ++ N))) in *.
  assert (node <> p) as Hcp.
  { destruct (lastid_cases (ids (A ++ N))) as [[_ E]|[_ Hin]]; [unfold p; congruence|].
    intros ->. apply Hni. unfold p. rewrite !ids_app in *. apply in_app_or in Hin. apply in_or_app.
    destruct Hin; [left; assumption|right; apply in_or_app; right; assumption]. }
  destruct (append_child_spec _ _ _ _ Ha Hcp) as [nc [np' [Ec [Ep' [Hlen [E1c [E1p E1o]]]]]]].
  assert (nc = nn) by congruence. assert (np' = np) by congruence. subst nc np'.
  pose proof (append_data_le h h3 p node nn np Ec Ep' E1c E1p E1o) as Hdl.
  assert (A ++ D ++ N ++ [(node, bp)] = (A ++ D ++ N) ++ [(node, bp)]) as Hflat by (rewrite <- !app_assoc; reflexivity).
  assert (forall e, In e (A ++ D ++ N ++ [(node, bp)]) -> e = (node, bp) \/ In e (A ++ D ++ N)) as Hsplit.
  { intros e He. rewrite Hflat in He. apply in_app_or in He. destruct He as [He|[He|[]]]; auto. }
  pose proof (os_nodup _ _ _ _ _ _ H4) as Hnd.
  constructor.
  - eapply (Bnd_append h h3 p node nn np); eassumption.
  - eapply (heapS_append space_table src h h3 p node nn np); eassumption.
  - eapply (Jinv_append src h h3 p node nn np) with (R := ids (A ++ D ++ N)); try eassumption.
    + intros x Hx. rewrite Hflat, (CC ids_snoc). apply in_or_app. left. exact Hx.
    + rewrite Hflat, (CC ids_snoc). apply in_or_app. right. left. reflexivity.
  - destruct H4 as [Hp Ha' _ Hs Hc Hl Ht Hf Hpa]. constructor.
    + intros x bq Hin. destruct (Hsplit _ Hin) as [E|Hold].
      * injection E as -> ->. eexists. split; [exact E1c|]. exact Kn.
      * destruct (Hp x bq Hold) as [n [Ex K]]. destruct (Hdl x n Ex) as [n' [Ex' [K' _]]]. exists n'. split; [exact Ex'|congruence].
    + intros x Hin. destruct (Hsplit _ Hin) as [E|Hold].
      * injection E as -> <-. eexists. split; [exact E1c|]. apply Hatx. reflexivity.
      * destruct (Ha' x Hold) as [n [Ex F]]. destruct (Hdl x n Ex) as [n' [Ex' [_ L']]]. exists n'. rewrite L'. auto.
    + rewrite Hflat, (CC ids_snoc). apply NoDup_app_snoc; assumption.
    + (* the spine grows by the new block *)
      assert (0%nat :: ids (A ++ N ++ [(node, bp)]) = (0%nat :: ids (A ++ N)) ++ [node]) as Esp.
      { rewrite app_assoc, (CC ids_snoc). reflexivity. }
      rewrite Esp. intros q x Hq. apply Adj_snoc_inv in Hq. destruct Hq as [Hq|[_ [-> ->]]].
      * eapply append_lastchild; [exact Ec|exact E1c|exact E1o|apply Hs; exact Hq|].
        unfold p, lastid. rewrite <- (last_cons0 (ids (A ++ N))). apply (Adj_not_last _ q x 0%nat); [|exact Hq].
        constructor.
        -- eapply chain_no_root; [exact H2|apply spineL_chainL; exact Hs].
        -- rewrite ids_app. rewrite (ids_app A), (ids_app D) in Hnd. eapply nodup_drop_mid. exact Hnd.
      * rewrite last_cons0. eapply append_lastchild_new. fold (lastid (ids (A ++ N))). fold p. exact E1p.
    + intros q x Hq. eapply append_child_keep; [exact Ec|exact Ep'|exact E1c|exact E1p|exact E1o|apply Hc; exact Hq].
    + intros E. destruct N; discriminate.
    + intros x Hin. destruct (Hsplit _ Hin) as [E|Hold].
      * injection E as -> <-. destruct (Hset eq_refl) as [tmp [t [T1 [T2 [T3 [T4 [T5 T6]]]]]]].
        destruct (Hdl tmp t T2) as [t' [Et' [K' L']]]. exists tmp, t'. rewrite L'. csplit; auto; try congruence.
        rewrite Hflat, (CC ids_snoc). intros Hi. apply in_app_or in Hi. destruct Hi as [Hi|[Hi|[]]]; [contradiction|cbn [fst] in Hi; congruence].
      * destruct (Ht x Hold) as [tmp [t [T1 [T2 [T3 [T4 T5]]]]]].
        destruct (Hdl tmp t T2) as [t' [Et' [K' L']]]. exists tmp, t'. rewrite L'. csplit; auto; try congruence.
        rewrite Hflat, (CC ids_snoc). intros Hi. apply in_app_or in Hi. destruct Hi as [Hi|[Hi|[]]]; [contradiction|].
        cbn [fst] in Hi. eapply Htmp; [exact T1|exact Hold|congruence].
    + exact Hf.
    + intros x Hin. destruct (Hsplit _ Hin) as [E|Hold].
      * injection E as -> <-. eexists. split; [exact E1c|]. apply Hpara. reflexivity.
      * destruct (Hpa x Hold) as [n [Ex F]]. destruct (Hdl x n Ex) as [n' [Ex' [_ L']]]. exists n'. rewrite L'. auto.
  - exact H5.
Qed.

End M.
