(* The FootnoteLink nodes of the inline heap along the inline phase of one block
   (model/FootnoteParseInline.v), partial correctness: every IEmphasis node of the heap has a level
   above -3 - (length of the link list), i.e. it is a real emphasis (the core only creates levels
   1 and 2, proofs/FootnoteWfTotInlEf.v) or a FootnoteLink whose serial is a position of fs_links.
   The link list only grows, so the bound is kept by every step. *)
Require Import GM.model.Base GM.model.Util GM.model.Reader GM.model.ListItem GM.model.Regex GM.model.Html
               GM.model.BlockParse GM.model.InlineParse GM.model.FootnoteX
               GM.model.FootnoteParseBlock GM.model.FootnoteParseInline.
Require Import GM.proofs.MiscProofs GM.proofs.BReaderProofs GM.proofs.ParseInv GM.proofs.ParseInlineTotalHeap.
Require Import GM.proofs.FootnoteWfTotInlEf GM.proofs.FootnoteWfTotInlTree.
From Coq Require Import List ZArith Lia Bool.
Import ListNotations.
Open Scope Z_scope.

Lemma fte_bind_ok {A B} (r : result A) (f : A -> result B) b :
  (x <- r ;; f x) = Ok b -> exists a, r = Ok a /\ f a = Ok b.
Proof. destruct r as [a| |]; cbn [bind]; intros H; try discriminate. exists a. split; [reflexivity|exact H]. Qed.

Tactic Notation "fte_bind" hyp(H) ident(x) ident(Hx) :=
  let H' := fresh in
  apply fte_bind_ok in H; destruct H as [x [Hx H']]; rename H' into H.

Lemma EB_ef n h h' : 0 <= n -> ef h h' -> EB n h -> EB n h'.
Proof. intros Hn F H y l E. destruct (F y l E) as [E0|Hl]; [exact (H y l E0)|lia]. Qed.

(* the bound of a state of the generalised inline loop *)
Definition EBx (x : fist) : Prop := EB (zlen (fs_links (fi_f x))) (i_h (t_c (fi_s x))).

Lemma EBx_ef x x' : fi_f x' = fi_f x -> ef (i_h (t_c (fi_s x))) (i_h (t_c (fi_s x'))) -> EBx x -> EBx x'.
Proof. unfold EBx. intros -> F H. eapply EB_ef; [apply zlen_nonneg|exact F|exact H]. Qed.

Lemma EB_init n : 0 <= n -> EB n (i_h init_ictx).
Proof. intros Hn [|[|y]] l E; cbn in E; discriminate. Qed.

Section WithTables.
Variable space_table punct_table : list N.
Variable norm : bytes -> bytes.
Variable url_table email_table : list N.
Variable re_email_domain re_open_tag re_close_tag : re.
Variable punct_rune space_rune : N -> bool.
Variable refs : list (bytes * (bytes * option bytes)).
Notation FP := (footnote_parse punct_table).
Notation IPF := (ip_parseF space_table punct_table norm url_table email_table re_email_domain re_open_tag re_close_tag
                           punct_rune space_rune refs).
Notation TIF := (try_inlineF space_table punct_table norm url_table email_table re_email_domain re_open_tag re_close_tag
                             punct_rune space_rune refs).
Notation SLF := (scan_lineF space_table punct_table norm url_table email_table re_email_domain re_open_tag re_close_tag
                            punct_rune space_rune refs).
Notation LOOPF := (parse_block_loopF space_table punct_table norm url_table email_table re_email_domain re_open_tag re_close_tag
                                     punct_rune space_rune refs).
Notation PBF := (parse_blockF space_table punct_table norm url_table email_table re_email_domain re_open_tag re_close_tag
                              punct_rune space_rune refs).

Lemma footnote_parse_eb x parent x' o : FP x parent = Ok (x', o) -> EBx x -> EBx x'.
Proof.
  unfold footnote_parse. intros H HE.
  fte_bind H y Hy. destruct y as [[r line] segment].
  cbv zeta in H.
  match type of H with (if ?c then _ else _) = _ => destruct c end.
  { injection H as <- _. exact HE. }
  match type of H with (if ?c then _ else _) = _ => destruct c end.
  { injection H as <- _. exact HE. }
  match type of H with (if ?c then _ else _) = _ => destruct c end.
  { injection H as <- _. exact HE. }
  fte_bind H value Hv. fte_bind H r2 Hr2. cbn [fi_f fi_s fist_s ist_r t_c t_r] in H.
  destruct (fs_defs (fi_f x)) as [defs|] eqn:Ed.
  2:{ injection H as <- _. exact HE. }
  destruct (assign defs (fs_count (fi_f x)) value) as [[defs' count'] found] eqn:Ea.
  destruct found as [index|].
  2:{ injection H as <- _. exact HE. }
  rewrite new_inode_eq in H.
  fte_bind H c2 Hc2. injection H as <- _. unfold EBx in *. cbn [fi_f fi_s t_c fs_links].
  set (h := i_h (t_c (fi_s x))) in *. set (links := fs_links (fi_f x)) in *.
  assert (Hz : zlen (links ++ [index]) = zlen links + 1) by (rewrite zlen_app; reflexivity).
  pose proof (zlen_nonneg links) as Hnn.
  assert (H1 : EB (zlen (links ++ [index])) (h ++ [fresh (IFootnoteLink (zlen links))])).
  { intros y l. rewrite kd_snoc. destruct (Nat.eqb y (length h)).
    - change (IFootnoteLink (zlen links)) with (IEmphasis (-3 - zlen links)). intros E. assert (El : l = -3 - zlen links) by congruence. lia.
    - intros E. specialize (HE y l E). lia. }
  revert Hc2. cbn [i_h cx_h]. destruct (line_of line) as [|c0 lt]; [discriminate|].
  destruct (N.eqb c0 33).
  - rewrite new_inode_eq. cbn [i_h cx_h]. intros Hc2. fte_bind Hc2 h3 Hh3. injection Hc2 as <-. cbn [i_h cx_h].
    eapply EB_ef; [lia|eapply i_append_ef; exact Hh3|].
    eapply EB_ef; [lia|apply snoc_ef; intros l E; discriminate|exact H1].
  - intros Hc2. injection Hc2 as <-. exact H1.
Qed.

Lemma ip_parseF_eb p x parent x' o : IPF p x parent = Ok (x', o) -> EBx x -> EBx x'.
Proof.
  destruct p as [p|]; cbn [ip_parseF]; intros H.
  - fte_bind H y Hy. injection H as <- _. destruct y as [s' res]. apply ip_parse_ef in Hy.
    apply EBx_ef; [reflexivity|exact Hy].
  - eapply footnote_parse_eb. exact H.
Qed.

Lemma try_inlineF_eb : forall ips x parent sl sp x' o, TIF ips x parent sl sp = Ok (x', o) -> EBx x -> EBx x'.
Proof.
  induction ips as [|p rest IH]; intros x parent sl sp x' o H HE; cbn [try_inlineF] in H.
  - injection H as <- _. exact HE.
  - fte_bind H y Hy. destruct y as [x1 n]. pose proof (ip_parseF_eb _ _ _ _ _ Hy HE) as S1.
    destruct n as [n|].
    + injection H as <- _. exact S1.
    + fte_bind H r Hr. apply IH in H; [exact H|]. exact S1.
Qed.

Lemma scan_lineF_eb : forall fuel line i ll n esc sp x parent out,
  SLF fuel line i ll n esc sp x parent = Ok out -> EBx x ->
  EBx (match out with inl (x', _) => x' | inr (x', _, _) => x' end).
Proof.
  induction fuel as [|f IH]; intros line i ll n esc sp x parent out H HE; cbn [scan_lineF] in H; [discriminate|].
  destruct (ll <=? i). { injection H as <-. exact HE. }
  destruct (zskip i line) as [|c tl]. { injection H as <-. exact HE. }
  destruct (N.eqb c 10). { injection H as <-. exact HE. }
  cbv zeta in H.
  fte_bind H r Hr.
  assert (S1 : EBx (match r with inl x1 => x1 | inr (x1, _, _) => x1 end)).
  { clear H.
    match type of Hr with match ?l with [] => _ | _ :: _ => _ end = _ => destruct l as [|ip ips] eqn:Eips end.
    - injection Hr as <-. exact HE.
    - rewrite <- Eips in Hr. clear Eips.
      fte_bind Hr rd Hrd. fte_bind Hr t Ht. destruct t as [s1 sp1]. fte_bind Hr y Hy. destruct y as [x1 node].
      assert (HE1 : EBx (fist_s x s1)).
      { destruct (negb (i =? 0)).
        - fte_bind Ht bt Hbt. fte_bind Ht c' Hc'. injection Ht as <- _. apply merge_or_append_ef in Hc'.
          revert HE. apply EBx_ef; [reflexivity|exact Hc'].
        - injection Ht as <- _. exact HE. }
      apply try_inlineF_eb in Hy; [|exact HE1].
      destruct node as [nd|].
      + fte_bind Hr h Hh. injection Hr as <-. apply i_append_ef in Hh. revert Hy. apply EBx_ef; [reflexivity|exact Hh].
      + injection Hr as <-. exact Hy. }
  destruct r as [x1|[[x1 n1] sp1]].
  - injection H as <-. exact S1.
  - destruct esc; [|destruct (N.eqb c 92)]; apply IH in H; assumption.
Qed.

Lemma parse_block_loopF_eb : forall fuel x parent esc x', LOOPF fuel x parent esc = Ok x' -> EBx x -> EBx x'.
Proof.
  induction fuel as [|f IH]; intros x parent esc x' H HE; cbn [parse_block_loopF] in H; [discriminate|].
  fte_bind H y Hy. destruct y as [[r line] sg0]. destruct line as [line|].
  2:{ injection H as <-. exact HE. }
  cbv zeta in H.
  match type of H with (match ?e with pair _ _ => _ end) = _ => destruct e as [[[line_length hard] visible] soft] end.
  fte_bind H z Hz. apply scan_lineF_eb in Hz; [|exact HE].
  destruct z as [[x1 esc1]|[[x1 n1] sp1]].
  - apply IH in H; assumption.
  - fte_bind H r1 Hr1.
    match type of H with (if ?c then _ else _) = _ => destruct c end.
    + apply IH in H; [exact H|exact Hz].
    + fte_bind H diff Hd. fte_bind H t Ht. destruct t as [c tseg].
      rewrite new_inode_eq in H. fte_bind H h Hh. fte_bind H r2 Hr2.
      apply IH in H; [exact H|]. apply i_append_ef in Hh. cbn [i_h cx_h] in Hh.
      assert (Hc : ef (i_h (t_c (fi_s x1))) (i_h c)).
      { cbn [fist_s fi_s ist_r t_c t_r] in Ht. destruct (hard && visible). { injection Ht as <- _. apply ef_refl. }
        fte_bind Ht trimmed Htr. destruct (seg_is_empty trimmed); [|injection Ht as <- _; apply ef_refl].
        fte_bind Ht pn Hpn. destruct (last_id (ich pn)) as [lst|]; [|injection Ht as <- _; apply ef_refl].
        fte_bind Ht ln Hln. destruct (ik ln); try (injection Ht as <- _; apply ef_refl).
        match type of Ht with (if ?c then _ else _) = _ => destruct c end; [|injection Ht as <- _; apply ef_refl].
        fte_bind Ht ts' Hts. fte_bind Ht h' Hh'. injection Ht as <- _. cbn [i_h cx_h].
        eapply iupd_ef; [exact Hh'|]. intros m l0 E. discriminate E. }
      revert Hz. apply EBx_ef; [reflexivity|]. cbn [fist_s fi_s t_c i_h cx_h].
      eapply ef_trans; [exact Hc|]. eapply ef_trans; [|exact Hh]. apply snoc_ef. intros l0 E. discriminate E.
Qed.

Lemma parse_blockF_eb fs src lines c fs' : PBF fs src lines = Ok (c, fs') -> EB (zlen (fs_links fs')) (i_h c).
Proof.
  unfold parse_blockF. intros H. fte_bind H r Hr. fte_bind H x Hx. fte_bind H c1 Hc1. fte_bind H c2 Hc2.
  injection H as <- <-. apply parse_block_loopF_eb in Hx.
  - unfold EBx in Hx. pose proof (zlen_nonneg (fs_links (fi_f x))).
    apply process_delimiters_ef in Hc1. apply link_close_block_ef in Hc2.
    eapply EB_ef; [lia|exact Hc2|]. eapply EB_ef; [lia|exact Hc1|exact Hx].
  - unfold EBx. cbn [fi_s fi_f t_c]. apply EB_init. apply zlen_nonneg.
Qed.

End WithTables.
