(* Extraction of the executable models to OCaml.  ExtrOcamlBasic only: bool, option, unit,
   list, prod, sumbool, sumor are mapped to the OCaml types; N, Z, positive, nat stay as
   extracted inductives. No Extract Constant / Extract Inductive of our own. *)
Require Extraction.
Require Import ExtrOcamlBasic.
Require Import GM.model.Base GM.model.Util GM.model.UtilI GM.model.HtmlDecode.
Require Import GM.model.AstHeap GM.model.AstSpec.
Extraction Language OCaml.
Extraction "model.ml"
  IsPunct IsSpace EscapeHTML URLEscape UnescapePunctuations ResolveNumericReferences ResolveEntityNames
  TrimLeftSpace TrimRightSpace DoFullUnicodeCaseFolding ReplaceSpaces ToLinkReference ToRune
  html_decode valid_utf8 decode_rune encode_rune
  bytes_hash bf_empty bf_add bf_contains bf_extend
  empty_heap step empty_forest spec_step legal walk walk_spec head_opt last_opt.
