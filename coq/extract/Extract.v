(* Extraction of the executable models to OCaml.  ExtrOcamlBasic only: bool, option, unit,
   list, prod, sumbool, sumor are mapped to the OCaml types; N, Z, positive, nat stay as
   extracted inductives. No Extract Constant / Extract Inductive of our own. *)
Require Extraction.
Require Import ExtrOcamlBasic.
Require Import GM.model.Base GM.model.Util GM.model.UtilI GM.model.HtmlDecode.
Require Import GM.model.AstHeap GM.model.AstSpec.
Require Import GM.model.Reader GM.model.ReaderI.
Require Import GM.model.Prio GM.model.Bufio GM.model.Ids GM.model.HtmlWriter GM.model.Html GM.model.HtmlI GM.model.HtmlSpec GM.model.TableX GM.model.FootnoteX GM.model.Blocks GM.model.Refs GM.model.SliceHeap GM.model.SpecDoc GM.model.BlocksI GM.model.DelimI GM.model.RegexI GM.model.BlockParse GM.model.ParseI GM.model.ParseChecked GM.model.Attr GM.model.AttrI GM.model.HeadingIds.
Require Import GM.model.InlineParseX GM.model.GfmParse GM.model.GfmI GM.model.GfmChecked GM.model.GfmSpec.
Require Import GM.model.HeadingOpts GM.model.HeadingOptsI.
Require Import GM.model.FootnoteParse GM.model.FootnoteI.
Require Import GM.model.TypoDefParseT GM.model.TypoDefParseD GM.model.TypoDefParse GM.model.TypoDefI.
Extraction Language OCaml.
Extraction "model.ml"
  IsPunct IsSpace EscapeHTML URLEscape UnescapePunctuations ResolveNumericReferences ResolveEntityNames
  TrimLeftSpace TrimRightSpace DoFullUnicodeCaseFolding ReplaceSpaces ToLinkReference ToRune
  html_decode valid_utf8 decode_rune encode_rune
  bytes_hash bf_empty bf_add bf_contains bf_extend
  empty_heap step empty_forest spec_step legal walk walk_spec head_opt last_opt
  new_reader r_reset_position r_peek RPeekLine r_line_offset r_advance r_advance_line r_set_padding r_set_position
  r_advance_and_set_padding r_preceding RSkipBlankLines RSkipSpaces RReadRune RFindClosure r_value r_position
  new_block_reader b_reset_position b_peek b_peek_line b_line_offset b_advance b_advance_line b_set_padding b_set_position
  b_advance_and_set_padding b_preceding BSkipBlankLines BSkipSpaces BReadRune BFindClosure b_value b_position
  seg_value SegTrimRightSpace SegTrimLeftSpace seg_between
  block_candidates inline_table consult transformer_order renderer_table dispatch render_ktree
  new_dest new_bw bw_step bw_flush
  IdsGenerate put
  WriterWrite RawWrite SecureWrite RenderAttributes IsDangerousURL UrlValue browser_dangerous
  RenderHTML wf_tree text_ok
  TableTransform ParseDelimiter
  Footnotes BqProcess RefsAdd RefsLookup
  seg_value_h sl_bytes
  md_of html_of
  ListItemOpen ThematicBreakOpen AtxOpenR FenceOpenR FenceContinueR ScanDelimiter CodeSpanParse CodeBlockOpen CodeBlockContinue CodeBlockClose
  RegexFind ParseBlocksTree ParseTree ConvertModel ConvertModelC ParseLinesOk ParseAttributesR ConvertModelA
  ParseTreeX ConvertModelX ParseTreeGfm ConvertModelGfm ConvertModelXC ConvertModelGfmC GfmTablesOk
  ParseTreeH ConvertModelH
  ParseTreeFn ConvertModelFn
  ParseTreeTD ConvertModelTD TDRuneRanges.
