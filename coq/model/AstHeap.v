(* Pointer-level model of the intrusive tree of /repo/ast/ast.go (BaseNode link fields and
   mutators, after the fix: commit) and of ast.Walk.

   A heap is a record with one function per link field, so that a store to one field leaves
   the others syntactically untouched.  nil is None.  Dereferencing nil is Panic.
   The receiver `n` of every method is the BaseNode of `self`. *)
Require Import GM.model.Base.
Open Scope N_scope.

Definition id := N.
Definition oid := option id.

Record heap := {
  par : id -> oid;   (* BaseNode.parent *)
  fst_ : id -> oid;  (* BaseNode.firstChild *)
  lst : id -> oid;   (* BaseNode.lastChild *)
  nxt : id -> oid;   (* BaseNode.next *)
  prv : id -> oid;   (* BaseNode.prev *)
  cnt : id -> Z      (* BaseNode.childCount *)
}.

Definition upd {A} (f : id -> A) (k : id) (v : A) : id -> A :=
  fun x => if N.eqb x k then v else f x.

Definition set_par h k v := {| par := upd (par h) k v; fst_ := fst_ h; lst := lst h; nxt := nxt h; prv := prv h; cnt := cnt h |}.
Definition set_fst h k v := {| par := par h; fst_ := upd (fst_ h) k v; lst := lst h; nxt := nxt h; prv := prv h; cnt := cnt h |}.
Definition set_lst h k v := {| par := par h; fst_ := fst_ h; lst := upd (lst h) k v; nxt := nxt h; prv := prv h; cnt := cnt h |}.
Definition set_nxt h k v := {| par := par h; fst_ := fst_ h; lst := lst h; nxt := upd (nxt h) k v; prv := prv h; cnt := cnt h |}.
Definition set_prv h k v := {| par := par h; fst_ := fst_ h; lst := lst h; nxt := nxt h; prv := upd (prv h) k v; cnt := cnt h |}.
Definition set_cnt h k v := {| par := par h; fst_ := fst_ h; lst := lst h; nxt := nxt h; prv := prv h; cnt := upd (cnt h) k v |}.

Definition empty_heap : heap :=
  {| par := fun _ => None; fst_ := fun _ => None; lst := fun _ => None;
     nxt := fun _ => None; prv := fun _ => None; cnt := fun _ => 0%Z |}.

Definition oid_eqb (a b : oid) : bool :=
  match a, b with
  | None, None => true
  | Some x, Some y => N.eqb x y
  | _, _ => false
  end.

(* RemoveChild (ast.go:221) *)
Definition remove_child (h : heap) (self : id) (v : oid) : result heap :=
  match v with
  | None => Panic                      (* v.Parent() on a nil interface *)
  | Some v =>
    if negb (oid_eqb (par h v) (Some self)) then Ok h
    else
      let h := set_cnt h self (cnt h self - 1)%Z in
      let prev := prv h v in
      let next := nxt h v in
      let h := match prev with Some p => set_nxt h p next | None => set_fst h self next end in
      let h := match next with Some n => set_prv h n prev | None => set_lst h self prev end in
      let h := set_par h v None in
      let h := set_prv h v None in
      Ok (set_nxt h v None)
  end.

(* ensureIsolated (ast.go:189) *)
Definition ensure_isolated (h : heap) (v : oid) : result heap :=
  match v with
  | None => Panic
  | Some x => match par h x with
              | Some p => remove_child h p v
              | None => Ok h
              end
  end.

(* AppendChild (ast.go:314) *)
Definition append_child (h : heap) (self : id) (v : oid) : result heap :=
  h <- ensure_isolated h v ;;
  match v with
  | None => Panic
  | Some x =>
    h <- match fst_ h self with
         | None => Ok (set_prv (set_nxt (set_fst h self (Some x)) x None) x None)
         | Some _ =>
           match lst h self with
           | None => Panic            (* last.SetNextSibling(v) with last == nil *)
           | Some last => Ok (set_prv (set_nxt h last (Some x)) x (Some last))
           end
         end ;;
    let h := set_par h x (Some self) in
    let h := set_lst h self (Some x) in
    Ok (set_cnt h self (cnt h self + 1)%Z)
  end.

(* InsertBefore (ast.go, after the fix) *)
Definition insert_before (h : heap) (self : id) (v1 insertee : oid) : result heap :=
  match v1 with
  | None => append_child h self insertee
  | Some c =>
    if negb (oid_eqb (par h c) (Some self)) then append_child h self insertee
    else
      h <- ensure_isolated h insertee ;;
      match insertee with
      | None => Panic
      | Some x =>
        let h := set_cnt h self (cnt h self + 1)%Z in
        let prev := prv h c in
        let h := match prev with
                 | Some p => set_prv (set_nxt h p (Some x)) x (Some p)
                 | None => set_prv (set_fst h self (Some x)) x None
                 end in
        let h := set_nxt h x (Some c) in
        let h := set_prv h c (Some x) in
        Ok (set_par h x (Some self))
      end
  end.

(* InsertAfter (ast.go, after the fix) *)
Definition insert_after (h : heap) (self : id) (v1 insertee : oid) : result heap :=
  match v1 with
  | None => append_child h self insertee
  | Some c =>
    if negb (oid_eqb (par h c) (Some self)) then append_child h self insertee
    else
      h <- ensure_isolated h insertee ;;
      insert_before h self (nxt h c) insertee
  end.

(* ReplaceChild (ast.go, after the fix) *)
Definition replace_child (h : heap) (self : id) (v1 insertee : oid) : result heap :=
  h <- insert_before h self v1 insertee ;;
  match v1 with
  | None => Ok h
  | Some _ => remove_child h self v1
  end.

(* RemoveChildren (ast.go:244): walks the sibling chain; fuel bounds the chain length *)
Fixpoint remove_children_loop (fuel : nat) (h : heap) (c : oid) : result heap :=
  match c with
  | None => Ok h
  | Some x =>
    match fuel with
    | O => OutOfFuel
    | S f =>
      let h := set_par h x None in
      let h := set_prv h x None in
      let next := nxt h x in
      let h := set_nxt h x None in
      remove_children_loop f h next
    end
  end.
Definition remove_children (fuel : nat) (h : heap) (self : id) : result heap :=
  h <- remove_children_loop fuel h (fst_ h self) ;;
  Ok (set_cnt (set_lst (set_fst h self None) self None) self 0%Z).

(* SortChildren (ast.go:258): insertion sort on the linked list. cmp a b is the comparator. *)
Fixpoint sort_find (fuel : nat) (h : heap) (cmp : id -> id -> Z) (c current : id) : result id :=
  (* for c.NextSibling() != nil && comparator(c.NextSibling(), current) < 0 { c = c.NextSibling() } *)
  match fuel with
  | O => OutOfFuel
  | S f =>
    match nxt h c with
    | Some n => if (cmp n current <? 0)%Z then sort_find f h cmp n current else Ok c
    | None => Ok c
    end
  end.

Fixpoint sort_loop (fuel : nat) (h : heap) (cmp : id -> id -> Z) (sorted current : oid) : result (heap * oid) :=
  match current with
  | None => Ok (h, sorted)
  | Some cur =>
    match fuel with
    | O => OutOfFuel
    | S f =>
      let next := nxt h cur in
      let front := match sorted with None => true | Some s => (0 <=? cmp s cur)%Z end in
      if front then
        let h := set_nxt h cur sorted in
        let h := match sorted with Some s => set_prv h s (Some cur) | None => h end in
        let h := set_prv h cur None in
        sort_loop f h cmp (Some cur) next
      else
        match sorted with
        | None => Panic
        | Some s =>
          c <- sort_find fuel h cmp s cur ;;
          let h := set_nxt h cur (nxt h c) in
          let h := set_prv h cur (Some c) in
          let h := match nxt h c with Some n => set_prv h n (Some cur) | None => h end in
          let h := set_nxt h c (Some cur) in
          sort_loop f h cmp sorted next
        end
    end
  end.

Fixpoint last_of_chain (fuel : nat) (h : heap) (c : oid) (acc : oid) : result oid :=
  match c with
  | None => Ok acc
  | Some x => match fuel with O => OutOfFuel | S f => last_of_chain f h (nxt h x) (Some x) end
  end.

Definition sort_children (fuel : nat) (h : heap) (self : id) (cmp : id -> id -> Z) : result heap :=
  r <- sort_loop fuel h cmp None (fst_ h self) ;;
  let '(h, sorted) := r in
  let h := set_fst h self sorted in
  l <- last_of_chain fuel h sorted (lst h self) ;;
  Ok (set_lst h self l).

(* ---- operations as data, for histories ---- *)
Inductive op :=
| OAppend (self : id) (v : oid)
| OInsertBefore (self : id) (v1 x : oid)
| OInsertAfter (self : id) (v1 x : oid)
| OReplace (self : id) (v1 x : oid)
| ORemove (self : id) (v : oid)
| ORemoveChildren (self : id)
| OSort (self : id) (key : id -> Z).     (* comparator: compare keys *)

Definition cmp_of_key (key : id -> Z) (a b : id) : Z := (key a - key b)%Z.

Definition step (fuel : nat) (h : heap) (o : op) : result heap :=
  match o with
  | OAppend s v => append_child h s v
  | OInsertBefore s v1 x => insert_before h s v1 x
  | OInsertAfter s v1 x => insert_after h s v1 x
  | OReplace s v1 x => replace_child h s v1 x
  | ORemove s v => remove_child h s v
  | ORemoveChildren s => remove_children fuel h s
  | OSort s key => sort_children fuel h s (cmp_of_key key)
  end.

Fixpoint run (fuel : nat) (h : heap) (ops : list op) : result heap :=
  match ops with
  | [] => Ok h
  | o :: rest => h' <- step fuel h o ;; run fuel h' rest
  end.

(* ---- observers ---- *)
Fixpoint children_fwd (fuel : nat) (h : heap) (c : oid) : list id :=
  match c, fuel with
  | Some x, S f => x :: children_fwd f h (nxt h x)
  | _, _ => []
  end.
Fixpoint children_bwd (fuel : nat) (h : heap) (c : oid) : list id :=
  match c, fuel with
  | Some x, S f => x :: children_bwd f h (prv h x)
  | _, _ => []
  end.

(* ---- Walk (ast.go:498) ----
   The visitor is a function of (node, entering) and of the number of calls made so far
   (which lets a script assign any status to any visit); it returns (status, error?).
   Status: 1 = WalkStop, 2 = WalkSkipChildren, 3 = WalkContinue.  The result is the trace of
   visits, and the error flag Walk returns. *)
Definition visitor := nat -> id -> bool -> (N * bool).

Fixpoint walk_helper (fuel : nat) (h : heap) (v : visitor) (n : id) (tr : list (id * bool))
  : result (N * bool * list (id * bool)) :=
  match fuel with
  | O => OutOfFuel
  | S f =>
    let '(status, err) := v (length tr) n true in
    let tr := tr ++ [(n, true)] in
    if err || (status =? 1) then Ok (status, err, tr)
    else
      r <- (if status =? 2 then Ok (None, tr)
            else walk_children f h v (fst_ h n) tr) ;;
      match r with
      | (Some (st, e), tr) => Ok (st, e, tr)          (* return WalkStop, err *)
      | (None, tr) =>
        let '(status, err) := v (length tr) n false in
        if err || (status =? 1) then Ok (1, err, tr ++ [(n, false)])
        else Ok (3, false, tr ++ [(n, false)])
      end
  end
with walk_children (fuel : nat) (h : heap) (v : visitor) (c : oid) (tr : list (id * bool))
  : result (option (N * bool) * list (id * bool)) :=
  match fuel with
  | O => OutOfFuel
  | S f =>
    match c with
    | None => Ok (None, tr)
    | Some x =>
      r <- walk_helper f h v x tr ;;
      let '(st, err, tr) := r in
      if err || (st =? 1) then Ok (Some (1, err), tr)
      else walk_children f h v (nxt h x) tr
    end
  end.

Definition walk (fuel : nat) (h : heap) (v : visitor) (n : id) : result (bool * list (id * bool)) :=
  r <- walk_helper fuel h v n [] ;;
  let '(_, err, tr) := r in Ok (err, tr).
