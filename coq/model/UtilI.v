(* The util model instantiated with the tables dumped from the running code. *)
Require Import GM.model.Base GM.model.Util.
Require Import GM.gen.Tables GM.gen.Entities GM.gen.Folding.
Open Scope N_scope.

Definition IsPunct := is_punct punct_table.
Definition IsSpace := is_space space_table.
Definition EscapeHTML := escape_html html_escape_table.
Definition URLEscapeRaw := url_escape_raw url_escape_table utf8len_table.
Definition UnescapePunctuations := unescape_punct punct_table.
Definition ResolveNumericReferences := resolve_numeric.
Definition ResolveEntityNames := resolve_entities entities.
Definition URLEscape := url_escape url_escape_table utf8len_table punct_table entities.
Definition TrimLeftSpace (v : bytes) := trim_left v spaces.
Definition TrimRightSpace (v : bytes) := trim_right v spaces.
Definition DoFullUnicodeCaseFolding := case_fold case_foldings.
Definition ReplaceSpaces := replace_spaces space_table.
Definition ToLinkReference := to_link_reference space_table spaces case_foldings.
Definition ToRune := to_rune.

Require Import GM.model.Ids.
Definition IdsGenerate := generate utf8len_table space_table spaces.

Require Import GM.model.HtmlWriter.
Definition WriterWrite := writer_write html_escape_table punct_table entities.
Definition RawWrite := raw_write html_escape_table.
Definition SecureWrite := secure_write.
Definition RenderAttributes := render_attributes html_escape_table.
Definition IsDangerousURL := is_dangerous_url.
Definition UrlValue := url_value html_escape_table punct_table entities url_escape_table utf8len_table.

Require Import GM.model.Reader GM.model.Html GM.model.TableX.
Definition TableTransform := transform space_table.
Definition ParseDelimiter := parse_delimiter space_table.

Require Import GM.model.FootnoteX.
Definition Footnotes := footnotes.

Require Import GM.model.Blocks.
Definition BqProcess := bq_process_total.

Require Import GM.model.Refs.
Definition RefsAdd := add_reference ToLinkReference bytes.
Definition RefsLookup := reference ToLinkReference bytes.
