(* The L1 renderer instantiated with the tables and attribute allow-lists dumped from the code. *)
Require Import GM.model.Base GM.model.Util GM.model.Reader GM.model.HtmlWriter GM.model.Html.
Require Import GM.gen.Tables GM.gen.Entities GM.gen.Filters.

Definition RenderHTML := render html_escape_table punct_table entities url_escape_table utf8len_table
  f_global f_blockquote f_list f_listitem f_thematic f_link f_image f_table f_thead f_tr f_th f_td.
