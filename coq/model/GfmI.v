(* The GFM parser model instantiated with the tables and regular expressions regenerated from
   the code (gen/Tables.v, gen/Regexes.v, gen/Unicode.v through DelimI.v). *)
Require Import GM.model.Base GM.model.Util GM.model.UtilI GM.model.Reader GM.model.Regex GM.model.Html GM.model.HtmlI
               GM.model.DelimI GM.model.InlineParseX GM.model.GfmParse.
Require Import GM.gen.Tables GM.gen.Regexes.

(* parser.Parse of goldmark.New(goldmark.WithExtensions(...)) with the extensions selected by xc
   (all four: extension.GFM) *)
Definition ParseTreeX (xc : xcfg) (src : bytes) : result tree :=
  parse_treeX xc space_table punct_table ToLinkReference
    re_htmlBlockType1Open re_htmlBlockType1Close re_htmlBlockType2Open re_htmlBlockType3Open
    re_htmlBlockType4Open re_htmlBlockType5Open re_htmlBlockType6 re_htmlBlockType7 allowed_block_tags
    url_table email_table re_emailDomain re_openTag re_closeTag PunctRune SpaceRune
    re_taskList re_url re_wwwURL src.

Definition ConvertModelX (xc : xcfg) (cfg : rcfg) (src : bytes) : result bytes :=
  t <- ParseTreeX xc src ;;
  RenderHTML cfg src t.

Definition gfm_all : xcfg := {| x_strike := true; x_task := true; x_table := true; x_linkify := true |}.

(* goldmark.New(goldmark.WithExtensions(extension.GFM)): Parser().Parse and Convert *)
Definition ParseTreeGfm (src : bytes) : result tree := ParseTreeX gfm_all src.
Definition ConvertModelGfm (cfg : rcfg) (src : bytes) : result bytes := ConvertModelX gfm_all cfg src.
