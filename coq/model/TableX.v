(* Model of the table paragraph transformer of extension/table.go (isTableDelim, parseDelimiter,
   parseRow, Transform; after the fix: commit) (C17).  The four alignment regular expressions
   are modelled by hand:  \s* :? -+ :? \s*  with \s = TAB LF FF CR SPACE. *)
Require Import GM.model.Base GM.model.Util GM.model.Reader GM.model.Html.
From Coq Require Import ZArith.
Open Scope N_scope.

Section WithTables.
Variable space_table : list N.
Notation is_space := (is_space space_table).

(* regexp \s *)
Definition re_space (c : N) : bool := (c =? 9) || (c =? 10) || (c =? 12) || (c =? 13) || (c =? 32).

Fixpoint drop_while (p : N -> bool) (v : bytes) : bytes :=
  match v with c :: r => if p c then drop_while p r else v | [] => [] end.

(* one delimiter cell: None if it matches none of the four patterns *)
Definition delim_cell (col : bytes) : option align :=
  let v := drop_while re_space col in
  let '(lc, v) := match v with 58 :: r => (true, r) | _ => (false, v) end in
  let v' := drop_while (fun c => c =? 45) v in
  if Nat.eqb (length v') (length v) then None           (* no dash *)
  else
    let '(rc, v'') := match v' with 58 :: r => (true, r) | _ => (false, v') end in
    match drop_while re_space v'' with
    | [] => Some (if lc then (if rc then ACenter else ALeft) else (if rc then ARight else ANone))
    | _ => None
    end.

(* bytes.Split(line, "|") *)
Fixpoint split_pipe (v : bytes) (cur : bytes) : list bytes :=
  match v with
  | [] => [rev cur]
  | c :: r => if c =? 124 then rev cur :: split_pipe r [] else split_pipe r (c :: cur)
  end.

Fixpoint indent_width (v : bytes) (w : Z) : Z :=
  match v with
  | c :: r => if c =? 32 then indent_width r (w + 1)%Z
              else if c =? 9 then indent_width r (w + (4 - w mod 4))%Z else w
  | [] => w
  end.

Definition is_table_delim (v : bytes) : bool :=
  (indent_width v 0 <=? 3)%Z &&
  forallb (fun b => is_space b || (b =? 45) || (b =? 124) || (b =? 58)) v.

Definition blank (v : bytes) : bool := forallb is_space v.

Fixpoint all_some {A} (l : list (option A)) : option (list A) :=
  match l with
  | [] => Some []
  | Some x :: r => match all_some r with Some xs => Some (x :: xs) | None => None end
  | None :: _ => None
  end.

(* parseDelimiter: None = nil *)
Definition parse_delimiter (line : bytes) : option (list align) :=
  if negb (is_table_delim line) then None
  else
    let cols := split_pipe line [] in
    let cols := match cols with c0 :: r => if blank c0 then r else cols | [] => [] end in
    let cols := match rev cols with cl :: r => if blank cl then rev r else cols | [] => [] end in
    match all_some (map delim_cell cols) with
    | Some [] => None
    | r => r
    end.

(* the cell boundaries of a row: scan from pos for an unescaped '|' *)
Fixpoint find_closure_pipe (v : bytes) (i : Z) (prev : N) : Z :=
  (* index of the first '|' at or after i that is not preceded by a backslash; |v| end otherwise *)
  match v with
  | [] => i
  | c :: r => if (c =? 124) && negb (prev =? 92) then i else find_closure_pipe r (i + 1)%Z c
  end.

(* a cell of a parsed row: its trimmed segment (None for a padding cell) and its alignment *)
Definition cell := (option seg * align)%type.

Fixpoint parse_cells (fuel : nat) (src : bytes) (line : bytes) (base : Z) (pos limit : Z)
                     (aligns : list align) (is_header : bool) : result (list cell) :=
  match fuel with
  | O => OutOfFuel
  | S f =>
    if (pos <? limit)%Z then
      match aligns, is_header with
      | [], false => Ok []                                           (* excess cells of a body row are dropped *)
      | _, _ =>
        let a := match aligns with a :: _ => a | [] => ANone end in
        let prev := if (pos =? 0)%Z then 0 else nth (Z.to_nat (pos - 1)) line 0 in
        let closure := Z.min limit (find_closure_pipe (skipn (Z.to_nat pos) (firstn (Z.to_nat limit) line)) pos prev) in
        s1 <- seg_trim_left_space space_table src (mkseg (base + pos) (base + closure)) ;;
        s2 <- seg_trim_right_space space_table src s1 ;;
        rest <- parse_cells f src line base (closure + 1)%Z limit (tl aligns) is_header ;;
        Ok ((Some s2, a) :: rest)
      end
    else Ok (if is_header then [] else map (fun a => (None, ANone)) aligns)   (* padding: new cells have AlignNone *)
  end.

(* parseRow *)
Definition parse_row (src : bytes) (sg : seg) (aligns : list align) (is_header : bool) : result (list cell) :=
  s1 <- seg_trim_left_space space_table src sg ;;
  s2 <- seg_trim_right_space space_table src s1 ;;
  line <- seg_value src s2 ;;
  let n := zlen line in
  let pos := match line with 124 :: _ => 1%Z | _ => 0%Z end in
  let limit := match rev line with 124 :: _ => (n - 1)%Z | _ => n end in
  parse_cells (length line + 2) src line (s_start s2) pos limit aligns is_header.

Record table := { t_aligns : list align; t_header : list cell; t_rows : list (list cell) }.

Fixpoint parse_rows (src : bytes) (ls : list seg) (aligns : list align) : result (list (list cell)) :=
  match ls with
  | [] => Ok []
  | l :: r => row <- parse_row src l aligns false ;; rest <- parse_rows src r aligns ;; Ok (row :: rest)
  end.

(* Transform: scan the paragraph's lines for the first delimiter row (from the second line on).
   Result: None = the paragraph is left alone; Some (k, tbl) = the first k lines stay in the
   paragraph and the rest becomes the table. *)
Fixpoint transform_from (fuel : nat) (src : bytes) (before : list seg) (prev : seg) (rest : list seg)
  : result (option (list seg * table)) :=
  match fuel with
  | O => OutOfFuel
  | S f =>
    match rest with
    | [] => Ok None
    | cur :: after =>
      line <- seg_value src cur ;;
      match parse_delimiter line with
      | None => transform_from f src (before ++ [prev]) cur after
      | Some aligns =>
        header <- parse_row src prev aligns true ;;
        if negb (Nat.eqb (length aligns) (length header)) then Ok None
        else (rows <- parse_rows src after aligns ;;
              Ok (Some (before, {| t_aligns := aligns; t_header := header; t_rows := rows |})))
      end
    end
  end.

Definition transform (src : bytes) (lines : list seg) : result (option (list seg * table)) :=
  match lines with
  | l0 :: rest => transform_from (length lines + 1) src [] l0 rest
  | [] => Ok None
  end.

End WithTables.
