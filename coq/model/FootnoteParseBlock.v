(* Model of the block phase of parser.Parse with the block parser of the Footnote extension
   (extension/footnote.go footnoteBlockParser: trigger '[', priority 999, i.e. after the HTML
   block parser and before the paragraph parser) on top of the default parser: a generalised
   copy of the driver of model/BlockParse.v (parser.go closeBlocks, openBlocks, parseBlocks).

   The block parsers, their heap and their context are those of BlockParse.v.  The core model
   has no node kind and no parser tag for the two node kinds of the extension, so they are
   written with a kind whose parser never looks at its node (Blockquote; the block quote parser
   keeps no data in the node, b_i1 of a real block quote is 0):
       BBlockquote, b_i1 = 1   a Footnote node: b_seg = the segment of its label (Ref is the
                               value of that segment), b_i2 = Index (-1 at creation)
       BBlockquote, b_i1 = 2   the FootnoteList node
   and an opened Footnote block is recorded in the opened-blocks array with the tag PBlockquote:
   the driver below recognises it by its node (footnote nodes are created by footnote_open only
   and are pushed with that tag only).  The FootnoteList of the parse context
   (footnoteListKey) is kept next to the core state (bf_list). *)
Require Import GM.model.Base GM.model.Util GM.model.Reader GM.model.Blocks GM.model.ListItem
               GM.model.LeafBlocks GM.model.CodeBlock GM.model.LinkDest GM.model.Regex
               GM.model.BlockParse.
From Coq Require Import ZArith.
Open Scope Z_scope.

Record stf := { bf_s : st; bf_list : option nat }.
Definition stf_s x v := {| bf_s := v; bf_list := bf_list x |}.
Definition liftF {A} (x : stf) (r : result (st * A)) : result (stf * A) :=
  y <- r ;; Ok (stf_s x (fst y), snd y).
Definition lift0F (x : stf) (r : result st) : result stf := s <- r ;; Ok (stf_s x s).

Definition fn_footnote := 1.
Definition fn_list := 2.
Definition is_footnote_node (n : bnode) : bool := bkind_eqb (bk n) BBlockquote && (b_i1 n =? fn_footnote).
Definition is_fnlist_node (n : bnode) : bool := bkind_eqb (bk n) BBlockquote && (b_i1 n =? fn_list).
Definition is_footnote (h : heap) (i : nat) : result bool := n <- hget h i ;; Ok (is_footnote_node n).

(* ast.BaseNode.InsertBefore(self, ref, new) / AppendChild(self, new) with ensureIsolated *)
Fixpoint insert_before_id (x y : nat) (l : list nat) : list nat :=
  match l with [] => [y] | z :: t => if Nat.eqb x z then y :: z :: t else z :: insert_before_id x y t end.
Definition detach (h : heap) (c : nat) : result heap :=
  n <- hget h c ;;
  match bpar n with
  | None => Ok h
  | Some p => remove_child h p c
  end.
Definition append_child_iso (h : heap) (p c : nat) : result heap :=
  h <- detach h c ;; append_child h p c.
Definition insert_before (h : heap) (p ref new : nat) : result heap :=
  r <- hget h ref ;;
  if opt_nat_eqb (bpar r) (Some p) then
    h <- detach h new ;;
    h <- hupd h p (fun m => set_ch m (insert_before_id ref new (bch m))) ;;
    hupd h new (fun m => set_par m (Some p))
  else append_child_iso h p new.

Section WithTables.
Variable space_table punct_table : list N.
Variable norm : bytes -> bytes.
Variable re_t1o re_t1c re_t2 re_t3 re_t4 re_t5 re_t6 re_t7 : re.
Variable allowed_tags : list bytes.
Notation is_blank := (Reader.is_blank space_table).
Notation is_punct := (is_punct punct_table).
Notation p_open := (p_open space_table re_t1o re_t2 re_t3 re_t4 re_t5 re_t6 re_t7 allowed_tags).
Notation p_continue := (p_continue space_table re_t1c).
Notation p_close := (p_close space_table).
Notation transform_paragraph := (transform_paragraph space_table punct_table norm).

(* util.FindClosure(bs, opener, closure, false, false): the index of the closing character, -1
   when there is none or an opener comes first; a backslash skips a punctuation character *)
Fixpoint find_closure_plain (fuel : nat) (bs : bytes) (i : Z) (opener closure : N) : Z :=
  match fuel with
  | O => -1
  | S f =>
    match bs with
    | [] => -1
    | c :: rest =>
      match rest with
      | c2 :: rest2 =>
        if N.eqb c 92 && is_punct c2 then find_closure_plain f rest2 (i + 2) opener closure
        else if N.eqb c closure then i
        else if N.eqb c opener then -1
        else find_closure_plain f rest (i + 1) opener closure
      | [] =>
        if N.eqb c closure then i else -1
      end
    end
  end.
Definition find_closure_bytes (bs : bytes) (opener closure : N) : Z :=
  find_closure_plain (S (length bs)) bs 0 opener closure.

(* ---- footnoteBlockParser ---- *)
Definition footnote_open (s : st) : result (st * open_res) :=
  x <- peek_line_s s ;;
  let '(s, line, sg) := x in
  let line := line_of line in
  let pos := c_boff (s_c s) in
  if pos <? 0 then Ok (s, None)
  else
    c <- at_ line pos ;;
    if negb (N.eqb c 91) then Ok (s, None)
    else
      let pos := pos + 1 in
      if zlen line - 1 <? pos then Ok (s, None)
      else
        c <- at_ line pos ;;
        if negb (N.eqb c 94) then Ok (s, None)
        else
          let open := pos + 1 in
          let closure := find_closure_bytes (zskip (pos + 1) line) 91%N 93%N in
          let closes := pos + 1 + closure in
          let next := closes + 1 in
          if closure <? 0 then Ok (s, None)
          else if zlen line <=? next then Ok (s, None)
          else
            c <- at_ line next ;;
            if negb (N.eqb c 58) then Ok (s, None)
            else
              let padding := s_pad sg in
              let lseg := mkseg (s_start sg + open - padding) (s_start sg + closes - padding) in
              label <- r_value (s_r s) lseg ;;
              if is_blank label then Ok (s, None)
              else
                let '(s, id) := new_node s (set_seg (set_i2 (mknode BBlockquote fn_footnote) (-1)) (Some lseg)) in
                let pos := next + 1 - padding in
                if zlen line <=? pos then
                  s <- advance_s s pos ;; Ok (s, Some (id, false, false))
                else
                  r <- r_advance_and_set_padding (s_r s) pos padding ;;
                  Ok (st_r s r, Some (id, true, false)).

(* Continue: true = Continue|HasChildren, false = Close *)
Definition footnote_continue (s : st) : result (st * bool) :=
  x <- peek_line_s s ;;
  let '(s, line, _) := x in
  let line := line_of line in
  if is_blank line then Ok (s, true)
  else
    y <- line_offset_s s ;;
    let '(s, off) := y in
    let '(childpos, padding) := indent_position line off 4 in
    if childpos <? 0 then Ok (s, false)
    else
      r <- r_advance_and_set_padding (s_r s) childpos padding ;;
      Ok (st_r s r, true).

(* Close: the footnote moves to the FootnoteList; the first footnote that closes creates the
   list at its own place *)
Definition footnote_close (x : stf) (node : nat) : result stf :=
  let s := bf_s x in
  n <- hget (s_h s) node ;;
  match bpar n with
  | None => Panic                                    (* node.Parent().InsertBefore / RemoveChild on nil *)
  | Some p =>
    y <- match bf_list x with
         | Some l => Ok (s, l)
         | None =>
           let '(s, l) := new_node s (mknode BBlockquote fn_list) in
           h <- insert_before (s_h s) p node l ;;
           Ok (st_h s h, l)
         end ;;
    let '(s, l) := y in
    h <- remove_child (s_h s) p node ;;
    h <- append_child_iso h l node ;;
    Ok {| bf_s := st_h s h; bf_list := Some l |}
  end.

(* ---- dispatch: the block parser table with the footnote parser ---- *)
Inductive bparserF := FCore (p : bparser) | FFootnote.
Definition tag_of (p : bparserF) : bparser := match p with FCore p => p | FFootnote => PBlockquote end.
Definition can_interrupt_paragraphF (p : bparserF) : bool :=
  match p with FCore p => can_interrupt_paragraph p | FFootnote => true end.
Definition can_accept_indentedF (p : bparserF) : bool :=
  match p with FCore p => can_accept_indented p | FFootnote => false end.
Definition free_parsersF := map FCore free_parsers.
Definition candidatesF (c : N) : list bparserF :=
  if N.eqb c 91 then FFootnote :: free_parsersF else map FCore (candidates c).

Definition p_openF (p : bparserF) (x : stf) (parent : nat) : result (stf * open_res) :=
  match p with
  | FCore p => liftF x (p_open p (bf_s x) parent)
  | FFootnote => liftF x (footnote_open (bf_s x))
  end.
Definition p_continueF (tag : bparser) (x : stf) (node : nat) : result (stf * bool * bool) :=
  isf <- is_footnote (s_h (bf_s x)) node ;;
  if isf then (y <- footnote_continue (bf_s x) ;; Ok (stf_s x (fst y), snd y, true))
  else (y <- p_continue tag (bf_s x) node ;; let '(s, cont, kids) := y in Ok (stf_s x s, cont, kids)).
Definition p_closeF (tag : bparser) (x : stf) (node : nat) : result stf :=
  isf <- is_footnote (s_h (bf_s x)) node ;;
  if isf then footnote_close x node else lift0F x (p_close tag (bf_s x) node).

(* ---- parser.go ---- *)
Definition transform_paragraphF (x : stf) (node : nat) : result (stf * bool) :=
  liftF x (transform_paragraph (bf_s x) node).

(* closeBlocks(from, to) *)
Fixpoint close_rangeF (x : stf) (blocks : list (nat * bparser)) (cnt : nat) (i : Z) : result stf :=
  match cnt with
  | O => Ok x
  | S k =>
    if (i <? 0) || (zlen blocks <=? i) then Panic
    else
      match nth_error blocks (Z.to_nat i) with
      | None => Panic
      | Some (node, p) =>
        isp <- is_paragraph (s_h (bf_s x)) node ;;
        att <- attached (s_h (bf_s x)) node ;;
        x <- (if isp && att then (y <- transform_paragraphF x node ;; Ok (fst y)) else Ok x) ;;
        att <- attached (s_h (bf_s x)) node ;;
        x <- (if att then p_closeF p x node else Ok x) ;;
        close_rangeF x blocks k (i - 1)
      end
  end.
Definition close_blocksF (x : stf) (from to : Z) : result stf :=
  let blocks := opened (s_c (bf_s x)) in
  x <- close_rangeF x blocks (Z.to_nat (from - to + 1)) from ;;
  let s := bf_s x in
  let c := s_c s in
  let n := Z.of_nat (c_len c) in
  if from =? n - 1 then
    if (to <? 0) || (n <? to) then Panic
    else Ok (stf_s x (st_c s (cset_open c (c_arr c) (Z.to_nat to))))
  else
    if (to <? 0) || (from + 1 <? to) || (n <? from + 1) then Panic
    else
      let moved := zskip (from + 1) (firstn (c_len c) (c_arr c)) in
      let newlen := (Z.to_nat to + length moved)%nat in
      Ok (stf_s x (st_c s (cset_open c (zfirst to (c_arr c) ++ moved ++ skipn newlen (c_arr c)) newlen))).

Inductive try_resF :=
| TRetryF (parent : nat) (continuable : bool) (res : Z) (x : stf)
| TDoneF (res : Z) (x : stf).

Fixpoint try_parsersF (bps : list bparserF) (parent : nat) (blank continuable : bool) (res : Z)
                      (w : Z) (x : stf) : result try_resF :=
  match bps with
  | [] => Ok (TDoneF res x)
  | bp :: rest =>
    if continuable && (res =? noBlocksOpened) && negb (can_interrupt_paragraphF bp) then
      try_parsersF rest parent blank continuable res w x
    else if (3 <? w) && negb (can_accept_indentedF bp) then
      try_parsersF rest parent blank continuable res w x
    else
      let last_block := last_opened (s_c (bf_s x)) in
      y <- p_openF bp x parent ;;
      let '(x, o) := y in
      match o with
      | None => try_parsersF rest parent blank continuable res w x
      | Some (node, has_children, require_para) =>
        r <- (if require_para then
                match last_block with
                | None => Ok (inl x)
                | Some (last, lp) =>
                  pn <- hget (s_h (bf_s x)) parent ;;
                  if opt_nat_eqb (Some last) (last_id (bch pn)) then
                    x <- p_closeF lp x last ;;
                    let s := bf_s x in
                    let c := s_c s in
                    (if Nat.eqb (c_len c) 0 then Panic
                     else
                       let s := st_c s (cset_open c (c_arr c) (pred (c_len c))) in
                       t <- transform_paragraphF (stf_s x s) last ;;
                       let '(x, gone) := t in
                       if gone then Ok (inr x) else Ok (inl x))
                  else Ok (inl x)
                end
              else Ok (inl x)) ;;
        match r with
        | inr x => Ok (TRetryF parent false res x)
        | inl x =>
          h <- hupd (s_h (bf_s x)) node (fun n => set_blank n blank) ;;
          let x := stf_s x (st_h (bf_s x) h) in
          x <- match last_block with
               | None => Ok x
               | Some (last, _) =>
                 att <- attached (s_h (bf_s x)) last ;;
                 if negb att then
                   let lp := Z.of_nat (c_len (s_c (bf_s x))) - 1 in close_blocksF x lp lp
                 else Ok x
               end ;;
          h <- append_child (s_h (bf_s x)) parent node ;;
          let s := bf_s x in
          let x := stf_s x (st_c (st_h s h) (push_opened (s_c s) (node, tag_of bp))) in
          if has_children then Ok (TRetryF node continuable newBlocksOpened x)
          else Ok (TDoneF newBlocksOpened x)
        end
      end
  end.

Fixpoint open_blocks_loopF (fuel : nat) (parent : nat) (blank continuable : bool) (res : Z)
                           (x : stf) : result (Z * bool * stf) :=
  match fuel with
  | O => OutOfFuel
  | S f =>
    y <- peek_line_s (bf_s x) ;;
    let '(s, line, _) := y in
    z <- line_offset_s s ;;
    let '(s, off) := z in
    let l := line_of line in
    let '(w, pos) := Blocks.indent_width l off in
    let s := st_c s (if zlen l <=? w then cset_off (s_c s) (-1) (-1) else cset_off (s_c s) pos w) in
    let x := stf_s x s in
    let skip := match line with None => true | Some [] => true
                              | Some (c :: _) => N.eqb c 10 end in
    if skip then Ok (res, continuable, x)
    else
      let bps := if pos <? zlen l then candidatesF (nth_byte l pos) else free_parsersF in
      t <- try_parsersF bps parent blank continuable res w x ;;
      match t with
      | TRetryF parent continuable res x => open_blocks_loopF f parent blank continuable res x
      | TDoneF res x => Ok (res, continuable, x)
      end
  end.

Definition open_blocksF (fuel : nat) (parent : nat) (blank : bool) (x : stf) : result (Z * stf) :=
  let last_block := last_opened (s_c (bf_s x)) in
  cont <- match last_block with None => Ok false | Some (l, _) => is_paragraph (s_h (bf_s x)) l end ;;
  y <- open_blocks_loopF fuel parent blank cont noBlocksOpened x ;;
  let '(res, continuable, x) := y in
  if (res =? noBlocksOpened) && continuable then
    match last_opened (s_c (bf_s x)) with
    | None => Panic
    | Some (l, lp) =>
      z <- p_continueF lp x l ;;
      let '(x, cont, _) := z in
      Ok (if cont then paragraphContinuation else res, x)
    end
  else Ok (res, x).

Definition advance_line_f (x : stf) : stf := stf_s x (advance_line_s (bf_s x)).

Fixpoint each_openedF (fuel : nat) (captured : list (nat * bparser)) (root : nat) (i : Z) (last_index : Z)
                      (stats : list (Z * Z * bool)) (x : stf) : result ((stf + stf) * list (Z * Z * bool)) :=
  match fuel with
  | O => OutOfFuel
  | S f =>
    if last_index <? i then Ok (inr x, stats)
    else
      match nth_error captured (Z.to_nat i) with
      | None => Panic
      | Some (node, bp) =>
        y <- peek_line_s (bf_s x) ;;
        let '(s, line, _) := y in
        let x := stf_s x s in
        match line with
        | None =>
          x <- close_blocksF x last_index 0 ;;
          Ok (inl (advance_line_f x), stats)
        | Some line =>
          let line_num := rline (bf_s x) in
          let stats := (line_num, i, is_blank line) :: stats in
          isp <- is_paragraph (s_h (bf_s x)) node ;;
          c <- (if negb isp then p_continueF bp x node else Ok (x, false, false)) ;;
          let '(x, cont, kids) := c in
          if cont then
            if kids && (i =? last_index) then
              let blank := is_blank_line (line_num - 1) i stats in
              o <- open_blocksF (2 * length line + 8) node blank x ;;
              Ok (inr (snd o), stats)
            else each_openedF f captured root (i + 1) last_index stats x
          else
            let blank := is_blank_line (line_num - 1) i stats in
            this_parent <- (if i =? 0 then Ok root
                            else match nth_error captured (Z.to_nat (i - 1)) with
                                 | Some (p, _) => Ok p | None => Panic end) ;;
            last_node <- match nth_error captured (Z.to_nat last_index) with
                         | Some (p, _) => Ok p | None => Panic end ;;
            o <- open_blocksF (2 * length line + 8) this_parent blank x ;;
            let '(res, x) := o in
            if negb (res =? paragraphContinuation) then
              now_last <- match nth_error (c_arr (s_c (bf_s x))) (Z.to_nat last_index) with
                          | Some (p, _) => Ok p | None => Panic end ;;
              let last_index := if Nat.eqb now_last last_node then last_index else last_index - 1 in
              x <- close_blocksF x last_index i ;;
              Ok (inr x, stats)
            else Ok (inr x, stats)
        end
      end
  end.

Fixpoint lines_loopF (fuel : nat) (root : nat) (stats : list (Z * Z * bool)) (x : stf)
  : result ((stf + stf) * list (Z * Z * bool)) :=
  match fuel with
  | O => OutOfFuel
  | S f =>
    let captured := opened (s_c (bf_s x)) in
    match captured with
    | [] => Ok (inr x, stats)
    | _ =>
      y <- each_openedF (S (length captured)) captured root 0 (zlen captured - 1) stats x ;;
      let '(r, stats) := y in
      match r with
      | inl x => Ok (inl x, stats)
      | inr x => lines_loopF f root stats (advance_line_f x)
      end
    end
  end.

Fixpoint parse_blocks_loopF (fuel : nat) (root : nat) (stats : list (Z * Z * bool)) (x : stf) : result stf :=
  match fuel with
  | O => OutOfFuel
  | S f =>
    let s := bf_s x in
    y <- r_skip_blank_lines space_table (S (length (src_of s))) (s_r s) ;;
    let '(r, _, lines, ok) := y in
    let s := st_r s r in
    let x := stf_s x s in
    if negb ok then Ok x
    else
      let line_num := rline s in
      let stats := if negb (lines =? 0)
                   then rev (map (fun i => (line_num - 1, Z.of_nat i, true)) (seq 0 (c_len (s_c s))))
                   else stats in
      let blank := is_blank_line (line_num - 1) 0 stats in
      o <- open_blocksF (2 * length (src_of s) + 8) root blank x ;;
      let '(res, x) := o in
      if negb (res =? newBlocksOpened) then Ok x
      else
        let x := advance_line_f x in
        y <- lines_loopF (S (length (src_of (bf_s x)))) root stats x ;;
        let '(r, stats) := y in
        match r with
        | inl x => Ok x
        | inr x => parse_blocks_loopF f root stats x
        end
  end.

Definition parse_blocksF (src : bytes) : result stf :=
  let s := {| s_h := [mknode BDocument 0]; s_c := init_ctx; s_r := new_reader src |} in
  parse_blocks_loopF (S (length src)) 0%nat [] {| bf_s := s; bf_list := None |}.

End WithTables.
