(* Life-cycle model of a Markdown / Parser / Renderer triple (markdown.go, parser.go Parse,
   renderer.go Render) for C06: pending configuration, once-only freezing of the dispatch
   tables at first use, and per-call fresh context, reader and writer.  The parse and render
   functions are parameters: by gen/Access.v (accesses_ok) no component, configuration or
   package-level variable is written after the freeze, so a call is a function of the frozen
   tables and its arguments only. *)
Require Import GM.model.Base.

Section Inst.
Variables config ptables rtables tree : Type.
Variable freeze_p : config -> ptables.
Variable freeze_r : config -> rtables.
(* Parse creates a fresh Context (refs, ids, footnote lists, typographer counters, ...) and a
   fresh BlockReader on every call *)
Variable parse_with : ptables -> bytes -> tree.
(* Render wraps the destination in a fresh bufio.Writer on every call and does not alter the tree *)
Variable render_with : rtables -> bytes -> tree -> bytes.

Record inst := { i_cfg : config; i_ptab : option ptables; i_rtab : option rtables }.
Definition new_inst (c : config) : inst := {| i_cfg := c; i_ptab := None; i_rtab := None |}.

Inductive call :=
| CConvert (src : bytes)
| CParse (src : bytes)
| CRender (src : bytes) (t : tree).
Inductive out := OBytes (b : bytes) | OTree (t : tree).

Definition ptab (i : inst) : ptables := match i_ptab i with Some t => t | None => freeze_p (i_cfg i) end.
Definition rtab (i : inst) : rtables := match i_rtab i with Some t => t | None => freeze_r (i_cfg i) end.

Definition step (i : inst) (c : call) : inst * out :=
  match c with
  | CParse src =>
      ({| i_cfg := i_cfg i; i_ptab := Some (ptab i); i_rtab := i_rtab i |}, OTree (parse_with (ptab i) src))
  | CRender src t =>
      ({| i_cfg := i_cfg i; i_ptab := i_ptab i; i_rtab := Some (rtab i) |}, OBytes (render_with (rtab i) src t))
  | CConvert src =>
      ({| i_cfg := i_cfg i; i_ptab := Some (ptab i); i_rtab := Some (rtab i) |},
       OBytes (render_with (rtab i) src (parse_with (ptab i) src)))
  end.

Definition run (i : inst) (h : list call) : inst := fold_left (fun i c => fst (step i c)) h i.
End Inst.
