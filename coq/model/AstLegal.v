(* The proviso of C13 as a proposition: node arguments are not nil, no node is inserted
   into its own subtree or relative to itself. *)
Require Import GM.model.Base GM.model.AstHeap GM.model.AstSpec.
Open Scope N_scope.

(* anc f a x: a is x or an ancestor of x *)
Inductive anc (f : forest) : id -> id -> Prop :=
| anc_refl x : anc f x x
| anc_step a x p : pa f x = Some p -> anc f a p -> anc f a x.

Definition LegalInsert (f : forest) (s : id) (r : oid) (x : id) : Prop :=
  ~ anc f x s /\ r <> Some x.

Definition Legal (f : forest) (o : op) : Prop :=
  match o with
  | OAppend s (Some x) => LegalInsert f s None x
  | OInsertBefore s r (Some x) => LegalInsert f s r x
  | OInsertAfter s r (Some x) => LegalInsert f s r x
  | OReplace s r (Some x) => LegalInsert f s r x
  | ORemove s (Some x) => True
  | ORemoveChildren s => True
  | OSort s key => True
  | _ => False
  end.

(* fuel only bounds the sibling chains walked by RemoveChildren and SortChildren (the
   insertion sort walks the sorted prefix once per element: twice the child count suffices) *)
Definition fuel_ok (fuel : nat) (f : forest) (o : op) : Prop :=
  match o with
  | ORemoveChildren s | OSort s _ => (2 * length (ch f s) < fuel)%nat
  | _ => True
  end.

Fixpoint LegalRun (fuel : nat) (f : forest) (ops : list op) : Prop :=
  match ops with
  | [] => True
  | o :: rest => Legal f o /\ fuel_ok fuel f o /\ LegalRun fuel (spec_step f o) rest
  end.

Definition spec_run (f : forest) (ops : list op) : forest := fold_left spec_step ops f.
