(* Model of the block phase of parser.Parse for the default (CommonMark core) configuration:
   parser/parser.go parseBlocks / openBlocks / closeBlocks / isBlankLine / transformParagraph,
   the ten default block parsers (setext_headings.go, thematic_break.go, list.go, list_item.go,
   code_block.go, atx_heading.go without the Attribute/AutoHeadingID options, fcode_block.go,
   blockquote.go, html_block.go, paragraph.go) and the link reference definition paragraph
   transformer (link_ref.go), transcribed function by function (after the fix: commits).

   The AST under construction is a heap of nodes addressed by number, like the pointer
   structure of the Go code; the opened-blocks slice of the context is a backing array plus a
   length, because openBlocks relies on overwriting the captured slice (parser.go
   "openedBlocks[lastIndex].Node != lastNode").  Model assumption, stated once: appending to
   that slice never reallocates between the capture at the head of the inner loop of
   parseBlocks and that test (it does not for the default parsers: the only shrink-then-append
   sequence is the RequireParagraph one, at the captured length). *)
Require Import GM.model.Base GM.model.Util GM.model.Reader GM.model.Blocks GM.model.ListItem
               GM.model.LeafBlocks GM.model.CodeBlock GM.model.LinkDest GM.model.Regex.
From Coq Require Import ZArith.
Open Scope Z_scope.

Inductive bkind := BDocument | BBlockquote | BList | BListItem | BParagraph | BTextBlock | BHeading
                 | BThematicBreak | BCodeBlock | BFenced | BHTML.
Inductive bparser := PSetext | PThematic | PList | PListItem | PCodeBlock | PATX | PFenced
                   | PBlockquote | PHTML | PParagraph.

Definition bkind_eqb (a b : bkind) : bool :=
  match a, b with
  | BDocument, BDocument | BBlockquote, BBlockquote | BList, BList | BListItem, BListItem
  | BParagraph, BParagraph | BTextBlock, BTextBlock | BHeading, BHeading
  | BThematicBreak, BThematicBreak | BCodeBlock, BCodeBlock | BFenced, BFenced | BHTML, BHTML => true
  | _, _ => false
  end.

(* b_i1: Heading level / List marker / ListItem offset / HTML block type;  b_i2: List start
   (-1: none set, i.e. the zero value 0 is kept);  b_seg: fenced info / HTML closure line *)
Record bnode := { bk : bkind; bpar : option nat; bch : list nat; blines : list seg; bblank : bool;
                  b_i1 : Z; b_i2 : Z; b_tight : bool; b_seg : option seg }.
Definition mknode (k : bkind) (i1 : Z) : bnode :=
  {| bk := k; bpar := None; bch := []; blines := []; bblank := false; b_i1 := i1; b_i2 := 0; b_tight := true; b_seg := None |}.
Definition set_par n v := {| bk := bk n; bpar := v; bch := bch n; blines := blines n; bblank := bblank n; b_i1 := b_i1 n; b_i2 := b_i2 n; b_tight := b_tight n; b_seg := b_seg n |}.
Definition set_ch n v := {| bk := bk n; bpar := bpar n; bch := v; blines := blines n; bblank := bblank n; b_i1 := b_i1 n; b_i2 := b_i2 n; b_tight := b_tight n; b_seg := b_seg n |}.
Definition set_lines n v := {| bk := bk n; bpar := bpar n; bch := bch n; blines := v; bblank := bblank n; b_i1 := b_i1 n; b_i2 := b_i2 n; b_tight := b_tight n; b_seg := b_seg n |}.
Definition set_blank n v := {| bk := bk n; bpar := bpar n; bch := bch n; blines := blines n; bblank := v; b_i1 := b_i1 n; b_i2 := b_i2 n; b_tight := b_tight n; b_seg := b_seg n |}.
Definition set_i2 n v := {| bk := bk n; bpar := bpar n; bch := bch n; blines := blines n; bblank := bblank n; b_i1 := b_i1 n; b_i2 := v; b_tight := b_tight n; b_seg := b_seg n |}.
Definition set_tight n v := {| bk := bk n; bpar := bpar n; bch := bch n; blines := blines n; bblank := bblank n; b_i1 := b_i1 n; b_i2 := b_i2 n; b_tight := v; b_seg := b_seg n |}.
Definition set_seg n v := {| bk := bk n; bpar := bpar n; bch := bch n; blines := blines n; bblank := bblank n; b_i1 := b_i1 n; b_i2 := b_i2 n; b_tight := b_tight n; b_seg := v |}.

Definition heap := list bnode.
Definition hget (h : heap) (i : nat) : result bnode :=
  match nth_error h i with Some n => Ok n | None => Panic end.
Fixpoint hset (h : heap) (i : nat) (n : bnode) : heap :=
  match h, i with
  | [], _ => []
  | _ :: t, O => n :: t
  | x :: t, S k => x :: hset t k n
  end.
Definition hupd (h : heap) (i : nat) (f : bnode -> bnode) : result heap :=
  n <- hget h i ;; Ok (hset h i (f n)).
Definition halloc (h : heap) (n : bnode) : heap * nat := (h ++ [n], length h).

Fixpoint remove_id (x : nat) (l : list nat) : list nat :=
  match l with [] => [] | y :: t => if Nat.eqb x y then t else y :: remove_id x t end.
Fixpoint replace_id (x y : nat) (l : list nat) : list nat :=
  match l with [] => [] | z :: t => if Nat.eqb x z then y :: t else z :: replace_id x y t end.
Fixpoint insert_after_id (x y : nat) (l : list nat) : list nat :=
  match l with [] => [y] | z :: t => if Nat.eqb x z then z :: y :: t else z :: insert_after_id x y t end.
Definition opt_nat_eqb (a b : option nat) : bool :=
  match a, b with Some x, Some y => Nat.eqb x y | None, None => true | _, _ => false end.
Definition last_id (l : list nat) : option nat := match rev l with x :: _ => Some x | [] => None end.

(* ast.BaseNode.AppendChild / RemoveChild / ReplaceChild / InsertAfter for a fresh (detached)
   new node and a reference that is a child of the parent *)
Definition append_child (h : heap) (p c : nat) : result heap :=
  h <- hupd h c (fun n => set_par n (Some p)) ;;
  hupd h p (fun n => set_ch n (bch n ++ [c])).
Definition remove_child (h : heap) (p c : nat) : result heap :=
  n <- hget h c ;;
  if opt_nat_eqb (bpar n) (Some p) then
    h <- hupd h p (fun m => set_ch m (remove_id c (bch m))) ;;
    hupd h c (fun m => set_par m None)
  else Ok h.
Definition replace_child (h : heap) (p old new : nat) : result heap :=
  n <- hget h old ;;
  if opt_nat_eqb (bpar n) (Some p) then
    h <- hupd h p (fun m => set_ch m (replace_id old new (bch m))) ;;
    h <- hupd h new (fun m => set_par m (Some p)) ;;
    hupd h old (fun m => set_par m None)
  else Ok h.
Definition insert_after (h : heap) (p ref new : nat) : result heap :=
  h <- hupd h p (fun m => set_ch m (insert_after_id ref new (bch m))) ;;
  hupd h new (fun m => set_par m (Some p)).

(* the parse context *)
Record pctx := {
  c_arr : list (nat * bparser);          (* backing array of the opened blocks *)
  c_len : nat;                           (* len(pc.OpenedBlocks()) *)
  c_boff : Z; c_bind : Z;                (* BlockOffset, BlockIndent *)
  c_refs : list (bytes * (bytes * option bytes));   (* normalised label -> destination, title *)
  c_skip_list : bool;                    (* skipListParserKey *)
  c_empty_item : bool;                   (* emptyListItemWithBlankLines *)
  c_fence : option (N * Z * Z * nat);    (* fencedCodeBlockInfoKey: char, indent, length, node *)
  c_tmp_para : option nat                (* temporaryParagraphKey *)
}.
Definition cset_open c a l := {| c_arr := a; c_len := l; c_boff := c_boff c; c_bind := c_bind c; c_refs := c_refs c; c_skip_list := c_skip_list c; c_empty_item := c_empty_item c; c_fence := c_fence c; c_tmp_para := c_tmp_para c |}.
Definition cset_off c o i := {| c_arr := c_arr c; c_len := c_len c; c_boff := o; c_bind := i; c_refs := c_refs c; c_skip_list := c_skip_list c; c_empty_item := c_empty_item c; c_fence := c_fence c; c_tmp_para := c_tmp_para c |}.
Definition cset_refs c v := {| c_arr := c_arr c; c_len := c_len c; c_boff := c_boff c; c_bind := c_bind c; c_refs := v; c_skip_list := c_skip_list c; c_empty_item := c_empty_item c; c_fence := c_fence c; c_tmp_para := c_tmp_para c |}.
Definition cset_skip c v := {| c_arr := c_arr c; c_len := c_len c; c_boff := c_boff c; c_bind := c_bind c; c_refs := c_refs c; c_skip_list := v; c_empty_item := c_empty_item c; c_fence := c_fence c; c_tmp_para := c_tmp_para c |}.
Definition cset_empty c v := {| c_arr := c_arr c; c_len := c_len c; c_boff := c_boff c; c_bind := c_bind c; c_refs := c_refs c; c_skip_list := c_skip_list c; c_empty_item := v; c_fence := c_fence c; c_tmp_para := c_tmp_para c |}.
Definition cset_fence c v := {| c_arr := c_arr c; c_len := c_len c; c_boff := c_boff c; c_bind := c_bind c; c_refs := c_refs c; c_skip_list := c_skip_list c; c_empty_item := c_empty_item c; c_fence := v; c_tmp_para := c_tmp_para c |}.
Definition cset_tmp c v := {| c_arr := c_arr c; c_len := c_len c; c_boff := c_boff c; c_bind := c_bind c; c_refs := c_refs c; c_skip_list := c_skip_list c; c_empty_item := c_empty_item c; c_fence := c_fence c; c_tmp_para := v |}.

Definition opened (c : pctx) : list (nat * bparser) := firstn (c_len c) (c_arr c).
(* append(pc.OpenedBlocks(), be): in place *)
Definition push_opened (c : pctx) (be : nat * bparser) : pctx :=
  cset_open c (firstn (c_len c) (c_arr c) ++ [be] ++ skipn (S (c_len c)) (c_arr c)) (S (c_len c)).
Definition last_opened (c : pctx) : option (nat * bparser) :=
  match c_len c with O => None | S k => nth_error (c_arr c) k end.

Record st := { s_h : heap; s_c : pctx; s_r : reader }.
Definition st_h s v := {| s_h := v; s_c := s_c s; s_r := s_r s |}.
Definition st_c s v := {| s_h := s_h s; s_c := v; s_r := s_r s |}.
Definition st_r s v := {| s_h := s_h s; s_c := s_c s; s_r := v |}.

Fixpoint contains_sub (pat s : bytes) : bool :=
  match s with
  | [] => match pat with [] => true | _ => false end
  | _ :: tl => prefix_of pat s || contains_sub pat tl
  end.
Definition lower_ascii (v : bytes) : bytes :=
  map (fun c => if ((65 <=? c) && (c <=? 90))%N then (c + 32)%N else c) v.
Fixpoint count_in (set : bytes) (l : bytes) : Z :=
  match l with c :: r => if existsb (N.eqb c) set then 1 + count_in set r else 0 | [] => 0 end.
Fixpoint atoi (l : bytes) (acc : Z) : Z :=
  match l with c :: r => atoi r (acc * 10 + (Z.of_N c - 48)) | [] => acc end.

Section WithTables.
Variable space_table punct_table : list N.
Variable norm : bytes -> bytes.           (* util.ToLinkReference *)
Variable re_t1o re_t1c re_t2 re_t3 re_t4 re_t5 re_t6 re_t7 : re.
Variable allowed_tags : list bytes.
Notation is_space := (is_space space_table).
Notation is_blank := (Reader.is_blank space_table).
Notation trim_left_space_len := (trim_left_space_len space_table).
Notation trim_right_space_len := (trim_right_space_len space_table).

Definition peek_line_s (s : st) : result (st * option bytes * seg) :=
  x <- r_peek_line (s_r s) ;;
  let '(r, l, sg) := x in Ok (st_r s r, l, sg).
Definition line_offset_s (s : st) : result (st * Z) :=
  x <- r_line_offset (s_r s) ;; let '(r, o) := x in Ok (st_r s r, o).
Definition advance_s (s : st) (n : Z) : result st := r <- r_advance (s_r s) n ;; Ok (st_r s r).
Definition src_of (s : st) : bytes := r_src (s_r s).
Definition is_paragraph (h : heap) (i : nat) : result bool := n <- hget h i ;; Ok (bkind_eqb (bk n) BParagraph).
Definition new_node (s : st) (n : bnode) : st * nat := let '(h, i) := halloc (s_h s) n in (st_h s h, i).
Definition line_of (l : option bytes) : bytes := match l with Some v => v | None => [] end.

(* ---------------- link reference definitions (link_ref.go) ---------------- *)
Fixpoint concat_values (r : breader) (l : list seg) : result bytes :=
  match l with
  | [] => Ok []
  | s :: t => v <- b_value r s ;; w <- concat_values r t ;; Ok (v ++ w)
  end.
Definition link_fc_opts := {| o_codespan := false; o_nesting := false; o_newline := true; o_advance := true |}.
Definition bfuel (r : breader) : nat := length (b_src r) + length (b_segs r) + 8.

(* parseLinkDestination over a block reader (model/LinkDest.v works on the peeked line) *)
Definition b_parse_link_destination (r : breader) : result (breader * option bytes) :=
  x <- b_skip_spaces space_table (bfuel r) r ;;
  let '(r, _, _, _) := x in
  y <- b_peek_line r ;;
  let '(r, line, _) := y in
  match parse_link_destination space_table punct_table (line_of line) with
  | Some (d, adv) => r <- b_advance r adv ;; Ok (r, Some d)
  | None => Ok (r, None)
  end.

Definition add_ref (c : pctx) (label dest : bytes) (title : option bytes) : pctx :=
  let key := norm label in
  if existsb (fun e => bytes_eqb (fst e) key) (c_refs c) then c
  else cset_refs c (c_refs c ++ [(key, (dest, title))]).

(* parseLinkReferenceDefinition: (start, end) line numbers, (-1, -1) when there is none *)
Definition parse_lrd (r : breader) (c : pctx) : result (breader * pctx * Z * Z) :=
  let none r := Ok (r, c, -1, -1) in
  x <- b_skip_spaces space_table (bfuel r) r ;;
  let '(r, _, _, _) := x in
  y <- b_peek_line r ;;
  let '(r, line, _) := y in
  match line with
  | None => none r
  | Some line =>
    let start_line := b_line r in
    let '(width, pos) := indent_width line 0 in
    if 3 <? width then none r
    else
      let pos := if negb (width =? 0) then pos + 1 else pos in
      ch <- at_ line pos ;;
      if negb (N.eqb ch 91) then none r
      else
        r <- b_advance r (pos + 1) ;;
        z <- b_find_closure punct_table (bfuel r) r 91%N 93%N link_fc_opts ;;
        let '(r, segs) := z in
        match segs with
        | None => none r
        | Some segs =>
          label <- concat_values r segs ;;
          if is_blank label then none r
          else
            pk <- b_peek r ;;
            if negb (N.eqb pk 58) then none r
            else
              r <- b_advance r 1 ;;
              x2 <- b_skip_spaces space_table (bfuel r) r ;;
              let '(r, _, _, _) := x2 in
              d <- b_parse_link_destination r ;;
              let '(r, dest) := d in
              match dest with
              | None => none r
              | Some dest =>
                y2 <- b_peek_line r ;;
                let '(r, line2, _) := y2 in
                let is_new_line := match line2 with None => true | Some l => is_blank l end in
                let end_line := b_line r in
                x3 <- b_skip_spaces space_table (bfuel r) r ;;
                let '(r, _, spaces, _) := x3 in
                opener <- b_peek r ;;
                if negb (N.eqb opener 34 || N.eqb opener 39 || N.eqb opener 40) then
                  if negb is_new_line then none r
                  else Ok (r, add_ref c label dest None, start_line, end_line + 1)
                else if spaces =? 0 then none r
                else
                  r <- b_advance r 1 ;;
                  let closer := if N.eqb opener 40 then 41%N else opener in
                  z2 <- b_find_closure punct_table (bfuel r) r opener closer link_fc_opts ;;
                  let '(r, tsegs) := z2 in
                  match tsegs with
                  | None =>
                    if negb is_new_line then none r
                    else (r <- b_advance_line r ;; Ok (r, add_ref c label dest None, start_line, end_line + 1))
                  | Some tsegs =>
                    title <- concat_values r tsegs ;;
                    y3 <- b_peek_line r ;;
                    let '(r, line3, _) := y3 in
                    match line3 with
                    | Some l3 =>
                      if negb (is_blank l3) then
                        if negb is_new_line then none r
                        else Ok (r, add_ref c label dest None, start_line, end_line)
                      else Ok (r, add_ref c label dest (Some title), start_line, b_line r + 1)
                    | None => Ok (r, add_ref c label dest (Some title), start_line, b_line r + 1)
                    end
                  end
              end
        end
  end.

Fixpoint lrd_loop (fuel : nat) (r : breader) (c : pctx) (removes : list (Z * Z)) : result (pctx * list (Z * Z)) :=
  match fuel with
  | O => OutOfFuel
  | S f =>
    x <- parse_lrd r c ;;
    let '(r, c, a, b) := x in
    if -1 <? a then lrd_loop f r c (removes ++ [(a, if a =? b then b + 1 else b)])
    else Ok (c, removes)
  end.

(* the line surgery of Transform: Sliced / SetSliced / AppendAll *)
Fixpoint apply_removes (removes : list (Z * Z)) (lines : list seg) (offset : Z) : result (list seg) :=
  match removes with
  | [] => Ok lines
  | (a, b) :: rest =>
    match lines with
    | [] => Ok lines
    | _ =>
      let lo := b - offset in
      let k := a - offset in
      if (lo <? 0) || (zlen lines <? lo) || (k <? 0) || (zlen lines <? k) then Panic
      else apply_removes rest (zfirst k lines ++ zskip lo lines) b
    end
  end.

(* linkReferenceParagraphTransformer.Transform *)
Definition lrd_transform (s : st) (node : nat) : result st :=
  n <- hget (s_h s) node ;;
  br <- new_block_reader (src_of s) (blines n) ;;
  x <- lrd_loop (length (src_of s) + length (blines n) + 2) br (s_c s) [] ;;
  let '(c, removes) := x in
  let s := st_c s c in
  lines <- apply_removes removes (blines n) 0 ;;
  match lines with
  | [] =>
    let '(s, t) := new_node s (set_blank (mknode BTextBlock 0) (bblank n)) in
    match bpar n with
    | None => Panic                                  (* node.Parent().ReplaceChild on nil *)
    | Some p => h <- replace_child (s_h s) p node t ;; Ok (st_h s h)
    end
  | _ => h <- hupd (s_h s) node (fun m => set_lines m lines) ;; Ok (st_h s h)
  end.

(* transformParagraph: true when the paragraph has been detached *)
Definition transform_paragraph (s : st) (node : nat) : result (st * bool) :=
  s <- lrd_transform s node ;;
  n <- hget (s_h s) node ;;
  Ok (s, match bpar n with None => true | Some _ => false end).

(* ---------------- the block parsers ---------------- *)
(* what Open returns: the new node (allocated, detached), HasChildren, RequireParagraph *)
Definition open_res := option (nat * bool * bool).

(* --- paragraph.go --- *)
Definition paragraph_open (s : st) : result (st * open_res) :=
  x <- peek_line_s s ;;
  let '(s, _, sg) := x in
  sg <- seg_trim_left_space space_table (src_of s) sg ;;
  if seg_is_empty sg then Ok (s, None)
  else
    let '(s, id) := new_node s (set_lines (mknode BParagraph 0) [sg]) in
    s <- advance_s s (seg_len sg - 1) ;;
    Ok (s, Some (id, false, false)).
(* Continue: true = Continue|NoChildren, false = Close *)
Definition paragraph_continue (s : st) (node : nat) : result (st * bool) :=
  x <- peek_line_s s ;;
  let '(s, line, sg) := x in
  if is_blank (line_of line) then Ok (s, false)
  else
    h <- hupd (s_h s) node (fun n => set_lines n (blines n ++ [sg])) ;;
    s <- advance_s (st_h s h) (seg_len sg - 1) ;;
    Ok (s, true).
Fixpoint map_res {A B} (f : A -> result B) (l : list A) : result (list B) :=
  match l with [] => Ok [] | x :: t => y <- f x ;; r <- map_res f t ;; Ok (y :: r) end.
Definition paragraph_close (s : st) (node : nat) : result st :=
  n <- hget (s_h s) node ;;
  match blines n with
  | [] =>
    match bpar n with
    | None => Panic
    | Some p => h <- remove_child (s_h s) p node ;; Ok (st_h s h)
    end
  | ls =>
    ls <- map_res (seg_trim_left_space space_table (src_of s)) ls ;;
    match rev ls with
    | [] => Panic
    | lst :: pre =>
      lst <- seg_trim_right_space space_table (src_of s) lst ;;
      h <- hupd (s_h s) node (fun m => set_lines m (rev pre ++ [lst])) ;;
      Ok (st_h s h)
    end
  end.

(* --- thematic_break.go --- *)
Definition thematic_open (s : st) : result (st * open_res) :=
  x <- peek_line_s s ;;
  let '(s, line, sg) := x in
  y <- line_offset_s s ;;
  let '(s, off) := y in
  if is_thematic_break space_table (line_of line) off then
    s <- advance_s s (seg_len sg - 1) ;;
    let '(s, id) := new_node s (mknode BThematicBreak 0) in
    Ok (s, Some (id, false, false))
  else Ok (s, None).

(* --- atx_heading.go (Attribute and AutoHeadingID off) --- *)
Definition atx_open_s (s : st) : result (st * open_res) :=
  x <- peek_line_s s ;;
  let '(s, line, sg) := x in
  a <- atx_open space_table (line_of line) (c_boff (s_c s)) ;;
  match a with
  | None => Ok (s, None)
  | Some (level, body) =>
    let lines := match body with
                 | None => []
                 | Some (a, b) => [mkseg (s_start sg + a - s_pad sg) (s_start sg + b - s_pad sg)]
                 end in
    let '(s, id) := new_node s (set_lines (mknode BHeading level) lines) in
    Ok (s, Some (id, false, false))
  end.

(* --- fcode_block.go --- *)
Definition fenced_open (s : st) : result (st * open_res) :=
  x <- peek_line_s s ;;
  let '(s, line, sg) := x in
  a <- fence_open space_table (line_of line) (c_boff (s_c s)) ;;
  match a with
  | None => Ok (s, None)
  | Some (ch, indent, flen, info) =>
    let iseg := match info with
                | None => None
                | Some (a, b) =>
                  let st_ := s_start sg - s_pad sg + a in
                  let sp_ := s_start sg - s_pad sg + b in
                  if st_ =? sp_ then None else Some (mkseg st_ sp_)
                end in
    let '(s, id) := new_node s (set_seg (mknode BFenced 0) iseg) in
    Ok (st_c s (cset_fence (s_c s) (Some (ch, indent, flen, id))), Some (id, false, false))
  end.
Definition fenced_continue (s : st) (node : nat) : result (st * bool) :=
  match c_fence (s_c s) with
  | None => Panic
  | Some (ch, indent, flen, _) =>
    p <- peek_line_s s ;;
    let '(s, _, sg) := p in
    x <- fence_continue_r space_table (s_r s) ch indent flen ;;
    let '(closed, ln, r) := x in
    let s := st_r s r in
    if closed then Ok (s, false)
    else
      match ln with
      | None => Panic
      | Some (start, padding) =>
        let l := {| s_start := start; s_stop := s_stop sg; s_pad := padding; s_fnl := true |} in
        h <- hupd (s_h s) node (fun n => set_lines n (blines n ++ [l])) ;;
        Ok (st_h s h, true)
      end
  end.
Definition fenced_close (s : st) (node : nat) : result st :=
  match c_fence (s_c s) with
  | None => Panic
  | Some (_, _, _, n) => Ok (if Nat.eqb n node then st_c s (cset_fence (s_c s) None) else s)
  end.

(* --- code_block.go --- *)
Definition code_open (s : st) : result (st * open_res) :=
  x <- code_block_open space_table (s_r s) ;;
  match x with
  | None => Ok (s, None)
  | Some (sg, r) =>
    let '(s, id) := new_node (st_r s r) (set_lines (mknode BCodeBlock 0) [sg]) in
    Ok (s, Some (id, false, false))
  end.
Definition code_continue (s : st) (node : nat) : result (st * bool) :=
  x <- code_block_continue space_table (s_r s) ;;
  match x with
  | inr _ => Ok (s, false)
  | inl (sg, r) =>
    h <- hupd (s_h s) node (fun n => set_lines n (blines n ++ [sg])) ;;
    Ok (st_r (st_h s h) r, true)
  end.
Definition code_close (s : st) (node : nat) : result st :=
  n <- hget (s_h s) node ;;
  ls <- code_block_close space_table (src_of s) (blines n) ;;
  h <- hupd (s_h s) node (fun m => set_lines m ls) ;;
  Ok (st_h s h).

(* --- blockquote.go --- *)
Definition bq_open (s : st) : result (st * open_res) :=
  x <- bq_process_total (s_r s) ;;
  let '(r, ok) := x in
  let s := st_r s r in
  if ok then (let '(s, id) := new_node s (mknode BBlockquote 0) in Ok (s, Some (id, true, false)))
  else Ok (s, None).
(* Continue: Some true = Continue|HasChildren, None = Close *)
Definition bq_continue (s : st) : result (st * bool) :=
  x <- bq_process_total (s_r s) ;;
  let '(r, ok) := x in Ok (st_r s r, ok).

(* --- setext_headings.go --- *)
Definition matches_setext_bar (line : bytes) : result (option N) :=
  let space := count_in [32%N] line in
  if 3 <? space then Ok None
  else
    let start := space in
    let rest := zskip start line in
    let level1 := count_in [61%N] rest in
    let level2 := if level1 =? 0 then count_in [45%N] rest else 0 in
    let c := if level1 =? 0 then 45%N else 61%N in
    lastc <- at_ line (zlen line - 1) ;;
    let e := if is_space lastc then zlen line - trim_right_space_len rest else zlen line in
    if ((0 <? level1) && (start + level1 =? e)) || ((0 <? level2) && (start + level2 =? e))
    then Ok (Some c) else Ok None.

Definition setext_open (s : st) (parent : nat) : result (st * open_res) :=
  match last_opened (s_c s) with
  | None => Ok (s, None)
  | Some (last, _) =>
    ln <- hget (s_h s) last ;;
    if negb (bkind_eqb (bk ln) BParagraph && opt_nat_eqb (bpar ln) (Some parent)) then Ok (s, None)
    else
      x <- peek_line_s s ;;
      let '(s, line, sg) := x in
      m <- matches_setext_bar (line_of line) ;;
      match m with
      | None => Ok (s, None)
      | Some c =>
        let level := if N.eqb c 45 then 2 else 1 in
        let '(s, id) := new_node s (set_lines (mknode BHeading level) [sg]) in
        Ok (st_c s (cset_tmp (s_c s) (Some last)), Some (id, false, true))
      end
  end.

Definition setext_close (s : st) (node : nat) : result st :=
  n <- hget (s_h s) node ;;
  match blines n, c_tmp_para (s_c s) with
  | [], _ => Panic                                    (* node.Lines().At(0) *)
  | _, None => Panic                                  (* the type assertion on pc.Get *)
  | sg :: _, Some tmp =>
    h <- hupd (s_h s) node (fun m => set_lines m []) ;;
    let s := st_c (st_h s h) (cset_tmp (s_c s) None) in
    t <- hget (s_h s) tmp ;;
    match blines t with
    | [] =>
      match bpar n with
      | None => Panic
      | Some p =>
        pn <- hget (s_h s) p ;;
        (* heading.NextSibling() *)
        let next := (fix nx (l : list nat) : option nat :=
                       match l with
                       | x :: ((y :: _) as tl) => if Nat.eqb x node then Some y else nx tl
                       | _ => None
                       end) (bch pn) in
        sg <- seg_trim_left_space space_table (src_of s) sg ;;
        is_para <- match next with None => Ok false | Some y => is_paragraph (s_h s) y end ;;
        s <- (if is_para then
                match next with
                | Some y => h <- hupd (s_h s) y (fun m => match blines m with [] => m | _ => set_lines m (sg :: blines m) end) ;;
                            ny <- hget (s_h s) y ;;
                            match blines ny with [] => Panic | _ => Ok (st_h s h) end
                | None => Panic
                end
              else
                let '(s, para) := new_node s (set_lines (mknode BParagraph 0) [sg]) in
                h <- insert_after (s_h s) p node para ;; Ok (st_h s h)) ;;
        h <- remove_child (s_h s) p node ;;
        Ok (st_h s h)
      end
    | tl =>
      h <- hupd (s_h s) node (fun m => set_blank (set_lines m tl) (bblank t)) ;;
      match bpar t with
      | None => Ok (st_h s h)
      | Some tp => h <- remove_child h tp tmp ;; Ok (st_h s h)
      end
    end
  end.

(* --- html_block.go --- *)
Definition sub_bytes (line : bytes) (a b : Z) : bytes := zfirst (b - a) (zskip a line).
Definition tag_allowed (t : bytes) : bool := existsb (bytes_eqb t) allowed_tags.
Definition t_script := [115;99;114;105;112;116]%N.
Definition t_style := [115;116;121;108;101]%N.
Definition t_pre := [112;114;101]%N.

Definition html_open (s : st) : result (st * open_res) :=
  x <- peek_line_s s ;;
  let '(s, line, sg) := x in
  let line := line_of line in
  let pos := c_boff (s_c s) in
  if pos <? 0 then Ok (s, None)
  else
    c <- at_ line pos ;;
    if negb (N.eqb c 60) then Ok (s, None)
    else
      last_is_para <- match last_opened (s_c s) with
                      | None => Ok false
                      | Some (l, _) => is_paragraph (s_h s) l
                      end ;;
      let typ :=
        if re_match re_t1o line then 1
        else if re_match re_t2 line then 2
        else if re_match re_t3 line then 3
        else if re_match re_t4 line then 4
        else if re_match re_t5 line then 5
        else
          let t7 :=
            match re_find re_t7 line with
            | Some caps =>
              let is_close := match cap_at caps 1 with
                              | Some (a, b) => bytes_eqb (sub_bytes line a b) [47%N]
                              | None => false
                              end in
              let has_attr := match cap_at caps 3 with Some (a, b) => negb (a =? b) | None => false end in
              let tag := match cap_at caps 2 with Some (a, b) => lower_ascii (sub_bytes line a b) | None => [] end in
              if tag_allowed tag then 6
              else if negb (bytes_eqb tag t_script) && negb (bytes_eqb tag t_style) && negb (bytes_eqb tag t_pre)
                      && negb last_is_para && negb (is_close && has_attr) then 7
              else 0
            | None => 0
            end in
          if negb (t7 =? 0) then t7
          else
            match re_find re_t6 line with
            | Some caps =>
              let tag := match cap_at caps 1 with Some (a, b) => lower_ascii (sub_bytes line a b) | None => [] end in
              if tag_allowed tag then 6 else 0
            | None => 0
            end in
      if typ =? 0 then Ok (s, None)
      else
        s <- advance_s s (seg_len sg - trim_right_space_len line) ;;
        let '(s, id) := new_node s (set_lines (mknode BHTML typ) [sg]) in
        Ok (s, Some (id, false, false)).

Definition html_continue (s : st) (node : nat) : result (st * bool) :=
  n <- hget (s_h s) node ;;
  x <- peek_line_s s ;;
  let '(s, line, sg) := x in
  let line := line_of line in
  let typ := b_i1 n in
  let consume (s : st) := advance_s s (seg_len sg - trim_right_space_len line) in
  let closes (v : bytes) : bool :=
    if typ =? 1 then re_match re_t1c v
    else if typ =? 2 then contains_sub [45;45;62]%N v
    else if typ =? 3 then contains_sub [63;62]%N v
    else if typ =? 4 then contains_sub [62]%N v
    else contains_sub [93;93;62]%N v in
  if (1 <=? typ) && (typ <=? 5) then
    first_closes <- match blines n with
                    | [fl] => v <- seg_value (src_of s) fl ;; Ok (closes v)
                    | _ => Ok false
                    end ;;
    if first_closes then Ok (s, false)
    else if closes line then
      h <- hupd (s_h s) node (fun m => set_seg m (Some sg)) ;;
      s <- consume (st_h s h) ;;
      Ok (s, false)
    else
      h <- hupd (s_h s) node (fun m => set_lines m (blines m ++ [sg])) ;;
      s <- consume (st_h s h) ;;
      Ok (s, true)
  else if is_blank line then Ok (s, false)
  else
    h <- hupd (s_h s) node (fun m => set_lines m (blines m ++ [sg])) ;;
    s <- consume (st_h s h) ;;
    Ok (s, true).

(* --- list.go --- *)
Definition matches_list_item (line : bytes) (strict : bool) : lmatch * N :=
  let '(m, typ) := parse_list_item line in
  if negb (N.eqb typ 0) && (negb strict || (m1 m <? 4)) then (m, typ) else (m, 0%N).
(* lastOffset(node): Offset of the last child, 0 without children *)
Definition last_offset (h : heap) (node : nat) : result Z :=
  n <- hget h node ;;
  match last_id (bch n) with
  | None => Ok 0
  | Some c => cn <- hget h c ;; if bkind_eqb (bk cn) BListItem then Ok (b_i1 cn) else Panic
  end.
Definition is_ordered_marker (m : Z) : bool := (m =? 46) || (m =? 41).

Definition list_open (s : st) (parent : nat) : result (st * open_res) :=
  last <- match last_opened (s_c s) with
          | None => Ok None
          | Some (l, _) => n <- hget (s_h s) l ;; Ok (Some (l, n))
          end ;;
  let last_is_list := match last with Some (_, n) => bkind_eqb (bk n) BList | None => false end in
  if last_is_list || c_skip_list (s_c s) then Ok (st_c s (cset_skip (s_c s) false), None)
  else
    x <- peek_line_s s ;;
    let '(s, line, _) := x in
    let line := line_of line in
    let '(m, typ) := matches_list_item line true in
    if N.eqb typ 0 then Ok (s, None)
    else
      let start := if N.eqb typ 2 then atoi (sub_bytes line (m2 m) (m3 m - 1)) 0 else -1 in
      let interrupts_bad :=
        match last with
        | Some (_, n) =>
          if bkind_eqb (bk n) BParagraph && opt_nat_eqb (bpar n) (Some parent) then
            (N.eqb typ 2 && negb (start =? 1)) ||
            ((m4 m <? 0) || is_blank (sub_bytes line (m4 m) (m5 m)))
          else false
        | None => false
        end in
      if interrupts_bad then Ok (s, None)
      else
        mk <- at_ line (m3 m - 1) ;;
        let nd := mknode BList (Z.of_N mk) in
        let nd := if -1 <? start then set_i2 nd start else nd in
        let '(s, id) := new_node s nd in
        Ok (st_c s (cset_empty (s_c s) false), Some (id, true, false)).

(* Continue: 0 = Close, 1 = Continue|HasChildren *)
Definition child_count (h : heap) (i : nat) : result Z := n <- hget h i ;; Ok (zlen (bch n)).
Definition list_continue (s : st) (node : nat) : result (st * bool) :=
  n <- hget (s_h s) node ;;
  x <- peek_line_s s ;;
  let '(s, line, _) := x in
  let line := line_of line in
  lastc <- match last_id (bch n) with Some c => Ok c | None => Panic end ;;
  lcc <- child_count (s_h s) lastc ;;
  if is_blank line then
    Ok (if lcc =? 0 then st_c s (cset_empty (s_c s) true) else s, true)
  else
    offset <- last_offset (s_h s) node ;;
    let last_is_empty := lcc =? 0 in
    y <- line_offset_s s ;;
    let '(s, off) := y in
    let indent := fst (indent_width line off) in
    let after (s : st) : result (st * bool) :=
      if last_is_empty && (indent <? offset) then Ok (s, false)
      else if c_empty_item (s_c s) then Ok (s, false)
      else Ok (s, true) in
    if (indent <? offset) || last_is_empty then
      let '(m, typ) := matches_list_item line false in
      if (indent <? 4) && negb (N.eqb typ 0) && (m1 m - offset <? 4) then
        mk <- at_ line (m3 m - 1) ;;
        if negb ((Z.of_N mk =? b_i1 n) && Bool.eqb (N.eqb typ 2) (is_ordered_marker (b_i1 n))) then Ok (s, false)
        else
          let tail := zskip (m3 m - 1) line in
          if is_thematic_break space_table tail 0 then
            last_para <- match last_opened (s_c s) with
                         | None => Ok false
                         | Some (l, _) => is_paragraph (s_h s) l
                         end ;;
            bar <- (if last_para then matches_setext_bar tail else Ok None) ;;
            let is_heading := match bar with Some c => N.eqb c 45 | None => false end in
            if negb is_heading then Ok (s, false) else Ok (s, true)
          else Ok (s, true)
      else if negb last_is_empty then Ok (s, false)
      else after s
    else after s.

Definition list_close (s : st) (node : nat) : result st :=
  n <- hget (s_h s) node ;;
  let h := s_h s in
  (* tightness *)
  tight <- (fix go (cs : list nat) (first : bool) (tight : bool) : result bool :=
              match cs with
              | [] => Ok tight
              | c :: rest =>
                if negb tight then Ok false
                else
                  cn <- hget h c ;;
                  inner <- match bch cn with
                           | _ :: ((_ :: _) as others) =>
                             (fix any (l : list nat) : result bool :=
                                match l with
                                | [] => Ok false
                                | g :: tl => gn <- hget h g ;; if bblank gn then Ok true else any tl
                                end) others
                           | _ => Ok false
                           end ;;
                  let tight := if inner then false else tight in
                  let tight := if negb first && bblank cn then false else tight in
                  go rest false tight
              end) (bch n) true (b_tight n) ;;
  h <- hupd h node (fun m => set_tight m tight) ;;
  let s := st_h s h in
  if negb tight then Ok s
  else
    (* paragraphs of the items become text blocks *)
    (fix items (cs : list nat) (s : st) : result st :=
       match cs with
       | [] => Ok s
       | c :: rest =>
         cn <- hget (s_h s) c ;;
         s <- (fix kids (gs : list nat) (s : st) : result st :=
                 match gs with
                 | [] => Ok s
                 | g :: tl =>
                   gn <- hget (s_h s) g ;;
                   if bkind_eqb (bk gn) BParagraph then
                     let '(s, t) := new_node s (set_lines (mknode BTextBlock 0) (blines gn)) in
                     h <- replace_child (s_h s) c g t ;;
                     kids tl (st_h s h)
                   else kids tl s
                 end) (bch cn) s ;;
         items rest s
       end) (bch n) s.

(* --- list_item.go --- *)
Definition list_item_open_s (s : st) (parent : nat) : result (st * open_res) :=
  pn <- hget (s_h s) parent ;;
  if negb (bkind_eqb (bk pn) BList) then Ok (s, None)
  else
    offset <- last_offset (s_h s) parent ;;
    x <- list_item_open space_table offset (s_r s) ;;
    match x with
    | None => Ok (s, None)
    | Some (node_offset, r, children) =>
      let s := st_c (st_r s r) (cset_empty (s_c s) false) in
      let '(s, id) := new_node s (mknode BListItem node_offset) in
      Ok (s, Some (id, children, false))
    end.

Definition list_item_continue (s : st) (node : nat) : result (st * bool) :=
  n <- hget (s_h s) node ;;
  x <- peek_line_s s ;;
  let '(s, line, _) := x in
  let line := line_of line in
  if is_blank line then
    s <- advance_s s (zlen line - 1) ;; Ok (s, true)
  else
    p <- match bpar n with Some p => Ok p | None => Panic end ;;
    offset <- last_offset (s_h s) p ;;
    let is_empty := (zlen (bch n) =? 0) && c_empty_item (s_c s) in
    y <- line_offset_s s ;;
    let '(s, off) := y in
    let indent := fst (indent_width line off) in
    let go_on (s : st) : result (st * bool) :=
      let '(pos, padding) := indent_position line off offset in
      r <- r_advance_and_set_padding (s_r s) pos padding ;;
      Ok (st_r s r, true) in
    if (is_empty || (indent <? offset)) && (indent <? 4) then
      let '(_, typ) := matches_list_item line true in
      if negb (N.eqb typ 0) then Ok (st_c s (cset_skip (s_c s) true), false)
      else if negb is_empty then Ok (s, false)
      else go_on s
    else go_on s.

(* ---------------- dispatch ---------------- *)
Definition can_interrupt_paragraph (p : bparser) : bool :=
  match p with PCodeBlock | PParagraph => false | _ => true end.
Definition can_accept_indented (p : bparser) : bool :=
  match p with PCodeBlock => true | _ => false end.

(* p.blockParsers[c] (priority order, then the free parsers), nil -> the free parsers *)
Definition free_parsers := [PCodeBlock; PParagraph].
Definition candidates (c : N) : list bparser :=
  let trig :=
    (if (N.eqb c 45 || N.eqb c 61) then [PSetext] else []) ++
    (if (N.eqb c 45 || N.eqb c 42 || N.eqb c 95) then [PThematic] else []) ++
    (if (N.eqb c 45 || N.eqb c 43 || N.eqb c 42 || ((48 <=? c) && (c <=? 57))%N) then [PList; PListItem] else []) ++
    (if N.eqb c 35 then [PATX] else []) ++
    (if (N.eqb c 126 || N.eqb c 96) then [PFenced] else []) ++
    (if N.eqb c 62 then [PBlockquote] else []) ++
    (if N.eqb c 60 then [PHTML] else []) in
  match trig with [] => free_parsers | _ => trig ++ free_parsers end.

Definition p_open (p : bparser) (s : st) (parent : nat) : result (st * open_res) :=
  match p with
  | PSetext => setext_open s parent
  | PThematic => thematic_open s
  | PList => list_open s parent
  | PListItem => list_item_open_s s parent
  | PCodeBlock => code_open s
  | PATX => atx_open_s s
  | PFenced => fenced_open s
  | PBlockquote => bq_open s
  | PHTML => html_open s
  | PParagraph => paragraph_open s
  end.
(* Continue: (continue?, has children?) *)
Definition p_continue (p : bparser) (s : st) (node : nat) : result (st * bool * bool) :=
  match p with
  | PSetext | PThematic | PATX => Ok (s, false, false)
  | PList => x <- list_continue s node ;; Ok (fst x, snd x, true)
  | PListItem => x <- list_item_continue s node ;; Ok (fst x, snd x, true)
  | PCodeBlock => x <- code_continue s node ;; Ok (fst x, snd x, false)
  | PFenced => x <- fenced_continue s node ;; Ok (fst x, snd x, false)
  | PBlockquote => x <- bq_continue s ;; Ok (fst x, snd x, true)
  | PHTML => x <- html_continue s node ;; Ok (fst x, snd x, false)
  | PParagraph => x <- paragraph_continue s node ;; Ok (fst x, snd x, false)
  end.
Definition p_close (p : bparser) (s : st) (node : nat) : result st :=
  match p with
  | PSetext => setext_close s node
  | PList => list_close s node
  | PCodeBlock => code_close s node
  | PFenced => fenced_close s node
  | PParagraph => paragraph_close s node
  | PThematic | PListItem | PATX | PBlockquote | PHTML => Ok s
  end.

(* ---------------- parser.go ---------------- *)
Definition attached (h : heap) (i : nat) : result bool :=
  n <- hget h i ;; Ok (match bpar n with Some _ => true | None => false end).

(* closeBlocks(from, to) *)
Fixpoint close_range (s : st) (blocks : list (nat * bparser)) (cnt : nat) (i : Z) : result st :=
  (* for i := from; i >= to; i-- : cnt iterations starting at index i *)
  match cnt with
  | O => Ok s
  | S k =>
    if (i <? 0) || (zlen blocks <=? i) then Panic
    else
      match nth_error blocks (Z.to_nat i) with
      | None => Panic
      | Some (node, p) =>
        isp <- is_paragraph (s_h s) node ;;
        att <- attached (s_h s) node ;;
        s <- (if isp && att then (x <- transform_paragraph s node ;; Ok (fst x)) else Ok s) ;;
        att <- attached (s_h s) node ;;
        s <- (if att then p_close p s node else Ok s) ;;
        close_range s blocks k (i - 1)
      end
  end.
Definition close_blocks (s : st) (from to : Z) : result st :=
  let blocks := opened (s_c s) in
  s <- close_range s blocks (Z.to_nat (from - to + 1)) from ;;
  let c := s_c s in
  let n := Z.of_nat (c_len c) in
  if from =? n - 1 then
    if (to <? 0) || (n <? to) then Panic
    else Ok (st_c s (cset_open c (c_arr c) (Z.to_nat to)))
  else
    if (to <? 0) || (from + 1 <? to) || (n <? from + 1) then Panic
    else
      let moved := zskip (from + 1) (firstn (c_len c) (c_arr c)) in
      let newlen := (Z.to_nat to + length moved)%nat in
      Ok (st_c s (cset_open c (zfirst to (c_arr c) ++ moved ++ skipn newlen (c_arr c)) newlen)).

(* results of openBlocks *)
Definition paragraphContinuation := 1.
Definition newBlocksOpened := 2.
Definition noBlocksOpened := 3.

Inductive try_res :=
| TRetry (parent : nat) (continuable : bool) (res : Z) (s : st)
| TDone (res : Z) (s : st).

Fixpoint try_parsers (bps : list bparser) (parent : nat) (blank continuable : bool) (res : Z)
                     (w : Z) (s : st) : result try_res :=
  match bps with
  | [] => Ok (TDone res s)
  | bp :: rest =>
    if continuable && (res =? noBlocksOpened) && negb (can_interrupt_paragraph bp) then
      try_parsers rest parent blank continuable res w s
    else if (3 <? w) && negb (can_accept_indented bp) then
      try_parsers rest parent blank continuable res w s
    else
      let last_block := last_opened (s_c s) in
      x <- p_open bp s parent ;;
      let '(s, o) := x in
      match o with
      | None => try_parsers rest parent blank continuable res w s
      | Some (node, has_children, require_para) =>
        (* RequireParagraph: the paragraph is closed and transformed first *)
        r <- (if require_para then
                match last_block with
                | None => Ok (inl s)
                | Some (last, lp) =>
                  pn <- hget (s_h s) parent ;;
                  if opt_nat_eqb (Some last) (last_id (bch pn)) then
                    s <- p_close lp s last ;;
                    let c := s_c s in
                    (if Nat.eqb (c_len c) 0 then Panic
                     else
                       let s := st_c s (cset_open c (c_arr c) (pred (c_len c))) in
                       t <- transform_paragraph s last ;;
                       let '(s, gone) := t in
                       if gone then Ok (inr s) else Ok (inl s))
                  else Ok (inl s)
                end
              else Ok (inl s)) ;;
        match r with
        | inr s => Ok (TRetry parent false res s)
        | inl s =>
          h <- hupd (s_h s) node (fun n => set_blank n blank) ;;
          let s := st_h s h in
          s <- match last_block with
               | None => Ok s
               | Some (last, _) =>
                 att <- attached (s_h s) last ;;
                 if negb att then
                   let lp := Z.of_nat (c_len (s_c s)) - 1 in close_blocks s lp lp
                 else Ok s
               end ;;
          h <- append_child (s_h s) parent node ;;
          let s := st_c (st_h s h) (push_opened (s_c s) (node, bp)) in
          if has_children then Ok (TRetry node continuable newBlocksOpened s)
          else Ok (TDone newBlocksOpened s)
        end
      end
  end.

Fixpoint open_blocks_loop (fuel : nat) (parent : nat) (blank continuable : bool) (res : Z)
                          (s : st) : result (Z * bool * st) :=
  match fuel with
  | O => OutOfFuel
  | S f =>
    x <- peek_line_s s ;;
    let '(s, line, _) := x in
    y <- line_offset_s s ;;
    let '(s, off) := y in
    let l := line_of line in
    let '(w, pos) := indent_width l off in
    let s := st_c s (if zlen l <=? w then cset_off (s_c s) (-1) (-1) else cset_off (s_c s) pos w) in
    let skip := match line with None => true | Some [] => true (* line[0] would panic; a peeked line is never empty *)
                              | Some (c :: _) => N.eqb c 10 end in
    if skip then Ok (res, continuable, s)
    else
      let bps := if pos <? zlen l then candidates (nth_byte l pos) else free_parsers in
      t <- try_parsers bps parent blank continuable res w s ;;
      match t with
      | TRetry parent continuable res s => open_blocks_loop f parent blank continuable res s
      | TDone res s => Ok (res, continuable, s)
      end
  end.

Definition open_blocks (fuel : nat) (parent : nat) (blank : bool) (s : st) : result (Z * st) :=
  let last_block := last_opened (s_c s) in
  cont <- match last_block with None => Ok false | Some (l, _) => is_paragraph (s_h s) l end ;;
  x <- open_blocks_loop fuel parent blank cont noBlocksOpened s ;;
  let '(res, continuable, s) := x in
  if (res =? noBlocksOpened) && continuable then
    (* the last opened block is still the paragraph seen at entry *)
    match last_opened (s_c s) with
    | None => Panic
    | Some (l, lp) =>
      y <- p_continue lp s l ;;
      let '(s, cont, _) := y in
      Ok (if cont then paragraphContinuation else res, s)
    end
  else Ok (res, s).

(* isBlankLine over the reversed statistics list *)
Fixpoint is_blank_line_go (stats : list (Z * Z * bool)) (line_num level : Z) : bool :=
  match stats with
  | [] => false
  | (ln, lv, b) :: rest =>
    if (ln =? line_num) && (lv <? level) && b then true
    else if (ln =? line_num) && (lv =? level) then b
    else if ln <? line_num then false
    else is_blank_line_go rest line_num level
  end.
Definition is_blank_line (line_num level : Z) (stats_rev : list (Z * Z * bool)) : bool :=
  match zskip level stats_rev with
  | [] => true
  | l => is_blank_line_go l line_num level
  end.

Definition rline (s : st) : Z := r_line (s_r s).
Definition advance_line_s (s : st) : st := st_r s (r_advance_line (s_r s)).

(* the body of "for i := 0; i < l; i++" in parseBlocks: inl = the whole parse ends,
   inr = go on with the next line *)
Fixpoint each_opened (fuel : nat) (captured : list (nat * bparser)) (root : nat) (i : Z) (last_index : Z)
                     (stats : list (Z * Z * bool)) (s : st) : result ((st + st) * list (Z * Z * bool)) :=
  match fuel with
  | O => OutOfFuel
  | S f =>
    if last_index <? i then Ok (inr s, stats)
    else
      match nth_error captured (Z.to_nat i) with
      | None => Panic
      | Some (node, bp) =>
        x <- peek_line_s s ;;
        let '(s, line, _) := x in
        match line with
        | None =>
          s <- close_blocks s last_index 0 ;;
          Ok (inl (advance_line_s s), stats)
        | Some line =>
          let line_num := rline s in
          let stats := (line_num, i, is_blank line) :: stats in
          isp <- is_paragraph (s_h s) node ;;
          c <- (if negb isp then
                  y <- p_continue bp s node ;;
                  let '(s, cont, kids) := y in Ok (s, cont, kids)
                else Ok (s, false, false)) ;;
          let '(s, cont, kids) := c in
          if cont then
            if kids && (i =? last_index) then
              let blank := is_blank_line (line_num - 1) i stats in
              o <- open_blocks (2 * length line + 8) node blank s ;;
              Ok (inr (snd o), stats)
            else each_opened f captured root (i + 1) last_index stats s
          else
            let blank := is_blank_line (line_num - 1) i stats in
            this_parent <- (if i =? 0 then Ok root
                            else match nth_error captured (Z.to_nat (i - 1)) with
                                 | Some (p, _) => Ok p | None => Panic end) ;;
            last_node <- match nth_error captured (Z.to_nat last_index) with
                         | Some (p, _) => Ok p | None => Panic end ;;
            o <- open_blocks (2 * length line + 8) this_parent blank s ;;
            let '(res, s) := o in
            if negb (res =? paragraphContinuation) then
              (* openedBlocks[lastIndex].Node != lastNode, read through the captured slice *)
              now_last <- match nth_error (c_arr (s_c s)) (Z.to_nat last_index) with
                          | Some (p, _) => Ok p | None => Panic end ;;
              let last_index := if Nat.eqb now_last last_node then last_index else last_index - 1 in
              s <- close_blocks s last_index i ;;
              Ok (inr s, stats)
            else Ok (inr s, stats)
        end
      end
  end.

(* "for { process opened blocks line by line }": inl = parse ends, inr = back to the outer loop *)
Fixpoint lines_loop (fuel : nat) (root : nat) (stats : list (Z * Z * bool)) (s : st)
  : result ((st + st) * list (Z * Z * bool)) :=
  match fuel with
  | O => OutOfFuel
  | S f =>
    let captured := opened (s_c s) in
    match captured with
    | [] => Ok (inr s, stats)
    | _ =>
      x <- each_opened (S (length captured)) captured root 0 (zlen captured - 1) stats s ;;
      let '(r, stats) := x in
      match r with
      | inl s => Ok (inl s, stats)
      | inr s => lines_loop f root stats (advance_line_s s)
      end
    end
  end.

Fixpoint seq_stats (line_num : Z) (n : nat) (i : Z) : list (Z * Z * bool) :=
  (* appended in order i = 0 .. n-1; returned reversed (latest first) *)
  match n with
  | O => []
  | S k => seq_stats line_num k i ++ [(line_num, i + Z.of_nat k, true)]
  end.

Fixpoint parse_blocks_loop (fuel : nat) (root : nat) (stats : list (Z * Z * bool)) (s : st) : result st :=
  match fuel with
  | O => OutOfFuel
  | S f =>
    x <- r_skip_blank_lines space_table (S (length (src_of s))) (s_r s) ;;
    let '(r, _, lines, ok) := x in
    let s := st_r s r in
    if negb ok then Ok s
    else
      let line_num := rline s in
      let stats := if negb (lines =? 0)
                   then rev (map (fun i => (line_num - 1, Z.of_nat i, true)) (seq 0 (c_len (s_c s))))
                   else stats in
      let blank := is_blank_line (line_num - 1) 0 stats in
      o <- open_blocks (2 * length (src_of s) + 8) root blank s ;;
      let '(res, s) := o in
      if negb (res =? newBlocksOpened) then Ok s
      else
        let s := advance_line_s s in
        y <- lines_loop (S (length (src_of s))) root stats s ;;
        let '(r, stats) := y in
        match r with
        | inl s => Ok s
        | inr s => parse_blocks_loop f root stats s
        end
  end.

Definition init_ctx : pctx :=
  {| c_arr := []; c_len := 0; c_boff := 0; c_bind := 0; c_refs := []; c_skip_list := false;
     c_empty_item := false; c_fence := None; c_tmp_para := None |}.

Definition parse_blocks (src : bytes) : result st :=
  let s := {| s_h := [mknode BDocument 0]; s_c := init_ctx; s_r := new_reader src |} in
  parse_blocks_loop (S (length src)) 0%nat [] s.

End WithTables.

(* ---------------- from the heap to the tree the renderer model takes ---------------- *)
Require Import GM.model.HtmlWriter GM.model.Html.

Fixpoint take_until_space (v : bytes) : bytes :=
  match v with c :: r => if N.eqb c 32 then [] else c :: take_until_space r | [] => [] end.

Definition kind_of (src : bytes) (n : bnode) : result kind :=
  match bk n with
  | BDocument => Ok KDocument
  | BBlockquote => Ok KBlockquote
  | BList => Ok (KList (is_ordered_marker (b_i1 n)) (b_i2 n))
  | BListItem => Ok KListItem
  | BParagraph => Ok KParagraph
  | BTextBlock => Ok KTextBlock
  | BHeading => Ok (KHeading (b_i1 n))
  | BThematicBreak => Ok KThematicBreak
  | BCodeBlock => Ok KCodeBlock
  | BFenced =>
    match b_seg n with
    | None => Ok (KFencedCodeBlock None)
    | Some sg => v <- seg_value src sg ;; Ok (KFencedCodeBlock (Some (take_until_space v)))
    end
  | BHTML => Ok (KHTMLBlock (b_seg n))
  end.

Fixpoint to_tree (fuel : nat) (src : bytes) (h : heap) (i : nat) : result tree :=
  match fuel with
  | O => OutOfFuel
  | S f =>
    n <- hget h i ;;
    k <- kind_of src n ;;
    kids <- map_res (to_tree f src h) (bch n) ;;
    Ok (Node k (blines n) None kids)
  end.
