(* Mechanisms behind "equivalent spellings" (C02): trailing-backslash parity of the hard line
   break test (parser.go parseBlock, after the fix: commit), and helpers to state that the three
   spellings of a code point resolve to the same bytes. *)
Require Import GM.model.Base GM.model.Util GM.model.Ids.
Open Scope N_scope.

(* endsWithUnescapedBackslash: an odd number of trailing backslashes *)
Fixpoint count_trailing_bs_rev (rv : bytes) : nat :=
  match rv with 92 :: r => Datatypes.S (count_trailing_bs_rev r) | _ => O end.
Definition ends_with_unescaped_backslash (v : bytes) : bool := Nat.odd (count_trailing_bs_rev (rev v)).

(* the line-break classification of a line view (with its newline): 1 = hard and visible
   (backslash), 2 = hard (two spaces), 3 = soft, 0 = none (no newline) *)
Definition line_break_kind (line : bytes) : N :=
  match rev line with
  | 10 :: 13 :: body =>
      if ends_with_unescaped_backslash (rev body) then 1
      else match body with 32 :: 32 :: _ => 2 | _ => 3 end
  | 10 :: body =>
      if ends_with_unescaped_backslash (rev body) then 1
      else match body with 32 :: 32 :: _ => 2 | _ => 3 end
  | _ => 0
  end.

(* the specification's reading: scan the line left to right, a backslash escapes the next
   byte; the line ends in a hard break iff the final backslash is itself unescaped *)
Fixpoint final_backslash_unescaped (v : bytes) : bool :=
  match v with
  | [] => false
  | [92] => true
  | 92 :: _ :: r => final_backslash_unescaped r
  | _ :: r => final_backslash_unescaped r
  end.

(* spellings of a code point as a character reference *)
Definition hexdigit_lower (n : N) : N := if n <? 10 then 48 + n else 87 + n.
Fixpoint hex_fuel (fuel : nat) (n : N) (acc : bytes) : bytes :=
  match fuel with
  | O => acc
  | Datatypes.S f => if n <? 16 then hexdigit_lower n :: acc else hex_fuel f (n / 16) (hexdigit_lower (n mod 16) :: acc)
  end.
Definition hex (n : N) : bytes := hex_fuel (Datatypes.S (N.to_nat (N.log2 n))) n [].
Definition ref_decimal (cp : N) : bytes := [38; 35] ++ dec cp ++ [59].
Definition ref_hex (cp : N) : bytes := [38; 35; 120] ++ hex cp ++ [59].
