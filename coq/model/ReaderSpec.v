(* The abstract cursor the two readers are compared with (C18), and the reader invariants. *)
Require Import GM.model.Base GM.model.Util GM.model.Reader.
From Coq Require Import ZArith.
Open Scope Z_scope.

(* ---------- lines of a source ---------- *)
Fixpoint nl_count (v : bytes) : Z :=
  match v with [] => 0 | c :: tl => (if N.eqb c 10 then 1 else 0) + nl_count tl end.

(* index just behind the k-th newline (k >= 1); 0 for k = 0; None if there are fewer newlines *)
Fixpoint nth_line_start_from (v : bytes) (i : Z) (k : nat) : option Z :=
  match k with
  | O => Some i
  | S k' =>
    match v with
    | [] => None
    | c :: tl => if N.eqb c 10 then nth_line_start_from tl (i + 1) k' else nth_line_start_from tl (i + 1) k
    end
  end.
Definition nth_line_start (src : bytes) (k : Z) : option Z :=
  if k <? 0 then None else nth_line_start_from src 0 (Z.to_nat k).

(* end (exclusive, including the newline) of the line containing index start *)
Definition line_end (src : bytes) (start : Z) : Z :=
  if start <? zlen src then line_stop (skipn (Z.to_nat start) src) start else zlen src.

Definition sub (src : bytes) (a b : Z) : bytes := firstn (Z.to_nat (b - a)) (skipn (Z.to_nat a) src).

(* ---------- plain reader ---------- *)
Definition r_in (r : reader) : Prop := 0 <= s_start (r_pos r) < zlen (r_src r).

(* what PeekLine must return: virtual padding, then the bytes up to the end of the line *)
Definition r_view (r : reader) : bytes :=
  spaces_n (s_pad (r_pos r)) ++ sub (r_src r) (s_start (r_pos r)) (s_stop (r_pos r)).
(* everything the cursor still delivers *)
Definition r_rest (r : reader) : bytes :=
  if (0 <=? s_start (r_pos r)) && (s_start (r_pos r) <? zlen (r_src r))
  then spaces_n (s_pad (r_pos r)) ++ skipn (Z.to_nat (s_start (r_pos r))) (r_src r)
  else [].
(* tab-expanded column of the view's first byte *)
Definition r_column (r : reader) (head : Z) : Z :=
  col_width (sub (r_src r) head (s_start (r_pos r))) 0 - s_pad (r_pos r).

Record RInv (r : reader) : Prop := {
  ri_range : 0 <= s_start (r_pos r) <= zlen (r_src r);
  ri_stop : s_stop (r_pos r) = line_end (r_src r) (s_start (r_pos r));
  ri_pad : 0 <= s_pad (r_pos r);
  ri_fnl : s_fnl (r_pos r) = false;
  ri_peeked : forall v, r_peeked r = Some v -> seg_value (r_src r) (r_pos r) = Ok v;
  ri_line_in : s_start (r_pos r) < zlen (r_src r) ->
               r_line r = nl_count (firstn (Z.to_nat (s_start (r_pos r))) (r_src r));
  ri_line_eof : s_start (r_pos r) = zlen (r_src r) -> nl_count (r_src r) <= r_line r;
  ri_head : forall h, nth_line_start (r_src r) (r_line r) = Some h -> r_head r = h;
  ri_loff : r_loff r <> -1 -> r_loff r = r_column r (r_head r)
}.

(* a position handed to SetPosition must have been returned by Position of a reader over the
   same source that satisfied the invariant *)
Definition saved_from (src : bytes) (line : Z) (pos : seg) : Prop :=
  exists r0, RInv r0 /\ r_src r0 = src /\ r_position r0 = (line, pos).

(* the head of the line the position is on (for the LineOffset law) *)
Definition line_head (src : bytes) (start : Z) : option Z :=
  nth_line_start src (nl_count (firstn (Z.to_nat start) src)).

(* ---------- block reader ---------- *)
Definition seg_ok (src : bytes) (s : seg) : Prop :=
  0 <= s_start s < s_stop s /\ s_stop s <= zlen src /\ 0 <= s_pad s /\ s_fnl s = false.
Fixpoint segs_sorted (l : list seg) : Prop :=
  match l with
  | a :: ((b :: _) as tl) => s_stop a <= s_start b /\ segs_sorted tl
  | _ => True
  end.
Definition segs_ok (src : bytes) (l : list seg) : Prop := Forall (seg_ok src) l /\ segs_sorted l.

Definition b_in (r : breader) : Prop :=
  b_line r < b_nsegs r /\ 0 <= s_start (b_pos r) < b_last r.
Definition b_view (r : breader) : bytes :=
  spaces_n (s_pad (b_pos r)) ++ sub (b_src r) (s_start (b_pos r)) (s_stop (b_pos r)).
Definition seg_bytes (src : bytes) (s : seg) : bytes := spaces_n (s_pad s) ++ sub src (s_start s) (s_stop s).
Definition b_rest (r : breader) : bytes :=
  if (b_line r <? b_nsegs r) && (0 <=? s_start (b_pos r)) && (s_start (b_pos r) <? b_last r)
  then b_view r ++ flat_map (seg_bytes (b_src r)) (skipn (Z.to_nat (b_line r + 1)) (b_segs r))
  else [].
Definition b_column (r : breader) : Z :=
  col_width (sub (b_src r) (b_head r) (s_start (b_pos r))) 0 - s_pad (b_pos r).

Record BInv (r : breader) : Prop := {
  bi_segs : segs_ok (b_src r) (b_segs r);
  bi_last : b_last r = match rev (b_segs r) with [] => 0 | l :: _ => s_stop l end;
  bi_line : 0 <= b_line r;
  bi_pad : 0 <= s_pad (b_pos r);
  bi_fnl : s_fnl (b_pos r) = false;
  (* on a line of the block: inside that line's segment, and sharing its end *)
  bi_pos : forall s, nth_error (b_segs r) (Z.to_nat (b_line r)) = Some s ->
           s_start s <= s_start (b_pos r) <= s_stop s /\ s_stop (b_pos r) = s_stop s /\
           b_head r = s_start s /\
           (s_start (b_pos r) = s_stop s -> s_stop s = b_last r);
  (* also when the reader has run off the block (line >= number of lines) the position and the
     head stay inside the source; over an empty block the position is the marker -1 *)
  bi_bounds : (b_segs r = [] /\ s_start (b_pos r) = -1 /\ b_head r = -1) \/
              (b_segs r <> [] /\ 0 <= b_head r /\ 0 <= s_start (b_pos r) <= zlen (b_src r));
  bi_loff : b_loff r <> -1 -> b_loff r = b_column r
}.

Definition b_saved_from (src : bytes) (segs : list seg) (line : Z) (pos : seg) : Prop :=
  exists r0, BInv r0 /\ b_src r0 = src /\ b_segs r0 = segs /\ b_position r0 = (line, pos).
