(* The default parser with the heading options, instantiated with the tables and regular
   expressions regenerated from the code, and composed with the inline phase (InlineParse.v,
   which does not look at attributes) and the renderer model (Html.v: renderHeading writes the
   attributes through HeadingAttributeFilter = GlobalAttributeFilter; values that are not text
   are written as the empty string). *)
Require Import GM.model.Base GM.model.Util GM.model.UtilI GM.model.Reader GM.model.Regex GM.model.HtmlWriter GM.model.Html
               GM.model.HtmlI GM.model.BlockParse GM.model.InlineParse GM.model.ParseI GM.model.HeadingOpts.
Require Import GM.gen.Tables GM.gen.Regexes.

Definition ParseBlocksH (hc : hcfg) (src : bytes) : result sth :=
  parse_blocksH hc space_table punct_table ToLinkReference
    re_htmlBlockType1Open re_htmlBlockType1Close re_htmlBlockType2Open re_htmlBlockType3Open
    re_htmlBlockType4Open re_htmlBlockType5Open re_htmlBlockType6 re_htmlBlockType7 allowed_block_tags
    utf8len_table spaces src.

(* the block structure with the heading attributes, and the reference definitions *)
Definition ParseBlocksTreeH (hc : hcfg) (src : bytes) : result (tree * list (bytes * (bytes * option bytes))) :=
  x <- ParseBlocksH hc src ;;
  let s := hx_s x in
  t <- to_treeH (S (length (s_h s))) src (s_h s) (hx_attrs x) 0%nat ;;
  Ok (t, c_refs (s_c s)).

(* parser.Parse of goldmark.New(goldmark.WithParserOptions(...)) with parser.WithAttribute()
   when h_attr hc and parser.WithAutoHeadingID() when h_autoid hc *)
Definition ParseTreeH (hc : hcfg) (src : bytes) : result tree :=
  x <- ParseBlocksTreeH hc src ;;
  let '(t, refs) := x in
  attach_inlines (InlineChildren refs src) t.

(* goldmark.Convert of the same with the given renderer options *)
Definition ConvertModelH (hc : hcfg) (cfg : rcfg) (src : bytes) : result bytes :=
  t <- ParseTreeH hc src ;;
  RenderHTML cfg src t.
