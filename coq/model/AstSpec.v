(* The plain ordered-tree specification the AST API is compared with (C13):
   a forest given by a parent map and, per node, the list of its children. *)
Require Import GM.model.Base GM.model.AstHeap.
Open Scope N_scope.

Record forest := { pa : id -> oid; ch : id -> list id }.

Definition empty_forest : forest := {| pa := fun _ => None; ch := fun _ => [] |}.

Fixpoint remove_id (x : id) (l : list id) : list id :=
  match l with
  | [] => []
  | y :: l' => if N.eqb x y then remove_id x l' else y :: remove_id x l'
  end.

(* insert x before the first occurrence of r (append when r does not occur) *)
Fixpoint insert_before_id (r x : id) (l : list id) : list id :=
  match l with
  | [] => [x]
  | y :: l' => if N.eqb r y then x :: y :: l' else y :: insert_before_id r x l'
  end.
Fixpoint insert_after_id (r x : id) (l : list id) : list id :=
  match l with
  | [] => [x]
  | y :: l' => if N.eqb r y then y :: x :: l' else y :: insert_after_id r x l'
  end.

(* a moved node leaves its old parent *)
Definition detach (f : forest) (x : id) : forest :=
  match pa f x with
  | None => f
  | Some p => {| pa := upd (pa f) x None; ch := upd (ch f) p (remove_id x (ch f p)) |}
  end.

Definition is_child (f : forest) (p : id) (r : oid) : bool :=
  match r with Some c => oid_eqb (pa f c) (Some p) | None => false end.

Definition s_append (f : forest) (p x : id) : forest :=
  let f := detach f x in
  {| pa := upd (pa f) x (Some p); ch := upd (ch f) p (ch f p ++ [x]) |}.

Definition s_insert_before (f : forest) (p : id) (r : oid) (x : id) : forest :=
  match r with
  | Some c => if is_child f p r
              then let f := detach f x in
                   {| pa := upd (pa f) x (Some p); ch := upd (ch f) p (insert_before_id c x (ch f p)) |}
              else s_append f p x
  | None => s_append f p x
  end.

Definition s_insert_after (f : forest) (p : id) (r : oid) (x : id) : forest :=
  match r with
  | Some c => if is_child f p r
              then let f := detach f x in
                   {| pa := upd (pa f) x (Some p); ch := upd (ch f) p (insert_after_id c x (ch f p)) |}
              else s_append f p x
  | None => s_append f p x
  end.

Definition s_remove (f : forest) (p x : id) : forest :=
  if oid_eqb (pa f x) (Some p) then detach f x else f.

Definition s_replace (f : forest) (p : id) (r : oid) (x : id) : forest :=
  let f := s_insert_before f p r x in
  match r with Some c => s_remove f p c | None => f end.

Definition s_remove_children (f : forest) (p : id) : forest :=
  {| pa := fun y => if existsb (N.eqb y) (ch f p) then None else pa f y;
     ch := upd (ch f) p [] |}.

(* stable insertion sort as SortChildren performs it: an element goes before the first
   element of the sorted prefix that is not smaller *)
Fixpoint s_insert_sorted (key : id -> Z) (x : id) (l : list id) : list id :=
  match l with
  | [] => [x]
  | y :: l' => if (key y - key x <? 0)%Z then y :: s_insert_sorted key x l' else x :: y :: l'
  end.
Definition s_sort (key : id -> Z) (l : list id) : list id :=
  fold_left (fun acc x => s_insert_sorted key x acc) l [].
Definition s_sort_children (f : forest) (p : id) (key : id -> Z) : forest :=
  {| pa := pa f; ch := upd (ch f) p (s_sort key (ch f p)) |}.

Definition spec_step (f : forest) (o : op) : forest :=
  match o with
  | OAppend s (Some x) => s_append f s x
  | OInsertBefore s r (Some x) => s_insert_before f s r x
  | OInsertAfter s r (Some x) => s_insert_after f s r x
  | OReplace s r (Some x) => s_replace f s r x
  | ORemove s (Some x) => s_remove f s x
  | ORemoveChildren s => s_remove_children f s
  | OSort s key => s_sort_children f s key
  | _ => f
  end.

(* legality of an operation (the proviso of C13): the node argument is not nil, no node is
   inserted into its own subtree or relative to itself *)
Fixpoint is_ancestor_or_self (fuel : nat) (f : forest) (a x : id) : bool :=
  (* a is x or an ancestor of x *)
  N.eqb a x ||
  match fuel with
  | O => false
  | S n => match pa f x with Some p => is_ancestor_or_self n f a p | None => false end
  end.

Definition legal_insert (fuel : nat) (f : forest) (p : id) (r : oid) (x : id) : bool :=
  negb (is_ancestor_or_self fuel f x p) && negb (oid_eqb r (Some x)).

Definition legal (fuel : nat) (f : forest) (o : op) : bool :=
  match o with
  | OAppend s (Some x) => legal_insert fuel f s None x
  | OInsertBefore s r (Some x) | OInsertAfter s r (Some x) | OReplace s r (Some x) => legal_insert fuel f s r x
  | ORemove s (Some x) => true
  | ORemoveChildren s => true
  | OSort s key => true
  | _ => false
  end.

(* well-formed forest *)
Definition wf_forest (f : forest) : Prop :=
  (forall p x, In x (ch f p) <-> pa f x = Some p) /\ (forall p, NoDup (ch f p)).

Definition last_opt (l : list id) : oid := match rev l with [] => None | x :: _ => Some x end.
Definition head_opt (l : list id) : oid := match l with [] => None | x :: _ => Some x end.

(* the heap represents the forest: this is what the eight observers
   (Parent, FirstChild, LastChild, NextSibling, PreviousSibling, ChildCount, HasChildren)
   report, pointwise *)
Definition Repr (h : heap) (f : forest) : Prop :=
  (forall x, par h x = pa f x) /\
  (forall p, fst_ h p = head_opt (ch f p) /\ lst h p = last_opt (ch f p) /\ cnt h p = Z.of_nat (length (ch f p))) /\
  (forall p l1 x l2, ch f p = l1 ++ x :: l2 -> prv h x = last_opt l1 /\ nxt h x = head_opt l2) /\
  (forall x, pa f x = None -> prv h x = None /\ nxt h x = None).

(* ---- Walk specification on the forest ---- *)
Fixpoint walk_spec (fuel : nat) (f : forest) (v : visitor) (n : id) (tr : list (id * bool))
  : result (N * bool * list (id * bool)) :=
  match fuel with
  | O => OutOfFuel
  | S k =>
    let '(status, err) := v (length tr) n true in
    let tr := tr ++ [(n, true)] in
    if err || (status =? 1) then Ok (status, err, tr)
    else
      r <- (if status =? 2 then Ok (None, tr)
            else walk_spec_list k f v (ch f n) tr) ;;
      match r with
      | (Some (st, e), tr) => Ok (st, e, tr)
      | (None, tr) =>
        let '(status, err) := v (length tr) n false in
        if err || (status =? 1) then Ok (1, err, tr ++ [(n, false)])
        else Ok (3, false, tr ++ [(n, false)])
      end
  end
with walk_spec_list (fuel : nat) (f : forest) (v : visitor) (cs : list id) (tr : list (id * bool))
  : result (option (N * bool) * list (id * bool)) :=
  match fuel with
  | O => OutOfFuel
  | S k =>
    match cs with
    | [] => Ok (None, tr)
    | x :: rest =>
      r <- walk_spec k f v x tr ;;
      let '(st, err, tr) := r in
      if err || (st =? 1) then Ok (Some (1, err), tr)
      else walk_spec_list k f v rest tr
    end
  end.
