(* Model of footnote numbering and cross-linking (extension/footnote.go: the inline parser's
   index assignment, the AST transformer, and the ids/hrefs written by the renderers) (C16). *)
Require Import GM.model.Base GM.model.Util GM.model.Ids GM.model.Html.
From Coq Require Import ZArith.
Open Scope Z_scope.

(* a definition in the footnote list: its label and its index (-1 = not referenced yet) *)
Record fdef := { d_ref : bytes; d_index : Z }.

(* footnoteParser.Parse: find the first definition with that label; number it on first use *)
Fixpoint assign (defs : list fdef) (count : Z) (label : bytes) : list fdef * Z * option Z :=
  match defs with
  | [] => ([], count, None)
  | d :: rest =>
    if bytes_eqb (d_ref d) label then
      if d_index d <? 0 then ({| d_ref := d_ref d; d_index := count + 1 |} :: rest, count + 1, Some (count + 1))
      else (defs, count, Some (d_index d))
    else let '(rest', c, r) := assign rest count label in (d :: rest', c, r)
  end.

(* all reference events of the document, in inline-parse order: the FootnoteLink indices created *)
Fixpoint assign_all (defs : list fdef) (count : Z) (labels : list bytes) : list fdef * Z * list Z :=
  match labels with
  | [] => (defs, count, [])
  | l :: rest =>
    let '(defs1, c1, r) := assign defs count l in
    let '(defs2, c2, rs) := assign_all defs1 c1 rest in
    (defs2, c2, match r with Some i => i :: rs | None => rs end)
  end.

(* the AST transformer *)
Definition count_index (links : list Z) (i : Z) : Z := Z.of_nat (length (filter (Z.eqb i) links)).

Record flink := { l_index : Z; l_refcount : Z; l_refindex : Z }.

Fixpoint number_links (all : list Z) (seen : list Z) (links : list Z) : list flink :=
  match links with
  | [] => []
  | i :: rest =>
    {| l_index := i; l_refcount := count_index all i; l_refindex := count_index seen i |}
    :: number_links all (i :: seen) rest
  end.

(* a rendered item: its index and its back-links (RefCount, RefIndex 0 .. RefCount-1; at least one) *)
Record fitem := { i_index : Z; i_backlinks : list flink }.
Definition backlinks_for (all : list Z) (i : Z) : list flink :=
  let rc := count_index all i in
  map (fun k => {| l_index := i; l_refcount := rc; l_refindex := Z.of_nat k |}) (seq 0 (Nat.max 1 (Z.to_nat rc))).

Fixpoint insert_item (x : fitem) (l : list fitem) : list fitem :=
  match l with
  | [] => [x]
  | y :: l' => if i_index y <? i_index x then y :: insert_item x l' else x :: y :: l'
  end.

Definition transform_footnotes (defs : list fdef) (links : list Z) : list fitem :=
  fold_left (fun acc x => insert_item x acc)
            (map (fun d => {| i_index := d_index d; i_backlinks := backlinks_for links (d_index d) |})
                 (filter (fun d => 0 <=? d_index d) defs))
            [].

(* whole document: definition labels in list order, reference labels in parse order *)
Definition footnotes (def_labels : list bytes) (ref_labels : list bytes) : list flink * list fitem :=
  let '(defs, count, links) := assign_all (map (fun l => {| d_ref := l; d_index := -1 |}) def_labels) 0 ref_labels in
  (number_links links [] links, if count <=? 0 then [] else transform_footnotes defs links).

(* ids and hrefs as the renderers write them *)
Definition ref_id (l : flink) : bytes := fn_ref_id (l_refindex l) (l_index l).      (* fnref<k>:<i> *)
Definition item_id (i : Z) : bytes := [102%N;110%N;58%N] ++ zdec i.                        (* fn:<i> *)
