(* A model of Go byte slices with backing arrays, capacities and in-place append, used to state
   that the caller's source buffer is never written (C12).  Modelled on it: Segment.Value
   (text/segment.go, after the fix: commit), Segment.ConcatPadding, util.CopyOnWriteBuffer. *)
Require Import GM.model.Base.
From Coq Require Import Arith.
Open Scope nat_scope.

Record slice_t := { sl_arr : nat; sl_off : nat; sl_len : nat; sl_cap : nat }.

(* heap: the arrays (by index) and the log of every store performed: (array, index) *)
Record sheap := { h_arrays : list (list N); h_stores : list (nat * nat) }.

Definition arr_of (h : sheap) (a : nat) : list N := nth a (h_arrays h) [].
Definition sl_bytes (h : sheap) (s : slice_t) : list N := firstn (sl_len s) (skipn (sl_off s) (arr_of h s.(sl_arr))).

Fixpoint upd_nth {A} (l : list A) (n : nat) (v : A) : list A :=
  match l, n with
  | [], _ => []
  | _ :: r, O => v :: r
  | x :: r, S k => x :: upd_nth r k v
  end.

(* arr[i] = v, logged *)
Definition store (h : sheap) (a i : nat) (v : N) : sheap :=
  {| h_arrays := upd_nth (h_arrays h) a (upd_nth (arr_of h a) i v); h_stores := h_stores h ++ [(a, i)] |}.
Fixpoint store_many (h : sheap) (a i : nat) (vs : list N) : sheap :=
  match vs with [] => h | v :: r => store_many (store h a i v) a (S i) r end.

(* make([]byte, len, cap): a fresh zeroed array *)
Definition make (h : sheap) (len cap : nat) : sheap * slice_t :=
  ({| h_arrays := h_arrays h ++ [repeat 0%N cap]; h_stores := h_stores h |},
   {| sl_arr := length (h_arrays h); sl_off := 0; sl_len := len; sl_cap := cap |}).

(* s[i:j] and s[i:j:k] (bounds are the caller's obligation; out of range is a Go panic) *)
Definition slice2 (s : slice_t) (i j : nat) : option slice_t :=
  if (i <=? j) && (j <=? sl_cap s) then Some {| sl_arr := sl_arr s; sl_off := sl_off s + i; sl_len := j - i; sl_cap := sl_cap s - i |} else None.
Definition slice3 (s : slice_t) (i j k : nat) : option slice_t :=
  if (i <=? j) && (j <=? k) && (k <=? sl_cap s) then Some {| sl_arr := sl_arr s; sl_off := sl_off s + i; sl_len := j - i; sl_cap := k - i |} else None.

(* append(s, vs...): in place when the capacity suffices (this is the point), otherwise a new
   array (content copied; the growth policy does not matter here: at least what is needed) *)
Definition append (h : sheap) (s : slice_t) (vs : list N) : sheap * slice_t :=
  if sl_len s + length vs <=? sl_cap s then
    (store_many h (sl_arr s) (sl_off s + sl_len s) vs,
     {| sl_arr := sl_arr s; sl_off := sl_off s; sl_len := sl_len s + length vs; sl_cap := sl_cap s |})
  else
    let content := sl_bytes h s ++ vs in
    let n := length content in
    ({| h_arrays := h_arrays h ++ [content ++ repeat 0%N n]; h_stores := h_stores h |},
     {| sl_arr := length (h_arrays h); sl_off := 0; sl_len := n; sl_cap := 2 * n |}).

(* ---- Segment.Value on the heap (segment.go:57, after the fix) ---- *)
Record hseg := { g_start : nat; g_stop : nat; g_pad : nat; g_fnl : bool }.

Definition last_byte (h : sheap) (s : slice_t) : option N :=
  match rev (sl_bytes h s) with [] => None | c :: _ => Some c end.

Definition seg_value_h (h : sheap) (buffer : slice_t) (t : hseg) : option (sheap * slice_t) :=
  match slice2 buffer (g_start t) (g_stop t) with
  | None => None                                         (* slice bounds out of range: panic *)
  | Some sub =>
    if (g_stop t) <=? sl_len buffer then                  (* buffer[Start:Stop] requires Stop <= cap; the data is in len *)
      let '(h1, result) :=
        if g_pad t =? 0 then (h, sub)
        else
          let '(h1, r) := make h 0 (g_pad t + g_stop t - g_start t + 1) in
          let '(h2, r) := append h1 r (repeat 32%N (g_pad t)) in
          append h2 r (sl_bytes h sub) in
      if g_fnl t then
        match last_byte h1 result with
        | Some c => if N.eqb c 10 then Some (h1, result)
                    else match slice3 result 0 (sl_len result) (sl_len result) with
                         | Some r3 => Some (append h1 r3 [10%N])      (* result[:len:len] then append: always reallocates *)
                         | None => None
                         end
        | None => Some (h1, result)
        end
      else Some (h1, result)
    else None
  end.

(* the pinned tree's version: append(result, '\n') on the aliasing sub-slice *)
Definition seg_value_h_pinned (h : sheap) (buffer : slice_t) (t : hseg) : option (sheap * slice_t) :=
  match slice2 buffer (g_start t) (g_stop t) with
  | None => None
  | Some sub =>
    if (g_stop t) <=? sl_len buffer then
      if (g_pad t =? 0) && g_fnl t then
        match last_byte h sub with
        | Some c => if N.eqb c 10 then Some (h, sub) else Some (append h sub [10%N])
        | None => Some (h, sub)
        end
      else seg_value_h h buffer t
    else None
  end.

(* ---- util.CopyOnWriteBuffer (util.go:17) ---- *)
Record cob := { c_buf : slice_t; c_copied : bool }.
Definition new_cob (s : slice_t) : cob := {| c_buf := s; c_copied := false |}.

Definition cob_write (h : sheap) (b : cob) (v : list N) : sheap * cob :=
  let '(h, buf) := if c_copied b then (h, c_buf b) else make h 0 (sl_len (c_buf b) + 20) in
  let '(h, buf) := append h buf v in
  (h, {| c_buf := buf; c_copied := true |}).

Definition cob_append (h : sheap) (b : cob) (v : list N) : sheap * cob :=
  let '(h, buf) :=
    if c_copied b then (h, c_buf b)
    else let '(h1, tmp) := make h (sl_len (c_buf b)) (sl_len (c_buf b) + 20) in
         (* copy(tmp, b.buffer): stores into the fresh array *)
         (store_many h1 (sl_arr tmp) 0 (sl_bytes h (c_buf b)), tmp) in
  let '(h, buf) := append h buf v in
  (h, {| c_buf := buf; c_copied := true |}).

Inductive cob_op := CWrite (v : list N) | CAppend (v : list N).
Definition cob_step (st : sheap * cob) (o : cob_op) : sheap * cob :=
  match o with CWrite v => cob_write (fst st) (snd st) v | CAppend v => cob_append (fst st) (snd st) v end.
Definition cob_run (h : sheap) (b : cob) (ops : list cob_op) : sheap * cob := fold_left cob_step ops (h, b).

(* the stores performed between two heaps *)
Definition new_stores (h h' : sheap) : list (nat * nat) := skipn (length (h_stores h)) (h_stores h').
