(* parser.WithAutoHeadingID for the default parser (C15): both heading parsers call
   generateAutoHeadingID in Close - the id is Generate(value of the heading's last line) on the
   per-document id table, set as the attribute "id".  Headings are leaf blocks and blocks close in
   document order, so this is a pass over the block tree in preorder, before the inline phase
   (which does not look at attributes).  Composed with the parser and renderer models into
   ConvertModelA, the model of goldmark.Convert with parser.WithAutoHeadingID(). *)
Require Import GM.gen.Tables.
Require Import GM.model.Base GM.model.Util GM.model.UtilI GM.model.Reader GM.model.HtmlWriter GM.model.Html GM.model.HtmlI
               GM.model.Ids GM.model.BlockParse GM.model.InlineParse GM.model.ParseI.
From Coq Require Import List NArith.
Import ListNotations.
Open Scope N_scope.

Definition id_name : bytes := [105; 100].
Definition last_seg (l : list seg) : option seg := match rev l with [] => None | x :: _ => Some x end.
Definition is_heading (k : kind) : bool := match k with KHeading _ => true | _ => false end.

(* the texts Generate is called with: for every heading, in document order, the value of its
   last line (nothing for a heading without lines) *)
Fixpoint heading_texts (src : bytes) (t : tree) {struct t} : result (list bytes) :=
  match t with
  | Node k lines _ kids =>
    if is_heading k then
      match last_seg lines with
      | Some sg => v <- seg_value src sg ;; Ok [v]
      | None => Ok [[]]
      end
    else
      (fix go (ks : list tree) : result (list bytes) :=
         match ks with
         | [] => Ok []
         | x :: r => a <- heading_texts src x ;; b <- go r ;; Ok (a ++ b)
         end) kids
  end.

(* hands the generated ids out, one per heading, in the same order *)
Fixpoint assign_ids (t : tree) (ids : list bytes) {struct t} : tree * list bytes :=
  match t with
  | Node k lines a kids =>
    if is_heading k then
      match ids with
      | i :: r => (Node k lines (Some (set_attr id_name (AVBytes i) (match a with Some x => x | None => [] end))) kids, r)
      | [] => (t, [])
      end
    else
      let '(kids', r) :=
        (fix go (ks : list tree) (ids : list bytes) : list tree * list bytes :=
           match ks with
           | [] => ([], ids)
           | x :: xs => let '(x', r1) := assign_ids x ids in let '(xs', r2) := go xs r1 in (x' :: xs', r2)
           end) kids ids in
      (Node k lines a kids', r)
  end.

Definition GenerateAll := generate_all utf8len_table space_table spaces.

Definition AutoIds (src : bytes) (t : tree) : result tree :=
  vs <- heading_texts src t ;;
  rs <- GenerateAll [] vs ;;
  Ok (fst (assign_ids t rs)).

Definition ParseTreeA (src : bytes) : result tree :=
  x <- ParseBlocksTree src ;;
  let '(t, refs) := x in
  t1 <- AutoIds src t ;;
  attach_inlines (InlineChildren refs src) t1.

Definition ConvertModelA (cfg : rcfg) (src : bytes) : result bytes :=
  t <- ParseTreeA src ;;
  RenderHTML cfg src t.

(* the id attributes of the headings of a tree, in document order *)
Fixpoint heading_ids (t : tree) {struct t} : list (option aval) :=
  match t with
  | Node k _ a kids =>
    if is_heading k then [match a with Some l => find_attr id_name l | None => None end]
    else (fix go (ks : list tree) : list (option aval) := match ks with [] => [] | x :: r => heading_ids x ++ go r end) kids
  end.
