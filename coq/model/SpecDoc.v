(* A formal fragment of the CommonMark specification (C02): document trees whose meaning is
   fixed by construction, the HTML the specification prescribes for them (html_of), and a
   Markdown printer (md_of) that spells them using the choices recorded in the tree (which
   html_of never looks at).  The side conditions that make a spelling unambiguous are enforced
   by the generator (go/cmd/gmh/c02.go, listed in DESIGN.md).  The XHTML dialect of spec.json is
   used (void elements with " />"), raw HTML is passed through (html.WithUnsafe). *)
Require Import GM.model.Base GM.model.Util GM.model.Ids GM.model.SpecMech.
Open Scope N_scope.

Definition word := bytes.          (* [a-z]+ *)

Inductive atom :=
| AWord (w : word)
| AEsc (c : N)                                   (* backslash-escaped ASCII punctuation *)
| AEnt (spelling : N) (cp : N)                   (* character reference: 0 named, 1 decimal, 2 hex, 3 upper-case hex *)
| AEmph (delim : N) (body : list atom)           (* delim: 0 star, 1 underscore *)
| AStrong (delim : N) (body : list atom)
| ACode (ticks : N) (padded : bool) (content : bytes)   (* a run of `ticks` backticks each side, optionally padded by one space *)
| ALink (style : N) (variant : N) (tstyle : N) (body : list atom) (dest : bytes) (title : option bytes) (label : bytes)
     (* style: 0 inline, 1 inline with <dest>, 2 full reference, 3 collapsed, 4 shortcut;
        variant (full references): 0 label as is, 1 upper-cased at the use site, 2 inner
        whitespace doubled and padded at the use site, 3 inner blanks written as tabs;
        tstyle: the title is written in 0 double quotes, 1 single quotes, 2 parentheses *)
| AImage (alt : list word) (src : bytes)
| AAuto (url : bytes)
| ARaw (html : bytes)                            (* raw inline HTML *)
| ASoft
| AHard (style : N).                             (* 0 two spaces, 1 backslash *)

Inductive block :=
| BPara (indent : N) (atoms : list atom)
| BHeading (indent : N) (level : N) (style : N) (extra : N) (atoms : list atom)
     (* style 0 ATX, 1 ATX with a closing run of `extra` hashes, 2 Setext with an underline of `extra` characters *)
| BHr (indent : N) (style : N)
| BCode (style : N) (indent : N) (fence_len : N) (info : bytes) (lines : list bytes)
     (* 0 four spaces, 1 tab, 2 backtick fence, 3 tilde fence; indent: of both fences and of the content lines (fenced only) *)
| BQuote (style : N) (blocks : list block)          (* 0 marker and space, 1 bare marker where the line allows it *)
| BList (indent gap : N) (ordered : bool) (start : N) (delim : N) (marker : N) (tight : bool) (items : list (list block))
     (* indent: columns before each marker; gap: blanks between marker and content (1..4) *)
| BHtml (lines : list bytes).

Definition doc := list block.

(* ---------- small helpers ---------- *)
Definition esc_html1 (c : N) : bytes :=
  if c =? 34 then [38;113;117;111;116;59] else if c =? 38 then [38;97;109;112;59]
  else if c =? 60 then [38;108;116;59] else if c =? 62 then [38;103;116;59] else [c].
Definition esc_html (v : bytes) : bytes := flat_map esc_html1 v.
Definition sp : bytes := [32].
Definition nl : bytes := [10].
Definition spaces (n : N) : bytes := repeat 32 (N.to_nat n).
Fixpoint join (sep : bytes) (l : list bytes) : bytes :=
  match l with [] => [] | [x] => x | x :: r => x ++ sep ++ join sep r end.
Definition upper (v : bytes) : bytes := map (fun c => if (97 <=? c) && (c <=? 122) then c - 32 else c) v.
Definition widen (v : bytes) : bytes := [32] ++ flat_map (fun c => if c =? 32 then [32;9] else [c]) v ++ [32].
Definition tabbed (v : bytes) : bytes := map (fun c => if c =? 32 then 9 else c) v.

(* the named references used: cp 38 &amp; 60 &lt; 62 &gt; 34 &quot; 169 &copy; *)
Definition ent_name (cp : N) : option bytes :=
  if cp =? 38 then Some [97;109;112] else if cp =? 60 then Some [108;116] else if cp =? 62 then Some [103;116]
  else if cp =? 34 then Some [113;117;111;116] else if cp =? 169 then Some [99;111;112;121] else None.

(* ---------- the prescribed HTML ---------- *)
Fixpoint atom_html (a : atom) : bytes :=
  let fix atoms_html (l : list atom) : bytes :=
    match l with
    | [] => []
    | [x] => atom_html x
    | x :: ((y :: _) as r) =>
        atom_html x ++
        (match x, y with
         | ASoft, _ | AHard _, _ | _, ASoft | _, AHard _ => []
         | _, _ => sp
         end) ++ atoms_html r
    end in
  match a with
  | AWord w => w
  | AEsc c => esc_html1 c
  | AEnt _ cp => esc_html (encode_rune cp)
  | AEmph _ b => [60;101;109;62] ++ atoms_html b ++ [60;47;101;109;62]
  | AStrong _ b => [60;115;116;114;111;110;103;62] ++ atoms_html b ++ [60;47;115;116;114;111;110;103;62]
  | ACode _ _ c => [60;99;111;100;101;62] ++ esc_html c ++ [60;47;99;111;100;101;62]
  | ALink _ _ _ b dest title _ =>
      [60;97;32;104;114;101;102;61;34] ++ esc_html dest ++ [34] ++
      (match title with Some t => [32;116;105;116;108;101;61;34] ++ esc_html t ++ [34] | None => [] end) ++
      [62] ++ atoms_html b ++ [60;47;97;62]
  | AImage alt src => [60;105;109;103;32;115;114;99;61;34] ++ esc_html src ++ [34;32;97;108;116;61;34] ++ join sp alt ++ [34;32;47;62]
  | AAuto u => [60;97;32;104;114;101;102;61;34] ++ esc_html u ++ [34;62] ++ esc_html u ++ [60;47;97;62]
  | ARaw h => h
  | ASoft => nl
  | AHard _ => [60;98;114;32;47;62;10]
  end.
Fixpoint atoms_html (l : list atom) : bytes :=
  match l with
  | [] => []
  | [x] => atom_html x
  | x :: ((y :: _) as r) =>
      atom_html x ++
      (match x, y with
       | ASoft, _ | AHard _, _ | _, ASoft | _, AHard _ => []
       | _, _ => sp
       end) ++ atoms_html r
  end.

Definition tag (name : bytes) : bytes := [60] ++ name ++ [62].
Definition ctag (name : bytes) : bytes := [60;47] ++ name ++ [62].

Fixpoint block_html (b : block) : bytes :=
  let fix blocks_html (l : list block) : bytes := match l with [] => [] | x :: r => block_html x ++ blocks_html r end in
  match b with
  | BPara _ a => tag [112] ++ atoms_html a ++ ctag [112] ++ nl
  | BHeading _ lv _ _ a => tag ([104] ++ dec lv) ++ atoms_html a ++ ctag ([104] ++ dec lv) ++ nl
  | BHr _ _ => [60;104;114;32;47;62;10]
  | BCode st _ _ info lines =>
      [60;112;114;101;62;60;99;111;100;101] ++
      (match info with
       | [] => []
       | _ => if (2 <=? st) then [32;99;108;97;115;115;61;34;108;97;110;103;117;97;103;101;45] ++ esc_html info ++ [34] else []
       end) ++ [62] ++
      flat_map (fun l => esc_html l ++ nl) lines ++ [60;47;99;111;100;101;62;60;47;112;114;101;62;10]
  | BQuote _ bs => tag [98;108;111;99;107;113;117;111;116;101] ++ nl ++ blocks_html bs ++ ctag [98;108;111;99;107;113;117;111;116;101] ++ nl
  | BList _ _ ordered start _ _ tight items =>
      let name := if ordered then [111;108] else [117;108] in
      [60] ++ name ++ (if ordered && negb (start =? 1) then [32;115;116;97;114;116;61;34] ++ dec start ++ [34] else []) ++ [62;10] ++
      (fix items_html (its : list (list block)) : bytes :=
         match its with
         | [] => []
         | it :: r =>
           (if tight then
              match it with
              | BPara _ a :: rest => tag [108;105] ++ atoms_html a ++ (match rest with [] => [] | _ => nl ++ blocks_html rest end) ++ ctag [108;105] ++ nl
              | _ => tag [108;105] ++ nl ++ blocks_html it ++ ctag [108;105] ++ nl
              end
            else tag [108;105] ++ nl ++ blocks_html it ++ ctag [108;105] ++ nl) ++ items_html r
         end) items ++
      ctag name ++ nl
  | BHtml lines => flat_map (fun l => l ++ nl) lines
  end.
Definition html_of (d : doc) : bytes := flat_map block_html d.

(* ---------- the Markdown printer ---------- *)
(* reference definitions collected from the document: (label, dest, title) in order *)
Fixpoint atom_defs (a : atom) : list (bytes * bytes * N * option bytes) :=
  let fix go (l : list atom) := match l with [] => [] | x :: r => atom_defs x ++ go r end in
  match a with
  | AEmph _ b | AStrong _ b => go b
  | ALink style _ tstyle b dest title label => (if 2 <=? style then [(label, dest, tstyle, title)] else []) ++ go b
  | _ => []
  end.
Definition atoms_defs (l : list atom) := flat_map atom_defs l.
Fixpoint block_defs (b : block) : list (bytes * bytes * N * option bytes) :=
  let fix go (l : list block) := match l with [] => [] | x :: r => block_defs x ++ go r end in
  match b with
  | BPara _ a | BHeading _ _ _ _ a => atoms_defs a
  | BQuote _ bs => go bs
  | BList _ _ _ _ _ _ _ items => (fix gi (its : list (list block)) := match its with [] => [] | it :: r => go it ++ gi r end) items
  | _ => []
  end.

Definition delim_bytes (d : N) (n : nat) : bytes := repeat (if d =? 0 then 42 else 95) n.
Definition title_md (tstyle : N) (t : option bytes) : bytes :=
  match t with
  | Some t => if tstyle =? 0 then [32;34] ++ t ++ [34] else if tstyle =? 1 then [32;39] ++ t ++ [39] else [32;40] ++ t ++ [41]
  | None => []
  end.

Fixpoint atom_md (a : atom) : bytes :=
  let fix atoms_md (l : list atom) : bytes :=
    match l with
    | [] => []
    | [x] => atom_md x
    | x :: ((y :: _) as r) =>
        atom_md x ++ (match x, y with ASoft, _ | AHard _, _ | _, ASoft | _, AHard _ => [] | _, _ => sp end) ++ atoms_md r
    end in
  match a with
  | AWord w => w
  | AEsc c => [92; c]
  | AEnt sp_ cp =>
      if sp_ =? 0 then match ent_name cp with Some n => [38] ++ n ++ [59] | None => ref_decimal cp end
      else if sp_ =? 1 then ref_decimal cp else if sp_ =? 2 then ref_hex cp else [38;35;88] ++ upper (hex cp) ++ [59]
  | AEmph d b => delim_bytes d 1 ++ atoms_md b ++ delim_bytes d 1
  | AStrong d b => delim_bytes d 2 ++ atoms_md b ++ delim_bytes d 2
  | ACode t p c => let f := repeat 96 (N.to_nat t) in f ++ (if p then sp else []) ++ c ++ (if p then sp else []) ++ f
  | ALink style variant tstyle b dest title label =>
      let text := [91] ++ atoms_md b ++ [93] in
      let lab := if variant =? 1 then upper label else if variant =? 2 then widen label
                 else if variant =? 3 then tabbed label else label in
      if style =? 0 then text ++ [40] ++ dest ++ title_md tstyle title ++ [41]
      else if style =? 1 then text ++ [40;60] ++ dest ++ [62] ++ title_md tstyle title ++ [41]
      else if style =? 2 then text ++ [91] ++ lab ++ [93]
      else if style =? 3 then text ++ [91;93]
      else text
  | AImage alt src => [33;91] ++ join sp alt ++ [93;40] ++ src ++ [41]
  | AAuto u => [60] ++ u ++ [62]
  | ARaw h => h
  | ASoft => nl
  | AHard st => if st =? 0 then [32;32;10] else [92;10]
  end.
Fixpoint atoms_md (l : list atom) : bytes :=
  match l with
  | [] => []
  | [x] => atom_md x
  | x :: ((y :: _) as r) =>
      atom_md x ++ (match x, y with ASoft, _ | AHard _, _ | _, ASoft | _, AHard _ => [] | _, _ => sp end) ++ atoms_md r
  end.

(* lines of a block (without trailing newline): a structural prefix (container markers and
   indentation, which may be respelled with tabs) and the content.  Blocks are joined by one
   empty line. *)
Definition line := (bytes * bytes)%type.
Definition pre (p : bytes) (l : line) : line := (p ++ fst l, snd l).
Definition blank : line := ([], []).
Definition is_blank (l : line) : bool := match l with ([], []) => true | _ => false end.
Definition first_byte (l : line) : N := match fst l ++ snd l with c :: _ => c | [] => 0 end.
Fixpoint split_lines (v : bytes) (cur : bytes) : list bytes :=
  match v with
  | [] => [rev cur]
  | c :: r => if c =? 10 then rev cur :: split_lines r [] else split_lines r (c :: cur)
  end.
Definition hr_md (style : N) : bytes :=
  if style =? 0 then [42;42;42] else if style =? 1 then [45;45;45] else if style =? 2 then [95;95;95]
  else if style =? 3 then [42;32;42;32;42] else if style =? 4 then [45;45;45;45;45]
  else if style =? 5 then [95;32;95;32;95;32;95] else [45;32;45;32;32;45].
Definition marker_md (ordered : bool) (num : N) (delim marker : N) : bytes :=
  if ordered then dec num ++ [if delim =? 0 then 46 else 41]
  else [if marker =? 0 then 45 else if marker =? 1 then 43 else 42].

Fixpoint block_lines (b : block) : list line :=
  let fix blocks_lines (sep : bool) (l : list block) : list line :=
    match l with
    | [] => []
    | [x] => block_lines x
    | x :: r => block_lines x ++ (if sep then [blank] else []) ++ blocks_lines sep r
    end in
  match b with
  | BPara ind a => map (fun l => (spaces ind, l)) (split_lines (atoms_md a) [])
  | BHeading ind lv st ex a =>
      if st =? 2 then [(spaces ind, atoms_md a); (spaces ind, repeat (if lv =? 1 then 61 else 45) (N.to_nat ex))]
      else [(spaces ind, repeat 35 (N.to_nat lv) ++ sp ++ atoms_md a ++ (if st =? 1 then sp ++ repeat 35 (N.to_nat ex) else []))]
  | BHr ind st => [(spaces ind, hr_md st)]
  | BCode st ind fl info lines =>
      if st =? 0 then map (fun l => ([32;32;32;32], l)) lines
      else if st =? 1 then map (fun l => ([9], l)) lines
      else let f := repeat (if st =? 2 then 96 else 126) (N.to_nat fl) in
           [(spaces ind, f ++ info)] ++
           map (fun l => ([], match l with [] => [] | _ => spaces ind ++ l end)) lines ++ [(spaces ind, f)]
  | BQuote st bs =>
      map (fun l => if is_blank l then ([62], [])
                    else if (st =? 1) && negb (first_byte l =? 32) && negb (first_byte l =? 9) then pre [62] l
                    else pre [62;32] l) (blocks_lines true bs)
  | BList ind gap ordered start delim marker tight items =>
      (fix items_lines (num : N) (its : list (list block)) : list line :=
         match its with
         | [] => []
         | it :: r =>
           let m := spaces ind ++ marker_md ordered num delim marker ++ spaces gap in
           let pad := repeat 32 (length m) in
           (match blocks_lines (negb tight) it with
            | [] => [(m, [])]
            | l0 :: ls => pre m l0 :: map (fun l => if is_blank l then l else pre pad l) ls
            end) ++
           (match r with [] => [] | _ => if tight then [] else [blank] end) ++ items_lines (num + 1) r
         end) start items
  | BHtml lines => map (fun l => ([], l)) lines
  end.

Fixpoint doc_lines (d : doc) : list line :=
  match d with
  | [] => []
  | [x] => block_lines x
  | x :: r => block_lines x ++ [blank] ++ doc_lines r
  end.

Definition def_md (d : bytes * bytes * N * option bytes) : bytes :=
  let '(label, dest, tstyle, title) := d in [91] ++ label ++ [93;58;32] ++ dest ++ title_md tstyle title.

(* the tab spelling of indentation: inside a structural prefix, every run of blanks that reaches
   a tab stop is written with a tab up to that stop, so every byte keeps its column.
   col: the current column; run: blanks seen since the last stop or non-blank byte. *)
Fixpoint respell (s : bytes) (col : N) (run : nat) : bytes :=
  match s with
  | [] => repeat 32 run
  | c :: r =>
    if c =? 32 then
      if (col + 1) mod 4 =? 0 then 9 :: respell r (col + 1) 0 else respell r (col + 1) (S run)
    else if c =? 9 then repeat 32 run ++ 9 :: respell r ((col / 4 + 1) * 4) 0
    else repeat 32 run ++ c :: respell r (col + 1) 0
  end.
(* what the specification does with tabs where they define block structure: each is replaced
   by blanks up to the next multiple of four columns *)
Fixpoint expand (s : bytes) (col : N) : bytes :=
  match s with
  | [] => []
  | c :: r => if c =? 9 then repeat 32 (N.to_nat (4 - col mod 4)) ++ expand r ((col / 4 + 1) * 4)
              else c :: expand r (col + 1)
  end.
Definition line_md (tabs : bool) (l : line) : bytes := (if tabs then respell (fst l) 0 0 else fst l) ++ snd l.

(* tabs: respell structural indentation with tabs; final_newline: whether the source ends with a newline *)
Definition md_of (tabs final_newline : bool) (d : doc) : bytes :=
  let defs := flat_map block_defs d in
  let ls := doc_lines d ++ (match defs with [] => [] | _ => [blank] ++ map (fun x => ([], def_md x)) defs end) in
  join nl (map (line_md tabs) ls) ++ (if final_newline then nl else []).

(* ---------- erasure of the spelling choices ---------- *)
Fixpoint erase_atom (a : atom) : atom :=
  match a with
  | AEnt _ cp => AEnt 0 cp
  | AEmph _ b => AEmph 0 (map erase_atom b)
  | AStrong _ b => AStrong 0 (map erase_atom b)
  | ACode _ _ c => ACode 1 false c
  | ALink _ _ _ b dest title _ => ALink 0 0 0 (map erase_atom b) dest title []
  | AHard _ => AHard 0
  | x => x
  end.
Fixpoint erase_block (b : block) : block :=
  match b with
  | BPara _ a => BPara 0 (map erase_atom a)
  | BHeading _ lv _ _ a => BHeading 0 lv 0 0 (map erase_atom a)
  | BHr _ _ => BHr 0 0
  | BCode st _ _ info lines => if 2 <=? st then BCode 2 0 3 info lines else BCode 0 0 0 [] lines
  | BQuote _ bs => BQuote 0 (map erase_block bs)
  | BList _ _ ordered start _ _ tight items => BList 0 1 ordered start 0 0 tight (map (map erase_block) items)
  | BHtml lines => BHtml lines
  end.
Definition erase (d : doc) : doc := map erase_block d.

(* ---------- side conditions on leaves (the generator's alphabet) ---------- *)
Definition lower (c : N) : bool := (97 <=? c) && (c <=? 122).
Definition lower_word (w : bytes) : bool := negb (Nat.eqb (length w) 0) && forallb lower w.
Definition valid_cp (cp : N) : bool := (0 <? cp) && (cp <? 1114112) && negb ((55296 <=? cp) && (cp <=? 57343)).
(* text leaves: what goldmark keeps as raw text and resolves when writing *)
Definition leaf (is_punct : N -> bool) (a : atom) : bool :=
  match a with
  | AWord w => lower_word w
  | AEsc c => is_punct c
  | AEnt s cp => (s <? 4) && valid_cp cp
  | _ => false
  end.
(* labels: lower-case words separated by single blanks *)
Fixpoint label_words (ws : list bytes) : bool :=
  match ws with [] => false | [w] => lower_word w | w :: r => lower_word w && label_words r end.
(* destinations: the generator's alphabet a-z 0-9 / : . ? = & # - _ ~ + *)
Definition dest_char (c : N) : bool :=
  lower c || ((48 <=? c) && (c <=? 57)) ||
  existsb (N.eqb c) [47;58;46;63;61;38;35;45;95;126;43].
