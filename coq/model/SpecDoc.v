(* A formal fragment of the CommonMark specification (C02): document trees whose meaning is
   fixed by construction, the HTML the specification prescribes for them (html_of), and a
   Markdown printer (md_of) that spells them using the choices recorded in the tree (which
   html_of never looks at).  Side conditions that make the spelling unambiguous are the boolean
   `printable`.  The XHTML dialect of spec.json is used (void elements with " />"). *)
Require Import GM.model.Base GM.model.Util GM.model.Ids GM.model.SpecMech.
Open Scope N_scope.

Definition word := bytes.          (* [a-z]+ *)

Inductive atom :=
| AWord (w : word)
| AEsc (c : N)                                   (* backslash-escaped ASCII punctuation *)
| AEnt (spelling : N) (cp : N)                   (* character reference: 0 named, 1 decimal, 2 hex *)
| AEmph (delim : N) (body : list atom)           (* delim: 0 star, 1 underscore *)
| AStrong (delim : N) (body : list atom)
| ACode (content : bytes)
| ALink (style : N) (variant : N) (body : list atom) (dest : bytes) (title : option bytes) (label : bytes)
     (* style: 0 inline, 1 inline with <dest>, 2 full reference, 3 collapsed, 4 shortcut;
        variant: 0 label as is, 1 upper-cased at the use site *)
| AImage (alt : list word) (src : bytes)
| AAuto (url : bytes)
| ASoft
| AHard (style : N).                             (* 0 two spaces, 1 backslash *)

Inductive block :=
| BPara (indent : N) (atoms : list atom)
| BHeading (indent : N) (level : N) (style : N) (atoms : list atom)   (* style 0 ATX, 1 ATX closed, 2 Setext *)
| BHr (indent : N) (style : N)
| BCode (style : N) (fence_len : N) (info : bytes) (lines : list bytes) (* 0 four spaces, 1 tab, 2 backtick fence, 3 tilde fence *)
| BQuote (blocks : list block)
| BList (ordered : bool) (start : N) (delim : N) (marker : N) (tight : bool) (items : list (list block))
| BHtml (lines : list bytes).

Definition doc := list block.

(* ---------- small helpers ---------- *)
Definition esc_html1 (c : N) : bytes :=
  if c =? 34 then [38;113;117;111;116;59] else if c =? 38 then [38;97;109;112;59]
  else if c =? 60 then [38;108;116;59] else if c =? 62 then [38;103;116;59] else [c].
Definition esc_html (v : bytes) : bytes := flat_map esc_html1 v.
Definition sp : bytes := [32].
Definition nl : bytes := [10].
Definition spaces (n : N) : bytes := repeat 32 (N.to_nat n).
Fixpoint join (sep : bytes) (l : list bytes) : bytes :=
  match l with [] => [] | [x] => x | x :: r => x ++ sep ++ join sep r end.
Definition upper (v : bytes) : bytes := map (fun c => if (97 <=? c) && (c <=? 122) then c - 32 else c) v.

(* the named references used: cp 38 &amp; 60 &lt; 62 &gt; 34 &quot; 169 &copy; *)
Definition ent_name (cp : N) : option bytes :=
  if cp =? 38 then Some [97;109;112] else if cp =? 60 then Some [108;116] else if cp =? 62 then Some [103;116]
  else if cp =? 34 then Some [113;117;111;116] else if cp =? 169 then Some [99;111;112;121] else None.

(* ---------- the prescribed HTML ---------- *)
Fixpoint atom_html (a : atom) : bytes :=
  let fix atoms_html (l : list atom) : bytes :=
    match l with
    | [] => []
    | [x] => atom_html x
    | x :: ((y :: _) as r) =>
        atom_html x ++
        (match x, y with
         | ASoft, _ | AHard _, _ | _, ASoft | _, AHard _ => []
         | _, _ => sp
         end) ++ atoms_html r
    end in
  match a with
  | AWord w => w
  | AEsc c => esc_html1 c
  | AEnt _ cp => esc_html (encode_rune cp)
  | AEmph _ b => [60;101;109;62] ++ atoms_html b ++ [60;47;101;109;62]
  | AStrong _ b => [60;115;116;114;111;110;103;62] ++ atoms_html b ++ [60;47;115;116;114;111;110;103;62]
  | ACode c => [60;99;111;100;101;62] ++ esc_html c ++ [60;47;99;111;100;101;62]
  | ALink _ _ b dest title _ =>
      [60;97;32;104;114;101;102;61;34] ++ esc_html dest ++ [34] ++
      (match title with Some t => [32;116;105;116;108;101;61;34] ++ esc_html t ++ [34] | None => [] end) ++
      [62] ++ atoms_html b ++ [60;47;97;62]
  | AImage alt src => [60;105;109;103;32;115;114;99;61;34] ++ esc_html src ++ [34;32;97;108;116;61;34] ++ join sp alt ++ [34;32;47;62]
  | AAuto u => [60;97;32;104;114;101;102;61;34] ++ esc_html u ++ [34;62] ++ esc_html u ++ [60;47;97;62]
  | ASoft => nl
  | AHard _ => [60;98;114;32;47;62;10]
  end.
Fixpoint atoms_html (l : list atom) : bytes :=
  match l with
  | [] => []
  | [x] => atom_html x
  | x :: ((y :: _) as r) =>
      atom_html x ++
      (match x, y with
       | ASoft, _ | AHard _, _ | _, ASoft | _, AHard _ => []
       | _, _ => sp
       end) ++ atoms_html r
  end.

Definition tag (name : bytes) : bytes := [60] ++ name ++ [62].
Definition ctag (name : bytes) : bytes := [60;47] ++ name ++ [62].

Fixpoint block_html (b : block) : bytes :=
  let fix blocks_html (l : list block) : bytes := match l with [] => [] | x :: r => block_html x ++ blocks_html r end in
  match b with
  | BPara _ a => tag [112] ++ atoms_html a ++ ctag [112] ++ nl
  | BHeading _ lv _ a => tag ([104] ++ dec lv) ++ atoms_html a ++ ctag ([104] ++ dec lv) ++ nl
  | BHr _ _ => [60;104;114;32;47;62;10]
  | BCode st _ info lines =>
      [60;112;114;101;62;60;99;111;100;101] ++
      (match info with
       | [] => []
       | _ => if (2 <=? st) then [32;99;108;97;115;115;61;34;108;97;110;103;117;97;103;101;45] ++ esc_html info ++ [34] else []
       end) ++ [62] ++
      flat_map (fun l => esc_html l ++ nl) lines ++ [60;47;99;111;100;101;62;60;47;112;114;101;62;10]
  | BQuote bs => tag [98;108;111;99;107;113;117;111;116;101] ++ nl ++ blocks_html bs ++ ctag [98;108;111;99;107;113;117;111;116;101] ++ nl
  | BList ordered start _ _ tight items =>
      let name := if ordered then [111;108] else [117;108] in
      [60] ++ name ++ (if ordered && negb (start =? 1) then [32;115;116;97;114;116;61;34] ++ dec start ++ [34] else []) ++ [62;10] ++
      (fix items_html (its : list (list block)) : bytes :=
         match its with
         | [] => []
         | it :: r =>
           (if tight then
              match it with
              | BPara _ a :: rest => tag [108;105] ++ atoms_html a ++ (match rest with [] => [] | _ => nl ++ blocks_html rest end) ++ ctag [108;105] ++ nl
              | _ => tag [108;105] ++ nl ++ blocks_html it ++ ctag [108;105] ++ nl
              end
            else tag [108;105] ++ nl ++ blocks_html it ++ ctag [108;105] ++ nl) ++ items_html r
         end) items ++
      ctag name ++ nl
  | BHtml lines => flat_map (fun l => l ++ nl) lines
  end.
Definition html_of (d : doc) : bytes := flat_map block_html d.

(* ---------- the Markdown printer ---------- *)
(* reference definitions collected from the document: (label, dest, title) in order *)
Fixpoint atom_defs (a : atom) : list (bytes * bytes * option bytes) :=
  let fix go (l : list atom) := match l with [] => [] | x :: r => atom_defs x ++ go r end in
  match a with
  | AEmph _ b | AStrong _ b => go b
  | ALink style _ b dest title label => (if 2 <=? style then [(label, dest, title)] else []) ++ go b
  | _ => []
  end.
Definition atoms_defs (l : list atom) := flat_map atom_defs l.
Fixpoint block_defs (b : block) : list (bytes * bytes * option bytes) :=
  let fix go (l : list block) := match l with [] => [] | x :: r => block_defs x ++ go r end in
  match b with
  | BPara _ a | BHeading _ _ _ a => atoms_defs a
  | BQuote bs => go bs
  | BList _ _ _ _ _ items => (fix gi (its : list (list block)) := match its with [] => [] | it :: r => go it ++ gi r end) items
  | _ => []
  end.

Definition delim_bytes (d : N) (n : nat) : bytes := repeat (if d =? 0 then 42 else 95) n.
Definition title_md (t : option bytes) : bytes := match t with Some t => [32;34] ++ t ++ [34] | None => [] end.

Fixpoint atom_md (a : atom) : bytes :=
  let fix atoms_md (l : list atom) : bytes :=
    match l with
    | [] => []
    | [x] => atom_md x
    | x :: ((y :: _) as r) =>
        atom_md x ++ (match x, y with ASoft, _ | AHard _, _ | _, ASoft | _, AHard _ => [] | _, _ => sp end) ++ atoms_md r
    end in
  match a with
  | AWord w => w
  | AEsc c => [92; c]
  | AEnt sp_ cp =>
      if sp_ =? 0 then match ent_name cp with Some n => [38] ++ n ++ [59] | None => ref_decimal cp end
      else if sp_ =? 1 then ref_decimal cp else ref_hex cp
  | AEmph d b => delim_bytes d 1 ++ atoms_md b ++ delim_bytes d 1
  | AStrong d b => delim_bytes d 2 ++ atoms_md b ++ delim_bytes d 2
  | ACode c => [96] ++ c ++ [96]
  | ALink style variant b dest title label =>
      let text := [91] ++ atoms_md b ++ [93] in
      let lab := if variant =? 1 then upper label else label in
      if style =? 0 then text ++ [40] ++ dest ++ title_md title ++ [41]
      else if style =? 1 then text ++ [40;60] ++ dest ++ [62] ++ title_md title ++ [41]
      else if style =? 2 then text ++ [91] ++ lab ++ [93]
      else if style =? 3 then text ++ [91;93]
      else text
  | AImage alt src => [33;91] ++ join sp alt ++ [93;40] ++ src ++ [41]
  | AAuto u => [60] ++ u ++ [62]
  | ASoft => nl
  | AHard st => if st =? 0 then [32;32;10] else [92;10]
  end.
Fixpoint atoms_md (l : list atom) : bytes :=
  match l with
  | [] => []
  | [x] => atom_md x
  | x :: ((y :: _) as r) =>
      atom_md x ++ (match x, y with ASoft, _ | AHard _, _ | _, ASoft | _, AHard _ => [] | _, _ => sp end) ++ atoms_md r
  end.

(* lines of a block (without trailing newline); blocks are joined by one empty line *)
Fixpoint split_lines (v : bytes) (cur : bytes) : list bytes :=
  match v with
  | [] => [rev cur]
  | c :: r => if c =? 10 then rev cur :: split_lines r [] else split_lines r (c :: cur)
  end.
Definition hr_md (style : N) : bytes :=
  if style =? 0 then [42;42;42] else if style =? 1 then [45;45;45] else if style =? 2 then [95;95;95]
  else if style =? 3 then [42;32;42;32;42] else [45;45;45;45;45].
Definition marker_md (ordered : bool) (num : N) (delim marker : N) : bytes :=
  if ordered then dec num ++ [if delim =? 0 then 46 else 41]
  else [if marker =? 0 then 45 else if marker =? 1 then 43 else 42].

Fixpoint block_lines (b : block) : list bytes :=
  let fix blocks_lines (sep : bool) (l : list block) : list bytes :=
    match l with
    | [] => []
    | [x] => block_lines x
    | x :: r => block_lines x ++ (if sep then [[]] else []) ++ blocks_lines sep r
    end in
  match b with
  | BPara ind a => map (fun l => spaces ind ++ l) (split_lines (atoms_md a) [])
  | BHeading ind lv st a =>
      if st =? 2 then [spaces ind ++ atoms_md a; spaces ind ++ repeat (if lv =? 1 then 61 else 45) 3]
      else [spaces ind ++ repeat 35 (N.to_nat lv) ++ sp ++ atoms_md a ++ (if st =? 1 then sp ++ repeat 35 (N.to_nat lv) else [])]
  | BHr ind st => [spaces ind ++ hr_md st]
  | BCode st fl info lines =>
      if st =? 0 then map (fun l => [32;32;32;32] ++ l) lines
      else if st =? 1 then map (fun l => [9] ++ l) lines
      else let f := repeat (if st =? 2 then 96 else 126) (N.to_nat fl) in
           [f ++ info] ++ lines ++ [f]
  | BQuote bs => map (fun l => match l with [] => [62] | _ => [62;32] ++ l end) (blocks_lines true bs)
  | BList ordered start delim marker tight items =>
      (fix items_lines (num : N) (its : list (list block)) : list bytes :=
         match its with
         | [] => []
         | it :: r =>
           let m := marker_md ordered num delim marker ++ sp in
           let pad := repeat 32 (length m) in
           (match blocks_lines (negb tight) it with
            | [] => [m]
            | l0 :: ls => (m ++ l0) :: map (fun l => match l with [] => [] | _ => pad ++ l end) ls
            end) ++
           (match r with [] => [] | _ => if tight then [] else [[]] end) ++ items_lines (num + 1) r
         end) start items
  | BHtml lines => lines
  end.

Fixpoint doc_lines (d : doc) : list bytes :=
  match d with
  | [] => []
  | [x] => block_lines x
  | x :: r => block_lines x ++ [[]] ++ doc_lines r
  end.

Definition def_md (d : bytes * bytes * option bytes) : bytes :=
  let '(label, dest, title) := d in [91] ++ label ++ [93;58;32] ++ dest ++ title_md title.

(* final_newline: whether the source ends with a newline *)
Definition md_of (final_newline : bool) (d : doc) : bytes :=
  let defs := flat_map block_defs d in
  let ls := doc_lines d ++ (match defs with [] => [] | _ => [[]] ++ map def_md defs end) in
  join nl ls ++ (if final_newline then nl else []).
