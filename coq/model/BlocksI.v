(* The block-parser models instantiated with the tables dumped from the running code. *)
Require Import GM.model.Base GM.model.Util GM.model.Reader GM.model.Blocks GM.model.ListItem GM.model.LeafBlocks GM.model.CodeSpan GM.model.CodeBlock.
Require Import GM.gen.Tables.

Definition ListItemOpen := list_item_open space_table.
Definition ThematicBreakOpen := thematic_break_open space_table.
Definition AtxOpenR := atx_open_r space_table.
Definition FenceOpenR := fence_open_r space_table.
Definition FenceContinueR := fence_continue_r space_table.
Definition CodeSpanParse := code_span_parse space_table.
Definition CodeBlockOpen := code_block_open space_table.
Definition CodeBlockContinue := code_block_continue space_table.
Definition CodeBlockClose := code_block_close space_table.
