(* The GFM parser model with its output checked (as model/ParseChecked.v does for the default
   parser): ParseTreeGfmC yields a tree only if it is well formed (HtmlSpec.wf_tree), Panic
   otherwise, so that the renderer theorems hold for the composed pipeline without a hypothesis.
   The correspondence runs compare ConvertModelGfmC with goldmark.Convert under extension.GFM
   (case kind ConvertGfm), so a tree failing the check would show as a disagreement. *)
Require Import GM.model.Base GM.model.Util GM.model.Reader GM.model.HtmlWriter GM.model.Html GM.model.HtmlSpec GM.model.HtmlI
               GM.model.InlineParseX GM.model.GfmParse GM.model.GfmI.

Definition ParseTreeXC (xc : xcfg) (src : bytes) : result tree :=
  t <- ParseTreeX xc src ;; if wf_tree src t then Ok t else Panic.
Definition ConvertModelXC (xc : xcfg) (cfg : rcfg) (src : bytes) : result bytes :=
  t <- ParseTreeXC xc src ;; RenderHTML cfg src t.
Definition ConvertModelGfmC (cfg : rcfg) (src : bytes) : result bytes := ConvertModelXC gfm_all cfg src.
