(* Models of three leaf block parsers, as pure functions of the peeked line (C02: equivalent
   spellings of thematic breaks, ATX headings and code fences):
     parser/thematic_break.go  isThematicBreak
     parser/atx_heading.go     atxHeadingParser.Open without the Attribute option
     parser/fcode_block.go     fencedCodeBlockParser.Open, and the closing-fence test and
                               indentation removal of Continue
   Positions are indices into the peeked line (which starts with the segment's padding). *)
Require Import GM.model.Base GM.model.Util GM.model.Reader GM.model.Blocks GM.model.ListItem.
From Coq Require Import ZArith.
Open Scope Z_scope.

Section WithTables.
Variable space_table : list N.
Notation is_space := (is_space space_table).
Notation trim_left_space_len := (trim_left_space_len space_table).
Notation trim_right_space_len := (trim_right_space_len space_table).

(* ---------- isThematicBreak(line, offset) ---------- *)
Fixpoint tb_scan (l : bytes) (mark : N) (count : Z) : option Z :=
  match l with
  | [] => Some count
  | c :: r =>
    if is_space c then tb_scan r mark count
    else if N.eqb mark 0 then
      (if (N.eqb c 42 || N.eqb c 45 || N.eqb c 95)%bool then tb_scan r c 1 else None)
    else if N.eqb c mark then tb_scan r mark (count + 1) else None
  end.
Definition is_thematic_break (line : bytes) (offset : Z) : bool :=
  let '(w, pos) := indent_width line offset in
  if 3 <? w then false
  else match tb_scan (zskip pos line) 0%N 0 with Some c => 2 <? c | None => false end.

(* ---------- atxHeadingParser.Open (Attribute off) ----------
   None: declines.  Some (level, None): heading without a line.  Some (level, Some (a, b)):
   heading whose single line is line[a:b]. *)
Fixpoint count_byte (ch : N) (l : bytes) : Z :=
  match l with c :: r => if N.eqb c ch then 1 + count_byte ch r else 0 | [] => 0 end.
(* i = stop-1; for ; line[i] == '#' && i >= start; i-- {}   (indices stay >= start-1 >= 0 here) *)
Fixpoint back_over_hashes (fuel : nat) (line : bytes) (i start : Z) : Z :=
  match fuel with
  | O => i
  | S f => if (N.eqb (nth_byte line i) 35 && (start <=? i))%bool then back_over_hashes f line (i - 1) start else i
  end.
Definition atx_open (line : bytes) (pos : Z) : result (option (Z * option (Z * Z))) :=
  if pos <? 0 then Ok None
  else
    let l := zlen line in
    let i := pos + count_byte 35 (zskip pos line) in
    let level := i - pos in
    if ((i =? pos) || (6 <? level))%bool then Ok None
    else if i =? l then Ok (Some (level, None))
    else
      let tl := trim_left_space_len (zskip i line) in
      if tl =? 0 then Ok None
      else
        let start := if l <=? i + tl then l - 1 else i + tl in
        let stop0 := l - trim_right_space_len line in
        let stop :=
          if stop0 <=? start then start
          else
            let j := back_over_hashes (length line) line (stop0 - 1) start in
            if j <? 0 then -1     (* line[-1]: cannot happen, start >= 1 *)
            else
            let j := if (negb (j =? stop0 - 1) && negb (is_space (nth_byte line j)))%bool then stop0 - 1 else j in
            j + 1 in
        if stop <? 0 then Panic
        else
        let body := zfirst (stop - start) (zskip start line) in
        if Nat.eqb (length (trim_right body [35%N])) 0 then Ok (Some (level, None))
        else Ok (Some (level, Some (start, stop))).

(* ---------- fencedCodeBlockParser.Open ----------
   None: declines.  Some (char, indent, length, info) with info = Some (a, b): line[a:b]. *)
Definition fence_open (line : bytes) (pos : Z) : result (option (N * Z * Z * option (Z * Z))) :=
  if pos <? 0 then Ok None
  else
    c <- at_ line pos ;;
    if negb (N.eqb c 96 || N.eqb c 126) then Ok None
    else
      let l := zlen line in
      let n := count_byte c (zskip pos line) in
      let i := pos + n in
      if n <? 3 then Ok None
      else if i <? l - 1 then
        let rest := zskip i line in
        let left := trim_left_space_len rest in
        let right := trim_right_space_len rest in
        if left <? zlen rest - right then
          let value := zfirst (zlen rest - right - left) (zskip left rest) in
          if (N.eqb c 96 && existsb (N.eqb 96) value)%bool then Ok None
          else Ok (Some (c, pos, n, Some (i + left, l - right)))
        else Ok (Some (c, pos, n, None))
      else Ok (Some (c, pos, n, None)).

(* ---------- fencedCodeBlockParser.Continue ----------
   fence_continue: inl adv: the line closes the block and the reader advances by adv.
   inr (pos, padding): a content line whose segment starts at line index pos with that padding
   (before preserveLeadingTabInCodeBlock looks at it). *)
Fixpoint first_non_space_position (l : bytes) (i : Z) : Z :=
  match l with
  | [] => -1
  | c :: r => if (N.eqb c 32 || N.eqb c 9)%bool then first_non_space_position r (i + 1)
              else if N.eqb c 10 then -1 else i
  end.
Definition fence_continue (line : bytes) (line_offset seg_padding : Z) (ch : N) (indent flen : Z) : Z + (Z * Z) :=
  let '(w, pos) := indent_width line line_offset in
  let n := count_byte ch (zskip pos line) in
  if ((w <? 4) && (flen <=? n) && is_blank space_table (zskip (pos + n) line))%bool then
    let newline := if N.eqb (nth_byte line (zlen line - 1)) 10 then 1 else 0 in
    inl (zlen line - newline)
  else
    let '(p, padding) := indent_position_padding line line_offset seg_padding indent in
    if p <? 0 then
      let q := first_non_space_position line 0 in
      inr (if q <? 0 then 0 else q - seg_padding, 0)      (* after the fix: the line starts with the padding *)
    else inr (p, padding).

(* ---------- the same parsers over the reader model ---------- *)
Definition thematic_break_open (r : reader) : result bool :=
  x <- r_peek_line r ;;
  let '(r, line, _) := x in
  y <- r_line_offset r ;;
  let '(_, off) := y in
  Ok (is_thematic_break (match line with Some l => l | None => [] end) off).

Definition atx_open_r (r : reader) (pos : Z) : result (option (Z * option (Z * Z))) :=
  x <- r_peek_line r ;;
  let '(_, line, _) := x in
  match line with Some l => atx_open l pos | None => Panic end.

Definition fence_open_r (r : reader) (pos : Z) : result (option (N * Z * Z * option (Z * Z))) :=
  x <- r_peek_line r ;;
  let '(_, line, _) := x in
  match line with Some l => fence_open l pos | None => Panic end.

(* Continue: (closed, the appended line segment as (start, padding), the reader afterwards) *)
Definition fence_continue_r (r : reader) (ch : N) (indent flen : Z) : result (bool * option (Z * Z) * reader) :=
  x <- r_peek_line r ;;
  let '(r, line, sg) := x in
  match line with
  | None => Panic
  | Some line =>
    y <- r_line_offset r ;;
    let '(r, off) := y in
    match fence_continue line off (s_pad sg) ch indent flen with
    | inl adv => r' <- r_advance r adv ;; Ok (true, None, r')
    | inr (pos, padding) =>
      let seg_start := s_start sg + pos in
      (* preserveLeadingTabInCodeBlock (code_block.go:93) *)
      t <- (if padding =? 0 then Ok ((seg_start, padding), r)
            else
              let '(sl, ss) := r_position r in
              r <- r_set_position r sl (mkseg (s_start ss - 1) (s_stop ss)) ;;
              z <- r_line_offset r ;;
              let '(r, off2) := z in
              r <- r_set_position r sl ss ;;
              Ok (if off + indent =? off2 then (seg_start - 1, 0) else (seg_start, padding), r)) ;;
      let '(adj, r) := t in
      r' <- r_advance_and_set_padding r (s_stop sg - s_start sg - pos - 1) padding ;;
      Ok (false, Some adj, r')
    end
  end.

End WithTables.
