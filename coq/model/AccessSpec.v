(* Classification of the store sites dumped from the source (gen/Access.v): which stores can
   touch state shared between calls / goroutines (C06, C07). *)
Require Import GM.model.Base.
Open Scope N_scope.

Definition site := (bytes * bytes * bytes * bytes * bool * bool)%type.

Definition s_ (l : list N) : bytes := l.
(* receiver types whose values belong to one call (or one document): readers, segments, the
   parse context and what it stores, copy-on-write buffers, AST nodes *)
Definition per_call_types : list bytes :=
  [ [114;101;97;100;101;114];                                   (* reader *)
    [98;108;111;99;107;82;101;97;100;101;114];                  (* blockReader *)
    [83;101;103;109;101;110;116;115];                            (* Segments *)
    [67;111;112;121;79;110;87;114;105;116;101;66;117;102;102;101;114]; (* CopyOnWriteBuffer *)
    [66;97;115;101;66;108;111;99;107];                           (* BaseBlock *)
    [66;97;115;101;78;111;100;101];                              (* BaseNode *)
    [68;111;99;117;109;101;110;116];                             (* Document *)
    [70;101;110;99;101;100;67;111;100;101;66;108;111;99;107];    (* FencedCodeBlock *)
    [83;116;114;105;110;103];                                    (* String *)
    [84;101;120;116];                                            (* Text *)
    [65;116;116;114;105;98;117;116;101;115];                     (* Attributes *)
    [68;101;108;105;109;105;116;101;114];                        (* Delimiter *)
    [105;100;115];                                               (* ids *)
    [112;97;114;115;101;67;111;110;116;101;120;116];             (* parseContext *)
    [117;110;99;108;111;115;101;100;67;111;117;110;116;101;114]  (* unclosedCounter *) ].

(* functions that run before an object is published (constructors, option setters,
   registration) or only from inside a Once.Do closure *)
Definition setup_fns : list bytes :=
  [ [83;101;116;79;112;116;105;111;110];                         (* SetOption *)
    [83;101;116;72;84;77;76;79;112;116;105;111;110];             (* SetHTMLOption *)
    [83;101;116;67;111;110;102;105;103];                         (* SetConfig *)
    [65;100;100;79;112;116;105;111;110;115];                     (* AddOptions *)
    [82;101;103;105;115;116;101;114];                            (* Register *)
    [97;100;100;66;108;111;99;107;80;97;114;115;101;114];        (* addBlockParser *)
    [97;100;100;73;110;108;105;110;101;80;97;114;115;101;114];   (* addInlineParser *)
    [97;100;100;80;97;114;97;103;114;97;112;104;84;114;97;110;115;102;111;114;109;101;114]; (* addParagraphTransformer *)
    [97;100;100;65;83;84;84;114;97;110;115;102;111;114;109;101;114]; (* addASTTransformer *)
    [65;100;100];                                                (* Add (BytesFilter construction) *)
    [83;101;116;80;97;114;115;101;114];                          (* SetParser *)
    [83;101;116;82;101;110;100;101;114;101;114];                 (* SetRenderer *)
    [105;110;105;116];                                           (* init *)
    [78;101;119;78;111;100;101;75;105;110;100];                  (* NewNodeKind *)
    [78;101;119;67;111;110;116;101;120;116;75;101;121]           (* NewContextKey *) ].

Definition mem_b (x : bytes) (l : list bytes) : bool := existsb (bytes_eqb x) l.

Definition site_ok (s : site) : bool :=
  let '(pkg, recv, fn, target, in_do, pkg_level) := s in
  in_do || (negb pkg_level && mem_b recv per_call_types) || mem_b fn setup_fns.

Definition accesses_ok (sites : list site) : bool := forallb site_ok sites.
