(* Model of bufio.Writer (Go standard library, src/bufio/bufio.go) over a destination writer
   that starts to fail at a byte offset, and of renderer.Render's use of it (C14):
   wrap the destination unless it already is a BufWriter, let the node renderers write
   (ignoring per-write errors, as they do), return Flush's error. *)
Require Import GM.model.Base.
From Coq Require Import ZArith.
Open Scope Z_scope.

(* the destination: accepts bytes until `limit` bytes have been accepted in total; a write that
   would go beyond accepts what still fits, reports an error, and every later write fails *)
Record dest := { d_acc : bytes; d_limit : option Z; d_failed : bool }.
Definition new_dest (limit : option Z) : dest := {| d_acc := []; d_limit := limit; d_failed := false |}.

Definition dest_write (d : dest) (p : bytes) : dest * Z * bool :=
  match d_limit d with
  | None => ({| d_acc := d_acc d ++ p; d_limit := None; d_failed := false |}, zlen p, false)
  | Some k =>
    if d_failed d then (d, 0, true)
    else if zlen (d_acc d) + zlen p <=? k
    then ({| d_acc := d_acc d ++ p; d_limit := Some k; d_failed := false |}, zlen p, false)
    else let n := Z.max 0 (k - zlen (d_acc d)) in
         ({| d_acc := d_acc d ++ firstn (Z.to_nat n) p; d_limit := Some k; d_failed := true |}, n, true)
  end.

Record bw := { w_buf : bytes; w_err : bool; w_size : Z; w_dest : dest }.
Definition new_bw (size : Z) (d : dest) : bw := {| w_buf := []; w_err := false; w_size := size; w_dest := d |}.
Definition available (b : bw) : Z := w_size b - zlen (w_buf b).
Definition buffered (b : bw) : Z := zlen (w_buf b).

(* Flush *)
Definition bw_flush (b : bw) : bw * bool :=
  if w_err b then (b, true)
  else match w_buf b with
  | [] => (b, false)
  | _ =>
    let '(d, n, err) := dest_write (w_dest b) (w_buf b) in
    (* n < b.n && err == nil -> ErrShortWrite: cannot happen with this destination *)
    if err then ({| w_buf := skipn (Z.to_nat n) (w_buf b); w_err := true; w_size := w_size b; w_dest := d |}, true)
    else ({| w_buf := []; w_err := false; w_size := w_size b; w_dest := d |}, false)
  end.

(* Write *)
Fixpoint bw_write_loop (fuel : nat) (b : bw) (p : bytes) : bw * bytes :=
  match fuel with
  | O => (b, p)
  | S f =>
    if (available b <? zlen p) && negb (w_err b) then
      if buffered b =? 0 then
        let '(d, n, err) := dest_write (w_dest b) p in
        bw_write_loop f {| w_buf := w_buf b; w_err := err; w_size := w_size b; w_dest := d |} (skipn (Z.to_nat n) p)
      else
        let n := Z.min (available b) (zlen p) in
        let b1 := {| w_buf := w_buf b ++ firstn (Z.to_nat n) p; w_err := w_err b; w_size := w_size b; w_dest := w_dest b |} in
        let '(b2, _) := bw_flush b1 in
        bw_write_loop f b2 (skipn (Z.to_nat n) p)
    else (b, p)
  end.
Definition bw_write (b : bw) (p : bytes) : bw :=
  let '(b, p) := bw_write_loop (length p + 3) b p in
  if w_err b then b
  else {| w_buf := w_buf b ++ firstn (Z.to_nat (available b)) p; w_err := false; w_size := w_size b; w_dest := w_dest b |}.

(* WriteString when the destination is not an io.StringWriter (the case for every destination
   used here): there is no direct write, the string goes through the buffer piece by piece *)
Fixpoint bw_write_string_loop (fuel : nat) (b : bw) (p : bytes) : bw * bytes :=
  match fuel with
  | O => (b, p)
  | S f =>
    if (available b <? zlen p) && negb (w_err b) then
      let n := Z.min (available b) (zlen p) in
      let b1 := {| w_buf := w_buf b ++ firstn (Z.to_nat n) p; w_err := w_err b; w_size := w_size b; w_dest := w_dest b |} in
      let '(b2, _) := bw_flush b1 in
      bw_write_string_loop f b2 (skipn (Z.to_nat n) p)
    else (b, p)
  end.
Definition bw_write_string (b : bw) (p : bytes) : bw :=
  let '(b, p) := bw_write_string_loop (2 * length p + 3) b p in
  if w_err b then b
  else {| w_buf := w_buf b ++ firstn (Z.to_nat (available b)) p; w_err := false; w_size := w_size b; w_dest := w_dest b |}.

(* WriteByte *)
Definition bw_write_byte (b : bw) (c : N) : bw :=
  if w_err b then b
  else
    let b := if available b <=? 0 then fst (bw_flush b) else b in
    if w_err b then b
    else {| w_buf := w_buf b ++ [c]; w_err := false; w_size := w_size b; w_dest := w_dest b |}.

(* WriteRune for a rune whose UTF-8 encoding `enc` has 2..4 bytes *)
Definition bw_write_rune (b : bw) (enc : bytes) : bw :=
  if w_err b then b
  else if available b <? 4 then
    let b := fst (bw_flush b) in
    if w_err b then b
    else if available b <? 4 then bw_write_string b enc
    else {| w_buf := w_buf b ++ enc; w_err := false; w_size := w_size b; w_dest := w_dest b |}
  else {| w_buf := w_buf b ++ enc; w_err := false; w_size := w_size b; w_dest := w_dest b |}.

Inductive wop := WWrite (p : bytes) | WString (p : bytes) | WByte (c : N) | WRune (enc : bytes).
Definition wop_bytes (o : wop) : bytes := match o with WWrite p => p | WString p => p | WByte c => [c] | WRune e => e end.
Definition bw_step (b : bw) (o : wop) : bw :=
  match o with WWrite p => bw_write b p | WString p => bw_write_string b p | WByte c => bw_write_byte b c | WRune e => bw_write_rune b e end.

(* renderer.Render on a destination: all writes of the walk, then Flush; the error returned *)
Definition render_to (size : Z) (limit : option Z) (ops : list wop) : dest * bool :=
  let b := fold_left bw_step ops (new_bw size (new_dest limit)) in
  let '(b, err) := bw_flush b in
  (w_dest b, err).

Definition full_output (ops : list wop) : bytes := flat_map wop_bytes ops.

Fixpoint is_prefix (p s : bytes) : bool :=
  match p, s with
  | [], _ => true
  | a :: p', b :: s' => N.eqb a b && is_prefix p' s'
  | _ :: _, [] => false
  end.
